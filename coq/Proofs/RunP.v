(** * Bunch independence of a whole run (C08 item 4), by induction over the number of steps.

    [agree n b D b' D']: bunch [b] of grid [D] and bunch [b'] of grid [D'] hold the same data.  Every
    source map of the step preserves this relation between an [nb]-bunch and an [nb']-bunch run
    (same grid size, interpolation order, RF field, drift field and Fokker-Planck table) as long as
    the wake slots hand the two bunches the same potentials; hence so do the step (for any order of
    the maps, in particular the generated one) and the run of any length.  The slice theorem
    (nb vs 1 bunch), "identical bunches stay identical" (b1 vs b2 of one run) and "the other bunches
    do not depend on bucket b" (same run, data differing in bucket b only) are instances; an empty
    bucket stays empty because every map sends the zero grid to zero. *)
From Coq Require Import List ZArith QArith Qcanon Lia Bool Ring Field.
From Inovesa Require Import Base.FieldKit Base.Sums Base.Float32 Gen.Gen_Coeffs Gen.Gen_FPStencil Model.Kick Model.RF
  Model.FokkerPlanck Model.StepKinds Gen.Gen_StepOrder Model.RunKinds Gen.Gen_WakeUpdate Gen.Gen_Identity
  Model.Copy Model.WakeUpdate Model.Run Proofs.WeightsP Proofs.KickP Proofs.KickGridP Proofs.RFP Proofs.FPGridP
  Proofs.CopyP Proofs.WakeUpdateP.
Import ListNotations.
Local Open Scope Z_scope.

Definition agree (n b : Z) (D : Z -> Qc) (b' : Z) (D' : Z -> Qc) : Prop :=
  forall x y, 0 <= x < n -> 0 <= y < n -> D (didx n b x y) = D' (didx n b' x y).

(** the two wake slots hand bunch [b] resp. [b'] the same potentials *)
Definition wk_agree (n b b' : Z) (wk wk' : option (Z -> Qc)) : Prop :=
  match wk, wk' with
  | Some wp, Some wp' => forall x, 0 <= x < n -> wp (b * n + x) = wp' (b' * n + x)
  | None, None => True
  | _, _ => False
  end.

Lemma agree_flat n b D b' D' :
  0 < n -> (agree n b D b' D' <-> forall i, 0 <= i < n * n -> D (b * n * n + i) = D' (b' * n * n + i)).
Proof.
  intros Hn. split.
  - intros A i Hi.
    assert (Ei : i = (i / n) * n + i mod n) by (rewrite Z.mul_comm; apply Z.div_mod; lia).
    assert (Hy : 0 <= i mod n < n) by (apply Z.mod_pos_bound; lia).
    assert (Hx : 0 <= i / n < n) by (split; [apply Z.div_pos; lia | apply Z.div_lt_upper_bound; lia]).
    specialize (A (i / n) (i mod n) Hx Hy). unfold didx in A.
    replace (b * n * n + i) with (b * n * n + i / n * n + i mod n) by lia.
    replace (b' * n * n + i) with (b' * n * n + i / n * n + i mod n) by lia. exact A.
  - intros F x y Hx Hy. unfold didx. rewrite <- !Z.add_assoc. apply F. nia.
Qed.

Lemma agree_refl n b D : agree n b D b D.
Proof. intros x y _ _. reflexivity. Qed.
Lemma agree_sym n b D b' D' : agree n b D b' D' -> agree n b' D' b D.
Proof. intros A x y Hx Hy. symmetry. apply A; assumption. Qed.
Lemma agree_trans n b D b' D' b'' D'' : agree n b D b' D' -> agree n b' D' b'' D'' -> agree n b D b'' D''.
Proof. intros A B x y Hx Hy. rewrite A by assumption. apply B; assumption. Qed.

(** ** cells of the flat kick loops *)
Lemma apply_y_at n nb it H D b x y :
  0 < n -> 0 <= b -> 0 <= x < n -> 0 <= y < n ->
  apply_y n nb it H D (didx n b x y) = apply_y_cell n nb it H D b x y.
Proof.
  intros Hn Hb Hx Hy. unfold apply_y. rewrite didx_flat.
  destruct (cell_decode n b x y) as (-> & -> & ->); try lia. reflexivity.
Qed.
Lemma apply_x_at n nb it H D b x y :
  0 < n -> 0 <= b -> 0 <= x < n -> 0 <= y < n ->
  apply_x n nb it H D (didx n b x y) = apply_x_cell n nb it H D b x y.
Proof.
  intros Hn Hb Hx Hy. unfold apply_x. rewrite didx_flat.
  destruct (cell_decode n b x y) as (-> & -> & ->); try lia. reflexivity.
Qed.

Lemma wrap32_nonneg z : 0 <= wrap32 z.
Proof. unfold wrap32. apply Z.mod_pos_bound. reflexivity. Qed.

Lemma in_zrange j m : In j (zrange m) -> 0 <= j < m.
Proof.
  unfold zrange. intros Hj. apply in_map_iff in Hj. destruct Hj as (k & <- & Hk). apply in_seq in Hk. lia.
Qed.

Lemma row_out_ext2 n it (E E' : Z -> Z * Qc) (r r' : Z -> Qc) y :
  (forall j, 0 <= j < it -> E j = E' j) -> (forall ys, 0 <= ys < n -> r ys = r' ys) ->
  row_out n it E r y = row_out n it E' r' y.
Proof.
  intros HE Hr. unfold row_out. f_equal. apply map_ext_in. intros j Hj. apply in_zrange in Hj. cbv zeta.
  rewrite HE by exact Hj. set (ys := wrap32 _).
  destruct (Z.ltb_spec ys n) as [L|G]; [|reflexivity].
  rewrite Hr; [reflexivity|]. split; [apply wrap32_nonneg | exact L].
Qed.

(** ** each map preserves [agree] *)
Lemma ykick_agree n nb nb' it (H H' : Z -> Z * Qc) (D D' : Z -> Qc) b b' :
  0 < n -> 0 <= b -> 0 <= b' ->
  (forall x j, 0 <= x < n -> 0 <= j < it -> H (hidx_y n nb it b x j) = H' (hidx_y n nb' it b' x j)) ->
  agree n b D b' D' -> agree n b (apply_y n nb it H D) b' (apply_y n nb' it H' D').
Proof.
  intros Hn Hb Hb' HH A x y Hx Hy. rewrite !apply_y_at by lia.
  unfold apply_y_cell. apply row_out_ext2.
  - intros j Hj. apply HH; assumption.
  - intros ys Hys. apply A; assumption.
Qed.

Lemma xkick_agree n nb nb' it (H : Z -> Z * Qc) (D D' : Z -> Qc) b b' :
  0 < n -> 0 <= b -> 0 <= b' ->
  agree n b D b' D' -> agree n b (apply_x n nb it H D) b' (apply_x n nb' it H D').
Proof.
  intros Hn Hb Hb' A x y Hx Hy. rewrite !apply_x_at by lia.
  unfold apply_x_cell. apply row_out_ext2.
  - intros j Hj. reflexivity.
  - intros xs Hxs. apply A; assumption.
Qed.

Lemma fp_agree n ip (H : Z -> Z * Qc) (D D' : Z -> Qc) b b' :
  0 < n -> 0 <= ip -> (forall k, 0 <= k < n * ip -> 0 <= fst (H k) < n) ->
  agree n b D b' D' -> agree n b (fp_apply (K:=QcF) n n ip H D) b' (fp_apply (K:=QcF) n n ip H D').
Proof.
  intros Hn Hip Hin A x y Hx Hy. rewrite !didx_flat.
  rewrite !(fp_apply_cell QcF) by lia.
  unfold fp_col_out. f_equal. apply map_ext_in. intros j Hj. apply in_zrange in Hj. cbv zeta.
  assert (Hk : 0 <= fst (H (y * ip + j)) < n) by (apply Hin; nia).
  f_equal. specialize (A x (fst (H (y * ip + j))) Hx Hk). rewrite !didx_flat in A. exact A.
Qed.

Lemma didx_in_grid n nb b x y :
  0 < n -> 0 <= b < nb -> 0 <= x < n -> 0 <= y < n -> 0 <= didx n b x y < nb * n * n.
Proof. intros Hn Hb Hx Hy. unfold didx. nia. Qed.

Lemma ident_agree n nb nb' (D D' : Z -> Qc) b b' :
  0 < n -> 0 <= b < nb -> 0 <= b' < nb' ->
  agree n b D b' D' -> agree n b (ident_apply nb n n D zeroG) b' (ident_apply nb' n n D' zeroG).
Proof.
  intros Hn Hb Hb' A x y Hx Hy. rewrite !ident_apply_spec.
  rewrite !in_rng_true by (apply didx_in_grid; assumption). apply A; assumption.
Qed.

(** the table entries the y kick reads for bunch [b] *)
Lemma updateSM_at n it offs r j : 0 <= j < it -> updateSM n it offs (r * it + j) = sm_entry n it (offs r) j.
Proof. intros Hj. unfold updateSM. rewrite div_lin, mod_lin by lia. reflexivity. Qed.

Lemma hidx_y_own n nb it b x j : 0 <= b < nb -> hidx_y n nb it b x j = (b * n + x) * it + j.
Proof. intros Hb. unfold hidx_y. replace (Z.min b (nb - 1)) with b by lia. reflexivity. Qed.

Lemma wake_table_read n nb it wp b x j :
  valid_it it -> 0 < n -> 0 <= b < nb -> 0 <= x < n -> 0 <= j < it ->
  wake_table n nb it wp (hidx_y n nb it b x j) = sm_entry n it (wp (b * n + x)) j.
Proof.
  intros Hv Hn Hb Hx Hj. destruct (valid_it_range it Hv) as [Hi _].
  rewrite hidx_y_own by exact Hb.
  assert (Hr : 0 <= b * n + x < nb * n) by nia.
  assert (Hk : 0 <= (b * n + x) * it + j < nb * n * it) by nia.
  rewrite wake_table_spec by (try exact Hk; lia). apply updateSM_at. exact Hj.
Qed.

Section Maps.
  Variable P : run_par.
  Let n := rp_n P.
  Let it := rp_it P.
  Hypothesis Hv : valid_it it.
  Hypothesis Hn : 0 < n.
  Hypothesis Hfp : fp_inside P.

  Lemma smap_agree nb nb' wk wk' m D D' b b' :
    0 <= b < nb -> 0 <= b' < nb' -> wk_agree n b b' wk wk' ->
    agree n b D b' D' -> agree n b (apply_smap P nb wk m D) b' (apply_smap P nb' wk' m D').
  Proof.
    intros Hb Hb' Hw A. destruct (valid_it_range it Hv) as [Hi _].
    destruct m; unfold apply_smap; fold n; fold it.
    - (* wake slot *)
      destruct wk as [wp|], wk' as [wp'|]; cbn [wk_agree] in Hw; try contradiction.
      + apply ykick_agree; try lia; [|exact A].
        intros x j Hx Hj. rewrite !wake_table_read by (assumption || lia). rewrite Hw by exact Hx. reflexivity.
      + apply ident_agree; assumption.
    - (* RF kick *)
      apply ykick_agree; try lia; [|exact A].
      intros x j Hx Hj. rewrite !hidx_y_own by assumption. rewrite !updateSM_at by exact Hj.
      destruct (rf_offsets_all_bunches QcF n (rp_rf P) b x Hx) as [-> _].
      destruct (rf_offsets_all_bunches QcF n (rp_rf P) b' x Hx) as [-> _]. reflexivity.
    - (* drift *)
      apply xkick_agree; try lia. exact A.
    - (* damping / diffusion *)
      unfold fp_inside in Hfp. destruct (rp_fp P) as [[ip H]|].
      + destruct Hfp as [Hip Hin]. apply fp_agree; assumption.
      + apply ident_agree; assumption.
  Qed.

  Lemma maps_agree nb nb' wk wk' order : forall D D' b b',
    0 <= b < nb -> 0 <= b' < nb' -> wk_agree n b b' wk wk' ->
    agree n b D b' D' -> agree n b (apply_maps P nb wk order D) b' (apply_maps P nb' wk' order D').
  Proof.
    unfold apply_maps. induction order as [|m rest IH]; intros D D' b b' Hb Hb' Hw A; cbn [fold_left]; [exact A|].
    apply IH; try assumption. apply smap_agree; assumption.
  Qed.

  (** ** the run: induction over the number of steps *)
  Theorem run_agree nb nb' (wks wks' : nat -> option (Z -> Qc)) b b' :
    0 <= b < nb -> 0 <= b' < nb' ->
    forall k, (forall j, (j < k)%nat -> wk_agree n b b' (wks j) (wks' j)) ->
    forall D D', agree n b D b' D' -> agree n b (run P nb wks k D) b' (run P nb' wks' k D').
  Proof.
    intros Hb Hb'. induction k as [|k IH]; intros Hw D D' A; cbn [run]; [exact A|].
    unfold run_step. apply maps_agree; try assumption.
    - apply Hw. lia.
    - apply IH; [|exact A]. intros j Hj. apply Hw. lia.
  Qed.

  (** (a) slice b of the nb-bunch run is the single-bunch run of slice b driven by bunch b's wake
      potentials - every number of steps, every grid size, interpolation order, Fokker-Planck table
      reading inside its column, RF and drift field, every per-step wake potential *)
  Lemma wk_agree_slice b wk : wk_agree n b 0 wk (wk_slice n b wk).
  Proof. destruct wk as [wp|]; cbn; [|exact I]. intros x Hx. f_equal; lia. Qed.

  Lemma agree_slice b D : agree n b D 0 (slice n b D).
  Proof. intros x y Hx Hy. unfold slice, didx. f_equal; lia. Qed.

  Theorem run_slice nb wks k D b i :
    0 <= b < nb -> 0 <= i < n * n ->
    run P nb wks k D (b * n * n + i) = run P 1 (fun j => wk_slice n b (wks j)) k (slice n b D) i.
  Proof.
    intros Hb Hi.
    assert (A : agree n b (run P nb wks k D) 0 (run P 1 (fun j => wk_slice n b (wks j)) k (slice n b D))).
    { apply run_agree; try lia; [|apply agree_slice]. intros j _. apply wk_agree_slice. }
    apply (proj1 (agree_flat n b _ 0 _ Hn)) with (i := i) in A; [|exact Hi].
    rewrite A. f_equal; lia.
  Qed.

  (** (b) without impedance (Identity in the wake slot of every step) two bunches with equal data have
      equal data after every number of steps, and each is the single-bunch run *)
  Definition no_wake : nat -> option (Z -> Qc) := fun _ => None.

  Theorem identical_bunches_stay_identical nb k D b1 b2 :
    0 <= b1 < nb -> 0 <= b2 < nb ->
    (forall i, 0 <= i < n * n -> D (b1 * n * n + i) = D (b2 * n * n + i)) ->
    forall i, 0 <= i < n * n ->
      run P nb no_wake k D (b1 * n * n + i) = run P nb no_wake k D (b2 * n * n + i) /\
      run P nb no_wake k D (b1 * n * n + i) = run P 1 no_wake k (slice n b1 D) i.
  Proof.
    intros H1 H2 E i Hi. split.
    - assert (A : agree n b1 (run P nb no_wake k D) b2 (run P nb no_wake k D)).
      { apply run_agree; try assumption; [intros j _; exact I|]. apply (agree_flat n b1 D b2 D Hn). exact E. }
      apply (proj1 (agree_flat n b1 _ b2 _ Hn) A). exact Hi.
    - rewrite run_slice by assumption. reflexivity.
  Qed.

  (** the same with impedance, for bunches that are handed equal wake potentials *)
  Theorem equal_bunches_equal_wakes_stay_equal nb wks k D b1 b2 :
    0 <= b1 < nb -> 0 <= b2 < nb ->
    (forall j, (j < k)%nat -> wk_agree n b1 b2 (wks j) (wks j)) ->
    (forall i, 0 <= i < n * n -> D (b1 * n * n + i) = D (b2 * n * n + i)) ->
    forall i, 0 <= i < n * n -> run P nb wks k D (b1 * n * n + i) = run P nb wks k D (b2 * n * n + i).
  Proof.
    intros H1 H2 Hw E i Hi.
    assert (A : agree n b1 (run P nb wks k D) b2 (run P nb wks k D)).
    { apply run_agree; try assumption. apply (agree_flat n b1 D b2 D Hn). exact E. }
    apply (proj1 (agree_flat n b1 _ b2 _ Hn) A). exact Hi.
  Qed.

  (** ** (c) empty buckets *)
  Lemma qsum_zeros (l : list Qc) : (forall v, In v l -> v = 0%Qc) -> qsum l = 0%Qc.
  Proof.
    unfold qsum. induction l as [|a l IH]; intros Hz; cbn [fsum]; [reflexivity|].
    rewrite (Hz a) by (left; reflexivity). rewrite IH by (intros v Hin; apply Hz; right; exact Hin).
    qc_unf. ring.
  Qed.

  Lemma row_out_zero nn ii E y : row_out nn ii E (fun _ => 0%Qc) y = 0%Qc.
  Proof.
    unfold row_out. apply qsum_zeros. intros v Hin. apply in_map_iff in Hin. destruct Hin as (j & <- & _).
    cbv zeta. destruct (_ <? _); [ring|reflexivity].
  Qed.

  Lemma fp_zero ip H i : fp_apply (K:=QcF) n n ip H zeroG i = 0%Qc.
  Proof.
    unfold fp_apply, fp_col_out, zeroG. cbv zeta. apply qsum_zeros.
    intros v Hin. apply in_map_iff in Hin. destruct Hin as (j & <- & _).
    qc_unf. ring.
  Qed.

  Lemma smap_zeroG nb wk m b x y :
    0 <= b < nb -> 0 <= x < n -> 0 <= y < n -> apply_smap P nb wk m zeroG (didx n b x y) = 0%Qc.
  Proof.
    intros Hb Hx Hy.
    assert (Ei : forall i, ident_apply nb n n zeroG zeroG i = 0%Qc).
    { intros i. rewrite ident_apply_spec. destruct (in_rng _ _); reflexivity. }
    destruct m; unfold apply_smap; fold n; fold it.
    - destruct wk as [wp|]; [|apply Ei]. rewrite apply_y_at by lia. apply row_out_zero.
    - rewrite apply_y_at by lia. apply row_out_zero.
    - rewrite apply_x_at by lia. apply row_out_zero.
    - destruct (rp_fp P) as [[ip H]|]; [apply fp_zero | apply Ei].
  Qed.

  Lemma wk_agree_refl b wk : wk_agree n b b wk wk.
  Proof. destruct wk as [wp|]; cbn; [intros; reflexivity | exact I]. Qed.

  Definition empty_bucket (b : Z) (D : Z -> Qc) : Prop := agree n b D b zeroG.

  Lemma smap_keeps_empty nb wk m b D :
    0 <= b < nb -> empty_bucket b D -> empty_bucket b (apply_smap P nb wk m D).
  Proof.
    intros Hb E x y Hx Hy.
    rewrite (smap_agree nb nb wk wk m D zeroG b b Hb Hb (wk_agree_refl b wk) E x y Hx Hy).
    rewrite smap_zeroG by assumption. reflexivity.
  Qed.

  Lemma maps_keep_empty nb wk order : forall b D,
    0 <= b < nb -> empty_bucket b D -> empty_bucket b (apply_maps P nb wk order D).
  Proof.
    unfold apply_maps. induction order as [|m rest IH]; intros b D Hb E; cbn [fold_left]; [exact E|].
    apply IH; [exact Hb|]. apply smap_keeps_empty; assumption.
  Qed.

  (** an empty bucket stays empty for all time, whatever wake potentials the field produces ... *)
  Theorem empty_bucket_stays_empty nb wks k D b i :
    0 <= b < nb -> (forall i, 0 <= i < n * n -> D (b * n * n + i) = 0%Qc) ->
    0 <= i < n * n -> run P nb wks k D (b * n * n + i) = 0%Qc.
  Proof.
    intros Hb E Hi.
    assert (E0 : empty_bucket b D).
    { apply (agree_flat n b D b zeroG Hn). intros j Hj. rewrite E by exact Hj. reflexivity. }
    assert (A : empty_bucket b (run P nb wks k D)).
    { induction k as [|k IH]; cbn [run]; [exact E0|]. unfold run_step. apply maps_keep_empty; assumption. }
    apply (proj1 (agree_flat n b _ b zeroG Hn) A). exact Hi.
  Qed.

  (** ... and what a bucket holds does not reach the other bunches: two runs that are handed the same
      wake potentials and differ in the data of bucket [b] only agree on every other bunch *)
  Theorem other_bunches_ignore_bucket nb wks k D D' b b' i :
    0 <= b' < nb -> b' <> b ->
    (forall c j, 0 <= c < nb -> c <> b -> 0 <= j < n * n -> D (c * n * n + j) = D' (c * n * n + j)) ->
    0 <= i < n * n -> run P nb wks k D (b' * n * n + i) = run P nb wks k D' (b' * n * n + i).
  Proof.
    intros Hb' Ne E Hi.
    assert (A : agree n b' (run P nb wks k D) b' (run P nb wks k D')).
    { apply run_agree; try assumption.
      - intros j _. apply wk_agree_refl.
      - apply (agree_flat n b' D b' D' Hn). intros j Hj. apply E; assumption. }
    apply (proj1 (agree_flat n b' _ b' _ Hn) A). exact Hi.
  Qed.
End Maps.

(** ** Identity map: bunch b of the copy is bunch b of the input, charge and data unchanged *)
Lemma ident_slice nb n (D old old' : Z -> Qc) b i :
  0 < n -> 0 <= b < nb -> 0 <= i < n * n ->
  ident_apply nb n n D old (b * n * n + i) = ident_apply 1 n n (slice n b D) old' i.
Proof.
  intros Hn Hb Hi. rewrite !ident_apply_spec. rewrite !in_rng_true by nia. reflexivity.
Qed.

(** ** the list front-end computes the run *)
Lemma getQ_grid_list nb n G i : 0 <= i < nb * n * n -> getQ (grid_list nb n G) i = G i.
Proof.
  intros Hi. unfold getQ, grid_list. replace (0 <=? i) with true by (symmetry; apply Z.leb_le; lia).
  unfold zrange. rewrite map_map.
  rewrite nth_indep with (d' := G (Z.of_nat 0)) by (rewrite map_length, seq_length; lia).
  rewrite (map_nth (fun k => G (Z.of_nat k)) (seq 0 (Z.to_nat (nb * n * n))) 0%nat).
  rewrite seq_nth by lia. f_equal. lia.
Qed.

Definition all_agree (n nb : Z) (D D' : Z -> Qc) : Prop := forall b, 0 <= b < nb -> agree n b D b D'.

Lemma all_agree_grid_list n nb G : 0 < n -> all_agree n nb (getQ (grid_list nb n G)) G.
Proof. intros Hn b Hb x y Hx Hy. apply getQ_grid_list. apply didx_in_grid; assumption. Qed.

Section ListRun.
  Variable P : run_par.
  Let n := rp_n P.
  Hypothesis Hv : valid_it (rp_it P).
  Hypothesis Hn : 0 < n.
  Hypothesis Hfp : fp_inside P.

  Lemma getH_map (T : Z -> Z * Qc) m k : 0 <= k < m -> getH (map T (zrange m)) k = T k.
  Proof.
    intros Hk. unfold getH. replace (0 <=? k) with true by (symmetry; apply Z.leb_le; lia).
    unfold zrange. rewrite map_map.
    rewrite nth_indep with (d' := T (Z.of_nat 0)) by (rewrite map_length, seq_length; lia).
    rewrite (map_nth (fun j => T (Z.of_nat j)) (seq 0 (Z.to_nat m)) 0%nat).
    rewrite seq_nth by lia. f_equal. lia.
  Qed.

  Lemma apply_smap_list_correct nb wk m data D :
    all_agree n nb (getQ data) D ->
    all_agree n nb (getQ (apply_smap_list P nb wk m data)) (apply_smap P nb wk m D).
  Proof.
    intros A b Hb. destruct (valid_it_range (rp_it P) Hv) as [Hi _].
    assert (G : agree n b (apply_smap P nb wk m (getQ data)) b (apply_smap P nb wk m D)).
    { apply smap_agree; try assumption; [apply wk_agree_refl | apply A; exact Hb]. }
    assert (Other : forall m', agree n b (getQ (grid_list nb n (apply_smap P nb wk m' (getQ data)))) b (apply_smap P nb wk m' (getQ data))).
    { intros m'. apply (all_agree_grid_list n nb _ Hn b Hb). }
    unfold apply_smap_list. fold n.
    destruct m; try (eapply agree_trans; [apply Other | exact G]).
    destruct wk as [wp|]; [|eapply agree_trans; [apply Other | exact G]].
    cbv zeta.
    apply agree_trans with (b' := b) (D' := apply_y n nb (rp_it P)
                                              (getH (map (wake_table n nb (rp_it P) wp) (zrange (nb * n * rp_it P)))) (getQ data)).
    - apply (all_agree_grid_list n nb _ Hn b Hb).
    - apply agree_trans with (b' := b) (D' := apply_smap P nb (Some wp) MWake (getQ data)); [|exact G].
      unfold apply_smap. fold n. apply ykick_agree; try lia; [|apply agree_refl].
      intros x j Hx Hj. apply getH_map. rewrite hidx_y_own by exact Hb.
      assert (0 <= b * n + x < nb * n) by nia. nia.
  Qed.

  Lemma apply_maps_list_correct nb wk order : forall data D,
    all_agree n nb (getQ data) D ->
    all_agree n nb (getQ (apply_maps_list P nb wk order data)) (apply_maps P nb wk order D).
  Proof.
    unfold apply_maps_list, apply_maps. induction order as [|m rest IH]; intros data D A; cbn [fold_left]; [exact A|].
    apply IH. apply apply_smap_list_correct. exact A.
  Qed.

  (** [run_list] consumes the wake slots front to back: it is [run] with [wks j] = the j-th slot *)
  Definition slot (l : option (list Qc)) : option (Z -> Qc) :=
    match l with Some w => Some (getQ w) | None => None end.

  Lemma run_shift nb (wks : nat -> option (Z -> Qc)) k D :
    run P nb wks (S k) D = run P nb (fun j => wks (S j)) k (run_step P nb (wks O) D).
  Proof.
    induction k as [|k IH]; [reflexivity|].
    change (run P nb wks (S (S k)) D) with (run_step P nb (wks (S k)) (run P nb wks (S k) D)).
    rewrite IH. reflexivity.
  Qed.

  Theorem run_list_correct nb (wl : list (option (list Qc))) : forall data D,
    all_agree n nb (getQ data) D ->
    all_agree n nb (getQ (run_list P nb wl data))
              (run P nb (fun j => slot (nth j wl None)) (length wl) D).
  Proof.
    induction wl as [|w rest IH]; intros data D A; cbn [run_list length]; [exact A|].
    rewrite run_shift. cbn [nth].
    apply (IH _ (run_step P nb (slot w) D)).
    unfold run_step. apply apply_maps_list_correct. exact A.
  Qed.
End ListRun.
