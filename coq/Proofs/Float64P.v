(** * [rnd53] (Model/Bounds.v) is IEEE-754 binary64 round-to-nearest-even, as Flocq defines it.

    [rndQ prec emin] is the computable rounding function both [rnd32] (prec 24, emin -126) and [rnd53]
    (prec 53, emin -1022) are instances of.  For every precision >= 1 and every rational [q]
      [Q2R (rndQ prec emin q) = round radix2 (FLT_exp (emin - prec + 1) prec) ZnearestE (Q2R q)]
    (no overflow handling on either side).  Consequences used for the padded lengths: [rnd53] is monotone and
    leaves integers of magnitude <= 2^53 unchanged.  This removes [rnd53] from the trusted base.
    Axioms: the standard library's real numbers. *)
From Coq Require Import ZArith QArith Qround Qreals Reals Lra Lia Qcanon.
From Flocq Require Import Core.
From Inovesa Require Import Base.FieldKit Base.Float32 Model.Kick Model.Bounds Proofs.Float32P.
Local Open Scope R_scope.

Definition fexpQ (prec emin : Z) := FLT_exp (emin - prec + 1) prec.
Notation roundQ prec emin := (round radix2 (fexpQ prec emin) ZnearestE).
Notation fexp64 := (FLT_exp (-1074) 53).
Notation round64 := (round radix2 fexp64 ZnearestE).

Lemma rndQ_pos prec emin a : (0 < a)%Q ->
  let e := Z.max (Qlog2 a) emin in
  Q2R (inject_Z (Qrne (a * Qpow2 (prec - 1 - e))) * Qpow2 (e - (prec - 1))) = roundQ prec emin (Q2R a).
Proof.
  intros Ha e. pose proof (Qlog2_spec a Ha) as L.
  assert (M : mag radix2 (Q2R a) = (Qlog2 a + 1)%Z :> Z).
  { apply mag_unique_pos. replace (Qlog2 a + 1 - 1)%Z with (Qlog2 a) by lia. exact L. }
  unfold round, F2R, scaled_mantissa, cexp. cbn [Fnum Fexp]. rewrite M.
  assert (C : fexpQ prec emin (Qlog2 a + 1) = (e - (prec - 1))%Z) by (unfold fexpQ, FLT_exp, e; lia).
  rewrite C. rewrite Q2R_mult, Q2R_inject_Z, Q2R_Qpow2, Qrne_spec, Q2R_mult, Q2R_Qpow2.
  replace (- (e - (prec - 1)))%Z with (prec - 1 - e)%Z by lia. reflexivity.
Qed.

Theorem rndQ_correct prec emin q : Q2R (rndQ prec emin q) = roundQ prec emin (Q2R q).
Proof.
  unfold rndQ. destruct (Qeq_bool q 0) eqn:Z0.
  - apply Qeq_bool_iff in Z0. apply Qeq_eqR in Z0. rewrite Z0. unfold Q2R at 1 2; cbn.
    rewrite Rmult_0_l. symmetry. apply round_0. apply valid_rnd_N.
  - assert (NZ : ~ q == 0) by (intro X; apply Qeq_bool_iff in X; congruence).
    unfold Qabs'. destruct (Qle_bool 0 q) eqn:S.
    + apply Qle_bool_iff in S. assert (P : (0 < q)%Q).
      { apply Qle_lteq in S. destruct S as [S|S]; [exact S|]. exfalso; apply NZ; symmetry; exact S. }
      exact (rndQ_pos prec emin q P).
    + assert (Ng : (q < 0)%Q).
      { apply Qnot_le_lt. intro X. apply Qle_bool_iff in X. congruence. }
      assert (P : (0 < - q)%Q) by (apply Qlt_minus_iff in Ng; rewrite Qplus_0_l in Ng; exact Ng).
      rewrite Q2R_opp. rewrite (rndQ_pos prec emin (- q) P). rewrite Q2R_opp, round_NE_opp. lra.
Qed.

Corollary rnd53_correct (q : Qc) : Q2R (this (rnd53 q)) = round64 (Q2R (this q)).
Proof.
  unfold rnd53. cbn [this Q2Qc]. rewrite (Qeq_eqR _ _ (Qred_correct _)).
  exact (rndQ_correct 53 (-1022) (this q)).
Qed.

(** monotone *)
Lemma rnd53_le (a b : Qc) : (this a <= this b)%Q -> (this (rnd53 a) <= this (rnd53 b))%Q.
Proof.
  intros H. apply Rle_Qle. rewrite !rnd53_correct.
  apply round_le; [apply FLT_exp_valid; reflexivity | apply valid_rnd_N | apply Qle_Rle; exact H].
Qed.

(** integers up to 2^53 in magnitude are binary64 numbers *)
Lemma rnd53_Qcz z : (Z.abs z <= 2 ^ 53)%Z -> rnd53 (Qcz z) = Qcz z.
Proof.
  intros Hz. apply Qc_is_canon. apply eqR_Qeq. rewrite rnd53_correct.
  assert (E : Q2R (this (Qcz z)) = IZR z).
  { unfold Qcz. cbn [this Q2Qc]. rewrite (Qeq_eqR _ _ (Qred_correct _)). apply Q2R_inject_Z. }
  rewrite E. apply round_generic; [apply valid_rnd_N|].
  apply generic_format_FLT. 
  destruct (Z.eq_dec (Z.abs z) (2 ^ 53)) as [Eq|Ne].
  - (* +-2^53 = +-1 * 2^53 *)
    exists (Float radix2 (Z.sgn z) 53).
    + unfold F2R. cbn [Fnum Fexp]. rewrite <- (IZR_Zpower radix2) by lia. rewrite <- mult_IZR. f_equal.
      change (radix2 ^ 53)%Z with (2 ^ 53)%Z. rewrite <- Eq. symmetry. rewrite Z.mul_comm. apply Z.abs_sgn.
    + cbn [Fnum]. change (radix2 ^ 53)%Z with (2 ^ 53)%Z. destruct z; cbn; lia.
    + cbn [Fexp]. lia.
  - exists (Float radix2 z 0).
    + unfold F2R. cbn [Fnum Fexp bpow]. lra.
    + cbn [Fnum]. change (radix2 ^ 53)%Z with (2 ^ 53)%Z. lia.
    + cbn [Fexp]. lia.
Qed.
