(** * Second-moment transport of one kick row (C04.3, row level).

    For the table row the model's [updateSM] writes for an offset [o] (Model/Kick.v, weights from the
    generated coefficients), any data row with support clear of the border and any centre [c]:

      sum_y (y - c)   out(y) = sum_u (u - eff_off - c)                  r(u)     (it >= 2)
      sum_y (y - c)^2 out(y) = sum_u ((u - eff_off - c)^2 + kappa it f) r(u)     (it >= 2)

    with [f] the fractional part of the float sum n/2 + o and
      kappa 2 f = f (1 - f)       (linear interpolation: the known variance inflation per cell)
      kappa 3 f = kappa 4 f = 0   (quadratic and cubic interpolation transport second moments exactly).

    Engine: the generated weights satisfy  sum_j w_j(f) (X - (j - centre))^2 = (X - f)^2 + kappa it f
    (a field identity per interpolation type) and the re-indexing lemma [term_sum_weighted]. *)
From Coq Require Import List ZArith QArith Qcanon Lia Bool Ring Field Lqa.
From Inovesa Require Import Base.FieldKit Base.Sums Base.Float32 Gen.Gen_Coeffs Model.Kick Model.RF
  Proofs.WeightsP Proofs.KickP Proofs.KickGridP Proofs.RFP Proofs.RFGridP.
Import ListNotations.
Local Open Scope Z_scope.

(** ** the weights, generic field *)
Section W2.
  Variable K : Fld.
  Add Field KFw2 : (@Fth K).
  Local Open Scope F_scope.

  (** variance the stencil adds to a row: zero from three points on *)
  Definition kappa (it : Z) (f : K) : K := if (it =? 2)%Z then f * (1 - f) else 0.

  Lemma zr2 : zrange 2 = [0; 1]%Z. Proof. reflexivity. Qed.
  Lemma zr3 : zrange 3 = [0; 1; 2]%Z. Proof. reflexivity. Qed.
  Lemma zr4 : zrange 4 = [0; 1; 2; 3]%Z. Proof. reflexivity. Qed.

  Theorem coeffs_second_moment it (f X : K) :
    valid_it it -> (2 <= it)%Z ->
    fdot (coeffs it f) (map (fun j => (X - fz (j - centre it)) * (X - fz (j - centre it))) (zrange it)) =
    (X - f) * (X - f) + kappa it f.
  Proof.
    intros [H|[H|[H|H]]] H2; subst; try lia; unfold kappa, centre;
      rewrite ?zr2, ?zr3, ?zr4; cbn; unfold two, three; try (field; fld_nz K); ring.
  Qed.

  Theorem coeffs_first_moment_c it (f X : K) :
    valid_it it -> (2 <= it)%Z ->
    fdot (coeffs it f) (map (fun j => X - fz (j - centre it)) (zrange it)) = X - f.
  Proof.
    intros [H|[H|[H|H]]] H2; subst; try lia; unfold centre;
      rewrite ?zr2, ?zr3, ?zr4; cbn; unfold two, three; try (field; fld_nz K); ring.
  Qed.
End W2.
Arguments kappa {_}.

Notation kapQ := (@kappa QcF).

(** linear interpolation inflates by at most a quarter of a cell squared, never deflates *)
Lemma kappa_bounds it (f : Qc) : (0 <= f)%Qc -> (f <= 1)%Qc -> (0 <= kapQ it f)%Qc /\ (kapQ it f <= Q2Qc (1 # 4))%Qc.
Proof.
  intros H0 H1. unfold kappa. destruct (it =? 2); [|split; [apply Qcle_refl | discriminate]].
  assert (E : (this (@fmul QcF f (@fsub QcF 1%Qc f)) == this f * (1 - this f))%Q).
  { qc_unf. unfold Qcmult, Qcminus, Qcplus, Qcopp, Q2Qc. cbn [this]. rewrite !Qred_correct. reflexivity. }
  unfold Qcle in *. rewrite E. change (this 0%Qc) with 0%Q in *. change (this 1%Qc) with 1%Q in *.
  replace (this (Q2Qc (1 # 4))) with (1 # 4)%Q by reflexivity. set (q := this f) in *. clearbody q. clear E. split; [nra | destruct (Qlt_le_dec q (1 # 2)); nra].
Qed.

(** ** sums over the stencil index *)
Lemma weights_first_c it f X : valid_it it -> 2 <= it ->
  sumQ 0 (Z.to_nat it) (fun j => (nthQ (coeffs (K:=QcF) it f) j * (X - qz (j - centre it)))%Qc) = (X - f)%Qc.
Proof.
  intros Hv H2. rewrite <- fdot_nthQ by (apply (coeffs_length QcF); exact Hv).
  exact (coeffs_first_moment_c QcF it f X Hv H2).
Qed.

Lemma weights_second_c it f X : valid_it it -> 2 <= it ->
  sumQ 0 (Z.to_nat it) (fun j => (nthQ (coeffs (K:=QcF) it f) j *
        ((X - qz (j - centre it)) * (X - qz (j - centre it))))%Qc) = ((X - f) * (X - f) + kapQ it f)%Qc.
Proof.
  intros Hv H2. rewrite <- fdot_nthQ by (apply (coeffs_length QcF); exact Hv).
  exact (coeffs_second_moment QcF it f X Hv H2).
Qed.

(** ** one row, any multiplier: the transposed form *)
Section RowWeighted.
  Variables (n it : Z) (E : Z -> Z * Qc) (r : Z -> Qc).
  Hypothesis Hn : 0 < n < 2 ^ 30.
  Hypothesis Hit : 0 <= it.
  Hypothesis Hidx : forall j, 0 <= j < it -> 0 <= fst (E j) < n.
  Variables (a b : Z).
  Hypothesis Hsupp : suppQ r a b.
  Hypothesis Hab : 0 <= a /\ a <= b /\ b <= n.
  Hypothesis Hshift : forall j, 0 <= j < it ->
      0 <= a - (fst (E j) - n / 2) /\ b - (fst (E j) - n / 2) <= n.

  Lemma row_weighted_terms (m : Z -> Qc) :
    sumQ 0 (Z.to_nat n) (fun y => (m y * row_out n it E r y)%Qc) =
    sumQ 0 (Z.to_nat it) (fun j => (snd (E j) *
        sumQ 0 (Z.to_nat n) (fun u => (m (u - (fst (E j) - n / 2))%Z * r u)%Qc))%Qc).
  Proof.
    rewrite (sumZ_ext QcF _ _ _ (fun y => sumQ 0 (Z.to_nat it)
               (fun j => @fmul QcF (m y) (termQ n r (snd (E j)) (fst (E j) - n / 2) y)))).
    2:{ intros y Hy. rewrite (row_out_terms n it E r) by (assumption || lia).
        rewrite (sumZ_scale QcF). reflexivity. }
    rewrite sumZ_swap. apply (sumZ_ext QcF). intros j Hj.
    assert (Hj' : 0 <= j < it) by lia. destruct (Hshift j Hj') as [S1 S2].
    apply (term_sum_weighted QcF n r (snd (E j)) (fst (E j) - n / 2) a b m); lia || assumption.
  Qed.
End RowWeighted.

(** the row written by the model's updateSM, any multiplier [m] whose stencil average is [mm] *)
Lemma sm_row_weighted n it o r (m mm : Z -> Qc) :
  valid_it it -> 0 < n < 2 ^ 30 -> row_ok n it o r ->
  (forall u, sumQ 0 (Z.to_nat it) (fun j =>
       (nthQ (coeffs (K:=QcF) it (sp_frac (poffs_split n o))) j *
        m (u - (sp_int (poffs_split n o) + j - centre it - n / 2))%Z)%Qc) = mm u) ->
  sumQ 0 (Z.to_nat n) (fun y => (m y * row_out n it (sm_entry n it o) r y)%Qc) =
  sumQ 0 (Z.to_nat n) (fun u => (mm u * r u)%Qc).
Proof.
  intros Hv Hn (Hlo & Hhi & a & b & Hs & Ha & Hab & Hb & S1 & S2) Hm.
  destruct (valid_it_range it Hv) as [Hi Hc].
  set (s := poffs_split n o) in *. set (jd := sp_int s) in *.
  assert (Hidx : forall j, 0 <= j < it -> 0 <= fst (sm_entry n it o j) < n).
  { intros j Hj. rewrite sm_entry_inrange by (assumption || (fold s; fold jd; lia)). cbn [fst]. fold s; fold jd. lia. }
  assert (Hsh : forall j, 0 <= j < it ->
            0 <= a - (fst (sm_entry n it o j) - n / 2) /\ b - (fst (sm_entry n it o j) - n / 2) <= n).
  { intros j Hj. rewrite sm_entry_inrange by (assumption || (fold s; fold jd; lia)). cbn [fst]. fold s; fold jd. lia. }
  rewrite (row_weighted_terms n it (sm_entry n it o) r Hn Hidx a b Hs ltac:(lia) Hsh m).
  set (ws := coeffs (K:=QcF) it (sp_frac s)) in *.
  rewrite (sumZ_ext QcF _ _ _ (fun j => sumQ 0 (Z.to_nat n)
     (fun u => @fmul QcF (r u) (@fmul QcF (nthQ ws j) (m (u - (jd + j - centre it - n / 2))%Z))))).
  2:{ intros j Hj. rewrite sm_entry_inrange by (assumption || fold s; fold jd; lia). cbn [fst snd]. fold s; fold jd; fold ws.
      rewrite <- (sumZ_scale QcF). apply (sumZ_ext QcF). intros u Hu. qc_unf. ring. }
  rewrite sumZ_swap. apply (sumZ_ext QcF). intros u Hu.
  rewrite (sumZ_scale QcF), <- (Hm u). qc_unf. ring.
Qed.

(** ** centred first and second moment of the row written by updateSM *)
Theorem sm_row_first_moment_c n it o r (c : Qc) :
  valid_it it -> 2 <= it -> 0 < n < 2 ^ 30 -> row_ok n it o r ->
  sumQ 0 (Z.to_nat n) (fun y => ((qz y - c) * row_out n it (sm_entry n it o) r y)%Qc) =
  sumQ 0 (Z.to_nat n) (fun u => ((qz u - eff_off n o - c) * r u)%Qc).
Proof.
  intros Hv H2 Hn Hok.
  apply (sm_row_weighted n it o r (fun y => (qz y - c)%Qc) (fun u => (qz u - eff_off n o - c)%Qc) Hv Hn Hok).
  intros u. set (s := poffs_split n o). set (jd := sp_int s).
  rewrite (sumZ_ext QcF _ _ _ (fun j => (nthQ (coeffs (K:=QcF) it (sp_frac s)) j *
        ((qz u - qz (jd - n / 2) - c) - qz (j - centre it)))%Qc)).
  2:{ intros j Hj. replace (u - (jd + j - centre it - n / 2)) with (u - (jd - n / 2) - (j - centre it)) by lia.
      rewrite !(fz_sub QcF). qc_unf. ring. }
  rewrite weights_first_c by assumption. unfold eff_off. fold s; fold jd. qc_unf. ring.
Qed.

Theorem sm_row_second_moment_c n it o r (c : Qc) :
  valid_it it -> 2 <= it -> 0 < n < 2 ^ 30 -> row_ok n it o r ->
  sumQ 0 (Z.to_nat n) (fun y => ((qz y - c) * (qz y - c) * row_out n it (sm_entry n it o) r y)%Qc) =
  sumQ 0 (Z.to_nat n) (fun u => (((qz u - eff_off n o - c) * (qz u - eff_off n o - c)
                                  + kapQ it (sp_frac (poffs_split n o))) * r u)%Qc).
Proof.
  intros Hv H2 Hn Hok.
  apply (sm_row_weighted n it o r (fun y => ((qz y - c) * (qz y - c))%Qc)
           (fun u => ((qz u - eff_off n o - c) * (qz u - eff_off n o - c) + kapQ it (sp_frac (poffs_split n o)))%Qc)
           Hv Hn Hok).
  intros u. set (s := poffs_split n o). set (jd := sp_int s).
  rewrite (sumZ_ext QcF _ _ _ (fun j => (nthQ (coeffs (K:=QcF) it (sp_frac s)) j *
        (((qz u - qz (jd - n / 2) - c) - qz (j - centre it)) * ((qz u - qz (jd - n / 2) - c) - qz (j - centre it))))%Qc)).
  2:{ intros j Hj. replace (u - (jd + j - centre it - n / 2)) with (u - (jd - n / 2) - (j - centre it)) by lia.
      rewrite !(fz_sub QcF). qc_unf. ring. }
  rewrite weights_second_c by assumption. unfold eff_off. fold s; fold jd. qc_unf. ring.
Qed.
