(** * C07 on what wakePotential() RETURNS (strengthening driven by seed C07-H).

    The Parseval theorems of Proofs/DFTP.v speak of [wake_loss] = sum over the PADDED buffers of
    padded profile times padded wake.  That sum does not see where the bunch was put and where its
    wake is read back: it is the same for every position of the bunch in the padded range.  The
    property is worded over the bunch: "one half of the sum over the bunch of profile times unscaled
    wake potential".  Here that sum is taken over what the GENERATED [wakePotential] returns for a
    single bunch held in ANY bucket [bk] (placed at [bk*spacing] by the generated [padBunchProfiles],
    read back at the generated read-back index, divided by [_wakescaling]) and shown to be the wake
    loss of the bunch alone - hence Parseval against the power the generated [updateCSR] computes on
    the same object, after any two histories.  A padding origin and a read-back origin that disagree
    (relative / absolute bucket numbers) break [gen_returned_loss]. *)
From Coq Require Import List ZArith Bool Lia Ring Field.
From Inovesa Require Import Base.FieldKit Base.Sums Model.DFT Model.EField Model.EFieldProg Gen.Gen_EField
  Proofs.DFTP Proofs.CSRP Proofs.DFTThm Proofs.EFieldP Proofs.EFieldProgP Proofs.EFieldGenP Proofs.EFieldDFTP
  Proofs.EFieldTieP.
Import ListNotations.
Local Open Scope Z_scope.

Section LossWindow.
  Variable K : Fld.
  Add Field KFlw : (@Fth K).
  Local Open Scope F_scope.
  Variable N : Z.
  Variables cs sn : Z -> K.
  Hypothesis N2 : (2 <= N)%Z.
  Hypothesis L : twiddle_laws K cs sn.

  (** the wake loss of a bunch alone at padded offset 0 is a double sum over the bunch *)
  Lemma wake_loss_alone (Zi stale : Z -> cplx K) (n : Z) (pr : Z -> K) :
    (0 <= n <= N)%Z -> fresh_top K N stale ->
    wake_loss K N cs sn Zi stale (csr_buffer N n pr (fun _ => 0))
    = sumZ 0 (Z.to_nat n) (fun x => pr x * sumZ 0 (Z.to_nat n) (fun x' => pr x' * kernel K N cs sn Zi (x - x'))).
  Proof.
    intros Hn Hst. unfold wake_loss.
    set (a := csr_buffer N n pr (fun _ => 0)).
    assert (Hin : forall u, (0 <= u < n)%Z -> a u = pr u).
    { intros u Hu. unfold a, csr_buffer.
      assert (E1 : inwin 0 N u = true) by (apply inwin_true; lia).
      assert (E2 : inwin 0 n u = true) by (apply inwin_true; lia).
      rewrite E1, E2. reflexivity. }
    assert (Hout : forall u, (u < 0 \/ n <= u)%Z -> a u = 0).
    { intros u Hu. unfold a, csr_buffer.
      destruct (inwin 0 N u); [|reflexivity].
      destruct (inwin 0 n u) eqn:E2; [|reflexivity]. apply inwin_true in E2. lia. }
    assert (S1 : supp (fun j => a j * wake_padded N cs sn Zi stale a j) 0 n).
    { intros j Hj. rewrite (Hout j Hj). ring. }
    unfold nN. rewrite (sum_window K _ 0%Z n 0%Z (Z.to_nat N) S1) by lia.
    replace (n - 0)%Z with n by lia.
    apply sumZ_ext. intros x Hx. rewrite Hin by lia. f_equal.
    rewrite (t_wake_padded_convolution K N cs sn N2 L Zi stale a x Hst).
    assert (S2 : supp (fun u => a u * kernel K N cs sn Zi (x - u)) 0 n).
    { intros u Hu. rewrite (Hout u Hu). ring. }
    unfold nN. rewrite (sum_window K _ 0%Z n 0%Z (Z.to_nat N) S2) by lia.
    replace (n - 0)%Z with n by lia.
    apply sumZ_ext. intros x' Hx'. rewrite Hin by lia. reflexivity.
  Qed.
End LossWindow.

Section Readback.
  Variable K : Fld.
  Add Field KFrb : (@Fth K).
  Variable P : fobj K.
  Hypothesis N2 : 2 <= oN P.
  Hypothesis HB : hypB (E_of K P).
  Hypothesis sgn_gt : forall c : K, osgn P c = Gt -> c <> f0.
  Hypothesis L : twiddle_laws K (ocs P) (osn P).

  (** ONE bunch, held in any bucket [bk] whose window lies inside the padded range *)
  Variable bk : Z.
  Hypothesis one : obks P = [bk].
  Hypothesis n0 : 0 <= on P.
  Hypothesis fits : 0 <= bk * ospc P /\ bk * ospc P + on P <= oN P.

  (** the sum over the bunch of profile times the unscaled wake potential the generated wakePotential returns *)
  Definition returned_loss (h : list (op K)) (p : Z -> K) : K :=
    sumZ 0 (Z.to_nat (on P)) (fun x => (p x * (wake (run_gen K P (h ++ [Wake p])) x / oscale P))%F).

  Lemma returned_wake_cell h p x : 0 <= x < on P -> oscale P <> f0 ->
    (wake (run_gen K P (h ++ [Wake p])) x / oscale P
     = sumZ 0 (Z.to_nat (on P)) (fun x' => p x' * kernel K (oN P) (ocs P) (osn P) (oZ P) (x - x')))%F.
  Proof.
    intros Hx Hs.
    pose proof (gen_wake_is_convolution K P N2 HB sgn_gt L h p 0%nat x) as G.
    change (Z.of_nat 0) with 0 in G. replace (0 * on P + x) with x in G by lia.
    unfold train, bunches in G. rewrite one in G. cbn [bunches_from nth map fsum fst snd length] in G.
    rewrite G.
    - rewrite (sumZ_ext K _ _ _ (fun x' => (p x' * kernel K (oN P) (ocs P) (osn P) (oZ P) (x - x'))%F)).
      + field. exact Hs.
      + intros x' Hx'. replace (0 * on P + x') with x' by lia.
        replace ((bk - bk) * ospc P + x - x') with (x - x') by lia. reflexivity.
    - lia.
    - exact Hx.
    - lia.
    - split; [constructor|exact I].
    - constructor; [cbn [fst]; lia|constructor].
  Qed.

  (** what is read back over the bunch is the wake loss of the bunch alone, wherever the bucket is *)
  Theorem gen_returned_loss h p : oscale P <> f0 ->
    returned_loss h p = wake_loss K (oN P) (ocs P) (osn P) (oZ P) (fun _ => czero) (alone K P p 0).
  Proof.
    intros Hs. unfold alone, CsrBuf.
    rewrite (wake_loss_alone K (oN P) (ocs P) (osn P) N2 L (oZ P) (fun _ => czero) (on P) (prof K (on P) p 0))
      by (try reflexivity; lia).
    unfold returned_loss. apply sumZ_ext. intros x Hx.
    rewrite returned_wake_cell by (try exact Hs; lia).
    unfold prof. replace (0 * on P + x) with x by lia. f_equal.
  Qed.

  (** Parseval between the two public results of one object: the CSR power (after any history [h]) and the
      wake loss over the bunch taken from the returned wake potential (after any history [h']) differ by
      exactly the zero-frequency term and the top cell *)
  Theorem gen_csr_parseval_readback h h' cut p :
    cut_active (osgn P cut) = false -> odf P <> f0 -> odq2 P <> f0 -> oscale P <> f0 ->
    (csri (run_gen K P (h ++ [CSR cut p])) 0 / (odf P * odq2 P) - returned_loss h' p / two
     = fst (oZ P 0%Z) * cnorm (formfactor (oN P) (ocs P) (osn P) (alone K P p 0) 0%Z) / two
       + fst (oZ P (oN P / 2)%Z) * cnorm (formfactor (oN P) (ocs P) (osn P) (alone K P p 0) (oN P / 2)%Z))%F.
  Proof.
    intros Hoff Hdf Hdq Hs. rewrite gen_returned_loss by exact Hs.
    pose proof (gen_csr_parseval_per_bunch K P N2 HB sgn_gt L h cut p 0%nat (fun _ => czero)) as G.
    change (Z.of_nat 0) with 0 in G. apply G; try assumption.
    - rewrite one. cbn [length]. lia.
    - reflexivity.
  Qed.
End Readback.

(** the statement with the hypotheses spelled out (what Props/Properties_C07.v states) *)
Theorem gen_csr_parseval_returned_wake (K : Fld) (P : fobj K) (bk : Z) :
  2 <= oN P -> hypB (E_of K P) -> (forall c : K, osgn P c = Gt -> c <> f0) ->
  twiddle_laws K (ocs P) (osn P) ->
  obks P = [bk] -> 0 <= on P -> 0 <= bk * ospc P -> bk * ospc P + on P <= oN P ->
  forall (h h' : list (op K)) (cut : K) (p : Z -> K),
    cut_active (osgn P cut) = false -> odf P <> f0 -> odq2 P <> f0 -> oscale P <> f0 ->
    (csri (run_gen K P (h ++ [CSR cut p])) 0 / (odf P * odq2 P)
     - sumZ 0 (Z.to_nat (on P)) (fun x => p x * (wake (run_gen K P (h' ++ [Wake p])) x / oscale P)) / two
     = fst (oZ P 0%Z) * cnorm (formfactor (oN P) (ocs P) (osn P) (alone K P p 0) 0%Z) / two
       + fst (oZ P (oN P / 2)%Z) * cnorm (formfactor (oN P) (ocs P) (osn P) (alone K P p 0) (oN P / 2)%Z))%F.
Proof.
  intros N2 HB Hs L one n0 f0' f1' h h' cut p Hoff Hdf Hdq Hsc.
  exact (gen_csr_parseval_readback K P N2 HB Hs L bk one n0 (conj f0' f1') h h' cut p Hoff Hdf Hdq Hsc).
Qed.

Theorem gen_returned_loss_is_wake_loss (K : Fld) (P : fobj K) (bk : Z) :
  2 <= oN P -> hypB (E_of K P) -> (forall c : K, osgn P c = Gt -> c <> f0) ->
  twiddle_laws K (ocs P) (osn P) ->
  obks P = [bk] -> 0 <= on P -> 0 <= bk * ospc P -> bk * ospc P + on P <= oN P ->
  forall (h : list (op K)) (p : Z -> K), oscale P <> f0 ->
    sumZ 0 (Z.to_nat (on P)) (fun x => (p x * (wake (run_gen K P (h ++ [Wake p])) x / oscale P))%F)
    = wake_loss K (oN P) (ocs P) (osn P) (oZ P) (fun _ => czero) (alone K P p 0).
Proof.
  intros N2 HB Hs L one n0 f0' f1' h p Hsc.
  exact (gen_returned_loss K P N2 HB Hs L bk one n0 (conj f0' f1') h p Hsc).
Qed.

(** passive impedance: the wake loss taken over the returned wake potential is non-negative *)
From Inovesa Require Import Base.RInst.

Theorem gen_returned_loss_nonneg_Qc (P : fobj QcF) (bk : Z) :
  2 <= oN P -> hypB (E_of QcF P) -> (forall c : QcF, osgn P c = Gt -> c <> f0) ->
  twiddle_laws QcF (ocs P) (osn P) ->
  obks P = [bk] -> 0 <= on P -> 0 <= bk * ospc P -> bk * ospc P + on P <= oN P ->
  (forall i, 0 <= i < oN P / 2 -> nnQc (fst (oZ P i))) ->
  forall (h : list (op QcF)) (p : Z -> QcF), oscale P <> f0 ->
    nnQc (sumZ (K:=QcF) 0 (Z.to_nat (on P)) (fun x => (p x * (wake (run_gen QcF P (h ++ [Wake p])) x / oscale P))%F)).
Proof.
  intros N2 HB Hs L one n0 f0' f1' Hz h p Hsc.
  rewrite (gen_returned_loss_is_wake_loss QcF P bk N2 HB Hs L one n0 f0' f1' h p Hsc).
  apply wake_loss_nonneg_Qc; try assumption. reflexivity.
Qed.

Theorem gen_returned_loss_nonneg_R (P : fobj RF) (bk : Z) :
  2 <= oN P -> hypB (E_of RF P) -> (forall c : RF, osgn P c = Gt -> c <> f0) ->
  twiddle_laws RF (ocs P) (osn P) ->
  obks P = [bk] -> 0 <= on P -> 0 <= bk * ospc P -> bk * ospc P + on P <= oN P ->
  (forall i, 0 <= i < oN P / 2 -> nnR (fst (oZ P i))) ->
  forall (h : list (op RF)) (p : Z -> RF), oscale P <> f0 ->
    nnR (sumZ (K:=RF) 0 (Z.to_nat (on P)) (fun x => (p x * (wake (run_gen RF P (h ++ [Wake p])) x / oscale P))%F)).
Proof.
  intros N2 HB Hs L one n0 f0' f1' Hz h p Hsc.
  rewrite (gen_returned_loss_is_wake_loss RF P bk N2 HB Hs L one n0 f0' f1' h p Hsc).
  apply wake_loss_nonneg_R; try assumption. reflexivity.
Qed.
