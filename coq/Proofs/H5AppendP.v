(** Soundness of the checker of Model/H5Append.v: [paths] covers the execution under every valuation of the opaque
    conditions, so [body_ok] gives the record counts for every history of the object and every argument. *)
From Coq Require Import List ZArith String Bool Lia.
From Inovesa Require Import Base.FieldKit Model.Records Model.H5Append.
Import ListNotations.
Local Open Scope Z_scope.

Lemma ceval3_sound a p h c v : ceval3 a p c = Some v -> ceval a p h c = v.
Proof.
  revert v. induction c as [l|i|c IH|x IHx y IHy|x IHx y IHy|b|n]; intros v H; cbn [ceval3 ceval] in *.
  - injection H as <-. reflexivity.
  - injection H as <-. reflexivity.
  - destruct (ceval3 a p c) as [w|] eqn:E; cbn [option_map] in H; [|discriminate H].
    injection H as <-. rewrite (IH w eq_refl). reflexivity.
  - destruct (ceval3 a p x) as [[|]|] eqn:Ex; destruct (ceval3 a p y) as [[|]|] eqn:Ey; try discriminate H;
      injection H as <-;
      try rewrite (IHx _ eq_refl); try rewrite (IHy _ eq_refl); try reflexivity;
      try (apply andb_false_r).
  - destruct (ceval3 a p x) as [[|]|] eqn:Ex; destruct (ceval3 a p y) as [[|]|] eqn:Ey; try discriminate H;
      injection H as <-;
      try rewrite (IHx _ eq_refl); try rewrite (IHy _ eq_refl); try reflexivity;
      try (apply orb_true_r).
  - injection H as <-. reflexivity.
  - discriminate H.
Qed.

Lemma paths_sound a p h b : In (arun a p h b) (paths a p b).
Proof.
  induction b as [| |t n r IHr|c t IHt e IHe r IHr]; cbn [arun paths].
  - left. reflexivity.
  - left. reflexivity.
  - destruct (arun a p h r) as [l x] eqn:E. apply in_map_iff. exists (l, x). split; [reflexivity|exact IHr].
  - set (bs := match ceval3 a p c with
               | Some true => paths a p t | Some false => paths a p e | None => paths a p t ++ paths a p e end).
    assert (Hb : In (arun a p h (if ceval a p h c then t else e)) bs).
    { unfold bs. destruct (ceval3 a p c) as [[|]|] eqn:E3.
      - rewrite (ceval3_sound a p h c true E3). exact IHt.
      - rewrite (ceval3_sound a p h c false E3). exact IHe.
      - apply in_or_app. destruct (ceval a p h c); [left; exact IHt|right; exact IHe]. }
    destruct (arun a p h (if ceval a p h c then t else e)) as [l1 x1] eqn:E1.
    apply in_flat_map. exists (l1, x1). split; [exact Hb|]. cbn [fst snd].
    destruct x1.
    + left. reflexivity.
    + destruct (arun a p h r) as [l2 x2] eqn:E2. apply in_map_iff. exists (l2, x2). split; [reflexivity|exact IHr].
Qed.

Lemma added_linear len t l : added len t l = added 0 t l + len * added_len t l.
Proof.
  unfold added_len, added.
  induction l as [|[u n] l IH]; cbn [filter fst snd]; [cbn; lia|].
  destruct (atarget_eqb u t); cbn [map fold_right snd]; [|exact IH].
  destruct n as [k|]; cbn [sz]; lia.
Qed.

Lemma dset_eqb_refl d : dset_eqb d d = true.
Proof. unfold dset_eqb. apply Z.eqb_refl. Qed.

Lemma all_targets_complete t : In t all_targets.
Proof.
  destruct t as [d|]; [|left; reflexivity]. right. apply in_map. destruct d; cbn; tauto.
Qed.

(** the number of records a target gains, as the specification states it *)
Definition expected (fam : list dset) (rf len : Z) (t : atarget) : Z :=
  match t with
  | TDs d => if existsb (dset_eqb d) fam then 1 else 0
  | TRFKicks => len * rf
  end.

Lemma outcome_ok_spec fam rf l : outcome_ok fam rf l = true -> forall len t, added len t l = expected fam rf len t.
Proof.
  intros H len t. unfold outcome_ok in H. rewrite forallb_forall in H.
  specialize (H t (all_targets_complete t)). apply andb_true_iff in H. destruct H as [H0 H1].
  apply Z.eqb_eq in H0, H1. rewrite added_linear, H0, H1. destruct t; cbn [expected]; lia.
Qed.

(** the checker is sound: whatever the opaque conditions evaluate to *)
Theorem body_ok_sound a p fam rf b :
  body_ok a p fam rf b = true ->
  forall (h : Z -> bool) (len : Z) (t : atarget), added len t (fst (arun a p h b)) = expected fam rf len t.
Proof.
  intros H h len t. unfold body_ok in H. rewrite forallb_forall in H.
  exact (outcome_ok_spec fam rf _ (H _ (paths_sound a p h b)) len t).
Qed.

(** a body whose record counts depend on an opaque condition is refused: two valuations with different counts
    cannot both satisfy the specification *)
Theorem body_ok_history_independent a p fam rf b :
  body_ok a p fam rf b = true ->
  forall (h1 h2 : Z -> bool) (len : Z) (t : atarget),
    added len t (fst (arun a p h1 b)) = added len t (fst (arun a p h2 b)).
Proof.
  intros H h1 h2 len t. rewrite (body_ok_sound a p fam rf b H h1), (body_ok_sound a p fam rf b H h2). reflexivity.
Qed.

Theorem appends_ok_sound bps bef bwake btracks bpadded brf :
  appends_ok bps bef bwake btracks bpadded brf = true ->
  forall (h : Z -> bool) (len : Z) (t : atarget),
    (forall a, added len t (fst (arun a nopar h bps)) = expected (fam_ps a) 0 len t) /\
    (forall fs, added len t (fst (arun AtAll (fun _ => fs) h bef)) = expected (fam_ef fs) 0 len t) /\
    added len t (fst (arun AtAll nopar h bwake)) = expected fam_wake 0 len t /\
    added len t (fst (arun AtAll nopar h btracks)) = expected fam_tracks 0 len t /\
    added len t (fst (arun AtAll nopar h bpadded)) = expected fam_padded 0 len t /\
    added len t (fst (arun AtAll nopar h brf)) = expected [] 1 len t.
Proof.
  intros H h len t. unfold appends_ok in H.
  apply andb_true_iff in H. destruct H as [H Hrf].
  apply andb_true_iff in H. destruct H as [H Hpad].
  apply andb_true_iff in H. destruct H as [H Htr].
  apply andb_true_iff in H. destruct H as [H Hwk].
  apply andb_true_iff in H. destruct H as [H Hef'].
  rewrite forallb_forall in H. rewrite forallb_forall in Hef'.
  repeat split.
  - intros a. apply body_ok_sound. apply H. destruct a; cbn; tauto.
  - intros fs. apply body_ok_sound. apply Hef'. destruct fs; cbn; tauto.
  - apply body_ok_sound. assumption.
  - apply body_ok_sound. assumption.
  - apply body_ok_sound. assumption.
  - apply body_ok_sound. assumption.
Qed.

(** the families, spelled out *)
Lemma fam_ps_spelled a :
  fam_ps a = (match a with AtAll | AtPhaseSpace => [DPSAxis; DPSData] | AtDefaults => [] end) ++
             (match a with AtPhaseSpace => [] | _ => defaults_group end).
Proof. destruct a; reflexivity. Qed.

Lemma time_axis_in_family a : a <> AtPhaseSpace -> In DT (fam_ps a).
Proof. destruct a; intros H; [cbn; tauto|cbn; tauto|contradiction H; reflexivity]. Qed.
