(** * Interpolation weights: unity, collapse at zero, polynomial reproduction.
    All statements are about the *generated* coefficients (Gen/Gen_Coeffs.v). *)
From Coq Require Import List ZArith Ring Field Lia.
From Inovesa Require Import Base.FieldKit Gen.Gen_Coeffs.
Import ListNotations.

Section WeightsP.
  Variable K : Fld.
  Add Field KFw : (@Fth K).
  Local Open Scope F_scope.

  Fixpoint fpow (x : K) (k : nat) : K := match k with O => 1 | S m => x * fpow x m end.


  (** Sum_j w_j(f) * (X + j - c)^k : the k-th moment of the stencil around X *)
  Definition wmoment (it : Z) (k : nat) (f X : K) : K :=
    fdot (coeffs it f) (map (fun j => fpow (X + fz (j - centre it)) k) (zrange it)).

  Definition valid_it (it : Z) : Prop := (it = 1 \/ it = 2 \/ it = 3 \/ it = 4)%Z.

  Lemma zrange1 : zrange 1 = [0]%Z. Proof. reflexivity. Qed.
  Lemma zrange2 : zrange 2 = [0; 1]%Z. Proof. reflexivity. Qed.
  Lemma zrange3 : zrange 3 = [0; 1; 2]%Z. Proof. reflexivity. Qed.
  Lemma zrange4 : zrange 4 = [0; 1; 2; 3]%Z. Proof. reflexivity. Qed.

  Ltac it_cases H := destruct H as [H|[H|[H|H]]]; subst.
  Ltac crunch := unfold wmoment, centre; rewrite ?zrange1, ?zrange2, ?zrange3, ?zrange4;
                 cbn; unfold two, three;
                 try (field; fld_nz K); try ring.

  Lemma coeffs_length it (f : K) : valid_it it -> Z.of_nat (length (coeffs it f)) = it.
  Proof. intros H; it_cases H; reflexivity. Qed.

  Theorem coeffs_unity it (f : K) : valid_it it -> fsum (coeffs it f) = 1.
  Proof. intros H; it_cases H; cbn; try (field; fld_nz K); ring. Qed.

  (** at offset zero the weights collapse to a single unit weight at the stencil centre *)
  Definition unit_at (it : Z) : list K :=
    map (fun j => if (j =? centre it)%Z then 1 else 0) (zrange it).

  Theorem coeffs_at_zero it : valid_it it -> coeffs it (0 : K) = unit_at it.
  Proof.
    intros H; it_cases H; unfold unit_at, centre;
      rewrite ?zrange1, ?zrange2, ?zrange3, ?zrange4; cbn;
      repeat match goal with |- _ :: _ = _ :: _ => f_equal end;
      try reflexivity; try (field; fld_nz K); try ring.
  Qed.

  (** the n-point scheme reproduces every monomial of degree below n *)
  Theorem poly_reproduction it (k : nat) (f X : K) :
    valid_it it -> (Z.of_nat k < it)%Z -> wmoment it k f X = fpow (X + f) k.
  Proof.
    intros H Hk; it_cases H.
    - destruct k as [|k]; [|lia]. crunch.
    - destruct k as [|[|k]]; [| |lia]; crunch.
    - destruct k as [|[|[|k]]]; [| | |lia]; crunch.
    - destruct k as [|[|[|[|k]]]]; [| | | |lia]; crunch.
  Qed.

  (** first-moment form used by the moment-transport lemmas: Sum_j w_j (j - c) = f *)
  Corollary coeffs_first_moment it (f : K) :
    valid_it it -> (2 <= it)%Z ->
    fdot (coeffs it f) (map (fun j => fz (j - centre it)) (zrange it)) = f.
  Proof.
    intros H H2. pose proof (poly_reproduction it 1 f 0 H ltac:(lia)) as P.
    unfold wmoment in P. cbn [fpow] in P.
    it_cases H; try lia; unfold centre in *;
      rewrite ?zrange1, ?zrange2, ?zrange3, ?zrange4 in *; cbn in *; unfold two, three in *;
      (etransitivity; [|etransitivity; [exact P|]]); ring.
  Qed.
End WeightsP.

Arguments fpow {_}. Arguments wmoment {_}. Arguments unit_at {_}.
