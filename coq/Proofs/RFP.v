(** * RF kick and drift: offset fields, the centroid map, its orbit and invariant (C03);
      every bunch's block of the offsets carries the same field (RF/drift part of C08). *)
From Coq Require Import List ZArith QArith Qcanon Lia Bool Ring Field.
From Inovesa Require Import Base.FieldKit Base.Sums Model.RF.
Import ListNotations.

Section RFAlg.
  Variable K : Fld.
  Add Field KFrf : (@Fth K).
  Local Open Scope F_scope.

  (** ** Ruler: the constructor's expression for the zero bin is -min/delta, the (fractional)
      index whose coordinate is 0 *)
  Theorem zerobin_correct (steps : Z) (mn mx : K) :
    mn <> mx -> fz (K:=K) (steps - 1) <> 0 ->
    ruler_zerobin steps mn mx = - mn / ruler_delta steps mn mx /\
    mn + ruler_zerobin steps mn mx * ruler_delta steps mn mx = 0.
  Proof.
    intros Hm Hs. unfold ruler_zerobin, ruler_delta, two.
    assert (H1 : mn - mx <> 0) by (intro E; apply Hm; transitivity (mn - mx + mx); [ring | rewrite E; ring]).
    assert (H2 : mx - mn <> 0) by (intro E; apply Hm; transitivity (mx - (mx - mn)); [ring | rewrite E; ring]).
    split; field; repeat split; try assumption; try exact (@nz2 K).
  Qed.

  (** coordinate of cell i relative to the zero bin *)
  Lemma ruler_at_zerobin (steps : Z) (mn mx : K) (i : Z) :
    mn <> mx -> fz (K:=K) (steps - 1) <> 0 ->
    ruler_at mn (ruler_delta steps mn mx) i =
    (fz i - ruler_zerobin steps mn mx) * ruler_delta steps mn mx.
  Proof.
    intros Hm Hs. destruct (zerobin_correct steps mn mx Hm Hs) as [_ E].
    unfold ruler_at. transitivity (mn + fz i * ruler_delta steps mn mx
      - (mn + ruler_zerobin steps mn mx * ruler_delta steps mn mx)); [rewrite E; ring | ring].
  Qed.

  (** ** the linear RF kick is o_x = t*(xc - x) + (constant phase term), times the amplitude;
      the constant vanishes for the static map (phase = synchronous phase) *)
  Theorem rf_offsets_linear (t xc phaseoffs bl2phase delta0 ampl : K) (x : Z) :
    bl2phase <> 0 -> delta0 <> 0 ->
    rf_lin t xc phaseoffs bl2phase delta0 ampl x =
    ampl * (t * (xc - fz x)) + ampl * t * (phaseoffs / (bl2phase * delta0)).
  Proof. intros H1 H2. unfold rf_lin. field. split; assumption. Qed.

  Corollary rf_offsets_static (t xc bl2phase delta0 : K) (x : Z) :
    bl2phase <> 0 -> delta0 <> 0 ->
    rf_lin t xc 0 bl2phase delta0 1 x = t * (xc - fz x).
  Proof. intros H1 H2. unfold rf_lin. field. split; assumption. Qed.

  (** ** the drift with slip = [a; a1; a2]: the general (alpha1, alpha2) form ... *)
  Theorem drift_offsets_general (a a1 a2 scale1 e0 delta0 p : K) :
    e0 <> 0 -> delta0 <> 0 ->
    drift_off [a; a1; a2] scale1 e0 delta0 p =
    (a * p + a1 * p * (p * scale1 / e0) + a2 * p * ((p * scale1 / e0) * (p * scale1 / e0))) / delta0.
  Proof. intros H1 H2. unfold drift_off. cbn [drift_sum kpow]. field. split; assumption. Qed.

  (** ... and for alpha1 = alpha2 = 0 on axes of equal spacing: o_y = a*(y - yc) *)
  Theorem drift_offsets_linear (a scale1 e0 : K) (steps : Z) (mn mx delta0 : K) (y : Z) :
    mn <> mx -> fz (K:=K) (steps - 1) <> 0 -> e0 <> 0 ->
    delta0 = ruler_delta steps mn mx ->
    drift_off [a; 0; 0] scale1 e0 delta0 (ruler_at mn (ruler_delta steps mn mx) y) =
    a * (fz y - ruler_zerobin steps mn mx).
  Proof.
    intros Hm Hs He ->. rewrite ruler_at_zerobin by assumption.
    assert (Hd : ruler_delta steps mn mx <> 0).
    { unfold ruler_delta. intro E.
      assert (E2 : mx - mn = 0).
      { transitivity ((mx - mn) / fz (steps - 1) * fz (steps - 1)); [field; exact Hs | rewrite E; ring]. }
      apply Hm. transitivity (mx - (mx - mn)); [ring | rewrite E2; ring]. }
    unfold drift_off. cbn [drift_sum kpow]. field. split; assumption.
  Qed.

  (** also with a single-entry or two-entry slip vector (trailing zeros dropped) *)
  Lemma drift_off_short (a scale1 e0 delta0 p : K) :
    e0 <> 0 -> delta0 <> 0 ->
    drift_off [a] scale1 e0 delta0 p = drift_off [a; 0; 0] scale1 e0 delta0 p.
  Proof. intros H1 H2. unfold drift_off. cbn [drift_sum kpow]. field. split; assumption. Qed.

  (** ** the centroid map *)
  Theorem cstep_matrix (t a : K) (c : K * K) : cstep t a c = mat_apply (Mstep t a) c.
  Proof.
    destruct c as [u v]. unfold cstep, drift_step, rf_step, mat_apply, Mstep. cbn [fst snd].
    f_equal; ring.
  Qed.

  Theorem Mstep_det (t a : K) : mat_det (Mstep t a) = 1.
  Proof. unfold mat_det, Mstep. cbn [fst snd]. ring. Qed.

  Theorem Mstep_trace (t a : K) : mat_tr (Mstep t a) = two - a * t.
  Proof. unfold mat_tr, Mstep, two. cbn [fst snd]. ring. Qed.

  Theorem orbit_matrix (t a : K) (c : K * K) (k : nat) :
    orbit t a c k = mat_orbit (Mstep t a) c k.
  Proof. induction k as [|k IH]; cbn [orbit mat_orbit]; [reflexivity|]. rewrite IH. apply cstep_matrix. Qed.

  (** the quadratic form t u^2 + a t u v + a v^2 is conserved by one step ... *)
  Theorem invariant_step (t a : K) (c : K * K) : inv_form t a (cstep t a c) = inv_form t a c.
  Proof.
    destruct c as [u v]. unfold inv_form, cstep, drift_step, rf_step. cbn [fst snd]. ring.
  Qed.

  (** ... hence along the whole orbit: the centroid stays on one conic for all time *)
  Theorem orbit_invariant (t a : K) (c : K * K) (k : nat) :
    inv_form t a (orbit t a c k) = inv_form t a c.
  Proof. induction k as [|k IH]; cbn [orbit]; [reflexivity|]. rewrite invariant_step. exact IH. Qed.

  Lemma orbit_list_spec (t a : K) (k : nat) : forall c j, (j <= k)%nat ->
    nth j (orbit_list t a c k) c = orbit t a c j.
  Proof.
    induction k as [|k IH]; intros c j Hj.
    - replace j with O by lia. reflexivity.
    - destruct j as [|j]; [reflexivity|]. cbn [orbit_list nth].
      rewrite (nth_indep _ c (cstep t a c)).
      2:{ clear -Hj. assert (L : forall c m, length (orbit_list t a c m) = S m).
          { intros c0 m; revert c0; induction m as [|m IHm]; intros c0; cbn [orbit_list length]; [reflexivity|].
            rewrite IHm. reflexivity. }
          rewrite L. lia. }
      rewrite IH by lia.
      clear. revert c. induction j as [|j IHj]; intros c; cbn [orbit]; [reflexivity|].
      rewrite IHj. reflexivity.
  Qed.

  (** ** C08, RF and drift: block b of the offsets carries the same field as block 0 *)
  Theorem rf_offsets_all_bunches (n : Z) (f : Z -> K) (b x : Z) :
    (0 <= x < n)%Z -> rf_offsets n f (b * n + x) = f x /\ rf_offsets n f (b * n + x) = rf_offsets n f x.
  Proof.
    intros Hx. unfold rf_offsets.
    assert (E : ((b * n + x) mod n = x)%Z).
    { rewrite Z.add_comm, Z.mod_add by lia. apply Z.mod_small; lia. }
    rewrite E, (Z.mod_small x n) by lia. split; reflexivity.
  Qed.
End RFAlg.

(** ** the dyadic (integer) orbit the extracted driver runs is the field orbit *)
Section ZOrbit.
  Variable K : Fld.
  Add Field KFz : (@Fth K).
  Local Open Scope F_scope.

  Definition p2 (e : Z) : K := fz (2 ^ e)%Z.

  Lemma p2_nz e : (0 <= e)%Z -> p2 e <> 0.
  Proof.
    intros He. pattern e. apply natlike_ind; [| |exact He].
    - change (p2 0) with (1 : K). intro H. apply (@nz2 K). rewrite H. ring.
    - intros x Hx IH. unfold p2 in *. rewrite Z.pow_succ_r by exact Hx. rewrite fz_mul.
      apply mul_nz; [|exact IH].
      intro H2. apply (@nz2 K). rewrite <- H2. cbn [fz fpos]. unfold two. ring.
  Qed.

  Lemma p2_add a b : (0 <= a)%Z -> (0 <= b)%Z -> p2 (a + b) = p2 a * p2 b.
  Proof. intros Ha Hb. unfold p2. rewrite Z.pow_add_r by assumption. apply fz_mul. Qed.

  Lemma zstep_correct (E T A U V : Z) (q : K) :
    (0 <= E)%Z -> q <> 0 ->
    cstep (fz T / p2 E) (fz A / p2 E) (fz U / q, fz V / q) =
    (fz (fst (zstep E T A (U, V))) / (q * p2 E * p2 E), fz (snd (zstep E T A (U, V))) / (q * p2 E * p2 E)).
  Proof.
    intros HE Hq. pose proof (p2_nz E HE) as Hp.
    unfold cstep, drift_step, rf_step, zstep. cbn [fst snd].
    rewrite !Z.shiftl_mul_pow2 by exact HE.
    rewrite !fz_sub, !fz_mul, !fz_add, !fz_mul. fold (p2 E).
    f_equal; field; repeat split; assumption.
  Qed.

  Theorem zorbit_correct (E T A U V s : Z) (k : nat) :
    (0 <= E)%Z -> (0 <= s)%Z ->
    orbit (fz T / p2 E) (fz A / p2 E) (fz U / p2 s, fz V / p2 s) k =
    (fz (fst (zorbit E T A (U, V) k)) / p2 (s + 2 * E * Z.of_nat k),
     fz (snd (zorbit E T A (U, V) k)) / p2 (s + 2 * E * Z.of_nat k)).
  Proof.
    intros HE Hs. induction k as [|k IH]; cbn [orbit zorbit].
    - replace (s + 2 * E * Z.of_nat 0)%Z with s by lia. reflexivity.
    - rewrite IH. destruct (zorbit E T A (U, V) k) as [Uk Vk]. cbn [fst snd].
      rewrite zstep_correct by (try assumption; apply p2_nz; lia).
      replace (s + 2 * E * Z.of_nat (S k))%Z with ((s + 2 * E * Z.of_nat k) + E + E)%Z by lia.
      rewrite !p2_add by lia. reflexivity.
  Qed.
End ZOrbit.

(** ** C08, RF and drift part: every bunch receives the same RF kick and the same drift.
    KickMap::apply (kick along y) reads, for bunch b and row x, the table rows built from
    offset entry min(b, nb-1)*n + x; the RF offset vector carries the field there for every b.
    KickMap::apply (kick along x) reads entry y for every bunch; the drift writes exactly these. *)
Theorem C08_rf_offsets_all_bunches (K : Fld) (n nb : Z) (f : Z -> K) (b x : Z) :
  (0 <= b < nb)%Z -> (0 <= x < n)%Z ->
  rf_offsets n f (Z.min b (nb - 1) * n + x) = f x /\
  rf_offsets n f (Z.min b (nb - 1) * n + x) = rf_offsets n f (Z.min 0 (1 - 1) * n + x).
Proof.
  intros Hb Hx.
  destruct (rf_offsets_all_bunches K n f (Z.min b (nb - 1)) x Hx) as [A _].
  destruct (rf_offsets_all_bunches K n f (Z.min 0 (1 - 1)) x Hx) as [B _].
  rewrite A, B. split; reflexivity.
Qed.

Theorem C08_drift_offsets_all_bunches (K : Fld) (n : Z) (f : Z -> K) (y : Z) :
  (0 <= y < n)%Z ->
  drift_offsets n f y = f y /\
  (forall i, (n <= i)%Z -> drift_offsets n f i = f0).
Proof.
  intros Hy. unfold drift_offsets. split.
  - replace ((0 <=? y)%Z && (y <? n)%Z)%bool with true; [reflexivity|].
    symmetry. apply andb_true_iff. split; [apply Z.leb_le | apply Z.ltb_lt]; lia.
  - intros i Hi. replace (i <? n)%Z with false by (symmetry; apply Z.ltb_ge; lia).
    rewrite andb_false_r. reflexivity.
Qed.
