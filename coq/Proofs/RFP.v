(** * RF kick and drift: offset fields, the centroid map, its orbit and invariant (C03);
      every bunch's block of the offsets carries the same field (RF/drift part of C08). *)
From Coq Require Import List ZArith QArith Qcanon Lia Bool Ring Field.
From Inovesa Require Import Base.FieldKit Base.Sums Model.RF.
Import ListNotations.

Section RFAlg.
  Variable K : Fld.
  Add Field KFrf : (@Fth K).
  Local Open Scope F_scope.

  (** ** Ruler: the constructor's expression for the zero bin is -min/delta, the (fractional)
      index whose coordinate is 0 *)
  Theorem zerobin_correct (steps : Z) (mn mx : K) :
    mn <> mx -> fz (K:=K) (steps - 1) <> 0 ->
    ruler_zerobin steps mn mx = - mn / ruler_delta steps mn mx /\
    mn + ruler_zerobin steps mn mx * ruler_delta steps mn mx = 0.
  Proof.
    intros Hm Hs. unfold ruler_zerobin, ruler_delta, two.
    assert (H1 : mn - mx <> 0) by (intro E; apply Hm; transitivity (mn - mx + mx); [ring | rewrite E; ring]).
    assert (H2 : mx - mn <> 0) by (intro E; apply Hm; transitivity (mx - (mx - mn)); [ring | rewrite E; ring]).
    split; field; repeat split; try assumption; try exact (@nz2 K).
  Qed.

  (** coordinate of cell i relative to the zero bin *)
  Lemma ruler_at_zerobin (steps : Z) (mn mx : K) (i : Z) :
    mn <> mx -> fz (K:=K) (steps - 1) <> 0 ->
    ruler_at mn (ruler_delta steps mn mx) i =
    (fz i - ruler_zerobin steps mn mx) * ruler_delta steps mn mx.
  Proof.
    intros Hm Hs. destruct (zerobin_correct steps mn mx Hm Hs) as [_ E].
    unfold ruler_at. transitivity (mn + fz i * ruler_delta steps mn mx
      - (mn + ruler_zerobin steps mn mx * ruler_delta steps mn mx)); [rewrite E; ring | ring].
  Qed.

  (** ** the linear RF kick is o_x = t*(xc - x) + (constant phase term), times the amplitude;
      the constant vanishes for the static map (phase = synchronous phase) *)
  Theorem rf_offsets_linear (t xc phaseoffs bl2phase delta0 ampl : K) (x : Z) :
    bl2phase <> 0 -> delta0 <> 0 ->
    rf_lin t xc phaseoffs bl2phase delta0 ampl x =
    ampl * (t * (xc - fz x)) + ampl * t * (phaseoffs / (bl2phase * delta0)).
  Proof. intros H1 H2. unfold rf_lin. field. split; assumption. Qed.

  Corollary rf_offsets_static (t xc bl2phase delta0 : K) (x : Z) :
    bl2phase <> 0 -> delta0 <> 0 ->
    rf_lin t xc 0 bl2phase delta0 1 x = t * (xc - fz x).
  Proof. intros H1 H2. unfold rf_lin. field. split; assumption. Qed.

  (** ** the drift with slip = [a; a1; a2]: the general (alpha1, alpha2) form ... *)
  Theorem drift_offsets_general (a a1 a2 scale1 e0 delta0 p : K) :
    e0 <> 0 -> delta0 <> 0 ->
    drift_off [a; a1; a2] scale1 e0 delta0 p =
    (a * p + a1 * p * (p * scale1 / e0) + a2 * p * ((p * scale1 / e0) * (p * scale1 / e0))) / delta0.
  Proof. intros H1 H2. unfold drift_off. cbn [drift_sum kpow]. field. split; assumption. Qed.

  (** ... and for alpha1 = alpha2 = 0 on axes of equal spacing: o_y = a*(y - yc) *)
  Theorem drift_offsets_linear (a scale1 e0 : K) (steps : Z) (mn mx delta0 : K) (y : Z) :
    mn <> mx -> fz (K:=K) (steps - 1) <> 0 -> e0 <> 0 ->
    delta0 = ruler_delta steps mn mx ->
    drift_off [a; 0; 0] scale1 e0 delta0 (ruler_at mn (ruler_delta steps mn mx) y) =
    a * (fz y - ruler_zerobin steps mn mx).
  Proof.
    intros Hm Hs He ->. rewrite ruler_at_zerobin by assumption.
    assert (Hd : ruler_delta steps mn mx <> 0).
    { unfold ruler_delta. intro E.
      assert (E2 : mx - mn = 0).
      { transitivity ((mx - mn) / fz (steps - 1) * fz (steps - 1)); [field; exact Hs | rewrite E; ring]. }
      apply Hm. transitivity (mx - (mx - mn)); [ring | rewrite E2; ring]. }
    unfold drift_off. cbn [drift_sum kpow]. field. split; assumption.
  Qed.

  (** also with a single-entry or two-entry slip vector (trailing zeros dropped) *)
  Lemma drift_off_short (a scale1 e0 delta0 p : K) :
    e0 <> 0 -> delta0 <> 0 ->
    drift_off [a] scale1 e0 delta0 p = drift_off [a; 0; 0] scale1 e0 delta0 p.
  Proof. intros H1 H2. unfold drift_off. cbn [drift_sum kpow]. field. split; assumption. Qed.

  (** ** the centroid map *)
  Theorem cstep_matrix (t a : K) (c : K * K) : cstep t a c = mat_apply (Mstep t a) c.
  Proof.
    destruct c as [u v]. unfold cstep, drift_step, rf_step, mat_apply, Mstep. cbn [fst snd].
    f_equal; ring.
  Qed.

  Theorem Mstep_det (t a : K) : mat_det (Mstep t a) = 1.
  Proof. unfold mat_det, Mstep. cbn [fst snd]. ring. Qed.

  Theorem Mstep_trace (t a : K) : mat_tr (Mstep t a) = two - a * t.
  Proof. unfold mat_tr, Mstep, two. cbn [fst snd]. ring. Qed.

  Theorem orbit_matrix (t a : K) (c : K * K) (k : nat) :
    orbit t a c k = mat_orbit (Mstep t a) c k.
  Proof. induction k as [|k IH]; cbn [orbit mat_orbit]; [reflexivity|]. rewrite IH. apply cstep_matrix. Qed.

  (** the quadratic form t u^2 + a t u v + a v^2 is conserved by one step ... *)
  Theorem invariant_step (t a : K) (c : K * K) : inv_form t a (cstep t a c) = inv_form t a c.
  Proof.
    destruct c as [u v]. unfold inv_form, cstep, drift_step, rf_step. cbn [fst snd]. ring.
  Qed.

  (** ... hence along the whole orbit: the centroid stays on one conic for all time *)
  Theorem orbit_invariant (t a : K) (c : K * K) (k : nat) :
    inv_form t a (orbit t a c k) = inv_form t a c.
  Proof. induction k as [|k IH]; cbn [orbit]; [reflexivity|]. rewrite invariant_step. exact IH. Qed.

  Lemma orbit_list_spec (t a : K) (k : nat) : forall c j, (j <= k)%nat ->
    nth j (orbit_list t a c k) c = orbit t a c j.
  Proof.
    induction k as [|k IH]; intros c j Hj.
    - replace j with O by lia. reflexivity.
    - destruct j as [|j]; [reflexivity|]. cbn [orbit_list nth].
      rewrite (nth_indep _ c (cstep t a c)).
      2:{ clear -Hj. assert (L : forall c m, length (orbit_list t a c m) = S m).
          { intros c0 m; revert c0; induction m as [|m IHm]; intros c0; cbn [orbit_list length]; [reflexivity|].
            rewrite IHm. reflexivity. }
          rewrite L. lia. }
      rewrite IH by lia.
      clear. revert c. induction j as [|j IHj]; intros c; cbn [orbit]; [reflexivity|].
      rewrite IHj. reflexivity.
  Qed.

  (** ** C08, RF and drift: block b of the offsets carries the same field as block 0 *)
  Theorem rf_offsets_all_bunches (n : Z) (f : Z -> K) (b x : Z) :
    (0 <= x < n)%Z -> rf_offsets n f (b * n + x) = f x /\ rf_offsets n f (b * n + x) = rf_offsets n f x.
  Proof.
    intros Hx. unfold rf_offsets.
    assert (E : ((b * n + x) mod n = x)%Z).
    { rewrite Z.add_comm, Z.mod_add by lia. apply Z.mod_small; lia. }
    rewrite E, (Z.mod_small x n) by lia. split; reflexivity.
  Qed.
End RFAlg.
