(** * Lemmas about the hyperslab vocabulary (Model/H5Slab.v): a selection that is full in all but the
      first dimension is contiguous; writing a buffer into the slab that [_appendData] selects after
      extending the first dimension is appending; the rank 3 / rank 4 selections of the reader are
      the model's [slab]. *)
From Coq Require Import List ZArith Bool Lia.
From Inovesa Require Import Base.FieldKit Model.Records Model.H5Slab.
Import ListNotations.
Local Open Scope Z_scope.

Lemma seq_add s len : seq s len = map (fun i => (s + i)%nat) (seq 0 len).
Proof.
  revert s. induction len as [|n IH]; intros s; [reflexivity|].
  cbn [seq map]. rewrite Nat.add_0_r. f_equal. rewrite (IH (S s)), <- seq_shift, map_map.
  apply map_ext. intros i. lia.
Qed.

Lemma zrange_app a b : 0 <= a -> 0 <= b -> zrange (a + b) = zrange a ++ map (fun k => a + k) (zrange b).
Proof.
  intros Ha Hb. unfold zrange. rewrite Z2Nat.inj_add by lia. rewrite seq_app, map_app. f_equal.
  cbn [Nat.add]. rewrite (seq_add (Z.to_nat a)), !map_map. apply map_ext. intros i. lia.
Qed.

Lemma zrange_0 : zrange 0 = []. Proof. reflexivity. Qed.
Lemma zrange_1 : zrange 1 = [0]. Proof. reflexivity. Qed.

Lemma zrange_succ n : 0 <= n -> zrange (n + 1) = zrange n ++ [n].
Proof. intros H. rewrite zrange_app by lia. rewrite zrange_1. cbn [map]. rewrite Z.add_0_r. reflexivity. Qed.

Lemma zrange_cons n : 0 <= n -> zrange (1 + n) = 0 :: map (fun k => 1 + k) (zrange n).
Proof. intros H. rewrite zrange_app by lia. rewrite zrange_1. reflexivity. Qed.

Lemma zrange_len n : length (zrange n) = Z.to_nat n.
Proof. unfold zrange. rewrite map_length, seq_length. reflexivity. Qed.

Lemma map_flat_map {A B C} (g : B -> C) (f : A -> list B) l :
  map g (flat_map f l) = flat_map (fun i => map g (f i)) l.
Proof. induction l as [|x l IH]; [reflexivity|]. cbn [flat_map]. rewrite map_app, IH. reflexivity. Qed.

Lemma flat_map_single {A B} (f : A -> B) l : flat_map (fun i => [f i]) l = map f l.
Proof. induction l as [|x l IH]; [reflexivity|]. cbn [flat_map map app]. rewrite IH. reflexivity. Qed.

Lemma flat_map_ext' {A B} (f g : A -> list B) l : (forall x, In x l -> f x = g x) -> flat_map f l = flat_map g l.
Proof.
  induction l as [|x l IH]; intros H; [reflexivity|]. cbn [flat_map].
  rewrite (H x (or_introl eq_refl)), IH; [reflexivity|]. intros y Hy. apply H. right. exact Hy.
Qed.

Lemma zrange_mul a P : 0 <= a -> 0 <= P ->
  zrange (a * P) = flat_map (fun i => map (fun k => i * P + k) (zrange P)) (zrange a).
Proof.
  intros Ha HP. rewrite <- (Z2Nat.id a Ha). induction (Z.to_nat a) as [|n IH]; [reflexivity|].
  rewrite Nat2Z.inj_succ. unfold Z.succ. rewrite zrange_succ by lia. rewrite flat_map_app. cbn [flat_map]. rewrite app_nil_r.
  rewrite <- IH. replace ((Z.of_nat n + 1) * P) with (Z.of_nat n * P + P) by lia. apply zrange_app; nia.
Qed.

Lemma prodZ_nonneg ds : Forall (fun d => 0 <= d) ds -> 0 <= prodZ ds.
Proof. induction 1 as [|d ds Hd _ IH]; cbn [prodZ fold_right]; [lia|]. fold (prodZ ds). nia. Qed.

(** a selection that takes every dimension in full enumerates a contiguous block *)
Lemma gidx_full ds : Forall (fun d => 0 <= d) ds -> forall acc,
  gidx acc ds (map (fun _ => 0) ds) ds = map (fun k => acc * prodZ ds + k) (zrange (prodZ ds)).
Proof.
  induction 1 as [|d ds Hd Hds IH]; intros acc.
  - change (prodZ []) with 1. rewrite zrange_1. cbn [gidx map]. f_equal. lia.
  - cbn [gidx map prodZ fold_right]. fold (prodZ ds). pose proof (prodZ_nonneg ds Hds) as HP.
    rewrite (zrange_mul d (prodZ ds) Hd HP), map_flat_map.
    apply flat_map_ext'. intros i _. rewrite IH, map_map. apply map_ext. intros k. lia.
Qed.

(** first dimension [n0, n0+size), the rest in full: the block that follows the first n0 records *)
Lemma gidx_append inner n0 size D : Forall (fun d => 0 <= d) inner -> 0 <= size ->
  gidx 0 (D :: inner) (n0 :: map (fun _ => 0) inner) (size :: inner)
  = map (fun k => n0 * prodZ inner + k) (zrange (size * prodZ inner)).
Proof.
  intros Hi Hs. cbn [gidx]. pose proof (prodZ_nonneg inner Hi) as HP.
  rewrite (zrange_mul size (prodZ inner) Hs HP), map_flat_map.
  apply flat_map_ext'. intros i _. rewrite (gidx_full inner Hi), map_map. apply map_ext. intros k. lia.
Qed.

Section Write.
  Context {A : Type}.

  Lemma upd_app_len (file : list A) x y pad : upd (length file) x (file ++ y :: pad) = file ++ x :: pad.
  Proof. induction file as [|h t IH]; [reflexivity|]. cbn [length app upd]. rewrite IH. reflexivity. Qed.

  Lemma write_consecutive : forall (pad src file : list A), (length pad <= length src)%nat ->
    write_at (map (fun k => Z.of_nat (length file) + k) (zrange (Z.of_nat (length pad)))) src (file ++ pad)
    = file ++ firstn (length pad) src.
  Proof.
    induction pad as [|y pad IH]; intros src file H.
    - cbn. reflexivity.
    - destruct src as [|x src]; [cbn in H; lia|]. cbn [length] in *.
      rewrite Nat2Z.inj_succ. unfold Z.succ. rewrite Z.add_comm, zrange_cons by lia.
      cbn [map write_at firstn]. rewrite Z.add_0_r, Nat2Z.id, upd_app_len.
      replace (file ++ x :: pad) with ((file ++ [x]) ++ pad) by (rewrite <- app_assoc; reflexivity).
      rewrite map_map.
      rewrite (map_ext (fun k => Z.of_nat (length file) + (1 + k)) (fun k => Z.of_nat (length (file ++ [x])) + k)).
      + rewrite IH by lia. rewrite <- app_assoc. reflexivity.
      + intros k. rewrite app_length. cbn [length]. lia.
  Qed.

  (** extend the first dimension by [size], select the new block, write: the buffer's first
      [size * prod inner] elements are appended *)
  Theorem h5_append_first_dim (fill : A) inner n0 size (file src : list A) :
    Forall (fun d => 0 <= d) inner -> 0 <= n0 -> 0 <= size ->
    Z.of_nat (length file) = n0 * prodZ inner -> size * prodZ inner <= Z.of_nat (length src) ->
    h5_append fill ((n0 + size) :: inner) (n0 :: map (fun _ => 0) inner) (size :: inner) src file
    = file ++ firstn (Z.to_nat (size * prodZ inner)) src.
  Proof.
    intros Hi Hn Hs Hf Hsrc. pose proof (prodZ_nonneg inner Hi) as HP.
    unfold h5_append, extend_first. rewrite (gidx_append inner n0 size _ Hi Hs).
    cbn [prodZ fold_right]. fold (prodZ inner).
    set (m := (Z.to_nat ((n0 + size) * prodZ inner) - length file)%nat).
    assert (Hm : m = Z.to_nat (size * prodZ inner)) by (unfold m; nia).
    pose proof (write_consecutive (repeat fill m) src file) as W. rewrite repeat_length in W.
    rewrite Hf in W. rewrite Hm in *. rewrite Z2Nat.id in W by nia. apply W. nia.
  Qed.
End Write.

(** the reader's selections are the model's [slab] *)
Lemma slab_read_rank4 {A} (d : A) len nb d2 d3 ps u (data : list A) :
  slab_read d [len; nb; d2; d3] [u; 0; 0; 0] [1; nb; ps; ps] data = slab nb ps d2 d3 u d data.
Proof.
  unfold slab_read, slab. cbn [gidx]. rewrite zrange_1. cbn [flat_map]. rewrite app_nil_r.
  rewrite map_flat_map. apply flat_map_ext'. intros b _.
  rewrite map_flat_map. apply flat_map_ext'. intros x _.
  rewrite flat_map_single, map_map. apply map_ext. intros y. f_equal. lia.
Qed.

Lemma slab_read_rank3 {A} (d : A) len d1 d2 ps u (data : list A) :
  slab_read d [len; d1; d2] [u; 0; 0] [1; ps; ps] data = slab 1 ps d1 d2 u d data.
Proof.
  unfold slab_read, slab. cbn [gidx]. rewrite !zrange_1. cbn [flat_map]. rewrite !app_nil_r.
  rewrite map_flat_map. apply flat_map_ext'. intros x _.
  rewrite flat_map_single, map_map. apply map_ext. intros y. f_equal. lia.
Qed.
