(** * C05 / C03: the axis extents main() hands to the PhaseSpace constructor (Gen/Gen_Scaling.v: [gen_qmin],
    [gen_qmax], [gen_pmin], [gen_pmax], [gen_axis_steps]) through the axis arithmetic of [Ruler] (Gen/Gen_Ruler.v).

    Both axes span [PhaseSpaceSize] whatever the two grid shifts are, hence the mesh widths of the position and of the
    energy axis are equal (square cells); the zero bin of each axis sits at [(n-1)/2] plus its own shift.  The linear
    RF kick is written in cells ([tan(angle) * (xcenter - x)] energy cells for position row [x]): [rf_kick_natural_units]
    states what that is in natural units for ANY pair of axes - minus [tan(angle) * (delta_E/delta_q) * q(x)] - and
    [rf_kick_natural_units_main] that for main()'s axes the ratio is 1.  This is where the square-cell convention of
    RFKickMap::_calcKick enters the force law of C05. *)
From Coq Require Import List ZArith Bool Field.
From Inovesa Require Import Base.FieldKit Model.ScalingOps Gen.Gen_Scaling Gen.Gen_Ruler.
Import ListNotations.
Local Open Scope F_scope.

Ltac open_axes :=
  unfold gen_qmin, gen_qmax, gen_pmin, gen_pmax, gen_axis_steps, gen_ruler_delta, gen_ruler_zerobin, gen_ruler_at in *;
  cbv zeta in *.

(** side conditions of [field]: hypotheses, 2 <> 0, products of those *)
Ltac side1 K :=
  first [ assumption | exact (@nz2 K) | apply (mul_nz K); side1 K
        | let H := fresh in intro H; apply (@nz2 K); rewrite <- H; ring ].
Ltac side_in K := repeat split; side1 K.

Section S.
  Variable K : Fld.
  Add Field KFax : (@Fth K).
  Ltac side := side_in K.
  Variable O : Ops K.
  Variable L : leaf -> K.
  Variable B : bleaf -> bool.

  Let n := gen_axis_steps K O L B.
  Let qmin := gen_qmin K O L B.
  Let qmax := gen_qmax K O L B.
  Let pmin := gen_pmin K O L B.
  Let pmax := gen_pmax K O L B.

  (** the number of mesh points per axis is the GridSize option *)
  Lemma axis_steps_is_gridsize : n = L O_getGridSize.
  Proof. reflexivity. Qed.

  (** both axes span PhaseSpaceSize, for every pair of shifts *)
  Lemma axes_span :
    n - 1 <> 0 -> qmax - qmin = L O_getPhaseSpaceSize /\ pmax - pmin = L O_getPhaseSpaceSize.
  Proof.
    subst n qmin qmax pmin pmax. open_axes. intros Hn. split; field; side.
  Qed.

  (** ... centred at minus the shift times the mesh width *)
  Lemma axes_sum :
    n - 1 <> 0 ->
    qmin + qmax = - (two * (L O_getPSShiftX * (L O_getPhaseSpaceSize / (n - 1)))) /\
    pmin + pmax = - (two * (L O_getPSShiftY * (L O_getPhaseSpaceSize / (n - 1)))).
  Proof.
    subst n qmin qmax pmin pmax. open_axes. unfold two. intros Hn. split; field; side.
  Qed.

  Lemma axes_equal_width : n - 1 <> 0 -> pmax - pmin = qmax - qmin.
  Proof. intros Hn. destruct (axes_span Hn) as [Hq Hp]. rewrite Hq, Hp. reflexivity. Qed.

  (** square cells: the mesh widths Ruler computes for the two axes are equal, and equal PhaseSpaceSize/(n-1) *)
  Lemma cells_square :
    n - 1 <> 0 -> gen_ruler_delta K n pmin pmax = gen_ruler_delta K n qmin qmax.
  Proof. intros Hn. unfold gen_ruler_delta. rewrite (axes_equal_width Hn). reflexivity. Qed.

  Lemma cell_width :
    n - 1 <> 0 -> gen_ruler_delta K n qmin qmax = L O_getPhaseSpaceSize / (n - 1).
  Proof. intros Hn. unfold gen_ruler_delta. destruct (axes_span Hn) as [Hq _]. rewrite Hq. reflexivity. Qed.

  (** the zero bin Ruler computes for an axis of width [P <> 0] whose ends add up to [- 2 S P/(n-1)] *)
  Lemma zerobin_of (mn mx S P : K) :
    n - 1 <> 0 -> P <> 0 -> mx - mn = P -> mn + mx = - (two * (S * (P / (n - 1)))) ->
    gen_ruler_zerobin K n mn mx = (n - 1) / two + S.
  Proof.
    intros Hn HP Hd Hs. unfold gen_ruler_zerobin. rewrite Hs.
    replace (mn - mx) with (- P) by (rewrite <- Hd; ring).
    assert (HP' : - P <> 0) by (intro E; apply HP; transitivity (- - P); [ ring | rewrite E; ring ]).
    unfold two. field; side.
  Qed.

  (** the zero bin of each axis: the centre of the grid plus the axis' own shift *)
  Lemma zerobin_position :
    n - 1 <> 0 -> L O_getPhaseSpaceSize <> 0 ->
    gen_ruler_zerobin K n qmin qmax = (n - 1) / two + L O_getPSShiftX.
  Proof.
    intros Hn HP. apply (zerobin_of _ _ _ (L O_getPhaseSpaceSize) Hn HP);
      [ exact (proj1 (axes_span Hn)) | exact (proj1 (axes_sum Hn)) ].
  Qed.

  Lemma zerobin_energy :
    n - 1 <> 0 -> L O_getPhaseSpaceSize <> 0 ->
    gen_ruler_zerobin K n pmin pmax = (n - 1) / two + L O_getPSShiftY.
  Proof.
    intros Hn HP. apply (zerobin_of _ _ _ (L O_getPhaseSpaceSize) Hn HP);
      [ exact (proj2 (axes_span Hn)) | exact (proj2 (axes_sum Hn)) ].
  Qed.
End S.

(** ** the linear RF kick in natural units, for any two axes (Gen_Ruler only) *)
Section Kick.
  Variable K : Fld.
  Add Field KFax2 : (@Fth K).

  (** coordinate of mesh point [x] seen from the zero bin: [delta * (zerobin - x) = - at(x)] *)
  Lemma ruler_zero_bin (s mn mx x : K) :
    s - 1 <> 0 -> mn - mx <> 0 ->
    gen_ruler_delta K s mn mx * (gen_ruler_zerobin K s mn mx - x) = - gen_ruler_at K mn (gen_ruler_delta K s mn mx) x.
  Proof.
    intros Hs Hm. unfold gen_ruler_delta, gen_ruler_zerobin, gen_ruler_at. field. side_in K.
  Qed.

  (** RFKickMap::_calcKick moves row [x] by [t * (xcenter - x)] energy CELLS, [xcenter] the zero bin of the position axis.
      In natural units (energy mesh width [dE], position mesh width [dq], position [q(x)] of row [x]) that is
      [- t * (dE/dq) * q(x)]: the focusing strength is [t] only when the cells are square. *)
  Lemma rf_kick_natural_units (s qmn qmx pmn pmx t x : K) :
    s - 1 <> 0 -> qmn - qmx <> 0 ->
    let dq := gen_ruler_delta K s qmn qmx in
    let dE := gen_ruler_delta K s pmn pmx in
    let xc := gen_ruler_zerobin K s qmn qmx in
    dE * (t * (xc - x)) = - (t * (dE / dq) * gen_ruler_at K qmn dq x).
  Proof.
    intros Hs Hm dq dE xc.
    assert (Hdq : dq <> 0).
    { subst dq. unfold gen_ruler_delta. intro E. apply Hm.
      transitivity (- ((qmx - qmn) / (s - 1) * (s - 1))); [ field; exact Hs | rewrite E; ring ]. }
    pose proof (ruler_zero_bin s qmn qmx x Hs Hm) as Z. fold dq xc in Z.
    transitivity (t * (dE / dq) * (dq * (xc - x))); [ field; exact Hdq | rewrite Z; ring ].
  Qed.
End Kick.

(** ** ... and for the axes main() builds: the kick in cells IS the natural-unit focusing [- t * q(x)] *)
Section Main.
  Variable K : Fld.
  Add Field KFax3 : (@Fth K).
  Variable O : Ops K.
  Variable L : leaf -> K.
  Variable B : bleaf -> bool.

  Lemma rf_kick_natural_units_main (t x : K) :
    let n := gen_axis_steps K O L B in
    let dq := gen_ruler_delta K n (gen_qmin K O L B) (gen_qmax K O L B) in
    let dE := gen_ruler_delta K n (gen_pmin K O L B) (gen_pmax K O L B) in
    let xc := gen_ruler_zerobin K n (gen_qmin K O L B) (gen_qmax K O L B) in
    n - 1 <> 0 -> L O_getPhaseSpaceSize <> 0 ->
    dE * (t * (xc - x)) = - (t * gen_ruler_at K (gen_qmin K O L B) dq x).
  Proof.
    intros n dq dE xc Hn HP.
    assert (Hm : gen_qmin K O L B - gen_qmax K O L B <> 0).
    { intro E. apply HP. destruct (axes_span K O L B Hn) as [Hq _]. rewrite <- Hq.
      transitivity (- (gen_qmin K O L B - gen_qmax K O L B)); [ ring | rewrite E; ring ]. }
    assert (Hsq : dE = dq) by (apply cells_square; exact Hn).
    assert (Hdq : dq <> 0).
    { assert (Hw : dq = L O_getPhaseSpaceSize / (n - 1)) by (exact (cell_width K O L B Hn)).
      rewrite Hw. intro E. apply HP.
      transitivity (L O_getPhaseSpaceSize / (n - 1) * (n - 1)); [ field; exact Hn | rewrite E; ring ]. }
    pose proof (rf_kick_natural_units K n (gen_qmin K O L B) (gen_qmax K O L B) (gen_pmin K O L B) (gen_pmax K O L B) t x Hn Hm) as R.
    cbv zeta in R. change (dE * (t * (xc - x)) = - (t * (dE / dq) * gen_ruler_at K (gen_qmin K O L B) dq x)) in R.
    rewrite R. rewrite Hsq. field. exact Hdq.
  Qed.
End Main.

(** a computed instance over Qc: 65 points, PhaseSpaceSize 12, shifts -10 / +6 *)
From Coq Require Import QArith Qcanon.
From Inovesa Require Import Base.Float32.
Example main_axes_instance :
  let L := fun l : leaf => match l with O_getGridSize => Qcz 65 | O_getPhaseSpaceSize => Qcz 12
                                      | O_getPSShiftX => Qcz (-10) | O_getPSShiftY => Qcz 6 | _ => Qcz 1 end in
  let B := fun _ : bleaf => false in
  (gen_axis_steps QcF QcOps L B - 1 <> 0)%Qc /\
  gen_ruler_zerobin QcF (Qcz 65) (gen_qmin QcF QcOps L B) (gen_qmax QcF QcOps L B) = Qcz 22 /\
  gen_ruler_zerobin QcF (Qcz 65) (gen_pmin QcF QcOps L B) (gen_pmax QcF QcOps L B) = Qcz 38 /\
  gen_ruler_delta QcF (Qcz 65) (gen_pmin QcF QcOps L B) (gen_pmax QcF QcOps L B) = Q2Qc (3 # 16).
Proof.
  cbv zeta. repeat split; try (apply Qc_is_canon; vm_compute; reflexivity).
  intro E. apply (f_equal this) in E. vm_compute in E. discriminate E.
Qed.
