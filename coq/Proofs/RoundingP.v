(** * The standard model of IEEE-754 rounding, derived from Flocq (not assumed).

    [RN32 x] / [RN64 x] are round-to-nearest-even into binary32 / binary64 (Flocq's FLT formats,
    unbounded above: no overflow handling).  From Flocq's [error_N_FLT] we get, for every real [x],

       RN32 x = x (1 + d) + e,   |d| <= 2^-24,  |e| <= 2^-150,  d e = 0          ([RN32_model])

    hence for the four operations and for the fused multiply-add.  The calculus below works with
    the equivalent inequality [pert u eta x v := |v - x| <= u |x| + eta] ("v is x after at most one
    rounding"): it is reflexive ([pert_refl]: NO rounding is also allowed), which is what makes
    every statement built on it hold for the fused AND the unfused evaluation of [a*b + c]
    ([fma_model], [fma_closure]) and for any wider intermediate precision.

    Then the classic tools: [(1+u)^k - 1 <= gamma_k = k u / (1 - k u)] ([pow1u_le_gam]), products of
    [k] roundings ([prod_pert]), and sums of [k] rounded products accumulated in ANY order / tree shape,
    fused or not ([psum1], [psum1_bound]: error <= ((1+u)^k - 1) Sum|t_i| + (2k-1)(1+u)^k eta).

    Axioms: the standard library's real numbers (classic, sig_forall_dec/sig_not_dec via Flocq). *)
From Coq Require Import Reals Lra Lia ZArith List Psatz Permutation.
From Flocq Require Import Core Relative.
Import ListNotations.
Local Open Scope R_scope.

Notation fexp32 := (FLT_exp (-149) 24).
Notation fexp64 := (FLT_exp (-1074) 53).
Definition RN32 : R -> R := round radix2 fexp32 ZnearestE.
Definition RN64 : R -> R := round radix2 fexp64 ZnearestE.

Definition u32 : R := bpow radix2 (-24).
Definition eta32 : R := bpow radix2 (-150).
Definition u64 : R := bpow radix2 (-53).
Definition eta64 : R := bpow radix2 (-1075).

Lemma u32_val : u32 = / 16777216.
Proof. unfold u32. cbn. lra. Qed.
Lemma u64_val : u64 = / 9007199254740992.
Proof. unfold u64. cbn. lra. Qed.
Lemma u32_pos : 0 < u32. Proof. apply bpow_gt_0. Qed.
Lemma eta32_pos : 0 < eta32. Proof. apply bpow_gt_0. Qed.
Lemma u64_pos : 0 < u64. Proof. apply bpow_gt_0. Qed.
Lemma eta64_pos : 0 < eta64. Proof. apply bpow_gt_0. Qed.
Lemma eta32_small : eta32 <= / 1000000000000000000000000000000000000000000000.
Proof.
  unfold eta32. change (-150)%Z with (- (150))%Z. rewrite bpow_opp. apply Rinv_le_contravar; [lra|].
  change (bpow radix2 150) with (IZR (Zpower_pos 2 150)).
  apply IZR_le. vm_compute. discriminate.
Qed.
Lemma eta64_le_eta32 : eta64 <= eta32.
Proof. apply bpow_le. lia. Qed.

(** ** Flocq's error theorem in the textbook form *)
Lemma bpow_half e : / 2 * bpow radix2 (e + 1) = bpow radix2 e.
Proof. rewrite bpow_plus. change (bpow radix2 1) with 2. lra. Qed.

Theorem RN32_model x :
  exists d e, Rabs d <= u32 /\ Rabs e <= eta32 /\ d * e = 0 /\ RN32 x = x * (1 + d) + e.
Proof.
  destruct (error_N_FLT radix2 (-149) 24 ltac:(lia) (fun t => negb (Z.even t)) x)
    as (d & e & Hd & He & Hde & Hr).
  exists d, e. repeat split; try assumption.
  - unfold u32. rewrite <- (bpow_half (-24)). exact Hd.
  - unfold eta32. rewrite <- (bpow_half (-150)). exact He.
Qed.

Theorem RN64_model x :
  exists d e, Rabs d <= u64 /\ Rabs e <= eta64 /\ d * e = 0 /\ RN64 x = x * (1 + d) + e.
Proof.
  destruct (error_N_FLT radix2 (-1074) 53 ltac:(lia) (fun t => negb (Z.even t)) x)
    as (d & e & Hd & He & Hde & Hr).
  exists d, e. repeat split; try assumption.
  - unfold u64. rewrite <- (bpow_half (-53)). exact Hd.
  - unfold eta64. rewrite <- (bpow_half (-1075)). exact He.
Qed.

(** a value of the format is not rounded again *)
Lemma RN32_idem x : RN32 (RN32 x) = RN32 x.
Proof.
  unfold RN32. apply round_generic; [apply valid_rnd_N|].
  apply generic_format_round; [apply FLT_exp_valid; reflexivity | apply valid_rnd_N].
Qed.

Lemma RN32_0 : RN32 0 = 0.
Proof. unfold RN32. apply round_0. apply valid_rnd_N. Qed.

(** the four operations and the fused multiply-add, as the hardware performs them *)
Definition fl32_add a b := RN32 (a + b).
Definition fl32_sub a b := RN32 (a - b).
Definition fl32_mul a b := RN32 (a * b).
Definition fl32_div a b := RN32 (a / b).
Definition fl32_fma a b c := RN32 (a * b + c).

Theorem fl32_add_model a b : exists d e, Rabs d <= u32 /\ Rabs e <= eta32 /\ fl32_add a b = (a + b) * (1 + d) + e.
Proof. destruct (RN32_model (a + b)) as (d & e & ? & ? & _ & ?). exists d, e; auto. Qed.
Theorem fl32_sub_model a b : exists d e, Rabs d <= u32 /\ Rabs e <= eta32 /\ fl32_sub a b = (a - b) * (1 + d) + e.
Proof. destruct (RN32_model (a - b)) as (d & e & ? & ? & _ & ?). exists d, e; auto. Qed.
Theorem fl32_mul_model a b : exists d e, Rabs d <= u32 /\ Rabs e <= eta32 /\ fl32_mul a b = (a * b) * (1 + d) + e.
Proof. destruct (RN32_model (a * b)) as (d & e & ? & ? & _ & ?). exists d, e; auto. Qed.
Theorem fl32_div_model a b : exists d e, Rabs d <= u32 /\ Rabs e <= eta32 /\ fl32_div a b = (a / b) * (1 + d) + e.
Proof. destruct (RN32_model (a / b)) as (d & e & ? & ? & _ & ?). exists d, e; auto. Qed.

(** one statement satisfied by BOTH evaluations of [a*b + c]: two roundings (unfused) or one (fused,
    [d1 = e1 = 0]) *)
Definition fma_shape (a b c r : R) : Prop :=
  exists d1 e1 d2 e2, Rabs d1 <= u32 /\ Rabs e1 <= eta32 /\ Rabs d2 <= u32 /\ Rabs e2 <= eta32 /\
    r = ((a * b) * (1 + d1) + e1 + c) * (1 + d2) + e2.

Theorem fma_model a b c : fma_shape a b c (fl32_add (fl32_mul a b) c) /\ fma_shape a b c (fl32_fma a b c).
Proof.
  split.
  - destruct (fl32_mul_model a b) as (d1 & e1 & H1 & H2 & E1).
    destruct (fl32_add_model (fl32_mul a b) c) as (d2 & e2 & H3 & H4 & E2).
    exists d1, e1, d2, e2. repeat split; try assumption. rewrite E2, E1. reflexivity.
  - destruct (RN32_model (a * b + c)) as (d2 & e2 & H3 & H4 & _ & E2).
    exists 0, 0, d2, e2. pose proof u32_pos. pose proof eta32_pos.
    repeat split; try assumption; try (rewrite Rabs_R0; lra).
    unfold fl32_fma. rewrite E2. ring.
Qed.

(** ** The calculus: [pert] *)
Section Pert.
  Variables u eta : R.
  Hypothesis Hu : 0 <= u.
  Hypothesis Heta : 0 <= eta.

  Definition pert (x v : R) : Prop := Rabs (v - x) <= u * Rabs x + eta.

  Lemma pert_refl x : pert x x.
  Proof. unfold pert. replace (x - x) with 0 by ring. rewrite Rabs_R0. pose proof (Rabs_pos x). nra. Qed.

  Lemma pert_of_model x v d e : Rabs d <= u -> Rabs e <= eta -> v = x * (1 + d) + e -> pert x v.
  Proof.
    intros Hd He ->. unfold pert. replace (x * (1 + d) + e - x) with (x * d + e) by ring.
    eapply Rle_trans; [apply Rabs_triang|]. rewrite Rabs_mult.
    pose proof (Rabs_pos x). pose proof (Rabs_pos d). nra.
  Qed.

  Lemma pert_model x v : pert x v ->
    exists d e, Rabs d <= u /\ Rabs e <= eta /\ v = x * (1 + d) + e.
  Proof.
    unfold pert. intros H. set (t := v - x) in *.
    pose proof (Rabs_pos x) as Px. pose proof (Rabs_pos t) as Pt.
    destruct (Req_dec x 0) as [X0|X0].
    { exists 0, v. subst x. rewrite Rabs_R0 in *. unfold t in H. rewrite Rminus_0_r in H.
      repeat split; [lra | lra | ring]. }
    assert (Px' : 0 < Rabs x) by (apply Rabs_pos_lt; exact X0).
    destruct (Req_dec (u * Rabs x + eta) 0) as [Z|NZ].
    { exists 0, 0. rewrite Rabs_R0. assert (T : t = 0).
      { apply Rabs_eq_R0. lra. }
      repeat split; try lra. unfold t in T. lra. }
    set (s := u * Rabs x + eta) in *.
    assert (Ps : 0 < s) by (unfold s in *; nra).
    exists (t * (u * Rabs x / s) / x), (t * (eta / s)).
    repeat split.
    - unfold Rdiv. rewrite !Rabs_mult, !Rabs_inv.
      rewrite (Rabs_pos_eq u), (Rabs_pos_eq (Rabs x)), (Rabs_pos_eq s) by lra.
      apply Rmult_le_reg_r with (Rabs x * s); [nra|].
      replace (Rabs t * (u * Rabs x * / s) * / Rabs x * (Rabs x * s)) with (Rabs t * u * Rabs x)
        by (field; lra).
      assert (Q : 0 <= u * Rabs x) by nra. nra.
    - unfold Rdiv. rewrite !Rabs_mult, !Rabs_inv.
      rewrite (Rabs_pos_eq eta), (Rabs_pos_eq s) by lra.
      apply Rmult_le_reg_r with s; [lra|].
      replace (Rabs t * (eta * / s) * s) with (Rabs t * eta) by (field; lra). nra.
    - unfold t, s. field. split; [fold s; lra | exact X0].
  Qed.

  (** rounding a value [x] that already carries the error [E0] against [x0] *)
  Lemma pert_err x0 x v E0 M :
    Rabs (x - x0) <= E0 -> Rabs x0 <= M -> pert x v ->
    Rabs (v - x0) <= E0 + u * (M + E0) + eta.
  Proof.
    unfold pert. intros H1 H2 H3.
    replace (v - x0) with ((v - x) + (x - x0)) by ring.
    eapply Rle_trans; [apply Rabs_triang|].
    assert (A : Rabs x <= M + E0).
    { replace x with (x0 + (x - x0)) by ring. eapply Rle_trans; [apply Rabs_triang|]. lra. }
    nra.
  Qed.

  Lemma pert_abs_le x v : pert x v -> Rabs v <= (1 + u) * Rabs x + eta.
  Proof.
    unfold pert. intros H. replace v with (x + (v - x)) by ring.
    eapply Rle_trans; [apply Rabs_triang|]. lra.
  Qed.

  (** errors of the unrounded operations *)
  Lemma add_err a b va vb Ea Eb :
    Rabs (va - a) <= Ea -> Rabs (vb - b) <= Eb -> Rabs ((va + vb) - (a + b)) <= Ea + Eb.
  Proof.
    intros. replace (va + vb - (a + b)) with ((va - a) + (vb - b)) by ring.
    eapply Rle_trans; [apply Rabs_triang|]. lra.
  Qed.

  Lemma sub_err a b va vb Ea Eb :
    Rabs (va - a) <= Ea -> Rabs (vb - b) <= Eb -> Rabs ((va - vb) - (a - b)) <= Ea + Eb.
  Proof.
    intros. replace (va - vb - (a - b)) with ((va - a) + - (vb - b)) by ring.
    eapply Rle_trans; [apply Rabs_triang|]. rewrite Rabs_Ropp. lra.
  Qed.

  Lemma mul_err a b va vb Ea Eb Ma Mb :
    Rabs (va - a) <= Ea -> Rabs (vb - b) <= Eb -> Rabs a <= Ma -> Rabs b <= Mb ->
    Rabs (va * vb - a * b) <= Ea * Mb + Eb * Ma + Ea * Eb.
  Proof.
    intros H1 H2 H3 H4.
    replace (va * vb - a * b) with ((va - a) * b + (vb - b) * a + (va - a) * (vb - b)) by ring.
    eapply Rle_trans; [apply Rabs_triang|].
    eapply Rle_trans; [apply Rplus_le_compat_r; apply Rabs_triang|]. rewrite !Rabs_mult.
    pose proof (Rabs_pos (va - a)). pose proof (Rabs_pos (vb - b)).
    pose proof (Rabs_pos a). pose proof (Rabs_pos b). nra.
  Qed.

  (** division: the exact denominator is at least [mb] away from zero, and so is the computed one *)
  Lemma div_err a b va vb Ea Eb Ma mb :
    Rabs (va - a) <= Ea -> Rabs (vb - b) <= Eb -> Rabs a <= Ma -> mb <= Rabs b -> 0 < mb - Eb ->
    Rabs (va / vb - a / b) <= Ea / (mb - Eb) + Ma * Eb / ((mb - Eb) * mb).
  Proof.
    intros H1 H2 H3 H4 H5.
    pose proof (Rabs_pos (va - a)) as P1. pose proof (Rabs_pos (vb - b)) as P2.
    pose proof (Rabs_pos a) as P3.
    assert (Hb : 0 < Rabs b) by lra.
    assert (Hvb : mb - Eb <= Rabs vb).
    { replace b with (vb + - (vb - b)) in H4 by ring.
      pose proof (Rabs_triang vb (- (vb - b))) as T. rewrite Rabs_Ropp in T. lra. }
    assert (Nb : b <> 0) by (intro Z; subst b; rewrite Rabs_R0 in Hb; lra).
    assert (Nvb : vb <> 0) by (intro Z; subst vb; rewrite Rabs_R0 in Hvb; lra).
    replace (va / vb - a / b) with ((va - a) / vb + - (a * (vb - b) / (vb * b))) by (field; split; assumption).
    eapply Rle_trans; [apply Rabs_triang|]. rewrite Rabs_Ropp.
    apply Rplus_le_compat.
    - unfold Rdiv. rewrite Rabs_mult, Rabs_inv.
      apply Rmult_le_compat; try lra.
      + left. apply Rinv_0_lt_compat. lra.
      + apply Rinv_le_contravar; lra.
    - unfold Rdiv. rewrite !Rabs_mult, Rabs_inv, Rabs_mult.
      assert (Q : / (Rabs vb * Rabs b) <= / ((mb - Eb) * mb)).
      { apply Rinv_le_contravar; [nra|]. apply Rmult_le_compat; lra. }
      assert (Q0 : 0 <= / (Rabs vb * Rabs b)) by (left; apply Rinv_0_lt_compat; nra).
      assert (Q1 : Rabs a * Rabs (vb - b) <= Ma * Eb) by nra.
      assert (Q2 : 0 <= Rabs a * Rabs (vb - b)) by nra.
      nra.
  Qed.

  (** ** gamma_k *)
  Definition gam (k : nat) : R := INR k * u / (1 - INR k * u).

  Lemma pow1u_ge1 k : 1 <= (1 + u) ^ k.
  Proof. apply pow_R1_Rle. lra. Qed.

  Lemma pow1u_mono j k : (j <= k)%nat -> (1 + u) ^ j <= (1 + u) ^ k.
  Proof. intros H. apply Rle_pow; [lra | exact H]. Qed.

  Lemma pow1u_le_inv k : INR k * u < 1 -> (1 + u) ^ k <= / (1 - INR k * u).
  Proof.
    induction k as [|k IH]; intros H.
    - cbn. rewrite Rmult_0_l, Rminus_0_r, Rinv_1. lra.
    - rewrite S_INR in *. assert (H' : INR k * u < 1) by nra. specialize (IH H').
      cbn [pow]. pose proof (pos_INR k) as Pk.
      assert (D1 : 0 < 1 - INR k * u) by lra. assert (D2 : 0 < 1 - (INR k + 1) * u) by lra.
      apply Rle_trans with ((1 + u) * / (1 - INR k * u)); [apply Rmult_le_compat_l; lra|].
      apply Rmult_le_reg_r with ((1 - INR k * u) * (1 - (INR k + 1) * u)); [nra|].
      replace ((1 + u) * / (1 - INR k * u) * ((1 - INR k * u) * (1 - (INR k + 1) * u)))
        with ((1 + u) * (1 - (INR k + 1) * u)) by (field; lra).
      replace (/ (1 - (INR k + 1) * u) * ((1 - INR k * u) * (1 - (INR k + 1) * u)))
        with (1 - INR k * u) by (field; lra).
      nra.
  Qed.

  Theorem pow1u_le_gam k : INR k * u < 1 -> (1 + u) ^ k - 1 <= gam k.
  Proof.
    intros H. pose proof (pow1u_le_inv k H) as P. unfold gam.
    replace (INR k * u / (1 - INR k * u)) with (/ (1 - INR k * u) - 1) by (field; lra). lra.
  Qed.

  (** a product of [k] factors [(1 + d_i)], [|d_i| <= u], is [1 + theta] with [|theta| <= (1+u)^k - 1] *)
  Fixpoint prod1 (ds : list R) : R := match ds with [] => 1 | d :: r => (1 + d) * prod1 r end.

  Theorem prod_pert ds :
    Forall (fun d => Rabs d <= u) ds ->
    Rabs (prod1 ds - 1) <= (1 + u) ^ length ds - 1.
  Proof.
    induction 1 as [|d r Hd Hr IH]; cbn [prod1 length pow].
    - replace (1 - 1) with 0 by ring. rewrite Rabs_R0. lra.
    - replace ((1 + d) * prod1 r - 1) with ((prod1 r - 1) + d * (prod1 r - 1) + d) by ring.
      eapply Rle_trans; [apply Rabs_triang|].
      eapply Rle_trans; [apply Rplus_le_compat_r; apply Rabs_triang|]. rewrite Rabs_mult.
      pose proof (Rabs_pos d). pose proof (Rabs_pos (prod1 r - 1)). pose proof (pow1u_ge1 (length r)).
      nra.
  Qed.

  Corollary prod_pert_gam ds :
    Forall (fun d => Rabs d <= u) ds -> INR (length ds) * u < 1 ->
    Rabs (prod1 ds - 1) <= gam (length ds).
  Proof. intros H1 H2. eapply Rle_trans; [apply prod_pert; exact H1 | apply pow1u_le_gam; exact H2]. Qed.

  (** ** sums of rounded terms, accumulated in any order *)
  Fixpoint Rsum (l : list R) : R := match l with [] => 0 | x :: r => x + Rsum r end.
  Definition Rasum (l : list R) : R := Rsum (map Rabs l).

  Lemma Rsum_app l1 l2 : Rsum (l1 ++ l2) = Rsum l1 + Rsum l2.
  Proof. induction l1 as [|x r IH]; cbn [Rsum app]; [ring | rewrite IH; ring]. Qed.

  Lemma Rsum_perm l l' : Permutation l l' -> Rsum l = Rsum l'.
  Proof. induction 1; cbn [Rsum]; lra. Qed.

  Lemma Rasum_app l1 l2 : Rasum (l1 ++ l2) = Rasum l1 + Rasum l2.
  Proof. unfold Rasum. rewrite map_app. apply Rsum_app. Qed.

  Lemma Rasum_perm l l' : Permutation l l' -> Rasum l = Rasum l'.
  Proof. intros H. unfold Rasum. apply Rsum_perm. apply Permutation_map. exact H. Qed.

  Lemma Rasum_pos l : 0 <= Rasum l.
  Proof. unfold Rasum. induction l as [|x r IH]; cbn [map Rsum]; [lra|]. pose proof (Rabs_pos x). lra. Qed.

  Lemma Rsum_abs_le l : Rabs (Rsum l) <= Rasum l.
  Proof.
    unfold Rasum. induction l as [|x r IH]; cbn [map Rsum]; [rewrite Rabs_R0; lra|].
    eapply Rle_trans; [apply Rabs_triang|]. lra.
  Qed.

  (** [psum1 ts v]: [v] can be the computed value of [Sum ts] where every term is rounded once when it
      is formed (or not at all: the product of a fused multiply-add) and the partial sums are added
      pairwise, each addition rounded once (or not at all), in any order and any tree shape:
      left-to-right accumulation, pairwise/vectorised reduction, fused accumulation are all instances *)
  Inductive psum1 : list R -> R -> Prop :=
  | ps_leaf t v : pert t v -> psum1 [t] v
  | ps_node l1 l2 v1 v2 v : psum1 l1 v1 -> psum1 l2 v2 -> pert (v1 + v2) v -> psum1 (l1 ++ l2) v
  | ps_perm l l' v : Permutation l l' -> psum1 l v -> psum1 l' v.

  Lemma psum1_nonempty l v : psum1 l v -> (1 <= length l)%nat.
  Proof.
    induction 1 as [t v _|l1 l2 v1 v2 v _ IH1 _ IH2 _|l l' v P _ IH].
    - cbn. lia.
    - rewrite app_length. lia.
    - rewrite <- (Permutation_length P). exact IH.
  Qed.

  Definition psum_abs (k : nat) : R := (2 * INR k - 1) * (1 + u) ^ k * eta.

  Theorem psum1_bound l v :
    psum1 l v ->
    Rabs (v - Rsum l) <= ((1 + u) ^ length l - 1) * Rasum l + psum_abs (length l).
  Proof.
    induction 1 as [t v Hp|l1 l2 v1 v2 v H1 IH1 H2 IH2 Hp|l l' v P _ IH].
    - unfold pert in Hp. unfold psum_abs, Rasum. cbn [length Rsum map pow INR].
      replace (v - (t + 0)) with (v - t) by ring. pose proof (Rabs_pos t). nra.
    - pose proof (psum1_nonempty _ _ H1) as K1. pose proof (psum1_nonempty _ _ H2) as K2.
      rewrite app_length, Rsum_app, Rasum_app.
      set (k1 := length l1) in *. set (k2 := length l2) in *.
      set (s1 := Rsum l1) in *. set (s2 := Rsum l2) in *.
      set (S1 := Rasum l1) in *. set (S2 := Rasum l2) in *.
      pose proof (Rasum_pos l1) as PS1. pose proof (Rasum_pos l2) as PS2. fold S1 in PS1. fold S2 in PS2.
      pose proof (Rsum_abs_le l1) as A1. pose proof (Rsum_abs_le l2) as A2.
      fold s1 S1 in A1. fold s2 S2 in A2.
      assert (D : Rabs ((v1 + v2) - (s1 + s2)) <=
                  ((1 + u) ^ k1 - 1) * S1 + psum_abs k1 + (((1 + u) ^ k2 - 1) * S2 + psum_abs k2)).
      { apply add_err; assumption. }
      assert (M : Rabs (s1 + s2) <= S1 + S2).
      { eapply Rle_trans; [apply Rabs_triang|]. lra. }
      pose proof (pert_err (s1 + s2) (v1 + v2) v _ _ D M Hp) as B.
      eapply Rle_trans; [exact B|].
      (* (1+u) * ((G k1 - 1) S1 + A k1 + (G k2 - 1) S2 + A k2) + u (S1 + S2) + eta *)
      assert (G1 : (1 + u) * (1 + u) ^ k1 <= (1 + u) ^ (k1 + k2)).
      { change ((1 + u) * (1 + u) ^ k1) with ((1 + u) ^ S k1). apply pow1u_mono. lia. }
      assert (G2 : (1 + u) * (1 + u) ^ k2 <= (1 + u) ^ (k1 + k2)).
      { change ((1 + u) * (1 + u) ^ k2) with ((1 + u) ^ S k2). apply pow1u_mono. lia. }
      pose proof (pow1u_ge1 k1) as Q1. pose proof (pow1u_ge1 k2) as Q2. pose proof (pow1u_ge1 (k1 + k2)) as Q.
      unfold psum_abs. rewrite plus_INR.
      assert (I1 : 1 <= INR k1) by (change 1 with (INR 1); apply le_INR; exact K1).
      assert (I2 : 1 <= INR k2) by (change 1 with (INR 1); apply le_INR; exact K2).
      set (g1 := (1 + u) ^ k1) in *. set (g2 := (1 + u) ^ k2) in *. set (g := (1 + u) ^ (k1 + k2)) in *.
      (* relative part *)
      assert (R1 : (1 + u) * ((g1 - 1) * S1) + u * S1 <= (g - 1) * S1) by nra.
      assert (R2 : (1 + u) * ((g2 - 1) * S2) + u * S2 <= (g - 1) * S2) by nra.
      (* absolute part *)
      assert (T1 : (1 + u) * ((2 * INR k1 - 1) * g1 * eta) <= (2 * INR k1 - 1) * g * eta).
      { replace ((1 + u) * ((2 * INR k1 - 1) * g1 * eta)) with ((2 * INR k1 - 1) * eta * ((1 + u) * g1)) by ring.
        replace ((2 * INR k1 - 1) * g * eta) with ((2 * INR k1 - 1) * eta * g) by ring.
        apply Rmult_le_compat_l; [nra | exact G1]. }
      assert (T2 : (1 + u) * ((2 * INR k2 - 1) * g2 * eta) <= (2 * INR k2 - 1) * g * eta).
      { replace ((1 + u) * ((2 * INR k2 - 1) * g2 * eta)) with ((2 * INR k2 - 1) * eta * ((1 + u) * g2)) by ring.
        replace ((2 * INR k2 - 1) * g * eta) with ((2 * INR k2 - 1) * eta * g) by ring.
        apply Rmult_le_compat_l; [nra | exact G2]. }
      assert (T3 : eta <= g * eta) by nra.
      nra.
    - rewrite <- (Permutation_length P), <- (Rsum_perm _ _ P), <- (Rasum_perm _ _ P). exact IH.
  Qed.

  (** the plain left-to-right accumulation [acc := acc + t] of the C++ loops is such a tree *)
  Inductive pacc : list R -> R -> Prop :=
  | pa_one t v : pert t v -> pacc [t] v
  | pa_step l t acc vt v : pacc l acc -> pert t vt -> pert (acc + vt) v -> pacc (l ++ [t]) v.

  Lemma pacc_psum1 l v : pacc l v -> psum1 l v.
  Proof.
    induction 1 as [t v H|l t acc vt v _ IH Ht Hv].
    - apply ps_leaf. exact H.
    - eapply ps_node; [exact IH | apply ps_leaf; exact Ht | exact Hv].
  Qed.
End Pert.

Arguments psum1_bound u eta _ _ [l v] _.

(** ** binary32 instances *)
Definition pert32 := pert u32 eta32.
Definition pert64 := pert u64 eta64.

Lemma RN32_pert x : pert32 x (RN32 x).
Proof.
  destruct (RN32_model x) as (d & e & Hd & He & _ & E).
  eapply pert_of_model; eassumption.
Qed.

Lemma RN64_pert x : pert64 x (RN64 x).
Proof.
  destruct (RN64_model x) as (d & e & Hd & He & _ & E).
  eapply pert_of_model; eassumption.
Qed.

(** closure under fused multiply-add: the fused result is "an unrounded product, then one rounded
    addition", the unfused one "a rounded product, then a rounded addition"; both are what every
    statement over [pert] quantifies over *)
Theorem fma_closure a b c :
  (exists p, pert32 (a * b) p /\ pert32 (p + c) (fl32_add (fl32_mul a b) c)) /\
  (exists p, pert32 (a * b) p /\ pert32 (p + c) (fl32_fma a b c)).
Proof.
  split.
  - exists (fl32_mul a b). split; [apply RN32_pert | apply RN32_pert].
  - exists (a * b). split; [apply pert_refl; [left; apply u32_pos | left; apply eta32_pos] | apply RN32_pert].
Qed.

(** numeric forms used by the clients (k <= 4) *)
Lemma pow1u32_4 : (1 + u32) ^ 4 - 1 <= 4000001 / 1000000 * u32.
Proof. rewrite u32_val. lra. Qed.
Lemma pow1u32_3 : (1 + u32) ^ 3 - 1 <= 3000001 / 1000000 * u32.
Proof. rewrite u32_val. lra. Qed.
Lemma pow1u32_2 : (1 + u32) ^ 2 - 1 <= 2000001 / 1000000 * u32.
Proof. rewrite u32_val. lra. Qed.
Lemma pow1u32_1 : (1 + u32) ^ 1 - 1 <= u32.
Proof. lra. Qed.
