(** Lemmas about the program-options model (C20, C13).  General in the option table, the parse
    program and the writer rules: the per-run obligation is only that the *generated* table/program/
    rules pass the boolean checkers below (vm_compute in Props). *)
From Coq Require Import List String ZArith Bool Lia.
From Inovesa Require Import Model.OptionsTypes Model.Options.
Import ListNotations.
Local Open Scope list_scope.

(* ------------------------------------------------------------------------------------------ *)
(** * small facts *)

Lemma seqb_sym a b : String.eqb a b = String.eqb b a.
Proof.
  destruct (String.eqb a b) eqn:E.
  - apply String.eqb_eq in E. subst. symmetry. apply String.eqb_refl.
  - symmetry. apply String.eqb_neq. apply String.eqb_neq in E. congruence.
Qed.

Lemma upd_same {A} (f : string -> A) k v : upd f k v k = v.
Proof. unfold upd. now rewrite String.eqb_refl. Qed.

Lemma upd_other {A} (f : string -> A) k v x : x <> k -> upd f k v x = f x.
Proof. unfold upd. intro H. apply String.eqb_neq in H. now rewrite H. Qed.

Lemma mem_In n l : mem n l = true <-> In n l.
Proof.
  unfold mem. rewrite existsb_exists. split.
  - intros (x & Hx & E). apply String.eqb_eq in E. now subst.
  - intro H. exists n. split; [assumption | apply String.eqb_refl].
Qed.

Lemma mem_false n l : mem n l = false <-> ~ In n l.
Proof. rewrite <- mem_In. destruct (mem n l); split; congruence. Qed.

Fixpoint nodupb (l : list string) : bool :=
  match l with [] => true | a :: r => negb (mem a r) && nodupb r end.

Lemma nodupb_NoDup l : nodupb l = true -> NoDup l.
Proof.
  induction l as [|a r IH]; cbn [nodupb]; intro H; [constructor|].
  apply andb_prop in H as [H1 H2]. constructor; [|auto].
  apply negb_true_iff in H1. now apply mem_false.
Qed.

Definition occurs (n : string) (items : list item) : bool :=
  existsb (fun it => String.eqb (fst it) n) items.

Lemma mem_occurs n items : mem n (map fst items) = occurs n items.
Proof.
  unfold mem, occurs. induction items as [|[m t] r IH]; cbn; [reflexivity|].
  now rewrite IH, (seqb_sym n m).
Qed.

(* ------------------------------------------------------------------------------------------ *)
Section Lemmas.
  Variable T : list opt.
  Variable wf : cty -> tok -> bool.

  Notation find_opt := (find_opt T).

  Lemma find_opt_name n o : find_opt n = Some o -> o_name o = n /\ In o T.
  Proof.
    unfold Options.find_opt. intro H. apply find_some in H as [H1 H2].
    apply String.eqb_eq in H2. auto.
  Qed.

  Lemma find_opt_unique o : NoDup (map o_name T) -> In o T -> find_opt (o_name o) = Some o.
  Proof.
    unfold Options.find_opt. induction T as [|a r IH]; cbn; intros ND HI; [contradiction|].
    inversion ND as [|? ? Hn ND']; subst.
    destruct HI as [->|HI].
    - now rewrite String.eqb_refl.
    - destruct (String.eqb (o_name a) (o_name o)) eqn:E.
      + apply String.eqb_eq in E. exfalso. apply Hn. rewrite E. now apply in_map.
      + auto.
  Qed.

  (** ** value of one occurrence *)
  Definition ntoks (o : opt) (incli : bool) (toks : list tok) : list tok :=
    match o_ty o with
    | TVecFloat | TFlag => toks
    | _ => match toks with [] => if incli && o_implicit o then [tok_true] else [] | _ => toks end
    end.

  Definition ovl (c : option (list tok)) : list tok := match c with Some v => v | None => [] end.

  Lemma sem_parse_val o incli cur toks v :
    sem_parse wf o incli cur toks = Some v -> v = ovl cur ++ ntoks o incli toks.
  Proof.
    unfold sem_parse, ntoks, ovl.
    destruct (o_ty o); destruct cur as [c|]; destruct toks as [|t [|t2 r]];
      try destruct (incli && o_implicit o); intros H; try discriminate;
      repeat match type of H with
             | (if ?b then _ else _) = _ => destruct b
             end; try discriminate; try (injection H as <-); try reflexivity;
      try (now rewrite app_nil_r).
  Qed.

  (** tokens given for name [n] by a list of occurrences *)
  Definition collect (incli : bool) (n : string) (items : list item) : list tok :=
    match find_opt n with
    | Some o => flat_map (fun it => if String.eqb (fst it) n then ntoks o incli (snd it) else []) items
    | None => []
    end.

  Lemma collect_not_occurs incli n items : occurs n items = false -> collect incli n items = [].
  Proof.
    unfold collect, occurs. destruct (find_opt n); [|reflexivity].
    induction items as [|[m t] r IH]; cbn; [reflexivity|].
    intro H. apply orb_false_iff in H as [H1 H2]. rewrite H1. cbn. auto.
  Qed.

  Lemma collect_cons incli n m toks (r : list item) :
    collect incli n (@cons item (m, toks) r) =
    (if String.eqb m n then match find_opt n with Some o => ntoks o incli toks | None => [] end else [])
      ++ collect incli n r.
  Proof.
    unfold collect. destruct (find_opt n); [|now destruct (String.eqb m n)].
    cbn [flat_map fst snd]. reflexivity.
  Qed.

  (** ** first loop of store: closed form of an error-free pass *)
  Lemma store_items_spec incli fin items : forall vm vm',
    store_items T wf incli fin items vm = Some vm' ->
    forall n, vm' n = if fin n || negb (occurs n items) then vm n
                      else Some (ovl (expl (vm n)) ++ collect incli n items, false).
  Proof.
    induction items as [|[m toks] r IH]; intros vm vm' H n.
    - cbn in H. injection H as <-. cbn. now rewrite orb_true_r.
    - cbn [store_items] in H. cbn [occurs existsb fst].
      fold (occurs n r).
      destruct (fin m) eqn:Fm.
      + rewrite (IH _ _ H n). destruct (String.eqb m n) eqn:E.
        * apply String.eqb_eq in E. subst. now rewrite Fm.
        * cbn [orb]. now rewrite collect_cons, E.
      + destruct (find_opt m) as [o|] eqn:Fo; [|discriminate].
        destruct (sem_parse wf o incli (expl (vm m)) toks) as [v|] eqn:Sp; [|discriminate].
        apply sem_parse_val in Sp.
        rewrite (IH _ _ H n).
        destruct (String.eqb m n) eqn:E.
        * apply String.eqb_eq in E. subst n. rewrite Fm. cbn [orb negb].
          rewrite upd_same. cbn [expl ovl].
          rewrite collect_cons, String.eqb_refl, Fo.
          destruct (occurs m r) eqn:Oc; cbn [negb].
          -- rewrite Sp. now rewrite app_assoc.
          -- rewrite (collect_not_occurs _ _ _ Oc), app_nil_r. now rewrite Sp.
        * assert (Hne : n <> m) by (intro; subst; now rewrite String.eqb_refl in E).
          rewrite (upd_other _ _ _ _ Hne). cbn [orb].
          now rewrite collect_cons, E.
  Qed.

  (** ** errors *)
  Lemma store_items_malformed incli fin items : forall vm n toks o t,
    In (n, toks) items -> fin n = false -> find_opt n = Some o -> o_ty o <> TFlag ->
    In t toks -> wf (o_ty o) t = false ->
    store_items T wf incli fin items vm = None.
  Proof.
    induction items as [|[m mt] r IH]; intros vm n toks o t HI Fn Fo Ty Ht Hw; [contradiction|].
    cbn [store_items]. destruct HI as [E|HI].
    - injection E as -> ->. rewrite Fn, Fo.
      assert (S : sem_parse wf o incli (expl (vm n)) toks = None).
      { unfold sem_parse. destruct (o_ty o) eqn:Eo; try congruence;
          try (destruct (expl (vm n)); [reflexivity|];
               destruct toks as [|a [|b l]]; [contradiction| |reflexivity];
               destruct Ht as [->|[]]; now rewrite Hw).
        destruct toks as [|a l]; [contradiction|].
        assert (F : forallb (wf TVecFloat) (a :: l) = false).
        { apply not_true_is_false. intro F. rewrite forallb_forall in F. specialize (F t Ht). congruence. }
        now rewrite F. }
      now rewrite S.
    - destruct (fin m); [eapply IH; eauto|].
      destruct (find_opt m); [|reflexivity].
      destruct (sem_parse wf o0 incli (expl (vm m)) mt); [|reflexivity].
      eapply IH; eauto.
  Qed.

  Lemma store_items_unknown incli fin items : forall vm n toks,
    In (n, toks) items -> fin n = false -> find_opt n = None ->
    store_items T wf incli fin items vm = None.
  Proof.
    induction items as [|[m mt] r IH]; intros vm n toks HI Fn Fo; [contradiction|].
    cbn [store_items]. destruct HI as [E|HI].
    - injection E as -> ->. now rewrite Fn, Fo.
    - destruct (fin m); [eapply IH; eauto|].
      destruct (find_opt m); [|reflexivity].
      destruct (sem_parse wf o incli (expl (vm m)) mt); [|reflexivity].
      eapply IH; eauto.
  Qed.

  (** a scalar option given twice (same key) in one source is an error *)
  Lemma store_items_repeated incli fin : forall items1 items2 items3 vm n t1 t2 o,
    fin n = false -> find_opt n = Some o -> o_ty o <> TVecFloat ->
    store_items T wf incli fin (items1 ++ (n, t1) :: items2 ++ (n, t2) :: items3) vm = None.
  Proof.
    intros items1 items2 items3 vm n t1 t2 o Fn Fo Ty. revert vm.
    assert (Second : forall vm, expl (vm n) <> None ->
              store_items T wf incli fin (items2 ++ (n, t2) :: items3) vm = None).
    { induction items2 as [|[m mt] r IH]; intros vm He.
      - cbn [app store_items]. rewrite Fn, Fo.
        unfold sem_parse. destruct (o_ty o); try congruence; destruct (expl (vm n)); try congruence;
          destruct t2; reflexivity.
      - cbn [app store_items]. destruct (fin m) eqn:Fm; [auto|].
        destruct (find_opt m); [|reflexivity].
        destruct (sem_parse wf o0 incli (expl (vm m)) mt); [|reflexivity].
        apply IH. destruct (String.eqb n m) eqn:E.
        + apply String.eqb_eq in E. subst. rewrite upd_same. cbn. discriminate.
        + rewrite upd_other; [assumption|]. intro; subst. now rewrite String.eqb_refl in E. }
    induction items1 as [|[m mt] r IH]; intros vm.
    - cbn [app store_items]. rewrite Fn, Fo.
      destruct (sem_parse wf o incli (expl (vm n)) t1); [|reflexivity].
      apply Second. rewrite upd_same. cbn. discriminate.
    - cbn [app store_items]. destruct (fin m); [auto|].
      destruct (find_opt m); [|reflexivity].
      destruct (sem_parse wf o0 incli (expl (vm m)) mt); [|reflexivity]. auto.
  Qed.

  (** ** notify *)
  Definition typed (o : opt) : bool := match o_ty o with TFlag => false | _ => true end.

  Lemma notify_l_step a l vm vs :
    notify_l (a :: l) vm vs =
    notify_l l vm (if typed a then match vm (o_name a) with Some (v, _) => upd vs (o_var a) (Some v) | None => vs end else vs).
  Proof. unfold notify_l, typed. cbn [fold_left]. destruct (o_ty a); reflexivity. Qed.

  (** the member [x] ends up with the value of entry [nm] when every other typed option bound to
      [x] has no entry *)
  Lemma notify_one vm x nm : forall l vs,
    (forall o, In o l -> typed o = true -> o_var o = x -> o_name o <> nm -> vm (o_name o) = None) ->
    (forall o, In o l -> o_name o = nm -> typed o = true /\ o_var o = x) ->
    notify_l l vm vs x =
    if existsb (fun o => String.eqb (o_name o) nm) l
    then match vm nm with Some (v, _) => Some v | None => vs x end
    else vs x.
  Proof.
    induction l as [|a l IH]; intros vs H1 H2; [reflexivity|].
    rewrite notify_l_step. cbn [existsb].
    match goal with |- notify_l l vm ?V x = _ => set (vs' := V) end.
    rewrite IH; [| intros; apply H1; auto with datatypes | intros; apply H2; auto with datatypes].
    destruct (String.eqb (o_name a) nm) eqn:E.
    - apply String.eqb_eq in E. destruct (H2 a (or_introl eq_refl) E) as [Ta Va].
      cbn [orb]. subst vs'. rewrite Ta, E.
      destruct (vm nm) as [[v d]|] eqn:Vn.
      + rewrite <- Va, upd_same. now destruct (existsb _ l).
      + now destruct (existsb _ l).
    - cbn [orb].
      assert (Hne : o_name a <> nm) by (intro Hc; rewrite Hc, String.eqb_refl in E; discriminate).
      assert (K : vs' x = vs x).
      { subst vs'. destruct (typed a) eqn:Ta; [|reflexivity].
        destruct (vm (o_name a)) as [[v d]|] eqn:Va; [|reflexivity].
        destruct (String.eqb x (o_var a)) eqn:Ex.
        - apply String.eqb_eq in Ex. rewrite (H1 a (or_introl eq_refl) Ta (eq_sym Ex) Hne) in Va. discriminate.
        - unfold upd. now rewrite Ex. }
      rewrite K. reflexivity.
  Qed.

  (** a member no typed option with an entry is bound to keeps its value *)
  Lemma notify_untouched vm x : forall l vs,
    (forall o, In o l -> typed o = true -> o_var o = x -> vm (o_name o) = None) ->
    notify_l l vm vs x = vs x.
  Proof.
    induction l as [|a l IH]; intros vs H; [reflexivity|].
    rewrite notify_l_step, IH; [|intros; apply H; auto with datatypes].
    destruct (typed a) eqn:Ta; [|reflexivity].
    destruct (vm (o_name a)) as [[v d]|] eqn:Va; [|reflexivity].
    destruct (String.eqb x (o_var a)) eqn:Ex.
    - apply String.eqb_eq in Ex. rewrite (H a (or_introl eq_refl) Ta (eq_sym Ex)) in Va. discriminate.
    - unfold upd. now rewrite Ex.
  Qed.

  (** ** alias folding *)
  Lemma fold_alias_none al : forall vm a,
    vm a = None -> ~ In a (map snd al) -> fold_left fold_alias al vm a = None.
  Proof.
    induction al as [|[a1 c1] r IH]; intros vm a Hn Hs; [assumption|].
    cbn [fold_left]. apply IH; [|intro; apply Hs; cbn; auto].
    unfold fold_alias. destruct (vm a1) as [[v d]|] eqn:E; [|assumption].
    assert (Hc : a <> c1) by (intro; subst; apply Hs; cbn; auto).
    destruct (String.eqb a a1) eqn:Ea.
    - apply String.eqb_eq in Ea. subst. apply upd_same.
    - rewrite upd_other by (intro; subst; now rewrite String.eqb_refl in Ea).
      destruct (vm c1) as [[v1 [|]]|]; try assumption. now rewrite upd_other.
  Qed.

  Lemma fold_alias_fst al : forall vm a,
    In a (map fst al) -> ~ In a (map snd al) -> fold_left fold_alias al vm a = None.
  Proof.
    induction al as [|[a1 c1] r IH]; intros vm a Hf Hs; [contradiction|].
    cbn [fold_left]. assert (Hs' : ~ In a (map snd r)) by (intro; apply Hs; cbn; auto).
    assert (Hc : a <> c1) by (intro; subst; apply Hs; cbn; auto).
    destruct (String.eqb a a1) eqn:Ea.
    - apply String.eqb_eq in Ea. subst a1. apply fold_alias_none; [|assumption].
      unfold fold_alias. destruct (vm a) as [[v d]|] eqn:E; [apply upd_same | assumption].
    - destruct Hf as [Hf|Hf]; [cbn in Hf; subst; now rewrite String.eqb_refl in Ea|].
      now apply IH.
  Qed.

  Lemma fold_alias_other al : forall vm n,
    ~ In n (map fst al) -> ~ In n (map snd al) -> fold_left fold_alias al vm n = vm n.
  Proof.
    induction al as [|[a1 c1] r IH]; intros vm n Hf Hs; [reflexivity|].
    cbn [fold_left]. rewrite IH; [|intro; apply Hf; cbn; auto|intro; apply Hs; cbn; auto].
    assert (n <> a1) by (intro; subst; apply Hf; cbn; auto).
    assert (n <> c1) by (intro; subst; apply Hs; cbn; auto).
    unfold fold_alias. destruct (vm a1) as [[v d]|]; [|reflexivity].
    rewrite upd_other by assumption.
    destruct (vm c1) as [[v1 [|]]|]; try reflexivity. now rewrite upd_other.
  Qed.

  Definition alias_result (vm : vmap) (a c : string) : option entry :=
    match vm a, vm c with
    | Some (v, _), Some (_, true) => Some (v, false)
    | _, _ => vm c
    end.

  Lemma fold_alias_snd al : forall vm a c,
    NoDup (map fst al ++ map snd al) -> In (a, c) al ->
    fold_left fold_alias al vm c = alias_result vm a c.
  Proof.
    induction al as [|[a1 c1] r IH]; intros vm a c ND HI; [contradiction|].
    cbn [fold_left].
    cbn [map fst snd app] in ND.
    assert (ND' : NoDup (map fst r ++ map snd r)).
    { inversion ND as [|? ? _ N]; subst. apply NoDup_remove_1 in N. assumption. }
    assert (A1 : ~ In a1 (map fst r ++ c1 :: map snd r)) by (inversion ND; assumption).
    assert (C1 : ~ In c1 (map fst r ++ map snd r)).
    { inversion ND as [|? ? _ N]; subst. apply NoDup_remove_2 in N. assumption. }
    assert (AC : a1 <> c1) by (intro; subst; apply A1; apply in_or_app; right; cbn; auto).
    destruct HI as [E|HI].
    - injection E as -> ->.
      rewrite fold_alias_other;
        [| intro X; apply C1; apply in_or_app; auto | intro X; apply C1; apply in_or_app; auto].
      unfold fold_alias, alias_result.
      destruct (vm a) as [[v d]|]; [|reflexivity].
      rewrite upd_other by congruence.
      destruct (vm c) as [[v1 [|]]|] eqn:Vc; try assumption. apply upd_same.
    - rewrite (IH _ a c ND' HI).
      assert (Ia : In a (map fst r)) by (change a with (fst (a, c)); now apply in_map).
      assert (Ic : In c (map snd r)) by (change c with (snd (a, c)); now apply in_map).
      assert (a <> a1) by (intro; subst; apply A1; apply in_or_app; auto).
      assert (c <> a1) by (intro; subst; apply A1; apply in_or_app; right; cbn; auto).
      assert (a <> c1) by (intro; subst; apply C1; apply in_or_app; auto).
      assert (c <> c1) by (intro; subst; apply C1; apply in_or_app; auto).
      unfold alias_result, fold_alias.
      destruct (vm a1) as [[v d]|]; [|reflexivity].
      rewrite !upd_other by assumption.
      destruct (vm c1) as [[v1 [|]]|]; try reflexivity. now rewrite !upd_other by assumption.
  Qed.

  (** ** command-line resolution yields command-line names *)
  Definition cli_name (n : string) : Prop := exists o, In o T /\ o_cli o = true /\ o_name o = n.

  Lemma resolve_cli c n : resolve T c = Some n -> cli_name n.
  Proof.
    unfold resolve, cli_name. destruct c as [s|s|]; [| |discriminate].
    - destruct (filter _ T) as [|o r] eqn:F1.
      + destruct (filter (fun o => o_cli o && prefix s (o_name o)) T) as [|o [|? ?]] eqn:F2; try discriminate.
        intro H. injection H as <-. exists o.
        assert (I : In o (filter (fun o => o_cli o && prefix s (o_name o)) T)) by (rewrite F2; cbn; auto).
        apply filter_In in I as [I1 I2]. apply andb_prop in I2 as [I2 _]. auto.
      + intro H. injection H as <-. exists o.
        assert (I : In o (filter (fun o => o_cli o && String.eqb (o_name o) s) T)) by (rewrite F1; cbn; auto).
        apply filter_In in I as [I1 I2]. apply andb_prop in I2 as [I2 _]. auto.
    - destruct (filter _ T) as [|o [|? ?]] eqn:F1; try discriminate.
      intro H. injection H as <-. exists o.
      match type of F1 with filter ?f T = _ => assert (I : In o (filter f T)) by (rewrite F1; cbn; auto) end.
      apply filter_In in I as [I1 I2]. apply andb_prop in I2 as [I2 _]. auto.
  Qed.

  Lemma resolve_all_cli cli : forall items,
    resolve_all T cli = Some items -> forall n t, In (n, t) items -> cli_name n.
  Proof.
    induction cli as [|[c t0] r IH]; intros items H n t HI.
    - injection H as <-. contradiction.
    - cbn [resolve_all] in H. destruct (resolve T c) as [m|] eqn:R; [|discriminate].
      destruct (resolve_all T r) as [r'|]; [|discriminate]. injection H as <-.
      destruct HI as [E|HI]; [injection E as <- <-; eapply resolve_cli; eauto | eapply IH; eauto].
  Qed.

  Lemma resolve_all_unknown cli : forall c t,
    In (c, t) cli -> resolve T c = None -> resolve_all T cli = None.
  Proof.
    induction cli as [|[c0 t0] r IH]; intros c t HI R; [contradiction|].
    cbn [resolve_all]. destruct HI as [E|HI].
    - injection E as -> ->. now rewrite R.
    - rewrite (IH _ _ HI R). now destruct (resolve T c0).
  Qed.

  (** with an (empty) positional description the parser hands every word to resolution *)
  Lemma words_nopos P cli : p_nopos P = true -> words P cli = cli.
  Proof. unfold words. now intros ->. Qed.
End Lemmas.
