(** * The copies of Model/Copy.v in closed form, over the GENERATED count and index functions.

    [copy_loop] with the generated indices is "first [cnt] cells from the source, the rest untouched"; hence
    Identity::apply is the copy of all [nb*nx*ny] cells of all bunches: data unchanged, charge conserved (C01).
    The lemmas about the generated functions are proved by [ring] only: a re-associated product survives, a changed
    count or stride does not. *)
From Coq Require Import List ZArith QArith Qcanon Lia Bool.
From Inovesa Require Import Base.FieldKit Base.Sums Gen.Gen_Identity Model.Copy.
Import ListNotations.
Local Open Scope Z_scope.

Definition in_rng (n i : Z) : bool := (0 <=? i) && (i <? n).

Lemma in_rng_true n i : 0 <= i < n -> in_rng n i = true.
Proof. intros H. unfold in_rng. apply andb_true_iff. split; [apply Z.leb_le | apply Z.ltb_lt]; lia. Qed.
Lemma in_rng_false n i : i < 0 \/ n <= i -> in_rng n i = false.
Proof.
  intros H. unfold in_rng. apply andb_false_iff. destruct H; [left; apply Z.leb_gt | right; apply Z.ltb_ge]; lia.
Qed.
Lemma in_rng_spec n i : in_rng n i = true <-> 0 <= i < n.
Proof.
  unfold in_rng. rewrite andb_true_iff, Z.leb_le, Z.ltb_lt. tauto.
Qed.

Lemma fold_left_ext {A B} (f g : A -> B -> A) l a :
  (forall x y, f x y = g x y) -> fold_left f l a = fold_left g l a.
Proof. intros E. revert a. induction l as [|b l IH]; intros a; cbn [fold_left]; [reflexivity|]. rewrite E. apply IH. Qed.

Lemma zrange_S m : zrange (Z.of_nat (S m)) = zrange (Z.of_nat m) ++ [Z.of_nat m].
Proof. unfold zrange. rewrite !Nat2Z.id. rewrite seq_S, map_app. reflexivity. Qed.

(** ** a counting copy with identity indices *)
Lemma copy_loop_nat {A} (m : nat) (src dst : Z -> A) i :
  fold_left (fun d j => upd d j (src j)) (zrange (Z.of_nat m)) dst i =
  if in_rng (Z.of_nat m) i then src i else dst i.
Proof.
  induction m as [|m IH].
  - cbn. rewrite in_rng_false by lia. reflexivity.
  - rewrite zrange_S, fold_left_app. cbn [fold_left]. unfold upd at 1.
    destruct (Z.eqb_spec i (Z.of_nat m)) as [->|Ne].
    + rewrite in_rng_true by lia. reflexivity.
    + rewrite IH. destruct (in_rng (Z.of_nat m) i) eqn:E.
      * apply in_rng_spec in E. rewrite in_rng_true by lia. reflexivity.
      * destruct (in_rng (Z.of_nat (S m)) i) eqn:E'; [|reflexivity].
        apply in_rng_spec in E'. rewrite in_rng_true in E by lia. discriminate.
Qed.

Lemma copy_loop_id {A} cnt (sidx didx : Z -> Z) (src dst : Z -> A) i :
  (forall j, sidx j = j) -> (forall j, didx j = j) ->
  copy_loop cnt sidx didx src dst i = if in_rng cnt i then src i else dst i.
Proof.
  intros Es Ed. unfold copy_loop.
  rewrite (fold_left_ext _ (fun d j => upd d j (src j))) by (intros x y; rewrite Es, Ed; reflexivity).
  destruct (Z.le_gt_cases 0 cnt) as [H|H].
  - rewrite <- (Z2Nat.id cnt) by exact H. apply copy_loop_nat.
  - unfold zrange. replace (Z.to_nat cnt) with 0%nat by lia. cbn. rewrite in_rng_false by lia. reflexivity.
Qed.

(** ** Identity::apply: the generated count and indices *)
Lemma id_count_model nb nx ny : id_count nb nx ny (nx * ny) (nb * nx * ny) = nb * nx * ny.
Proof. unfold id_count. ring. Qed.
Lemma id_src_model nb nx ny i : id_src_idx nb nx ny (nx * ny) (nb * nx * ny) i = i.
Proof. unfold id_src_idx. ring. Qed.
Lemma id_dst_model nb nx ny i : id_dst_idx nb nx ny (nx * ny) (nb * nx * ny) i = i.
Proof. unfold id_dst_idx. ring. Qed.

Theorem ident_apply_spec nb nx ny (inp old : Z -> Qc) i :
  ident_apply nb nx ny inp old i = if in_rng (nb * nx * ny) i then inp i else old i.
Proof.
  unfold ident_apply. cbv zeta.
  rewrite copy_loop_id by (intros j; first [apply id_src_model | apply id_dst_model]).
  rewrite id_count_model. reflexivity.
Qed.

(** ** Identity map: data unchanged for every bunch, the rest of the target untouched, charge conserved *)
Lemma ident_copies nb n (D old : Z -> Qc) i :
  0 <= i < nb * n * n -> ident_apply nb n n D old i = D i.
Proof. intros Hi. rewrite ident_apply_spec, in_rng_true by exact Hi. reflexivity. Qed.

Lemma ident_leaves_rest nb n (D old : Z -> Qc) i :
  i < 0 \/ nb * n * n <= i -> ident_apply nb n n D old i = old i.
Proof. intros Hi. rewrite ident_apply_spec, in_rng_false by exact Hi. reflexivity. Qed.

Lemma ident_conserves_grid nb n (D old : Z -> Qc) :
  (@sumZ QcF) 0 (Z.to_nat (nb * n * n)) (ident_apply nb n n D old) = (@sumZ QcF) 0 (Z.to_nat (nb * n * n)) D.
Proof.
  apply (sumZ_ext QcF). intros i Hi. apply ident_copies.
  destruct (Z.le_gt_cases 0 (nb * n * n)); [rewrite Z2Nat.id in Hi by assumption; lia|].
  replace (Z.to_nat (nb * n * n)) with 0%nat in Hi by lia. cbn in Hi. lia.
Qed.
