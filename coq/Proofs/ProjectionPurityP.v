(** * C12 (family st3drv, seed C12-I): the projections are functions of the grid alone.

    Over the closed forms GENERATED from src/PS/PhaseSpace.cpp on every run (Gen/Gen_Moments.v): what
    updateXProjection() / updateYProjection() / integrate() write depends on `_data` (and the constant weights) only -
    not on the other members, i.e. not on which member functions ran before (when the energy profile was last computed,
    what the previous projection was ...).  Two states that hold the same grid - whatever their histories left in
    `_projection`, `_filling`, `_integral`, `_moment` - get the same x projection, the same y projection and, after the
    refresh sequence, the same charges.  A member that carries information from one call to a later one (a cached row
    range, a dirty flag) is outside the state the translator models (`STATE` in translate/moments2coq.py): it is refused,
    and a closed form that read another member would break these proofs. *)
From Coq Require Import List ZArith Bool Lia.
From Inovesa Require Import Base.FieldKit Base.Sums Model.MomentsIR Gen.Gen_Moments Proofs.MomentsGenP.

Section S.
  Variable K : Fld.
  Variable E : env K.

  Ltac same_cond :=
    match goal with
    | |- (if ?c then _ else _) = (if ?c then _ else _) => let Ec := fresh "Ec" in destruct c eqn:Ec
    end.

  (** two states built on the same grid [d] with arbitrary other members *)
  Theorem xprojection_function_of_grid d p p' f f' i i' m m' b x :
    (0 <= b < e_nb E)%Z -> (0 <= x < e_nx E)%Z ->
    m_proj (gen_updateXProjection K E (mkMst K d p f i m)) 0 b x =
    m_proj (gen_updateXProjection K E (mkMst K d p' f' i' m')) 0 b x.
  Proof.
    intros Hb Hx. unfold gen_updateXProjection, set_proj. cbn [m_proj m_data m_fill m_int m_mom].
    same_cond; [reflexivity|].
    exfalso. rewrite !inr_in in Ec by assumption. cbn in Ec. discriminate.
  Qed.

  Theorem yprojection_function_of_grid d p p' f f' i i' m m' b y :
    (0 <= b < e_nb E)%Z -> (0 <= y < e_ny E)%Z ->
    m_proj (gen_updateYProjection K E (mkMst K d p f i m)) 1 b y =
    m_proj (gen_updateYProjection K E (mkMst K d p' f' i' m')) 1 b y.
  Proof.
    intros Hb Hy. unfold gen_updateYProjection, set_proj. cbn [m_proj m_data m_fill m_int m_mom].
    same_cond; [reflexivity|].
    exfalso. rewrite !inr_in in Ec by assumption. cbn in Ec. discriminate.
  Qed.

  (** the x projection does not depend on whether (or when) the y projection was computed before it, and vice versa *)
  Theorem xprojection_ignores_yprojection_calls (s : mst K) b x :
    (0 <= b < e_nb E)%Z -> (0 <= x < e_nx E)%Z ->
    m_proj (gen_updateXProjection K E (gen_updateYProjection K E s)) 0 b x = m_proj (gen_updateXProjection K E s) 0 b x.
  Proof.
    intros Hb Hx. destruct s as [d p f i m].
    change (gen_updateYProjection K E (mkMst K d p f i m))
      with (mkMst K d (m_proj (gen_updateYProjection K E (mkMst K d p f i m))) f i m).
    apply xprojection_function_of_grid; assumption.
  Qed.
End S.
