(** Lemmas about the generated queue code of DynamicRFKickMap (Model/DynQueue.v, Gen/Gen_DynQueue.v):
    the machine assembled from the generated pieces is the machine of Model/DynRF.v, the generated loop
    builds `calc_modulation`, entry k is the generated expression at index k, the queue has `steps`
    entries and is only ever popped (C19; strengthening driven by seed C19-G). *)
From Coq Require Import List ZArith String Bool Lia.
From Inovesa Require Import Base.FieldKit Model.Ctors Model.DynRF Model.DynQueue Gen.Gen_DynQueue Proofs.DynRFP.
Import ListNotations.

(** per-run obligations on the generated shape (reflection) *)
Lemma dq_for_ok : hdr_ok dq_for = true.
Proof. vm_compute. reflexivity. Qed.
Lemma dq_ctor_args_ok : ctor_args_ok dq_ctor_queue_arg = true.
Proof. vm_compute. reflexivity. Qed.
Lemma dq_refs_ok : queue_refs_ok dq_queue_refs = true.
Proof. vm_compute. reflexivity. Qed.

Section DynQueueP.
  Variable K : Fld.
  Add Field KF_dynq : (@Fth K).
  Variable sin : K -> K.
  Local Open Scope F_scope.

  (** the generated entry expression, members taken from the model's records *)
  Definition gen_entry (sync : K) (d : dyncfg K) (i : Z) (d0 d1 : K) : modn K :=
    dq_entry K sin sync (phasenoise d) (amplnoise d) (modampl d) (modtimedelta d) d0 d1 (fz i).

  Lemma gen_entry_is_mod_entry sync d i d0 d1 :
    gen_entry sync d i d0 d1 = mod_entry sync d d0 d1 (sin (modtimedelta d * fz i)).
  Proof.
    unfold gen_entry, dq_entry, mod_entry.
    (* the argument of the sine may be written in any equal form (i * delta, delta * i, ...) *)
    repeat match goal with
    | |- context [sin ?a] =>
        lazymatch a with
        | (modtimedelta d * fz i) => fail
        | _ => replace a with (modtimedelta d * fz i) by ring
        end
    end.
    f_equal; ring.
  Qed.

  (** the loop with header (0; < steps; += 1), from any iteration on *)
  Lemma for_loop_seq (noise : nat -> K) (entry : Z -> K -> K -> modn K) :
    forall (fuel a : nat) (steps : Z), (Z.of_nat a + Z.of_nat fuel)%Z = steps ->
      for_loop fuel (Z.of_nat a) steps 1%Z (2 * a)%nat noise entry =
      map (fun j => entry (Z.of_nat j) (noise (2 * j)%nat) (noise (2 * j + 1)%nat)) (seq a fuel).
  Proof.
    induction fuel as [|f IH]; intros a steps H; cbn [for_loop seq map]; [reflexivity|].
    assert (Hlt : (Z.of_nat a <? steps)%Z = true) by (apply Z.ltb_lt; lia).
    rewrite Hlt. f_equal.
    - f_equal. f_equal. lia.
    - replace (Z.of_nat a + 1)%Z with (Z.of_nat (S a)) by lia.
      replace (S (S (2 * a))) with (2 * S a)%nat by lia.
      apply IH. lia.
  Qed.

  Theorem gen_queue_is_calc_modulation sync d noise (steps : nat) :
    gen_queue dq_for (gen_entry sync d) noise (Z.of_nat steps) = calc_modulation sin sync d noise steps.
  Proof.
    pose proof dq_for_ok as Hh. unfold hdr_ok in Hh.
    apply andb_true_iff in Hh. destruct Hh as [Hh Hinc]. apply andb_true_iff in Hh. destruct Hh as [Hinit _].
    apply Z.eqb_eq in Hinit. apply Z.eqb_eq in Hinc.
    unfold gen_queue. rewrite Hinit, Hinc, Nat2Z.id.
    pose proof (for_loop_seq noise (gen_entry sync d) steps 0 (Z.of_nat steps)) as Hl.
    cbn [Z.of_nat Nat.mul Nat.add] in Hl. rewrite Hl by lia.
    unfold calc_modulation. apply map_ext. intro j. apply gen_entry_is_mod_entry.
  Qed.

  Theorem gen_queue_length sync d noise (steps : nat) :
    List.length (gen_queue dq_for (gen_entry sync d) noise (Z.of_nat steps)) = steps.
  Proof. rewrite gen_queue_is_calc_modulation. apply calc_modulation_length. Qed.

  (** entry k is the generated expression evaluated at the index k itself, with the variates 2k and 2k+1 *)
  Theorem gen_queue_nth sync d noise (steps k : nat) : (k < steps)%nat ->
    nth_error (gen_queue dq_for (gen_entry sync d) noise (Z.of_nat steps)) k =
    Some (gen_entry sync d (Z.of_nat k) (noise (2 * k)%nat) (noise (2 * k + 1)%nat)).
  Proof.
    intro Hk. rewrite gen_queue_is_calc_modulation. unfold calc_modulation.
    rewrite nth_error_map_seq by exact Hk. rewrite gen_entry_is_mod_entry. reflexivity.
  Qed.

  Variable G : Type.
  Variable kickmap : list K -> G -> G.
  Notation st := (DynRF.st K G).

  (** apply() as generated = apply of the hand-written machine *)
  Lemma gen_apply_is_exec m (s : st) :
    gen_apply sin kickmap m dq_calckick_args dq_apply_ops s = DynRF.exec sin kickmap m Apply s.
  Proof.
    unfold gen_apply, DynRF.exec. cbn [dq_apply_ops fold_left].
    destruct s as [o q p g fl ks us u]. destruct u; [reflexivity|].
    destruct q as [|e q]; reflexivity.
  Qed.

  (** getPastModulation() as generated = flush of the hand-written machine, whatever the moved-from vector holds *)
  Lemma gen_flush_is_exec m junk (s : st) :
    gen_flush junk dq_getpast_ops s = DynRF.exec sin kickmap m Flush s.
  Proof.
    unfold gen_flush, DynRF.exec. destruct s as [o q p g fl ks us u]. destruct u; reflexivity.
  Qed.

  Theorem gen_run_is_run m junk ops : forall s : st,
    gen_run sin kickmap m dq_calckick_args dq_apply_ops dq_getpast_ops junk ops s = DynRF.run sin kickmap m ops s.
  Proof.
    induction ops as [|o r IH]; intro s; [reflexivity|].
    unfold gen_run, DynRF.run in *. cbn [fold_left]. rewrite IH. f_equal.
    destruct o; unfold gen_exec; [apply gen_apply_is_exec | apply gen_flush_is_exec].
  Qed.

  (** the statement of the property about the code as generated: for every k below the number of applies the entry
      consumed by the k-th apply is the generated expression at index k; the queue holds what is left; nothing is
      lost or duplicated across flushes; no underflow as long as applies <= steps *)
  Theorem dynqueue_records m len sync d noise (steps : nat) g junk ops :
    (count_apply ops <= steps)%nat ->
    let q0 := gen_queue dq_for (gen_entry sync d) noise (Z.of_nat steps) in
    let s := gen_run sin kickmap m dq_calckick_args dq_apply_ops dq_getpast_ops junk ops (init sin m len q0 g) in
    let j := count_apply ops in
    List.length q0 = steps /\
    ub s = false /\
    (forall k, (k < j)%nat ->
       nth_error (used s) k = Some (gen_entry sync d (Z.of_nat k) (noise (2 * k)%nat) (noise (2 * k + 1)%nat))) /\
    List.length (queue s) = (steps - j)%nat /\ queue s = skipn j q0 /\
    List.concat (flushed s) ++ past s = firstn j q0 /\
    map (firstn (xlen K m)) (kicks s) = map (ck K sin m) (firstn j q0).
  Proof.
    intros Hc q0 s j.
    assert (Hlen : List.length q0 = steps) by apply gen_queue_length.
    subst s. rewrite gen_run_is_run.
    destruct (modulation_records K sin G kickmap m len q0 g ops) as [Hub [Hrec [Hq [Hu Hk]]]]; [rewrite Hlen; exact Hc|].
    fold j in Hrec, Hq, Hu, Hk.
    repeat split; auto.
    - intros k Hk'. rewrite Hu. rewrite nth_error_firstn_lt by exact Hk'.
      apply gen_queue_nth. lia.
    - rewrite Hq, skipn_length, Hlen. reflexivity.
  Qed.
End DynQueueP.
