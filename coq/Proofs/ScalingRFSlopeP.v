(** * C03 (family st3drv, seed C03-J): the SINUSOIDAL RF map kicks with the slope the drift's angle asks for.

    The sinusoidal map ([RFKickMap::_calcKick], else-branch) sets, in grid units,

        offset(x) = revolutionpart (-a V sin(q(x) bl2phase + phase) + V0) / delta_E / scale_E ,
        bl2phase  = scale_x("Meter") / c * f_RF * 2 pi ,

    i.e. the energy kick in normalised units is  -k sin(...)/bl2phase-free ...  with the small-amplitude slope
    (derivative w.r.t. the normalised position q at the synchronous phase, a = 1)

        k = revolutionpart * V * cos(phi_s) * bl2phase / scale_E .

    main() derives the four factors SEPARATELY (Gen/Gen_Scaling.v, regenerated from src/main.cpp on every run):
    [gen_sinrf_revolutionpart], [gen_sinrf_V_RF], [gen_sinrf_f_RF] reach the constructor, [gen_ps_Meter] /
    [gen_ps_ElectronVolt] reach the two axes of the grid.  The drift map gets [gen_angle] = 2 pi/steps.  The centroid
    turns by [angle] per step (to first order) only if  k = angle cos(phi_s):  that is [sinrf_slope_is_angle], on
    every route main() has (alpha0 given or SynchrotronFrequency given, StepsPerTs or StepsPerRevolution, bending
    radius given or not).  A bunch length computed from another alpha0 / another f_s / another voltage than the one
    in use breaks it.  [cos(phi_s)] is an abstract factor here (the map's own [_syncphase] is asin(V0/V)); the
    statement is about the product of the generated quantities. *)
From Coq Require Import List ZArith Bool Field.
From Inovesa Require Import Base.FieldKit Model.ScalingOps Model.MachineSpec Gen.Gen_Scaling Proofs.ScalingTac.
Import ListNotations.
Local Open Scope F_scope.

Section S.
  Variable K : Fld.
  Add Field KFs : (@Fth K).
  Variable O : Ops K.
  Variable L : leaf -> K.
  Variable B : bleaf -> bool.

  (** [_bl2phase] as both RFKickMap constructors compute it, from the generated axis scale and the generated f_RF *)
  Definition gen_sinrf_bl2phase : K :=
    gen_ps_Meter K O L B / L C_c * gen_sinrf_f_RF K O L B * L C_two_pi.

  (** the slope of the sinusoidal kick in normalised units per unit of cos(phi_s) *)
  Definition gen_sinrf_slope : K :=
    gen_sinrf_revolutionpart K O L B * gen_sinrf_V_RF K O L B * gen_sinrf_bl2phase / gen_ps_ElectronVolt K O L B.

  Ltac open_all :=
    unfold gen_sinrf_slope, gen_sinrf_bl2phase, gen_ps_Meter, gen_ps_ElectronVolt, sync_freq, steps_per_period in *; open_gen.
  Ltac split_conds :=
    repeat match goal with
           | H : ?c = true |- context [if ?c then _ else _] => rewrite H
           | H : ?c = false |- context [if ?c then _ else _] => rewrite H
           | H : ?c = true, H' : context [if ?c then _ else _] |- _ => rewrite H in H'
           | H : ?c = false, H' : context [if ?c then _ else _] |- _ => rewrite H in H'
           | |- context [if ?c then _ else _] => let E := fresh "E" in destruct c eqn:E
           | H' : context [if ?c then _ else _] |- _ => let E := fresh "E" in destruct c eqn:E
           end.
  Ltac abs_sqrt :=
    repeat match goal with
           | |- context [o_sqrt O ?a] => let s := fresh "s" in set (s := o_sqrt O a) in *; clearbody s
           | H : context [o_sqrt O ?a] |- _ => let s := fresh "s" in set (s := o_sqrt O a) in *; clearbody s
           end.
  Ltac nz1 :=
    first [ assumption | apply (@nz3 K) | apply (@nz2 K)
          | match goal with H : _ <> 0 |- _ <> 0 => let X := fresh "X" in intro X; apply H; rewrite X; ring end ].
  Ltac nz :=
    first [ nz1
          | match goal with H : _ <> 0 |- _ <> 0 =>
              let X := fresh "X" in intro X; apply H; rewrite X; field; repeat split; nz1 end ].
  Ltac fld := first [ reflexivity | field; repeat split; nz ].

  Notation c := (L C_c). Notation tpi := (L C_two_pi). Notation frev := (L O_getRevolutionFrequency).
  Notation E0 := (L O_getBeamEnergy). Notation sE := (L O_getEnergySpread). Notation H := (L O_getHarmonicNumber).

  (** every route at once: the conditionals of main() (f_s option zero or not, StepsPerRevolution > 0 or not, StepsPerTs < 1
      or not, BendingRadius > 0 or not) are split, the square roots are atoms *)
  Theorem sinrf_slope_is_angle :
    let Veff := gen_sinrf_V_RF K O L B in
    let fs := sync_freq K O tpi frev H E0 (L O_getAlpha0) Veff (L O_getSyncFreq) in
    let steps := steps_per_period K O frev fs (L O_getStepsPerTrev) (L O_getStepsPerTsync) in
    c <> 0 -> tpi <> 0 -> frev <> 0 -> H <> 0 -> E0 <> 0 -> sE <> 0 -> Veff <> 0 -> fs <> 0 -> steps <> 0 ->
    gen_sinrf_slope = gen_angle K O L B.
  Proof.
    cbv zeta. intros Hc Hpi Hf HH HE HsE HV Hfs Hst. revert HV Hfs Hst. open_all.
    split_conds; intros HV Hfs Hst; abs_sqrt; fld.
  Qed.

  (** the bunch length spelled out on the SynchrotronFrequency route: the "Meter" scale of the position axis is
      c dE f_s/(h f_rev^2 V_eff) with THE GIVEN f_s - the alpha0 option does not occur in it *)
  Lemma meter_scale_on_fs_route :
    o_is0 O (L O_getSyncFreq) = false -> H <> 0 -> frev <> 0 -> gen_sinrf_V_RF K O L B <> 0 ->
    gen_ps_Meter K O L B = c * (sE * E0) / H / (frev * frev) / gen_sinrf_V_RF K O L B * L O_getSyncFreq.
  Proof.
    intros Hz HH Hf HV. revert HV. open_all. rewrite Hz. split_conds; intros HV; abs_sqrt; fld.
  Qed.
End S.
