(** Observer-guarded statements of the set-up are pure (C12; seed F3-I): lemmas about Model/Setup.v.

    The translator marks, in the skeleton of the set-up, the conditions that read an observer option
    (verbosity) - list [oc] - and the opaque statements / conditions in which it found nothing but
    const member functions of outside objects, log output, block-local and report-only variables -
    list [pu].  [obs_chk oc pu b]: every `if` of the skeleton whose condition is in [oc] has a pure
    condition and pure branches: no call of the driver model (`updateXProjection()`, `normalize()`), no
    hook point, no `return`, no `Display::abort = true`, no try block, only statements of [pu].

    What is assumed of the environment ([pure_env]) is what "the translator found no effect" means in
    the model: a pure statement leaves the state of the model alone and does not throw.  Then the
    outcome of the set-up - the start state of the simulation, an early return, an exception - does
    not depend on the values of the observer conditions, for every kernel record, every signal
    schedule, every configuration and every behaviour of all other opaque statements. *)
From Coq Require Import List ZArith Bool Lia.
From Inovesa Require Import Model.Driver Model.Setup.
Import ListNotations.
Local Open Scope Z_scope.

Definition zmem (n : Z) (l : list Z) : bool := existsb (Z.eqb n) l.

Lemma zmem_In n l : zmem n l = true -> In n l.
Proof. unfold zmem. rewrite existsb_exists. intros (x & Hi & He). apply Z.eqb_eq in He. subst. exact Hi. Qed.

(** a block under an observer guard: pure statements and pure conditions only *)
Fixpoint pure_blk (pu : list Z) (b : sblk) : bool :=
  match b with
  | SDone => true
  | SOpq n r => zmem n pu && pure_blk pu r
  | SIf (COpq n) t e r => zmem n pu && pure_blk pu t && pure_blk pu e && pure_blk pu r
  | _ => false
  end.

Fixpoint obs_chk (oc pu : list Z) (b : sblk) : bool :=
  match b with
  | SDone | SReturn _ => true
  | SCall _ r | SSetAbort r | SOpq _ r => obs_chk oc pu r
  | SIf c t e r =>
      (match c with
       | COpq n => if zmem n oc then zmem n pu && pure_blk pu t && pure_blk pu e
                   else obs_chk oc pu t && obs_chk oc pu e
       | CGuard _ => obs_chk oc pu t && obs_chk oc pu e
       end) && obs_chk oc pu r
  | STry t h r => obs_chk oc pu t && obs_chk oc pu h && obs_chk oc pu r
  end.

(** number of observer-guarded statements of a skeleton (non-vacuity) *)
Fixpoint obs_count (oc : list Z) (b : sblk) : nat :=
  match b with
  | SDone | SReturn _ => O
  | SCall _ r | SSetAbort r | SOpq _ r => obs_count oc r
  | SIf c t e r =>
      ((match c with COpq n => if zmem n oc then 1 else 0 | CGuard _ => 0 end) +
       obs_count oc t + obs_count oc e + obs_count oc r)%nat
  | STry t h r => (obs_count oc t + obs_count oc h + obs_count oc r)%nat
  end.

Section SO.
  Variable K : kern.
  Notation st := (st K).

  (** pure statements: no effect on the state of the model, no exception *)
  Definition pure_env (pu : list Z) (ev : senv K) : Prop :=
    forall n, In n pu -> thr ev n = false /\ forall s : st, eff ev n s = s.

  (** two environments that differ in the values of the observer conditions only *)
  Definition same_but_observers (oc : list Z) (ev1 ev2 : senv K) : Prop :=
    (forall n (s : st), eff ev1 n s = eff ev2 n s) /\ (forall n, thr ev1 n = thr ev2 n) /\
    (forall n, ~ In n oc -> cnd ev1 n = cnd ev2 n).

  Lemma pure_blk_skip sig ev cf pu : pure_env pu ev ->
    forall b, pure_blk pu b = true -> forall s : st, sexec sig ev cf b s = Norm s.
  Proof.
    intros P. induction b as [|c r IH|r IH|z|n r IH|c t IHt e IHe r IHr|t IHt h IHh r IHr]; intros H s;
      cbn [pure_blk] in H; try discriminate H; cbn [sexec]; auto.
    - apply andb_true_iff in H. destruct H as [H1 H2]. destruct (P n (zmem_In _ _ H1)) as [T E].
      rewrite T, E. apply IH; auto.
    - destruct c as [g|n]; [discriminate H|].
      repeat (apply andb_true_iff in H; destruct H as [H ?]).
      destruct (P n (zmem_In _ _ H)) as [T E]. rewrite T, E.
      destruct (cnd ev n); [rewrite IHt by auto | rewrite IHe by auto]; apply IHr; auto.
  Qed.

  Lemma zmem_false_notin n l : zmem n l = false -> ~ In n l.
  Proof.
    unfold zmem. intros H Hi. assert (X : existsb (Z.eqb n) l = true) by (apply existsb_exists; exists n; split; auto; apply Z.eqb_refl).
    congruence.
  Qed.

  Theorem observers_do_not_matter sig cf oc pu (ev1 ev2 : senv K) :
    pure_env pu ev1 -> pure_env pu ev2 -> same_but_observers oc ev1 ev2 ->
    forall b, obs_chk oc pu b = true -> forall s : st, sexec sig ev1 cf b s = sexec sig ev2 cf b s.
  Proof.
    intros P1 P2 (E & T & C).
    induction b as [|c r IH|r IH|z|n r IH|c t IHt e IHe r IHr|t IHt h IHh r IHr]; intros H s; cbn [obs_chk] in H; cbn [sexec]; auto.
    - rewrite T, E. destruct (thr ev2 n); auto.
    - apply andb_true_iff in H. destruct H as [H Hr].
      destruct c as [g|n].
      + apply andb_true_iff in H. destruct H as [Ht He].
        destruct (gval cf s g); [rewrite IHt by auto | rewrite IHe by auto];
          match goal with |- context [match ?x with _ => _ end] => destruct x end; auto.
      + destruct (zmem n oc) eqn:O.
        * repeat (apply andb_true_iff in H; destruct H as [H ?]).
          destruct (P1 n (zmem_In _ _ H)) as [T1 E1]. destruct (P2 n (zmem_In _ _ H)) as [T2 E2].
          rewrite T1, T2, E1, E2.
          assert (X : forall ev b0, pure_env pu ev -> (if b0 : bool then sexec sig ev cf t s else sexec sig ev cf e s) = Norm s)
            by (intros ev b0 Pe; destruct b0; apply pure_blk_skip with (pu := pu); auto).
          rewrite (X ev1 (cnd ev1 n) P1), (X ev2 (cnd ev2 n) P2). apply IHr; auto.
        * apply andb_true_iff in H. destruct H as [Ht He].
          rewrite T, E, (C n (zmem_false_notin _ _ O)). destruct (thr ev2 n); auto.
          destruct (cnd ev2 n); [rewrite IHt by auto | rewrite IHe by auto];
            match goal with |- context [match ?x with _ => _ end] => destruct x end; auto.
    - repeat (apply andb_true_iff in H; destruct H as [H ?]).
      rewrite IHt by auto. destruct (sexec sig ev2 cf t s); auto. rewrite IHh by auto.
      destruct (sexec sig ev2 cf h s0); auto.
  Qed.

  Corollary observers_do_not_matter_whole_program sig cf oc pu (ev1 ev2 : senv K) su p :
    pure_env pu ev1 -> pure_env pu ev2 -> same_but_observers oc ev1 ev2 -> obs_chk oc pu su = true ->
    forall s : st, full_run sig ev1 cf su p s = full_run sig ev2 cf su p s.
  Proof. intros P1 P2 S H s. unfold full_run. rewrite (observers_do_not_matter sig cf oc pu ev1 ev2 P1 P2 S su H s). reflexivity. Qed.
End SO.

Arguments pure_env {K}. Arguments same_but_observers {K}.

(** the slip of seed F3-I in miniature: a verbosity test (condition 1) whose branch refreshes the cached
    profile (a call of the model) and then runs a statement the translator could not clear (2) *)
Definition impure_observer_example : sblk :=
  SIf (COpq 1) (SCall UpdateXProj (SOpq 2 (SOpq 3 SDone))) SDone (SIf (CGuard GRenorm0) (SCall UpdateXProj (SCall Normalize SDone)) SDone SDone).
Lemma impure_observer_example_refused : obs_chk [1] [1; 3] impure_observer_example = false.
Proof. vm_compute. reflexivity. Qed.
