(** * The generated index arithmetic of KickMap::apply / FokkerPlanckMap::apply is the model's.

    [Gen/Gen_KickIndex.v] is regenerated from the C++ on every run: the table index, the source cell,
    its bound, and the read and write indices of the three loop nests.  Here the loop bodies assembled
    from those generated functions are proved equal to the hand-written model functions
    ([apply_y_cell], [apply_x_cell] of Model/Kick.v and [fp_apply] of Model/FokkerPlanck.v), so every
    theorem about the model is a theorem about the index arithmetic the source has NOW: an index slip
    (a lost parenthesis, a wrong stride, the bunch offset dropped on one side) breaks these lemmas. *)
From Coq Require Import List ZArith QArith Qcanon Lia.
From Inovesa Require Import Base.FieldKit Base.Float32 Gen.Gen_Coeffs Gen.Gen_KickIndex Model.Kick
  Gen.Gen_FPStencil Model.FokkerPlanck.
Import ListNotations.
Local Open Scope Z_scope.

(** the loop body of the y branch, written with the generated functions (square grid kd = pd = n,
    [_lastbunch = nb - 1]) *)
Definition gen_apply_y_cell (n nb it : Z) (H : Z -> Z * Qc) (D : Z -> Qc) (b x y : Z) : Qc :=
  qsum (map (fun j =>
    let h := H (ky_hinfo n n it (nb - 1) b x y j) in
    let s := wrap32 (ky_src n n it (nb - 1) b x y j (fst h)) in
    if s <? ky_bound n n it (nb - 1) b x y j then (D (ky_read n n it (nb - 1) b x y j s) * snd h)%Qc else 0%Qc)
    (zrange it)).

Definition gen_apply_x_cell (n nb it : Z) (H : Z -> Z * Qc) (D : Z -> Qc) (b x y : Z) : Qc :=
  qsum (map (fun j =>
    let h := H (kx_hinfo n n it (nb - 1) b x y j) in
    let s := wrap32 (kx_src n n it (nb - 1) b x y j (fst h)) in
    if s <? kx_bound n n it (nb - 1) b x y j then (D (kx_read n n it (nb - 1) b x y j s) * snd h)%Qc else 0%Qc)
    (zrange it)).

Lemma ky_hinfo_model n nb it b x y j : ky_hinfo n n it (nb - 1) b x y j = hidx_y n nb it b x j.
Proof. unfold ky_hinfo, hidx_y. ring. Qed.
Lemma kx_hinfo_model n nb it b x y j : kx_hinfo n n it (nb - 1) b x y j = hidx_x n nb it b y j.
Proof. unfold kx_hinfo, hidx_x. ring. Qed.
Lemma ky_read_model n nb it b x y j s : ky_read n n it (nb - 1) b x y j s = didx n b x s.
Proof. unfold ky_read, didx. ring. Qed.
Lemma kx_read_model n nb it b x y j s : kx_read n n it (nb - 1) b x y j s = didx n b s y.
Proof. unfold kx_read, didx. ring. Qed.
Lemma ky_write_model n nb it b x y j : ky_write n n it (nb - 1) b x y j = didx n b x y.
Proof. unfold ky_write, didx. ring. Qed.
Lemma kx_write_model n nb it b x y j : kx_write n n it (nb - 1) b x y j = didx n b x y.
Proof. unfold kx_write, didx. ring. Qed.
Lemma ky_src_model n nb it b x y j h : ky_src n n it (nb - 1) b x y j h = y + h - n / 2.
Proof. unfold ky_src. ring. Qed.
Lemma kx_src_model n nb it b x y j h : kx_src n n it (nb - 1) b x y j h = x + h - n / 2.
Proof. unfold kx_src. ring. Qed.

Theorem gen_apply_y_is_model n nb it H D b x y :
  gen_apply_y_cell n nb it H D b x y = apply_y_cell n nb it H D b x y.
Proof.
  unfold gen_apply_y_cell, apply_y_cell, row_out. apply (f_equal qsum). apply map_ext. intros j. cbv zeta.
  rewrite ky_hinfo_model, ky_src_model. unfold ky_bound. rewrite ky_read_model. reflexivity.
Qed.

Theorem gen_apply_x_is_model n nb it H D b x y :
  gen_apply_x_cell n nb it H D b x y = apply_x_cell n nb it H D b x y.
Proof.
  unfold gen_apply_x_cell, apply_x_cell, row_out. apply (f_equal qsum). apply map_ext. intros j. cbv zeta.
  rewrite kx_hinfo_model, kx_src_model. unfold kx_bound. rewrite kx_read_model. reflexivity.
Qed.

(** the cell each loop iteration writes is the cell the model's output function is indexed by *)
Theorem gen_write_is_model n nb it b x y j :
  ky_write n n it (nb - 1) b x y j = didx n b x y /\ kx_write n n it (nb - 1) b x y j = didx n b x y.
Proof. split; [apply ky_write_model | apply kx_write_model]. Qed.

(** Fokker-Planck step: the generated loop body against [fp_apply] *)
Section FP.
  Variable K : Fld.
  Local Open Scope F_scope.
  Definition gen_fp_cell (n xs ip : Z) (H : Z -> Z * K) (D : Z -> K) (b x y : Z) : K :=
    fsum (map (fun j => let h := H (fpg_hinfo n xs ip b x y j) in
                        D (fpg_read n xs ip b x y j (fst h)) * snd h) (zrange ip)).

  Theorem gen_fp_is_model n xs ip H D b x y :
    (0 < n)%Z -> (0 < xs)%Z -> (0 <= b)%Z -> (0 <= x < xs)%Z -> (0 <= y < n)%Z ->
    gen_fp_cell n xs ip H D b x y = fp_apply (K:=K) n xs ip H D (fpg_write n xs ip b x y 0).
  Proof.
    intros Hn Hxs Hb Hx Hy. unfold gen_fp_cell, fp_apply, fp_col_out, fpg_write, fpg_hinfo, fpg_read.
    set (i := (b * xs * n + x * n + y)%Z).
    assert (Ei : i = ((b * xs + x) * n + y)%Z) by (unfold i; ring).
    assert (E1 : (i / n = b * xs + x)%Z).
    { rewrite Ei. rewrite Z.add_comm, Z.div_add by lia. rewrite Z.div_small by lia. lia. }
    assert (E2 : (i mod n = y)%Z).
    { rewrite Ei. rewrite Z.add_comm, Z.mod_add by lia. apply Z.mod_small; lia. }
    assert (E3 : (i / (xs * n) = b)%Z).
    { replace (xs * n)%Z with (n * xs)%Z by ring. rewrite <- Z.div_div by lia. rewrite E1. rewrite Z.add_comm, Z.div_add by lia. rewrite Z.div_small by lia. lia. }
    assert (E4 : ((i / n) mod xs = x)%Z).
    { rewrite E1. rewrite Z.add_comm, Z.mod_add by lia. apply Z.mod_small; lia. }
    cbv zeta. rewrite E2, E3, E4. apply (f_equal (@fsum K)). apply map_ext. intros j. reflexivity.
  Qed.
End FP.
