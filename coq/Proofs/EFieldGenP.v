(** * The generated bodies of padBunchProfiles / wakePotential / updateCSR are the model's operations.

    [Gen/Gen_EField.v] is regenerated from src/PS/ElectricField.cpp on every run
    (translate/efield2coq.py): the three member functions as programs of the statement language of
    Model/EFieldProg.v.  Here these programs, run by the interpreter, are proved to compute what the
    hand-written operations [do_pad], [do_wake], [do_csr] of Model/EField.v compute (fixed tree,
    [rz = true]), for every size, bucket list, spacing, profile, cut-off and whatever the transforms
    and kernels are.  Every theorem about the model (history independence, footprints; through the
    DFT instance of Proofs/EFieldDFTP.v: convolution, Parseval) is thereby a theorem about the loop
    bounds, index expressions, clears and statement order the source has NOW: changing [i < _nmax/2]
    to [i <= _nmax/2], writing bunch b at [_bucket[b]*_spacing_bins+1], reading the impedance at
    [i+1], dropping a [fill_n], moving the forward transform in front of the padding ... breaks the
    [apply] of the shape lemma or one of its index equations below. *)
From Coq Require Import List ZArith Bool Lia.
From Inovesa Require Import Model.EField Model.EFieldProg Gen.Gen_EField Proofs.EFieldP Proofs.EFieldProgP.
Import ListNotations.
Local Open Scope Z_scope.

(** index equations of the shape lemmas: evaluate the generated expression, then linear/ring arithmetic *)
Ltac ix_solve :=
  intros; cbv zeta; cbn [ixval vset v0 Nat.eqb]; unfold bucket_at;
  repeat split; try reflexivity; try ring; try lia.

Section Gen.
  Context {T C : Type} (E : env T C).
  Variable kcsr : T -> Z -> Z -> C -> T.
  Hypothesis Hrz : rz E = true.

  Theorem gen_pad_is_model padsem cut p s :
    steq (exec E kcsr padsem p cut gen_pad_prog s) (do_pad E p s).
  Proof. unfold gen_pad_prog. apply pad_shape; try exact Hrz; ix_solve. Qed.

  Lemma prog_pad_cong p s1 s2 : steq s1 s2 -> steq (prog_pad E kcsr gen_pad_prog p s1) (prog_pad E kcsr gen_pad_prog p s2).
  Proof. intros H. unfold prog_pad. apply exec_cong; [|exact H]. intros q a b Hab. exact Hab. Qed.

  Theorem gen_wake_is_model p s :
    steq (prog_wake E kcsr gen_pad_prog gen_wake_prog p s) (do_wake E p s).
  Proof.
    unfold prog_wake, gen_wake_prog. apply wake_shape.
    - apply prog_pad_cong.
    - intros q t. unfold prog_pad. apply gen_pad_is_model.
    - ix_solve.
    - ix_solve.
    - ix_solve.
    - ix_solve.
    - ix_solve.
  Qed.

  (** the hand model's cell kernel takes one index for the frequency axis and the impedance:
      [kcsr] restricted to equal indices is the model's [csrcell] *)
  Hypothesis Hk : forall cut i x, kcsr cut i i x = csrcell E cut i x.
  Hypothesis HN : 0 <= nmax E.

  Theorem gen_csr_is_model cut p s :
    steq (prog_csr E kcsr gen_pad_prog gen_csr_prog cut p s) (do_csr E cut p s).
  Proof.
    unfold prog_csr, gen_csr_prog. apply csr_shape; try exact Hrz; try exact HN; try exact Hk; ix_solve.
  Qed.

  Theorem gen_step_is_model o s :
    steq (prog_step E kcsr gen_pad_prog gen_wake_prog gen_csr_prog o s) (step E o s).
  Proof.
    destruct o as [p|p|cut p]; cbn [prog_step step].
    - apply gen_wake_is_model.
    - unfold prog_pad. apply gen_pad_is_model.
    - apply gen_csr_is_model.
  Qed.

  Lemma prog_step_cong o s1 s2 : steq s1 s2 ->
    steq (prog_step E kcsr gen_pad_prog gen_wake_prog gen_csr_prog o s1)
         (prog_step E kcsr gen_pad_prog gen_wake_prog gen_csr_prog o s2).
  Proof.
    intros H. destruct o as [p|p|cut p]; cbn [prog_step].
    - unfold prog_wake. apply exec_cong; [apply prog_pad_cong|exact H].
    - apply prog_pad_cong. exact H.
    - unfold prog_csr. apply exec_cong; [apply prog_pad_cong|exact H].
  Qed.

  (** a whole history run through the generated programs gives, buffer by buffer and cell by cell,
      the state the model's [run] gives *)
  Theorem gen_run_is_model h : forall s1 s2, steq s1 s2 ->
    steq (prog_run E kcsr gen_pad_prog gen_wake_prog gen_csr_prog h s1) (run E h s2).
  Proof.
    induction h as [|o h IH]; intros s1 s2 H; cbn [prog_run run fold_left]; [exact H|].
    apply IH. eapply steq_trans; [apply prog_step_cong; exact H|apply gen_step_is_model].
  Qed.

  Corollary gen_observe_is_model h o :
    observe E o (prog_run E kcsr gen_pad_prog gen_wake_prog gen_csr_prog h (fresh E)) = observe E o (run E h (fresh E)).
  Proof. apply observe_steq. apply gen_run_is_model. apply steq_refl. Qed.

  (** C18 for the generated programs: whatever history of calls, the last call returns what it
      returns on a fresh object *)
  Theorem gen_history_independence (HB : hypB E) h o :
    observe E o (prog_run E kcsr gen_pad_prog gen_wake_prog gen_csr_prog (h ++ [o]) (fresh E))
    = observe E o (prog_run E kcsr gen_pad_prog gen_wake_prog gen_csr_prog [o] (fresh E)).
  Proof. rewrite !gen_observe_is_model. apply history_independence; assumption. Qed.
End Gen.

(** set-up: the model's [fresh] (every cell of every work buffer zero) and the meaning of [SFwd]/[SInv]
    (length-[nmax] transforms from [bp] to [ff] and from [wl] to [wp]) are what the constructor,
    _initWakeLossFFT and fft_alloc_* say: each allocation zeroes all its cells, the four buffers have [nmax]
    cells, the plans are made for these buffers *)
Theorem gen_setup_is_model N :
  gen_alloc_real_zeroed N = N /\ gen_alloc_complex_zeroed N = 2 * N /\
  gen_buffers N = [(Bbp, false, N); (Bff, true, N); (Bwl, true, N); (Bwp, false, N)] /\
  gen_plan_fwd N = (N, Bbp, Bff) /\ gen_plan_inv N = (N, Bwl, Bwp).
Proof.
  unfold gen_alloc_real_zeroed, gen_alloc_complex_zeroed, gen_buffers, gen_plan_fwd, gen_plan_inv.
  repeat split; try ring; repeat (f_equal; try ring).
Qed.

(** every [env] has a cell kernel that satisfies the hypothesis (non-vacuity), e.g. the one that
    ignores the axis index *)
Definition kcsr_of {T C} (E : env T C) : T -> Z -> Z -> C -> T := fun cut _ zi x => csrcell E cut zi x.
Lemma kcsr_of_diag {T C} (E : env T C) cut i x : kcsr_of E cut i i x = csrcell E cut i x.
Proof. reflexivity. Qed.

(** computed instance: the ghost-bunch history of the pinned tree, run through the generated programs *)
Example gen_fixed_instance :
  observe E_fixed (Wake p_ghost)
    (prog_run E_fixed (kcsr_of E_fixed) gen_pad_prog gen_wake_prog gen_csr_prog [CSR 0 p_ghost; Wake p_ghost] (fresh E_fixed))
  = observe E_fixed (Wake p_ghost) (run E_fixed [Wake p_ghost] (fresh E_fixed)).
Proof. vm_compute. reflexivity. Qed.
