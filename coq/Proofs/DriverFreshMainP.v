(** Per-run obligation of the projection-freshness checker (Proofs/DriverFreshP.v) on the program generated
    from src/main.cpp: every `integrateAndNormalize()` of main() is reached with the x-projection refreshed
    after the last write of the grid. *)
From Coq Require Import List ZArith Bool.
From Inovesa Require Import Model.Driver Gen.Gen_MainLoop Proofs.DriverFreshP.
Import ListNotations.

Lemma main_fresh_checked : fresh_checker main_prog = true.
Proof. vm_compute. reflexivity. Qed.

(** non-vacuity: main() does renormalise - once in the loop body, once in the final block *)
Lemma main_renormalises : count_ian (p_body main_prog) = 1%nat /\ count_ian (p_post main_prog) = 1%nat.
Proof. vm_compute. split; reflexivity. Qed.
