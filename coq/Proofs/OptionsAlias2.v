(** C20, family opts2: "legacy names act exactly like the current names" as an equation between two parses.

    [rename_items al ci] (Proofs/OptionsAlias.v) is the config file [ci] with every legacy name replaced by its
    current name.  For every table/program accepted by the checker and every file that gives no option under two
    names ([no_double]):
    - if the invocation with the original file(s) runs, the same command line with the renamed file(s) runs too,
      and the two final states have the same variables map and the same bound members ([alias_run_forward]) -
      no assumption on the second parse any more (the second wave's theorem assumed that both run);
    - one stops iff the other stops; hence: the renamed invocation fails only if the original fails;
    - the converse of the first item is FALSE in one situation only: a legacy name in the file whose current name
      is on the command line.  The legacy line is converted (malformed token / repeated scalar = error), the line
      under the current name is skipped unread (the option is final).  Without that situation ([no_shadowed]) the
      two outcomes are equal ([alias_outcome_eq]).
    The proof of "the second parse does not fail" is a simulation over [store_items] ([store_pairs]): two item
    lists whose names correspond one-to-one, with equal explicit values at corresponding names, succeed together. *)
From Coq Require Import List String ZArith Bool Lia.
From Inovesa Require Import Model.OptionsTypes Model.Options Proofs.OptionsP Proofs.OptionsThm Proofs.OptionsAlias.
Import ListNotations.
Local Open Scope list_scope.

(** equality of two outcomes up to the record of which names a source has given ([s_fin]: it only steers later
    stores, and there is none after the config file) *)
Definition same_outcome (r r' : outcome) : Prop :=
  match r, r' with
  | Run s, Run s' => (forall n, s_vm s' n = s_vm s n) /\ (forall x, s_vars s' x = s_vars s x)
  | Stop, Stop => True
  | Fail, Fail => True
  | _, _ => False
  end.

Definition pl (p : string * string * list tok) : item := (fst (fst p), snd p).
Definition pr (p : string * string * list tok) : item := (snd (fst p), snd p).

Lemma In_occurs (it : item) ci : In it ci -> occurs (fst it) ci = true.
Proof. intro I. unfold occurs. apply existsb_exists. exists it. split; [assumption | apply String.eqb_refl]. Qed.

Section Sim.
  Variable T : list opt.
  Variable wf : cty -> tok -> bool.
  Notation find_opt := (find_opt T).

  (** in a file an option's own description matters through its type only *)
  Lemma sem_parse_ty o1 o2 cur toks :
    o_ty o2 = o_ty o1 -> sem_parse wf o2 false cur toks = sem_parse wf o1 false cur toks.
  Proof. unfold sem_parse. intros ->. reflexivity. Qed.

  (** two lists of file lines, line by line the same tokens, names in one-to-one correspondence: if the left one is
      stored without error so is the right one, provided corresponding names hold the same explicit value before,
      have the same type, and a final name on the left corresponds to a final name on the right *)
  Lemma store_pairs fin : forall (ps : list (string * string * list tok)) vm1 vm2 vmB,
    (forall p q, In p ps -> In q ps -> (fst (fst p) = fst (fst q) <-> snd (fst p) = snd (fst q))) ->
    (forall p o1, In p ps -> find_opt (fst (fst p)) = Some o1 ->
                  exists o2, find_opt (snd (fst p)) = Some o2 /\ o_ty o2 = o_ty o1) ->
    (forall p, In p ps -> fin (fst (fst p)) = true -> fin (snd (fst p)) = true) ->
    (forall p, In p ps -> fin (fst (fst p)) = false -> fin (snd (fst p)) = false ->
               expl (vm2 (snd (fst p))) = expl (vm1 (fst (fst p)))) ->
    store_items T wf false fin (map pl ps) vm1 = Some vmB ->
    exists vmB', store_items T wf false fin (map pr ps) vm2 = Some vmB'.
  Proof.
    induction ps as [|[[m1 m2] toks] r IH]; intros vm1 vm2 vmB INJ TY FIN INV H.
    - exists vm2. reflexivity.
    - cbn [map pl pr fst snd store_items] in *.
      assert (INJr : forall p q, In p r -> In q r -> (fst (fst p) = fst (fst q) <-> snd (fst p) = snd (fst q)))
        by (intros; apply INJ; cbn; auto).
      assert (TYr : forall p o1, In p r -> find_opt (fst (fst p)) = Some o1 ->
                                 exists o2, find_opt (snd (fst p)) = Some o2 /\ o_ty o2 = o_ty o1)
        by (intros p o1 I; apply TY; cbn; auto).
      assert (FINr : forall p, In p r -> fin (fst (fst p)) = true -> fin (snd (fst p)) = true)
        by (intros; apply FIN; cbn; auto).
      destruct (fin m1) eqn:F1.
      + pose proof (FIN (m1, m2, toks) (or_introl eq_refl) F1) as F2. cbn [fst snd] in F2. rewrite F2.
        apply (IH vm1 vm2 vmB INJr TYr FINr); [|exact H]. intros; apply INV; cbn; auto.
      + destruct (find_opt m1) as [o1|] eqn:Fo1; [|discriminate].
        destruct (sem_parse wf o1 false (expl (vm1 m1)) toks) as [v|] eqn:Sp; [|discriminate].
        destruct (fin m2) eqn:F2.
        * (* the right line is skipped *)
          apply (IH (upd vm1 m1 (Some (v, false))) vm2 vmB INJr TYr FINr); [|exact H].
          intros q Iq G1 G2. rewrite upd_other; [apply INV; cbn; auto|].
          intro E. pose proof (proj1 (INJ q (m1, m2, toks) (or_intror Iq) (or_introl eq_refl)) E) as E2.
          cbn [fst snd] in E2. rewrite E2 in G2. congruence.
        * destruct (TY (m1, m2, toks) o1 (or_introl eq_refl) Fo1) as (o2 & Fo2 & Ty2). cbn [fst snd] in Fo2.
          rewrite Fo2, (sem_parse_ty o1 o2 _ _ Ty2).
          pose proof (INV (m1, m2, toks) (or_introl eq_refl) F1 F2) as I0. cbn [fst snd] in I0. rewrite I0, Sp.
          apply (IH (upd vm1 m1 (Some (v, false))) (upd vm2 m2 (Some (v, false))) vmB INJr TYr FINr); [|exact H].
          intros q Iq G1 G2.
          pose proof (INJ q (m1, m2, toks) (or_intror Iq) (or_introl eq_refl)) as IJ. cbn [fst snd] in IJ.
          destruct (String.eqb (fst (fst q)) m1) eqn:E.
          -- apply String.eqb_eq in E. rewrite (proj1 IJ E), E, !upd_same. reflexivity.
          -- assert (N1 : fst (fst q) <> m1) by (intro X; rewrite X, String.eqb_refl in E; discriminate).
             assert (N2 : snd (fst q) <> m2) by (intro X; apply N1; now apply IJ).
             rewrite !upd_other by assumption. apply INV; cbn; auto.
  Qed.
End Sim.

Section AliasEq2.
  Variable T : list opt.
  Variable wf : cty -> tok -> bool.
  Notation find_opt := (find_opt T).
  Variable al : list (string * string).
  Hypothesis ND : NoDup (map o_name T).
  Hypothesis NDal : NoDup (map fst al ++ map snd al).
  Hypothesis ALok : forall ac, In ac al -> alias_ok T ac = true.

  (** the loaded file gives no option under both its legacy and its current name *)
  Definition no_double (ci : list item) : Prop :=
    forall a c, In (a, c) al -> occurs a ci = true -> occurs c ci = false.
  (** the loaded file gives under its legacy name no option that the command line gives *)
  Definition no_shadowed (items ci : list item) : Prop :=
    forall a c, In (a, c) al -> occurs c items = true -> occurs a ci = false.

  (** what the checker says about a registered pair (legacy name, current name) *)
  Lemma alias_pair a c : In (a, c) al ->
    exists oa oc, find_opt a = Some oa /\ find_opt c = Some oc /\ o_cli oa = false /\ o_file oa = true
                  /\ o_file oc = true /\ o_ty oa = o_ty oc /\ exists d, o_defcli oc = Some d.
  Proof.
    intro I. pose proof (ALok _ I) as A. unfold alias_ok in A. cbn [fst snd] in A.
    destruct (find_opt a) as [oa|]; [|discriminate]. destruct (find_opt c) as [oc|]; [|discriminate].
    exists oa, oc. repeat (apply andb_prop in A as [A ?]).
    apply negb_true_iff in A.
    match goal with H : cty_eqb _ _ = true |- _ => apply cty_eqb_eq in H end.
    repeat split; try assumption.
    destruct (o_defcli oc) as [d|]; [now exists d | discriminate].
  Qed.

  Lemma rename1_inj_on ci : no_double ci ->
    forall it1 it2 : item, In it1 ci -> In it2 ci -> rename1 al (fst it1) = rename1 al (fst it2) -> fst it1 = fst it2.
  Proof.
    intros NB it1 it2 I1 I2 E.
    destruct (rename1_cases al (fst it1)) as [[E1 N1]|A1]; destruct (rename1_cases al (fst it2)) as [[E2 N2]|A2].
    - congruence.
    - exfalso. rewrite <- E, E1 in A2. pose proof (NB _ _ A2 (In_occurs it2 ci I2)) as X.
      rewrite (In_occurs it1 ci I1) in X. discriminate.
    - exfalso. rewrite E, E2 in A1. pose proof (NB _ _ A1 (In_occurs it1 ci I1)) as X.
      rewrite (In_occurs it2 ci I2) in X. discriminate.
    - rewrite E in A1. exact (snd_unique al NDal _ _ _ A1 A2).
  Qed.

  Lemma rename1_type n o1 : find_opt n = Some o1 ->
    exists o2, find_opt (rename1 al n) = Some o2 /\ o_ty o2 = o_ty o1.
  Proof.
    intro F. destruct (rename1_cases al n) as [[E _]|A].
    - rewrite E. now exists o1.
    - destruct (alias_pair _ _ A) as (oa & oc & Fa & Fc & _ & _ & _ & Ty & _).
      rewrite F in Fa. injection Fa as <-. exists oc. split; [assumption | now symmetry].
  Qed.

  Lemma rename1_type_back n o1 : find_opt (rename1 al n) = Some o1 ->
    exists o2, find_opt n = Some o2 /\ o_ty o2 = o_ty o1.
  Proof.
    intro F. destruct (rename1_cases al n) as [[E _]|A].
    - rewrite E in F. now exists o1.
    - destruct (alias_pair _ _ A) as (oa & oc & Fa & Fc & _ & _ & _ & Ty & _).
      rewrite F in Fc. injection Fc as <-. exists oa. split; assumption.
  Qed.

  (** the renamed file is made of known names iff the original is *)
  Lemma known_rename ci : forallb (known_file T) (rename_items al ci) = forallb (known_file T) ci.
  Proof.
    unfold rename_items. induction ci as [|it r IH]; [reflexivity|]. cbn [map forallb]. rewrite IH. f_equal.
    unfold known_file. cbn [fst]. destruct (rename1_cases al (fst it)) as [[E _]|A].
    - now rewrite E.
    - destruct (alias_pair _ _ A) as (oa & oc & Fa & Fc & _ & Fia & Fic & _). now rewrite Fa, Fc, Fia, Fic.
  Qed.

  Lemma notify_l_ext l vm vm' : (forall n, vm n = vm' n) -> forall vs, notify_l l vm vs = notify_l l vm' vs.
  Proof.
    intro H. induction l as [|a l IH]; intro vs; [reflexivity|]. now rewrite !notify_l_step, (H (o_name a)), IH.
  Qed.

  Lemma expl_dentry incli n : expl (dentry T incli n) = None.
  Proof.
    unfold dentry. destruct (find_opt n) as [o|]; [|reflexivity].
    destruct (in_grp incli o); [|reflexivity]. now destruct (def_of incli o).
  Qed.

  (** after the command line *)
  Section Run.
    Variables (items : list item) (vmA : vmap).
    Hypothesis CLI : forall n t, In (n, t) items -> cli_name T n.
    Hypothesis SA : store_items T wf true (fun _ => false) items (fun _ => None) = Some vmA.
    Let vm1 := add_defaults T true vmA.
    Let fin1 := fun n => false || mem n (map fst items).

    Lemma fin1_occurs n : fin1 n = occurs n items.
    Proof. unfold fin1. cbn [orb]. apply mem_occurs. Qed.

    Lemma expl_vm1_unset n : occurs n items = false -> expl (vm1 n) = None.
    Proof. intro O. unfold vm1. rewrite (phase1_form T wf _ _ SA), O. apply expl_dentry. Qed.

    Lemma alias_not_cli a c : In (a, c) al -> occurs a items = false.
    Proof. intro I. exact (proj2 (vm1_alias T wf al ND ALok items vmA CLI SA a c I)). Qed.

    (** the renamed file is stored without error if the original is *)
    Lemma store_renamed ci vmB : no_double ci ->
      store_items T wf false fin1 ci vm1 = Some vmB ->
      exists vmB', store_items T wf false fin1 (rename_items al ci) vm1 = Some vmB'.
    Proof.
      intros NB SB.
      set (ps := map (fun it : item => ((fst it, rename1 al (fst it)), snd it)) ci).
      assert (L : map pl ps = ci).
      { unfold ps. rewrite map_map. unfold pl. cbn [fst snd]. rewrite <- (map_id ci) at 2. apply map_ext. now intros []. }
      assert (R : map pr ps = rename_items al ci).
      { unfold ps, rename_items. rewrite map_map. reflexivity. }
      rewrite <- L in SB. rewrite <- R.
      apply (store_pairs T wf fin1 ps vm1 vm1 vmB); [| | | |exact SB].
      - intros p q Ip Iq. apply in_map_iff in Ip as (it1 & <- & I1). apply in_map_iff in Iq as (it2 & <- & I2).
        cbn [fst snd]. split; [now intros -> | apply (rename1_inj_on ci NB it1 it2 I1 I2)].
      - intros p o1 Ip. apply in_map_iff in Ip as (it & <- & I). cbn [fst snd]. apply rename1_type.
      - intros p Ip. apply in_map_iff in Ip as (it & <- & I). cbn [fst snd]. rewrite !fin1_occurs. intro F.
        destruct (rename1_cases al (fst it)) as [[E _]|A]; [now rewrite E|].
        rewrite (alias_not_cli _ _ A) in F. discriminate.
      - intros p Ip. apply in_map_iff in Ip as (it & <- & I). cbn [fst snd]. rewrite !fin1_occurs. intros F1 F2.
        now rewrite !expl_vm1_unset.
    Qed.

    (** ... and conversely when no legacy line is shadowed by the command line *)
    Lemma store_original ci vmB' : no_double ci -> no_shadowed items ci ->
      store_items T wf false fin1 (rename_items al ci) vm1 = Some vmB' ->
      exists vmB, store_items T wf false fin1 ci vm1 = Some vmB.
    Proof.
      intros NB NS SB.
      set (ps := map (fun it : item => ((rename1 al (fst it), fst it), snd it)) ci).
      assert (R : map pr ps = ci).
      { unfold ps. rewrite map_map. unfold pr. cbn [fst snd]. rewrite <- (map_id ci) at 2. apply map_ext. now intros []. }
      assert (L : map pl ps = rename_items al ci).
      { unfold ps, rename_items. rewrite map_map. reflexivity. }
      rewrite <- L in SB. rewrite <- R.
      apply (store_pairs T wf fin1 ps vm1 vm1 vmB'); [| | | |exact SB].
      - intros p q Ip Iq. apply in_map_iff in Ip as (it1 & <- & I1). apply in_map_iff in Iq as (it2 & <- & I2).
        cbn [fst snd]. split; [apply (rename1_inj_on ci NB it1 it2 I1 I2) | now intros ->].
      - intros p o1 Ip. apply in_map_iff in Ip as (it & <- & I). cbn [fst snd]. apply rename1_type_back.
      - intros p Ip. apply in_map_iff in Ip as (it & <- & I). cbn [fst snd]. rewrite !fin1_occurs. intro F.
        destruct (rename1_cases al (fst it)) as [[E _]|A]; [now rewrite E in F|].
        pose proof (NS _ _ A F) as X. rewrite (In_occurs it ci I) in X. discriminate.
      - intros p Ip. apply in_map_iff in Ip as (it & <- & I). cbn [fst snd]. rewrite !fin1_occurs. intros F1 F2.
        now rewrite !expl_vm1_unset.
    Qed.

    (** both stored: after the defaults and the folding of the legacy names the two variables maps are equal *)
    Lemma vm3_rename ci vmB vmB' : no_double ci ->
      store_items T wf false fin1 ci vm1 = Some vmB ->
      store_items T wf false fin1 (rename_items al ci) vm1 = Some vmB' ->
      forall n, fold_left fold_alias al (add_defaults T false vmB') n = fold_left fold_alias al (add_defaults T false vmB) n.
    Proof.
      intros NB SB SB' n.
      pose proof (vm2_form T wf items ci vmA vmB SA SB) as V2.
      pose proof (vm2_form T wf items (rename_items al ci) vmA vmB' SA SB') as V2'.
      fold vm1 in V2, V2'.
      destruct (in_dec string_dec n (map fst al)) as [If|Nf].
      - (* a legacy name: erased on both sides *)
        apply in_map_iff in If as ([a c] & E & I). cbn in E. subst a.
        destruct (al_disjoint al NDal n c I) as [Ns _].
        assert (If : In n (map fst al)) by (change n with (fst (n, c)); now apply in_map).
        now rewrite !fold_alias_fst.
      - destruct (in_dec string_dec n (map snd al)) as [Is|Ns].
        + (* a current name that has a legacy name *)
          apply in_map_iff in Is as ([a c] & E & I). cbn in E. subst c.
          rewrite !(fold_alias_snd al _ a n NDal I). unfold alias_result.
          rewrite (vm2_alias T wf al ND ALok items ci vmA vmB CLI SA SB a n I).
          rewrite (vm2_alias T wf al ND ALok items _ vmA vmB' CLI SA SB' a n I).
          rewrite (occurs_rename_legacy al NDal a n ci I).
          rewrite V2, V2'. rewrite (occurs_rename_alias al NDal a n ci I).
          destruct (alias_pair a n I) as (oa & oc & Fa & Fc & _ & _ & _ & _ & d & D).
          rewrite !(collect_raw T n oc _ Fc), (raw_rename_alias al NDal a n ci I).
          destruct (occurs n items) eqn:O1.
          * (* on the command line: explicit, nothing is folded into it *)
            unfold vm1. rewrite (phase1_form T wf _ _ SA), O1. now destruct (occurs a ci).
          * rewrite (expl_vm1_unset n O1). cbn [ovl app].
            destruct (occurs n ci) eqn:Oc; cbn [orb].
            -- assert (Oa : occurs a ci = false).
               { destruct (occurs a ci) eqn:Oa; [|reflexivity]. rewrite (NB a n I Oa) in Oc. discriminate. }
               rewrite Oa. f_equal. f_equal. unfold raw. apply flat_map_ext_in. intros it Ii.
               rewrite (occurs_false_eqb a ci Oa it Ii). now rewrite orb_false_r.
            -- destruct (occurs a ci) eqn:Oa; [|reflexivity].
               (* only the legacy name in the file: the current name holds its default, which the fold replaces *)
               assert (V1 : vm1 n = Some ([d], true)).
               { unfold vm1. rewrite (phase1_form T wf _ _ SA), O1. unfold dentry. rewrite Fc. cbn [in_grp def_of].
                 pose proof (ALok _ I) as A. unfold alias_ok in A. cbn [fst snd] in A. rewrite Fa, Fc in A.
                 repeat (apply andb_prop in A as [A ?]).
                 match goal with H : o_cli oc = true |- _ => rewrite H end. now rewrite D. }
               rewrite V1. rewrite (collect_raw T a oa _ Fa). f_equal. f_equal. unfold raw. apply flat_map_ext_in.
               intros it Ii. now rewrite (occurs_false_eqb n ci Oc it Ii).
        + (* a name that takes no part in the renaming *)
          rewrite !fold_alias_other by assumption. rewrite V2, V2', (occurs_rename_plain al n ci Nf Ns).
          destruct (occurs n items); [reflexivity|]. destruct (occurs n ci); [|reflexivity].
          f_equal. f_equal. f_equal. destruct (find_opt n) as [o|] eqn:Fo.
          * now rewrite !(collect_raw T n o _ Fo), (raw_rename_plain al n ci Nf Ns).
          * unfold collect. now rewrite Fo.
    Qed.

    (** the statements of parse() that follow the command line when the file [ci] is loaded *)
    Definition file_phase (ci : list item) (s1 : st) : outcome :=
      if forallb (known_file T) ci then
        match exec_list T wf items ci [StoreCfg; FoldAliases al; Notify] s1 with Some s2 => Run s2 | None => Fail end
      else Fail.

    Lemma file_phase_forward ci vs s : no_double ci ->
      file_phase ci (mkSt vm1 fin1 vs) = Run s ->
      exists s', file_phase (rename_items al ci) (mkSt vm1 fin1 vs) = Run s'
                 /\ (forall n, s_vm s' n = s_vm s n) /\ (forall x, s_vars s' x = s_vars s x).
    Proof.
      unfold file_phase. intros NB H. rewrite known_rename.
      destruct (forallb (known_file T) ci); [|discriminate].
      cbn [exec_list exec s_vm s_fin s_vars] in *.
      destruct (store_items T wf false fin1 ci vm1) as [vmB|] eqn:SB; [|discriminate].
      destruct (store_renamed ci vmB NB SB) as (vmB' & SB'). rewrite SB'.
      injection H as <-. eexists. split; [reflexivity|]. cbn [s_vm s_vars].
      pose proof (vm3_rename ci vmB vmB' NB SB SB') as V3. split; [exact V3|].
      intro x. unfold notify. now rewrite (notify_l_ext T _ _ V3).
    Qed.

    Lemma file_phase_backward ci vs s' : no_double ci -> no_shadowed items ci ->
      file_phase (rename_items al ci) (mkSt vm1 fin1 vs) = Run s' ->
      exists s, file_phase ci (mkSt vm1 fin1 vs) = Run s.
    Proof.
      unfold file_phase. intros NB NS H. rewrite known_rename in H.
      destruct (forallb (known_file T) ci); [|discriminate].
      cbn [exec_list exec s_vm s_fin s_vars] in *.
      destruct (store_items T wf false fin1 (rename_items al ci) vm1) as [vmB'|] eqn:SB'; [|discriminate].
      destruct (store_original ci vmB' NB NS SB') as (vmB & SB). rewrite SB. eexists. reflexivity.
    Qed.

    Lemma file_phase_cases ci s1 : (exists s, file_phase ci s1 = Run s) \/ file_phase ci s1 = Fail.
    Proof.
      unfold file_phase. destruct (forallb (known_file T) ci); [|now right].
      destruct (exec_list _ _ _ _ _ _); [left; eexists; reflexivity | now right].
    Qed.
  End Run.
End AliasEq2.

Section ParseLevel.
  Variable T : list opt.
  Variable wf : cty -> tok -> bool.

  Lemma same_outcome_refl r : same_outcome r r.
  Proof. destruct r; cbn; auto. Qed.

  Lemma source_rename P items fs fs' dflt dflt' :
    (forall t, fs' t = rename_fsent (prog_aliases P) (fs t)) -> dflt' = rename_fsent (prog_aliases P) dflt ->
    source T P items fs' dflt'
    = (rename_fsent (prog_aliases P) (fst (source T P items fs dflt)), snd (source T P items fs dflt)).
  Proof.
    intros Hfs ->. unfold source. destruct (cfg_given T P items) as [[|t [|]]|]; cbn [fst snd]; try reflexivity.
    now rewrite Hfs.
  Qed.

  (** parse() on the original and on the renamed files: either no file is read and the two are the same term, or both
      reach the statements after the command line with the same state, one with [ci], the other with the renamed [ci] *)
  Lemma parse_two P cli fs fs' dflt dflt' :
    checker T P = true ->
    (forall t, fs' t = rename_fsent (prog_aliases P) (fs t)) -> dflt' = rename_fsent (prog_aliases P) dflt ->
    (parse T wf P cli fs' dflt' = parse T wf P cli fs dflt
     /\ forall s, parse T wf P cli fs dflt = Run s -> forall items, resolve_all T cli = Some items -> loaded T P items fs dflt = [])
    \/ exists items vmA ci vs,
        resolve_all T cli = Some items /\ (forall n t, In (n, t) items -> cli_name T n)
        /\ store_items T wf true (fun _ => false) items (fun _ => None) = Some vmA
        /\ loaded T P items fs dflt = ci
        /\ parse T wf P cli fs dflt
           = file_phase T wf (prog_aliases P) items ci
               (mkSt (add_defaults T true vmA) (fun n => false || mem n (map fst items)) vs)
        /\ parse T wf P cli fs' dflt'
           = file_phase T wf (prog_aliases P) items (rename_items (prog_aliases P) ci)
               (mkSt (add_defaults T true vmA) (fun n => false || mem n (map fst items)) vs).
  Proof.
    intros CK Hfs Hd. destruct (checker_facts T P CK) as (al & SH & _).
    destruct (prog_shape_some _ _ SH) as [PC PF].
    assert (PA : prog_aliases P = al) by (unfold prog_aliases; now rewrite PF).
    rewrite !(parse_unfold T wf P cli _ _ CK).
    destruct (resolve_all T cli) as [items|] eqn:RA; [|left; split; [reflexivity|discriminate]].
    pose proof (resolve_all_cli T cli items RA) as CLI.
    rewrite PC. cbn [exec_list exec st0 s_fin s_vm s_vars].
    destruct (store_items T wf true (fun _ => false) items (fun _ => None)) as [vmA|] eqn:SA;
      [|left; split; [reflexivity|discriminate]].
    destruct (existsb _ (p_flags P)); [left; split; [reflexivity|discriminate]|].
    rewrite !(source_eq T wf P items vmA _ _ SA), (source_rename P items fs fs' dflt dflt' Hfs Hd).
    unfold loaded.
    destruct (source T P items fs dflt) as [[| |ci] b] eqn:SRC; cbn [fst snd rename_fsent].
    - left. split; [reflexivity|]. intros s _ it E. injection E as <-. now rewrite SRC.
    - left. split; [reflexivity|]. intros s _ it E. injection E as <-. now rewrite SRC.
    - right. exists items, vmA, ci, (notify T (add_defaults T true vmA) (fun _ => None)).
      split; [reflexivity|]. split; [assumption|]. split; [exact SA|]. split; [now rewrite SRC|].
      unfold file_phase. rewrite PF, PA. cbn [s_vm s_fin s_vars]. split; reflexivity.
  Qed.

  Section Thms.
    Variables (P : prog) (cli : list cliitem) (fs fs' : tok -> fsent) (dflt dflt' : fsent).
    Hypothesis CK : checker T P = true.
    Hypothesis Hfs : forall t, fs' t = rename_fsent (prog_aliases P) (fs t).
    Hypothesis Hd : dflt' = rename_fsent (prog_aliases P) dflt.

    Let NB := forall items, resolve_all T cli = Some items ->
                            no_double (prog_aliases P) (loaded T P items fs dflt).
    Let NS := forall items, resolve_all T cli = Some items ->
                            no_shadowed (prog_aliases P) items (loaded T P items fs dflt).

    Lemma good_aliases :
      NoDup (map o_name T) /\ NoDup (map fst (prog_aliases P) ++ map snd (prog_aliases P))
      /\ (forall ac, In ac (prog_aliases P) -> alias_ok T ac = true).
    Proof.
      destruct (checker_facts T P CK) as (al & SH & ND & NDal & ALok & _).
      destruct (prog_shape_some _ _ SH) as [PC PF].
      assert (PA : prog_aliases P = al) by (unfold prog_aliases; now rewrite PF).
      rewrite PA. auto.
    Qed.

    (** * original runs => renamed runs, same variables map, same members *)
    Theorem alias_run_forward s : NB ->
      parse T wf P cli fs dflt = Run s ->
      exists s', parse T wf P cli fs' dflt' = Run s'
                 /\ (forall n, s_vm s' n = s_vm s n) /\ (forall x, s_vars s' x = s_vars s x).
    Proof.
      intros HNB H. destruct good_aliases as (ND & NDal & ALok).
      destruct (parse_two P cli fs fs' dflt dflt' CK Hfs Hd) as [[E _]|(items & vmA & ci & vs & RA & CLI & SA & L & E1 & E2)].
      - exists s. rewrite E. auto.
      - rewrite E1 in H. rewrite E2.
        apply (file_phase_forward T wf _ ND NDal ALok items vmA CLI SA ci vs s); [|exact H].
        rewrite <- L. exact (HNB items RA).
    Qed.

    (** * one stops iff the other stops (information switch, or a named file that does not exist) *)
    Theorem alias_stop_iff : parse T wf P cli fs dflt = Stop <-> parse T wf P cli fs' dflt' = Stop.
    Proof.
      destruct (parse_two P cli fs fs' dflt dflt' CK Hfs Hd) as [[E _]|(items & vmA & ci & vs & RA & CLI & SA & L & E1 & E2)].
      - now rewrite E.
      - rewrite E1, E2. split; intro H.
        + destruct (file_phase_cases T wf (prog_aliases P) items ci (mkSt (add_defaults T true vmA) (fun n => false || mem n (map fst items)) vs))
            as [(s & X)|X]; rewrite X in H; discriminate.
        + destruct (file_phase_cases T wf (prog_aliases P) items (rename_items (prog_aliases P) ci)
                      (mkSt (add_defaults T true vmA) (fun n => false || mem n (map fst items)) vs))
            as [(s & X)|X]; rewrite X in H; discriminate.
    Qed.

    (** * the renamed invocation fails only if the original fails *)
    Theorem alias_fail_backward : NB ->
      parse T wf P cli fs' dflt' = Fail -> parse T wf P cli fs dflt = Fail.
    Proof.
      intros HNB H. destruct (parse T wf P cli fs dflt) as [s| |] eqn:E; [| |reflexivity].
      - destruct (alias_run_forward s HNB E) as (s' & X & _). rewrite X in H. discriminate.
      - apply alias_stop_iff in E. rewrite E in H. discriminate.
    Qed.

    (** * the two outcomes are equal when no legacy line is shadowed by the command line *)
    Theorem alias_outcome_eq : NB -> NS ->
      same_outcome (parse T wf P cli fs dflt) (parse T wf P cli fs' dflt').
    Proof.
      intros HNB HNS. destruct good_aliases as (ND & NDal & ALok).
      destruct (parse_two P cli fs fs' dflt dflt' CK Hfs Hd) as [[E _]|(items & vmA & ci & vs & RA & CLI & SA & L & E1 & E2)].
      - rewrite E. apply same_outcome_refl.
      - rewrite E1, E2.
        assert (NBc : no_double (prog_aliases P) ci) by (rewrite <- L; exact (HNB items RA)).
        assert (NSc : no_shadowed (prog_aliases P) items ci) by (rewrite <- L; exact (HNS items RA)).
        set (s1 := mkSt (add_defaults T true vmA) (fun n => false || mem n (map fst items)) vs).
        destruct (file_phase_cases T wf (prog_aliases P) items ci s1) as [(s & X)|X].
        + destruct (file_phase_forward T wf _ ND NDal ALok items vmA CLI SA ci vs s NBc X) as (s' & X' & V & W).
          fold s1 in X'. rewrite X, X'. cbn. auto.
        + rewrite X.
          destruct (file_phase_cases T wf (prog_aliases P) items (rename_items (prog_aliases P) ci) s1) as [(s' & X')|X'].
          * destruct (file_phase_backward T wf _ NDal ALok items vmA SA ci vs s' NBc NSc X') as (s & Y).
            fold s1 in Y. rewrite Y in X. discriminate.
          * rewrite X'. exact I.
    Qed.
  End Thms.
End ParseLevel.

(** * the statements as they appear in Props/Properties_C20.v *)
Section Stated.
  Variable T : list opt.

  Theorem alias_equivalence_thm (P : prog) : checker T P = true ->
    forall wf cli fs fs' dflt dflt',
    (forall t, fs' t = rename_fsent (prog_aliases P) (fs t)) -> dflt' = rename_fsent (prog_aliases P) dflt ->
    (forall items, resolve_all T cli = Some items -> no_double (prog_aliases P) (loaded T P items fs dflt)) ->
    (forall s, parse T wf P cli fs dflt = Run s ->
       exists s', parse T wf P cli fs' dflt' = Run s'
                  /\ (forall n, s_vm s' n = s_vm s n) /\ (forall x, s_vars s' x = s_vars s x))
    /\ (parse T wf P cli fs dflt = Stop <-> parse T wf P cli fs' dflt' = Stop)
    /\ (parse T wf P cli fs' dflt' = Fail -> parse T wf P cli fs dflt = Fail)
    /\ ((forall items, resolve_all T cli = Some items ->
                       no_shadowed (prog_aliases P) items (loaded T P items fs dflt)) ->
        same_outcome (parse T wf P cli fs dflt) (parse T wf P cli fs' dflt')).
  Proof.
    intros CK wf cli fs fs' dflt dflt' Hfs Hd NB. repeat split.
    - intros s H. exact (alias_run_forward T wf P cli fs fs' dflt dflt' CK Hfs Hd s NB H).
    - apply (alias_stop_iff T wf P cli fs fs' dflt dflt' CK Hfs Hd).
    - apply (alias_stop_iff T wf P cli fs fs' dflt dflt' CK Hfs Hd).
    - exact (alias_fail_backward T wf P cli fs fs' dflt dflt' CK Hfs Hd NB).
    - intro NS. exact (alias_outcome_eq T wf P cli fs fs' dflt dflt' CK Hfs Hd NB NS).
  Qed.

  (** both names of one option in the loaded file (and the option not on the command line): the line(s) under
      the current name give the value; the legacy line is converted all the same (every token of it is well formed,
      else parse() would not have run) and then dropped *)
  Theorem both_names_thm (P : prog) : checker T P = true ->
    forall wf cli fs dflt s, parse T wf P cli fs dflt = Run s ->
    exists items, resolve_all T cli = Some items /\
      forall o a, In o T -> is_canon o = true -> typed o = true ->
        alias_of (prog_aliases P) (o_name o) = Some a ->
        occurs (o_name o) items = false ->
        occurs (o_name o) (loaded T P items fs dflt) = true -> occurs a (loaded T P items fs dflt) = true ->
        s_vars s (o_var o) = Some (collect T false (o_name o) (loaded T P items fs dflt))
        /\ forall toks t, In (a, toks) (loaded T P items fs dflt) -> In t toks -> wf (o_ty o) t = true.
  Proof.
    intros CK wf cli fs dflt s H.
    destruct (precedence_thm T wf P cli fs dflt s CK H) as (items & RA & PV).
    exists items. split; [exact RA|]. intros o a Io Co To AO O1 O2 O3. split.
    - rewrite (PV o Io Co To). unfold spec_value. now rewrite O1, O2.
    - intros toks t It Itk. destruct (wf (o_ty o) t) eqn:W; [reflexivity|]. exfalso.
      destruct (checker_facts T P CK) as (al & SH & ND & NDal & ALok & _).
      destruct (prog_shape_some _ _ SH) as [PC PF].
      assert (PA : prog_aliases P = al) by (unfold prog_aliases; now rewrite PF).
      rewrite PA in AO. apply alias_of_in in AO.
      destruct (alias_pair T al ALok a (o_name o) AO) as (oa & oc & Fa & Fc & Ca & _ & _ & Ty & _).
      rewrite (find_opt_unique T o ND Io) in Fc. injection Fc as <-.
      assert (Oa : occurs a items = false).
      { eapply not_cli_not_occurs; eauto. exact (resolve_all_cli T cli items RA). }
      unfold loaded in It. destruct (source T P items fs dflt) as [[| |ci] b] eqn:SRC; cbn [fst] in It; try contradiction.
      apply (bad_config_never_runs T wf P cli fs dflt items ci b CK RA SRC) with (s := s); [|exact H].
      right. left. exists a, toks, oa, t. repeat split; try assumption.
      + unfold typed in *. now rewrite Ty.
      + now rewrite Ty.
  Qed.
End Stated.
