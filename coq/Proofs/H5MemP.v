(** * The buffers PhaseSpace hands to [_appendData] have the shape of the dataset's records.

    Joins the two generated files: the extents of the PhaseSpace member arrays (Gen_Moments.v, from the
    constructor's mem-initialisers) and, per append call, the dataset and the member it is appended from
    (Gen_H5Index.v).  For every PhaseSpace-sourced call the buffer's shape is the model's [mem_inner] and
    the inner dimensions the HDF5File constructor gave the dataset - so row b of a record is bunch b's
    row (C10_dataset_rows_are_bunches applies with equal strides). *)
From Coq Require Import List ZArith Bool Lia.
From Inovesa Require Import Base.FieldKit Model.Records Model.H5Slab Model.MomentsIR Gen.Gen_Moments Gen.Gen_H5Index
  Proofs.H5SlabP Proofs.H5IndexP.
Import ListNotations.
Local Open Scope Z_scope.

Definition ps_buffer_shape (z : sizes) (s : psrc) : option (list Z) :=
  let nb := s_nb z in let n := s_n z in
  src_extents s (gen_extents_data nb n n) (gen_extents_projection nb n n) (gen_extents_moment nb n n)
              (gen_extents_rms nb n n) (gen_extents_filling nb n n).

Theorem gen_memory_shapes z d s n sh :
  In (d, s, n) all_append_tables -> ps_buffer_shape z s = Some sh ->
  sh = mem_inner z d /\
  sh = tl (gen_ds_dims true true (s_nb z) (s_n z) (s_n z) (s_nmax z) (s_imp z) (s_np z) d).
Proof.
  intros Hin. vm_compute in Hin.
  repeat (destruct Hin as [Hin|Hin]; [inversion Hin; subst; clear Hin; cbn; intros E; try discriminate E; inversion E; split; reflexivity|]).
  contradiction.
Qed.

(** the flat position of cell (b,x,y) of [_data] (row-major, extents from the constructor) is the one
    the model's driver and the file layer use: ((b*n + x)*n + y) *)
Theorem gen_data_is_bunch_major nb n b x y :
  gidx 0 (gen_extents_data nb n n) [b; x; y] [1; 1; 1] = [(b * n + x) * n + y].
Proof. unfold gen_extents_data. cbn [gidx]. rewrite !zrange_1. cbn [flat_map app]. f_equal. lia. Qed.
