(** * The executable IEEE evaluation of Model/FExpr.v is the real one.

    [rndQ p] is Flocq's round-to-nearest-even into binary32 / binary64 ([rndQ_correct], the proof of
    Proofs/Float32P.v with the format as a parameter), [fl_evalQ false] is [FExprP.fl_eval] (every operation
    rounded once) and [fl_evalQ c] is, for both values of [c], an admissible evaluation [feval]
    ([fl_evalQ_feval]) - so the weights the harness compares bit for bit with the implementation are within
    every bound proved for [feval]. *)
From Coq Require Import ZArith QArith Qround Qreals Reals Lra Lia Bool.
From Flocq Require Import Core.
From Inovesa Require Import Base.Float32 Model.FExpr Proofs.Float32P Proofs.RoundingP Proofs.FExprP.
Local Open Scope R_scope.

Lemma rndQ_pos p a : (0 < a)%Q ->
  let t := (prec_bits p - 1)%Z in
  let e := Z.max (Qlog2 a) (prec_emin p + t) in
  Q2R (inject_Z (Qrne (a * Qpow2 (t - e))) * Qpow2 (e - t)) = RNp p (Q2R a).
Proof.
  intros Ha t e. pose proof (Qlog2_spec a Ha) as L.
  assert (M : Raux.mag radix2 (Q2R a) = (Qlog2 a + 1)%Z :> Z).
  { apply mag_unique_pos. replace (Qlog2 a + 1 - 1)%Z with (Qlog2 a) by lia. exact L. }
  unfold RNp, round, F2R, scaled_mantissa, cexp. cbn [Fnum Fexp]. rewrite M.
  assert (C : fexpOf p (Qlog2 a + 1) = (e - t)%Z).
  { unfold fexpOf, FLT_exp, e, t. destruct p; cbn [prec_bits prec_emin]; lia. }
  rewrite C. rewrite Q2R_mult, Q2R_inject_Z, Q2R_Qpow2, Qrne_spec, Q2R_mult, Q2R_Qpow2.
  replace (- (e - t))%Z with (t - e)%Z by lia. reflexivity.
Qed.

Theorem rndQ_correct p q : Q2R (rndQ p q) = RNp p (Q2R q).
Proof.
  unfold rndQ. destruct (Qeq_bool q 0) eqn:Z0.
  - apply Qeq_bool_iff in Z0. apply Qeq_eqR in Z0. rewrite Z0. unfold Q2R at 1 2; cbn.
    rewrite Rmult_0_l. symmetry. unfold RNp. apply round_0. apply valid_rnd_N.
  - assert (NZ : ~ q == 0) by (intro X; apply Qeq_bool_iff in X; congruence).
    unfold Qabs'. destruct (Qle_bool 0 q) eqn:S.
    + apply Qle_bool_iff in S. assert (P : (0 < q)%Q).
      { apply Qle_lteq in S. destruct S as [S|S]; [exact S|]. exfalso; apply NZ; symmetry; exact S. }
      exact (rndQ_pos p q P).
    + assert (Ng : (q < 0)%Q).
      { apply Qnot_le_lt. intro X. apply Qle_bool_iff in X. congruence. }
      assert (P : (0 < - q)%Q) by (apply Qlt_minus_iff in Ng; rewrite Qplus_0_l in Ng; exact Ng).
      rewrite Q2R_opp. rewrite (rndQ_pos p (- q) P). rewrite Q2R_opp. unfold RNp. rewrite round_NE_opp. lra.
Qed.

Lemma Q2R_div_total a b : Q2R (a / b) = Q2R a / Q2R b.
Proof.
  destruct (Qeq_dec b 0) as [Z0|NZ].
  - assert (E : (a / b == 0)%Q).
    { unfold Qdiv. destruct b as [nb db]. unfold Qeq in Z0. cbn in Z0. assert (nb = 0%Z) by lia. subst nb.
      unfold Qinv. cbn. unfold Qeq, Qmult. cbn. lia. }
    rewrite (Qeq_eqR _ _ E), (Qeq_eqR _ _ Z0). unfold Q2R at 1 3. cbn. unfold Rdiv.
    rewrite !Rmult_0_l, Rinv_0. ring.
  - apply Q2R_div. exact NZ.
Qed.

Lemma Q2R_opQ o a b : Q2R (opQ o a b) = opR o (Q2R a) (Q2R b).
Proof.
  destruct o; cbn [opQ opR]; [apply Q2R_plus | apply Q2R_minus | apply Q2R_mult | apply Q2R_div_total].
Qed.

(** every executable evaluation (contracted or not, root rounded or not) is admissible *)
Theorem fl_evalQ_gen_feval c e : forall rounded f, feval (Q2R f) e (Q2R (fl_evalQ_gen c rounded e f)).
Proof.
  induction e as [|q|a IH|p o a IHa b IHb|p a IH]; intros rounded f; cbn [fl_evalQ_gen].
  - constructor.
  - constructor.
  - rewrite Q2R_opp. constructor. apply IH.
  - cbv zeta.
    set (va := fl_evalQ_gen c _ a f). set (vb := fl_evalQ_gen c _ b f).
    apply (FE_op (Q2R f) p o a b (Q2R va) (Q2R vb)); [apply IHa | apply IHb |].
    destruct rounded.
    + rewrite rndQ_correct, Q2R_opQ. apply RNp_rpert.
    + rewrite Q2R_opQ. apply rpert_refl.
  - apply (FE_cast (Q2R f) p a (Q2R (fl_evalQ_gen c true a f))); [apply IH|].
    rewrite rndQ_correct. apply RNp_rpert.
Qed.

Corollary fl_evalQ_feval c e f : feval (Q2R f) e (Q2R (fl_evalQ c e f)).
Proof. apply fl_evalQ_gen_feval. Qed.

(** without contraction it is the IEEE evaluation with every operation rounded to nearest *)
Theorem fl_evalQ_ieee e : forall f, Q2R (fl_evalQ false e f) = fl_eval e (Q2R f).
Proof.
  unfold fl_evalQ.
  induction e as [|q|a IH|p o a IHa b IHb|p a IH]; intros f; cbn [fl_evalQ_gen fl_eval andb negb].
  - reflexivity.
  - reflexivity.
  - rewrite Q2R_opp, IH. reflexivity.
  - rewrite rndQ_correct, Q2R_opQ, IHa, IHb. reflexivity.
  - rewrite rndQ_correct, IH. reflexivity.
Qed.
