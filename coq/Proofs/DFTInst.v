(** * The twiddle hypotheses are not vacuous: the real table cos/sin(2 pi m/N) for every N, and an
    exact executable table for N = 4 over Qc (with a computed wake). *)
From Coq Require Import List ZArith Lia QArith Qcanon Reals Lra ZifyBool.
From Inovesa Require Import Base.FieldKit Base.Sums Base.RInst Base.Float32 Model.DFT Proofs.DFTP.
Import ListNotations.

(** ** R: cs m = cos (2 pi m / N), sn m = sin (2 pi m / N) *)
Section RTable.
  Variable N : Z.
  Hypothesis Npos : (0 < N)%Z.
  Local Open Scope R_scope.

  Definition ang (m : Z) : R := 2 * PI * IZR m / IZR N.
  Definition csR (m : Z) : R := cos (ang m).
  Definition snR (m : Z) : R := sin (ang m).

  Lemma IZR_N_nz : IZR N <> 0.
  Proof. apply not_0_IZR. lia. Qed.

  Lemma ang_add a b : ang (a + b) = ang a + ang b.
  Proof. unfold ang. rewrite plus_IZR. field. exact IZR_N_nz. Qed.
  Lemma ang_neg a : ang (- a) = - ang a.
  Proof. unfold ang. rewrite opp_IZR. field. exact IZR_N_nz. Qed.
  Lemma ang_N : ang N = 2 * PI.
  Proof. unfold ang. field. exact IZR_N_nz. Qed.

  Lemma csR_0 : csR 0 = 1.
  Proof. unfold csR, ang. replace (2 * PI * 0 / IZR N) with 0 by (field; exact IZR_N_nz). exact cos_0. Qed.
  Lemma snR_0 : snR 0 = 0.
  Proof. unfold snR, ang. replace (2 * PI * 0 / IZR N) with 0 by (field; exact IZR_N_nz). exact sin_0. Qed.
  Lemma csR_add a b : csR (a + b) = csR a * csR b - snR a * snR b.
  Proof. unfold csR, snR. rewrite ang_add. apply cos_plus. Qed.
  Lemma snR_add a b : snR (a + b) = snR a * csR b + csR a * snR b.
  Proof. unfold csR, snR. rewrite ang_add. apply sin_plus. Qed.
  Lemma csR_neg a : csR (- a) = csR a.
  Proof. unfold csR. rewrite ang_neg. apply cos_neg. Qed.
  Lemma snR_neg a : snR (- a) = - snR a.
  Proof. unfold snR. rewrite ang_neg. apply sin_neg. Qed.
  Lemma csR_per a : csR (a + N) = csR a.
  Proof. unfold csR. rewrite ang_add, ang_N, cos_plus, cos_2PI, sin_2PI. ring. Qed.
  Lemma snR_per a : snR (a + N) = snR a.
  Proof. unfold snR. rewrite ang_add, ang_N, sin_plus, cos_2PI, sin_2PI. ring. Qed.
End RTable.

(** the C06/C07 theorems instantiated at the real table (so none of them is vacuous) *)
Theorem dft_R_instance (N : Z) (Zi stale : Z -> cplx RF) (p : Z -> R) (j : Z) :
  (2 <= N)%Z -> stale (N / 2)%Z = czero ->
  wake_padded (K:=RF) N (csR N) (snR N) Zi stale p j
  = sumZ (K:=RF) 0 (nN N) (fun u => (p u * kernel RF N (csR N) (snR N) Zi ((j - u) mod N)%Z)%R).
Proof.
  intros HN Hst. assert (H0 : (0 < N)%Z) by lia.
  exact (wake_is_convolution RF N (csR N) (snR N) HN (csR_0 N H0) (snR_0 N H0) (csR_add N H0) (snR_add N H0)
           (csR_neg N H0) (snR_neg N H0) (csR_per N H0) (snR_per N H0) Zi stale p j Hst).
Qed.

(** ** Qc, N = 4: the exact table 1, 0, -1, 0 / 0, 1, 0, -1 *)
Local Open Scope Z_scope.
Ltac Zify.zify_post_hook ::= Z.div_mod_to_equations.

Definition cs4 (m : Z) : Qc := match m mod 4 with 0 => 1%Qc | 2 => (- (1))%Qc | _ => 0%Qc end.
Definition sn4 (m : Z) : Qc := match m mod 4 with 1 => 1%Qc | 3 => (- (1))%Qc | _ => 0%Qc end.

Lemma mod4_cases m : m mod 4 = 0 \/ m mod 4 = 1 \/ m mod 4 = 2 \/ m mod 4 = 3.
Proof. lia. Qed.

Lemma cs4_0 : cs4 0 = 1%Qc. Proof. reflexivity. Qed.
Lemma sn4_0 : sn4 0 = 0%Qc. Proof. reflexivity. Qed.

Lemma add_mod4 a b : (a + b) mod 4 = (a mod 4 + b mod 4) mod 4.
Proof. apply Zplus_mod. Qed.

Lemma cs4_add a b : cs4 (a + b) = (cs4 a * cs4 b - sn4 a * sn4 b)%Qc.
Proof.
  unfold cs4, sn4. rewrite add_mod4.
  destruct (mod4_cases a) as [A|[A|[A|A]]], (mod4_cases b) as [B|[B|[B|B]]]; rewrite A, B;
    vm_compute; reflexivity.
Qed.
Lemma sn4_add a b : sn4 (a + b) = (sn4 a * cs4 b + cs4 a * sn4 b)%Qc.
Proof.
  unfold cs4, sn4. rewrite add_mod4.
  destruct (mod4_cases a) as [A|[A|[A|A]]], (mod4_cases b) as [B|[B|[B|B]]]; rewrite A, B;
    vm_compute; reflexivity.
Qed.
Lemma neg_mod4 a : (- a) mod 4 = (4 - a mod 4) mod 4.
Proof. lia. Qed.
Lemma cs4_neg a : cs4 (- a) = cs4 a.
Proof.
  unfold cs4. rewrite neg_mod4. destruct (mod4_cases a) as [A|[A|[A|A]]]; rewrite A; vm_compute; reflexivity.
Qed.
Lemma sn4_neg a : sn4 (- a) = (- sn4 a)%Qc.
Proof.
  unfold sn4. rewrite neg_mod4. destruct (mod4_cases a) as [A|[A|[A|A]]]; rewrite A; vm_compute; reflexivity.
Qed.
Lemma cs4_per a : cs4 (a + 4) = cs4 a.
Proof. unfold cs4. replace ((a + 4) mod 4) with (a mod 4) by lia. reflexivity. Qed.
Lemma sn4_per a : sn4 (a + 4) = sn4 a.
Proof. unfold sn4. replace ((a + 4) mod 4) with (a mod 4) by lia. reflexivity. Qed.

(** a concrete wake on the exact table: profile (1,2,0,0), Z_0 = 3+5i, Z_1 = 2-i (cells 2,3 arbitrary) *)
Definition ex_Z (k : Z) : cplx QcF :=
  match k with 0 => (Qcz 3, Qcz 5) | 1 => (Qcz 2, Qcz (-1)) | _ => (Qcz 7, Qcz 7) end.
Definition ex_p (u : Z) : Qc := match u with 0 => Qcz 1 | 1 => Qcz 2 | _ => 0%Qc end.

Example dft_Qc_N4 :
  map (wake_padded (K:=QcF) 4 cs4 sn4 ex_Z (fun _ => czero) ex_p) (zrange 4) = map Qcz [9; 19; 9; -1]
  /\ map (fun j => sumZ (K:=QcF) 0 4 (fun u => (ex_p u * kernel QcF 4 cs4 sn4 ex_Z ((j - u) mod 4))%Qc)) (zrange 4)
     = map Qcz [9; 19; 9; -1].
Proof. split; vm_compute; reflexivity. Qed.
