(** * C11: what the constructor of a PhaseSpace without start data leaves in the cached bunch charges
    ([_filling]), over the closed forms GENERATED from src/PS/PhaseSpace.cpp on every run (Gen/Gen_Moments.v:
    [gen_createFromProjections], [gen_ctor_fresh] = the branch `data == nullptr` of the principal constructor followed
    by its refresh sequence).

    [HDF5File::readPhaseSpace] constructs such an object and reads the stored record over its grid; main()'s initial
    `updateXProjection(); normalize();` then divides by the charges the CONSTRUCTOR cached (no `integrate()` in
    between: Model/Restart.v [prepare], Theorem C11_start_state).  That this stale normalisation is harmless rests on
    the fact proved here: the constructor normalises the start distribution numerically, so the cached charge of every
    filled bunch IS its share, whatever the grid cuts off the Gaussian - and normalising with it is the identity in
    exact arithmetic ([stale_normalize_is_identity]); in binary32 it is one rescale by a factor within a few ulp of 1.
    A constructor that leaves another value (e.g. the analytic integral of a Gaussian the grid truncates) breaks
    [fresh_ctor_filling_is_share]. *)
From Coq Require Import List ZArith Ring Field Lia Bool.
From Inovesa Require Import Base.FieldKit Base.Sums Model.Moments Model.MomentsIR Gen.Gen_Moments
  Proofs.MomentsP Proofs.MomentsGenP.
Import ListNotations.

Section Fresh.
  Variable K : Fld.
  Variable pos : K -> bool.
  Add Field KFfc : (@Fth K).
  Local Open Scope F_scope.
  Notation geom := (geom K).
  Notation state := (state K).

  (** model counterpart of createFromProjections: the product of the two cached projections in every cell, measured
      ([updateX], [integrate]) and normalised *)
  Definition product_state (s : state) : state :=
    mkState K (fun b x y => sprojx s b x * sprojy s b y) (sprojx s) (sprojy s) (sfill s) (sint s) (smom s).
  Definition create_from_projections (g : geom) (s : state) : state :=
    normalize K pos g (integrate K g (updateX K g (product_state s))).

  Section W.
  Variable g : geom.
  Variable w : Z -> K.
  Hypothesis Hw : forall i, (0 <= i < gn g)%Z -> w i = ws K g i.
  Notation E := (env_w K pos g w).

  Lemma gen_create_sim m s : steq K g m s ->
    steq K g (gen_createFromProjections K E m) (create_from_projections g s).
  Proof.
    intros H. unfold gen_createFromProjections, create_from_projections. cbv zeta.
    apply gen_normalize_sim, (gen_integrate_sim K pos g w Hw), (gen_updateX_sim K pos g w Hw).
    destruct H as (Hd & Hx & Hy & Hf & Hi & Hm). unfold steq, product_state.
    cbn [m_data m_proj m_fill m_int m_mom set_data sdata sprojx sprojy sfill sint smom env_w e_nx e_ny e_nb].
    repeat split; try assumption.
    intros b x y Hb Hx' Hy'. rewrite !inr_in by lia. cbn [andb].
    rewrite Hx, Hy by lia. ring.
  Qed.

  (** the generated constructor path simulates: product, measure, normalise, refresh *)
  Lemma gen_ctor_fresh_sim m s : steq K g m s ->
    steq K g (gen_ctor_fresh K E m) (refresh K g (create_from_projections g s)).
  Proof.
    intros H. unfold gen_ctor_fresh, refresh.
    apply (gen_integrate_sim K pos g w Hw), (gen_updateY_sim K pos g w Hw), (gen_updateX_sim K pos g w Hw), gen_create_sim, H.
  Qed.

  (** on the model: after the refresh the cached charge of a filled bunch is its share *)
  Lemma model_fresh_fill s b :
    (0 <= b < gnb g)%Z -> pos (gfs g b) = true ->
    charge_of K g (fun b x y => sprojx s b x * sprojy s b y) b <> 0 ->
    sfill (refresh K g (create_from_projections g s)) b = gfs g b.
  Proof.
    intros Hb Hp Hnz. unfold refresh, create_from_projections.
    set (s3 := integrate K g (updateX K g (product_state s))).
    assert (Hm : sfill s3 b = charge_of K g (sdata s3) b).
    { unfold s3. rewrite measured_fill by exact Hb. reflexivity. }
    assert (Hn : sfill s3 b <> 0).
    { rewrite Hm. exact Hnz. }
    rewrite <- (normalize_restores_share K pos g s3 b Hb Hp Hm Hn).
    rewrite !integrate_fill by exact Hb. reflexivity.
  Qed.

  Theorem fresh_fill (m : mst K) b :
    (0 <= b < gnb g)%Z -> pos (gfs g b) = true ->
    charge_of K g (fun b x y => m_proj m 0%Z b x * m_proj m 1%Z b y) b <> 0 ->
    m_fill (gen_ctor_fresh K E m) b = gfs g b.
  Proof.
    intros Hb Hp Hnz.
    pose proof (gen_ctor_fresh_sim m (of_mst K m) (steq_of_mst K g m)) as (_ & _ & _ & Hf & _).
    rewrite (Hf b Hb). apply model_fresh_fill; assumption.
  Qed.

  (** a record read over the grid of such an object, then `normalize()` with the cached charges: every cell of a
      filled bunch keeps the stored value *)
  Theorem stale_normalize (m : mst K) (G : Z -> Z -> Z -> K) b x y :
    (0 <= b < gnb g)%Z -> (0 <= x < gn g)%Z -> (0 <= y < gn g)%Z ->
    pos (gfs g b) = true -> gfs g b <> 0 ->
    charge_of K g (fun b x y => m_proj m 0%Z b x * m_proj m 1%Z b y) b <> 0 ->
    m_data (gen_normalize K E (set_data K G (gen_ctor_fresh K E m))) b x y = G b x y.
  Proof.
    intros Hb Hx Hy Hp Hs Hnz.
    set (mf := set_data K G (gen_ctor_fresh K E m)).
    pose proof (gen_normalize_sim K pos g w mf (of_mst K mf) (steq_of_mst K g mf)) as (Hd & _).
    rewrite (Hd b x y Hb Hx Hy). rewrite normalize_data by assumption. rewrite Hp.
    unfold mf, of_mst. cbn [sdata sfill set_data m_data m_fill].
    rewrite (fresh_fill m b Hb Hp Hnz). field. exact Hs.
  Qed.
  End W.

  (** the object as constructed: the weights are what the generated simpsonWeights computes *)
  Theorem fresh_ctor_filling_is_share (g : geom) (m : mst K) b :
    (0 <= b < gnb g)%Z -> pos (gfs g b) = true ->
    charge_of K g (fun b x y => m_proj m 0%Z b x * m_proj m 1%Z b y) b <> 0 ->
    m_fill (gen_ctor_fresh K (env_gen K pos g) m) b = gfs g b.
  Proof. exact (fresh_fill g _ (gen_ctor_ws_is_model K pos g) m b). Qed.

  Theorem stale_normalize_is_identity (g : geom) (m : mst K) (G : Z -> Z -> Z -> K) b x y :
    (0 <= b < gnb g)%Z -> (0 <= x < gn g)%Z -> (0 <= y < gn g)%Z ->
    pos (gfs g b) = true -> gfs g b <> 0 ->
    charge_of K g (fun b x y => m_proj m 0%Z b x * m_proj m 1%Z b y) b <> 0 ->
    m_data (gen_normalize K (env_gen K pos g) (set_data K G (gen_ctor_fresh K (env_gen K pos g) m))) b x y = G b x y.
  Proof. exact (stale_normalize g _ (gen_ctor_ws_is_model K pos g) m G b x y). Qed.
End Fresh.
