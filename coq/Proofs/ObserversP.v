(** Observer-guarded statements of the simulation part (C12, C19; seed F6-J): soundness of the checker of
    Model/Observers.v.  (The tie of [pastop] to the statements of `getPastModulation()` as translate/dynqueue2coq.py
    reads them is in Proofs/ObserversDQP.v.) *)
From Coq Require Import List ZArith String Bool.
From Inovesa Require Import Model.Driver Model.Observers.
Import ListNotations.
Local Open Scope Z_scope.

Section OP.
  Variable K : kern.
  Notation st := (Driver.st K).

  Lemma set_past_same (s : st) : set_past (Driver.past s) s = s.
  Proof. destruct s; reflexivity. Qed.

  Lemma past_after_keep {A} (junk : list A) ops p : pastops_keep ops = true -> past_after junk ops p = p.
  Proof.
    induction ops as [|o r IH]; cbn; auto. destruct o; cbn; try discriminate. exact IH.
  Qed.

  Lemma oeff_pure_sound sig cf junk gp unk e (s : st) : oeff_pure gp e = true -> oexec sig cf junk gp unk e s = s.
  Proof.
    destruct e; cbn; try discriminate; auto.
    intros H. rewrite past_after_keep by exact H. apply set_past_same.
  Qed.

  Lemma ostmt_pure_sound sig cf junk gp unk o (s : st) : ostmt_pure gp o = true -> oexec_stmt sig cf junk gp unk o s = s.
  Proof.
    unfold ostmt_pure, oexec_stmt. generalize (o_effs o). intros l. revert s.
    induction l as [|e r IH]; intros s H; cbn in *; auto.
    apply andb_true_iff in H. destruct H as [H1 H2]. rewrite oeff_pure_sound by exact H1. apply IH. exact H2.
  Qed.

  (** every observer-guarded statement of an accepted list leaves the state of the model as it is *)
  Theorem observers_pure_sound sig cf junk gp unk l : observers_pure gp l = true ->
    forall o (s : st), In o l -> oexec_stmt sig cf junk gp unk o s = s.
  Proof.
    unfold observers_pure. rewrite forallb_forall. intros H o s Hi. apply ostmt_pure_sound. apply H. exact Hi.
  Qed.

  (** a `getPastModulation()` that moves the member out and clears it, under an observer guard: whatever
      records were pending are gone, and the `appendRFKicks(getPastModulation())` that follows writes an
      empty chunk *)
  Lemma getpast_loses_records sig cf junk unk obj r (s : st) :
    let gp := r ++ [PCleared; PKeep] in
    Driver.past (oexec sig cf junk gp unk (OGetPast obj) s) = [] /\
    recs cf ARFKicks (oexec sig cf junk gp unk (OGetPast obj) s) = [mkrec (Driver.k s) (RRF [])].
  Proof.
    cbn. assert (X : forall (p : list (tMd K)), past_after junk (r ++ [PCleared; PKeep]) p = []).
    { induction r as [|o r' IH]; intros p; cbn; auto. destruct o; cbn; apply IH. }
    rewrite X. split; reflexivity.
  Qed.
End OP.
