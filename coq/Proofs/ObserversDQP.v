(** [pastop] (Model/Observers.v) and the statements of `getPastModulation()` as translate/dynqueue2coq.py reads them
    (Model/DynQueue.v, Gen/Gen_DynQueue.v): [past_after] is what the generated function does to `_past_modulation`. *)
From Coq Require Import List ZArith String Bool.
From Inovesa Require Import Model.Observers Model.DynRF Model.DynQueue.
Import ListNotations.

Definition pastop_of (o : gop) : pastop :=
  match o with GMoveOut => PMovedFrom | GClear => PCleared | GCopyOut | GReturnRv => PKeep end.

(** [past_after] is what the generated `getPastModulation()` does to the member `_past_modulation` *)
Lemma past_after_is_gen_flush {F : Base.FieldKit.Fld} {G : Type} (junk : list (modn F)) (ops : list gop) :
  forall (s : DynRF.st F G) rv,
    DynRF.past (fst (fold_left (fun x o => exec_gop junk o x) ops (s, rv))) = past_after junk (List.map pastop_of ops) (DynRF.past s).
Proof.
  induction ops as [|o r IH]; intros s rv; cbn [fold_left List.map past_after]; auto.
  destruct o; cbn [exec_gop pastop_of]; rewrite IH; reflexivity.
Qed.

