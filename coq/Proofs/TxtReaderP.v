(** Lemmas about the text start-distribution reader model (Model/TxtReader.v). *)
From Coq Require Import ZArith Bool Lia.
From Inovesa Require Import Model.TxtReader.
Local Open Scope Z_scope.

(** what the generated guard and index must satisfy (checked for the generated definitions in
    TxtReaderGenP.v): the guard is an upper bound test only - as in the code - and the subscripts
    are the converted coordinates in bunch 0 *)
Definition guard_upper (guard : Z -> Z -> Z -> bool) : Prop :=
  forall x y n, guard x y n = true -> x < n /\ y < n.
Definition index_plain (index : Z -> Z -> Z * Z * Z) : Prop :=
  forall x y, index x y = (0, x, y).

Lemma conv_u32_range v : 0 <= conv CU32 v < 2 ^ 32.
Proof. unfold conv. apply Z.mod_pos_bound. reflexivity. Qed.

Lemma conv_u64_range v : 0 <= conv CU64 v < 2 ^ 64.
Proof. unfold conv. apply Z.mod_pos_bound. reflexivity. Qed.

Definition unsigned_kind (k : conv_kind) : bool :=
  match k with CU32 | CU64 => true | _ => false end.

Lemma conv_unsigned_nonneg k v : unsigned_kind k = true -> 0 <= conv k v.
Proof.
  destruct k; cbn [unsigned_kind]; intro H; try discriminate.
  - apply conv_u32_range.
  - apply conv_u64_range.
Qed.

(** the property: with unsigned coordinate variables every deposit lands inside the array *)
Lemma deposit_unsigned_in_bounds kx ky guard index n vx vy i :
  unsigned_kind kx = true -> unsigned_kind ky = true ->
  guard_upper guard -> index_plain index ->
  deposit kx ky guard index n vx vy = Some i -> in_array 1 n i.
Proof.
  intros Hx Hy Hg Hi. unfold deposit.
  destruct (guard (conv kx vx) (conv ky vy) n) eqn:E; [|discriminate].
  intro H. injection H as <-. rewrite Hi. cbn [in_array].
  destruct (Hg _ _ _ E) as [Hxn Hyn].
  pose proof (conv_unsigned_nonneg kx vx Hx). pose proof (conv_unsigned_nonneg ky vy Hy). lia.
Qed.

(** and the converse direction used by the refutations: a signed coordinate variable lets a
    particle left of / below the grid through an upper-bound-only guard *)
Lemma deposit_signed_x_out guard index n :
  (forall x y m, guard x y m = ((x <? m) && (y <? m))%bool) -> index_plain index -> 0 < n ->
  deposit CS64 CU32 guard index n (-1) 0 = Some (0, -1, 0).
Proof.
  intros Hg Hi Hn. unfold deposit. rewrite Hg, Hi.
  change (conv CS64 (-1)) with (-1). change (conv CU32 0) with 0.
  destruct (-1 <? n) eqn:A; destruct (0 <? n) eqn:B; try reflexivity; lia.
Qed.

(** variant for a two-sided guard (a rewrite that adds lower-bound tests makes the declared type
    irrelevant) *)
Definition guard_two_sided (guard : Z -> Z -> Z -> bool) : Prop :=
  forall x y n, guard x y n = true -> 0 <= x < n /\ 0 <= y < n.

Lemma deposit_two_sided_in_bounds kx ky guard index n vx vy i :
  guard_two_sided guard -> index_plain index ->
  deposit kx ky guard index n vx vy = Some i -> in_array 1 n i.
Proof.
  intros Hg Hi. unfold deposit.
  destruct (guard (conv kx vx) (conv ky vy) n) eqn:E; [|discriminate].
  intro H. injection H as <-. rewrite Hi. cbn [in_array].
  destruct (Hg _ _ _ E) as [Hxn Hyn]. lia.
Qed.

Lemma in_array_b_spec nb n i : in_array_b nb n i = true <-> in_array nb n i.
Proof.
  destruct i as [[b x] y]. unfold in_array_b, in_array.
  rewrite !andb_true_iff, !Z.leb_le, !Z.ltb_lt. tauto.
Qed.
