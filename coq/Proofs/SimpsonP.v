(** * The weight vector of PhaseSpace::simpsonWeights: what it sums to (any n >= 2) and what it
      integrates exactly (odd n). *)
From Coq Require Import List ZArith Ring Field Lia Bool.
From Inovesa Require Import Base.FieldKit Base.Sums Model.Moments Proofs.MomentsP.
Import ListNotations.

Section Simpson.
  Variable K : Fld.
  Add Field KFsi : (@Fth K).
  Local Open Scope F_scope.

  (** weighted sum of a list against a function of the index, starting at index [s] *)
  Fixpoint wsum (l : list K) (f : Z -> K) (s : Z) : K :=
    match l with [] => 0 | a :: r => a * f s + wsum r f (s + 1) end.

  Lemma getl_cons a l i : (1 <= i)%Z -> getl K (a :: l) i = getl K l (i - 1).
  Proof.
    intros H. unfold getl. destruct (0 <=? i)%Z eqn:E; [|lia]. destruct (0 <=? i - 1)%Z eqn:E2; [|lia].
    replace (Z.to_nat i) with (S (Z.to_nat (i - 1))) by lia. reflexivity.
  Qed.

  Lemma sumZ_getl l f : forall s,
    sumZ s (length l) (fun i => getl K l (i - s) * f i) = wsum l f s.
  Proof.
    induction l as [|a l IH]; intros s; cbn [length sumZ wsum]; [reflexivity|].
    rewrite Z.sub_diag. unfold getl at 1. cbn [Z.leb Z.compare Z.to_nat nth]. f_equal.
    rewrite <- IH. apply sumZ_ext. intros i Hi. rewrite getl_cons by lia. f_equal. f_equal. lia.
  Qed.

  Lemma wsum_app l r f : forall s, wsum (l ++ r) f s = wsum l f s + wsum r f (s + Z.of_nat (length l)).
  Proof.
    induction l as [|a l IH]; intros s; cbn [app wsum length].
    - replace (s + Z.of_nat 0)%Z with s by lia. ring.
    - rewrite IH. replace (s + 1 + Z.of_nat (length l))%Z with (s + Z.of_nat (S (length l)))%Z by lia. ring.
  Qed.

  Lemma mid_length h03 : forall k dc, length (simpson_mid K h03 dc k) = k.
  Proof. induction k as [|k IH]; intros dc; cbn [simpson_mid length]; [reflexivity|]. rewrite IH. reflexivity. Qed.

  Lemma mid_opp_opp h03 dc k : simpson_mid K h03 (- - dc) k = simpson_mid K h03 dc k.
  Proof. f_equal. ring. Qed.

  Lemma mid_SS h03 dc k :
    simpson_mid K h03 dc (S (S k)) = h03 * (three + dc) :: h03 * (three + - dc) :: simpson_mid K h03 dc k.
  Proof. cbn [simpson_mid]. rewrite mid_opp_opp. reflexivity. Qed.

  Definition four : K := two * two.
  Definition six : K := two * three.

  Section Panels.
    Variables (h03 : K) (f : Z -> K).

    Fixpoint panels (p : nat) (s : Z) : K :=
      match p with
      | O => 0
      | S p' => h03 * (f (s - 1)%Z + four * f s + f (s + 1)%Z) + panels p' (s + 2)
      end.

    (** 4,2,4,...,4 between two end weights = a sum of 1,4,1 panels *)
    Lemma mid_panels : forall p s,
      h03 * f (s - 1)%Z + wsum (simpson_mid K h03 1 (S (2 * p))) f s + h03 * f (s + 1 + 2 * Z.of_nat p)%Z
      = panels (S p) s.
    Proof.
      induction p as [|p IH]; intros s.
      - change (2 * 0)%nat with 0%nat. cbn [simpson_mid wsum panels].
        replace (s + 1 + 2 * Z.of_nat 0)%Z with (s + 1)%Z by lia.
        unfold four, three, two. ring.
      - replace (S (2 * S p)) with (S (S (S (2 * p)))) by lia.
        rewrite mid_SS. cbn [wsum].
        change (panels (S (S p)) s) with
          (h03 * (f (s - 1)%Z + four * f s + f (s + 1)%Z) + panels (S p) (s + 2)).
        rewrite <- IH.
        replace (s + 2 - 1)%Z with (s + 1)%Z by lia.
        replace (s + 1 + 1)%Z with (s + 2)%Z by lia.
        replace (s + 2 + 1 + 2 * Z.of_nat p)%Z with (s + 1 + 2 * Z.of_nat (S p))%Z by lia.
        unfold four, three, two. ring.
    Qed.
  End Panels.

  (** ** sum of the weights *)
  Lemma wsum_const l : forall s, wsum l (fun _ => 1) s = fsum l.
  Proof. induction l as [|a l IH]; intros s; cbn [wsum fsum]; [reflexivity|]. rewrite IH. ring. Qed.

  Lemma fsum_app (l r : list K) : fsum (l ++ r) = fsum l + fsum r.
  Proof. induction l as [|a l IH]; cbn [app fsum]; [ring|]. rewrite IH. ring. Qed.

  Lemma fsum_mid_even h03 : forall p dc,
    fsum (simpson_mid K h03 dc (2 * p)) = fz (Z.of_nat p) * (six * h03).
  Proof.
    induction p as [|p IH]; intros dc.
    - change (2 * 0)%nat with 0%nat. cbn [simpson_mid fsum fz Z.of_nat]. ring.
    - replace (2 * S p)%nat with (S (S (2 * p))) by lia. rewrite mid_SS. cbn [fsum].
      rewrite IH, Nat2Z.inj_succ. unfold Z.succ. rewrite fz_add.
      cbn [fz fpos]. unfold six, three, two. ring.
  Qed.

  Lemma ws_sum_list n d0 : (1 <= n)%Z ->
    length (simpson_weights K n d0) = Z.to_nat n.
  Proof.
    intros H. unfold simpson_weights. destruct (n <=? 1)%Z eqn:E.
    - cbn [length]. lia.
    - cbn [length]. rewrite app_length, mid_length. cbn [length]. lia.
  Qed.

  Lemma sumn_ws (g : geom K) (f : Z -> K) : (1 <= gn g)%Z ->
    sumn K (gn g) (fun i => ws K g i * f i) = wsum (simpson_weights K (gn g) (gd0 g)) f 0.
  Proof.
    intros H. unfold sumn. rewrite <- (ws_sum_list (gn g) (gd0 g)) by exact H.
    rewrite <- sumZ_getl. apply sumZ_ext. intros i Hi. unfold ws. rewrite Z.sub_0_r. reflexivity.
  Qed.

  Theorem simpson_weights_sum_even (g : geom K) (p : nat) :
    gn g = (2 * Z.of_nat p + 2)%Z ->
    sumn K (gn g) (ws K g) = gd0 g * fz (gn g - 1) - gd0 g / three.
  Proof.
    intros Hn.
    rewrite (sumn_ext K (gn g) (ws K g) (fun i => ws K g i * (fun _ => 1) i)) by (intros; ring).
    rewrite sumn_ws by lia. rewrite wsum_const. unfold simpson_weights.
    destruct (gn g <=? 1)%Z eqn:E; [lia|].
    replace (Z.to_nat (gn g - 2)) with (2 * p)%nat by lia.
    cbn [fsum]. rewrite fsum_app, fsum_mid_even. cbn [fsum].
    replace (gn g - 1)%Z with (2 * Z.of_nat p + 1)%Z by lia.
    rewrite fz_add, fz_mul. cbn [fz fpos]. unfold six, three, two. field. fld_nz K.
  Qed.

  Theorem simpson_weights_sum_odd (g : geom K) (p : nat) :
    gn g = (2 * Z.of_nat p + 3)%Z ->
    sumn K (gn g) (ws K g) = gd0 g * fz (gn g - 1).
  Proof.
    intros Hn.
    rewrite (sumn_ext K (gn g) (ws K g) (fun i => ws K g i * (fun _ => 1) i)) by (intros; ring).
    rewrite sumn_ws by lia. rewrite wsum_const. unfold simpson_weights.
    destruct (gn g <=? 1)%Z eqn:E; [lia|].
    replace (Z.to_nat (gn g - 2)) with (S (2 * p))%nat by lia.
    cbn [fsum simpson_mid app]. rewrite fsum_app, fsum_mid_even. cbn [fsum].
    replace (gn g - 1)%Z with (2 * Z.of_nat p + 2)%Z by lia.
    rewrite fz_add, fz_mul. cbn [fz fpos]. unfold six, three, two. field. fld_nz K.
  Qed.

  (** ** exactness for cubics on an odd number of points *)
  Section Cubic.
    Variables (c0 c1 c2 c3 : K).
    Definition cubic (x : K) : K := c0 + c1 * x + c2 * (x * x) + c3 * (x * x * x).
    (** an antiderivative *)
    Definition cubic_int (x : K) : K :=
      c0 * x + c1 * (x * x) / two + c2 * (x * x * x) / three + c3 * (x * x * x * x) / four.

    Variables (a h : K).
    Let q (i : Z) : K := a + fz i * h.

    Lemma panel_exact s :
      (h / three) * (cubic (q (s - 1)) + four * cubic (q s) + cubic (q (s + 1)))
      = cubic_int (q (s + 1)) - cubic_int (q (s - 1)).
    Proof.
      unfold q. rewrite fz_add, fz_sub. cbn [fz fpos]. unfold cubic, cubic_int, four, three, two.
      field. fld_nz K.
    Qed.

    Lemma panels_telescope : forall p s,
      panels (h / three) (fun i => cubic (q i)) p s
      = cubic_int (q (s - 1 + 2 * Z.of_nat p)) - cubic_int (q (s - 1)).
    Proof.
      induction p as [|p IH]; intros s.
      - cbn [panels]. replace (s - 1 + 2 * Z.of_nat 0)%Z with (s - 1)%Z by lia. ring.
      - cbn [panels]. rewrite IH, panel_exact.
        replace (s + 2 - 1)%Z with (s + 1)%Z by lia.
        replace (s + 1 + 2 * Z.of_nat p)%Z with (s - 1 + 2 * Z.of_nat (S p))%Z by lia. ring.
    Qed.
  End Cubic.

  Theorem simpson_exact_deg3 (g : geom K) (p : nat) (c0 c1 c2 c3 : K) :
    gn g = (2 * Z.of_nat p + 3)%Z ->
    sumn K (gn g) (fun i => ws K g i * cubic c0 c1 c2 c3 (gqp K g 0 i))
    = cubic_int c0 c1 c2 c3 (gqp K g 0 (gn g - 1)) - cubic_int c0 c1 c2 c3 (gqp K g 0 0).
  Proof.
    intros Hn. set (f := fun i => cubic c0 c1 c2 c3 (gqp K g 0 i)).
    change (sumn K (gn g) (fun i => ws K g i * f i) =
            cubic_int c0 c1 c2 c3 (gqp K g 0 (gn g - 1)) - cubic_int c0 c1 c2 c3 (gqp K g 0 0)).
    rewrite (sumn_ws g f) by lia.
    unfold simpson_weights. destruct (gn g <=? 1)%Z eqn:E; [lia|].
    replace (Z.to_nat (gn g - 2)) with (S (2 * p))%nat by lia.
    cbn [wsum]. rewrite wsum_app, mid_length. cbn [wsum].
    assert (E1 : gd0 g / three * f 0%Z + (wsum (simpson_mid K (gd0 g / three) 1 (S (2 * p))) f (0 + 1) +
                 (gd0 g / three * f (0 + 1 + Z.of_nat (S (2 * p)))%Z + 0))
                 = panels (gd0 g / three) f (S p) 1).
    { rewrite <- mid_panels. replace (1 - 1)%Z with 0%Z by lia.
      replace (0 + 1)%Z with 1%Z by lia.
      replace (1 + Z.of_nat (S (2 * p)))%Z with (1 + 1 + 2 * Z.of_nat p)%Z by lia. ring. }
    rewrite E1. unfold f, gqp. cbn [Z.eqb].
    rewrite (panels_telescope c0 c1 c2 c3 (gmin0 g) (gd0 g) (S p) 1).
    replace (1 - 1 + 2 * Z.of_nat (S p))%Z with (gn g - 1)%Z by lia.
    replace (1 - 1)%Z with 0%Z by lia. reflexivity.
  Qed.
End Simpson.
