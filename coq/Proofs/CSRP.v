(** * Sign statements of C07 over an ordered field: passive impedance => spectrum, power and wake
    loss are non-negative; a cutoff factor in [0,1] makes the power smaller.
    The order is abstract ([nn x] reads "0 <= x"); instances for Qc and R at the end. *)
From Coq Require Import List ZArith Ring Field Lia Bool QArith Qcanon Reals Lra.
From Inovesa Require Import Base.FieldKit Base.Sums Base.RInst Model.DFT Proofs.DFTP.
Import ListNotations.

Section Ordered.
  Variable K : Fld.
  Add Field KFo : (@Fth K).
  Local Open Scope F_scope.
  Variable nn : K -> Prop.
  Hypothesis nn_0 : nn 0.
  Hypothesis nn_1 : nn 1.
  Hypothesis nn_add : forall a b, nn a -> nn b -> nn (a + b).
  Hypothesis nn_mul : forall a b, nn a -> nn b -> nn (a * b).
  Hypothesis nn_sq : forall a, nn (a * a).

  Variable N : Z.
  Variables cs sn : Z -> K.

  Lemma nn_sum lo len (g : Z -> K) :
    (forall i, (lo <= i < lo + Z.of_nat len)%Z -> nn (g i)) -> nn (sumZ lo len g).
  Proof.
    revert lo; induction len as [|k IH]; intros lo H; cbn [sumZ]; [exact nn_0|].
    apply nn_add; [apply H; lia|]. apply IH. intros i Hi. apply H. lia.
  Qed.

  Lemma nn_cnorm (z : cplx K) : nn (cnorm z).
  Proof. unfold cnorm. apply nn_add; apply nn_sq. Qed.

  Definition cut_nn (cut : option (Z -> K)) : Prop :=
    match cut with None => True | Some g => forall i, nn (g i) end.

  Lemma nn_renorm dq2 cut i : nn dq2 -> cut_nn cut -> nn (csr_renorm dq2 cut i).
  Proof. intros Hd Hc. destruct cut as [g|]; cbn [csr_renorm]; [apply nn_mul; [exact Hd|apply Hc]|exact Hd]. Qed.

  Theorem csr_spectrum_nonneg dq2 cut (Zi : Z -> cplx K) p i :
    nn dq2 -> cut_nn cut -> nn (fst (Zi i)) -> nn (csr_spectrum N cs sn dq2 cut Zi p i).
  Proof.
    intros Hd Hc Hz. unfold csr_spectrum. apply nn_mul; [apply nn_mul; [apply nn_renorm; assumption|exact Hz]|apply nn_cnorm].
  Qed.

  Theorem csr_power_nonneg df dq2 cut (Zi : Z -> cplx K) p :
    nn df -> nn dq2 -> cut_nn cut -> (forall i, (0 <= i < N)%Z -> nn (fst (Zi i))) ->
    nn (csr_power N cs sn df dq2 cut Zi p).
  Proof.
    intros Hf Hd Hc Hz. unfold csr_power. apply nn_sum. intros i Hi.
    apply nn_mul; [exact Hf|]. apply csr_spectrum_nonneg; try assumption. apply Hz. unfold nN in Hi. lia.
  Qed.

  (** with a cutoff factor g_i in [0,1] the power does not exceed the power without cutoff *)
  Theorem csr_cutoff_smaller df dq2 (g : Z -> K) (Zi : Z -> cplx K) p :
    nn df -> nn dq2 -> (forall i, nn (g i)) -> (forall i, nn (1 - g i)) ->
    (forall i, (0 <= i < N)%Z -> nn (fst (Zi i))) ->
    nn (csr_power N cs sn df dq2 (Some g) Zi p)
    /\ nn (csr_power N cs sn df dq2 None Zi p - csr_power N cs sn df dq2 (Some g) Zi p).
  Proof.
    intros Hf Hd Hg Hg1 Hz. split; [apply csr_power_nonneg; try assumption|].
    unfold csr_power.
    replace (sumZ 0 (nN N) (fun i => df * csr_spectrum N cs sn dq2 None Zi p i)
             - sumZ 0 (nN N) (fun i => df * csr_spectrum N cs sn dq2 (Some g) Zi p i))
      with (sumZ 0 (nN N) (fun i => df * (dq2 * (1 - g i) * fst (Zi i) * cnorm (formfactor N cs sn p i)))).
    - apply nn_sum. intros i Hi. apply nn_mul; [exact Hf|].
      apply nn_mul; [apply nn_mul; [apply nn_mul; [exact Hd|apply Hg1]|apply Hz; unfold nN in Hi; lia]|apply nn_cnorm].
    - rewrite (sumZ_ext K _ _ _ (fun i => df * csr_spectrum N cs sn dq2 None Zi p i
                                       + (- (1)) * (df * csr_spectrum N cs sn dq2 (Some g) Zi p i))).
      + rewrite sumZ_add, (sumZ_scale K _ _ _ (- (1))). ring.
      + intros i _. unfold csr_spectrum. cbn [csr_renorm]. ring.
  Qed.

  (** the wake loss of a passive impedance is non-negative (through Parseval) *)
  Theorem wake_loss_nonneg (Zi stale : Z -> cplx K) (p : Z -> K) :
    (2 <= N)%Z -> cs 0%Z = 1 -> sn 0%Z = 0 ->
    (forall a b, cs (a + b)%Z = cs a * cs b - sn a * sn b) ->
    (forall a b, sn (a + b)%Z = sn a * cs b + cs a * sn b) ->
    (forall a, cs (- a)%Z = cs a) -> (forall a, sn (- a)%Z = - sn a) ->
    stale (N / 2)%Z = czero ->
    (forall i, (0 <= i < N / 2)%Z -> nn (fst (Zi i))) ->
    nn (wake_loss K N cs sn Zi stale p).
  Proof.
    intros N2 c0 s0 ca sa cn sn' Hst Hz.
    rewrite (parseval_wake2 K N cs sn N2 c0 s0 ca sa cn sn' Zi stale p Hst).
    apply nn_add.
    - apply nn_mul; [apply Hz; Z.div_mod_to_equations; lia|apply nn_cnorm].
    - apply nn_mul; [unfold two; apply nn_add; exact nn_1|].
      apply nn_sum. intros k Hk. apply nn_mul; [apply Hz; lia|apply nn_cnorm].
  Qed.
End Ordered.

(** ** instances of the order *)
Definition nnQc (q : Qc) : Prop := (0 <= q)%Qc.
Lemma nnQc_0 : nnQc 0%Qc. Proof. unfold nnQc. apply Qcle_refl. Qed.
Lemma nnQc_1 : nnQc 1%Qc. Proof. unfold nnQc, Qcle. cbn. discriminate. Qed.
Lemma nnQc_add a b : nnQc a -> nnQc b -> nnQc (a + b)%Qc.
Proof. unfold nnQc. intros Ha Hb. replace 0%Qc with (0 + 0)%Qc by ring. apply Qcplus_le_compat; assumption. Qed.
Lemma nnQc_mul a b : nnQc a -> nnQc b -> nnQc (a * b)%Qc.
Proof.
  unfold nnQc. intros Ha Hb. replace 0%Qc with (0 * b)%Qc by ring.
  apply Qcmult_le_compat_r; assumption.
Qed.
Lemma nnQc_sq a : nnQc (a * a)%Qc.
Proof.
  destruct (Qclt_le_dec a 0) as [H|H].
  2:{ apply nnQc_mul; exact H. }
  - replace (a * a)%Qc with ((- a) * (- a))%Qc by ring.
    assert (0 <= - a)%Qc.
    { apply Qclt_le_weak in H. apply Qcopp_le_compat in H. replace (- 0)%Qc with 0%Qc in H by ring. exact H. }
    apply nnQc_mul; assumption.
Qed.

Definition nnR (r : R) : Prop := (0 <= r)%R.
Lemma nnR_0 : nnR 0%R. Proof. unfold nnR. lra. Qed.
Lemma nnR_1 : nnR 1%R. Proof. unfold nnR. lra. Qed.
Lemma nnR_add a b : nnR a -> nnR b -> nnR (a + b)%R. Proof. unfold nnR. lra. Qed.
Lemma nnR_mul a b : nnR a -> nnR b -> nnR (a * b)%R. Proof. unfold nnR. intros. apply Rmult_le_pos; assumption. Qed.
Lemma nnR_sq a : nnR (a * a)%R. Proof. unfold nnR. nra. Qed.

(** the cutoff factor of updateCSR, 1 - exp(-x^2), lies in [0,1) *)
Lemma cutoff_factor_range (x : R) : (0 <= 1 - exp (- (x * x)) < 1)%R.
Proof.
  pose proof (exp_pos (- (x * x))) as Hp.
  assert (H : (exp (- (x * x)) <= 1)%R).
  { rewrite <- exp_0. destruct (Req_dec (x * x) 0) as [E|E].
    - rewrite E, Ropp_0. lra.
    - left. apply exp_increasing. nra. }
  lra.
Qed.
