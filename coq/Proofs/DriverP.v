(** Lemmas about the driver model (Model/Driver.v), for every kernel record [K].
    Part A: observers, cadence independence, common records (C12).
    Part B: interrupts (C14). *)
From Coq Require Import List ZArith Bool Lia.
From Inovesa Require Import Model.Driver.
Import ListNotations.
Local Open Scope Z_scope.

(** * Checkers (boolean, run on the generated program by vm_compute) *)

(** calls that, with the cache invariant at entry and no signal, leave [dyn] unchanged *)
Definition observer (c : call) : bool :=
  match c with
  | Integrate | Variance _ | UpdateYProj | UpdateCSR | Append _ | IncOutNr | Print _ | Point _ => true
  | _ => false
  end.

Fixpoint obs_blk (b : blk) : bool :=
  match b with
  | Done => true
  | Seq c r => observer c && obs_blk r
  | Cond _ t e r => obs_blk t && obs_blk e && obs_blk r
  end.

(** guards that read the output schedule (what two runs under comparison may differ in) *)
Definition cadence_guard (g : guard) : bool :=
  match g with GOut | GSave0 => true | _ => false end.

(** effect of a call on the invariant [fl = integ xp]: establishes / destroys / preserves *)
Definition inv_eff (c : call) : option bool :=
  match c with
  | Integrate | IntegrateAndNormalize => Some true
  | UpdateXProj => Some false
  | _ => None
  end.

(** tracks whether [fl = integ xp] is known; every cadence-guarded block must be a pure
    observer block entered with the invariant known *)
Fixpoint chk (inv : bool) (b : blk) : option bool :=
  match b with
  | Done => Some inv
  | Seq c r => chk (match inv_eff c with Some b' => b' | None => inv end) r
  | Cond g t e r =>
      if cadence_guard g then
        if obs_blk t && obs_blk e && inv then chk true r else None
      else match chk inv t, chk inv e with
           | Some a, Some b' => chk (a && b') r
           | _, _ => None
           end
  end.

Definition is_some {A} (o : option A) : bool := match o with Some _ => true | None => false end.

(** the per-run obligation of C12.1/C12.3 *)
Definition cadence_checker (p : prog) : bool :=
  is_some (chk false (p_pre p)) && is_some (chk false (p_body p)) && is_some (chk false (p_post p)).

(** IntegrateAndNormalize only in the then-branch of a GRenorm conditional (C12.2) *)
Fixpoint no_renorm (b : blk) : bool :=
  match b with
  | Done => true
  | Seq IntegrateAndNormalize _ => false
  | Seq _ r => no_renorm r
  | Cond _ t e r => no_renorm t && no_renorm e && no_renorm r
  end.
Fixpoint renorm_guarded (b : blk) : bool :=
  match b with
  | Done => true
  | Seq IntegrateAndNormalize _ => false
  | Seq _ r => renorm_guarded r
  | Cond GRenorm (Seq IntegrateAndNormalize t) e r => no_renorm t && no_renorm e && renorm_guarded r
  | Cond _ t e r => renorm_guarded t && renorm_guarded e && renorm_guarded r
  end.
Definition renorm_checker (p : prog) : bool :=
  renorm_guarded (p_pre p) && renorm_guarded (p_body p) && renorm_guarded (p_post p).

(** the output block: then-branch of the first top-level conditional on GOut *)
Fixpoint out_block_of (b : blk) : option blk :=
  match b with
  | Done => None
  | Seq _ r => out_block_of r
  | Cond GOut t _ _ => Some t
  | Cond _ _ _ r => out_block_of r
  end.

(** configurations that agree on everything but the output schedule *)
Definition shared (c1 c2 : cfg) : Prop :=
  laststep c1 = laststep c2 /\ renorm c1 = renorm c2 /\ hdf c1 = hdf c2 /\ wake c1 = wake c2 /\ dynrf c1 = dynrf c2.

Section A.
  Variable K : kern.
  Notation st := (st K).

  (** [dynx t]: the dynamic part, plus the tracked particles and their PRNG when [t] *)
  Definition dynx (t : bool) (s : st) :=
    (dyn s, if t then Some (tr s, rng s) else None).

  Lemma dynx_dyn t (s1 s2 : st) : dynx t s1 = dynx t s2 -> dyn s1 = dyn s2.
  Proof. unfold dynx. intro H. apply (f_equal fst) in H. exact H. Qed.

  Lemma observer_ok c cf (s : st) t :
    observer c = true -> Inv s -> dynx t (exec nosig cf c s) = dynx t s.
  Proof.
    unfold Inv. intros Ho Hi. destruct c; try discriminate Ho; try (destruct s; cbn in *; try rewrite orb_false_r; reflexivity).
    - cbn. rewrite <- Hi. destruct s; reflexivity.
    - destruct ax; destruct s; reflexivity.
    - destruct a; destruct s; reflexivity.
  Qed.

  Lemma Inv_dyn (s1 s2 : st) : dyn s1 = dyn s2 -> Inv s1 -> Inv s2.
  Proof. unfold Inv, dyn. intros H. inversion H. congruence. Qed.

  Lemma obs_blk_ok cf t b : forall (s : st),
    obs_blk b = true -> Inv s -> dynx t (exec_blk nosig cf b s) = dynx t s.
  Proof.
    induction b as [|c r IH|g tb IHt e IHe r IHr]; intros s Ho Hi; cbn in *.
    - reflexivity.
    - apply andb_true_iff in Ho. destruct Ho as [Hc Hr].
      pose proof (observer_ok c cf s t Hc Hi) as H1.
      rewrite IH; auto. apply Inv_dyn with s; auto. symmetry. eapply dynx_dyn; eauto.
    - apply andb_true_iff in Ho. destruct Ho as [Ho Hr]. apply andb_true_iff in Ho. destruct Ho as [Ht He].
      destruct (gval cf s g).
      + rewrite IHr; auto. apply Inv_dyn with s; auto. symmetry. eapply dynx_dyn. apply IHt; auto.
      + rewrite IHr; auto. apply Inv_dyn with s; auto. symmetry. eapply dynx_dyn. apply IHe; auto.
  Qed.

  Lemma obs_blk_inv cf b (s : st) : obs_blk b = true -> Inv s -> Inv (exec_blk nosig cf b s).
  Proof.
    intros Ho Hi. apply Inv_dyn with s; auto. symmetry. eapply dynx_dyn with (t := false). apply obs_blk_ok; auto.
  Qed.

  Lemma inv_eff_ok c cf (s : st) :
    match inv_eff c with
    | Some true => Inv (exec nosig cf c s)
    | Some false => True
    | None => Inv s -> Inv (exec nosig cf c s)
    end.
  Proof.
    unfold Inv. destruct c; cbn; auto; try (destruct s; cbn; auto; fail).
    - destruct ax; destruct s; cbn; auto.
    - destruct a; destruct s; cbn; auto.
    - destruct m; destruct s; cbn; auto. destruct (dynrf cf); cbn; auto.
  Qed.

  (** every call's effect on the dynamic part depends on the dynamic part only *)
  Lemma dyn_closed c c1 c2 t (s1 s2 : st) :
    shared c1 c2 -> dynx t s1 = dynx t s2 -> dynx t (exec nosig c1 c s1) = dynx t (exec nosig c2 c s2).
  Proof.
    intros (Hl & Hr & Hh & Hw & Hd) H. unfold dynx, dyn in *. destruct s1, s2. cbn in H.
    destruct t; inversion H; subst; clear H;
      (destruct c as [| | |ax| | | | |a|m|m| | |m| |l]; cbn; try reflexivity;
       try (destruct ax; reflexivity); try (destruct a; reflexivity);
       try (destruct m; cbn; rewrite ?Hw, ?Hd; try destruct (dynrf c2); reflexivity)).
  Qed.

  Lemma gval_eq g c1 c2 (s1 s2 : st) :
    shared c1 c2 -> dyn s1 = dyn s2 -> cadence_guard g = false -> gval c1 s1 g = gval c2 s2 g.
  Proof.
    intros (Hl & Hr & Hh & Hw & Hd) H Hg. unfold dyn in H. inversion H.
    destruct g; cbn in *; try discriminate; congruence.
  Qed.

  Definition Inv2 (inv : bool) (s1 s2 : st) : Prop := inv = true -> Inv s1 /\ Inv s2.

  Lemma chk_sound c1 c2 t b : shared c1 c2 -> forall inv inv' (s1 s2 : st),
    chk inv b = Some inv' -> dynx t s1 = dynx t s2 -> Inv2 inv s1 s2 ->
    dynx t (exec_blk nosig c1 b s1) = dynx t (exec_blk nosig c2 b s2)
    /\ Inv2 inv' (exec_blk nosig c1 b s1) (exec_blk nosig c2 b s2).
  Proof.
    intros Hs. induction b as [|c r IH|g tb IHt e IHe r IHr]; intros inv inv' s1 s2 Hc Hd Hi; cbn in *.
    - inversion Hc; subst. auto.
    - eapply IH; eauto.
      + apply dyn_closed; auto.
      + pose proof (inv_eff_ok c c1 s1) as E1. pose proof (inv_eff_ok c c2 s2) as E2.
        unfold Inv2 in *. destruct (inv_eff c) as [[|]|]; intros Ht; try discriminate; auto.
        destruct (Hi Ht). auto.
    - destruct (cadence_guard g) eqn:Hg.
      + destruct (obs_blk tb) eqn:Ht; [|discriminate]. destruct (obs_blk e) eqn:He; [|discriminate].
        destruct inv; [|discriminate]. cbn in Hc. destruct (Hi eq_refl) as [I1 I2].
        eapply IHr; eauto.
        * transitivity (dynx t s1); [|transitivity (dynx t s2); auto].
          -- destruct (gval c1 s1 g); apply obs_blk_ok; auto.
          -- symmetry. destruct (gval c2 s2 g); apply obs_blk_ok; auto.
        * intros _. split.
          -- destruct (gval c1 s1 g); apply obs_blk_inv; auto.
          -- destruct (gval c2 s2 g); apply obs_blk_inv; auto.
      + destruct (chk inv tb) as [a|] eqn:Ht; [|discriminate]. destruct (chk inv e) as [b'|] eqn:He; [|discriminate].
        rewrite (gval_eq g c1 c2 s1 s2 Hs (dynx_dyn t _ _ Hd) Hg).
        destruct (gval c2 s2 g).
        * destruct (IHt _ _ _ _ Ht Hd Hi) as [D I]. eapply IHr; eauto.
          intros Hab. apply andb_true_iff in Hab. apply I. tauto.
        * destruct (IHe _ _ _ _ He Hd Hi) as [D I]. eapply IHr; eauto.
          intros Hab. apply andb_true_iff in Hab. apply I. tauto.
  Qed.

  Lemma cont_eq c1 c2 (s1 s2 : st) : shared c1 c2 -> dyn s1 = dyn s2 -> cont c1 s1 = cont c2 s2.
  Proof. intros (Hl & _) H. unfold dyn in H. inversion H. unfold cont. congruence. Qed.

  Lemma loop_sound c1 c2 t body ib : shared c1 c2 -> chk false body = Some ib ->
    forall n (s1 s2 : st), dynx t s1 = dynx t s2 ->
      dynx t (loop nosig c1 body n s1) = dynx t (loop nosig c2 body n s2).
  Proof.
    intros Hs Hb. induction n; intros s1 s2 Hd; cbn; auto.
    rewrite (cont_eq c1 c2 s1 s2 Hs (dynx_dyn t _ _ Hd)). destruct (cont c2 s2); auto.
    apply IHn. eapply chk_sound; eauto. intros X; discriminate.
  Qed.

  Lemma iter_sound c1 c2 t body ib : shared c1 c2 -> chk false body = Some ib ->
    forall n (s1 s2 : st), dynx t s1 = dynx t s2 ->
      dynx t (iter nosig c1 body n s1) = dynx t (iter nosig c2 body n s2).
  Proof.
    intros Hs Hb. induction n; intros s1 s2 Hd; cbn; auto.
    apply IHn. eapply chk_sound; eauto. intros X; discriminate.
  Qed.

  Lemma is_some_inv {A} (o : option A) : is_some o = true -> exists a, o = Some a.
  Proof. destruct o; cbn; intros; try discriminate; eauto. Qed.

  (** C12.3: whatever the output schedule, the dynamic part after the prologue and any number of
      loop iterations is the same (and so is the whole run's); with [t = true] also the tracked
      particles, provided both runs track the same ones *)
  Theorem cadence_independence_loop p c1 c2 t : cadence_checker p = true -> shared c1 c2 ->
    forall (s1 s2 : st), dynx t s1 = dynx t s2 -> forall n,
      dynx t (loop nosig c1 (p_body p) n (exec_blk nosig c1 (p_pre p) s1)) =
      dynx t (loop nosig c2 (p_body p) n (exec_blk nosig c2 (p_pre p) s2)).
  Proof.
    unfold cadence_checker. intros Hc Hs s1 s2 Hd n.
    apply andb_true_iff in Hc. destruct Hc as [Hc Hpost]. apply andb_true_iff in Hc. destruct Hc as [Hpre Hbody].
    destruct (is_some_inv _ Hpre) as [i0 E0]. destruct (is_some_inv _ Hbody) as [ib Eb].
    eapply loop_sound; eauto. eapply chk_sound; eauto. intros X; discriminate.
  Qed.

  Theorem cadence_independence_iter p c1 c2 t : cadence_checker p = true -> shared c1 c2 ->
    forall (s1 s2 : st), dynx t s1 = dynx t s2 -> forall n,
      dynx t (iter nosig c1 (p_body p) n (exec_blk nosig c1 (p_pre p) s1)) =
      dynx t (iter nosig c2 (p_body p) n (exec_blk nosig c2 (p_pre p) s2)).
  Proof.
    unfold cadence_checker. intros Hc Hs s1 s2 Hd n.
    apply andb_true_iff in Hc. destruct Hc as [Hc Hpost]. apply andb_true_iff in Hc. destruct Hc as [Hpre Hbody].
    destruct (is_some_inv _ Hpre) as [i0 E0]. destruct (is_some_inv _ Hbody) as [ib Eb].
    eapply iter_sound; eauto. eapply chk_sound; eauto. intros X; discriminate.
  Qed.

  Theorem cadence_independence_run p c1 c2 t : cadence_checker p = true -> shared c1 c2 ->
    forall (s1 s2 : st), dynx t s1 = dynx t s2 ->
      dynx t (run nosig c1 p s1) = dynx t (run nosig c2 p s2).
  Proof.
    intros Hc Hs s1 s2 Hd. unfold run.
    pose proof (cadence_independence_loop p c1 c2 t Hc Hs s1 s2 Hd) as HL.
    unfold cadence_checker in Hc.
    apply andb_true_iff in Hc. destruct Hc as [Hc Hpost]. destruct (is_some_inv _ Hpost) as [ip Ep].
    destruct Hs as (Hl & Hs'). rewrite Hl at 1.
    eapply chk_sound; eauto. unfold shared; tauto. intros X; discriminate.
  Qed.

  (** C12.1 *)
  Theorem out_block_observer ob cf (s : st) :
    obs_blk ob = true -> Inv s -> dyn (exec_blk nosig cf ob s) = dyn s /\ Inv (exec_blk nosig cf ob s).
  Proof.
    intros Ho Hi. split.
    - eapply dynx_dyn with (t := false). apply obs_blk_ok; auto.
    - apply obs_blk_inv; auto.
  Qed.

  (** C12.2 *)
  Lemma renorm_guard_step_only c1 c2 (s1 s2 : st) :
    renorm c1 = renorm c2 -> k s1 = k s2 -> gval c1 s1 GRenorm = gval c2 s2 GRenorm.
  Proof. intros H1 H2. cbn. rewrite H1, H2. reflexivity. Qed.

  (** C12.4 *)
  Lemma track_passive cf m sig (s : st) : dyn (exec sig cf (Track m) s) = dyn s.
  Proof. destruct s; reflexivity. Qed.
End A.
