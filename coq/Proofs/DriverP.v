(** Lemmas about the driver model (Model/Driver.v), for every kernel record [K].
    Part A: observers, cadence independence, common records (C12).
    Part B: interrupts (C14). *)
From Coq Require Import List ZArith Bool Lia.
From Inovesa Require Import Model.Driver.
Import ListNotations.
Local Open Scope Z_scope.

(** * Checkers (boolean, run on the generated program by vm_compute) *)

(** calls that, with the cache invariant at entry and no signal, leave [dyn] unchanged *)
Definition observer (c : call) : bool :=
  match c with
  | Integrate | Variance _ | UpdateYProj | UpdateCSR | Append _ | IncOutNr | Print _ | Point _ => true
  | _ => false
  end.

Fixpoint obs_blk (b : blk) : bool :=
  match b with
  | Done => true
  | Seq c r => observer c && obs_blk r
  | Cond _ t e r => obs_blk t && obs_blk e && obs_blk r
  end.

(** guards that read the output schedule (what two runs under comparison may differ in) *)
Definition cadence_guard (g : guard) : bool :=
  match g with GOut | GSave0 => true | _ => false end.

(** effect of a call on the invariant [fl = integ xp]: establishes / destroys / preserves *)
Definition inv_eff (c : call) : option bool :=
  match c with
  | Integrate | IntegrateAndNormalize => Some true
  | UpdateXProj => Some false
  | _ => None
  end.

(** tracks whether [fl = integ xp] is known; every cadence-guarded block must be a pure
    observer block entered with the invariant known *)
Fixpoint chk (inv : bool) (b : blk) : option bool :=
  match b with
  | Done => Some inv
  | Seq c r => chk (match inv_eff c with Some b' => b' | None => inv end) r
  | Cond g t e r =>
      if cadence_guard g then
        if obs_blk t && obs_blk e && inv then chk true r else None
      else match chk inv t, chk inv e with
           | Some a, Some b' => chk (a && b') r
           | _, _ => None
           end
  end.

Definition is_some {A} (o : option A) : bool := match o with Some _ => true | None => false end.

(** the per-run obligation of C12.1/C12.3 *)
Definition cadence_checker (p : prog) : bool :=
  is_some (chk false (p_pre p)) && is_some (chk false (p_body p)) && is_some (chk false (p_post p)).

(** IntegrateAndNormalize only in the then-branch of a GRenorm conditional (C12.2) *)
Fixpoint no_renorm (b : blk) : bool :=
  match b with
  | Done => true
  | Seq IntegrateAndNormalize _ => false
  | Seq _ r => no_renorm r
  | Cond _ t e r => no_renorm t && no_renorm e && no_renorm r
  end.
Fixpoint renorm_guarded (b : blk) : bool :=
  match b with
  | Done => true
  | Seq IntegrateAndNormalize _ => false
  | Seq _ r => renorm_guarded r
  | Cond GRenorm (Seq IntegrateAndNormalize t) e r => no_renorm t && no_renorm e && renorm_guarded r
  | Cond _ t e r => renorm_guarded t && renorm_guarded e && renorm_guarded r
  end.
Definition renorm_checker (p : prog) : bool :=
  renorm_guarded (p_pre p) && renorm_guarded (p_body p) && renorm_guarded (p_post p).

(** the output block: then-branch of the first top-level conditional on GOut *)
Fixpoint out_block_of (b : blk) : option blk :=
  match b with
  | Done => None
  | Seq _ r => out_block_of r
  | Cond GOut t _ _ => Some t
  | Cond _ _ _ r => out_block_of r
  end.

(** configurations that agree on everything but the output schedule *)
Definition shared (c1 c2 : cfg) : Prop :=
  laststep c1 = laststep c2 /\ renorm c1 = renorm c2 /\ hdf c1 = hdf c2 /\ wake c1 = wake c2 /\ dynrf c1 = dynrf c2.

Section A.
  Variable K : kern.
  Notation st := (st K).

  (** [dynx t]: the dynamic part, plus the tracked particles and their PRNG when [t] *)
  Definition dynx (t : bool) (s : st) :=
    (dyn s, if t then Some (tr s, rng s) else None).

  Lemma dynx_dyn t (s1 s2 : st) : dynx t s1 = dynx t s2 -> dyn s1 = dyn s2.
  Proof. unfold dynx. intro H. apply (f_equal fst) in H. exact H. Qed.

  Lemma observer_ok c cf (s : st) t :
    observer c = true -> Inv s -> dynx t (exec nosig cf c s) = dynx t s.
  Proof.
    unfold Inv. intros Ho Hi. destruct c; try discriminate Ho; try (destruct s; cbn in *; try rewrite orb_false_r; reflexivity).
    - unfold exec. cbn [exec1]. rewrite <- Hi. destruct s; reflexivity.
    - destruct ax; destruct s; reflexivity.
    - destruct a; destruct s; reflexivity.
    - destruct s; unfold dynx, dyn, nosig; cbn. rewrite orb_false_r. reflexivity.
  Qed.

  Lemma Inv_dyn (s1 s2 : st) : dyn s1 = dyn s2 -> Inv s1 -> Inv s2.
  Proof. unfold Inv, dyn. intros H. inversion H. congruence. Qed.

  Lemma obs_blk_ok cf t b : forall (s : st),
    obs_blk b = true -> Inv s -> dynx t (exec_blk nosig cf b s) = dynx t s.
  Proof.
    induction b as [|c r IH|g tb IHt e IHe r IHr]; intros s Ho Hi; cbn in *.
    - reflexivity.
    - apply andb_true_iff in Ho. destruct Ho as [Hc Hr].
      pose proof (observer_ok c cf s t Hc Hi) as H1.
      rewrite IH; auto. apply Inv_dyn with s; auto. symmetry. eapply dynx_dyn; eauto.
    - apply andb_true_iff in Ho. destruct Ho as [Ho Hr]. apply andb_true_iff in Ho. destruct Ho as [Ht He].
      destruct (gval cf s g).
      + rewrite IHr; auto. apply Inv_dyn with s; auto. symmetry. eapply dynx_dyn. apply IHt; auto.
      + rewrite IHr; auto. apply Inv_dyn with s; auto. symmetry. eapply dynx_dyn. apply IHe; auto.
  Qed.

  Lemma obs_blk_inv cf b (s : st) : obs_blk b = true -> Inv s -> Inv (exec_blk nosig cf b s).
  Proof.
    intros Ho Hi. apply Inv_dyn with s; auto. symmetry. eapply dynx_dyn with (t := false). apply obs_blk_ok; auto.
  Qed.

  Lemma inv_eff_ok c cf (s : st) :
    match inv_eff c with
    | Some true => Inv (exec nosig cf c s)
    | Some false => True
    | None => Inv s -> Inv (exec nosig cf c s)
    end.
  Proof.
    unfold Inv. destruct c; cbn; auto; try (destruct s; cbn; auto; fail).
    - destruct ax; destruct s; cbn; auto.
    - destruct a; destruct s; cbn; auto.
    - destruct m; destruct s; unfold exec; cbn; auto. destruct (dynrf cf); cbn; auto.
  Qed.

  (** every call's effect on the dynamic part depends on the dynamic part only *)
  Lemma dyn_closed c c1 c2 t (s1 s2 : st) :
    shared c1 c2 -> dynx t s1 = dynx t s2 -> dynx t (exec nosig c1 c s1) = dynx t (exec nosig c2 c s2).
  Proof.
    intros (Hl & Hr & Hh & Hw & Hd) H. unfold dynx, dyn in *. destruct s1, s2. cbn in H.
    destruct t; inversion H; subst; clear H;
      (destruct c as [| | |ax| | | | |a|m|m| | |m| |l| |o]; cbn; try reflexivity;
       try (destruct ax; reflexivity); try (destruct a; reflexivity);
       try (destruct m; unfold exec; cbn; rewrite ?Hw, ?Hd; try destruct (dynrf c2); reflexivity)).
  Qed.

  Lemma gval_eq g c1 c2 (s1 s2 : st) :
    shared c1 c2 -> dyn s1 = dyn s2 -> cadence_guard g = false -> gval c1 s1 g = gval c2 s2 g.
  Proof.
    intros (Hl & Hr & Hh & Hw & Hd) H Hg. unfold dyn in H. inversion H.
    destruct g; cbn in *; try discriminate; congruence.
  Qed.

  Definition Inv2 (inv : bool) (s1 s2 : st) : Prop := inv = true -> Inv s1 /\ Inv s2.

  Lemma chk_sound c1 c2 t b : shared c1 c2 -> forall inv inv' (s1 s2 : st),
    chk inv b = Some inv' -> dynx t s1 = dynx t s2 -> Inv2 inv s1 s2 ->
    dynx t (exec_blk nosig c1 b s1) = dynx t (exec_blk nosig c2 b s2)
    /\ Inv2 inv' (exec_blk nosig c1 b s1) (exec_blk nosig c2 b s2).
  Proof.
    intros Hs. induction b as [|c r IH|g tb IHt e IHe r IHr]; intros inv inv' s1 s2 Hc Hd Hi; cbn in *.
    - inversion Hc; subst. auto.
    - eapply IH; eauto.
      + apply dyn_closed; auto.
      + pose proof (inv_eff_ok c c1 s1) as E1. pose proof (inv_eff_ok c c2 s2) as E2.
        unfold Inv2 in *. destruct (inv_eff c) as [[|]|]; intros Ht; try discriminate; auto.
        destruct (Hi Ht). auto.
    - destruct (cadence_guard g) eqn:Hg.
      + destruct (obs_blk tb) eqn:Ht; [|discriminate]. destruct (obs_blk e) eqn:He; [|discriminate].
        destruct inv; [|discriminate]. cbn in Hc. destruct (Hi eq_refl) as [I1 I2].
        eapply IHr; eauto.
        * transitivity (dynx t s1); [|transitivity (dynx t s2); auto].
          -- destruct (gval c1 s1 g); apply obs_blk_ok; auto.
          -- symmetry. destruct (gval c2 s2 g); apply obs_blk_ok; auto.
        * intros _. split.
          -- destruct (gval c1 s1 g); apply obs_blk_inv; auto.
          -- destruct (gval c2 s2 g); apply obs_blk_inv; auto.
      + destruct (chk inv tb) as [a|] eqn:Ht; [|discriminate]. destruct (chk inv e) as [b'|] eqn:He; [|discriminate].
        rewrite (gval_eq g c1 c2 s1 s2 Hs (dynx_dyn t _ _ Hd) Hg).
        destruct (gval c2 s2 g).
        * destruct (IHt _ _ _ _ Ht Hd Hi) as [D I]. eapply IHr; eauto.
          intros Hab. apply andb_true_iff in Hab. apply I. tauto.
        * destruct (IHe _ _ _ _ He Hd Hi) as [D I]. eapply IHr; eauto.
          intros Hab. apply andb_true_iff in Hab. apply I. tauto.
  Qed.

  Lemma cont_eq c1 c2 (s1 s2 : st) : shared c1 c2 -> dyn s1 = dyn s2 -> cont c1 s1 = cont c2 s2.
  Proof. intros (Hl & _) H. unfold dyn in H. inversion H. unfold cont. congruence. Qed.

  Lemma loop_sound c1 c2 t body ib : shared c1 c2 -> chk false body = Some ib ->
    forall n (s1 s2 : st), dynx t s1 = dynx t s2 ->
      dynx t (loop nosig c1 body n s1) = dynx t (loop nosig c2 body n s2).
  Proof.
    intros Hs Hb. induction n; intros s1 s2 Hd; cbn; auto.
    rewrite (cont_eq c1 c2 s1 s2 Hs (dynx_dyn t _ _ Hd)). destruct (cont c2 s2); auto.
    apply IHn. eapply chk_sound; eauto. intros X; discriminate.
  Qed.

  Lemma iter_sound c1 c2 t body ib : shared c1 c2 -> chk false body = Some ib ->
    forall n (s1 s2 : st), dynx t s1 = dynx t s2 ->
      dynx t (iter nosig c1 body n s1) = dynx t (iter nosig c2 body n s2).
  Proof.
    intros Hs Hb. induction n; intros s1 s2 Hd; cbn; auto.
    apply IHn. eapply chk_sound; eauto. intros X; discriminate.
  Qed.

  Lemma is_some_inv {A} (o : option A) : is_some o = true -> exists a, o = Some a.
  Proof. destruct o; cbn; intros; try discriminate; eauto. Qed.

  (** C12.3: whatever the output schedule, the dynamic part after the prologue and any number of
      loop iterations is the same (and so is the whole run's); with [t = true] also the tracked
      particles, provided both runs track the same ones *)
  Theorem cadence_independence_loop p c1 c2 t : cadence_checker p = true -> shared c1 c2 ->
    forall (s1 s2 : st), dynx t s1 = dynx t s2 -> forall n,
      dynx t (loop nosig c1 (p_body p) n (exec_blk nosig c1 (p_pre p) s1)) =
      dynx t (loop nosig c2 (p_body p) n (exec_blk nosig c2 (p_pre p) s2)).
  Proof.
    unfold cadence_checker. intros Hc Hs s1 s2 Hd n.
    apply andb_true_iff in Hc. destruct Hc as [Hc Hpost]. apply andb_true_iff in Hc. destruct Hc as [Hpre Hbody].
    destruct (is_some_inv _ Hpre) as [i0 E0]. destruct (is_some_inv _ Hbody) as [ib Eb].
    eapply loop_sound; eauto. eapply chk_sound; eauto. intros X; discriminate.
  Qed.

  Theorem cadence_independence_iter p c1 c2 t : cadence_checker p = true -> shared c1 c2 ->
    forall (s1 s2 : st), dynx t s1 = dynx t s2 -> forall n,
      dynx t (iter nosig c1 (p_body p) n (exec_blk nosig c1 (p_pre p) s1)) =
      dynx t (iter nosig c2 (p_body p) n (exec_blk nosig c2 (p_pre p) s2)).
  Proof.
    unfold cadence_checker. intros Hc Hs s1 s2 Hd n.
    apply andb_true_iff in Hc. destruct Hc as [Hc Hpost]. apply andb_true_iff in Hc. destruct Hc as [Hpre Hbody].
    destruct (is_some_inv _ Hpre) as [i0 E0]. destruct (is_some_inv _ Hbody) as [ib Eb].
    eapply iter_sound; eauto. eapply chk_sound; eauto. intros X; discriminate.
  Qed.

  Theorem cadence_independence_run p c1 c2 t : cadence_checker p = true -> shared c1 c2 ->
    forall (s1 s2 : st), dynx t s1 = dynx t s2 ->
      dynx t (run nosig c1 p s1) = dynx t (run nosig c2 p s2).
  Proof.
    intros Hc Hs s1 s2 Hd. unfold run.
    pose proof (cadence_independence_loop p c1 c2 t Hc Hs s1 s2 Hd) as HL.
    unfold cadence_checker in Hc.
    apply andb_true_iff in Hc. destruct Hc as [Hc Hpost]. destruct (is_some_inv _ Hpost) as [ip Ep].
    destruct Hs as (Hl & Hs'). rewrite Hl at 1.
    eapply chk_sound; eauto. unfold shared; tauto. intros X; discriminate.
  Qed.

  (** C12.1 *)
  Theorem out_block_observer ob cf (s : st) :
    obs_blk ob = true -> Inv s -> dyn (exec_blk nosig cf ob s) = dyn s /\ Inv (exec_blk nosig cf ob s).
  Proof.
    intros Ho Hi. split.
    - eapply dynx_dyn with (t := false). apply obs_blk_ok; auto.
    - apply obs_blk_inv; auto.
  Qed.

  (** C12.2 *)
  Lemma renorm_guard_step_only c1 c2 (s1 s2 : st) :
    renorm c1 = renorm c2 -> k s1 = k s2 -> gval c1 s1 GRenorm = gval c2 s2 GRenorm.
  Proof. intros H1 H2. cbn. rewrite H1, H2. reflexivity. Qed.

  (** C12.4 *)
  Lemma track_passive cf m sig (s : st) : dyn (exec sig cf (Track m) s) = dyn s.
  Proof. destruct s; reflexivity. Qed.
End A.

(** * Part B: interrupts (C14) *)

Definition is_abort (g : guard) : bool := match g with GAbort => true | _ => false end.

Fixpoint no_abort_guard (b : blk) : bool :=
  match b with
  | Done => true
  | Seq _ r => no_abort_guard r
  | Cond g t e r => negb (is_abort g) && no_abort_guard t && no_abort_guard e && no_abort_guard r
  end.

(** first top-level conditional on the flag: (before, then, else, after) *)
Fixpoint split_closing (b : blk) : option (blk * blk * blk * blk) :=
  match b with
  | Done => None
  | Seq c r => match split_closing r with Some (a, t, e, z) => Some (Seq c a, t, e, z) | None => None end
  | Cond GAbort t e r => Some (Done, t, e, r)
  | Cond g t e r => match split_closing r with Some (a, t', e', z) => Some (Cond g t e a, t', e', z) | None => None end
  end.

(** only hook points, then Exit *)
Fixpoint quiet_exit (b : blk) : bool :=
  match b with
  | Seq (Point _) r => quiet_exit r
  | Seq Exit Done => true
  | _ => false
  end.

Definition blk_eqb_print (b : blk) (m : msg) : bool :=
  match b, m with
  | Seq (Print MAborted) Done, MAborted => true
  | Seq (Print MFinished) Done, MFinished => true
  | _, _ => false
  end.

(** C14.1: the flag is read by the loop condition (fixed by the program shape) and by one closing
    conditional `if (abort) print Aborted else print Finished`, followed by hook points and return *)
Definition abort_checker (p : prog) : bool :=
  no_abort_guard (p_pre p) && no_abort_guard (p_body p) &&
  match split_closing (p_post p) with
  | Some (a, t, e, z) => no_abort_guard a && blk_eqb_print t MAborted && blk_eqb_print e MFinished && quiet_exit z
  | None => false
  end.

(** the step counter: no IncStep in a block / exactly one, at top level *)
Fixpoint no_inc (b : blk) : bool :=
  match b with
  | Done => true
  | Seq IncStep _ => false
  | Seq _ r => no_inc r
  | Cond _ t e r => no_inc t && no_inc e && no_inc r
  end.
Fixpoint inc_once (b : blk) : bool :=
  match b with
  | Done => false
  | Seq IncStep r => no_inc r
  | Seq _ r => inc_once r
  | Cond _ t e r => no_inc t && no_inc e && inc_once r
  end.
(** no Append after the step counter was incremented *)
Fixpoint no_append (b : blk) : bool :=
  match b with
  | Done => true
  | Seq (Append _) _ => false
  | Seq _ r => no_append r
  | Cond _ t e r => no_append t && no_append e && no_append r
  end.
Fixpoint append_before_inc (b : blk) : bool :=
  match b with
  | Done => true
  | Seq IncStep r => no_append r
  | Seq _ r => append_before_inc r
  | Cond _ t e r => append_before_inc r
  end.
Definition step_checker (p : prog) : bool :=
  no_inc (p_pre p) && inc_once (p_body p) && append_before_inc (p_body p) && no_inc (p_post p).

Section B.
  Variable K : kern.
  Notation st := (st K).

  Definition clr (s : st) : st := set_abort false s.

  Lemma exec_clr sig1 sig2 cf c (s1 s2 : st) :
    clr s1 = clr s2 -> clr (exec sig1 cf c s1) = clr (exec sig2 cf c s2).
  Proof.
    unfold clr. destruct s1, s2. cbn. intro H. inversion H; subst; clear H.
    destruct c as [| | |ax| | | | |a|m|m| | |m| |l| |o]; cbn; try reflexivity;
      try (destruct ax; reflexivity); try (destruct a; reflexivity);
      try (destruct m; unfold exec; cbn; try destruct (dynrf cf); reflexivity).
  Qed.

  Lemma gval_clr cf g (s1 s2 : st) : clr s1 = clr s2 -> is_abort g = false -> gval cf s1 g = gval cf s2 g.
  Proof.
    unfold clr. destruct s1, s2. cbn. intro H. inversion H; subst; clear H.
    destruct g; cbn; intros; try reflexivity; discriminate.
  Qed.

  (** signals change nothing but the flag: a block that does not test the flag *)
  Lemma blk_clr sig1 sig2 cf b : no_abort_guard b = true -> forall (s1 s2 : st),
    clr s1 = clr s2 -> clr (exec_blk sig1 cf b s1) = clr (exec_blk sig2 cf b s2).
  Proof.
    induction b as [|c r IH|g t IHt e IHe r IHr]; cbn; intros Hn s1 s2 H; auto.
    - apply IH; auto. apply exec_clr; auto.
    - apply andb_true_iff in Hn. destruct Hn as [Hn Hr]. apply andb_true_iff in Hn. destruct Hn as [Hn He].
      apply andb_true_iff in Hn. destruct Hn as [Hg Ht]. apply negb_true_iff in Hg.
      rewrite (gval_clr cf g s1 s2 H Hg). destruct (gval cf s2 g); apply IHr; auto.
  Qed.

  Lemma iter_clr sig1 sig2 cf b : no_abort_guard b = true -> forall n (s1 s2 : st),
    clr s1 = clr s2 -> clr (iter sig1 cf b n s1) = clr (iter sig2 cf b n s2).
  Proof.
    intros Hn. induction n; cbn; intros s1 s2 H; auto. apply IHn. apply blk_clr; auto.
  Qed.

  (** the number of iterations the loop executes *)
  Fixpoint nsteps (sig : Z -> bool) (cf : cfg) (b : blk) (fuel : nat) (s : st) : nat :=
    match fuel with
    | O => O
    | S f => if cont cf s then S (nsteps sig cf b f (exec_blk sig cf b s)) else O
    end.

  (** the loop runs m = nsteps iterations: the loop condition held at the first m loop
      heads and, unless the fuel ran out, failed at the next *)
  Lemma loop_iter sig cf b : forall fuel (s : st), let m := nsteps sig cf b fuel s in
    (m <= fuel)%nat /\ loop sig cf b fuel s = iter sig cf b m s /\
    (forall j, (j < m)%nat -> cont cf (iter sig cf b j s) = true) /\
    ((m < fuel)%nat -> cont cf (iter sig cf b m s) = false).
  Proof.
    induction fuel; intros s; cbn.
    - split; [lia|]. split; [reflexivity|]. split; intros; lia.
    - destruct (cont cf s) eqn:Hc.
      + destruct (IHfuel (exec_blk sig cf b s)) as (Hm & E & Hlt & Hex).
        split; [lia|]. split; [exact E|]. split.
        * intros j Hj. destruct j; cbn; auto. apply Hlt. lia.
        * intros Hm'. cbn. apply Hex. lia.
      + split; [lia|]. split; [reflexivity|]. split; [intros; lia|]. intros _. exact Hc.
  Qed.

  (** ** what a signal does: the flag accumulates, the point counter counts *)
  Definition sig_between (sig : Z -> bool) (a b : Z) : Prop := exists i, a <= i < b /\ sig i = true.
  Definition flagrel (sig : Z -> bool) (s s' : st) : Prop :=
    pc s <= pc s' /\ (abort s' = true <-> abort s = true \/ sig_between sig (pc s) (pc s')).

  Lemma flagrel_refl sig (s : st) : flagrel sig s s.
  Proof. unfold flagrel, sig_between. split; [lia|]. split; auto. intros [H|(i & Hi & _)]; auto; lia. Qed.

  Lemma flagrel_trans sig (a b c : st) : flagrel sig a b -> flagrel sig b c -> flagrel sig a c.
  Proof.
    unfold flagrel, sig_between. intros (L1 & E1) (L2 & E2). split; [lia|]. rewrite E2, E1. split.
    - intros [[H|(i & Hi & Hs)]|(i & Hi & Hs)]; auto; right; exists i; split; auto; lia.
    - intros [H|(i & Hi & Hs)]; auto. destruct (Z_lt_dec i (pc b)).
      + left. right. exists i. split; auto; lia.
      + right. exists i. split; auto; lia.
  Qed.

  Lemma flagrel_same sig (s s' : st) : pc s' = pc s -> abort s' = abort s -> flagrel sig s s'.
  Proof.
    unfold flagrel, sig_between. intros Hp Ha. rewrite Hp, Ha. split; [lia|]. split; auto.
    intros [H|(i & Hi & _)]; auto; lia.
  Qed.

  Lemma flagrel_exec sig cf c (s : st) : flagrel sig s (exec sig cf c s).
  Proof.
    destruct c as [| | |ax| | | | |a|m|m| | |m| |l| |o];
      try (destruct s; apply flagrel_same; reflexivity);
      try (destruct ax; destruct s; apply flagrel_same; reflexivity);
      try (destruct a; destruct s; apply flagrel_same; reflexivity);
      try (destruct m; destruct s; unfold exec; cbn; try destruct (dynrf cf); apply flagrel_same; reflexivity).
    unfold flagrel, sig_between. cbn. split; [lia|]. rewrite orb_true_iff. split.
    - intros [H|H]; auto. right. exists (pc s). split; auto; lia.
    - intros [H|(i & Hi & Hs)]; auto. right. assert (i = pc s) by lia. subst; auto.
  Qed.

  Lemma flagrel_blk sig cf b : forall (s : st), flagrel sig s (exec_blk sig cf b s).
  Proof.
    induction b as [|c r IH|g t IHt e IHe r IHr]; cbn; intros s.
    - apply flagrel_refl.
    - eapply flagrel_trans; [apply flagrel_exec | apply IH].
    - destruct (gval cf s g); (eapply flagrel_trans; [|apply IHr]); auto.
  Qed.

  Lemma flagrel_iter sig cf b n : forall (s : st), flagrel sig s (iter sig cf b n s).
  Proof.
    induction n; cbn; intros s. apply flagrel_refl.
    eapply flagrel_trans; [apply flagrel_blk | apply IHn].
  Qed.

  (** ** the step counter *)
  Lemma k_exec sig cf c (s : st) : k (exec sig cf c s) = match c with IncStep => k s + 1 | _ => k s end.
  Proof.
    destruct c as [| | |ax| | | | |a|m|m| | |m| |l| |o]; try (destruct s; reflexivity);
      try (destruct ax; destruct s; reflexivity); try (destruct a; destruct s; reflexivity);
      try (destruct m; destruct s; unfold exec; cbn; try destruct (dynrf cf); reflexivity).
  Qed.

  Lemma k_no_inc sig cf b : no_inc b = true -> forall (s : st), k (exec_blk sig cf b s) = k s.
  Proof.
    induction b as [|c r IH|g t IHt e IHe r IHr]; cbn; intros Hn s; auto.
    - rewrite IH. rewrite k_exec. destruct c; auto; discriminate. destruct c; auto; discriminate.
    - apply andb_true_iff in Hn. destruct Hn as [Hn Hr]. apply andb_true_iff in Hn. destruct Hn as [Ht He].
      rewrite IHr; auto. destruct (gval cf s g); auto.
  Qed.

  Lemma k_inc_once sig cf b : inc_once b = true -> forall (s : st), k (exec_blk sig cf b s) = k s + 1.
  Proof.
    induction b as [|c r IH|g t IHt e IHe r IHr]; cbn; intros Hn s; try discriminate.
    - destruct c; try (rewrite IH; auto; rewrite k_exec; reflexivity).
      rewrite k_no_inc by auto. rewrite k_exec. reflexivity.
    - apply andb_true_iff in Hn. destruct Hn as [Hn Hr]. apply andb_true_iff in Hn. destruct Hn as [Ht He].
      rewrite IHr; auto. destruct (gval cf s g); rewrite k_no_inc; auto.
  Qed.

  Lemma k_iter sig cf b : inc_once b = true -> forall n (s : st), k (iter sig cf b n s) = k s + Z.of_nat n.
  Proof.
    intros Hb. induction n; intros s. cbn; lia.
    cbn [iter]. rewrite IHn. rewrite k_inc_once; auto. lia.
  Qed.

  (** ** program surgery *)
  Lemma exec_blk_bapp sig cf a : forall b (s : st),
    exec_blk sig cf (bapp a b) s = exec_blk sig cf b (exec_blk sig cf a s).
  Proof. induction a as [|c r IH|g t IHt e IHe r IHr]; cbn; intros b s; auto. Qed.

  Lemma split_closing_ok b : forall a t e z, split_closing b = Some (a, t, e, z) -> b = bapp a (Cond GAbort t e z).
  Proof.
    induction b as [|c r IH|g t0 IHt e0 IHe r IHr]; cbn; intros a t e z H; try discriminate.
    - destruct (split_closing r) as [[[[a' t'] e'] z']|]; try discriminate. inversion H; subst. cbn. f_equal. auto.
    - destruct g; try (inversion H; subst; reflexivity);
        (destruct (split_closing r) as [[[[a' t'] e'] z']|]; try discriminate; inversion H; subst; cbn; f_equal; auto).
  Qed.

  Lemma print_blk_inv b m : blk_eqb_print b m = true -> b = Seq (Print m) Done.
  Proof.
    destruct b as [|c r|]; cbn; try discriminate. destruct c; try discriminate.
    destruct m0; destruct r; destruct m; try discriminate; reflexivity.
  Qed.

  Lemma quiet_exit_ok sig cf z : quiet_exit z = true -> forall (s : st),
    file (exec_blk sig cf z s) = file s /\ k (exec_blk sig cf z s) = k s /\
    log (exec_blk sig cf z s) = log s /\ status (exec_blk sig cf z s) = Some 0.
  Proof.
    induction z as [|c r IH|]; cbn; try discriminate. intros Hq s.
    destruct c; try discriminate.
    - destruct r; try discriminate. cbn. destruct s; cbn; auto.
    - destruct (IH Hq (exec sig cf (Point l) s)) as (A & B & C & D). rewrite A, B, C, D. destruct s; cbn; auto.
  Qed.

  (** ** the file only grows *)
  Lemma file_exec sig cf c (s : st) :
    file (exec sig cf c s) = file s ++ match c with Append x => recs cf x s | _ => [] end.
  Proof.
    destruct c as [| | |ax| | | | |a|m|m| | |m| |l| |o]; try (destruct s; cbn; rewrite app_nil_r; reflexivity);
      try (destruct ax; destruct s; cbn; rewrite app_nil_r; reflexivity);
      try (destruct a; destruct s; reflexivity);
      try (destruct m; destruct s; unfold exec; cbn; try destruct (dynrf cf); cbn; rewrite app_nil_r; reflexivity).
  Qed.

  Lemma file_emit sig cf b : forall (s : st), file (exec_blk sig cf b s) = file s ++ emit sig cf b s.
  Proof.
    induction b as [|c r IH|g t IHt e IHe r IHr]; cbn; intros s.
    - rewrite app_nil_r; auto.
    - rewrite IH, file_exec, app_assoc. reflexivity.
    - destruct (gval cf s g); rewrite IHr; [rewrite IHt|rewrite IHe]; rewrite app_assoc; reflexivity.
  Qed.

  Lemma emit_no_inc sig cf b : no_inc b = true -> forall (s : st),
    Forall (fun r => rstep r = k s) (emit sig cf b s).
  Proof.
    induction b as [|c r IH|g t IHt e IHe r IHr]; cbn; intros Hn s; auto.
    - apply Forall_app. split.
      + destruct c; auto. destruct a as [[| | |]| | | | |]; cbn; repeat constructor.
        destruct ((0 <? h5save cf) && (onr s mod h5save cf =? 0)); cbn; repeat constructor.
      + assert (Hk : k (exec sig cf c s) = k s) by (rewrite k_exec; destruct c; auto; discriminate).
        rewrite <- Hk. apply IH. destruct c; auto; discriminate.
    - apply andb_true_iff in Hn. destruct Hn as [Hn Hr]. apply andb_true_iff in Hn. destruct Hn as [Ht He].
      destruct (gval cf s g); apply Forall_app; split; auto.
      + rewrite <- (k_no_inc sig cf t Ht s). auto.
      + rewrite <- (k_no_inc sig cf e He s). auto.
  Qed.

  Lemma emit_no_append sig cf b : no_append b = true -> forall (s : st), emit sig cf b s = [].
  Proof.
    induction b as [|c r IH|g t IHt e IHe r IHr]; cbn; intros Hn s; auto.
    - destruct c; try discriminate; cbn; auto.
    - apply andb_true_iff in Hn. destruct Hn as [Hn Hr]. apply andb_true_iff in Hn. destruct Hn as [Ht He].
      destruct (gval cf s g); [rewrite IHt|rewrite IHe]; auto; cbn; auto.
  Qed.

  (** every record a loop iteration appends carries that iteration's step number *)
  Lemma emit_body sig cf b : inc_once b = true -> append_before_inc b = true -> forall (s : st),
    Forall (fun r => rstep r = k s) (emit sig cf b s).
  Proof.
    induction b as [|c r IH|g t IHt e IHe r IHr]; cbn; intros Hi Ha s; try discriminate.
    - destruct (match c with IncStep => true | _ => false end) eqn:Hc.
      + destruct c; try discriminate. cbn. rewrite emit_no_append; auto.
      + apply Forall_app. split.
        * destruct c; auto. destruct a as [[| | |]| | | | |]; cbn; repeat constructor.
          destruct ((0 <? h5save cf) && (onr s mod h5save cf =? 0)); cbn; repeat constructor.
        * assert (Hk : k (exec sig cf c s) = k s) by (rewrite k_exec; destruct c; auto; discriminate).
          rewrite <- Hk. apply IH; destruct c; auto; discriminate.
    - apply andb_true_iff in Hi. destruct Hi as [Hi Hr]. apply andb_true_iff in Hi. destruct Hi as [Ht He].
      destruct (gval cf s g); apply Forall_app; split.
      + apply emit_no_inc; auto.
      + rewrite <- (k_no_inc sig cf t Ht s). auto.
      + apply emit_no_inc; auto.
      + rewrite <- (k_no_inc sig cf e He s). auto.
  Qed.

  Lemma iter_snoc sig cf b n : forall (s : st), iter sig cf b (S n) s = exec_blk sig cf b (iter sig cf b n s).
  Proof. induction n; intros s; auto. cbn [iter] in *. rewrite IHn. reflexivity. Qed.

  (** loop-head state j of a run: prologue, then j iterations *)
  Definition heads sig cf (p : prog) (s0 : st) (j : nat) : st :=
    iter sig cf (p_body p) j (exec_blk sig cf (p_pre p) s0).

  Lemma heads_k sig cf p (s0 : st) j : step_checker p = true -> k (heads sig cf p s0 j) = k s0 + Z.of_nat j.
  Proof.
    unfold step_checker, heads. intros H. repeat (apply andb_true_iff in H; destruct H as [H ?]).
    rewrite k_iter; auto. rewrite k_no_inc; auto.
  Qed.

  Lemma heads_file_step sig cf p (s0 : st) j : step_checker p = true -> exists E,
    file (heads sig cf p s0 (S j)) = file (heads sig cf p s0 j) ++ E /\
    Forall (fun r => rstep r = k s0 + Z.of_nat j) E.
  Proof.
    intros H. pose proof (heads_k sig cf p s0 j H) as Hk. unfold step_checker in H.
    repeat (apply andb_true_iff in H; destruct H as [H ?]).
    unfold heads in *. rewrite iter_snoc. rewrite file_emit. eexists. split; [reflexivity|].
    rewrite <- Hk. apply emit_body; auto.
  Qed.

  (** C14.3 the records written during the first m steps are a prefix of those written during the
      first m+d steps; what follows carries step numbers >= m; what the m steps wrote after the
      prologue carries step numbers < m *)
  Lemma heads_file_prefix sig cf p (s0 : st) m : step_checker p = true -> forall d, exists rest,
    file (heads sig cf p s0 (m + d)) = file (heads sig cf p s0 m) ++ rest /\
    Forall (fun r => k s0 + Z.of_nat m <= rstep r) rest.
  Proof.
    intros H. induction d.
    - exists []. rewrite Nat.add_0_r, app_nil_r. auto.
    - destruct IHd as (rest & E & F). destruct (heads_file_step sig cf p s0 (m + d) H) as (E' & A & B).
      exists (rest ++ E'). replace (m + S d)%nat with (S (m + d)) by lia. rewrite A, E, app_assoc. split; auto.
      apply Forall_app. split; auto. eapply Forall_impl; [|exact B]. cbn. intros r Hr. rewrite Hr. lia.
  Qed.

  Lemma heads_file_lt sig cf p (s0 : st) : step_checker p = true -> forall m, exists recs,
    file (heads sig cf p s0 m) = file (exec_blk sig cf (p_pre p) s0) ++ recs /\
    Forall (fun r => k s0 <= rstep r < k s0 + Z.of_nat m) recs.
  Proof.
    intros H. induction m.
    - exists []. rewrite app_nil_r. auto.
    - destruct IHm as (recs & E & F). destruct (heads_file_step sig cf p s0 m H) as (E' & A & B).
      exists (recs ++ E'). rewrite A, E, app_assoc. split; auto. apply Forall_app. split.
      + eapply Forall_impl; [|exact F]. cbn. intros; lia.
      + eapply Forall_impl; [|exact B]. cbn. intros r Hr. rewrite Hr. lia.
  Qed.

  (** ** C14.2 *)
  Lemma file_clr (s1 s2 : st) : clr s1 = clr s2 -> file s1 = file s2.
  Proof. unfold clr. destruct s1, s2; cbn. intro H; inversion H; auto. Qed.
  Lemma k_clr (s1 s2 : st) : clr s1 = clr s2 -> k s1 = k s2.
  Proof. unfold clr. destruct s1, s2; cbn. intro H; inversion H; auto. Qed.
  Lemma clr_clr (s : st) : clr (clr s) = clr s.
  Proof. destruct s; reflexivity. Qed.

  Lemma heads_clr sig cf p (s0 : st) j : no_abort_guard (p_pre p) = true -> no_abort_guard (p_body p) = true ->
    clr (heads sig cf p s0 j) = clr (heads nosig cf p (clr s0) j).
  Proof.
    intros Hp Hb. unfold heads. apply iter_clr; auto. apply blk_clr; auto.
  Qed.

  (** steps executed by the run under the signal schedule [sig] *)
  Definition steps_done sig cf (p : prog) (s0 : st) : nat :=
    nsteps sig cf (p_body p) (Z.to_nat (laststep cf)) (exec_blk sig cf (p_pre p) s0).

  Theorem interrupted_run_shape p : abort_checker p = true ->
    forall sig cf (s0 : st), let m := steps_done sig cf p s0 in exists a t e z,
      split_closing (p_post p) = Some (a, t, e, z) /\
      (m <= Z.to_nat (laststep cf))%nat /\
      (forall j, (j < m)%nat -> cont cf (heads sig cf p s0 j) = true) /\
      ((m < Z.to_nat (laststep cf))%nat -> cont cf (heads sig cf p s0 m) = false) /\
      clr (exec_blk sig cf a (heads sig cf p s0 m)) = clr (exec_blk nosig cf a (heads nosig cf p (clr s0) m)) /\
      file (run sig cf p s0) = file (exec_blk nosig cf a (heads nosig cf p (clr s0) m)) /\
      k (run sig cf p s0) = k (exec_blk nosig cf a (heads nosig cf p (clr s0) m)) /\
      status (run sig cf p s0) = Some 0 /\
      log (run sig cf p s0) = log (exec_blk sig cf a (heads sig cf p s0 m)) ++
                               [if abort (exec_blk sig cf a (heads sig cf p s0 m)) then MAborted else MFinished].
  Proof.
    unfold abort_checker. intros H sig cf s0. set (m := steps_done sig cf p s0).
    apply andb_true_iff in H. destruct H as [H Hpost]. apply andb_true_iff in H. destruct H as [Hpre Hbody].
    destruct (split_closing (p_post p)) as [[[[a t] e] z]|] eqn:Hs; [|discriminate].
    repeat (apply andb_true_iff in Hpost; destruct Hpost as [Hpost ?]).
    pose proof (loop_iter sig cf (p_body p) (Z.to_nat (laststep cf)) (exec_blk sig cf (p_pre p) s0)) as L.
    cbv zeta in L. fold (steps_done sig cf p s0) in L. fold m in L. destruct L as (Hm & E & Hlt & Hex).
    exists a, t, e, z. split; [reflexivity|]. split; [exact Hm|]. split; [exact Hlt|]. split; [exact Hex|].
    assert (Hclr : clr (exec_blk sig cf a (heads sig cf p s0 m)) = clr (exec_blk nosig cf a (heads nosig cf p (clr s0) m))).
    { apply blk_clr; auto. apply heads_clr; auto. }
    split; [exact Hclr|].
    rewrite <- (file_clr _ _ Hclr), <- (k_clr _ _ Hclr).
    unfold run. rewrite E. fold (heads sig cf p s0 m).
    rewrite (split_closing_ok _ _ _ _ _ Hs). rewrite exec_blk_bapp. cbn [exec_blk gval].
    rewrite (print_blk_inv t MAborted) by auto. rewrite (print_blk_inv e MFinished) by auto.
    set (sm := exec_blk sig cf a (heads sig cf p s0 m)).
    destruct (abort sm); cbn [exec_blk];
      match goal with |- context [exec_blk sig cf z ?x] => destruct (quiet_exit_ok sig cf z ltac:(assumption) x) as (A & B & C & D) end;
      rewrite A, B, C, D; destruct sm; cbn; auto.
  Qed.

  Lemma no_inc_bapp a b : no_inc (bapp a b) = no_inc a && no_inc b.
  Proof.
    induction a as [|c r IH|g t IHt e IHe r IHr]; cbn; auto.
    - destruct c; auto.
    - rewrite IHr. rewrite !andb_assoc. reflexivity.
  Qed.

  (** the final block's records carry the number of executed steps *)
  Theorem final_records_step p : abort_checker p = true -> step_checker p = true ->
    forall cf (s0 : st) (m : nat) a t e z, split_closing (p_post p) = Some (a, t, e, z) ->
      file (exec_blk nosig cf a (heads nosig cf p s0 m)) =
        file (heads nosig cf p s0 m) ++ emit nosig cf a (heads nosig cf p s0 m) /\
      Forall (fun r => rstep r = k s0 + Z.of_nat m) (emit nosig cf a (heads nosig cf p s0 m)).
  Proof.
    intros Ha Hst cf s0 m a t e z Hs. split. apply file_emit.
    rewrite <- (heads_k nosig cf p s0 m Hst). apply emit_no_inc.
    unfold step_checker in Hst. repeat (apply andb_true_iff in Hst; destruct Hst as [Hst ?]).
    rewrite (split_closing_ok _ _ _ _ _ Hs) in *. rewrite no_inc_bapp in *.
    match goal with H : _ && _ = true |- _ => apply andb_true_iff in H; tauto end.
  Qed.

  (** C14.3 second half: no signal before the last loop test => the file is the undisturbed run's *)
  Theorem signal_after_last_step p : abort_checker p = true ->
    forall sig cf (s0 : st), steps_done sig cf p s0 = steps_done nosig cf p (clr s0) ->
      file (run sig cf p s0) = file (run nosig cf p (clr s0)).
  Proof.
    intros Ha sig cf s0 Hm.
    destruct (interrupted_run_shape p Ha sig cf s0) as (a & t & e & z & Hs & _ & _ & _ & _ & F & _).
    destruct (interrupted_run_shape p Ha nosig cf (clr s0)) as (a' & t' & e' & z' & Hs' & _ & _ & _ & _ & F' & _).
    rewrite Hs in Hs'. inversion Hs'; subst. rewrite F, F', Hm, clr_clr. reflexivity.
  Qed.

  (** when the flag is set at a loop head: iff it was set at the start or one of the hook points
      executed so far was signalled; the points executed do not depend on the signals *)
  Theorem abort_at_head p sig cf (s0 : st) j :
    abort (heads sig cf p s0 j) = true <->
    abort s0 = true \/ sig_between sig (pc s0) (pc (heads sig cf p s0 j)).
  Proof.
    unfold heads. apply (flagrel_trans sig s0 _ _ (flagrel_blk sig cf (p_pre p) s0) (flagrel_iter sig cf (p_body p) j _)).
  Qed.

  Lemma pc_clr (s1 s2 : st) : clr s1 = clr s2 -> pc s1 = pc s2.
  Proof. unfold clr. destruct s1, s2; cbn. intro H; inversion H; auto. Qed.

  Theorem heads_pc_independent p sig cf (s0 : st) j : abort_checker p = true ->
    pc (heads sig cf p s0 j) = pc (heads nosig cf p (clr s0) j).
  Proof.
    unfold abort_checker. intros H.
    apply andb_true_iff in H. destruct H as [H Hpost]. apply andb_true_iff in H. destruct H as [Hpre Hbody].
    apply pc_clr. apply heads_clr; auto.
  Qed.

  (** with the step counter at 0: the loop goes on iff fewer than laststep steps are done and the flag is clear *)
  Theorem cont_at_head p sig cf (s0 : st) j : step_checker p = true -> k s0 = 0 ->
    cont cf (heads sig cf p s0 j) = (Z.of_nat j <? laststep cf) && negb (abort (heads sig cf p s0 j)).
  Proof. intros H H0. unfold cont. rewrite heads_k; auto. rewrite H0. reflexivity. Qed.

  (** termination: the loop is left because its condition fails, not because the fuel ran out *)
  Theorem loop_exits p sig cf (s0 : st) : step_checker p = true -> k s0 = 0 ->
    cont cf (loop sig cf (p_body p) (Z.to_nat (laststep cf)) (exec_blk sig cf (p_pre p) s0)) = false.
  Proof.
    intros H H0.
    pose proof (loop_iter sig cf (p_body p) (Z.to_nat (laststep cf)) (exec_blk sig cf (p_pre p) s0)) as L.
    cbv zeta in L. set (m := nsteps sig cf (p_body p) (Z.to_nat (laststep cf)) (exec_blk sig cf (p_pre p) s0)) in *.
    destruct L as (Hm & E & Hlt & Hex).
    rewrite E. fold (heads sig cf p s0 m). destruct (Nat.eq_dec m (Z.to_nat (laststep cf))) as [Heq|Hne].
    - rewrite cont_at_head; auto. apply andb_false_iff. left. apply Z.ltb_ge. lia.
    - apply Hex. lia.
  Qed.

End B.

(** * Part C: records written at the same step by two runs agree (C12.3, second half) *)

(** which observer caches are known to be equal in the two runs *)
Record known := mkkn { kmo0 : bool; kyp : bool; kmo1 : bool; kcs : bool }.
Definition kn0 : known := mkkn false false false false.
Definition kstep (c : call) (kn : known) : known :=
  match c with
  | Variance false => mkkn true (kyp kn) (kmo1 kn) (kcs kn)
  | UpdateYProj => mkkn (kmo0 kn) true (kmo1 kn) (kcs kn)
  | Variance true => mkkn (kmo0 kn) (kyp kn) (kyp kn) (kcs kn)
  | UpdateCSR => mkkn (kmo0 kn) (kyp kn) (kmo1 kn) true
  | _ => kn
  end.
(** an append is fine when every cache its kept records read is known to be equal *)
Definition kok (a : akind) (kn : known) : bool :=
  match a with
  | AGrid AtPS => true
  | AGrid _ => kmo0 kn && kyp kn && kmo1 kn
  | ACsr => kcs kn
  | _ => true
  end.
(** conservative: after a conditional nothing is assumed known *)
Fixpoint rec_chk (kn : known) (b : blk) : bool :=
  match b with
  | Done => true
  | Seq c r => (match c with Append a => kok a kn | _ => true end) && rec_chk (kstep c kn) r
  | Cond g t e r => negb (cadence_guard g) && rec_chk kn t && rec_chk kn e && rec_chk kn0 r
  end.

(** (before, output block, else, after) around the first top-level conditional on GOut *)
Fixpoint split_out (b : blk) : option (blk * blk * blk * blk) :=
  match b with
  | Done => None
  | Seq c r => match split_out r with Some (a, t, e, z) => Some (Seq c a, t, e, z) | None => None end
  | Cond GOut t e r => Some (Done, t, e, r)
  | Cond g t e r => match split_out r with Some (a, t', e', z) => Some (Cond g t e a, t', e', z) | None => None end
  end.

Section C.
  Variable K : kern.
  Notation st := (st K).
  (** the CSR update of the radiation field object does not depend on what its buffers held before
      (C18 proves this for the field model; here it is a hypothesis of the record theorem) *)
  Hypothesis csr_free : forall (c c' : tCs K) (p : tP K), k_csrOf K c p = k_csrOf K c' p.

  Definition agree (t : bool) (kn : known) (s1 s2 : st) : Prop :=
    dynx K t s1 = dynx K t s2 /\ (kmo0 kn = true -> mo0 s1 = mo0 s2) /\ (kyp kn = true -> yp s1 = yp s2) /\
    (kmo1 kn = true -> mo1 s1 = mo1 s2) /\ (kcs kn = true -> cs s1 = cs s2).

  (** records kept for the comparison: not the phase-space records (written at different cadences), not
      the RF-kick rows (flushed per output step, C19), the particle rows only when both runs track the same *)
  Definition keep (t : bool) (r : rec K) : bool :=
    match rdata r with RPS _ | RRF _ => false | RTracks _ => t | _ => true end.
  Definition cmn (t : bool) (l : list (rec K)) : list (rec K) := filter (keep t) l.
  Arguments cmn : simpl never.

  Lemma agree_kn0 t (s1 s2 : st) : dynx K t s1 = dynx K t s2 -> agree t kn0 s1 s2.
  Proof. unfold agree. cbn. intuition discriminate. Qed.

  Lemma agree_step t kn c c1 c2 (s1 s2 : st) : shared c1 c2 -> agree t kn s1 s2 ->
    agree t (kstep c kn) (exec nosig c1 c s1) (exec nosig c2 c s2).
  Proof.
    intros Hs (Hd & H0 & Hy & H1 & Hc). split; [apply dyn_closed; auto|].
    unfold dynx, dyn in Hd. destruct s1, s2. cbn in *.
    destruct t; inversion Hd; subst; clear Hd;
      (destruct c as [| | |ax| | | | |a|m|m| | |m| |l| |o]; cbn; auto;
       try (destruct ax; cbn; repeat split; intros; auto; try (rewrite Hy by auto); auto; fail);
       try (destruct a; cbn; auto; fail);
       try (destruct m; unfold exec; cbn; try destruct (dynrf c1); try destruct (dynrf c2); cbn; auto; fail);
       try (repeat split; intros; auto; fail)).
  Qed.

  Lemma agree_recs t kn a c1 c2 (s1 s2 : st) : agree t kn s1 s2 -> kok a kn = true ->
    cmn t (recs c1 a s1) = cmn t (recs c2 a s2).
  Proof.
    intros (Hd & H0 & Hy & H1 & Hc) Hk. unfold dynx, dyn in Hd. destruct s1, s2. cbn in *.
    destruct a as [[| | |]| | | | |]; cbn in *;
      try (apply andb_true_iff in Hk; destruct Hk as [Hk K1]; apply andb_true_iff in Hk; destruct Hk as [K0 Ky];
           rewrite (H0 K0), (Hy Ky), (H1 K1));
      try (rewrite (Hc Hk));
      destruct t; inversion Hd; subst; clear Hd; cbn; try reflexivity;
      repeat match goal with |- context [if ?b then _ else _] => destruct b end; cbn; reflexivity.
  Qed.

  Lemma cmn_app t l1 l2 : cmn t (l1 ++ l2) = cmn t l1 ++ cmn t l2.
  Proof. apply filter_app. Qed.

  Lemma rec_chk_sound t c1 c2 b : shared c1 c2 -> forall kn (s1 s2 : st),
    rec_chk kn b = true -> agree t kn s1 s2 ->
    cmn t (emit nosig c1 b s1) = cmn t (emit nosig c2 b s2) /\
    dynx K t (exec_blk nosig c1 b s1) = dynx K t (exec_blk nosig c2 b s2).
  Proof.
    intros Hs. induction b as [|c r IH|g tb IHt e IHe r IHr]; intros kn s1 s2 Hc Ha; cbn in *.
    - split; auto. destruct Ha; auto.
    - apply andb_true_iff in Hc. destruct Hc as [Hk Hr].
      destruct (IH _ _ _ Hr (agree_step t kn c c1 c2 s1 s2 Hs Ha)) as [E D]. split; auto.
      rewrite !cmn_app, E. f_equal. destruct c; auto. eapply agree_recs; eauto.
    - apply andb_true_iff in Hc. destruct Hc as [Hc Hr]. apply andb_true_iff in Hc. destruct Hc as [Hc He].
      apply andb_true_iff in Hc. destruct Hc as [Hg Ht]. apply negb_true_iff in Hg.
      destruct Ha as [Hd Hrest].
      rewrite (gval_eq K g c1 c2 s1 s2 Hs (dynx_dyn K t _ _ Hd) Hg).
      destruct (gval c2 s2 g).
      + destruct (IHt _ _ _ Ht (conj Hd Hrest)) as [E D].
        destruct (IHr _ _ _ Hr (agree_kn0 t _ _ D)) as [E' D']. split; auto. rewrite !cmn_app, E, E'. reflexivity.
      + destruct (IHe _ _ _ He (conj Hd Hrest)) as [E D].
        destruct (IHr _ _ _ Hr (agree_kn0 t _ _ D)) as [E' D']. split; auto. rewrite !cmn_app, E, E'. reflexivity.
  Qed.

  Lemma split_out_ok b : forall a t e z, split_out b = Some (a, t, e, z) -> b = bapp a (Cond GOut t e z).
  Proof.
    induction b as [|c r IH|g t0 IHt e0 IHe r IHr]; cbn; intros a t e z H; try discriminate.
    - destruct (split_out r) as [[[[a' t'] e'] z']|]; try discriminate. inversion H; subst. cbn. f_equal. auto.
    - destruct g; try (inversion H; subst; reflexivity);
        (destruct (split_out r) as [[[[a' t'] e'] z']|]; try discriminate; inversion H; subst; cbn; f_equal; auto).
  Qed.

  (** the per-run obligation *)
  Definition records_checker (p : prog) : bool :=
    match split_out (p_body p) with
    | Some (hd, ob, _, _) => is_some (chk false hd) && rec_chk kn0 ob
    | None => false
    end.

  (** C12.3 second half: at every step, the records the output blocks of two runs (equal up to the
      output schedule) would append agree on all kept datasets - whenever both runs do write at that
      step, their records are equal field by field *)
  Theorem common_records_equal p c1 c2 t : cadence_checker p = true -> records_checker p = true -> shared c1 c2 ->
    forall hd ob el tl, split_out (p_body p) = Some (hd, ob, el, tl) ->
    forall (s1 s2 : st), dynx K t s1 = dynx K t s2 -> forall n,
      cmn t (emit nosig c1 ob (exec_blk nosig c1 hd (iter nosig c1 (p_body p) n (exec_blk nosig c1 (p_pre p) s1)))) =
      cmn t (emit nosig c2 ob (exec_blk nosig c2 hd (iter nosig c2 (p_body p) n (exec_blk nosig c2 (p_pre p) s2)))).
  Proof.
    unfold records_checker. intros Hc Hr Hs hd ob el tl Hsp s1 s2 Hd n. rewrite Hsp in Hr.
    apply andb_true_iff in Hr. destruct Hr as [Hh Ho]. destruct (is_some_inv _ Hh) as [ih Eh].
    pose proof (cadence_independence_iter K p c1 c2 t Hc Hs s1 s2 Hd n) as Hi.
    destruct (chk_sound K c1 c2 t hd Hs false ih _ _ Eh Hi) as [D _]. { intros X; discriminate. }
    apply (rec_chk_sound t c1 c2 ob Hs kn0 _ _ Ho (agree_kn0 t _ _ D)).
  Qed.
End C.
