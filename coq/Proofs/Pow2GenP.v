(** * The generated operation list of upper_power_of_two computes the model's function (for every argument),
      hence the least power of two >= v on 1 <= v <= 2^63, wraps to 0 beyond, and is what main()'s generated
      size expressions ([Gen_ScalingZ]) call. *)
From Coq Require Import List ZArith Lia Bool.
From Inovesa Require Import Model.Pow2Ops Model.Bounds Model.DFT Gen.Gen_Pow2 Proofs.BoundsP Proofs.PadLenP.
Import ListNotations.
Local Open Scope Z_scope.

Lemma uop_eqb_eq a b : uop_eqb a b = true -> a = b.
Proof. destruct a, b; cbn; intros H; try discriminate; try reflexivity. apply Z.eqb_eq in H. now subst. Qed.

Lemma uops_eqb_eq a : forall b, uops_eqb a b = true -> a = b.
Proof.
  induction a as [|x a IH]; intros [|y b]; cbn; intros H; try discriminate; try reflexivity.
  apply andb_true_iff in H. destruct H as [H1 H2]. now rewrite (uop_eqb_eq _ _ H1), (IH _ H2).
Qed.

(** every list accepted by the comparison computes Bounds.upper_power_of_two *)
Lemma smear_ops_model v : run_uops smear_ops v = Bounds.upper_power_of_two v.
Proof. reflexivity. Qed.

Lemma smear_ops_model_dft v : run_uops smear_ops v = DFT.upper_power_of_two v.
Proof. unfold run_uops, smear_ops, DFT.upper_power_of_two. cbn [fold_left run_uop]. unfold wrap64. reflexivity. Qed.

Lemma accepted_ops_model l : uops_eqb l smear_ops = true -> forall v, run_uops l v = Bounds.upper_power_of_two v.
Proof. intros H v. now rewrite (uops_eqb_eq _ _ H), smear_ops_model. Qed.

(** per-run obligation: the list read from the source is accepted *)
Lemma gen_ops_accepted : uops_eqb gen_upow2_ops smear_ops = true.
Proof. vm_compute. reflexivity. Qed.

Theorem gen_upow2_is_model v : run_uops gen_upow2_ops v = Bounds.upper_power_of_two v.
Proof. exact (accepted_ops_model _ gen_ops_accepted v). Qed.

Theorem gen_upow2_is_model_dft v : run_uops gen_upow2_ops v = DFT.upper_power_of_two v.
Proof. rewrite (uops_eqb_eq _ _ gen_ops_accepted). apply smear_ops_model_dft. Qed.

Theorem gen_upow2_spec v : 1 <= v <= 2 ^ 63 -> run_uops gen_upow2_ops v = 2 ^ Z.log2_up v.
Proof. intros H. rewrite gen_upow2_is_model_dft. now apply upper_power_of_two_spec. Qed.

Theorem gen_upow2_ge v : 1 <= v <= 2 ^ 63 -> v <= run_uops gen_upow2_ops v < 2 * v.
Proof. intros H. rewrite gen_upow2_is_model. now apply upper_power_of_two_ge. Qed.

Theorem gen_upow2_wraps : run_uops gen_upow2_ops 0 = 0 /\ run_uops gen_upow2_ops (2 ^ 63 + 1) = 0.
Proof. rewrite !gen_upow2_is_model. exact upper_power_of_two_wraps. Qed.

(** a cascade that misses a stage is rejected, and is wrong: without the last stage 2^32+1 maps to 2^32+2^... *)
Example short_cascade_rejected :
  uops_eqb [UDec; UOrShr 1; UOrShr 2; UOrShr 4; UOrShr 8; UOrShr 16; UInc] smear_ops = false /\
  run_uops [UDec; UOrShr 1; UOrShr 2; UOrShr 4; UOrShr 8; UOrShr 16; UInc] (2 ^ 32 + 1) <> 2 ^ 33.
Proof. split; [reflexivity | vm_compute; discriminate]. Qed.
