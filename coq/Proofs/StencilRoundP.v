(** * One output cell of a source map evaluated in binary32:  out = Sum_j data[idx_j] * weight_j.

    The C++ loops ([KickMap::apply], [FokkerPlanckMap::apply], [SourceMap::apply]) accumulate at most
    [k] products in a float, left to right, starting from 0; the compiler may contract
    [value += a*b] into a fused multiply-add and may vectorise/re-associate.  [psum_opt ts v] covers
    all of these (Proofs/RoundingP.v: [psum1] - any order, any tree shape, every rounding optional).

    [cell_bound]: if the stored weights [wh j] differ from the exact weights [w j], the computed cell
    differs from the exact-arithmetic cell [Sum_j a_j w_j] by at most

        Sum_j |a_j| * ( |wh_j - w_j| + ((1+u)^k - 1) (|w_j| + |wh_j - w_j|) )  +  (2k-1)(1+u)^k eta.  *)
From Coq Require Import Reals Lra Lia ZArith List Psatz Permutation.
From Inovesa Require Import Proofs.RoundingP.
Import ListNotations.
Local Open Scope R_scope.

Definition psum_opt (ts : list R) (v : R) : Prop :=
  match ts with [] => v = 0 | _ => psum1 u32 eta32 ts v end.

Definition g32 (k : nat) : R := (1 + u32) ^ k - 1.
Definition A32 (k : nat) : R := psum_abs u32 eta32 k.

(** the per-weight factor *)
Definition cw (k : nat) (w wh : R) : R := Rabs (wh - w) + g32 k * (Rabs w + Rabs (wh - w)).

Lemma u32_nonneg : 0 <= u32. Proof. left; apply u32_pos. Qed.
Lemma eta32_nonneg : 0 <= eta32. Proof. left; apply eta32_pos. Qed.

Lemma g32_nonneg k : 0 <= g32 k.
Proof. unfold g32. pose proof (pow1u_ge1 u32 u32_nonneg k). lra. Qed.

Lemma g32_mono j k : (j <= k)%nat -> g32 j <= g32 k.
Proof. intros H. unfold g32. pose proof (pow1u_mono u32 u32_nonneg j k H). lra. Qed.

Lemma A32_nonneg k : (1 <= k)%nat -> 0 <= A32 k.
Proof.
  intros H. unfold A32, psum_abs. pose proof (pow1u_ge1 u32 u32_nonneg k). pose proof eta32_nonneg.
  assert (1 <= INR k) by (change 1 with (INR 1); apply le_INR; exact H).
  apply Rmult_le_pos; [apply Rmult_le_pos; lra | lra].
Qed.

Lemma A32_mono j k : (1 <= j <= k)%nat -> A32 j <= A32 k.
Proof.
  intros [H1 H2]. unfold A32, psum_abs.
  pose proof (pow1u_ge1 u32 u32_nonneg j). pose proof (pow1u_mono u32 u32_nonneg j k H2). pose proof eta32_nonneg.
  assert (1 <= INR j) by (change 1 with (INR 1); apply le_INR; exact H1).
  assert (INR j <= INR k) by (apply le_INR; exact H2).
  apply Rmult_le_compat_r; [lra|]. apply Rmult_le_compat; lra.
Qed.

Lemma cw_nonneg k w wh : 0 <= cw k w wh.
Proof.
  unfold cw. pose proof (g32_nonneg k). pose proof (Rabs_pos (wh - w)). pose proof (Rabs_pos w). nra.
Qed.

Lemma Rsum_map_abs_le (J : list Z) (g : Z -> R) :
  Rabs (Rsum (map g J)) <= Rsum (map (fun j => Rabs (g j)) J).
Proof.
  induction J as [|j J IH]; cbn [map Rsum]; [rewrite Rabs_R0; lra|].
  eapply Rle_trans; [apply Rabs_triang|]. lra.
Qed.

Lemma Rsum_map_le (J : list Z) (g h : Z -> R) :
  (forall j, In j J -> g j <= h j) -> Rsum (map g J) <= Rsum (map h J).
Proof.
  induction J as [|j J IH]; intros H; cbn [map Rsum]; [lra|].
  pose proof (H j (or_introl eq_refl)). assert (forall i, In i J -> g i <= h i) by (intros; apply H; right; assumption).
  specialize (IH H1). lra.
Qed.

Lemma Rsum_map_add (J : list Z) (g h : Z -> R) :
  Rsum (map (fun j => g j + h j) J) = Rsum (map g J) + Rsum (map h J).
Proof. induction J as [|j J IH]; cbn [map Rsum]; [ring | rewrite IH; ring]. Qed.

Lemma Rsum_map_scale (J : list Z) (g : Z -> R) c :
  Rsum (map (fun j => c * g j) J) = c * Rsum (map g J).
Proof. induction J as [|j J IH]; cbn [map Rsum]; [ring | rewrite IH; ring]. Qed.

Lemma Rsum_map_sub (J : list Z) (g h : Z -> R) :
  Rsum (map g J) - Rsum (map h J) = Rsum (map (fun j => g j - h j) J).
Proof. induction J as [|j J IH]; cbn [map Rsum]; [ring | rewrite <- IH; ring]. Qed.

Theorem cell_bound (J : list Z) (a w wh : Z -> R) (v : R) (k : nat) :
  (length J <= k)%nat -> (1 <= k)%nat ->
  psum_opt (map (fun j => a j * wh j) J) v ->
  Rabs (v - Rsum (map (fun j => a j * w j) J)) <=
  Rsum (map (fun j => Rabs (a j) * cw k (w j) (wh j)) J) + A32 k.
Proof.
  intros Hk Hk1 Hp.
  destruct J as [|j0 J'] eqn:EJ.
  - cbn in Hp. subst v. cbn [map Rsum]. replace (0 - 0) with 0 by ring. rewrite Rabs_R0.
    pose proof (A32_nonneg k Hk1). lra.
  - rewrite <- EJ in *. assert (NE : (1 <= length J)%nat) by (rewrite EJ; cbn; lia).
    assert (Hp' : psum1 u32 eta32 (map (fun j => a j * wh j) J) v).
    { rewrite EJ in Hp |- *. exact Hp. }
    clear Hp. pose proof (psum1_bound u32 eta32 u32_nonneg eta32_nonneg Hp') as B.
    rewrite map_length in B. unfold Rasum in B. rewrite map_map in B.
    fold (g32 (length J)) in B. fold (A32 (length J)) in B.
    replace (v - Rsum (map (fun j => a j * w j) J))
      with ((v - Rsum (map (fun j => a j * wh j) J)) +
            (Rsum (map (fun j => a j * wh j) J) - Rsum (map (fun j => a j * w j) J))) by ring.
    eapply Rle_trans; [apply Rabs_triang|].
    rewrite Rsum_map_sub.
    assert (D : Rabs (Rsum (map (fun j => a j * wh j - a j * w j) J)) <=
                Rsum (map (fun j => Rabs (a j) * Rabs (wh j - w j)) J)).
    { eapply Rle_trans; [apply Rsum_map_abs_le|]. apply Rsum_map_le. intros j _.
      replace (a j * wh j - a j * w j) with (a j * (wh j - w j)) by ring. rewrite Rabs_mult. lra. }
    assert (G : g32 (length J) * Rsum (map (fun j => Rabs (a j * wh j)) J) <=
                Rsum (map (fun j => Rabs (a j) * (g32 k * (Rabs (w j) + Rabs (wh j - w j)))) J)).
    { rewrite <- Rsum_map_scale. apply Rsum_map_le. intros j _. rewrite Rabs_mult.
      assert (T : Rabs (wh j) <= Rabs (w j) + Rabs (wh j - w j)).
      { replace (wh j) with (w j + (wh j - w j)) at 1 by ring. apply Rabs_triang. }
      pose proof (g32_mono _ _ Hk). pose proof (g32_nonneg (length J)). pose proof (Rabs_pos (a j)).
      pose proof (Rabs_pos (w j)). pose proof (Rabs_pos (wh j - w j)). pose proof (Rabs_pos (wh j)).
      assert (g32 (length J) * Rabs (wh j) <= g32 k * (Rabs (w j) + Rabs (wh j - w j))) by nra.
      nra. }
    pose proof (A32_mono (length J) k (conj NE Hk)) as AM.
    assert (S : Rsum (map (fun j => Rabs (a j) * cw k (w j) (wh j)) J) =
                Rsum (map (fun j => Rabs (a j) * Rabs (wh j - w j)) J) +
                Rsum (map (fun j => Rabs (a j) * (g32 k * (Rabs (w j) + Rabs (wh j - w j)))) J)).
    { rewrite <- Rsum_map_add. f_equal. apply map_ext. intros j. unfold cw. ring. }
    rewrite S. lra.
Qed.

(** the left-to-right accumulation of the C++ loops, rounded to nearest at every step (no contraction)
    or with every step fused, is such a [psum_opt] *)
Fixpoint acc_rn (ts : list (R * R)) (acc : R) : R :=
  match ts with [] => acc | (a, b) :: r => acc_rn r (RN32 (acc + RN32 (a * b))) end.
Fixpoint acc_fma (ts : list (R * R)) (acc : R) : R :=
  match ts with [] => acc | (a, b) :: r => acc_fma r (RN32 (a * b + acc)) end.

Lemma pacc_acc_rn ts : forall l acc, pacc u32 eta32 l acc ->
  pacc u32 eta32 (l ++ map (fun ab => fst ab * snd ab) ts) (acc_rn ts acc).
Proof.
  induction ts as [|[a b] ts IH]; intros l acc H; cbn [map acc_rn fst snd].
  - rewrite app_nil_r. exact H.
  - replace (l ++ a * b :: map (fun ab => fst ab * snd ab) ts)
      with ((l ++ [a * b]) ++ map (fun ab => fst ab * snd ab) ts) by (rewrite <- app_assoc; reflexivity).
    apply IH. eapply pa_step; [exact H | apply RN32_pert | apply RN32_pert].
Qed.

Lemma pacc_acc_fma ts : forall l acc, pacc u32 eta32 l acc ->
  pacc u32 eta32 (l ++ map (fun ab => fst ab * snd ab) ts) (acc_fma ts acc).
Proof.
  induction ts as [|[a b] ts IH]; intros l acc H; cbn [map acc_fma fst snd].
  - rewrite app_nil_r. exact H.
  - replace (l ++ a * b :: map (fun ab => fst ab * snd ab) ts)
      with ((l ++ [a * b]) ++ map (fun ab => fst ab * snd ab) ts) by (rewrite <- app_assoc; reflexivity).
    apply IH. eapply pa_step; [exact H | apply pert_refl; [apply u32_nonneg | apply eta32_nonneg] |].
    replace (acc + a * b) with (a * b + acc) by ring. apply RN32_pert.
Qed.

(** [value = 0; for j: value += a_j * b_j] *)
Theorem loop_rn_psum ts : psum_opt (map (fun ab => fst ab * snd ab) ts) (acc_rn ts 0).
Proof.
  destruct ts as [|[a b] ts]; [reflexivity|].
  unfold psum_opt. cbn [map fst snd]. apply pacc_psum1. cbn [acc_rn].
  (* the first addition 0 + fl(a*b) returns fl(a*b): a float is not rounded again *)
  replace (RN32 (0 + RN32 (a * b))) with (RN32 (a * b)) by (rewrite Rplus_0_l, RN32_idem; reflexivity).
  apply (pacc_acc_rn ts [a * b]). apply pa_one. apply RN32_pert.
Qed.

Theorem loop_fma_psum ts : psum_opt (map (fun ab => fst ab * snd ab) ts) (acc_fma ts 0).
Proof.
  destruct ts as [|[a b] ts]; [reflexivity|].
  unfold psum_opt. cbn [map fst snd]. apply pacc_psum1. cbn [acc_fma].
  replace (a * b + 0) with (a * b) by ring.
  apply (pacc_acc_fma ts [a * b]). apply pa_one. apply RN32_pert.
Qed.
