(** C14 for the whole generated program: set-up skeleton [main_setup] + [main_prog]
    (Gen/Gen_MainLoop.v); per-run checker obligations in Proofs/DriverMainP.v. *)
From Coq Require Import List ZArith Bool Lia.
From Inovesa Require Import Model.Driver Model.Setup Gen.Gen_MainLoop Proofs.DriverP Proofs.SetupP
  Proofs.DriverFreeP Proofs.DriverMainP.
Import ListNotations.
Local Open Scope Z_scope.

Section M.
  Variable K : kern.
  Notation st := (st K).

  Lemma main_setup_never_clears_flag sig ev cf (s : st) : frame ev ->
    flagmono sig s (rstate (sexec sig ev cf main_setup s)).
  Proof. intros F. apply (setup_never_clears_flag K sig ev cf main_setup s F main_setup_checked). Qed.

  Lemma main_setup_flag_only_by_signal sig ev cf (s : st) : frame ev -> (forall n, thr ev n = false) ->
    flagrel K sig s (rstate (sexec sig ev cf main_setup s)) /\ (forall s', sexec sig ev cf main_setup s <> Thr s').
  Proof. intros F Hn. apply (setup_flag_only_by_signal K sig ev cf main_setup s F main_setup_checked Hn). Qed.

  Lemma main_setup_independent_of_signals sig1 sig2 ev cf (s1 s2 : st) : flagblind ev -> clr K s1 = clr K s2 ->
    same_kind (sexec sig1 ev cf main_setup s1) (sexec sig2 ev cf main_setup s2).
  Proof. intros B H. apply (setup_independent_of_signals K sig1 sig2 ev cf main_setup B false main_setup_checked s1 s2 H). Qed.

  (** a signal at a hook point of the set-up (or a flag already set), set-up completed *)
  Lemma main_interrupt_during_setup sig ev cf (s s1 : st) : frame ev ->
    sexec sig ev cf main_setup s = Norm s1 ->
    abort s = true \/ sig_between sig (pc s) (pc s1) ->
    steps_done K sig cf main_prog s1 = 0%nat /\
    exists a t e z,
      split_closing (p_post main_prog) = Some (a, t, e, z) /\
      full_run sig ev cf main_setup main_prog s = Finished (run sig cf main_prog s1) /\
      file (run sig cf main_prog s1) = file (exec_blk nosig cf a (exec_blk nosig cf (p_pre main_prog) (clr K s1))) /\
      k (run sig cf main_prog s1) = k (exec_blk nosig cf a (exec_blk nosig cf (p_pre main_prog) (clr K s1))) /\
      status (run sig cf main_prog s1) = Some 0 /\
      last (log (run sig cf main_prog s1)) MStatus = MAborted.
  Proof.
    intros F Hx Hs.
    pose proof (main_setup_never_clears_flag sig ev cf s F) as (_ & M). rewrite Hx in M. cbn [rstate] in M.
    apply (early_signal_shape K sig ev cf main_setup main_prog s s1 F main_setup_checked main_abort_checked Hx (M Hs)).
  Qed.

  (** the set-up returns: exit status EXIT_SUCCESS or EXIT_FAILURE, nothing was written, no step counted *)
  Lemma main_setup_return sig ev cf (s s1 : st) : frame ev -> status s = None ->
    sexec sig ev cf main_setup s = Ret s1 ->
    (status s1 = Some 0 \/ status s1 = Some 1) /\ file s1 = file s /\ k s1 = k s.
  Proof.
    intros F Hs Hx.
    pose proof (sexec_status K sig ev cf F main_setup false main_setup_checked s Hs) as X. rewrite Hx in X.
    destruct X as (z & A & B).
    pose proof (setup_leaves_file_alone K sig ev cf main_setup s F main_setup_checked) as (C & D). rewrite Hx in C, D. cbn [rstate] in C, D.
    split; [|split; auto].
    pose proof main_setup_returns as R. rewrite forallb_forall in R. specialize (R z B).
    apply orb_true_iff in R. destruct R as [R|R]; apply Z.eqb_eq in R; subst; auto.
  Qed.

  (** the set-up completes: status still unset, nothing written, counters untouched *)
  Lemma main_setup_normal sig ev cf (s s1 : st) : frame ev -> status s = None ->
    sexec sig ev cf main_setup s = Norm s1 -> status s1 = None /\ file s1 = file s /\ k s1 = k s.
  Proof.
    intros F Hs Hx.
    pose proof (sexec_status K sig ev cf F main_setup false main_setup_checked s Hs) as X. rewrite Hx in X.
    pose proof (setup_leaves_file_alone K sig ev cf main_setup s F main_setup_checked) as (C & D). rewrite Hx in C, D. cbn [rstate] in C, D.
    auto.
  Qed.

  (** the set-up reads of the configuration only `renormalize >= 0`: not the output schedule *)
  Lemma main_setup_guards : su_guards main_setup = [GRenorm0].
  Proof. vm_compute. reflexivity. Qed.

  Lemma main_setup_ignores_cadence sig ev c1 c2 (s : st) : renorm c1 = renorm c2 ->
    sexec sig ev c1 main_setup s = sexec sig ev c2 main_setup s.
  Proof.
    intros Hr. apply (sexec_cfg K sig ev c1 c2 main_setup false main_setup_checked).
    rewrite main_setup_guards. intros g s0 [<-|[]]. cbn. rewrite Hr. reflexivity.
  Qed.

  (** C12 for the whole program: two runs that differ in the output schedule only end the same
      way; if they reach the end of main their dynamic parts agree *)
  Lemma main_whole_program_cadence ev c1 c2 t (s : st) : shared c1 c2 ->
    match full_run nosig ev c1 main_setup main_prog s, full_run nosig ev c2 main_setup main_prog s with
    | Finished a, Finished b => dynx K t a = dynx K t b
    | Early a, Early b | Crashed a, Crashed b => a = b
    | _, _ => False
    end.
  Proof.
    intros Hs. unfold full_run. rewrite (main_setup_ignores_cadence nosig ev c1 c2 s) by (destruct Hs as (_ & H & _); exact H).
    destruct (sexec nosig ev c2 main_setup s) as [a|a|a]; [|exact eq_refl|exact eq_refl].
    exact (cadence_independence_run K main_prog c1 c2 t main_cadence_checked Hs a a eq_refl).
  Qed.

  Lemma main_no_use_after_free sig cf (s0 : st) : freed s0 = [] -> uaf s0 = false ->
    uaf (run sig cf main_prog s0) = false /\
    (forall o, In o (freed (run sig cf main_prog s0)) -> In o (frees (p_post main_prog))).
  Proof. intros Hf Hu. apply (run_no_use_after_free K sig cf main_prog s0 main_free_checked Hf Hu). Qed.
End M.
