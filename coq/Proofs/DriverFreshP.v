(** Projection freshness (C12, strengthening driven by seed C12-H).

    `PhaseSpace::integrateAndNormalize()` integrates the CACHED x-projection and rescales the grid with
    the result.  The renormalisation is the charge of the current grid only if the cache was refreshed
    (`updateXProjection()`) after the last call that wrote the grid.  In main() that refresh is the
    last-but-one statement of the loop body; a change that makes it conditional (on the wake map, on the
    output schedule, ...) leaves the renormalisation with the profile of some earlier step.

    [fr_blk] is an abstract interpretation of a block with one bit "xp = projX g1 is known";
    [fresh_checker] demands the bit at every IntegrateAndNormalize of the program (prologue entered with
    the bit unknown, loop body and final block with the bit the prologue / the body establish).
    Soundness, for every kernel record, configuration, signal schedule and start state:
    inserting `updateXProjection()` before every `integrateAndNormalize()` does not change the run
    ([refresh_run]), and the projection is fresh at every loop head ([fresh_at_heads]). *)
From Coq Require Import List ZArith Bool Lia.
From Inovesa Require Import Model.Driver.
Import ListNotations.
Local Open Scope Z_scope.

(** effect of a call on "the cached x-projection is the projection of grid 1":
    established by UpdateXProj, destroyed by every call that writes g1, untouched by the rest *)
Definition fr_eff (c : call) : option bool :=
  match c with
  | UpdateXProj => Some true
  | IntegrateAndNormalize | Normalize | Apply MRF | Apply MFP => Some false
  | _ => None
  end.

Definition fr_after (f : bool) (c : call) : bool :=
  match fr_eff c with Some b => b | None => f end.

Definition is_ian (c : call) : bool :=
  match c with IntegrateAndNormalize => true | _ => false end.

(** [None]: an IntegrateAndNormalize is reached while the projection may be stale *)
Fixpoint fr_blk (f : bool) (b : blk) : option bool :=
  match b with
  | Done => Some f
  | Seq c r => if is_ian c && negb f then None else fr_blk (fr_after f c) r
  | Cond g t e r =>
      match fr_blk f t, fr_blk f e with
      | Some a, Some b' => fr_blk (a && b') r
      | _, _ => None
      end
  end.

Definition fresh_checker (p : prog) : bool :=
  match fr_blk false (p_pre p) with
  | Some true =>
      match fr_blk true (p_body p) with
      | Some true => match fr_blk true (p_post p) with Some _ => true | None => false end
      | _ => false
      end
  | _ => false
  end.

(** the program with `updateXProjection()` inserted before every `integrateAndNormalize()` *)
Fixpoint refresh (b : blk) : blk :=
  match b with
  | Done => Done
  | Seq c r => if is_ian c then Seq UpdateXProj (Seq c (refresh r)) else Seq c (refresh r)
  | Cond g t e r => Cond g (refresh t) (refresh e) (refresh r)
  end.

Definition refresh_prog (p : prog) : prog :=
  mkprog (refresh (p_pre p)) (refresh (p_body p)) (refresh (p_post p)).

Fixpoint count_ian (b : blk) : nat :=
  match b with
  | Done => O
  | Seq c r => ((if is_ian c then 1 else 0) + count_ian r)%nat
  | Cond _ t e r => (count_ian t + count_ian e + count_ian r)%nat
  end.

Fixpoint count_calls (b : blk) : nat :=
  match b with
  | Done => O
  | Seq _ r => S (count_calls r)
  | Cond _ t e r => (count_calls t + count_calls e + count_calls r)%nat
  end.

Lemma refresh_adds b : count_calls (refresh b) = (count_calls b + count_ian b)%nat.
Proof.
  induction b as [|c r IH|g t IHt e IHe r IHr]; cbn [refresh count_calls count_ian].
  - reflexivity.
  - destruct (is_ian c); cbn [count_calls]; rewrite IH; lia.
  - rewrite IHt, IHe, IHr. lia.
Qed.

Section F.
  Variable K : kern.
  Notation st := (st K).

  Definition Fresh (s : st) : Prop := xp s = k_projX K (g1 s).

  Lemma refresh_noop sig cf (s : st) : Fresh s -> exec sig cf UpdateXProj s = s.
  Proof.
    unfold Fresh, exec. intro H. cbn [exec1 touches_freed uses existsb]. rewrite <- H, orb_false_r.
    destruct s; reflexivity.
  Qed.

  Lemma fr_after_ok sig cf c f (s : st) :
    (f = true -> Fresh s) -> fr_after f c = true -> Fresh (exec sig cf c s).
  Proof.
    unfold fr_after, Fresh. intros Hf Ha.
    destruct c as [| | |ax| | | | |a|m|m| | |m| |l| |o]; cbn [fr_eff] in Ha;
      try discriminate Ha; try (destruct s; cbn in *; auto; fail).
    - destruct ax; destruct s; cbn in *; auto.
    - destruct a as [a| | | | |]; destruct s; cbn in *; auto.
    - destruct m; cbn [fr_eff] in Ha; try discriminate Ha; destruct s; cbn in *; auto;
        destruct (wake cf); auto.
  Qed.

  Lemma fr_blk_sound sig cf b : forall f f' (s : st),
    fr_blk f b = Some f' -> (f = true -> Fresh s) ->
    exec_blk sig cf (refresh b) s = exec_blk sig cf b s /\ (f' = true -> Fresh (exec_blk sig cf b s)).
  Proof.
    induction b as [|c r IH|g t IHt e IHe r IHr]; intros f f' s Hb Hf; cbn [fr_blk refresh exec_blk] in *.
    - inversion Hb; subst. split; auto.
    - destruct (is_ian c) eqn:Hi; cbn [andb] in Hb.
      + destruct f; cbn [negb] in Hb; try discriminate Hb.
        cbn [exec_blk]. rewrite (refresh_noop sig cf s (Hf eq_refl)).
        apply (IH _ _ _ Hb). intro Ht. apply fr_after_ok with (f := true); auto.
      + cbn [exec_blk]. apply (IH _ _ _ Hb). intro Ht. apply fr_after_ok with (f := f); auto.
    - destruct (fr_blk f t) as [a|] eqn:Ht; try discriminate Hb.
      destruct (fr_blk f e) as [b'|] eqn:He; try discriminate Hb.
      destruct (IHt _ _ s Ht Hf) as [Et Ft]. destruct (IHe _ _ s He Hf) as [Ee Fe].
      destruct (gval cf s g).
      + rewrite Et. apply (IHr _ _ _ Hb). intro Hab. apply andb_true_iff in Hab. apply Ft, Hab.
      + rewrite Ee. apply (IHr _ _ _ Hb). intro Hab. apply andb_true_iff in Hab. apply Fe, Hab.
  Qed.

  Lemma refresh_loop sig cf body : fr_blk true body = Some true ->
    forall fuel (s : st), Fresh s ->
      loop sig cf (refresh body) fuel s = loop sig cf body fuel s /\ Fresh (loop sig cf body fuel s).
  Proof.
    intros Hb. induction fuel as [|n IH]; intros s Hs; cbn [loop].
    - split; auto.
    - destruct (cont cf s); [|split; auto].
      destruct (fr_blk_sound sig cf body true true s Hb (fun _ => Hs)) as [E F].
      rewrite E. apply IH. apply F. reflexivity.
  Qed.

  Lemma fresh_iter sig cf body : fr_blk true body = Some true ->
    forall n (s : st), Fresh s -> Fresh (iter sig cf body n s).
  Proof.
    intros Hb. induction n as [|n IH]; intros s Hs; cbn [iter]; auto.
    apply IH. apply (fr_blk_sound sig cf body true true s Hb (fun _ => Hs)). reflexivity.
  Qed.

  Theorem refresh_run p : fresh_checker p = true ->
    forall sig cf (s : st), run sig cf (refresh_prog p) s = run sig cf p s.
  Proof.
    unfold fresh_checker, run, refresh_prog. intros H sig cf s. cbn [p_pre p_body p_post].
    destruct (fr_blk false (p_pre p)) as [[|]|] eqn:Hpre; try discriminate H.
    destruct (fr_blk true (p_body p)) as [[|]|] eqn:Hbody; try discriminate H.
    destruct (fr_blk true (p_post p)) as [fp|] eqn:Hpost; try discriminate H.
    destruct (fr_blk_sound sig cf (p_pre p) false true s Hpre) as [E1 F1]; [discriminate|].
    rewrite E1.
    destruct (refresh_loop sig cf (p_body p) Hbody (Z.to_nat (laststep cf)) _ (F1 eq_refl)) as [E2 F2].
    rewrite E2.
    apply (fr_blk_sound sig cf (p_post p) true fp _ Hpost (fun _ => F2)).
  Qed.

  Theorem fresh_at_heads p : fresh_checker p = true ->
    forall sig cf (s : st) n, Fresh (iter sig cf (p_body p) n (exec_blk sig cf (p_pre p) s)).
  Proof.
    unfold fresh_checker. intros H sig cf s n.
    destruct (fr_blk false (p_pre p)) as [[|]|] eqn:Hpre; try discriminate H.
    destruct (fr_blk true (p_body p)) as [[|]|] eqn:Hbody; try discriminate H.
    apply fresh_iter; auto.
    apply (fr_blk_sound sig cf (p_pre p) false true s Hpre); [discriminate|reflexivity].
  Qed.
End F.

(** a loop whose projection refresh depends on the output schedule (the shape of seed C12-H, reduced to the
    guards the statement language has) is refused *)
Definition stale_example : prog :=
  mkprog (Seq UpdateXProj Done)
         (Cond GRenorm (Seq IntegrateAndNormalize Done) (Seq Integrate Done)
            (Seq (Apply MFP) (Cond GOut (Seq UpdateXProj Done) Done (Seq IncStep Done))))
         Done.
Lemma stale_example_refused : fresh_checker stale_example = false.
Proof. vm_compute. reflexivity. Qed.
