(** The `delete` statements at the end of main() (`delete wake_field; delete wm; delete fpm;`)
    as statements of the driver model: no statement of the program goes through an object after
    it was freed, and nothing is freed twice - for every configuration and signal schedule. *)
From Coq Require Import List ZArith Bool Lia.
From Inovesa Require Import Model.Driver Proofs.DriverP.
Import ListNotations.
Local Open Scope Z_scope.

Definition is_free (c : call) : bool := match c with Free _ => true | _ => false end.

Fixpoint no_free (b : blk) : bool :=
  match b with
  | Done => true
  | Seq c r => negb (is_free c) && no_free r
  | Cond _ t e r => no_free t && no_free e && no_free r
  end.

(** every object freed somewhere in the block *)
Fixpoint frees (b : blk) : list obj :=
  match b with
  | Done => []
  | Seq (Free o) r => o :: frees r
  | Seq _ r => frees r
  | Cond _ t e r => frees t ++ frees e ++ frees r
  end.

Definition touches (fr : list obj) (c : call) : bool :=
  existsb (fun o => existsb (obj_eqb o) fr) (uses c).

(** [safe fr b]: with at most the objects [fr] freed on entry, no call of [b] goes through a freed
    object (after a conditional, whatever either branch frees counts as freed) *)
Fixpoint safe (fr : list obj) (b : blk) : bool :=
  match b with
  | Done => true
  | Seq c r => negb (touches fr c) && safe (match c with Free o => o :: fr | _ => fr end) r
  | Cond _ t e r => safe fr t && safe fr e && safe (frees t ++ frees e ++ fr) r
  end.

(** per-run obligation: nothing is freed before the final block; the final block is safe *)
Definition free_checker (p : prog) : bool :=
  no_free (p_pre p) && no_free (p_body p) && safe [] (p_post p).

Section F.
  Variable K : kern.
  Notation st := (st K).

  Definition sub (a b : list obj) : Prop := forall o, In o a -> In o b.

  Lemma obj_eqb_eq a b : obj_eqb a b = true <-> a = b.
  Proof. destruct a, b; cbn; split; intros; try discriminate; auto. Qed.

  Lemma touches_sub fr fr' c : sub fr fr' -> touches fr' c = false -> touches fr c = false.
  Proof.
    unfold touches. intros Hs H. apply not_true_iff_false. intro X. apply not_true_iff_false in H. apply H.
    apply existsb_exists in X. destruct X as (o & Ho & X). apply existsb_exists in X. destruct X as (o' & Ho' & E).
    apply existsb_exists. exists o. split; auto. apply existsb_exists. exists o'. split; auto.
  Qed.

  Lemma freed_exec sig cf c (s : st) : freed (exec sig cf c s) = match c with Free o => o :: freed s | _ => freed s end.
  Proof.
    destruct c as [| | |ax| | | | |a|m|m| | |m| |l| |o]; try (destruct s; reflexivity);
      try (destruct ax; destruct s; reflexivity); try (destruct a; destruct s; reflexivity).
    destruct m; try (destruct s; reflexivity). unfold exec; cbn. destruct (dynrf cf); destruct s; reflexivity.
  Qed.

  Lemma uaf_exec sig cf c (s : st) : uaf (exec sig cf c s) = uaf s || touches (freed s) c.
  Proof.
    unfold touches. destruct s; reflexivity.
  Qed.

  Lemma sub_cons o a b : sub a b -> sub (o :: a) (o :: b).
  Proof. intros H x [->|Hx]; [left; auto | right; auto]. Qed.

  (** soundness: a safe block never sets the use-after-free flag, and frees at most [frees b] *)
  Lemma safe_blk sig cf b : forall fr (s : st), sub (freed s) fr -> uaf s = false -> safe fr b = true ->
    uaf (exec_blk sig cf b s) = false /\ sub (freed (exec_blk sig cf b s)) (frees b ++ fr).
  Proof.
    induction b as [|c r IH|g t IHt e IHe r IHr]; cbn [exec_blk safe frees]; intros fr s Hs Hu H.
    - split; auto.
    - apply andb_true_iff in H. destruct H as [H1 H2]. apply negb_true_iff in H1.
      assert (Hu' : uaf (exec sig cf c s) = false).
      { rewrite uaf_exec, Hu. cbn. eapply touches_sub; eauto. }
      assert (Hs' : sub (freed (exec sig cf c s)) (match c with Free o => o :: fr | _ => fr end)).
      { rewrite freed_exec. destruct c; auto. apply sub_cons; auto. }
      destruct (IH _ _ Hs' Hu' H2) as [A B]. split; auto.
      intros o Ho. specialize (B o Ho). destruct c; auto.
      rewrite in_app_iff in B. cbn. rewrite in_app_iff. cbn in B. tauto.
    - repeat (apply andb_true_iff in H; destruct H as [H ?]).
      destruct (gval cf s g).
      + destruct (IHt _ _ Hs Hu ltac:(eassumption)) as [A B].
        assert (B' : sub (freed (exec_blk sig cf t s)) (frees t ++ frees e ++ fr))
          by (intros o Ho; specialize (B o Ho); rewrite !in_app_iff in *; tauto).
        destruct (IHr _ _ B' A ltac:(eassumption)) as [A2 B2]. split; auto.
        intros o Ho. specialize (B2 o Ho). rewrite !in_app_iff in *. tauto.
      + destruct (IHe _ _ Hs Hu ltac:(eassumption)) as [A B].
        assert (B' : sub (freed (exec_blk sig cf e s)) (frees t ++ frees e ++ fr))
          by (intros o Ho; specialize (B o Ho); rewrite !in_app_iff in *; tauto).
        destruct (IHr _ _ B' A ltac:(eassumption)) as [A2 B2]. split; auto.
        intros o Ho. specialize (B2 o Ho). rewrite !in_app_iff in *. tauto.
  Qed.

  Lemma no_free_blk sig cf b : no_free b = true -> forall (s : st), freed s = [] -> uaf s = false ->
    freed (exec_blk sig cf b s) = [] /\ uaf (exec_blk sig cf b s) = false.
  Proof.
    induction b as [|c r IH|g t IHt e IHe r IHr]; cbn; intros Hn s Hf Hu; auto.
    - apply andb_true_iff in Hn. destruct Hn as [H1 H2]. apply negb_true_iff in H1.
      apply IH; auto.
      + rewrite freed_exec. destruct c; auto; discriminate.
      + rewrite uaf_exec, Hu, Hf. unfold touches. cbn. induction (uses c); cbn; auto.
    - repeat (apply andb_true_iff in Hn; destruct Hn as [Hn ?]).
      destruct (gval cf s g).
      + destruct (IHt ltac:(assumption) s Hf Hu). apply IHr; auto.
      + destruct (IHe ltac:(assumption) s Hf Hu). apply IHr; auto.
  Qed.

  Lemma no_free_iter sig cf b n : no_free b = true -> forall (s : st), freed s = [] -> uaf s = false ->
    freed (iter sig cf b n s) = [] /\ uaf (iter sig cf b n s) = false.
  Proof.
    intros Hb. induction n; cbn; intros s Hf Hu; auto.
    destruct (no_free_blk sig cf b Hb s Hf Hu). apply IHn; auto.
  Qed.

  (** for every configuration and signal schedule: the run never uses a freed object (in
      particular it frees nothing twice), and what it frees is what the final block deletes *)
  Theorem run_no_use_after_free sig cf p (s0 : st) : free_checker p = true -> freed s0 = [] -> uaf s0 = false ->
    uaf (run sig cf p s0) = false /\ sub (freed (run sig cf p s0)) (frees (p_post p)).
  Proof.
    unfold free_checker. intros H Hf Hu.
    apply andb_true_iff in H. destruct H as [H Hpost]. apply andb_true_iff in H. destruct H as [Hpre Hbody].
    unfold run.
    pose proof (loop_iter K sig cf (p_body p) (Z.to_nat (laststep cf)) (exec_blk sig cf (p_pre p) s0)) as L.
    cbv zeta in L. destruct L as (_ & E & _ & _). rewrite E.
    destruct (no_free_blk sig cf (p_pre p) Hpre s0 Hf Hu) as [A B].
    destruct (no_free_iter sig cf (p_body p) (nsteps K sig cf (p_body p) (Z.to_nat (laststep cf)) (exec_blk sig cf (p_pre p) s0)) Hbody _ A B) as [A' B'].
    destruct (safe_blk sig cf (p_post p) [] _ ltac:(rewrite A'; intros o []) B' Hpost) as [U S].
    split; auto. rewrite app_nil_r in S. exact S.
  Qed.
End F.
