(** * Generated integer sizes (Gen/Gen_ScalingZ.v): the statements that need facts about binary64 rounding
    (monotone, exact on integers; Proofs/Float64P.v - real-number axioms of the standard library):
    the radiation field and a single-bucket wake field stay inside buffers of ceil(GridSize*max(padding,1))
    cells, and the closed formulas of the padded lengths (C06, C17). *)
From Coq Require Import List ZArith QArith Qcanon Qround Lia Bool ZifyBool.
From Inovesa Require Import Base.FieldKit Base.Float32 Model.Kick Model.Bounds Model.ScalingOps
  Gen.Gen_ScalingZ Proofs.KickP Proofs.BoundsP Proofs.Float64P Proofs.ScalingZP.
Import ListNotations.
Local Open Scope Z_scope.

Lemma Qcmax_ge_r a b : (this b <= this (Qcmax a b))%Q.
Proof.
  unfold Qcmax. destruct (Qle_bool (this a) (this b)) eqn:E; [apply Qle_refl|].
  apply Qlt_le_weak. apply Qnot_le_lt. intro X. apply Qle_bool_iff in X. congruence.
Qed.
Lemma Qcmax_ge_l a b : (this a <= this (Qcmax a b))%Q.
Proof. unfold Qcmax. destruct (Qle_bool (this a) (this b)) eqn:E; [apply Qle_bool_iff; exact E | apply Qle_refl]. Qed.

(** ceil(fl(n * m)) >= n for an integer n < 2^32 and a factor m >= 1 (either order of the factors) *)
Lemma ceil_prod_ge n (m : Qc) :
  0 < n < 2 ^ 32 -> (1 <= this m)%Q -> n <= Qcceil (rnd53 (Qcz n * m)%Qc) /\ n <= Qcceil (rnd53 (m * Qcz n)%Qc).
Proof.
  intros Hn Hm.
  assert (A : (this (Qcz n) <= this (Qcz n * m)%Qc)%Q).
  { rewrite this_mult, this_Qcz. rewrite <- (Qmult_1_r (inject_Z n)) at 1.
    apply Qmult_le_l; [|exact Hm]. change 0%Q with (inject_Z 0). rewrite <- Zlt_Qlt. lia. }
  assert (B : n <= Qcceil (rnd53 (Qcz n * m)%Qc)).
  { pose proof (rnd53_le _ _ A) as R. rewrite (rnd53_Qcz n) in R by (change (2 ^ 53) with 9007199254740992; change (2 ^ 32) with 4294967296 in Hn; lia).
    pose proof (Qcceil_ge (rnd53 (Qcz n * m)%Qc)) as C. rewrite this_Qcz in R.
    pose proof (Qle_trans _ _ _ R C) as T. rewrite <- Zle_Qle in T. exact T. }
  split; [exact B|]. replace (m * Qcz n)%Qc with (Qcz n * m)%Qc by ring. exact B.
Qed.

Lemma this_Qcz1 : (1 <= this (Qcz 1))%Q.
Proof. rewrite this_Qcz. apply Qle_refl. Qed.

Ltac ceil_pad_ge n :=
  match goal with
  | |- context [Qcceil (rnd53 (Qcz n * ?m)%Qc)] =>
    pose proof (proj1 (ceil_prod_ge n m ltac:(assumption)
      ltac:(first [ eapply Qle_trans; [exact this_Qcz1 | apply Qcmax_ge_r]
                  | eapply Qle_trans; [exact this_Qcz1 | apply Qcmax_ge_l] ])))
  | |- context [Qcceil (rnd53 (?m * Qcz n)%Qc)] =>
    pose proof (proj2 (ceil_prod_ge n m ltac:(assumption)
      ltac:(first [ eapply Qle_trans; [exact this_Qcz1 | apply Qcmax_ge_r]
                  | eapply Qle_trans; [exact this_Qcz1 | apply Qcmax_ge_l] ])))
  end.

(** a length of the form [if round then upper_power_of_two c else c] with c >= n, when not wrapped to 0 *)
Lemma padded_ge n c nm (r : bool) :
  1 <= n <= c -> 0 <= c < 2 ^ 64 -> (if r then upper_power_of_two c else c) = nm -> 0 < nm -> n <= nm.
Proof.
  intros Hn Hc E P. destruct r; [|lia].
  pose proof (upper_power_of_two_nonzero_ge c ltac:(lia) ltac:(lia)). lia.
Qed.

(** the radiation field: spacing 0, ceil(GridSize*max(padding,1)) cells (or the next power of two) *)
Lemma gen_rdtn_in_bounds LZ LQ LB sp nm b x :
  0 < LZ O_getGridSize < 2 ^ 32 ->
  gen_rdtn_spacing_bins LZ LQ LB = Val sp -> gen_rdtn_nfreqs LZ LQ LB = Val nm -> 0 < nm ->
  0 <= b < 2 ^ 32 -> 0 <= x < LZ O_getGridSize ->
  sp = 0 /\ 0 <= pad_index sp b x < nm.
Proof.
  set (n := LZ O_getGridSize). intros Hn Hsp Hnm Hpos Hb Hx.
  unfold gen_rdtn_spacing_bins in Hsp. unfold gen_rdtn_nfreqs in Hnm. fold n in Hnm.
  injection Hsp as <-. split; [reflexivity|].
  assert (P : pad_index 0 b x = x).
  { unfold pad_index, pad_start, w64. rewrite Z.mul_0_r. rewrite Z.mod_0_l by (intro Q; discriminate Q). lia. }
  rewrite P. clear P.
  split_convs Hnm. injection Hnm as Hnm.
  match goal with E : f2u _ _ = Val ?z |- _ => apply f2u_Qcz in E; destruct E as [-> R] end.
  revert Hnm R. ceil_pad_ge n. intros Hnm R.
  match type of Hnm with (if ?r then upper_power_of_two ?c else ?c) = _ =>
    pose proof (padded_ge n c nm r ltac:(lia) R Hnm Hpos) end.
  lia.
Qed.

(** the wake field of a single-bucket run uses the same length *)
Lemma gen_pad_in_bounds_single LZ LQ LB sp nm x :
  0 < LZ O_getGridSize < 2 ^ 32 -> 0 <= LZ N_getBunchCurrents <= 1 ->
  gen_spacing_bins LZ LQ LB = Val sp -> gen_wake_nfreqs LZ LQ LB = Val nm -> 0 < nm ->
  0 <= x < LZ O_getGridSize ->
  0 <= pad_index sp 0 x < nm.
Proof.
  set (n := LZ O_getGridSize). set (nb := LZ N_getBunchCurrents).
  intros Hn Hnb Hsp Hnm Hpos Hx.
  unfold gen_wake_nfreqs in Hnm. fold n nb in Hnm.
  assert (P : pad_index sp 0 x = x) by (unfold pad_index, pad_start, w64; cbn; lia).
  rewrite P. clear P Hsp.
  split_convs Hnm. injection Hnm as Hnm.
  destruct (1 <? nb) eqn:C; [lia|].
  repeat match goal with E : f2u _ _ = Val ?z |- _ => apply f2u_Qcz in E; destruct E as [-> ?] end.
  revert Hnm. ceil_pad_ge n. intros Hnm.
  match type of Hnm with (if ?r then upper_power_of_two ?c else ?c) = _ =>
    pose proof (padded_ge n c nm r ltac:(lia) ltac:(assumption) Hnm Hpos) end.
  lia.
Qed.

(** ** closed formulas (C06): the values themselves, up to ring identities of the products *)
Lemma gen_spacing_bins_formula LZ LQ LB sp :
  gen_spacing_bins LZ LQ LB = Val sp ->
  sp = Qcround (rnd53 (Qcz (LZ O_getGridSize) * LQ V_spacing_ps)%Qc) /\ 0 <= sp < 2 ^ 32.
Proof.
  intros H. unfold gen_spacing_bins in H. split_convs H. injection H as <-.
  match goal with E : f2u _ _ = Val _ |- _ => apply f2u_Qcz in E; destruct E as [-> R] end.
  split; [|exact R]. do 2 f_equal; try ring.
Qed.

Lemma gen_rdtn_nfreqs_formula LZ LQ LB nm :
  gen_rdtn_nfreqs LZ LQ LB = Val nm ->
  let c := Qcceil (rnd53 (Qcz (LZ O_getGridSize) * Qcmax (LQ O_getPadding) (Qcz 1))%Qc) in
  nm = (if LB O_getRoundPadding then upper_power_of_two c else c) /\ 0 <= c < 2 ^ 64.
Proof.
  intros H c. unfold gen_rdtn_nfreqs in H. split_convs H. injection H as <-.
  match goal with E : f2u _ _ = Val _ |- _ => apply f2u_Qcz in E; destruct E as [-> R] end.
  assert (X : forall a b : Qc, a = b -> Qcceil (rnd53 a) = Qcceil (rnd53 b)) by (intros; subst; reflexivity).
  match goal with
  | |- (if ?r then upper_power_of_two ?d else ?d) = _ /\ _ =>
    assert (E : d = c) by (unfold c; apply X; ring); rewrite E in *; split; [reflexivity | exact R]
  end.
Qed.

Lemma gen_wake_nfreqs_formula LZ LQ LB sp nm :
  0 < LZ O_getGridSize < 2 ^ 32 -> 1 < LZ N_getBunchCurrents < 2 ^ 32 ->
  LZ O_getGridSize * LZ N_getBunchCurrents < 2 ^ 32 ->
  gen_spacing_bins LZ LQ LB = Val sp -> gen_wake_nfreqs LZ LQ LB = Val nm ->
  let n := LZ O_getGridSize in let nb := LZ N_getBunchCurrents in
  let c := Z.max (Qcceil (rnd53 (Qcz (n * nb) * LQ V_spacing_ps)%Qc)) ((nb - 1) * sp + n) in
  nm = (if LB O_getRoundPadding then upper_power_of_two c else c).
Proof.
  intros Hn Hnb Hprod Hsp Hnm n nb c. fold n nb in Hn, Hnb, Hprod.
  unfold gen_spacing_bins in Hsp. unfold gen_wake_nfreqs in Hnm. fold n nb in Hsp, Hnm.
  match type of Hsp with
  | context [conv_bind (f2u ?bt ?q) _] =>
    destruct (f2u bt q) as [s|] eqn:Es; cbn [conv_bind] in Hsp; [|discriminate Hsp];
    try rewrite Es in Hnm; cbn [conv_bind] in Hnm
  end.
  injection Hsp as ->.
  split_convs Hnm. f2u_ranges.
  destruct (1 <? nb) eqn:C; [|lia].
  injection Hnm as <-.
  repeat match goal with E : f2u _ (Qcz _) = Val ?z |- _ => apply f2u_Qcz in E; destruct E as [-> ?] end.
  assert (X : forall (a b : Qc) (u v : Z), a = b -> u = v -> Z.max (Qcceil (rnd53 a)) u = Z.max (Qcceil (rnd53 b)) v)
    by (intros; subst; reflexivity).
  match goal with
  | |- (if ?r then upper_power_of_two ?d else ?d) = _ =>
    assert (E : d = c);
      [ unfold c; apply X;
        [ unfold wrap32; change (2 ^ 32) with 4294967296 in *;
          repeat match goal with
                 | |- context [?a mod ?m] =>
                   lazymatch a with context [_ mod _] => fail | _ => rewrite (Z.mod_small a m) by nia end
                 end; try reflexivity; ring
        | unfold w64, wrap32; change (2 ^ 64) with 18446744073709551616 in *; change (2 ^ 32) with 4294967296 in *;
          repeat match goal with
                 | |- context [?a mod ?m] =>
                   lazymatch a with context [_ mod _] => fail | _ => rewrite (Z.mod_small a m) by nia end
                 end; ring ]
      | rewrite E; reflexivity ]
  end.
Qed.
