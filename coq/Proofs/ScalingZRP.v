(** * Generated integer sizes (Gen/Gen_ScalingZ.v): the statements that need facts about binary64 rounding
    (monotone, exact on integers; Proofs/Float64P.v - real-number axioms of the standard library):
    the radiation field and a single-bucket wake field stay inside buffers of ceil(GridSize*max(padding,1))
    cells, and the closed formulas of the padded lengths (C06, C17). *)
From Coq Require Import List ZArith QArith Qcanon Qround Lia Bool ZifyBool.
From Inovesa Require Import Base.FieldKit Base.Float32 Model.Kick Model.Bounds Model.ScalingOps
  Gen.Gen_ScalingZ Proofs.KickP Proofs.BoundsP Proofs.Float64P Proofs.ScalingZP.
Import ListNotations.
Local Open Scope Z_scope.

Lemma Qcmax_ge_r a b : (this b <= this (Qcmax a b))%Q.
Proof.
  unfold Qcmax. destruct (Qle_bool (this a) (this b)) eqn:E; [apply Qle_refl|].
  apply Qlt_le_weak. apply Qnot_le_lt. intro X. apply Qle_bool_iff in X. congruence.
Qed.
Lemma Qcmax_ge_l a b : (this a <= this (Qcmax a b))%Q.
Proof. unfold Qcmax. destruct (Qle_bool (this a) (this b)) eqn:E; [apply Qle_bool_iff; exact E | apply Qle_refl]. Qed.

(** fl(n * m) >= n for an integer n < 2^32 and a factor m >= 1 (either order of the factors) ... *)
Lemma prod_ge n (m : Qc) :
  0 < n < 2 ^ 32 -> (1 <= this m)%Q ->
  (inject_Z n <= this (rnd53 (Qcz n * m)%Qc))%Q /\ (inject_Z n <= this (rnd53 (m * Qcz n)%Qc))%Q.
Proof.
  intros Hn Hm.
  assert (A : (this (Qcz n) <= this (Qcz n * m)%Qc)%Q).
  { rewrite this_mult, this_Qcz. rewrite <- (Qmult_1_r (inject_Z n)) at 1.
    apply Qmult_le_l; [|exact Hm]. change 0%Q with (inject_Z 0). rewrite <- Zlt_Qlt. lia. }
  assert (B : (inject_Z n <= this (rnd53 (Qcz n * m)%Qc))%Q).
  { pose proof (rnd53_le _ _ A) as R. rewrite (rnd53_Qcz n) in R by (change (2 ^ 53) with 9007199254740992; change (2 ^ 32) with 4294967296 in Hn; lia).
    rewrite this_Qcz in R. exact R. }
  split; [exact B|]. replace (m * Qcz n)%Qc with (Qcz n * m)%Qc by ring. exact B.
Qed.

(** ... and whichever way the code turns a value >= n (n a non-negative integer) into an integer - ceil, floor, round or
    the bare conversion (truncation) - the result is >= n *)
Lemma int_of_ge n (q : Qc) :
  0 <= n -> (inject_Z n <= this q)%Q ->
  n <= Qcceil q /\ n <= Qcfloor q /\ n <= Qcround q /\ n <= Qctrunc q.
Proof.
  intros Hn H.
  assert (F : n <= Qfloor (this q)) by (apply Qfloor_resp_le in H; rewrite Qfloor_Z in H; exact H).
  assert (P : (0 <= this q)%Q).
  { eapply Qle_trans; [|exact H]. change 0%Q with (inject_Z 0). rewrite <- Zle_Qle. exact Hn. }
  split; [|split; [|split]].
  - pose proof (Qcceil_ge q) as C. pose proof (Qle_trans _ _ _ H C) as T. rewrite <- Zle_Qle in T. exact T.
  - exact F.
  - unfold Qcround. replace (Qle_bool 0 (this q)) with true by (symmetry; apply Qle_bool_iff; exact P).
    assert (X : (this q <= this q + (1 # 2))%Q).
    { rewrite <- (Qplus_0_r (this q)) at 1. apply Qplus_le_r. discriminate. }
    apply Qfloor_resp_le in X. lia.
  - unfold Qctrunc. destruct (this q) as [a d] eqn:E. cbn [Qnum Qden].
    unfold Qfloor in F. cbn [Qnum Qden] in F.
    assert (A0 : 0 <= a).
    { unfold Qle in P. cbn [Qnum Qden] in P. lia. }
    rewrite Z.quot_div_nonneg by lia. exact F.
Qed.

Lemma this_Qcz1 : (1 <= this (Qcz 1))%Q.
Proof. rewrite this_Qcz. apply Qle_refl. Qed.

Ltac factor_ge1 :=
  first [ eapply Qle_trans; [exact this_Qcz1 | apply Qcmax_ge_r]
        | eapply Qle_trans; [exact this_Qcz1 | apply Qcmax_ge_l] ].

(** [n <= z] for every conversion result z = int(fl(n * m)) in the context, int being ceil / floor / round / truncation *)
Ltac conv_ge n Hn :=
  repeat match goal with
         | E : f2u ?b ?q = Val ?z |- _ =>
           let T := fresh "T" in
           assert (T : n <= z /\ 0 <= z < 2 ^ b);
           [ apply f2u_val in E; destruct E as [E R]; split; [|exact R]; rewrite E; try rewrite Qctrunc_Qcz;
             match goal with
             | |- n <= ?R (rnd53 (Qcz n * ?m)%Qc) =>
               pose proof (int_of_ge n (rnd53 (Qcz n * m)%Qc) ltac:(lia) (proj1 (prod_ge n m Hn ltac:(factor_ge1)))) as [? [? [? ?]]]; assumption
             | |- n <= ?R (rnd53 (?m * Qcz n)%Qc) =>
               pose proof (int_of_ge n (rnd53 (m * Qcz n)%Qc) ltac:(lia) (proj2 (prod_ge n m Hn ltac:(factor_ge1)))) as [? [? [? ?]]]; assumption
             end
           | clear E; destruct T ]
         end.

(** a length of the form [if round then upper_power_of_two c else c] with c >= n, when not wrapped to 0 *)
Lemma padded_ge n c nm (r : bool) :
  1 <= n <= c -> 0 <= c < 2 ^ 64 -> (if r then upper_power_of_two c else c) = nm -> 0 < nm -> n <= nm.
Proof.
  intros Hn Hc E P. destruct r; [|lia].
  pose proof (upper_power_of_two_nonzero_ge c ltac:(lia) ltac:(lia)). lia.
Qed.

(** the radiation field: spacing 0, int(GridSize*max(padding,1)) cells (or the next power of two) *)
Lemma gen_rdtn_in_bounds LZ LQ LB sp nm b x :
  0 < LZ O_getGridSize < 2 ^ 32 ->
  gen_rdtn_spacing_bins LZ LQ LB = Val sp -> gen_rdtn_nfreqs LZ LQ LB = Val nm -> 0 < nm ->
  0 <= b < 2 ^ 32 -> 0 <= x < LZ O_getGridSize ->
  sp = 0 /\ 0 <= pad_index sp b x < nm.
Proof.
  set (n := LZ O_getGridSize). intros Hn Hsp Hnm Hpos Hb Hx.
  unfold gen_rdtn_spacing_bins in Hsp. unfold gen_rdtn_nfreqs in Hnm. fold n in Hnm.
  injection Hsp as <-. split; [reflexivity|].
  assert (P : pad_index 0 b x = x).
  { unfold pad_index, pad_start, w64. rewrite Z.mul_0_r. rewrite Z.mod_0_l by (intro Q; discriminate Q). lia. }
  rewrite P. clear P.
  split_convs Hnm. injection Hnm as Hnm.
  conv_ge n Hn.
  match type of Hnm with (if ?r then upper_power_of_two ?c else ?c) = _ =>
    pose proof (padded_ge n c nm r ltac:(lia) ltac:(assumption) Hnm Hpos) end.
  lia.
Qed.

(** the wake field of a single-bucket run uses the same length *)
Lemma gen_pad_in_bounds_single LZ LQ LB sp nm x :
  0 < LZ O_getGridSize < 2 ^ 32 -> 0 <= LZ N_getBunchCurrents <= 1 ->
  gen_spacing_bins LZ LQ LB = Val sp -> gen_wake_nfreqs LZ LQ LB = Val nm -> 0 < nm ->
  0 <= x < LZ O_getGridSize ->
  0 <= pad_index sp 0 x < nm.
Proof.
  set (n := LZ O_getGridSize). set (nb := LZ N_getBunchCurrents).
  intros Hn Hnb Hsp Hnm Hpos Hx.
  unfold gen_wake_nfreqs in Hnm. fold n nb in Hnm.
  assert (P : pad_index sp 0 x = x) by (unfold pad_index, pad_start, w64; cbn; lia).
  rewrite P. clear P Hsp.
  split_convs Hnm. injection Hnm as Hnm.
  conv_ge n Hn. f2u_ranges.
  split_ifs Hnm; try lia.
  - match type of Hnm with upper_power_of_two ?c = _ =>
      assert (A : 1 <= c < 2 ^ 64) by lia;
      assert (Bz : upper_power_of_two c <> 0) by (rewrite Hnm; lia);
      pose proof (upper_power_of_two_nonzero_ge c A Bz) end.
    lia.
Qed.
