(** * The axis arithmetic of Ruler as generated from its constructor (Gen/Gen_Ruler.v) is the Ruler of Model/RF.v
    (which C03's zero-bin and offset theorems speak about), for every field and every grid size. *)
From Coq Require Import List ZArith Field.
From Inovesa Require Import Base.FieldKit Model.RF Proofs.RFP Gen.Gen_Ruler.
Local Open Scope F_scope.

Section S.
  Variable K : Fld.
  Add Field KFr : (@Fth K).

  Lemma gen_ruler_is_model (steps : Z) (mn mx delta : K) (i : Z) :
    fz (K:=K) (steps - 1) <> 0 ->
    gen_ruler_delta K (fz steps) mn mx = ruler_delta steps mn mx /\
    gen_ruler_zerobin K (fz steps) mn mx = ruler_zerobin steps mn mx /\
    gen_ruler_at K mn delta (fz i) = ruler_at mn delta i.
  Proof.
    intros H. unfold gen_ruler_delta, gen_ruler_zerobin, gen_ruler_at, ruler_delta, ruler_zerobin, ruler_at, two.
    assert (E : fz (K:=K) (steps - 1) = fz steps - 1) by (rewrite fz_sub, fz_1; reflexivity).
    rewrite E in *.
    (* ring identities once every quotient x / y is read as x * (1/y): no fact about the denominators is needed *)
    repeat split; first [reflexivity | ring | rewrite ?(Fdiv_def (@Fth K)); ring].
  Qed.

  (** the zero bin of the generated expressions is the index of coordinate 0 (C03_zerobin_correct, over the source) *)
  Lemma gen_zerobin_correct (steps : Z) (mn mx : K) :
    mn <> mx -> fz (K:=K) (steps - 1) <> 0 ->
    gen_ruler_zerobin K (fz steps) mn mx = - mn / gen_ruler_delta K (fz steps) mn mx /\
    gen_ruler_at K mn (gen_ruler_delta K (fz steps) mn mx) (gen_ruler_zerobin K (fz steps) mn mx) = 0.
  Proof.
    intros Hm Hs.
    destruct (gen_ruler_is_model steps mn mx (gen_ruler_delta K (fz steps) mn mx) 0 Hs) as [Ed [Ez _]].
    destruct (zerobin_correct K steps mn mx Hm Hs) as [Z1 Z2].
    rewrite Ez, Ed. split; [exact Z1|].
    unfold gen_ruler_at. rewrite <- Z2. ring.
  Qed.
End S.
