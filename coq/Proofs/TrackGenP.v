(** * The generated tracking definitions (Gen/Gen_Track.v): clamps on extended values (NaN, +-inf),
    particles stay inside for every sequence of generated maps, and equality with the hand-written
    model of Model/Tracking.v.

    The scripts are written against the *shape* the translator guarantees (a clamp function applied
    to the new coordinate, the other coordinate returned unchanged), not against today's text: a
    re-associated sum, renamed locals or exchanged min/max nesting leave them valid as long as the
    statement is still true. *)
From Coq Require Import List ZArith QArith Qcanon Lia Lqa Bool Ring Field.
From Inovesa Require Import Base.FieldKit Base.Float32 Model.Kick Model.Tracking Model.StepKinds
  Model.TrackX Gen.Gen_Track Model.TrackGen Proofs.KickP Proofs.TrackingP.
Import ListNotations.
Local Open Scope Z_scope.

(** ** order reasoning on Qc through Q *)
Ltac qc_facts :=
  repeat match goal with
  | H : Qcltb _ _ = true |- _ => apply Qcltb_true in H
  | H : Qcltb _ _ = false |- _ => apply Qcltb_false in H
  end.
Ltac qc_order :=
  qc_facts; unfold Qclt, Qcle in *;
  first [ reflexivity | exfalso; lra | lra | f_equal; apply Qc_is_canon; lra | apply Qc_is_canon; lra ].

Lemma one_le_hi n : 2 <= n -> (1 <= Qcz (n - 1))%Qc.
Proof. intros H. rewrite <- Qcz_1. apply Qcz_le. lia. Qed.

Lemma wrap32_nm1 n : 2 <= n < 2 ^ 32 -> wrap32 (n - 1) = n - 1.
Proof. intros H. apply wrap32_small. lia. Qed.

(** every comparison of the clamp nests is decided; what is left are order facts *)
Ltac clamp_cases :=
  unfold xmax, xmin; cbn [xltb];
  repeat (match goal with
          | |- context [Qcltb ?a ?b] =>
              lazymatch a with
              | context [Qcltb] => fail
              | _ => lazymatch b with
                     | context [Qcltb] => fail
                     | _ => destruct (Qcltb a b) eqn:?
                     end
              end
          end; cbn [xltb]).

(** the clamp of a finite value is the model's [clamp_grid]: holds for either nesting of min and max
    and either argument order, as long as the bounds are 1 and n-1 *)
Ltac clamp_finite Hn :=
  rewrite ?(wrap32_nm1 _ Hn), ?Qcz_1;
  pose proof (one_le_hi _ (proj1 Hn));
  unfold clamp_grid, std_max, std_min;
  clamp_cases; qc_order.

Lemma gen_kick_x_clamp_fin n v : 2 <= n < 2 ^ 32 -> gen_kick_x_clamp n n (XF v) = XF (clamp_grid n v).
Proof. intros Hn. unfold gen_kick_x_clamp. clamp_finite Hn. Qed.
Lemma gen_kick_y_clamp_fin n v : 2 <= n < 2 ^ 32 -> gen_kick_y_clamp n n (XF v) = XF (clamp_grid n v).
Proof. intros Hn. unfold gen_kick_y_clamp. clamp_finite Hn. Qed.
Lemma gen_fp1_clamp_fin n v : 2 <= n < 2 ^ 32 -> gen_fp_approximation1_clamp n n (XF v) = XF (clamp_grid n v).
Proof. intros Hn. unfold gen_fp_approximation1_clamp. clamp_finite Hn. Qed.
Lemma gen_fp2_clamp_fin n v : 2 <= n < 2 ^ 32 -> gen_fp_approximation2_clamp n n (XF v) = XF (clamp_grid n v).
Proof. intros Hn. unfold gen_fp_approximation2_clamp. clamp_finite Hn. Qed.
Lemma gen_stoch_clamp_fin n v : 2 <= n < 2 ^ 32 -> gen_fp_stochastic_clamp n n (XF v) = XF (clamp_grid n v).
Proof. intros Hn. unfold gen_fp_stochastic_clamp. clamp_finite Hn. Qed.

(** ** the clamp on extended values: NaN and the infinities *)

Lemma xin_clamp_fin n v : 2 <= n -> xin_clamp n (XF (clamp_grid n v)).
Proof. intros Hn. exists (clamp_grid n v). split; [reflexivity|]. apply clamp_grid_bounds. exact Hn. Qed.

(** decides a clamp nest on a non-finite argument: every branch must end in a finite value within
    [1, n-1]; a nest that hands NaN through leaves the unprovable goal [XNaN = XF _] *)
Ltac clamp_nonfinite Hn :=
  rewrite ?(wrap32_nm1 _ Hn), ?Qcz_1;
  pose proof (one_le_hi _ (proj1 Hn));
  clamp_cases;
  (eexists; split; [reflexivity|]); split; qc_order.

(** tracking model 2: `std::max(1, std::min(y + offset, n-1))` maps EVERY float - NaN (0/0) and
    both infinities (x/0) included - into [1, n-1].  The proof runs on the nest generated from the
    source: with `std::min(std::max(y + offset, 1), n-1)`, or with the arguments of the outer
    std::max exchanged, NaN is handed through and this lemma fails. *)
Lemma gen_fp2_clamp_any n v : 2 <= n < 2 ^ 32 -> xin_clamp n (gen_fp_approximation2_clamp n n v).
Proof.
  intros Hn. destruct v as [q| | |].
  - rewrite gen_fp2_clamp_fin by exact Hn. apply xin_clamp_fin. lia.
  - unfold gen_fp_approximation2_clamp. clamp_nonfinite Hn.
  - unfold gen_fp_approximation2_clamp. clamp_nonfinite Hn.
  - unfold gen_fp_approximation2_clamp. clamp_nonfinite Hn.
Qed.

(** what the float division of tracking model 2 yields *)
Lemma xdivq_cases a b :
  (b <> 0%Qc -> xdivq a b = XF (a / b)%Qc) /\
  (b = 0%Qc -> a = 0%Qc -> xdivq a b = XNaN) /\
  (b = 0%Qc -> (0 < a)%Qc -> xdivq a b = XPInf) /\
  (b = 0%Qc -> (a < 0)%Qc -> xdivq a b = XMInf).
Proof.
  unfold xdivq. repeat split; intros.
  - destruct (Qc_eq_dec b 0); [contradiction|reflexivity].
  - destruct (Qc_eq_dec b 0); [|contradiction]. destruct (Qc_eq_dec a 0); [reflexivity|contradiction].
  - destruct (Qc_eq_dec b 0); [|contradiction]. destruct (Qc_eq_dec a 0) as [E|E].
    + subst a. exfalso. exact (Qcle_not_lt _ _ (Qcle_refl _) H0).
    + apply Qcltb_true in H0. rewrite H0. reflexivity.
  - destruct (Qc_eq_dec b 0); [|contradiction]. destruct (Qc_eq_dec a 0) as [E|E].
    + subst a. exfalso. exact (Qcle_not_lt _ _ (Qcle_refl _) H0).
    + destruct (Qcltb 0 a) eqn:L; [|reflexivity]. apply Qcltb_true in L.
      exfalso. exact (Qcle_not_lt _ _ (Qcle_refl _) (Qclt_trans _ _ _ L H0)).
Qed.

(** the other nesting, `std::min(std::max(v, 1), n-1)`, is the same function on finite values but
    hands NaN through *)
Definition clamp_minmax (n : Z) (v : xval) : xval := xmin (xmax v (XF 1)) (XF (Qcz (n - 1))).
Lemma clamp_minmax_finite n v : 2 <= n -> clamp_minmax n (XF v) = XF (clamp_grid n v).
Proof.
  intros Hn. unfold clamp_minmax. pose proof (one_le_hi _ Hn).
  unfold clamp_grid, std_max, std_min. clamp_cases; qc_order.
Qed.
Lemma clamp_minmax_nan n : clamp_minmax n XNaN = XNaN.
Proof. reflexivity. Qed.

(** ** every generated map keeps a particle inside: the moved coordinate is a clamp result, the
    other one is returned as it came *)

Definition gen_moves_x (n : Z) (y : Qc) (r : xpos) : Prop := xin_clamp n (fst r) /\ snd r = XF y.
Definition gen_moves_y (n : Z) (x : Qc) (r : xpos) : Prop := fst r = XF x /\ xin_clamp n (snd r).

Ltac by_clamp lem Hn :=
  cbv zeta; cbn [fst snd];
  first [ rewrite lem by exact Hn; apply xin_clamp_fin; lia
        | apply gen_fp2_clamp_any; exact Hn ].

Lemma gen_kick_x_moves n offs x y : 2 <= n < 2 ^ 32 -> gen_moves_x n y (gen_kick_x n n offs x y).
Proof. intros Hn. unfold gen_moves_x, gen_kick_x. split; [by_clamp gen_kick_x_clamp_fin Hn | reflexivity]. Qed.

Lemma gen_kick_y_moves n offs x y : 2 <= n < 2 ^ 32 -> gen_moves_y n x (gen_kick_y n n offs x y).
Proof. intros Hn. unfold gen_moves_y, gen_kick_y. split; [reflexivity | by_clamp gen_kick_y_clamp_fin Hn]. Qed.

Lemma gen_fp1_moves n ip H D e1 zb0 zb1 noise x y : 2 <= n < 2 ^ 32 ->
  gen_moves_y n x (gen_fp_approximation1 n n ip H D e1 zb0 zb1 noise x y).
Proof. intros Hn. unfold gen_moves_y, gen_fp_approximation1. split; [reflexivity | by_clamp gen_fp1_clamp_fin Hn]. Qed.

(** tracking model 2, whatever the charge (zero charge: NaN or an infinity reaches the clamp) *)
Lemma gen_fp2_moves n ip H D e1 zb0 zb1 noise x y : 2 <= n < 2 ^ 32 ->
  gen_moves_y n x (gen_fp_approximation2 n n ip H D e1 zb0 zb1 noise x y).
Proof. intros Hn. unfold gen_moves_y, gen_fp_approximation2. split; [reflexivity | by_clamp gen_fp2_clamp_fin Hn]. Qed.

Lemma gen_stoch_moves n ip H D e1 zb0 zb1 noise x y : 2 <= n < 2 ^ 32 ->
  gen_moves_y n x (gen_fp_stochastic n n ip H D e1 zb0 zb1 noise x y).
Proof. intros Hn. unfold gen_moves_y, gen_fp_stochastic. split; [reflexivity | by_clamp gen_stoch_clamp_fin Hn]. Qed.

Lemma gen_none_id n ip H D e1 zb0 zb1 noise x y : gen_fp_none n n ip H D e1 zb0 zb1 noise x y = (XF x, XF y).
Proof. reflexivity. Qed.

Lemma xin_clamp_grid n v : xin_clamp n v -> xin_grid n v.
Proof.
  intros (q & E & L & U). exists q. split; [exact E|]. split; [|exact U].
  apply Qcle_trans with 1%Qc; [exact Qc01 | exact L].
Qed.

Lemma moves_x_inside n p r : inside n p -> gen_moves_x n (py p) r -> xinside n r.
Proof.
  intros (X0 & X1 & Y0 & Y1) [C E]. destruct r as [a b]. cbn [fst snd] in *.
  destruct (xin_clamp_grid _ _ C) as (q & -> & L & U). subst b.
  exists q, (py p). split; [reflexivity|]. unfold inside; cbn [px py]. tauto.
Qed.

Lemma moves_y_inside n p r : inside n p -> gen_moves_y n (px p) r -> xinside n r.
Proof.
  intros (X0 & X1 & Y0 & Y1) [E C]. destruct r as [a b]. cbn [fst snd] in *.
  destruct (xin_clamp_grid _ _ C) as (q & -> & L & U). subst a.
  exists (px p), q. split; [reflexivity|]. unfold inside; cbn [px py]. tauto.
Qed.

Lemma xinside_of n p : inside n p -> xinside n (xpos_of p).
Proof. intros H. exists (px p), (py p). split; [reflexivity|]. destruct p; exact H. Qed.

(** SourceMap::applyTo of every map, bodies as generated: a particle inside [0,n-1]^2 is inside
    (and finite) afterwards.  No hypothesis on offsets, tables, grid data (zero charge included),
    decrement, zero bins, drawn numbers or the value of _fptrack. *)
Theorem gen_applyTo_stays_inside n o k p :
  2 <= n < 2 ^ 32 -> inside n p -> xinside n (gen_applyTo n o k p).
Proof.
  intros Hn Hp. destruct o as [d offs| |ft ip H D e1 zb0 zb1 noise]; cbn [gen_applyTo].
  - destruct d.
    + apply (moves_x_inside n p); [exact Hp | apply gen_kick_x_moves; exact Hn].
    + apply (moves_y_inside n p); [exact Hp | apply gen_kick_y_moves; exact Hn].
  - apply xinside_of. exact Hp.
  - unfold gen_fp_applyTo.
    repeat match goal with |- context [if ?c then _ else _] => destruct c end;
      first [ rewrite gen_none_id; apply (xinside_of n p Hp)
            | apply (moves_y_inside n p); [exact Hp|];
              first [ apply gen_fp1_moves | apply gen_fp2_moves | apply gen_stoch_moves ]; exact Hn ].
Qed.

Lemma xinside_pos n q : xinside n q -> exists p, pos_of_x q = Some p /\ inside n p.
Proof. intros (x & y & -> & H). exists (mkpos x y). split; [reflexivity | exact H]. Qed.

(** any sequence of generated maps: every map of the sequence is executed (no non-finite
    coordinate ever stops the iteration) and the particle is inside after each *)
Theorem gen_tracked_stay_inside n ops k p :
  2 <= n < 2 ^ 32 -> inside n p ->
  Forall (xinside n) (gen_trajectory n ops k p) /\ length (gen_trajectory n ops k p) = length ops.
Proof.
  intros Hn. revert p. induction ops as [|o r IH]; intros p Hp; cbn [gen_trajectory length].
  - split; [constructor | reflexivity].
  - pose proof (gen_applyTo_stays_inside n o k p Hn Hp) as Hq.
    destruct (xinside_pos _ _ Hq) as (p' & E & Hp'). rewrite E.
    destruct (IH p' Hp') as [F L]. split; [constructor; assumption | rewrite L; reflexivity].
Qed.
