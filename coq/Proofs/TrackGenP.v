(** * The generated tracking definitions (Gen/Gen_Track.v): clamps on extended values (NaN, +-inf),
    particles stay inside for every sequence of generated maps, and equality with the hand-written
    model of Model/Tracking.v.

    The scripts are written against the *shape* the translator guarantees (a clamp function applied
    to the new coordinate, the other coordinate returned unchanged), not against today's text: a
    re-associated sum, renamed locals or exchanged min/max nesting leave them valid as long as the
    statement is still true. *)
From Coq Require Import List ZArith QArith Qcanon Lia Lqa Bool Ring Field.
From Inovesa Require Import Base.FieldKit Base.Float32 Model.Kick Model.Tracking Model.StepKinds
  Model.TrackX Gen.Gen_Track Model.TrackGen Proofs.KickP Proofs.TrackingP.
Import ListNotations.
Local Open Scope Z_scope.

(** ** order reasoning on Qc through Q *)
Ltac qc_facts :=
  repeat match goal with
  | H : Qcltb _ _ = true |- _ => apply Qcltb_true in H
  | H : Qcltb _ _ = false |- _ => apply Qcltb_false in H
  end.
Ltac qc_order :=
  qc_facts; unfold Qclt, Qcle in *;
  first [ reflexivity | exfalso; lra | lra | f_equal; apply Qc_is_canon; lra | apply Qc_is_canon; lra ].

Lemma one_le_hi n : 2 <= n -> (1 <= Qcz (n - 1))%Qc.
Proof. intros H. rewrite <- Qcz_1. apply Qcz_le. lia. Qed.

Lemma wrap32_nm1 n : 2 <= n < 2 ^ 32 -> wrap32 (n - 1) = n - 1.
Proof. intros H. apply wrap32_small. lia. Qed.

(** every comparison of the clamp nests is decided; what is left are order facts *)
Ltac clamp_cases :=
  unfold xmax, xmin; cbn [xltb];
  repeat (match goal with
          | |- context [Qcltb ?a ?b] =>
              lazymatch a with
              | context [Qcltb] => fail
              | _ => lazymatch b with
                     | context [Qcltb] => fail
                     | _ => destruct (Qcltb a b) eqn:?
                     end
              end
          end; cbn [xltb]).

(** the clamp of a finite value is the model's [clamp_grid]: holds for either nesting of min and max
    and either argument order, as long as the bounds are 1 and n-1 *)
Ltac clamp_finite Hn :=
  rewrite ?(wrap32_nm1 _ Hn), ?Qcz_1;
  pose proof (one_le_hi _ (proj1 Hn));
  unfold clamp_grid, std_max, std_min;
  clamp_cases; qc_order.

Lemma gen_kick_x_clamp_fin n v : 2 <= n < 2 ^ 32 -> gen_kick_x_clamp n n (XF v) = XF (clamp_grid n v).
Proof. intros Hn. unfold gen_kick_x_clamp. clamp_finite Hn. Qed.
Lemma gen_kick_y_clamp_fin n v : 2 <= n < 2 ^ 32 -> gen_kick_y_clamp n n (XF v) = XF (clamp_grid n v).
Proof. intros Hn. unfold gen_kick_y_clamp. clamp_finite Hn. Qed.
Lemma gen_fp1_clamp_fin n v : 2 <= n < 2 ^ 32 -> gen_fp_approximation1_clamp n n (XF v) = XF (clamp_grid n v).
Proof. intros Hn. unfold gen_fp_approximation1_clamp. clamp_finite Hn. Qed.
Lemma gen_fp2_clamp_fin n v : 2 <= n < 2 ^ 32 -> gen_fp_approximation2_clamp n n (XF v) = XF (clamp_grid n v).
Proof. intros Hn. unfold gen_fp_approximation2_clamp. clamp_finite Hn. Qed.
Lemma gen_stoch_clamp_fin n v : 2 <= n < 2 ^ 32 -> gen_fp_stochastic_clamp n n (XF v) = XF (clamp_grid n v).
Proof. intros Hn. unfold gen_fp_stochastic_clamp. clamp_finite Hn. Qed.

(** ** the clamp on extended values: NaN and the infinities *)

Lemma xin_clamp_fin n v : 2 <= n -> xin_clamp n (XF (clamp_grid n v)).
Proof. intros Hn. exists (clamp_grid n v). split; [reflexivity|]. apply clamp_grid_bounds. exact Hn. Qed.

(** decides a clamp nest on a non-finite argument: every branch must end in a finite value within
    [1, n-1]; a nest that hands NaN through leaves the unprovable goal [XNaN = XF _] *)
Ltac clamp_nonfinite Hn :=
  rewrite ?(wrap32_nm1 _ Hn), ?Qcz_1;
  pose proof (one_le_hi _ (proj1 Hn));
  clamp_cases;
  (eexists; split; [reflexivity|]); split; qc_order.

(** tracking model 2: `std::max(1, std::min(y + offset, n-1))` maps EVERY float - NaN (0/0) and
    both infinities (x/0) included - into [1, n-1].  The proof runs on the nest generated from the
    source: with `std::min(std::max(y + offset, 1), n-1)`, or with the arguments of the outer
    std::max exchanged, NaN is handed through and this lemma fails. *)
Lemma gen_fp2_clamp_any n v : 2 <= n < 2 ^ 32 -> xin_clamp n (gen_fp_approximation2_clamp n n v).
Proof.
  intros Hn. destruct v as [q| | |].
  - rewrite gen_fp2_clamp_fin by exact Hn. apply xin_clamp_fin. lia.
  - unfold gen_fp_approximation2_clamp. clamp_nonfinite Hn.
  - unfold gen_fp_approximation2_clamp. clamp_nonfinite Hn.
  - unfold gen_fp_approximation2_clamp. clamp_nonfinite Hn.
Qed.

(** what the float division of tracking model 2 yields *)
Lemma xdivq_cases a b :
  (b <> 0%Qc -> xdivq a b = XF (a / b)%Qc) /\
  (b = 0%Qc -> a = 0%Qc -> xdivq a b = XNaN) /\
  (b = 0%Qc -> (0 < a)%Qc -> xdivq a b = XPInf) /\
  (b = 0%Qc -> (a < 0)%Qc -> xdivq a b = XMInf).
Proof.
  unfold xdivq. repeat split; intros.
  - destruct (Qc_eq_dec b 0); [contradiction|reflexivity].
  - destruct (Qc_eq_dec b 0); [|contradiction]. destruct (Qc_eq_dec a 0); [reflexivity|contradiction].
  - destruct (Qc_eq_dec b 0); [|contradiction]. destruct (Qc_eq_dec a 0) as [E|E].
    + subst a. exfalso. exact (Qcle_not_lt _ _ (Qcle_refl _) H0).
    + apply Qcltb_true in H0. rewrite H0. reflexivity.
  - destruct (Qc_eq_dec b 0); [|contradiction]. destruct (Qc_eq_dec a 0) as [E|E].
    + subst a. exfalso. exact (Qcle_not_lt _ _ (Qcle_refl _) H0).
    + destruct (Qcltb 0 a) eqn:L; [|reflexivity]. apply Qcltb_true in L.
      exfalso. exact (Qcle_not_lt _ _ (Qcle_refl _) (Qclt_trans _ _ _ L H0)).
Qed.

(** the other nesting, `std::min(std::max(v, 1), n-1)`, is the same function on finite values but
    hands NaN through *)
Definition clamp_minmax (n : Z) (v : xval) : xval := xmin (xmax v (XF 1)) (XF (Qcz (n - 1))).
Lemma clamp_minmax_finite n v : 2 <= n -> clamp_minmax n (XF v) = XF (clamp_grid n v).
Proof.
  intros Hn. unfold clamp_minmax. pose proof (one_le_hi _ Hn).
  unfold clamp_grid, std_max, std_min. clamp_cases; qc_order.
Qed.
Lemma clamp_minmax_nan n : clamp_minmax n XNaN = XNaN.
Proof. reflexivity. Qed.

(** ** every generated map keeps a particle inside: the moved coordinate is a clamp result, the
    other one is returned as it came *)

Definition gen_moves_x (n : Z) (y : Qc) (r : xpos) : Prop := xin_clamp n (fst r) /\ snd r = XF y.
Definition gen_moves_y (n : Z) (x : Qc) (r : xpos) : Prop := fst r = XF x /\ xin_clamp n (snd r).

Ltac by_clamp lem Hn :=
  cbv zeta; cbn [fst snd];
  first [ rewrite lem by exact Hn; apply xin_clamp_fin; lia
        | apply gen_fp2_clamp_any; exact Hn ].

Lemma gen_kick_x_moves n offs x y : 2 <= n < 2 ^ 32 -> gen_moves_x n y (gen_kick_x n n offs x y).
Proof. intros Hn. unfold gen_moves_x, gen_kick_x. split; [by_clamp gen_kick_x_clamp_fin Hn | reflexivity]. Qed.

Lemma gen_kick_y_moves n offs x y : 2 <= n < 2 ^ 32 -> gen_moves_y n x (gen_kick_y n n offs x y).
Proof. intros Hn. unfold gen_moves_y, gen_kick_y. split; [reflexivity | by_clamp gen_kick_y_clamp_fin Hn]. Qed.

Lemma gen_fp1_moves n ip H D e1 zb0 zb1 noise x y : 2 <= n < 2 ^ 32 ->
  gen_moves_y n x (gen_fp_approximation1 n n ip H D e1 zb0 zb1 noise x y).
Proof. intros Hn. unfold gen_moves_y, gen_fp_approximation1. split; [reflexivity | by_clamp gen_fp1_clamp_fin Hn]. Qed.

(** tracking model 2, whatever the charge (zero charge: NaN or an infinity reaches the clamp) *)
Lemma gen_fp2_moves n ip H D e1 zb0 zb1 noise x y : 2 <= n < 2 ^ 32 ->
  gen_moves_y n x (gen_fp_approximation2 n n ip H D e1 zb0 zb1 noise x y).
Proof. intros Hn. unfold gen_moves_y, gen_fp_approximation2. split; [reflexivity | by_clamp gen_fp2_clamp_fin Hn]. Qed.

Lemma gen_stoch_moves n ip H D e1 zb0 zb1 noise x y : 2 <= n < 2 ^ 32 ->
  gen_moves_y n x (gen_fp_stochastic n n ip H D e1 zb0 zb1 noise x y).
Proof. intros Hn. unfold gen_moves_y, gen_fp_stochastic. split; [reflexivity | by_clamp gen_stoch_clamp_fin Hn]. Qed.

Lemma gen_none_id n ip H D e1 zb0 zb1 noise x y : gen_fp_none n n ip H D e1 zb0 zb1 noise x y = (XF x, XF y).
Proof. reflexivity. Qed.

Lemma xin_clamp_grid n v : xin_clamp n v -> xin_grid n v.
Proof.
  intros (q & E & L & U). exists q. split; [exact E|]. split; [|exact U].
  apply Qcle_trans with 1%Qc; [exact Qc01 | exact L].
Qed.

Lemma moves_x_inside n p r : inside n p -> gen_moves_x n (py p) r -> xinside n r.
Proof.
  intros (X0 & X1 & Y0 & Y1) [C E]. destruct r as [a b]. cbn [fst snd] in *.
  destruct (xin_clamp_grid _ _ C) as (q & -> & L & U). subst b.
  exists q, (py p). split; [reflexivity|]. unfold inside; cbn [px py]. tauto.
Qed.

Lemma moves_y_inside n p r : inside n p -> gen_moves_y n (px p) r -> xinside n r.
Proof.
  intros (X0 & X1 & Y0 & Y1) [E C]. destruct r as [a b]. cbn [fst snd] in *.
  destruct (xin_clamp_grid _ _ C) as (q & -> & L & U). subst a.
  exists (px p), q. split; [reflexivity|]. unfold inside; cbn [px py]. tauto.
Qed.

Lemma xinside_of n p : inside n p -> xinside n (xpos_of p).
Proof. intros H. exists (px p), (py p). split; [reflexivity|]. destruct p; exact H. Qed.

(** SourceMap::applyTo of every map, bodies as generated: a particle inside [0,n-1]^2 is inside
    (and finite) afterwards.  No hypothesis on offsets, tables, grid data (zero charge included),
    decrement, zero bins, drawn numbers or the value of _fptrack. *)
Theorem gen_applyTo_stays_inside n o k p :
  2 <= n < 2 ^ 32 -> inside n p -> xinside n (gen_applyTo n o k p).
Proof.
  intros Hn Hp. destruct o as [d offs| |ft ip H D e1 zb0 zb1 noise]; cbn [gen_applyTo].
  - destruct d.
    + apply (moves_x_inside n p); [exact Hp | apply gen_kick_x_moves; exact Hn].
    + apply (moves_y_inside n p); [exact Hp | apply gen_kick_y_moves; exact Hn].
  - apply xinside_of. exact Hp.
  - unfold gen_fp_applyTo.
    repeat match goal with |- context [if ?c then _ else _] => destruct c end;
      first [ rewrite gen_none_id; apply (xinside_of n p Hp)
            | apply (moves_y_inside n p); [exact Hp|];
              first [ apply gen_fp1_moves | apply gen_fp2_moves | apply gen_stoch_moves ]; exact Hn ].
Qed.

Lemma xinside_pos n q : xinside n q -> exists p, pos_of_x q = Some p /\ inside n p.
Proof. intros (x & y & -> & H). exists (mkpos x y). split; [reflexivity | exact H]. Qed.

(** any sequence of generated maps: every map of the sequence is executed (no non-finite
    coordinate ever stops the iteration) and the particle is inside after each *)
Theorem gen_tracked_stay_inside n ops k p :
  2 <= n < 2 ^ 32 -> inside n p ->
  Forall (xinside n) (gen_trajectory n ops k p) /\ length (gen_trajectory n ops k p) = length ops.
Proof.
  intros Hn. revert p. induction ops as [|o r IH]; intros p Hp; cbn [gen_trajectory length].
  - split; [constructor | reflexivity].
  - pose proof (gen_applyTo_stays_inside n o k p Hn Hp) as Hq.
    destruct (xinside_pos _ _ Hq) as (p' & E & Hp'). rewrite E.
    destruct (IH p' Hp') as [F L]. split; [constructor; assumption | rewrite L; reflexivity].
Qed.

(** ** the hand-written model of Model/Tracking.v equals the generated definitions *)

Lemma u2s_small z : 0 <= z < 2 ^ 31 -> u2s z = z.
Proof. intros H. unfold u2s. destruct (z <? 2 ^ 31) eqn:E; [reflexivity|]. apply Z.ltb_ge in E. lia. Qed.

Lemma wrap32_nonneg z : 0 <= wrap32 z.
Proof. unfold wrap32. apply Z.mod_pos_bound. reflexivity. Qed.

Lemma xpair_eq (a b c d : Qc) : a = c -> b = d -> (XF a, XF b) = (XF c, XF d).
Proof. intros -> ->. reflexivity. Qed.

Theorem gen_kick_x_is_model n offs p :
  2 <= n < 2 ^ 31 -> inside n p ->
  gen_kick_x n n offs (px p) (py p) = xpos_of (kick_applyTo true n offs p).
Proof.
  intros Hn (X0 & X1 & Y0 & Y1).
  assert (Hn' : 2 <= n < 2 ^ 32) by (change (2 ^ 31) with 2147483648 in Hn; change (2 ^ 32) with 4294967296; lia).
  destruct (wrap32_coord n (py p) (proj2 Hn) Y0 Y1) as [W B].
  unfold gen_kick_x, kick_applyTo, xpos_of, kick_coord, kick_displacement, f2u. cbv zeta. cbn [px py].
  rewrite gen_kick_x_clamp_fin by exact Hn'. rewrite !W.
  rewrite (wrap32_small (Qcfloor (py p) + 1))
    by (change (2 ^ 31) with 2147483648 in Hn; change (2 ^ 32) with 4294967296; lia).
  apply xpair_eq; [|reflexivity]. apply (f_equal (clamp_grid n)).
  destruct (Qcfloor (py p) + 1 <? n); [|reflexivity].
  rewrite ?Qcz_1. ring.
Qed.

Theorem gen_kick_y_is_model n offs p :
  2 <= n < 2 ^ 31 -> inside n p ->
  gen_kick_y n n offs (px p) (py p) = xpos_of (kick_applyTo false n offs p).
Proof.
  intros Hn (X0 & X1 & Y0 & Y1).
  assert (Hn' : 2 <= n < 2 ^ 32) by (change (2 ^ 31) with 2147483648 in Hn; change (2 ^ 32) with 4294967296; lia).
  destruct (wrap32_coord n (px p) (proj2 Hn) X0 X1) as [W B].
  unfold gen_kick_y, kick_applyTo, xpos_of, kick_coord, kick_displacement, f2u. cbv zeta. cbn [px py].
  rewrite gen_kick_y_clamp_fin by exact Hn'. rewrite !W.
  rewrite (wrap32_small (Qcfloor (px p) + 1))
    by (change (2 ^ 31) with 2147483648 in Hn; change (2 ^ 32) with 4294967296; lia).
  apply xpair_eq; [reflexivity|]. apply (f_equal (clamp_grid n)).
  destruct (Qcfloor (px p) + 1 <? n); [|reflexivity].
  rewrite ?Qcz_1. ring.
Qed.

Lemma in_zrange j n : In j (zrange n) -> 0 <= j < n.
Proof.
  unfold zrange. intros H. apply in_map_iff in H. destruct H as (k & <- & Hk).
  apply in_seq in Hk. lia.
Qed.

Lemma qsum_map_ext (f g : Z -> Qc) n :
  (forall j, 0 <= j < n -> f j = g j) -> qsum (map f (zrange n)) = qsum (map g (zrange n)).
Proof. intros H. f_equal. apply map_ext_in. intros j Hj. apply H. apply in_zrange. exact Hj. Qed.

Lemma floor_coord n c :
  n < 2 ^ 31 -> (0 <= c)%Qc -> (c <= Qcz (n - 1))%Qc -> wrap32 (Qcfloor c) = Qcfloor c /\ 0 <= Qcfloor c <= n - 1.
Proof.
  intros Hn H0 H1. destruct (wrap32_coord n c Hn H0 H1) as [W B]. split; [|exact B].
  apply wrap32_small. change (2 ^ 31) with 2147483648 in Hn. change (2 ^ 32) with 4294967296. lia.
Qed.

(** removes the conversions and the `unsigned int` wrap-arounds whose argument is in range by the
    facts at hand (outside binders; innermost first by backtracking over the occurrences) *)
Ltac in_range := change (2 ^ 31) with 2147483648 in *; change (2 ^ 32) with 4294967296 in *; first [lia | nia].
Ltac unwrap :=
  unfold f2u, f2s;
  repeat match goal with
         | |- context [wrap32 ?t] => rewrite (wrap32_small t) by in_range
         | |- context [u2s ?t] => rewrite (u2s_small t) by in_range
         end.

(** tracking model 1.  [ip] is the number of stencil points (3 or 4 in the code); the table index
    `yi*_ip+j` is computed in `unsigned int` and must not wrap *)
Theorem gen_fp1_is_model n ip H D e1 zb0 zb1 noise p :
  2 <= n < 2 ^ 31 -> 0 <= ip -> (n + 1) * ip <= 2 ^ 32 -> inside n p ->
  gen_fp_approximation1 n n ip H D e1 zb0 zb1 noise (px p) (py p) = xpos_of (fp_approx1 n ip H p).
Proof.
  intros Hn Hip Hsz (X0 & X1 & Y0 & Y1).
  assert (Hn' : 2 <= n < 2 ^ 32) by (change (2 ^ 31) with 2147483648 in Hn; change (2 ^ 32) with 4294967296; lia).
  destruct (floor_coord n (py p) (proj2 Hn) Y0 Y1) as [W B].
  unfold gen_fp_approximation1, fp_approx1, xpos_of. cbv zeta. cbn [px py].
  rewrite gen_fp1_clamp_fin by exact Hn'.
  apply xpair_eq; [reflexivity|]. apply (f_equal (clamp_grid n)).
  (* the one sum of the generated body is the model's offset *)
  match goal with
  | |- context [qsum (map ?F (zrange ip))] =>
      assert (E : qsum (map F (zrange ip)) = fp_offset1 n ip H (py p))
  end.
  { unfold fp_offset1. cbv zeta. unfold f2u. rewrite !W.
    replace (Z.min (Qcfloor (py p)) n) with (Qcfloor (py p)) by lia.
    apply qsum_map_ext. intros j Hj. cbv zeta.
    assert (0 <= Qcfloor (py p) * ip <= n * ip) by nia.
    unwrap. ring. }
  rewrite E. ring.
Qed.

(** tracking model 2: final statement from the charge and the moment *)
Lemma fp2_final n y m c m' c' : 2 <= n < 2 ^ 32 -> m = m' -> c = c' ->
  gen_fp_approximation2_clamp n n (xadd (XF y) (xdivq m c)) =
  XF (if Qc_eq_dec c' 0 then (if Qcltb 0 m' then Qcz (n - 1) else 1%Qc) else clamp_grid n (y + m' / c')%Qc).
Proof.
  intros Hn <- <-. unfold xdivq. destruct (Qc_eq_dec c 0) as [Ec|Ec].
  - destruct (Qc_eq_dec m 0) as [Em|Em].
    + subst m. cbn [xadd]. replace (Qcltb 0 0) with false by reflexivity.
      unfold gen_fp_approximation2_clamp. rewrite ?(wrap32_nm1 _ Hn), ?Qcz_1.
      pose proof (one_le_hi _ (proj1 Hn)). clamp_cases; qc_order.
    + destruct (Qcltb 0 m) eqn:L; cbn [xadd];
        unfold gen_fp_approximation2_clamp; rewrite ?(wrap32_nm1 _ Hn), ?Qcz_1;
        pose proof (one_le_hi _ (proj1 Hn)); clamp_cases; qc_order.
  - cbn [xadd]. apply gen_fp2_clamp_fin. exact Hn.
Qed.

(** tracking model 2 = the hand-written model with its explicit 0/0 and x/0 cases.  The cell index
    `xi*_ysize + h.index` is computed in `unsigned int` (n^2 must fit) and `h.index` is converted to
    `int` (table indices below 2^31) *)
Theorem gen_fp2_is_model n ip H D e1 zb0 zb1 noise p :
  2 <= n < 2 ^ 31 -> n * n <= 2 ^ 31 -> (forall i, 0 <= fst (H i) < 2 ^ 31) -> inside n p ->
  gen_fp_approximation2 n n ip H D e1 zb0 zb1 noise (px p) (py p) = xpos_of (fp_approx2 n ip H D p).
Proof.
  intros Hn Hnn HH (X0 & X1 & Y0 & Y1).
  assert (Hn' : 2 <= n < 2 ^ 32) by (change (2 ^ 31) with 2147483648 in Hn; change (2 ^ 32) with 4294967296; lia).
  destruct (floor_coord n (px p) (proj2 Hn) X0 X1) as [Wx Bx].
  destruct (floor_coord n (py p) (proj2 Hn) Y0 Y1) as [Wy By].
  unfold gen_fp_approximation2, fp_approx2, xpos_of. cbv zeta. cbn [px py].
  apply (f_equal (fun t => (XF (px p), t))).
  assert (Hxi : 0 <= Z.min (Qcfloor (px p)) (n - 1) <= n - 1) by lia.
  assert (Hxn : 0 <= Z.min (Qcfloor (px p)) (n - 1) * n <= (n - 1) * n) by nia.
  apply fp2_final; [exact Hn' | |];
    unfold fp_moment2, fp_charge2, fp_cell2; cbv zeta; cbn [px py]; unwrap;
    apply qsum_map_ext; intros j Hj; cbv zeta;
    match goal with |- context [fst (H ?i)] => pose proof (HH i) as Hh end;
    unwrap; ring.
Qed.

(** the stochastic model: damping of the distance to the zero bin of the ENERGY axis ([zb1]; the zero
    bin of the position axis [zb0] does not occur), the drawn number subtracted *)
Theorem gen_stoch_is_model n ip H D e1 zb0 zb1 noise p :
  2 <= n < 2 ^ 32 ->
  gen_fp_stochastic n n ip H D e1 zb0 zb1 noise (px p) (py p) = xpos_of (fp_stoch n e1 zb1 noise p).
Proof.
  intros Hn. unfold gen_fp_stochastic, fp_stoch, fp_stoch_raw, xpos_of. cbv zeta. cbn [px py].
  rewrite gen_stoch_clamp_fin by exact Hn.
  apply xpair_eq; [reflexivity|]. apply (f_equal (clamp_grid n)). ring.
Qed.

(** hypotheses under which an operation of the hand-written model and its generated counterpart are
    the same function (sizes that keep the `unsigned int` index arithmetic from wrapping) *)
Definition op_sizes_ok (n : Z) (o : Tracking.op) : Prop :=
  match o with
  | OpFP1 ip _ => 0 <= ip /\ (n + 1) * ip <= 2 ^ 32
  | OpFP2 _ H _ => n * n <= 2 ^ 31 /\ (forall i, 0 <= fst (H i) < 2 ^ 31)
  | _ => True
  end.

(** the enum values the switch of FokkerPlanckMap::applyTo dispatches on are the model's four kinds *)
Lemma gen_fp_enum_is_model : gen_fp_enum = [(0, 0%nat); (1, 1%nat); (2, 2%nat); (3, 3%nat)].
Proof. reflexivity. Qed.

Theorem gen_applyTo_is_model n zb0 o k p :
  2 <= n < 2 ^ 31 -> inside n p -> op_sizes_ok n o ->
  gen_applyTo n (gop_of_op zb0 o) k p = xpos_of (applyTo n o k p).
Proof.
  intros Hn Hp Ho.
  assert (Hn' : 2 <= n < 2 ^ 32) by (change (2 ^ 31) with 2147483648 in Hn; change (2 ^ 32) with 4294967296; lia).
  destruct o as [d offs| | |ip H|ip H D|e1 yc noise]; cbn [gop_of_op gen_applyTo applyTo].
  - destruct d; [apply gen_kick_x_is_model | apply gen_kick_y_is_model]; assumption.
  - reflexivity.
  - reflexivity.
  - destruct Ho as [Hip Hsz]. unfold gen_fp_applyTo. cbn [Z.eqb Pos.eqb]. apply gen_fp1_is_model; assumption.
  - destruct Ho as [Hnn HH]. unfold gen_fp_applyTo. cbn [Z.eqb Pos.eqb]. apply gen_fp2_is_model; assumption.
  - unfold gen_fp_applyTo. cbn [Z.eqb Pos.eqb]. apply gen_stoch_is_model. exact Hn'.
Qed.

(** ** loading the tracking file: PhaseSpace::x / y land on the grid for every number read *)

Ltac load_cases n Hn :=
  match goal with |- context [xdivq ?a ?b] => generalize (xdivq a b) end;
  let v := fresh "v" in intros v;
  assert (L0 : (0 <= Qcz n - Qcz 1)%Qc) by (rewrite Qcz_sub; rewrite <- Qcz_0; apply Qcz_le; lia);
  rewrite ?Qcz_0 in *;
  destruct v; clamp_cases; (eexists; split; [reflexivity|]); rewrite <- ?Qcz_sub; split; qc_order.

Lemma gen_ps_x_on_grid n a0 d0 a1 d1 c : 1 <= n -> xin_grid n (gen_ps_x n n a0 d0 a1 d1 c).
Proof. intros Hn. unfold gen_ps_x, xin_grid. load_cases n Hn. Qed.

Lemma gen_ps_y_on_grid n a0 d0 a1 d1 c : 1 <= n -> xin_grid n (gen_ps_y n n a0 d0 a1 d1 c).
Proof. intros Hn. unfold gen_ps_y, xin_grid. load_cases n Hn. Qed.

(** what PhaseSpace::x computes for a usable axis: the coordinate in cells, cut to [0, n-1];
    x() reads axis 0 and y() axis 1 *)
Lemma gen_ps_x_value n a0 d0 a1 d1 c : 1 <= n -> d0 <> 0%Qc ->
  gen_ps_x n n a0 d0 a1 d1 c = XF (std_min (std_max 0 ((c - a0) / d0)) (Qcz (n - 1)))%Qc.
Proof.
  intros Hn Hd. unfold gen_ps_x. destruct (xdivq_cases (c - a0) d0) as [E _]. rewrite (E Hd).
  rewrite Qcz_sub, ?Qcz_0. unfold std_min, std_max. clamp_cases; qc_order.
Qed.
Lemma gen_ps_y_value n a0 d0 a1 d1 c : 1 <= n -> d1 <> 0%Qc ->
  gen_ps_y n n a0 d0 a1 d1 c = XF (std_min (std_max 0 ((c - a1) / d1)) (Qcz (n - 1)))%Qc.
Proof.
  intros Hn Hd. unfold gen_ps_y. destruct (xdivq_cases (c - a1) d1) as [E _]. rewrite (E Hd).
  rewrite Qcz_sub, ?Qcz_0. unfold std_min, std_max. clamp_cases; qc_order.
Qed.

(** main(): the first number of a line goes through x() (position axis), the second through y() *)
Lemma gen_load_columns : gen_load_first = (LdX, Col1) /\ gen_load_second = (LdY, Col2).
Proof. split; reflexivity. Qed.

Theorem gen_load_inside n a0 d0 a1 d1 c1 c2 : 1 <= n -> xinside n (gen_load n a0 d0 a1 d1 c1 c2).
Proof.
  intros Hn. unfold gen_load, gen_load_coord.
  destruct gen_load_first as [f1 k1], gen_load_second as [f2 k2]. cbn [fst snd].
  assert (A : forall f k, xin_grid n (match f with
                                      | LdX => gen_ps_x n n a0 d0 a1 d1 (match k with Col1 => c1 | Col2 => c2 end)
                                      | LdY => gen_ps_y n n a0 d0 a1 d1 (match k with Col1 => c1 | Col2 => c2 end)
                                      end)).
  { intros f k. destruct f; [apply gen_ps_x_on_grid | apply gen_ps_y_on_grid]; exact Hn. }
  destruct (A f1 k1) as (x & -> & X0 & X1). destruct (A f2 k2) as (y & -> & Y0 & Y1).
  exists x, y. split; [reflexivity|]. unfold inside; cbn [px py]. tauto.
Qed.

(** ** HDF5File::appendTracks: position from axis 0 at trunc(x), energy from axis 1 at trunc(y) *)
Theorem gen_append_is_model ax p n :
  n < 2 ^ 31 -> inside n p ->
  gen_append ax p = (ax 0 (track_index (px p)), ax 1 (track_index (py p))).
Proof.
  intros Hn (X0 & X1 & Y0 & Y1). unfold gen_append, append_record, append_entry, f2u, track_index.
  destruct (wrap32_coord n (px p) Hn X0 X1) as [Wx _]. destruct (wrap32_coord n (py p) Hn Y0 Y1) as [Wy _].
  destruct (Qctrunc_nonneg (px p) X0) as [Ex _]. destruct (Qctrunc_nonneg (py p) Y0) as [Ey _].
  cbn [gen_append_first gen_append_second fst snd coord_of gen_axis_of].
  rewrite Wx, Wy, Ex, Ey. reflexivity.
Qed.

Corollary gen_append_matches_appendTracks axq axp ps n :
  n < 2 ^ 31 -> Forall (inside n) ps ->
  map (gen_append (fun a => if a =? 0 then axq else axp)) ps = appendTracks axq axp ps.
Proof.
  intros Hn H. unfold appendTracks. apply map_ext_in. intros p Hp.
  rewrite Forall_forall in H. rewrite (gen_append_is_model _ p n Hn (H p Hp)). reflexivity.
Qed.

(** ** main(): every applyToAll(trackme) directly follows apply() of the same map *)
Lemma gen_track_events_ok : track_events_ok gen_track_events = true.
Proof. reflexivity. Qed.

(** what the checker guarantees: the events come in pairs apply(m); applyToAll(m) *)
Lemma track_events_ok_sound l :
  track_events_ok l = true -> exists ms, l = flat_map (fun m => [TApply m; TTrack m]) ms.
Proof.
  revert l. fix IH 1. intros l. destruct l as [|e r]; cbn [track_events_ok].
  - intros _. exists []. reflexivity.
  - destruct e as [m|m]; [|discriminate]. destruct r as [|e' r']; [discriminate|].
    destruct e' as [m'|m']; [discriminate|].
    intros H. apply andb_true_iff in H. destruct H as [E H].
    destruct (IH r' H) as (ms & ->).
    assert (m = m') by (destruct m, m'; cbn in E; congruence). subst m'.
    exists (m :: ms). reflexivity.
Qed.
