(** * The buffer machine of Model/EField.v instantiated with the DFT of Model/DFT.v and the GENERATED
    kernels of Gen/Gen_EField.v computes the function-level model the C06/C07 theorems speak of.

    [E_dft] is the [env] whose forward/inverse transforms are [DFT.r2c]/[DFT.c2r] on the cells FFTW
    reads, whose impedance product, scaling, spectrum cell and accumulation are the generated
    right-hand sides ([gen_k_scale], [gen_k_csr_off], [gen_k_csr_on], [gen_k_acc],
    [gen_csr_cut_on], [gen_loss_impedance_first]).  For every state reachable by operation histories
    (invariant [Inv]) and every number of bunches, bucket list and spacing:
    - [do_wake]'s result cell (b,x) is [DFT.wake_model] of the padded train at bucket b (so it is the
      convolution of C06 - [dft_wake_is_convolution]);
    - [do_csr]'s row b is [DFT.csr_spectrum] of bunch b ALONE at padded offset 0 and its power entry is
      [DFT.csr_power] of it, whatever the other bunches are and whatever the buffers held before -
      hence Parseval and non-negativity hold per bunch ([dft_csr_*]).
    Together with Proofs/EFieldGenP.v this makes the C06/C07 statements theorems about the programs
    generated from the current source. *)
From Coq Require Import List ZArith Bool Lia Ring Field.
From Inovesa Require Import Base.FieldKit Base.Sums Model.DFT Model.EField Model.EFieldProg Gen.Gen_EField
  Proofs.DFTP Proofs.DFTThm Proofs.EFieldP Proofs.EFieldProgP Proofs.EFieldGenP.
Import ListNotations.
Local Open Scope Z_scope.

(** cells below the rows the bunch loop still has to write are not touched *)
Lemma csr_loop_csr_below {T C} (E : env T C) cut p k : forall b s i,
  0 <= nmax E -> i < b * nmax E -> csr (csr_loop E cut p k b s) i = csr s i.
Proof.
  induction k as [|k IH]; intros b s i HN Hi; cbn [csr_loop]; [reflexivity|].
  rewrite IH by (try exact HN; nia). cbn [csr_body csr]. apply store_out. lia.
Qed.
Lemma csr_loop_csri_below {T C} (E : env T C) cut p k : forall b s i,
  i < b -> csri (csr_loop E cut p k b s) i = csri s i.
Proof.
  induction k as [|k IH]; intros b s i Hi; cbn [csr_loop]; [reflexivity|].
  rewrite IH by lia. cbn [csr_body csri]. apply store_out. lia.
Qed.

Section Inst.
  Variable K : Fld.
  Add Field KFi : (@Fth K).

  Variable N : Z.                       (* _nmax *)
  Variables cs sn : Z -> K.             (* twiddle table *)
  Variables (n spc : Z) (bks : list Z). (* PhaseSpace::nx, _spacing_bins, _bucket *)
  Variable Zi : Z -> cplx K.            (* impedance *)
  Variable scale : K.                   (* _wakescaling *)
  Variables (dq2 df hertz : K).         (* _formfactorrenorm, _axis_freq.delta(), _axis_freq.scale("Hertz") *)
  Variable fax : Z -> K.                (* _axis_freq[i] *)
  Variable expf : K -> K.               (* std::exp *)
  Variable sgn : K -> comparison.       (* cutoff_frequency ?= 0 *)
  Variable clob : list (cplx K) -> list (cplx K).   (* what the c2r leaves in its input *)
  Hypothesis HN : 0 <= N.

  Local Open Scope F_scope.

  Definition loss_k (z f : cplx K) : cplx K := if gen_loss_impedance_first then cmul z f else cmul f z.

  Definition dft_kcsr (cut : K) (ax zi : Z) (c : cplx K) : K :=
    if gen_csr_cut_on (sgn cut)
    then gen_k_csr_on K expf dq2 hertz (fax ax) cut (fst (Zi zi)) (cnorm c)
    else gen_k_csr_off K dq2 (fst (Zi zi)) (cnorm c).

  Definition E_dft : env K (cplx K) :=
    Env K (cplx K) 0 czero n N spc bks true
        (fun l => sample (DFT.r2c N cs sn (nthZ l 0)) (N / 2 + 1)%Z)
        (fun l => sample (DFT.c2r N cs sn (nthZ l czero)) N)
        clob
        (fun i c => loss_k (Zi i) c)
        (fun t => gen_k_scale K scale t)
        (fun cut i c => dft_kcsr cut i i c)
        (fun a x => gen_k_acc K a df x).

  Lemma dft_kcsr_diag cut i x : dft_kcsr cut i i x = csrcell E_dft cut i x.
  Proof. reflexivity. Qed.

  (** the cutoff factor as the model of C07 takes it: data [g_i] when the cutoff is on *)
  Definition cut_g (cut : K) (i : Z) : K := 1 - expf (- ((hertz * fax i / cut) * (hertz * fax i / cut))).
  Definition cut_opt (cut : K) : option (Z -> K) :=
    if gen_csr_cut_on (sgn cut) then Some (cut_g cut) else None.

  (** ** the generated right-hand sides are the model's arithmetic *)
  Lemma loss_k_cmul z f : loss_k z f = cmul z f.
  Proof.
    unfold loss_k. destruct gen_loss_impedance_first; [reflexivity|].
    unfold cmul. cbn [fst snd]. f_equal; ring.
  Qed.

  Lemma gen_scale_spec w : gen_k_scale K scale w = scale * w.
  Proof. unfold gen_k_scale. ring. Qed.

  Lemma gen_acc_spec a x : gen_k_acc K a df x = a + df * x.
  Proof. unfold gen_k_acc. ring. Qed.

  Lemma gen_csr_off_spec rez nf : gen_k_csr_off K dq2 rez nf = dq2 * rez * nf.
  Proof. unfold gen_k_csr_off. ring. Qed.

  Lemma gen_csr_on_spec cut i rez nf : cut <> 0 ->
    gen_k_csr_on K expf dq2 hertz (fax i) cut rez nf = dq2 * cut_g cut i * rez * nf.
  Proof.
    intros Hc. unfold gen_k_csr_on, cut_g.
    first [ ring
          | match goal with |- context [expf ?a] =>
              replace a with (- ((hertz * fax i / cut) * (hertz * fax i / cut))) by (field; exact Hc) end; ring ].
  Qed.

  (** the cutoff is never switched on for a zero cutoff frequency (it divides by it) *)
  Hypothesis cut_on_nz : forall cut, gen_csr_cut_on (sgn cut) = true -> cut <> 0.

  Lemma dft_kcsr_spec cut i c :
    dft_kcsr cut i i c = csr_renorm dq2 (cut_opt cut) i * fst (Zi i) * cnorm c.
  Proof.
    unfold dft_kcsr, cut_opt. destruct (gen_csr_cut_on (sgn cut)) eqn:Hon; cbn [csr_renorm].
    - apply gen_csr_on_spec. apply cut_on_nz. exact Hon.
    - apply gen_csr_off_spec.
  Qed.

  (** ** the transforms read only the cells FFTW reads *)
  Lemma r2c_ext (x y : Z -> K) k : (forall j, (0 <= j < N)%Z -> x j = y j) -> DFT.r2c N cs sn x k = DFT.r2c N cs sn y k.
  Proof.
    intros H. unfold DFT.r2c. f_equal; [|f_equal]; apply sumZ_ext; intros j Hj; rewrite H; try reflexivity;
      unfold nN in Hj; lia.
  Qed.

  Lemma c2r_ext (L L' : Z -> cplx K) j : (forall k, (0 <= k <= N / 2)%Z -> L k = L' k) -> DFT.c2r N cs sn L j = DFT.c2r N cs sn L' j.
  Proof.
    intros H. unfold DFT.c2r.
    assert (Hh : (0 <= N / 2)%Z) by (apply Z.div_pos; lia).
    rewrite (H 0%Z) by lia. f_equal; [f_equal; f_equal|].
    - apply sumZ_ext. intros k Hk. rewrite H; [reflexivity|].
      assert (((N - 1) / 2 <= N / 2)%Z) by (apply Z.div_le_mono; lia).
      destruct (Z.le_gt_cases 1 N) as [H1|H1].
      + assert ((0 <= (N - 1) / 2)%Z) by (apply Z.div_pos; lia). lia.
      + assert (N = 0%Z) by lia. subst N. cbn in Hk. lia.
    - destruct (Z.even N); [|reflexivity]. rewrite H by lia. reflexivity.
  Qed.

  Notation E := E_dft.
  Ltac esimp := cbn [E_dft nmax nx EField.spc buckets rz t0 c0 EField.r2c EField.c2r clobber zmul wscale csrcell acc] in *.

  Lemma fwd_dft (bpb : Z -> K) (ffb : Z -> cplx K) k :
    fwd E bpb ffb k = if ((0 <=? k)%Z && (k <=? N / 2)%Z)%bool then DFT.r2c N cs sn bpb k else ffb k.
  Proof.
    assert (Hh : (0 <= N / 2)%Z) by (apply Z.div_pos; lia).
    unfold fwd, store, half. esimp.
    destruct (inr 0 (N / 2 + 1) k) eqn:Hr.
    - inr_cases. replace ((0 <=? k)%Z && (k <=? N / 2)%Z)%bool with true
        by (symmetry; apply andb_true_iff; split; [apply Z.leb_le|apply Z.leb_le]; lia).
      rewrite Z.sub_0_r. rewrite nthZ_sample by lia. apply r2c_ext. intros j Hj. apply nthZ_sample. exact Hj.
    - inr_cases. replace ((0 <=? k)%Z && (k <=? N / 2)%Z)%bool with false; [reflexivity|].
      symmetry. apply andb_false_iff. destruct (Z.le_gt_cases 0 k); [right; apply Z.leb_gt; lia|left; apply Z.leb_gt; lia].
  Qed.

  (** ** padding: [pad_loop] is [DFT.pad] *)
  Fixpoint bunches_from (p : Z -> K) (l : list Z) (b : Z) : list (Z * (Z -> K)) :=
    match l with
    | [] => []
    | bk :: r => (bk, fun x => p (b * n + x)%Z) :: bunches_from p r (b + 1)
    end.
  Definition bunches (p : Z -> K) : list (Z * (Z -> K)) := bunches_from p bks 0.

  Lemma pad_pointwise (bs : list (Z * (Z -> K))) : forall (i1 i2 : Z -> K) u,
    i1 u = i2 u -> pad n spc bs i1 u = pad n spc bs i2 u.
  Proof.
    induction bs as [|[bk pr] r IH]; intros i1 i2 u H; cbn [pad]; [exact H|].
    apply IH. rewrite H. reflexivity.
  Qed.

  Lemma pad_loop_dft (l : list Z) : forall b p buf u,
    pad_loop E l b p buf u = pad n spc (bunches_from p l b) buf u.
  Proof.
    induction l as [|bk r IH]; intros b p buf u; cbn [pad_loop bunches_from pad]; [reflexivity|].
    rewrite IH. apply pad_pointwise. unfold store, inr, inwin, pad_index. esimp.
    replace (bk * spc + 0)%Z with (bk * spc)%Z by lia. reflexivity.
  Qed.

  Lemma pad_bp_dft p buf u : (0 <= u < N)%Z ->
    pad_bp E p buf u = padded N n spc (bunches p) (fun _ => 0) u.
  Proof.
    intros Hu. unfold pad_bp, padded, bunches. esimp.
    replace (inwin 0 N u) with true by (symmetry; unfold inwin; apply andb_true_iff; split; [apply Z.leb_le|apply Z.ltb_lt]; lia).
    rewrite pad_loop_dft. apply pad_pointwise. unfold clear. esimp. rewrite store_in by (esimp; lia). reflexivity.
  Qed.

  (** ** wakePotential *)
  Lemma rb_loop_below w l : forall b buf i, (0 <= n)%Z -> (i < b * n)%Z -> rb_loop E l b w buf i = buf i.
  Proof.
    induction l as [|bk r IH]; intros b buf i Hn Hi; cbn [rb_loop]; [reflexivity|].
    rewrite IH by (try exact Hn; esimp; nia). apply store_out. esimp. lia.
  Qed.

  Lemma rb_loop_cell w l : forall b buf (j : nat) x, (j < length l)%nat -> (0 <= x < n)%Z ->
    rb_loop E l b w buf ((b + Z.of_nat j) * n + x)%Z = gen_k_scale K scale (w (nth j l 0%Z * spc + x)%Z).
  Proof.
    induction l as [|bk r IH]; intros b buf j x Hj Hx; cbn [length] in Hj; [lia|].
    cbn [rb_loop]. destruct j as [|j].
    - rewrite rb_loop_below by (esimp; nia). esimp; cbn [Z.of_nat nth]. rewrite store_in by lia.
      esimp. f_equal. f_equal. lia.
    - replace ((b + Z.of_nat (S j)) * n + x)%Z with ((b + 1 + Z.of_nat j) * n + x)%Z by lia.
      rewrite IH by (try exact Hx; lia). reflexivity.
  Qed.

  Definition PadT (p : Z -> K) : Z -> K := padded N n spc (bunches p) (fun _ => 0).

  Theorem dft_wake_padded p s j : (0 <= j < N)%Z ->
    wp (do_wake E p s) j = wake_padded N cs sn Zi (wl s) (PadT p) j.
  Proof.
    intros Hj. assert (Hh : (0 <= N / 2)%Z) by (apply Z.div_pos; lia).
    cbn [do_wake wp]. esimp. rewrite store_in by lia. rewrite Z.sub_0_r.
    rewrite nthZ_sample by exact Hj. unfold wake_padded. apply c2r_ext. intros k Hk.
    unfold half. esimp. rewrite nthZ_sample by lia.
    unfold wakelosses, store.
    destruct (inr 0 (N / 2) k) eqn:Hr.
    - inr_cases. replace ((0 <=? k)%Z && (k <? N / 2)%Z)%bool with true
        by (symmetry; apply andb_true_iff; split; [apply Z.leb_le|apply Z.ltb_lt]; lia).
      rewrite Z.sub_0_r. esimp. rewrite loss_k_cmul. f_equal.
      rewrite fwd_dft. unfold formfactor.
      replace ((0 <=? k)%Z && (k <=? N / 2)%Z)%bool with true
        by (symmetry; apply andb_true_iff; split; apply Z.leb_le; lia).
      apply r2c_ext. intros u Hu. apply pad_bp_dft. exact Hu.
    - inr_cases. replace ((0 <=? k)%Z && (k <? N / 2)%Z)%bool with false; [reflexivity|].
      symmetry. apply andb_false_iff. right. apply Z.ltb_ge. lia.
  Qed.

  Theorem dft_wake_cell p s (b : nat) x :
    (b < length bks)%nat -> (0 <= x < n)%Z -> (0 <= nth b bks 0%Z * spc + x < N)%Z ->
    wake (do_wake E p s) (Z.of_nat b * n + x)%Z
    = wake_model N cs sn n spc Zi (wl s) (fun _ => 0) (bunches p) scale (nth b bks 0%Z) x.
  Proof.
    intros Hb Hx Hin. pose proof (dft_wake_padded p s _ Hin) as Hwp.
    cbn [do_wake wake wp] in *. esimp.
    replace (Z.of_nat b * n + x)%Z with ((0 + Z.of_nat b) * n + x)%Z by lia.
    rewrite rb_loop_cell by assumption. rewrite gen_scale_spec. unfold wake_model, pad_index. f_equal.
    exact Hwp.
  Qed.

  Theorem dft_wake_bp p s u : (0 <= u < N)%Z -> bp (do_wake E p s) u = PadT p u.
  Proof. intros Hu. cbn [do_wake bp]. apply pad_bp_dft. exact Hu. Qed.

  (** ** updateCSR *)
  Definition prof (p : Z -> K) (b : Z) : Z -> K := fun u => p (b * n + u)%Z.
  (** what the forward transform of updateCSR sees for bunch [b]: that bunch alone at offset 0 *)
  Definition CsrBuf (p : Z -> K) (b : Z) : Z -> K := csr_buffer N n (prof p b) (fun _ => 0).

  Definition ff_upper_zero (s : state K (cplx K)) : Prop := forall i, (N / 2 < i)%Z -> ff s i = czero.

  Lemma csr_body_bp cut p b s u : (0 <= u < N)%Z -> bp (csr_body E cut p b s) u = CsrBuf p b u.
  Proof.
    intros Hu. cbn [csr_body bp]. unfold CsrBuf, csr_buffer, store, prof. esimp.
    replace (inwin 0 N u) with true by (symmetry; unfold inwin; apply andb_true_iff; split; [apply Z.leb_le|apply Z.ltb_lt]; lia).
    unfold inr, inwin. destruct ((0 <=? u)%Z && (u <? 0 + n)%Z)%bool.
    - rewrite Z.sub_0_r. reflexivity.
    - unfold clear. esimp. rewrite store_in by lia. reflexivity.
  Qed.

  Lemma csr_body_ff cut p b s i : ff_upper_zero s -> (0 <= i)%Z ->
    ff (csr_body E cut p b s) i = formfactor N cs sn (CsrBuf p b) i.
  Proof.
    intros Hz Hi. cbn [csr_body ff]. rewrite fwd_dft. unfold formfactor.
    destruct ((0 <=? i)%Z && (i <=? N / 2)%Z)%bool eqn:Hr.
    - apply r2c_ext. intros u Hu. apply (csr_body_bp cut p b s u Hu).
    - apply Hz. apply andb_false_iff in Hr. destruct Hr as [Hr|Hr]; [apply Z.leb_gt in Hr; lia|apply Z.leb_gt in Hr; lia].
  Qed.

  Lemma csr_body_upper cut p b s : ff_upper_zero s -> ff_upper_zero (csr_body E cut p b s).
  Proof.
    intros Hz i Hi. cbn [csr_body ff]. rewrite fwd_dft.
    replace ((0 <=? i)%Z && (i <=? N / 2)%Z)%bool with false; [apply Hz; exact Hi|].
    symmetry. apply andb_false_iff. right. apply Z.leb_gt. exact Hi.
  Qed.

  Lemma fold_acc_sum (row : Z -> K) (m : nat) (a0 : K) :
    fold_left (fun a x => gen_k_acc K a df x) (sample row (Z.of_nat m)) a0
    = a0 + sumZ 0%Z m (fun i => df * row i).
  Proof.
    induction m as [|m IH].
    - cbn. ring.
    - replace (Z.of_nat (S m)) with (Z.of_nat m + 1)%Z by lia. rewrite sample_succ by lia.
      rewrite fold_left_app, IH. cbn [fold_left]. rewrite gen_acc_spec. rewrite sumZ_snoc.
      replace (0 + Z.of_nat m)%Z with (Z.of_nat m) by lia. ring.
  Qed.

  Lemma csr_body_row cut p b s i : ff_upper_zero s -> (0 <= i < N)%Z ->
    csr (csr_body E cut p b s) (b * N + i)%Z = csr_spectrum N cs sn dq2 (cut_opt cut) Zi (CsrBuf p b) i.
  Proof.
    intros Hz Hi. pose proof (csr_body_ff cut p b s i Hz (proj1 Hi)) as Hff.
    cbn [csr_body csr ff] in *. esimp. rewrite store_in by lia.
    replace (b * N + i - b * N)%Z with i by lia. esimp. rewrite dft_kcsr_spec. unfold csr_spectrum.
    rewrite Hff. reflexivity.
  Qed.

  Lemma csr_body_power cut p b s : ff_upper_zero s ->
    csri (csr_body E cut p b s) b = csr_power N cs sn df dq2 (cut_opt cut) Zi (CsrBuf p b).
  Proof.
    intros Hz. cbn [csr_body csri]. rewrite store_in by lia. esimp.
    rewrite <- (Z2Nat.id N) at 1 by exact HN. rewrite fold_acc_sum. unfold csr_power, nN.
    rewrite (sumZ_ext K 0%Z (Z.to_nat N) _ (fun i => df * csr_spectrum N cs sn dq2 (cut_opt cut) Zi (CsrBuf p b) i)).
    - ring.
    - intros i Hi. f_equal. esimp. rewrite dft_kcsr_spec. unfold csr_spectrum. f_equal.
      pose proof (csr_body_ff cut p b s i Hz) as Hff. cbn [csr_body ff] in Hff. esimp. rewrite Hff by lia. reflexivity.
  Qed.

  Lemma csr_loop_dft cut p k : forall b0 s, ff_upper_zero s -> (0 <= b0)%Z ->
    ff_upper_zero (csr_loop E cut p k b0 s) /\
    forall (j : nat), (j < k)%nat ->
      (forall i, (0 <= i < N)%Z ->
         csr (csr_loop E cut p k b0 s) ((b0 + Z.of_nat j) * N + i)%Z
         = csr_spectrum N cs sn dq2 (cut_opt cut) Zi (CsrBuf p (b0 + Z.of_nat j)) i) /\
      csri (csr_loop E cut p k b0 s) (b0 + Z.of_nat j)%Z
      = csr_power N cs sn df dq2 (cut_opt cut) Zi (CsrBuf p (b0 + Z.of_nat j)).
  Proof.
    induction k as [|k IH]; intros b0 s Hz Hb; cbn [csr_loop]; [split; [exact Hz|intros j Hj; lia]|].
    destruct (IH (b0 + 1)%Z (csr_body E cut p b0 s) (csr_body_upper cut p b0 s Hz)) as [Hup Hrows]; [lia|].
    split; [exact Hup|]. intros j Hj. destruct j as [|j].
    - replace (b0 + Z.of_nat 0)%Z with b0 by lia. split.
      + intros i Hi. rewrite csr_loop_csr_below by (esimp; nia). apply csr_body_row; assumption.
      + rewrite csr_loop_csri_below by lia. apply csr_body_power. exact Hz.
    - replace (b0 + Z.of_nat (S j))%Z with (b0 + 1 + Z.of_nat j)%Z by lia. apply Hrows. lia.
  Qed.

  Theorem dft_csr_row cut p s (b : nat) i : ff_upper_zero s -> (b < length bks)%nat -> (0 <= i < N)%Z ->
    csr (do_csr E cut p s) (Z.of_nat b * N + i)%Z
    = csr_spectrum N cs sn dq2 (cut_opt cut) Zi (CsrBuf p (Z.of_nat b)) i.
  Proof.
    intros Hz Hb Hi. unfold do_csr. esimp.
    destruct (csr_loop_dft cut p (length bks) 0%Z s Hz) as [_ H]; [lia|].
    destruct (H b Hb) as [Hr _]. rewrite Z.add_0_l in Hr. apply Hr. exact Hi.
  Qed.

  Theorem dft_csr_power cut p s (b : nat) : ff_upper_zero s -> (b < length bks)%nat ->
    csri (do_csr E cut p s) (Z.of_nat b)
    = csr_power N cs sn df dq2 (cut_opt cut) Zi (CsrBuf p (Z.of_nat b)).
  Proof.
    intros Hz Hb. unfold do_csr. esimp.
    destruct (csr_loop_dft cut p (length bks) 0%Z s Hz) as [_ H]; [lia|].
    destruct (H b Hb) as [_ Hp]. rewrite Z.add_0_l in Hp. exact Hp.
  Qed.

  (** every state reachable by a history satisfies the invariant *)
  Lemma inv_upper s : Inv E s -> ff_upper_zero s /\ fresh_top K N (wl s).
  Proof. intros (H1 & H2 & _). split; [exact H1|exact H2]. Qed.
End Inst.
