(** * upper_power_of_two (HelperFunctions.cpp:178, used by main.cpp:315,320 to round the padded
    lengths) returns the least power of two >= v for 1 <= v <= 2^63. *)
From Coq Require Import List ZArith Lia Bool.
From Inovesa Require Import Model.DFT.
Local Open Scope Z_scope.

(** bits above [m] clear, the [c] bits from [m] downwards set *)
Definition full (m c x : Z) : Prop :=
  (forall i, m < i -> Z.testbit x i = false) /\
  (forall i, 0 <= i -> m - c < i <= m -> Z.testbit x i = true).

Lemma smear_bit x sh i : 0 <= i -> Z.testbit (smear x sh) i = Z.testbit x i || Z.testbit x (i + sh).
Proof. intros Hi. unfold smear. rewrite Z.lor_spec, Z.shiftr_spec by exact Hi. reflexivity. Qed.

Lemma smear_step m c x : 0 < c -> 0 <= m -> full m c x -> full m (2 * c) (smear x c).
Proof.
  intros Hc Hm [Hhi Hlo]. split.
  - intros i Hi. rewrite smear_bit by lia. rewrite (Hhi i), (Hhi (i + c)) by lia. reflexivity.
  - intros i H0 Hi. rewrite smear_bit by lia.
    destruct (Z_lt_le_dec (m - c) i) as [H|H].
    + rewrite (Hlo i) by lia. reflexivity.
    + rewrite (Hlo (i + c)) by lia. apply orb_true_r.
Qed.

Lemma full_start w : 0 < w -> full (Z.log2 w) 1 w.
Proof.
  intros Hw. split.
  - intros i Hi. apply Z.bits_above_log2; lia.
  - intros i H0 Hi. replace i with (Z.log2 w) by lia. apply Z.bit_log2. exact Hw.
Qed.

Lemma full_all m c x : 0 <= m -> m < c -> full m c x -> x = Z.ones (m + 1).
Proof.
  intros Hm Hc [Hhi Hlo]. apply Z.bits_inj'. intros i Hi.
  destruct (Z_lt_le_dec m i) as [H|H].
  - rewrite Hhi by exact H. rewrite Z.ones_spec_high by lia. reflexivity.
  - rewrite Hlo by lia. rewrite Z.ones_spec_low by lia. reflexivity.
Qed.

Theorem upper_power_of_two_spec v : 1 <= v <= 2 ^ 63 -> upper_power_of_two v = 2 ^ Z.log2_up v.
Proof.
  intros Hv. unfold upper_power_of_two.
  assert (W : wrap64 (v - 1) = v - 1) by (unfold wrap64; apply Z.mod_small; lia).
  rewrite W.
  destruct (Z.eq_dec v 1) as [E|E].
  - subst v. vm_compute. reflexivity.
  - set (w := v - 1). assert (Hw : 0 < w) by (unfold w; lia).
    set (m := Z.log2 w).
    assert (Hm : 0 <= m) by apply Z.log2_nonneg.
    assert (Hm63 : m < 63).
    { unfold m. apply Z.log2_lt_pow2; [exact Hw|]. unfold w. lia. }
    pose proof (full_start w Hw) as F0. fold m in F0.
    apply (smear_step m 1 w) in F0; [|lia|exact Hm].
    apply (smear_step m 2 _) in F0; [|lia|exact Hm].
    apply (smear_step m 4 _) in F0; [|lia|exact Hm].
    apply (smear_step m 8 _) in F0; [|lia|exact Hm].
    apply (smear_step m 16 _) in F0; [|lia|exact Hm].
    apply (smear_step m 32 _) in F0; [|lia|exact Hm].
    apply full_all in F0; [|exact Hm|lia].
    change (2 * 1) with 2 in *. change (2 * 2) with 4 in *. change (2 * 4) with 8 in *.
    change (2 * 8) with 16 in *. change (2 * 16) with 32 in *.
    rewrite F0. rewrite Z.ones_equiv.
    replace (Z.pred (2 ^ (m + 1)) + 1) with (2 ^ (m + 1)) by lia.
    assert (L : Z.log2_up v = m + 1).
    { rewrite Z.log2_up_eqn by lia. unfold m, w. replace (Z.pred v) with (v - 1) by lia. lia. }
    rewrite L. unfold wrap64. apply Z.mod_small. split; [apply Z.pow_nonneg; lia|].
    apply Z.pow_lt_mono_r; lia.
Qed.

Example upper_power_of_two_examples :
  List.map upper_power_of_two (1 :: 2 :: 3 :: 96 :: 128 :: 129 :: 2 ^ 63 :: nil)
  = (1 :: 2 :: 4 :: 128 :: 128 :: 256 :: 2 ^ 63 :: nil).
Proof. vm_compute. reflexivity. Qed.
