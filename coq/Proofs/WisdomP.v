(** "After one run in any directory state, the next run plans nothing" for every table of prepareFFT bodies
    accepted by [wis_ok] (C12; seed F1-I).  Model/Wisdom.v. *)
From Coq Require Import List ZArith String Bool Lia.
From Inovesa Require Import Model.Wisdom.
Import ListNotations.
Local Open Scope Z_scope.

(** the body without its log statements *)
Definition notlog (s : wsimple) : bool := match s with WLog => false | _ => true end.
Definition strip_simples (b : list wsimple) : list wsimple := filter notlog b.
Fixpoint strip (b : list wstmt) : list wstmt :=
  match b with
  | [] => []
  | WDo WLog :: r => strip r
  | WDo s :: r => WDo s :: strip r
  | WImportThen x :: r => WImportThen (strip_simples x) :: strip r
  | WIfNoPlan x :: r => WIfNoPlan (strip_simples x) :: strip r
  end.

Definition wsimple_eqb (a b : wsimple) : bool :=
  match a, b with
  | WPlan x, WPlan y => Bool.eqb x y
  | WExport, WExport | WLog, WLog => true
  | _, _ => false
  end.
Fixpoint simples_eqb (a b : list wsimple) : bool :=
  match a, b with
  | [], [] => true
  | x :: r, y :: s => wsimple_eqb x y && simples_eqb r s
  | _, _ => false
  end.
Definition wstmt_eqb (a b : wstmt) : bool :=
  match a, b with
  | WDo x, WDo y => wsimple_eqb x y
  | WImportThen x, WImportThen y | WIfNoPlan x, WIfNoPlan y => simples_eqb x y
  | _, _ => false
  end.
Fixpoint body_eqb (a b : list wstmt) : bool :=
  match a, b with
  | [] , [] => true
  | x :: r, y :: s => wstmt_eqb x y && body_eqb r s
  | _, _ => false
  end.

(** import before the wisdom-only plan; plan, THEN export, only when no plan was made *)
Definition canon : list wstmt := [WImportThen [WPlan true]; WIfNoPlan [WPlan false; WExport]].

Definition prep_ok (pr : prep) : bool :=
  match pr_path pr with PFSPathAppend | PFSPathFull => true | PPlainString => false end && body_eqb (strip (pr_body pr)) canon.

(** [mk]: FSPath::append creates the directory of the file *)
Definition wis_ok (mk : bool) (tb : list prep) : bool := mk && forallb prep_ok tb.

Lemma wsimple_eqb_eq a b : wsimple_eqb a b = true -> a = b.
Proof. destruct a as [x| |], b as [y| |]; cbn; try discriminate; auto. intros H. apply Bool.eqb_prop in H. subst. reflexivity. Qed.
Lemma simples_eqb_eq a : forall b, simples_eqb a b = true -> a = b.
Proof.
  induction a as [|x r IH]; intros [|y s]; cbn; try discriminate; auto.
  intros H. apply andb_true_iff in H. destruct H as [H1 H2]. rewrite (wsimple_eqb_eq _ _ H1), (IH _ H2). reflexivity.
Qed.
Lemma wstmt_eqb_eq a b : wstmt_eqb a b = true -> a = b.
Proof.
  destruct a, b; cbn; try discriminate; intros H.
  - rewrite (wsimple_eqb_eq _ _ H). reflexivity.
  - rewrite (simples_eqb_eq _ _ H). reflexivity.
  - rewrite (simples_eqb_eq _ _ H). reflexivity.
Qed.
Lemma body_eqb_eq a : forall b, body_eqb a b = true -> a = b.
Proof.
  induction a as [|x r IH]; intros [|y s]; cbn; try discriminate; auto.
  intros H. apply andb_true_iff in H. destruct H as [H1 H2]. rewrite (wstmt_eqb_eq _ _ H1), (IH _ H2). reflexivity.
Qed.

(** ** log statements change the log only *)
Definition core (p : pst) := (p_fs p, p_mem p, p_plan p, p_planned p, p_written p).

Lemma exec_simple_core k s p q : core p = core q -> core (exec_simple k s p) = core (exec_simple k s q).
Proof.
  unfold core. intros H. inversion H as [[H1 H2 H3 H4 H5]].
  destruct s as [[|]| |]; cbn; rewrite ?H1, ?H2, ?H3, ?H4, ?H5; auto.
  destruct (fs_dir (p_fs q)); cbn; rewrite ?H1, ?H2, ?H3, ?H4, ?H5; auto.
Qed.

Lemma exec_simples_strip k b : forall p q, core p = core q ->
  core (exec_simples k b p) = core (exec_simples k (strip_simples b) q).
Proof.
  unfold exec_simples. induction b as [|s r IH]; intros p q H; cbn [fold_left strip_simples filter]; auto.
  destruct s as [w| |]; cbn [notlog fold_left].
  - apply IH. apply exec_simple_core. exact H.
  - apply IH. apply exec_simple_core. exact H.
  - apply IH. rewrite <- H. reflexivity.
Qed.

Lemma exec_body_strip k b : forall p q, core p = core q ->
  core (fold_left (fun p s => exec_stmt k s p) b p) = core (fold_left (fun p s => exec_stmt k s p) (strip b) q).
Proof.
  induction b as [|s r IH]; intros p q H; cbn [fold_left strip]; auto.
  destruct s as [x|x|x].
  - destruct x as [w| |]; cbn [fold_left]; apply IH.
    + cbn [exec_stmt]. apply exec_simple_core. exact H.
    + cbn [exec_stmt]. apply exec_simple_core. exact H.
    + cbn [exec_stmt]. rewrite <- H. reflexivity.
  - cbn [fold_left]. apply IH. cbn [exec_stmt].
    assert (Hf : p_fs p = p_fs q) by (unfold core in H; inversion H; auto). rewrite Hf.
    destruct (lookup k (fs_files (p_fs q))) as [[w|]|]; auto.
    apply exec_simples_strip. unfold core in *. inversion H as [[H1 H2 H3 H4 H5]]. cbn. rewrite H1, H2, H3, H4, H5. reflexivity.
  - cbn [fold_left]. apply IH. cbn [exec_stmt].
    assert (Hf : p_plan p = p_plan q) by (unfold core in H; inversion H; auto). rewrite Hf.
    destruct (p_plan q); auto. apply exec_simples_strip. exact H.
Qed.

(** ** keys *)
Lemma key_eqb_refl k : key_eqb k k = true.
Proof. unfold key_eqb. rewrite String.eqb_refl, Z.eqb_refl. reflexivity. Qed.
Lemma key_eqb_eq a b : key_eqb a b = true -> a = b.
Proof.
  unfold key_eqb. intros H. apply andb_true_iff in H. destruct H as [H1 H2]. apply String.eqb_eq in H1. apply Z.eqb_eq in H2.
  destruct a, b; cbn in *; subst; reflexivity.
Qed.
Lemma key_eqb_sym a b : key_eqb a b = key_eqb b a.
Proof. unfold key_eqb. rewrite String.eqb_sym, Z.eqb_sym. reflexivity. Qed.

Lemma lookup_store_same k v l : lookup k (store k v l) = Some v.
Proof.
  induction l as [|[k' v'] r IH]; cbn; [rewrite key_eqb_refl; reflexivity|].
  destruct (key_eqb k k') eqn:E; cbn; [rewrite key_eqb_refl; reflexivity | rewrite E; exact IH].
Qed.
Lemma lookup_store_other k k' v l : key_eqb k' k = false -> lookup k' (store k v l) = lookup k' l.
Proof.
  intros N. induction l as [|[k2 v2] r IH]; cbn; [rewrite N; reflexivity|].
  destruct (key_eqb k k2) eqn:E; cbn.
  - apply key_eqb_eq in E. subst k2. rewrite N. reflexivity.
  - destruct (key_eqb k' k2); auto.
Qed.
Lemma kmem_app_r k l : kmem k (l ++ [k]) = true.
Proof. unfold kmem. rewrite existsb_app. cbn. rewrite key_eqb_refl. rewrite orb_true_r. reflexivity. Qed.
Lemma kmem_app_l k l w : kmem k l = true -> kmem k (l ++ w) = true.
Proof. unfold kmem. rewrite existsb_app. intros ->. reflexivity. Qed.

(** ** one call of an accepted prepareFFT, in closed form (up to the log) *)
Definition prepare_spec (k : key) (p : pst) : fsys * list key * list key * list key :=
  (* (fs, mem, planned, written) *)
  let fs1 := mkfs true (fs_files (p_fs p)) in
  let m1 := match lookup k (fs_files (p_fs p)) with Some (Some w) => p_mem p ++ w | _ => p_mem p end in
  let imported := match lookup k (fs_files (p_fs p)) with Some (Some _) => true | _ => false end in
  if imported && kmem k m1 then (fs1, m1, p_planned p, p_written p)
  else let m2 := if kmem k m1 then m1 else m1 ++ [k] in
       (mkfs true (store k (Some m2) (fs_files fs1)), m2, p_planned p ++ [k], p_written p ++ [k]).

Lemma prepare_canon k pr tb (p : pst) : find (handles k) tb = Some pr -> prep_ok pr = true ->
  let q := prepare true tb k p in
  (p_fs q, p_mem q, p_planned q, p_written q) = prepare_spec k p.
Proof.
  intros F O. unfold prepare. rewrite F. unfold prep_ok in O. apply andb_true_iff in O. destruct O as [O1 O2].
  apply body_eqb_eq in O2.
  assert (PE : path_effect true (pr_path pr) (mkpst (p_fs p) (p_mem p) false (p_planned p) (p_logged p) (p_written p)) =
               path_effect true PFSPathAppend (mkpst (p_fs p) (p_mem p) false (p_planned p) (p_logged p) (p_written p)))
    by (destruct (pr_path pr); [reflexivity | reflexivity | discriminate O1]).
  rewrite PE. clear PE.
  set (p0 := path_effect true PFSPathAppend (mkpst (p_fs p) (p_mem p) false (p_planned p) (p_logged p) (p_written p))).
  pose proof (exec_body_strip k (pr_body pr) p0 p0 eq_refl) as C. rewrite O2 in C.
  set (q := fold_left (fun p s => exec_stmt k s p) (pr_body pr) p0) in *.
  assert (X : (p_fs q, p_mem q, p_planned q, p_written q) =
              (let c := core (fold_left (fun p s => exec_stmt k s p) canon p0) in
               (fst (fst (fst (fst c))), snd (fst (fst (fst c))), snd (fst c), snd c))).
  { rewrite <- C. unfold core. reflexivity. }
  rewrite X. clear X C q. unfold prepare_spec, canon, p0, path_effect. cbn [fold_left exec_stmt p_fs fs_files p_mem p_plan].
  unfold kmem.
  destruct (lookup k (fs_files (p_fs p))) as [[w|]|] eqn:L; cbn [andb].
  - destruct (existsb (key_eqb k) (p_mem p ++ w)) eqn:M; cbn; rewrite ?M; cbn; rewrite ?M; reflexivity.
  - destruct (existsb (key_eqb k) (p_mem p)) eqn:M; cbn; rewrite ?M; cbn; rewrite ?M; reflexivity.
  - destruct (existsb (key_eqb k) (p_mem p)) eqn:M; cbn; rewrite ?M; cbn; rewrite ?M; reflexivity.
Qed.

(** ** inclusion of wisdom, growth of the directory *)
Definition incl_k (a b : list key) : Prop := forall k, kmem k a = true -> kmem k b = true.
Definition fle (A B : fsys) : Prop :=
  (fs_dir A = true -> fs_dir B = true) /\
  forall k w, lookup k (fs_files A) = Some (Some w) -> exists w', lookup k (fs_files B) = Some (Some w') /\ incl_k w w'.

Lemma kmem_app k a b : kmem k (a ++ b) = kmem k a || kmem k b.
Proof. unfold kmem. apply existsb_app. Qed.
Lemma incl_k_refl a : incl_k a a.
Proof. intros k H. exact H. Qed.
Lemma incl_k_trans a b c : incl_k a b -> incl_k b c -> incl_k a c.
Proof. intros H1 H2 k H. auto. Qed.
Lemma incl_k_app a b w w' : incl_k a b -> incl_k w w' -> incl_k (a ++ w) (b ++ w').
Proof.
  intros H1 H2 k. rewrite !kmem_app. intros H. apply orb_true_iff in H. apply orb_true_iff.
  destruct H; [left; apply H1 | right; apply H2]; assumption.
Qed.
Lemma incl_k_app_r a b : incl_k a (b ++ a).
Proof. intros k H. rewrite kmem_app, H. apply orb_true_r. Qed.
Lemma incl_k_app_l a b : incl_k a (a ++ b).
Proof. intros k H. rewrite kmem_app, H. reflexivity. Qed.
Lemma fle_refl A : fle A A.
Proof. split; auto. intros k w H. exists w. split; auto. apply incl_k_refl. Qed.
Lemma fle_trans A B C : fle A B -> fle B C -> fle A C.
Proof.
  intros (D1 & F1) (D2 & F2). split; auto. intros k w H. destruct (F1 k w H) as (w1 & L1 & I1).
  destruct (F2 k w1 L1) as (w2 & L2 & I2). exists w2. split; auto. eapply incl_k_trans; eauto.
Qed.

(** ** what one accepted call does, seen from outside *)
Lemma prepare_spec_props k (p : pst) :
  let '(fs', m', pl', wr') := prepare_spec k p in
  fs_dir fs' = true /\ fle (p_fs p) fs' /\
  exists w, lookup k (fs_files fs') = Some (Some w) /\ kmem k m' = true /\ incl_k m' (p_mem p ++ w).
Proof.
  unfold prepare_spec.
  destruct (lookup k (fs_files (p_fs p))) as [[w|]|] eqn:L; cbn [andb].
  - destruct (kmem k (p_mem p ++ w)) eqn:M.
    + split; [reflexivity|]. split.
      * split; [reflexivity|]. cbn [fs_files]. intros k' w' H. exists w'. split; auto. apply incl_k_refl.
      * exists w. cbn [fs_files]. split; auto. split; auto. apply incl_k_refl.
    + split; [reflexivity|]. cbn [fs_files]. split.
      * split; [reflexivity|]. cbn [fs_files]. intros k' w' H.
        destruct (key_eqb k' k) eqn:E.
        -- apply key_eqb_eq in E. subst k'. rewrite L in H. inversion H. subst w'.
           exists ((p_mem p ++ w) ++ [k]). rewrite lookup_store_same. split; auto.
           eapply incl_k_trans; [apply incl_k_app_r | apply incl_k_app_l].
        -- exists w'. rewrite lookup_store_other by exact E. split; auto. apply incl_k_refl.
      * exists ((p_mem p ++ w) ++ [k]). rewrite lookup_store_same. split; auto. split; [apply kmem_app_r|]. apply incl_k_app_r.
  - set (m2 := if kmem k (p_mem p) then p_mem p else p_mem p ++ [k]).
    assert (Hk : kmem k m2 = true) by (unfold m2; destruct (kmem k (p_mem p)) eqn:M; auto; apply kmem_app_r).
    split; [reflexivity|]. cbn [fs_files]. split.
    + split; [reflexivity|]. cbn [fs_files]. intros k' w' H.
      destruct (key_eqb k' k) eqn:E.
      * apply key_eqb_eq in E. subst k'. rewrite L in H. discriminate H.
      * exists w'. rewrite lookup_store_other by exact E. split; auto. apply incl_k_refl.
    + exists m2. rewrite lookup_store_same. split; auto. split; auto. apply incl_k_app_r.
  - set (m2 := if kmem k (p_mem p) then p_mem p else p_mem p ++ [k]).
    assert (Hk : kmem k m2 = true) by (unfold m2; destruct (kmem k (p_mem p)) eqn:M; auto; apply kmem_app_r).
    split; [reflexivity|]. cbn [fs_files]. split.
    + split; [reflexivity|]. cbn [fs_files]. intros k' w' H.
      destruct (key_eqb k' k) eqn:E.
      * apply key_eqb_eq in E. subst k'. rewrite L in H. discriminate H.
      * exists w'. rewrite lookup_store_other by exact E. split; auto. apply incl_k_refl.
    + exists m2. rewrite lookup_store_same. split; auto. split; auto. apply incl_k_app_r.
Qed.

(** with the wisdom for [k] in its file (or already in memory once the file is read) nothing is planned, nothing written *)
Lemma prepare_spec_idle k (p : pst) w : fs_dir (p_fs p) = true ->
  lookup k (fs_files (p_fs p)) = Some (Some w) -> kmem k (p_mem p ++ w) = true ->
  prepare_spec k p = (p_fs p, p_mem p ++ w, p_planned p, p_written p).
Proof.
  intros D L M. unfold prepare_spec. rewrite L, M. cbn [andb]. destruct (p_fs p) as [d f]. cbn in D. subst d. reflexivity.
Qed.

Section W.
  Variable tb : list prep.
  Hypothesis OK : forallb prep_ok tb = true.

  Lemma handled_ok k : forall pr, find (handles k) tb = Some pr -> prep_ok pr = true.
  Proof. intros pr F. rewrite forallb_forall in OK. apply OK. apply find_some in F. tauto. Qed.

  Definition handled (k : key) : bool := match find (handles k) tb with Some _ => true | None => false end.

  Definition run_from (p : pst) (reqs : list key) : pst := fold_left (fun p k => prepare true tb k p) reqs p.

  Lemma prepare_is_spec k (p : pst) : handled k = true ->
    let q := prepare true tb k p in (p_fs q, p_mem q, p_planned q, p_written q) = prepare_spec k p.
  Proof.
    unfold handled. destruct (find (handles k) tb) as [pr|] eqn:F; [|discriminate]. intros _.
    apply (prepare_canon k pr tb p F (handled_ok k pr F)).
  Qed.

  Lemma run_from_grows reqs : forall p, (forall k, In k reqs -> handled k = true) -> fle (p_fs p) (p_fs (run_from p reqs)).
  Proof.
    induction reqs as [|k r IH]; intros p H; cbn [run_from fold_left]; [apply fle_refl|].
    eapply fle_trans; [|apply IH; intros k' Hi; apply H; right; exact Hi].
    pose proof (prepare_is_spec k p (H k (or_introl eq_refl))) as E. cbn zeta in E.
    pose proof (prepare_spec_props k p) as P. rewrite <- E in P. tauto.
  Qed.

  (** run 1 at [p1], run 2 at [p2] reading the directory [F] that run 1 will leave: run 2 plans and writes nothing *)
  Lemma second_run_idle reqs : forall (p1 p2 : pst), (forall k, In k reqs -> handled k = true) ->
    fle (p_fs (run_from p1 reqs)) (p_fs p2) -> incl_k (p_mem p1) (p_mem p2) ->
    (reqs <> [] \/ fs_dir (p_fs p2) = true) ->
    let q := run_from p2 reqs in
    p_planned q = p_planned p2 /\ p_written q = p_written p2 /\ p_fs q = p_fs p2.
  Proof.
    induction reqs as [|k r IH]; intros p1 p2 H FL IM ND; cbn [run_from fold_left]; [auto|].
    pose proof (H k (or_introl eq_refl)) as Hk.
    pose proof (prepare_is_spec k p1 Hk) as E1. cbn zeta in E1.
    pose proof (prepare_spec_props k p1) as P1. rewrite <- E1 in P1. destruct P1 as (D1 & G1 & w & L1 & M1 & I1).
    set (p1' := prepare true tb k p1) in *.
    assert (Hr : forall k', In k' r -> handled k' = true) by (intros k' Hi; apply H; right; exact Hi).
    assert (FL' : fle (p_fs p1') (p_fs p2)).
    { eapply fle_trans; [apply (run_from_grows r p1' Hr)|]. exact FL. }
    destruct FL' as (DF & FF). pose proof (DF D1) as D2. destruct (FF k w L1) as (wF & L2 & IW).
    assert (M2 : kmem k (p_mem p2 ++ wF) = true).
    { apply (incl_k_app _ _ _ _ IM IW). apply I1. exact M1. }
    pose proof (prepare_is_spec k p2 Hk) as E2. cbn zeta in E2.
    rewrite (prepare_spec_idle k p2 wF D2 L2 M2) in E2. inversion E2 as [[Ef Em Ep Ew]].
    set (p2' := prepare true tb k p2) in *.
    destruct (IH p1' p2' Hr) as (A & B & C).
    - rewrite Ef. exact FL.
    - rewrite Em. eapply incl_k_trans; [exact I1|]. apply incl_k_app; auto.
    - right. rewrite Ef. exact D2.
    - fold (run_from p2' r). rewrite A, B, C. auto.
  Qed.

  (** after one run - started in ANY state of the wisdom directory - the next run of the same program plans nothing
      and writes nothing; every transform it prepares has its wisdom file *)
  Theorem after_one_run_nothing_is_planned (fs0 : fsys) (reqs : list key) :
    (forall k, In k reqs -> handled k = true) ->
    let fs1 := p_fs (run true tb reqs fs0) in
    p_planned (run true tb reqs fs1) = [] /\ p_written (run true tb reqs fs1) = [] /\ p_fs (run true tb reqs fs1) = fs1 /\
    (forall k, In k reqs -> exists w, lookup k (fs_files fs1) = Some (Some w)).
  Proof.
    intros H. cbn zeta. destruct reqs as [|k0 r0].
    { cbn. repeat split; auto. intros k []. }
    assert (NE : k0 :: r0 <> []) by discriminate. revert H NE. generalize (k0 :: r0). clear k0 r0. intros reqs H NE.
    unfold run. change (fold_left (fun p k => prepare true tb k p) reqs) with (fun p => run_from p reqs). cbn beta.
    set (fs1 := p_fs (run_from (mkpst fs0 [] false [] [] []) reqs)).
    { destruct (second_run_idle reqs (mkpst fs0 [] false [] [] []) (mkpst fs1 [] false [] [] []) H) as (A & B & C).
      + apply fle_refl.
      + apply incl_k_refl.
      + left. exact NE.
      + split; [exact A|]. split; [exact B|]. split; [exact C|].
        (* every prepared transform has a readable file at the end *)
        assert (X : forall rq p, (forall k, In k rq -> handled k = true) -> forall k, In k rq ->
                    exists w, lookup k (fs_files (p_fs (run_from p rq))) = Some (Some w)).
        { induction rq as [|k r IH]; intros p Hh k' Hi; [destruct Hi|]. cbn [run_from fold_left].
          assert (Hr : forall k2, In k2 r -> handled k2 = true) by (intros k2 H2; apply Hh; right; exact H2).
          destruct Hi as [Hi|Hi].
          - subst k'. pose proof (prepare_is_spec k p (Hh k (or_introl eq_refl))) as E. cbn zeta in E.
            pose proof (prepare_spec_props k p) as P. rewrite <- E in P. destruct P as (_ & _ & w & L & _).
            destruct (run_from_grows r (prepare true tb k p) Hr) as (_ & G). destruct (G k w L) as (w' & L' & _). exists w'. exact L'.
          - apply IH; auto. }
        intros k Hi. apply (X reqs _ H k Hi). }
  Qed.
End W.

(** ** the same slip as seed F1-I, and two others, in miniature: refused, and with a run that plans again *)
Definition tb_of (f : pathform) (b : list wstmt) : list prep := [mkprep ["r2c32"%string] f b].
Definition k0 : key := ("r2c32"%string, 128).
Definition fs_empty : fsys := mkfs false [].
Definition second_run_planned (mk : bool) (tb : list prep) : list key :=
  p_planned (run mk tb [k0] (p_fs (run mk tb [k0] fs_empty))).

(** a plain string as path: nothing creates the directory, the export fails silently, every run plans again *)
Lemma plain_string_path_replans :
  prep_ok (mkprep ["r2c32"%string] PPlainString (WImportThen [WPlan true] :: WIfNoPlan [WPlan false; WExport; WLog] :: nil)) = false /\
  second_run_planned true (tb_of PPlainString (WImportThen [WPlan true] :: WIfNoPlan [WPlan false; WExport; WLog] :: nil)) = [k0].
Proof. split; vm_compute; reflexivity. Qed.
(** the wisdom exported BEFORE the plan is made: the file never holds the wisdom of its own transform *)
Lemma export_before_plan_replans :
  prep_ok (mkprep ["r2c32"%string] PFSPathAppend (WImportThen [WPlan true] :: WIfNoPlan [WExport; WPlan false; WLog] :: nil)) = false /\
  second_run_planned true (tb_of PFSPathAppend (WImportThen [WPlan true] :: WIfNoPlan [WExport; WPlan false; WLog] :: nil)) = [k0].
Proof. split; vm_compute; reflexivity. Qed.
(** an FSPath::append that does not create the directory *)
Lemma append_without_mkdir_replans :
  wis_ok false (tb_of PFSPathAppend canon) = false /\ second_run_planned false (tb_of PFSPathAppend canon) = [k0].
Proof. split; vm_compute; reflexivity. Qed.
(** ... and the accepted form, on the same input: the second run plans nothing *)
Lemma accepted_form_is_idle : second_run_planned true (tb_of PFSPathAppend (WImportThen [WPlan true] :: WIfNoPlan [WPlan false; WExport; WLog] :: nil)) = [].
Proof. vm_compute. reflexivity. Qed.
