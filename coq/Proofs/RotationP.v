(** * RotationMap weights: tensor products of the 1-D weights (unity, unit weight at zero,
      reproduction of every monomial x^k y^l with k, l below the order). *)
From Coq Require Import List ZArith Ring Field Lia.
From Inovesa Require Import Base.FieldKit Gen.Gen_Coeffs Model.Rotation Proofs.WeightsP.
Import ListNotations.

Section RotationP.
  Variable K : Fld.
  Add Field KFr : (@Fth K).
  Local Open Scope F_scope.

  Lemma fsum_app (a b : list K) : fsum (a ++ b) = fsum a + fsum b.
  Proof. induction a as [|x a IH]; cbn [app fsum]; [ring|]. rewrite IH; ring. Qed.

  Lemma fsum_scale (x : K) (b : list K) : fsum (map (fun y => x * y) b) = x * fsum b.
  Proof. induction b as [|y b IH]; cbn [map fsum]; [ring|]. rewrite IH; ring. Qed.

  Lemma fsum_tensor (a b : list K) : fsum (tensor a b) = fsum a * fsum b.
  Proof.
    unfold tensor. induction a as [|x a IH]; cbn [flat_map fsum]; [ring|].
    rewrite fsum_app, fsum_scale, IH. ring.
  Qed.

  Lemma fdot_app (a b u v : list K) :
    length a = length u -> fdot (a ++ b) (u ++ v) = fdot a u + fdot b v.
  Proof.
    revert u; induction a as [|x a IH]; intros [|y u] H; cbn in H; try discriminate.
    - cbn [app fdot]. ring.
    - cbn [app fdot]. rewrite IH by (injection H; auto). ring.
  Qed.

  Lemma fdot_scale (x y : K) (b v : list K) :
    fdot (map (fun t => x * t) b) (map (fun t => y * t) v) = (x * y) * fdot b v.
  Proof.
    revert v; induction b as [|p b IH]; intros [|q v]; cbn [map fdot]; try ring.
    rewrite IH. ring.
  Qed.

  Lemma fdot_tensor (a u b v : list K) :
    length b = length v ->
    fdot (tensor a b) (tensor u v) = fdot a u * fdot b v.
  Proof.
    intros Hl. unfold tensor. revert u; induction a as [|x a IH]; intros [|y u]; cbn [flat_map fdot]; try ring.
    - destruct (map (fun y0 => x * y0) b ++ _); cbn [fdot]; ring.
    - rewrite fdot_app by (rewrite !map_length; exact Hl). rewrite fdot_scale, IH. ring.
  Qed.

  (** the [it*it] weights of a grid point sum to one, whatever the two fractional parts *)
  Theorem rot_weights_unity it (xf yf : K) : valid_it it -> fsum (rot_weights it xf yf) = 1.
  Proof.
    intros H. unfold rot_weights. rewrite fsum_tensor, !(coeffs_unity K) by exact H. ring.
  Qed.

  (** at zero fractional parts a single unit weight remains (at the stencil centre in both axes) *)
  Theorem rot_weights_at_zero it :
    valid_it it -> rot_weights it (0 : K) 0 = tensor (unit_at it) (unit_at it).
  Proof. intros H. unfold rot_weights. rewrite !(coeffs_at_zero K) by exact H. reflexivity. Qed.

  (** tensor-product polynomial reproduction: sum_{i,j} w_i(xf) w_j(yf) (X+i-c)^k (Y+j-c)^l
      = (X+xf)^k (Y+yf)^l for k, l < it *)
  Definition nodes (it : Z) (X : K) (k : nat) : list K :=
    map (fun j => fpow (X + fz (j - centre it)) k) (zrange it).

  Theorem rot_poly_reproduction it (k l : nat) (xf yf X Y : K) :
    valid_it it -> (Z.of_nat k < it)%Z -> (Z.of_nat l < it)%Z ->
    fdot (rot_weights it xf yf) (tensor (nodes it X k) (nodes it Y l)) =
    fpow (X + xf) k * fpow (Y + yf) l.
  Proof.
    intros H Hk Hl. unfold rot_weights.
    rewrite fdot_tensor.
    - pose proof (poly_reproduction K it k xf X H Hk) as P1.
      pose proof (poly_reproduction K it l yf Y H Hl) as P2.
      unfold wmoment in P1, P2. unfold nodes. rewrite P1, P2. reflexivity.
    - unfold nodes. rewrite map_length.
      pose proof (coeffs_length K it yf H) as L. unfold zrange. rewrite map_length, seq_length.
      destruct H as [H|[H|[H|H]]]; subst; reflexivity.
  Qed.
End RotationP.
