(** Per-run obligation of the flag-access checker (Model/AbortFlag.v) on the list generated from the sources of this run
    (Gen/Gen_AbortFlag.v) and main()'s references as clang sees them (Gen/Gen_MainLoop.v). *)
From Coq Require Import List ZArith String Bool.
From Inovesa Require Import Model.AbortFlag Gen.Gen_AbortFlag Gen.Gen_MainLoop Proofs.AbortFlagP.
Import ListNotations.

Lemma main_abort_sites_checked : abort_ok abort_sites abort_refs = true.
Proof. vm_compute. reflexivity. Qed.
