(** * C10: the time axis value and the conversion inputs main() hands to the results file and the fields
    (Gen/Gen_Scaling.v), stated in the options, branch by branch (conventions: Proofs/ScalingAngleP.v). *)
From Coq Require Import List ZArith Bool Field.
From Inovesa Require Import Base.FieldKit Model.ScalingOps Model.H5Units Gen.Gen_Scaling Proofs.ScalingTac.
Import ListNotations.
Local Open Scope F_scope.

Section S.
  Variable K : Fld.
  Add Field KFu : (@Fth K).
  Variable O : Ops K.
  Variable L : leaf -> K.
  Variable B : bleaf -> bool.

  (** the time stored with a record is step/StepsPerTs: in units of synchrotron periods *)
  Lemma h5_time_in_periods :
    o_lt O 0 (L O_getStepsPerTrev) = false -> o_lt O (L O_getStepsPerTsync) 1 = false ->
    L O_getStepsPerTsync <> 0 ->
    gen_h5_time K O L B * L O_getStepsPerTsync = L S_simulationstep.
  Proof. intros. open_gen. use_guards. field_hyps. Qed.

  Lemma h5_time_with_StepsPerRevolution :
    o_lt O 0 (L O_getStepsPerTrev) = true -> o_is0 O (L O_getSyncFreq) = false ->
    L O_getStepsPerTrev <> 0 -> L O_getRevolutionFrequency <> 0 -> L O_getSyncFreq <> 0 ->
    gen_h5_time K O L B * (L O_getStepsPerTrev * L O_getRevolutionFrequency / L O_getSyncFreq) = L S_simulationstep.
  Proof. intros. open_gen. use_guards. field_hyps. Qed.

  (** the inputs of the unit identities ([t_sync], [dt], [revolutionpart] of Model/H5Units.v) are what main() passes:
      dt = 1/(f_s steps) to the wake field, revolutionpart = f_rev dt to both fields and every RF map that takes it,
      t_sync = 1/f_s and f_rev to the file *)
  Lemma h5_unit_inputs :
    o_is0 O (L O_getSyncFreq) = false ->
    o_lt O 0 (L O_getStepsPerTrev) = false -> o_lt O (L O_getStepsPerTsync) 1 = false ->
    L O_getSyncFreq <> 0 -> L O_getStepsPerTsync <> 0 ->
    let fs := L O_getSyncFreq in let steps := L O_getStepsPerTsync in let frev := L O_getRevolutionFrequency in
    gen_t_sync K O L B = t_sync K fs /\ gen_h5_f_rev K O L B = frev /\ gen_f_rev K O L B = frev /\
    gen_dt K O L B = dt K fs steps /\
    gen_revolutionpart K O L B = revolutionpart K frev fs steps /\
    gen_rdtn_revolutionpart K O L B = revolutionpart K frev fs steps /\
    gen_dynrf_revolutionpart K O L B = revolutionpart K frev fs steps /\
    gen_sinrf_revolutionpart K O L B = revolutionpart K frev fs steps.
  Proof.
    cbv zeta. intros. unfold t_sync, revolutionpart, dt. open_gen. use_guards. repeat split; field_hyps.
  Qed.

End S.
