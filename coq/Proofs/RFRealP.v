(** * Real-number statements of C03: phase advance per step of the kick-drift map, and the
      linearisation of the sinusoidal RF kick for small phases.  (Axioms: the standard library's
      real numbers; [interval] additionally uses the primitive 63-bit integers.) *)
From Coq Require Import Reals Lra Lia Psatz ZArith.
From Interval Require Import Tactic.
From Inovesa Require Import Base.FieldKit Base.RInst Model.RF Proofs.RFP.
Local Open Scope R_scope.

Ltac r_unf := cbv [fmul fadd fsub fopp fdiv finv f0 f1 car RF] in *.

(** ** phase advance.  The one-step matrix M = [[1 - a t, -a], [t, 1]] with t = tan a has
    determinant 1 and trace 2 - a tan a = 2 cos mu: it is conjugate to the rotation by mu. *)
Lemma cos_mu_upper a : 1/1024 <= a <= 1/2 -> 1 - a * tan a / 2 - cos a <= 0.
Proof. intros H. interval with (i_bisect a, i_taylor a, i_prec 60). Qed.

Lemma cos_mu_lower a : 1/1024 <= a <= 1/2 -> cos (a + a^3/4) - (1 - a * tan a / 2) <= 0.
Proof. intros H. interval with (i_bisect a, i_taylor a, i_prec 60, i_depth 30). Qed.

Lemma cos_mu_range a : 1/1024 <= a <= 1/2 -> -1 <= 1 - a * tan a / 2 <= 1.
Proof. intros H. split; interval with (i_prec 60). Qed.

Theorem phase_advance_bounds a :
  1/1024 <= a <= 1/2 ->
  let c := 1 - a * tan a / 2 in
  let mu := acos c in
  cos mu = c /\ mat_tr (K:=RF) (Mstep (K:=RF) (tan a) a) = 2 * cos mu /\
  cos (a + a^3/4) <= c <= cos a /\ a <= mu <= a + a^3/4.
Proof.
  intros H c mu.
  assert (Hc : -1 <= c <= 1) by (apply cos_mu_range; exact H).
  assert (Hcos : cos mu = c) by (apply cos_acos; exact Hc).
  assert (Hu : c <= cos a) by (pose proof (cos_mu_upper a H); unfold c; lra).
  assert (Hl : cos (a + a^3/4) <= c) by (pose proof (cos_mu_lower a H); unfold c; lra).
  assert (Hmu : 0 <= mu <= PI) by (apply acos_bound).
  assert (Hpi : 3 < PI) by (interval with (i_prec 60)).
  assert (Ha3 : 0 <= a^3/4 <= 1/8) by (split; interval with (i_prec 60)).
  repeat split; try assumption.
  - unfold mat_tr, Mstep. cbn [fst snd]. rewrite Hcos. unfold c. cbv [fmul fadd fsub fopp fdiv finv f0 f1 car RF]. field.
  - apply cos_decr_0; lra.
  - apply cos_decr_0; lra.
Qed.

(** after N = 2 pi / a steps the accumulated phase N*mu exceeds 2 pi by at most N a^3/4 =
    (pi/2) a^2: the first-order splitting error of the kick-drift scheme *)
Corollary period_phase_error a N :
  1/1024 <= a <= 1/2 -> 0 <= N -> N * a = 2 * PI ->
  let mu := acos (1 - a * tan a / 2) in
  2 * PI <= N * mu <= 2 * PI + PI / 2 * a^2.
Proof.
  intros H HN HNa mu. destruct (phase_advance_bounds a H) as (_ & _ & _ & Hl & Hu). fold mu in Hl, Hu.
  split.
  - rewrite <- HNa. apply Rmult_le_compat_l; assumption.
  - assert (E : N * (a + a^3/4) = 2 * PI + PI / 2 * a ^ 2)
      by (replace (N * (a + a ^ 3 / 4)) with (N * a + (N * a) * a^2 / 4) by field; rewrite HNa; field).
    rewrite <- E.
    apply Rmult_le_compat_l; assumption.
Qed.

(** ** sinusoidal RF: for small phases the kick is the linear one up to phi^3/6 *)
Lemma sin_cubic phi : Rabs phi <= 1 -> Rabs (sin phi - phi) <= Rabs phi ^ 3 / 6.
Proof.
  assert (P : forall p, 0 <= p <= 1 -> p - p^3/6 <= sin p <= p).
  { intros p Hp. assert (Hpi : 3 < PI) by (interval with (i_prec 60)).
    split.
    - destruct (SIN p) as [L _]; try lra. unfold sin_lb, sin_approx, sum_f_R0, sin_term in L.
      assert (F1 : INR (fact (2 * 0 + 1)) = 1) by (rewrite INR_IZR_INZ; vm_compute Z.of_nat; reflexivity).
      assert (F3 : INR (fact (2 * 1 + 1)) = 6) by (rewrite INR_IZR_INZ; vm_compute Z.of_nat; reflexivity).
      assert (F5 : INR (fact (2 * 2 + 1)) = 120) by (rewrite INR_IZR_INZ; vm_compute Z.of_nat; reflexivity).
      assert (F7 : INR (fact (2 * 3 + 1)) = 5040) by (rewrite INR_IZR_INZ; vm_compute Z.of_nat; reflexivity).
      rewrite F1, F3, F5, F7 in L.
      change (2 * 0 + 1)%nat with 1%nat in L. change (2 * 1 + 1)%nat with 3%nat in L.
      change (2 * 2 + 1)%nat with 5%nat in L. change (2 * 3 + 1)%nat with 7%nat in L.
      assert (Q : 0 <= p^5/120 - p^7/5040).
      { replace (p^5/120 - p^7/5040) with (p^5 * (1/120 - p*p/5040)) by field.
        apply Rmult_le_pos; [apply pow_le; lra | nra]. }
      simpl pow in L. simpl pow in Q. simpl pow. lra.
    - destruct (Req_dec p 0) as [->|Hz]; [rewrite sin_0; lra|]. left. apply sin_lt_x. lra. }
  intros H. destruct (Rle_dec 0 phi) as [Hpos|Hneg].
  - rewrite (Rabs_right phi) in * by lra. destruct (P phi) as [A B]; [lra|].
    rewrite Rabs_left1 by lra. lra.
  - assert (Hn : phi < 0) by lra. rewrite (Rabs_left phi) in * by lra.
    destruct (P (- phi)) as [A B]; [lra|]. rewrite sin_neg in A, B.
    rewrite Rabs_right by lra. replace ((- phi) ^ 3) with (- phi ^ 3) in * by ring. lra.
Qed.

(** the sinusoidal offset at a cell with phase phi = q*bl2phase (synchronous phase 0, V0 = 0)
    versus the linear kick with slope kappa = revpart*VRF/(delta1*scale1) per radian *)
Theorem sin_rf_linearisation (revpart ampl vrf delta1 scale1 phi : R) :
  delta1 <> 0 -> scale1 <> 0 -> Rabs phi <= 1 ->
  let kappa := revpart * ampl * vrf / delta1 / scale1 in
  Rabs (rf_sin (K:=RF) revpart ampl vrf 0 delta1 scale1 (sin phi) - (- kappa * phi))
  <= Rabs kappa * (Rabs phi ^ 3 / 6).
Proof.
  intros Hd Hs Hp kappa.
  replace (rf_sin (K:=RF) revpart ampl vrf 0 delta1 scale1 (sin phi) - - kappa * phi)
    with (- kappa * (sin phi - phi)).
  2:{ unfold rf_sin, kappa. cbv [fmul fadd fsub fopp fdiv finv f0 f1 car RF]. field. split; assumption. }
  rewrite Rabs_mult, Rabs_Ropp. apply Rmult_le_compat_l; [apply Rabs_pos | apply sin_cubic; exact Hp].
Qed.
