(** Per-run obligations about the observer-guarded statements of the simulation part of the generated main()
    (Gen/Gen_MainLoop.v) with `getPastModulation()` as generated from src/SM/DynamicRFKickMap.cpp
    (Gen/Gen_DynQueue.v) - C19, seed F6-J.  (The set-up and the conservative form are in Proofs/SetupObsMainP.v.) *)
From Coq Require Import List ZArith String Bool.
From Inovesa Require Import Model.Driver Model.Observers Model.DynQueue Gen.Gen_MainLoop Gen.Gen_DynQueue Proofs.ObserversP Proofs.ObserversDQP.
Import ListNotations.
Local Open Scope Z_scope.

(** what `getPastModulation()` does to `_past_modulation`, as generated from src/SM/DynamicRFKickMap.cpp *)
Definition main_getpast : list pastop := List.map pastop_of dq_getpast_ops.

(** every observer-guarded statement of the simulation part is pure *)
Lemma main_loop_observers_checked : observers_pure main_getpast loop_observers = true.
Proof. vm_compute. reflexivity. Qed.

(** today's `getPastModulation()` is not a getter: called under an observer guard it is refused *)
Lemma main_getpast_is_not_pure : oeff_pure main_getpast (OGetPast "drfm") = false.
Proof. vm_compute. reflexivity. Qed.

Lemma main_getpast_shape : exists r, main_getpast = r ++ [PCleared; PKeep].
Proof. exists [PMovedFrom]. vm_compute. reflexivity. Qed.

Section M.
  Variable K : kern.
  Notation st := (Driver.st K).

  Lemma main_loop_observers_pure sig cf junk unk o (s : st) :
    In o loop_observers -> oexec_stmt sig cf junk main_getpast unk o s = s.
  Proof. apply (observers_pure_sound K sig cf junk main_getpast unk loop_observers main_loop_observers_checked). Qed.

  Lemma main_getpast_under_observer_loses_records sig cf junk unk (s : st) :
    Driver.past (oexec sig cf junk main_getpast unk (OGetPast "drfm") s) = [] /\
    recs cf ARFKicks (oexec sig cf junk main_getpast unk (OGetPast "drfm") s) = [mkrec (Driver.k s) (RRF [])].
  Proof. destruct main_getpast_shape as [r E]. rewrite E. apply getpast_loses_records. Qed.
End M.
