(** Per-run obligations about the observer-guarded statements of the generated main() (Gen/Gen_MainLoop.v,
    Gen/Gen_DynQueue.v): set-up (C12, seed F3-I) and simulation part (C12/C19, seed F6-J). *)
From Coq Require Import List ZArith String Bool.
From Inovesa Require Import Model.Driver Model.Setup Model.Observers Model.DynQueue Gen.Gen_MainLoop Gen.Gen_DynQueue
  Proofs.SetupObsP Proofs.ObserversP.
Import ListNotations.
Local Open Scope Z_scope.

(** what `getPastModulation()` does to `_past_modulation`, as generated from src/SM/DynamicRFKickMap.cpp *)
Definition main_getpast : list pastop := List.map pastop_of dq_getpast_ops.

(** every `if` of the set-up whose condition reads the verbosity has a pure condition and pure branches *)
Lemma main_setup_observers_checked : obs_chk setup_observer_conds setup_pure_opaque main_setup = true.
Proof. vm_compute. reflexivity. Qed.

(** every observer-guarded statement of the simulation part is pure *)
Lemma main_loop_observers_checked : observers_pure main_getpast loop_observers = true.
Proof. vm_compute. reflexivity. Qed.

(** main() does test the verbosity in its set-up (the obligation above is not empty) *)
Lemma main_setup_has_observers : (1 <=? Z.of_nat (obs_count setup_observer_conds main_setup)) = true.
Proof. vm_compute. reflexivity. Qed.

(** today's `getPastModulation()` is not a getter: called under an observer guard it is refused *)
Lemma main_getpast_is_not_pure : oeff_pure main_getpast (OGetPast "drfm") = false.
Proof. vm_compute. reflexivity. Qed.

Lemma main_getpast_shape : exists r, main_getpast = r ++ [PCleared; PKeep].
Proof. exists [PMovedFrom]. vm_compute. reflexivity. Qed.

Section M.
  Variable K : kern.
  Notation st := (Driver.st K).

  Lemma main_setup_observers_pure sig cf (ev1 ev2 : senv K) :
    pure_env setup_pure_opaque ev1 -> pure_env setup_pure_opaque ev2 -> same_but_observers setup_observer_conds ev1 ev2 ->
    forall s : st,
      sexec sig ev1 cf main_setup s = sexec sig ev2 cf main_setup s /\
      full_run sig ev1 cf main_setup main_prog s = full_run sig ev2 cf main_setup main_prog s.
  Proof.
    intros P1 P2 S s. split.
    - apply (observers_do_not_matter K sig cf _ _ ev1 ev2 P1 P2 S main_setup main_setup_observers_checked).
    - apply (observers_do_not_matter_whole_program K sig cf _ _ ev1 ev2 main_setup main_prog P1 P2 S main_setup_observers_checked).
  Qed.

  Lemma main_loop_observers_pure sig cf junk unk o (s : st) :
    In o loop_observers -> oexec_stmt sig cf junk main_getpast unk o s = s.
  Proof. apply (observers_pure_sound K sig cf junk main_getpast unk loop_observers main_loop_observers_checked). Qed.

  Lemma main_getpast_under_observer_loses_records sig cf junk unk (s : st) :
    Driver.past (oexec sig cf junk main_getpast unk (OGetPast "drfm") s) = [] /\
    recs cf ARFKicks (oexec sig cf junk main_getpast unk (OGetPast "drfm") s) = [mkrec (Driver.k s) (RRF [])].
  Proof. destruct main_getpast_shape as [r E]. rewrite E. apply getpast_loses_records. Qed.
End M.

(** non-vacuity of the hypotheses: the environment in which nothing has an effect is pure, and two such
    environments that answer the verbosity tests differently differ in the observers only *)
Definition idle_env (K : kern) (v : bool) : senv K := mksenv (fun _ s => s) (fun _ => false) (fun n => if zmem n setup_observer_conds then v else false).
Lemma idle_env_pure K v : pure_env setup_pure_opaque (idle_env K v).
Proof. intros n _. split; reflexivity. Qed.
Lemma idle_envs_differ_in_observers K : same_but_observers setup_observer_conds (idle_env K true) (idle_env K false).
Proof.
  split; [reflexivity | split; [reflexivity|]]. intros n Hn. unfold idle_env. cbn [cnd].
  destruct (zmem n setup_observer_conds) eqn:E; auto. apply zmem_In in E. contradiction.
Qed.
