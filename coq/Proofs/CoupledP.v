(** * The coupled second-moment recurrence [sm_step] (Model/Moments2.v) as a linear map: its fixed point
    in closed form, uniqueness, the deviation from the fixed point, and the quadratic form that the
    damped rotation contracts exactly.  Generic field; the order statements are in CoupledR.v.

    With damping (d = e1), writing c = 2 f / delta^2 - e1 (f = e1 with diffusion, 0 without) and
    R* = 2 c / (e1 (4 - a t))  (the energy moment right after the RF kick), the fixed point per unit charge is

        Muu* = a R* (2 - e1) / (2 t),   Muv* = - (1 - e1) a R* / 2,   Mvv* = R* (1 - e1 a t / 2).

    In natural units (times delta^2), full Fokker-Planck type:
        energy spread^2 = (1 - delta^2/2) (1 - e1 a t/2) / (1 - a t/4)
        bunch length^2  = (a/t) (1 - e1/2) (1 - delta^2/2) / (1 - a t/4). *)
From Coq Require Import List ZArith Ring Field Lia.
From Inovesa Require Import Base.FieldKit Gen.Gen_FPStencil Model.Moments2 Model.Moments2Fix.
Import ListNotations.

Section Coupled.
  Variable K : Fld.
  Add Field KFcp : (@Fth K).
  Local Open Scope F_scope.

  Lemma cancel_l (c x : K) : c <> 0 -> c * x = 0 -> x = 0.
  Proof. intros Hc H. transitivity ((1 / c) * (c * x)); [field; exact Hc | rewrite H; ring]. Qed.

  (** ** linearity in the four-vector (uu, uv, vv, m0) *)
  Lemma sm_step_sub v a t e1 delta (m m' : mom2 K) : delta <> 0 ->
    sm_step v a t e1 delta (msub m m') = msub (sm_step v a t e1 delta m) (sm_step v a t e1 delta m').
  Proof.
    intros Hd. unfold sm_step, sm_fp, sm_drift, sm_rf, msub. cbn [muu muv mvv m0].
    f_equal; ring.
  Qed.

  Lemma sm_iter_sub k v a t e1 delta (m m' : mom2 K) : delta <> 0 ->
    sm_iter k v a t e1 delta (msub m m') = msub (sm_iter k v a t e1 delta m) (sm_iter k v a t e1 delta m').
  Proof.
    intros Hd. revert m m'. induction k as [|k IH]; intros m m'; cbn [sm_iter]; [reflexivity|].
    rewrite sm_step_sub by exact Hd. apply IH.
  Qed.

  Lemma sm_step_m0 v a t e1 delta (m : mom2 K) : m0 (sm_step v a t e1 delta m) = m0 m.
  Proof. reflexivity. Qed.

  Lemma sm_iter_m0 k v a t e1 delta (m : mom2 K) : m0 (sm_iter k v a t e1 delta m) = m0 m.
  Proof. revert m. induction k as [|k IH]; intros m; cbn [sm_iter]; [reflexivity|]. rewrite IH. reflexivity. Qed.

  (** ** the fixed point *)
  Section Fix.
    Variables (v : Z) (a t e1 delta : K).
    Notation cc := (cc v e1 delta). Notation Rstar := (Rstar v a t e1 delta).
    Notation fix_uu := (fix_uu v a t e1 delta). Notation fix_uv := (fix_uv v a t e1 delta).
    Notation fix_vv := (fix_vv v a t e1 delta). Notation sm_fix := (sm_fix v a t e1 delta).
    Notation dev := (dev v a t e1 delta).

    Hypothesis Hv : has_damp v = true.
    Hypothesis Ht : t <> 0.
    Hypothesis He : e1 <> 0.
    Hypothesis H4 : four - a * t <> 0.
    Hypothesis Hd : delta <> 0.

    Ltac nzK :=
      first [ assumption | exact (@nz2 K) | exact (@nz3 K) | apply (mul_nz K); nzK
            | let H := fresh in intro H; apply H4; rewrite <- H; unfold four, two; ring ].
    Ltac side := repeat split; nzK.

    (** (i) it is a fixed point, whatever the charge *)
    Theorem sm_fix_fixed (z : K) : sm_step v a t e1 delta (sm_fix z) = sm_fix z.
    Proof.
      unfold sm_step, sm_fp, sm_drift, sm_rf, sm_fix, fix_uu, fix_uv, fix_vv, Rstar, cc, four. cbn [muu muv mvv m0].
      rewrite Hv. unfold opt at 1 2. destruct (has_diff v); unfold opt, two;
        (f_equal; [field; side | field; side | field; side]).
    Qed.

    (** (ii) it is the only one: a vector with zero charge that the step fixes is zero ... *)
    Hypothesis Ha : a <> 0.

    Lemma fixed_zero_charge (m : mom2 K) :
      m0 m = 0 -> sm_step v a t e1 delta m = m -> muu m = 0 /\ muv m = 0 /\ mvv m = 0.
    Proof.
      destruct m as [x y z w]. cbn [m0]. intros Hw E. subst w.
      unfold sm_step, sm_fp, sm_drift, sm_rf in E. cbn [muu muv mvv m0] in E. rewrite Hv in E. unfold opt at 1 2 3 in E.
      injection E as E1 E2 E3.
      set (X := y + t * x) in *. set (R := z + two * t * y + t * t * x) in *.
      (* E1 : x - 2 a X + a^2 R = x ; E2 : (1-e)(X - a R) = y ; E3 : (1-2e) R + (..)*0 = z *)
      assert (h1 : a * R - two * X = 0).
      { apply (cancel_l a); [exact Ha|]. transitivity ((x - two * a * X + a * a * R) - x); [ring | rewrite E1; ring]. }
      assert (h2 : y = (1 - e1) * (X - a * R)) by (symmetry; exact E2).
      assert (h3 : z = (1 - two * e1) * R) by (rewrite <- E3; ring).
      assert (hR : R = 0).
      { apply (cancel_l (e1 * (four - a * t))); [apply (mul_nz K); assumption|].
        (* R = z + t y + t X *)
        assert (D : R = z + t * y + t * X) by (unfold R, X, two; ring).
        transitivity (two * (R - (z + t * y + t * X))
                      + two * (z - (1 - two * e1) * R)
                      + two * t * (y - (1 - e1) * (X - a * R))
                      - t * (two - e1) * (a * R - two * X)); [unfold four, two; ring|].
        rewrite <- D, <- h2, <- h3, h1. ring. }
      assert (hX : X = 0).
      { apply (cancel_l two); [exact (@nz2 K)|]. transitivity (a * R - (a * R - two * X)); [ring|]. rewrite h1, hR. ring. }
      assert (hy : y = 0) by (rewrite h2, hX, hR; ring).
      assert (hz : z = 0) by (rewrite h3, hR; ring).
      assert (hx : x = 0).
      { apply (cancel_l t); [exact Ht|]. transitivity (X - y); [unfold X; ring | rewrite hX, hy; ring]. }
      repeat split; assumption.
    Qed.

    (** ... hence every fixed point is [sm_fix] of its charge *)
    Theorem sm_fix_unique (m : mom2 K) : sm_step v a t e1 delta m = m -> m = sm_fix (m0 m).
    Proof.
      intros E.
      pose proof (sm_step_sub v a t e1 delta m (sm_fix (m0 m)) Hd) as S.
      rewrite E, sm_fix_fixed in S.
      destruct (fixed_zero_charge (msub m (sm_fix (m0 m)))) as (Zx & Zy & Zz); [cbn; ring | exact S |].
      destruct m as [x y z w]. unfold msub, sm_fix in *. cbn [muu muv mvv m0] in *.
      f_equal.
      - transitivity ((x - w * fix_uu) + w * fix_uu); [ring | rewrite Zx; ring].
      - transitivity ((y - w * fix_uv) + w * fix_uv); [ring | rewrite Zy; ring].
      - transitivity ((z - w * fix_vv) + w * fix_vv); [ring | rewrite Zz; ring].
    Qed.

    (** the deviation from the fixed point evolves by the linear part (a vector of zero charge) *)
    Lemma dev_m0 m : m0 (dev m) = 0.
    Proof. unfold dev, msub, sm_fix. cbn [m0]. ring. Qed.

    Lemma dev_step m : dev (sm_step v a t e1 delta m) = sm_step v a t e1 delta (dev m).
    Proof. unfold dev. rewrite sm_step_sub by exact Hd. rewrite sm_fix_fixed, sm_step_m0. reflexivity. Qed.

    Lemma dev_iter k m : dev (sm_iter k v a t e1 delta m) = sm_iter k v a t e1 delta (dev m).
    Proof.
      revert m. induction k as [|k IH]; intros m; cbn [sm_iter]; [reflexivity|].
      rewrite IH, dev_step. reflexivity.
    Qed.

    (** the values in natural units, full type *)
    Theorem fix_natural_units : has_diff v = true ->
      delta * delta * fix_vv = (two - delta * delta) * (two - e1 * a * t) / (four - a * t) /\
      delta * delta * fix_uu = a * (two - delta * delta) * (two - e1) / (t * (four - a * t)).
    Proof.
      intros Hf. unfold fix_vv, fix_uu, Rstar, cc, four, two. rewrite Hf. unfold opt. split; field; side.
    Qed.
  End Fix.

  (** ** the quadratic form contracted by the damped rotation
      B = diag(1, 1-e) M is the one-step map of a damped oscillator; G = [[g1, g12], [g12, g2]] is its invariant
      conic (B^T G B = det B * G), and N(S) = tr((G S)^2) the induced form on symmetric matrices S = [[x,y],[y,z]]. *)
  Section Norm.
    Variables (a t e : K).
    Notation g1 := (g1 t e). Notation g12 := (g12 a t e). Notation g2 := (g2 a). Notation DG := (DG a t e).
    Notation trG := (trG a t e). Notation NN := (NN a t e). Notation q22 := (q22 a t e).
    Notation Pk := (Pk a t). Notation Qk := (Qk a t). Notation Rk := (Rk t).

    (** the symmetric square of B multiplies N by (det B)^2 = (1-e)^2, exactly *)
    Lemma N_sym2 x y z :
      NN (Pk x y z) ((1 - e) * Qk x y z) ((1 - e) * (1 - e) * Rk x y z) = (1 - e) * (1 - e) * NN x y z.
    Proof. unfold NN, trG, DG, g1, g12, g2, Pk, Qk, Rk, two. field. fld_nz K. Qed.

    (** the Fokker-Planck step multiplies the energy moment by 1-2e, not (1-e)^2: a rank-one correction *)
    Lemma N_out x y z :
      let X1 := Pk x y z in let X2 := (1 - e) * Qk x y z in let X3 := (1 - e) * (1 - e) * Rk x y z in
      NN X1 X2 ((1 - two * e) * Rk x y z) =
      NN X1 X2 X3 - two * (e * e) * Rk x y z * q22 X1 X2 X3 + (e * e) * (e * e) * (Rk x y z * Rk x y z) * (g2 * g2).
    Proof. cbv zeta. unfold NN, q22, trG, DG, g1, g12, g2, Pk, Qk, Rk, two. field. fld_nz K. Qed.

    (** sums of squares *)
    Lemma N_sos1 x y z :
      g1 * g1 * NN x y z =
      (g1 * g1 * x + two * g1 * g12 * y + g12 * g12 * z) * (g1 * g1 * x + two * g1 * g12 * y + g12 * g12 * z)
      + two * DG * ((g1 * y + g12 * z) * (g1 * y + g12 * z)) + DG * DG * (z * z).
    Proof. unfold NN, trG, DG, two. ring. Qed.

    Lemma N_sos2 x y z :
      g2 * g2 * NN x y z =
      DG * DG * (x * x) + two * DG * ((g2 * y + g12 * x) * (g2 * y + g12 * x)) + q22 x y z * q22 x y z.
    Proof. unfold NN, q22, trG, DG, two. ring. Qed.

    (** the step on a zero-charge vector, in these terms *)
    Lemma step_zero_charge v delta (m : mom2 K) : has_damp v = true -> m0 m = 0 -> delta <> 0 ->
      sm_step v a t e delta m =
      mkMom2 (Pk (muu m) (muv m) (mvv m)) ((1 - e) * Qk (muu m) (muv m) (mvv m))
             ((1 - two * e) * Rk (muu m) (muv m) (mvv m)) 0.
    Proof.
      intros Hv Hz Hd. destruct m as [x y z w]. cbn [m0] in Hz. subst w.
      unfold sm_step, sm_fp, sm_drift, sm_rf, Pk, Qk, Rk. cbn [muu muv mvv m0]. rewrite Hv. unfold opt at 1 2 3.
      f_equal; ring.
    Qed.
  End Norm.

  (** ** the invariant J: values at the fixed point and the sandwich between J and t Muu + a Mvv *)
  Lemma J_gap a t (m : mom2 K) :
    sm_J a t m - (t * muu m + a * mvv m) = a * t * muv m.
  Proof. unfold sm_J. ring. Qed.
End Coupled.

