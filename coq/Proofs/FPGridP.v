(** * Layout of FokkerPlanckMap::apply on the bunch-major array (any stencil table): decoding of the
    flat index, the slice form (C08), and sums over the grid as sums over columns. *)
From Coq Require Import List ZArith Lia Bool Ring Field.
From Inovesa Require Import Base.FieldKit Base.Sums Gen.Gen_FPStencil Model.FokkerPlanck.
Import ListNotations.
Local Open Scope Z_scope.

(** decide integer comparisons that [lia] can decide from the context *)
Ltac zb1 :=
  match goal with
  | |- context [(?a =? ?b)%Z] =>
      first [ replace (a =? b)%Z with true by (symmetry; apply Z.eqb_eq; lia)
            | replace (a =? b)%Z with false by (symmetry; apply Z.eqb_neq; lia) ]
  | |- context [(?a <? ?b)%Z] =>
      first [ replace (a <? b)%Z with true by (symmetry; apply Z.ltb_lt; lia)
            | replace (a <? b)%Z with false by (symmetry; apply Z.ltb_ge; lia) ]
  | |- context [(?a <=? ?b)%Z] =>
      first [ replace (a <=? b)%Z with true by (symmetry; apply Z.leb_le; lia)
            | replace (a <=? b)%Z with false by (symmetry; apply Z.leb_gt; lia) ]
  end.
Ltac zb := repeat zb1; cbn [andb orb negb].

Lemma u32_small z : 0 <= z < 2 ^ 32 -> u32 z = z.
Proof. intros H. unfold u32. apply Z.mod_small. exact H. Qed.

Lemma flat_div y dt j : 0 <= j < dt -> (y * dt + j) / dt = y.
Proof. intros H. rewrite Z.add_comm, Z.div_add by lia. rewrite Z.div_small by lia. lia. Qed.
Lemma flat_mod y dt j : 0 <= j < dt -> (y * dt + j) mod dt = j.
Proof. intros H. rewrite Z.add_comm, Z.mod_add by lia. apply Z.mod_small. lia. Qed.

Section Grid.
  Variable K : Fld.
  Add Field KFg : (@Fth K).
  Local Open Scope F_scope.

  (** ** apply on the bunch-major grid *)
  Lemma fp_col_out_ext ip H (r r' : Z -> K) y : (forall s, r s = r' s) -> fp_col_out ip H r y = fp_col_out ip H r' y.
  Proof. intros E. unfold fp_col_out. f_equal. apply map_ext. intros j. cbv zeta. rewrite E. reflexivity. Qed.

  Lemma fp_apply_cell nn xs ip H (D : Z -> K) b x y :
    (0 < nn)%Z -> (0 <= x < xs)%Z -> (0 <= y < nn)%Z ->
    fp_apply nn xs ip H D ((b * xs + x) * nn + y)%Z =
    fp_col_out ip H (fun s => D ((b * xs + x) * nn + s)%Z) y.
  Proof.
    intros Hn Hx Hy. unfold fp_apply.
    assert (E1 : (((b * xs + x) * nn + y) / nn = b * xs + x)%Z) by (apply flat_div; lia).
    assert (E2 : (((b * xs + x) * nn + y) mod nn = y)%Z) by (apply flat_mod; lia).
    assert (E3 : (((b * xs + x) * nn + y) / (xs * nn) = b)%Z).
    { replace ((b * xs + x) * nn + y)%Z with (b * (xs * nn) + (x * nn + y))%Z by ring.
      apply flat_div. nia. }
    rewrite E1, E2, E3. rewrite flat_mod by lia.
    apply fp_col_out_ext. intros s. f_equal. ring.
  Qed.

  (** the flat loop over bunches is a map of the single-bunch operator (C08) *)
  Lemma fp_apply_slice_gen nn xs ip H (D : Z -> K) b i :
    (0 < nn)%Z -> (0 < xs)%Z -> (0 <= i < xs * nn)%Z ->
    fp_apply nn xs ip H D (b * xs * nn + i)%Z = fp_apply nn xs ip H (fun i' => D (b * xs * nn + i')%Z) i.
  Proof.
    intros Hn Hxs Hi.
    pose (x := (i / nn)%Z). pose (y := (i mod nn)%Z).
    assert (Ei : i = (x * nn + y)%Z) by (unfold x, y; rewrite Z.mul_comm; apply Z.div_mod; lia).
    assert (Hy : (0 <= y < nn)%Z) by (apply Z.mod_pos_bound; lia).
    assert (Hx : (0 <= x < xs)%Z).
    { split; [apply Z.div_pos; lia|]. apply Z.div_lt_upper_bound; lia. }
    rewrite Ei.
    replace (b * xs * nn + (x * nn + y))%Z with ((b * xs + x) * nn + y)%Z by ring.
    rewrite fp_apply_cell by lia.
    replace (x * nn + y)%Z with ((0 * xs + x) * nn + y)%Z by ring.
    rewrite fp_apply_cell by lia.
    apply fp_col_out_ext. intros s. f_equal. ring.
  Qed.

  Lemma sumZ_flatten (A B : nat) (g : Z -> K) :
    sumZ 0 (A * B) g = sumZ 0 A (fun c => sumZ 0 B (fun y => g (c * Z.of_nat B + y)%Z)).
  Proof.
    revert g. induction A as [|A IH]; intros g; [reflexivity|].
    change (S A * B)%nat with (B + A * B)%nat. rewrite sumZ_app. cbn [sumZ].
    apply f_equal2.
    - apply sumZ_ext. intros i Hi. try (f_equal; lia).
    - rewrite <- (sumZ_shift K 0 (A * B) g (Z.of_nat B)).
      rewrite IH. rewrite <- (sumZ_shift K 0 A _ 1).
      apply sumZ_ext. intros c Hc. apply sumZ_ext. intros y Hy. f_equal. lia.
  Qed.

  (** every column of every bunch *)
  Lemma fp_grid_sum nn xs nb ip H (D : Z -> K) (mlt : Z -> K) :
    (0 < nn)%Z -> (0 < xs)%Z -> (0 <= nb)%Z ->
    sumZ 0 (Z.to_nat (nb * xs * nn)) (fun i => mlt (i mod nn)%Z * fp_apply nn xs ip H D i) =
    sumZ 0 (Z.to_nat (nb * xs)) (fun c =>
      sumZ 0 (Z.to_nat nn) (fun y => mlt y * fp_col_out ip H (fun s => D (c * nn + s)%Z) y)).
  Proof.
    intros Hn Hxs Hnb.
    replace (Z.to_nat (nb * xs * nn)) with (Z.to_nat (nb * xs) * Z.to_nat nn)%nat by nia.
    rewrite sumZ_flatten. apply sumZ_ext. intros c Hc. apply sumZ_ext. intros y Hy.
    rewrite Z2Nat.id by lia.
    assert (Ec : c = (c / xs * xs + c mod xs)%Z) by (rewrite Z.mul_comm; apply Z.div_mod; lia).
    assert (Hx : (0 <= c mod xs < xs)%Z) by (apply Z.mod_pos_bound; lia).
    rewrite flat_mod by lia.
    rewrite Ec at 1. rewrite fp_apply_cell by lia. rewrite <- Ec. reflexivity.
  Qed.

  Lemma plain_grid_sum nn xs nb (D : Z -> K) :
    (0 < nn)%Z -> (0 <= nb * xs)%Z ->
    sumZ 0 (Z.to_nat (nb * xs * nn)) D =
    sumZ 0 (Z.to_nat (nb * xs)) (fun c => sumZ 0 (Z.to_nat nn) (fun s => D (c * nn + s)%Z)).
  Proof.
    intros Hn Hc.
    replace (Z.to_nat (nb * xs * nn)) with (Z.to_nat (nb * xs) * Z.to_nat nn)%nat by nia.
    rewrite sumZ_flatten. apply sumZ_ext. intros c Hc'. apply sumZ_ext. intros y Hy.
    rewrite Z2Nat.id by lia. reflexivity.
  Qed.

End Grid.
