(** * Rounding envelope of the interpolation weights (SourceMap::calcCoefficiants in binary32).

    The typed trees [Gen_CoeffsFl.coeff_trees] (regenerated from the C++ on every run) denote, with the
    types erased, exactly the generated exact coefficients [Gen_Coeffs.coeffs] ([trees_exact]).  For
    every real offset [f] in [0,1] - in particular every binary32 value in [0,1) - and EVERY evaluation
    of the trees in which each operation (and each narrowing conversion) is rounded at most once
    ([feval]: IEEE round-to-nearest at every node, or any subset skipped as fused multiply-add
    contraction does), the computed weights [vs] satisfy

       Sum_j |vs_j - w_j(f)| <= Bsum it * 2^-24,   |vs_j - w_j(f)| <= Bone it * 2^-24,
       Sum_j |w_j(f)| <= Lsum it,                  hence |Sum_j vs_j - 1| <= Bsum it * 2^-24,

    with Bsum = 0, 9/8, 17/4, 29/4 and Bone = 0, 9/8, 25/8, 25/4 and Lsum = 1, 33/32, 21/16, 21/16 for it = 1..4.
    The constants are NOT tied to the association of the products in the source: the bound is computed
    by the verified calculator of Model/FExpr.v on whatever tree the translator delivers (256 cells of
    [0,1], [vm_compute]); the constants above leave room for every re-association of the present
    expressions (the computed values are 0, 1, 4.02, 7.04).  The per-cell bounds themselves
    ([cell_row_sound]) are what the harness checks the implementation against. *)
From Coq Require Import Reals QArith Qreals ZArith Lra Lia List Bool Psatz.
From Flocq Require Import Core.
From Inovesa Require Import Base.FieldKit Base.RInst Gen.Gen_Coeffs Gen.Gen_CoeffsFl Model.FExpr
  Proofs.WeightsP Proofs.RoundingP Proofs.FExprP.
Import ListNotations.
Local Open Scope R_scope.

(** ** the typed trees denote the generated exact coefficients *)
Ltac rf_unfold := cbv [fadd fmul fsub fopp fdiv finv f0 f1 car RF].

Theorem trees_exact it (f : R) :
  valid_it it -> map (fun e => evalR e f) (coeff_trees it) = coeffs (K:=RF) it f.
Proof.
  intros [H|[H|[H|H]]]; subst it; unfold coeff_trees, coeffs;
    cbn [Z.eqb Pos.eqb map evalR opR]; rf_unfold; unfold Q2R; cbn [Qnum Qden];
    repeat match goal with |- _ :: _ = _ :: _ => f_equal end; try reflexivity; field.
Qed.

Lemma fsum_Rsum (l : list R) : fsum (K:=RF) l = Rsum l.
Proof. induction l as [|x r IH]; cbn [fsum Rsum]; [reflexivity|]. rewrite IH. reflexivity. Qed.

(** ** per-cell soundness for a list of trees *)
Definition errs (f : R) (ts : list fexpr) (vs : list R) : list R :=
  map (fun tv => Rabs (snd tv - evalR (fst tv) f)) (combine ts vs).
Definition mags (f : R) (ts : list fexpr) : list R := map (fun t => Rabs (evalR t f)) ts.

Lemma fxR_Zsum l : fxR (Zsum l) = Rsum (map fxR l).
Proof. induction l as [|x r IH]; cbn [Zsum fold_right map Rsum]; [apply fxR_0|]. rewrite fxR_add. fold (Zsum r). rewrite IH. reflexivity. Qed.

Lemma Rsum_le_pointwise (l1 l2 : list R) : Forall2 Rle l1 l2 -> Rsum l1 <= Rsum l2.
Proof. induction 1; cbn [Rsum]; lra. Qed.

Theorem cell_row_sound ts k c f :
  fxR (cell_lo k c) <= f <= fxR (cell_hi k c) ->
  forall r vs, cell_row ts k c = Some r -> Forall2 (feval f) ts vs ->
    Forall2 Rle (mags f ts) (map (fun me => fxR (fst me)) r) /\
    Forall2 Rle (errs f ts vs) (map (fun me => fxR (snd me)) r).
Proof.
  intros Hf. induction ts as [|t ts IH]; intros r vs Hr Hv.
  - cbn in Hr. injection Hr as <-. inversion Hv; subst. split; constructor.
  - cbn [cell_row fold_right] in Hr. fold (cell_row ts k c) in Hr.
    destruct (bnd t (cell_lo k c) (cell_hi k c)) as [[[l h] E]|] eqn:Bt; [|discriminate].
    destruct (cell_row ts k c) as [r'|] eqn:Rr; [|discriminate].
    injection Hr as <-. inversion Hv as [|t' v ts' vs' Ft Fts]; subst.
    destruct (IH r' vs' eq_refl Fts) as [I1 I2].
    destruct (bnd_sound t _ _ f Hf _ _ _ _ Bt Ft) as [B1 B2].
    split; cbn [mags errs combine map fst snd]; constructor; try assumption.
    apply mag_spec. exact B1.
Qed.

Lemma fx_le_Q_spec z q : fx_le_Q z q = true -> fxR z <= Q2R q.
Proof.
  unfold fx_le_Q. intros H. apply Z.leb_le in H. apply IZR_le in H. rewrite !mult_IZR in H. fold W in H.
  pose proof W_pos as Wp. assert (D : 0 < IZR (Zpos (Qden q))) by (apply IZR_lt; reflexivity).
  unfold fxR, Q2R. apply Rmult_le_reg_r with (W * IZR (Zpos (Qden q))); [nra|].
  replace (IZR z / W * (W * IZR (Z.pos (Qden q)))) with (IZR z * IZR (Z.pos (Qden q))) by (field; lra).
  replace (IZR (Qnum q) * / IZR (Z.pos (Qden q)) * (W * IZR (Z.pos (Qden q)))) with (IZR (Qnum q) * W) by (field; lra).
  exact H.
Qed.

(** every f in [0,1] lies in one of the 2^k cells *)
Lemma shiftl_fx k c : (0 <= k <= sc)%Z -> fxR (Z.shiftl c (sc - k)) = IZR c / bpow radix2 k.
Proof.
  intros Hk. rewrite Z.shiftl_mul_pow2 by lia. unfold fxR. rewrite mult_IZR, pow2_IZR by lia.
  rewrite W_val. replace (bpow radix2 64) with (bpow radix2 (sc - k) * bpow radix2 k)
    by (rewrite <- bpow_plus; f_equal; unfold sc; lia).
  field. split; apply Rgt_not_eq, bpow_gt_0.
Qed.

Lemma cell_cover k f : (0 <= k <= sc)%Z -> 0 <= f <= 1 ->
  exists c, In c (cells k) /\ fxR (cell_lo k c) <= f <= fxR (cell_hi k c).
Proof.
  intros Hk [F0 F1]. set (P := bpow radix2 k). assert (Pp : 0 < P) by apply bpow_gt_0.
  assert (PZ : IZR (2 ^ k) = P) by (apply pow2_IZR; lia).
  assert (P2 : (0 < 2 ^ k)%Z) by (apply Z.pow_pos_nonneg; lia).
  set (c0 := Zfloor (f * P)).
  assert (C0 : (0 <= c0)%Z) by (apply Zfloor_lub; cbn; nra).
  set (c := Z.min c0 (2 ^ k - 1)).
  exists c. split.
  - unfold cells. apply in_map_iff. exists (Z.to_nat c). split; [apply Z2Nat.id; unfold c; lia|].
    apply in_seq. split; [lia|]. cbn. apply Z2Nat.inj_lt; unfold c; lia.
  - unfold cell_lo, cell_hi. rewrite !shiftl_fx by exact Hk. fold P.
    pose proof (Zfloor_lb (f * P)) as L. pose proof (Zfloor_ub (f * P)) as U. fold c0 in L, U.
    destruct (Z_le_gt_dec c0 (2 ^ k - 1)) as [A|A].
    + unfold c. rewrite Z.min_l by exact A. rewrite plus_IZR. split.
      * apply Rmult_le_reg_r with P; [exact Pp|]. replace (IZR c0 / P * P) with (IZR c0) by (field; lra). exact L.
      * apply Rmult_le_reg_r with P; [exact Pp|]. replace ((IZR c0 + 1) / P * P) with (IZR c0 + 1) by (field; lra). lra.
    + unfold c. rewrite Z.min_r by lia. rewrite plus_IZR, minus_IZR, PZ.
      assert (G : P <= IZR c0).
      { rewrite <- PZ. apply IZR_le. lia. }
      split.
      * apply Rmult_le_reg_r with P; [exact Pp|]. replace ((P - 1) / P * P) with (P - 1) by (field; lra). nra.
      * replace ((P - 1 + 1) / P) with 1 by (field; lra). exact F1.
Qed.

(** ** from the boolean check to the three bounds, for any list of trees *)
Theorem all_cells_sound ts k B B1 L f vs :
  all_cells_ok ts k B B1 L = true -> 0 <= f <= 1 -> Forall2 (feval f) ts vs ->
  Rsum (errs f ts vs) <= Q2R B /\ Forall (fun e => e <= Q2R B1) (errs f ts vs) /\ Rsum (mags f ts) <= Q2R L.
Proof.
  unfold all_cells_ok. intros H Hf Hv.
  apply andb_true_iff in H. destruct H as [H Hc]. apply andb_true_iff in H. destruct H as [K1 K2].
  apply Z.leb_le in K1. apply Z.leb_le in K2.
  destruct (cell_cover k f (conj K1 K2) Hf) as (c & Hin & Hcell).
  rewrite forallb_forall in Hc. specialize (Hc c Hin). unfold cell_ok in Hc.
  destruct (cell_row ts k c) as [r|] eqn:Rr; [|discriminate].
  apply andb_true_iff in Hc. destruct Hc as [Hc H3]. apply andb_true_iff in Hc. destruct Hc as [H1 H2].
  destruct (cell_row_sound ts k c f Hcell r vs Rr Hv) as [M E].
  apply fx_le_Q_spec in H1. apply fx_le_Q_spec in H3.
  rewrite fxR_Zsum, map_map in H1, H3.
  split; [|split].
  - eapply Rle_trans; [apply Rsum_le_pointwise; exact E | exact H1].
  - rewrite forallb_forall in H2.
    clear - E H2. revert E. generalize (errs f ts vs). intros es E.
    assert (G : Forall (fun me => fxR (snd me) <= Q2R B1) r).
    { apply Forall_forall. intros me Hme. apply fx_le_Q_spec. apply H2. exact Hme. }
    clear H2. revert es E. induction r as [|me r IH]; intros es E; inversion E; subst; constructor.
    + inversion G; subst. lra.
    + apply IH; [inversion G; assumption | assumption].
  - eapply Rle_trans; [apply Rsum_le_pointwise; exact M | exact H3].
Qed.

Lemma sum_diff f ts vs :
  Forall2 (feval f) ts vs ->
  Rabs (Rsum vs - Rsum (map (fun e => evalR e f) ts)) <= Rsum (errs f ts vs).
Proof.
  induction 1 as [|t v ts vs _ _ IH]; cbn [Rsum map errs combine fst snd].
  - replace (0 - 0) with 0 by ring. rewrite Rabs_R0. lra.
  - replace (v + Rsum vs - (evalR t f + Rsum (map (fun e => evalR e f) ts)))
      with ((v - evalR t f) + (Rsum vs - Rsum (map (fun e => evalR e f) ts))) by ring.
    eapply Rle_trans; [apply Rabs_triang|]. fold (errs f ts vs). lra.
Qed.

(** ** the constants, and the check on the generated trees *)
Definition KC : Z := 8.                       (* 2^8 cells *)
Definition u32Q : Q := 1 # 16777216.
Definition Bsum (it : Z) : Q := if (it =? 1)%Z then 0 else if (it =? 2)%Z then 9 # 8 else if (it =? 3)%Z then 17 # 4 else 29 # 4.
Definition Bone (it : Z) : Q := if (it =? 1)%Z then 0 else if (it =? 2)%Z then 9 # 8 else if (it =? 3)%Z then 25 # 8 else 25 # 4.
Definition Lsum (it : Z) : Q := if (it =? 1)%Z then 1 else if (it =? 2)%Z then 33 # 32 else 21 # 16.

Lemma u32Q_val : Q2R u32Q = u32.
Proof. rewrite u32_val. unfold u32Q, Q2R. cbn. lra. Qed.

Lemma coeff_trees_check :
  forallb (fun it => all_cells_ok (coeff_trees it) KC (Bsum it * u32Q) (Bone it * u32Q) (Lsum it)) [1; 2; 3; 4]%Z = true.
Proof. vm_compute. reflexivity. Qed.

Lemma coeff_trees_ok it : valid_it it ->
  all_cells_ok (coeff_trees it) KC (Bsum it * u32Q) (Bone it * u32Q) (Lsum it) = true.
Proof.
  intros H. pose proof coeff_trees_check as C. rewrite forallb_forall in C. apply C.
  destruct H as [H|[H|[H|H]]]; subst; cbn; tauto.
Qed.

Lemma Forall2_fl_eval f ts : Forall2 (feval f) ts (map (fun e => fl_eval e f) ts).
Proof. induction ts as [|t ts IH]; cbn [map]; constructor; [apply fl_eval_feval | exact IH]. Qed.
Lemma Forall2_fl_eval_sel sel f ts : Forall2 (feval f) ts (map (fun e => fl_eval_sel sel [] e f) ts).
Proof. induction ts as [|t ts IH]; cbn [map]; constructor; [apply fl_eval_sel_feval | exact IH]. Qed.

(** ** the theorems *)
Definition computed_weights (it : Z) (f : R) (vs : list R) : Prop := Forall2 (feval f) (coeff_trees it) vs.

Lemma errs_exact it f vs : valid_it it ->
  errs f (coeff_trees it) vs =
  map (fun vw => Rabs (fst vw - snd vw)) (combine vs (coeffs (K:=RF) it f)).
Proof.
  intros Hv. rewrite <- (trees_exact it f Hv). unfold errs. generalize (coeff_trees it). intros ts.
  revert vs. induction ts as [|t ts IH]; intros [|v vs]; cbn [combine map]; try reflexivity.
  cbn [fst snd]. rewrite IH. reflexivity.
Qed.

Theorem weights_abs_error_sum it f vs :
  valid_it it -> 0 <= f <= 1 -> computed_weights it f vs ->
  Rsum (map (fun vw => Rabs (fst vw - snd vw)) (combine vs (coeffs (K:=RF) it f))) <= Q2R (Bsum it) * u32.
Proof.
  intros Hv Hf Hc. destruct (all_cells_sound _ _ _ _ _ f vs (coeff_trees_ok it Hv) Hf Hc) as (S & _ & _).
  rewrite Q2R_mult, u32Q_val in S. rewrite <- errs_exact by exact Hv. exact S.
Qed.

Theorem weights_each_error it f vs :
  valid_it it -> 0 <= f <= 1 -> computed_weights it f vs ->
  Forall (fun vw => Rabs (fst vw - snd vw) <= Q2R (Bone it) * u32) (combine vs (coeffs (K:=RF) it f)).
Proof.
  intros Hv Hf Hc. destruct (all_cells_sound _ _ _ _ _ f vs (coeff_trees_ok it Hv) Hf Hc) as (_ & S & _).
  rewrite Q2R_mult, u32Q_val in S. rewrite errs_exact in S by exact Hv.
  rewrite Forall_map in S. exact S.
Qed.

Theorem weights_abs_sum it f :
  valid_it it -> 0 <= f <= 1 -> Rsum (map Rabs (coeffs (K:=RF) it f)) <= Q2R (Lsum it).
Proof.
  intros Hv Hf.
  destruct (all_cells_sound _ _ _ _ _ f (map (fun e => fl_eval e f) (coeff_trees it)) (coeff_trees_ok it Hv) Hf) as (_ & _ & S).
  { apply Forall2_fl_eval. }
  unfold mags in S. rewrite <- (trees_exact it f Hv), map_map. exact S.
Qed.

Theorem weights_unity_rounded it f vs :
  valid_it it -> 0 <= f <= 1 -> computed_weights it f vs ->
  Rabs (Rsum vs - 1) <= Q2R (Bsum it) * u32.
Proof.
  intros Hv Hf Hc.
  pose proof (coeffs_unity RF it f Hv) as U. rewrite fsum_Rsum, <- (trees_exact it f Hv) in U.
  change (@f1 RF) with 1 in U. rewrite <- U.
  eapply Rle_trans; [apply sum_diff; exact Hc|].
  destruct (all_cells_sound _ _ _ _ _ f vs (coeff_trees_ok it Hv) Hf Hc) as (S & _ & _).
  rewrite Q2R_mult, u32Q_val in S. exact S.
Qed.

(** the two machine evaluations are instances: IEEE round-to-nearest at every operation, and any
    subset of the roundings skipped (fused multiply-add contraction of [1 - f*f]) *)
Corollary weights_unity_ieee it f :
  valid_it it -> 0 <= f <= 1 ->
  Rabs (Rsum (map (fun e => fl_eval e f) (coeff_trees it)) - 1) <= Q2R (Bsum it) * u32.
Proof.
  intros Hv Hf. apply (weights_unity_rounded it f); try assumption. apply Forall2_fl_eval.
Qed.

Corollary weights_unity_contracted sel it f :
  valid_it it -> 0 <= f <= 1 ->
  Rabs (Rsum (map (fun e => fl_eval_sel sel [] e f) (coeff_trees it)) - 1) <= Q2R (Bsum it) * u32.
Proof.
  intros Hv Hf. apply (weights_unity_rounded it f); try assumption. apply Forall2_fl_eval_sel.
Qed.
