(** C13: save -> reload, for every table / program / writer rules accepted by the checkers. *)
From Coq Require Import List String ZArith Bool.
From Inovesa Require Import Model.OptionsTypes Model.Options Proofs.OptionsP Proofs.OptionsThm.
Import ListNotations.
Local Open Scope list_scope.

Section RT.
  Variable T : list opt.
  Variable wf : cty -> tok -> bool.
  Variable W : wrules.
  Variable zerotok : tok -> bool.
  Variable round6 : cty -> tok -> tok.
  Notation find_opt := (find_opt T).
  Notation sopt := (save_opt W zerotok round6).

  Definition to_item (l : string * tok) : item := (fst l, [snd l]).
  Definition named (n : string) (l : string * tok) : bool := String.eqb (fst l) n.

  Lemma save_opt_names s o l : In l (sopt s o) -> fst l = o_name o.
  Proof.
    unfold save_opt. destruct (s_vm s (o_name o)) as [[v d]|]; [|contradiction].
    destruct (mem _ _); [contradiction|]. destruct (_ && _); [intros [<-|[]]; reflexivity|].
    destruct (o_ty o); try contradiction;
      try (destruct (existsb _ _); [|contradiction]); try (destruct (mem _ (w_comment W)); [contradiction|]);
      intro H; apply in_map_iff in H as (t & <- & _); reflexivity.
  Qed.

  Lemma filter_all n (ls : list (string * tok)) : (forall l, In l ls -> fst l = n) -> filter (named n) ls = ls.
  Proof.
    induction ls as [|a r IH]; intro H; [reflexivity|]. cbn [filter]. unfold named at 1.
    rewrite (H a (or_introl eq_refl)), String.eqb_refl, IH; [reflexivity|]. intros; apply H; cbn; auto.
  Qed.

  Lemma filter_none n (ls : list (string * tok)) : (forall l, In l ls -> fst l <> n) -> filter (named n) ls = [].
  Proof.
    induction ls as [|a r IH]; intro H; [reflexivity|]. cbn [filter]. unfold named at 1.
    pose proof (H a (or_introl eq_refl)) as Hn. apply String.eqb_neq in Hn. rewrite Hn.
    apply IH. intros; apply H; cbn; auto.
  Qed.

  Lemma lines_none s n : forall l, (forall o', In o' l -> o_name o' = n -> sopt s o' = []) ->
    filter (named n) (flat_map (sopt s) l) = [].
  Proof.
    induction l as [|a r IH]; intro H; [reflexivity|]. cbn [flat_map]. rewrite filter_app, IH by (intros; apply H; cbn; auto).
    rewrite app_nil_r. destruct (String.eqb (o_name a) n) eqn:E.
    - apply String.eqb_eq in E. now rewrite (H a (or_introl eq_refl) E).
    - apply filter_none. intros l0 Hl. rewrite (save_opt_names _ _ _ Hl). now apply String.eqb_neq.
  Qed.

  Lemma lines_of_table s o : forall l, NoDup (map o_name l) -> In o l ->
    filter (named (o_name o)) (flat_map (sopt s) l) = sopt s o.
  Proof.
    induction l as [|a r IH]; intros ND HI; [contradiction|]. cbn [flat_map]. rewrite filter_app.
    cbn [map] in ND. inversion ND as [|? ? Hn ND']; subst. destruct HI as [->|HI].
    - rewrite filter_all by (intros; eapply save_opt_names; eauto).
      rewrite lines_none; [apply app_nil_r|]. intros o' I' E. exfalso. apply Hn. rewrite <- E. now apply in_map.
    - rewrite filter_none, (IH ND' HI); [reflexivity|].
      intros l0 Hl. rewrite (save_opt_names _ _ _ Hl). intro E. apply Hn. rewrite E. now apply in_map.
  Qed.

  Lemma raw_lines n (ls : list (string * tok)) :
    flat_map (fun it : item => if String.eqb (fst it) n then snd it else []) (map to_item ls) = map snd (filter (named n) ls).
  Proof.
    induction ls as [|a r IH]; [reflexivity|]. cbn [map flat_map filter to_item fst snd]. unfold named at 1.
    destruct (String.eqb (fst a) n); cbn; now rewrite IH.
  Qed.

  Lemma occurs_lines n (ls : list (string * tok)) :
    occurs n (map to_item ls) = match filter (named n) ls with [] => false | _ => true end.
  Proof.
    unfold occurs. induction ls as [|a r IH]; [reflexivity|]. cbn [map existsb filter to_item fst]. unfold named at 1.
    destruct (String.eqb (fst a) n); [reflexivity|]. now rewrite IH.
  Qed.

  Lemma resolve_exact n o : find_opt n = Some o -> o_cli o = true -> resolve T (Long n) = Some n.
  Proof.
    intros F C. unfold resolve. destruct (find_opt_name T n o F) as [N I].
    destruct (filter (fun o0 => o_cli o0 && String.eqb (o_name o0) n) T) as [|o' r] eqn:Fl.
    - assert (X : In o (filter (fun o0 => o_cli o0 && String.eqb (o_name o0) n) T)).
      { apply filter_In. split; [assumption|]. now rewrite C, N, String.eqb_refl. }
      rewrite Fl in X. contradiction.
    - assert (X : In o' (filter (fun o0 => o_cli o0 && String.eqb (o_name o0) n) T)) by (rewrite Fl; cbn; auto).
      apply filter_In in X as [_ X]. apply andb_prop in X as [_ X]. apply String.eqb_eq in X. now rewrite X.
  Qed.

  Lemma spec_none al items ci o : spec_value T al items ci o = None -> dflt_tokens o = None.
  Proof.
    unfold spec_value. destruct (occurs (o_name o) items); [discriminate|].
    destruct (occurs (o_name o) ci); [discriminate|].
    destruct (alias_of al (o_name o)); [|auto]. destruct (occurs s ci); [discriminate|auto].
  Qed.

  Definition saved_kind (o : opt) : bool :=
    match o_ty o with
    | TString => negb (mem (o_name o) (w_comment W))
    | TFlag => false
    | ty => existsb (cty_eqb ty) (w_types W)
    end.

  Lemma save_opt_plain s o v d :
    s_vm s (o_name o) = Some (v, d) -> mem (o_name o) (w_skip W) = false ->
    (String.eqb (o_name o) (w_alpha_name W)
     && Bool.eqb (var_is_zero zerotok (s_vars s) (w_alpha_var W)) (w_alpha_when_zero W)) = false ->
    saved_kind o = true -> w_precise W = true ->
    sopt s o = map (fun t => (o_name o, t)) v.
  Proof.
    intros V SK AL KD PR. unfold save_opt. rewrite V, SK, AL. unfold saved_kind in KD. unfold fmtv. rewrite PR.
    destruct (o_ty o); try discriminate; try (rewrite KD; reflexivity).
    apply negb_true_iff in KD. now rewrite KD.
  Qed.

  (** what the specification of C20 assigns to a current option from the saved file of a state that parse() returned,
      when the command line of the re-reading invocation does not give the option: the member's original value *)
  Lemma spec_on_saved P cli fs dflt s items' :
    checker T P = true ->
    (forall a c, In (a, c) (prog_aliases P) -> mem a (w_skip W) = true \/ s_vm s a = None) ->
    w_precise W = true ->
    parse T wf P cli fs dflt = Run s ->
    forall o, In o T -> is_canon o = true -> typed o = true ->
      mem (o_name o) (w_skip W) = false ->
      (String.eqb (o_name o) (w_alpha_name W)
       && Bool.eqb (var_is_zero zerotok (s_vars s) (w_alpha_var W)) (w_alpha_when_zero W)) = false ->
      saved_kind o = true ->
      (forall v d, s_vm s (o_name o) = Some (v, d) -> v <> []) ->
      occurs (o_name o) items' = false ->
      spec_value T (prog_aliases P) items' (saved_items T W zerotok round6 s) o = s_vars s (o_var o).
  Proof.
    intros CK SKal PR H1 o Io Co To SK AL KD NE O0.
    destruct (precedence_thm T wf P cli fs dflt s CK H1) as (items & RA & PV).
    destruct (vm_thm T wf P cli fs dflt s CK H1) as (items2 & RA2 & VM).
    rewrite RA in RA2. injection RA2 as <-.
    rewrite (PV o Io Co To), <- (VM o Io Co To).
    destruct (checker_facts T P CK) as (al & SH & ND & _).
    unfold spec_value at 1. cbv zeta. rewrite O0.
    unfold saved_items, save. fold to_item.
    change (map (fun l : string * tok => (fst l, [snd l]))) with (map to_item).
    rewrite occurs_lines, (lines_of_table s o T ND Io).
    rewrite (collect_file_raw T _ o _ (find_opt_unique T o ND Io)), raw_lines, (lines_of_table s o T ND Io).
    destruct (s_vm s (o_name o)) as [[v d]|] eqn:V.
    - rewrite (save_opt_plain s o v d V SK AL KD PR). cbn [option_map fst].
      pose proof (NE v d eq_refl) as Hv. destruct v as [|t v']; [congruence|]. cbn [map].
      f_equal. f_equal. rewrite map_map. cbn [snd]. now rewrite map_id.
    - assert (S0 : sopt s o = []) by (unfold save_opt; now rewrite V).
      rewrite S0. cbn [option_map].
      pose proof (VM o Io Co To) as VMo. rewrite V in VMo. cbn [option_map] in VMo. symmetry in VMo.
      apply spec_none in VMo.
      destruct (alias_of (prog_aliases P) (o_name o)) as [a|] eqn:AO; [|assumption].
      assert (Ia : In (a, o_name o) (prog_aliases P)).
      { unfold alias_of in AO. destruct (find _ (prog_aliases P)) as [[a' c']|] eqn:F; [|discriminate].
        cbn in AO. injection AO as <-. apply find_some in F as [F1 F2]. cbn in F2. apply String.eqb_eq in F2. now subst. }
      rewrite occurs_lines, lines_none; [assumption|].
      intros o' I' E'. unfold save_opt. destruct (SKal _ _ Ia) as [SK'|VN].
      + destruct (s_vm s (o_name o')) as [[v' d']|]; [|reflexivity]. now rewrite E', SK'.
      + now rewrite E', VN.
  Qed.

  (** C13.1 (partial: the reload is assumed not to fail - that part is carried by the
      correspondence and the oracle, not by this theorem; and "every typed entry of the map holds at
      least one token", true by construction of store, is a hypothesis) *)
  Theorem roundtrip_partial_thm P cli fs dflt s ftok s' oc :
    checker T P = true ->
    find_opt (p_cfgopt P) = Some oc -> o_cli oc = true ->
    (forall a c, In (a, c) (prog_aliases P) -> mem a (w_skip W) = true \/ s_vm s a = None) ->
    w_precise W = true ->
    parse T wf P cli fs dflt = Run s ->
    reload T wf W zerotok round6 P s ftok = Run s' ->
    forall o, In o T -> is_canon o = true -> typed o = true -> o_name o <> p_cfgopt P ->
      mem (o_name o) (w_skip W) = false ->
      (String.eqb (o_name o) (w_alpha_name W)
       && Bool.eqb (var_is_zero zerotok (s_vars s) (w_alpha_var W)) (w_alpha_when_zero W)) = false ->
      saved_kind o = true ->
      (forall v d, s_vm s (o_name o) = Some (v, d) -> v <> []) ->
      s_vars s' (o_var o) = s_vars s (o_var o).
  Proof.
    intros CK Fc Cc SKal PR H1 H2 o Io Co To Nc SK AL KD NE.
    unfold reload in H2.
    destruct (precedence_thm T wf P _ _ _ s' CK H2) as (items' & RA' & PV').
    cbn [resolve_all] in RA'. rewrite (resolve_exact _ _ Fc Cc) in RA'. injection RA' as <-.
    rewrite (PV' o Io Co To).
    match goal with |- context [loaded ?a ?b ?c ?d ?e] =>
      replace (loaded a b c d e) with (saved_items T W zerotok round6 s) end.
    2:{ unfold loaded, source, cfg_given. cbn [occurs existsb fst]. rewrite String.eqb_refl. cbn [orb].
        unfold collect. rewrite Fc. cbn [flat_map fst snd]. rewrite String.eqb_refl, app_nil_r.
        unfold ntoks. destruct (o_ty oc); reflexivity. }
    apply (spec_on_saved P cli fs dflt s _ CK SKal PR H1 o Io Co To SK AL KD NE).
    cbn [occurs existsb fst]. rewrite orb_false_r. apply String.eqb_neq. congruence.
  Qed.
  (** checker of the writer rules (with the list of options that are deliberately not reproduced) *)
  Definition checker13 (P : prog) (exempt : list string) : bool :=
    match find_opt (p_cfgopt P) with Some oc => o_cli oc | None => false end
    && forallb (fun ac => mem (fst ac) (w_skip W)) (prog_aliases P)
    && w_precise W
    && forallb (fun o => negb (is_canon o && typed o) || mem (o_name o) exempt
                         || (negb (mem (o_name o) (w_skip W)) && saved_kind o)) T
    && mem (p_cfgopt P) exempt.

  Theorem roundtrip_thm P exempt cli fs dflt s ftok s' :
    checker T P = true -> checker13 P exempt = true ->
    parse T wf P cli fs dflt = Run s ->
    reload T wf W zerotok round6 P s ftok = Run s' ->
    forall o, In o T -> is_canon o = true -> typed o = true -> mem (o_name o) exempt = false ->
      (String.eqb (o_name o) (w_alpha_name W)
       && Bool.eqb (var_is_zero zerotok (s_vars s) (w_alpha_var W)) (w_alpha_when_zero W)) = false ->
      (forall v d, s_vm s (o_name o) = Some (v, d) -> v <> []) ->
      s_vars s' (o_var o) = s_vars s (o_var o).
  Proof.
    intros CK C13 H1 H2 o Io Co To Ex AL NE. unfold checker13 in C13.
    apply andb_prop in C13 as [C13 MX]. apply andb_prop in C13 as [C13 FA].
    apply andb_prop in C13 as [C13 PR]. apply andb_prop in C13 as [C13 AS].
    destruct (find_opt (p_cfgopt P)) as [oc|] eqn:Fc; [|discriminate].
    rewrite forallb_forall in FA, AS.
    pose proof (FA o Io) as K. rewrite Co, To, Ex in K. cbn in K. apply andb_prop in K as [K1 K2].
    apply negb_true_iff in K1.
    eapply roundtrip_partial_thm; eauto.
    - intros a c I. left. exact (AS (a, c) I).
    - intro E. rewrite E in Ex. congruence.
  Qed.
End RT.
