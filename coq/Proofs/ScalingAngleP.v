(** * C03: the angle and the slip factors main() hands to the RF maps and the drift map (Gen/Gen_Scaling.v).
    Every statement is over an arbitrary field [K], an arbitrary interpretation [O] of the non-field operations,
    arbitrary option values [L]; a condition of the C++ appears as a hypothesis on the abstract predicate, e.g.
    [o_lt O 0 (L O_getStepsPerTrev) = false] is "StepsPerRevolution > 0 does not hold".  Arithmetic is closed by
    [field]/[ring]: re-associated or re-ordered products in main() do not matter. *)
From Coq Require Import List ZArith Bool Field.
From Inovesa Require Import Base.FieldKit Model.ScalingOps Model.RF Proofs.RFP Gen.Gen_Scaling Proofs.ScalingTac.
Import ListNotations.
Local Open Scope F_scope.

Section S.
  Variable K : Fld.
  Add Field KFa : (@Fth K).
  Variable O : Ops K.
  Variable L : leaf -> K.
  Variable B : bleaf -> bool.
  Notation angle := (gen_angle K O L B).

  (** StepsPerRevolution not given, StepsPerTs >= 1: the angle is 2 pi / StepsPerTs *)
  Lemma angle_is_two_pi_over_StepsPerTs :
    o_lt O 0 (L O_getStepsPerTrev) = false -> o_lt O (L O_getStepsPerTsync) 1 = false ->
    L O_getStepsPerTsync <> 0 ->
    angle = L C_two_pi / L O_getStepsPerTsync /\ angle * L O_getStepsPerTsync = L C_two_pi.
  Proof. intros H1 H2 H3. open_gen. use_guards. split; field_hyps. Qed.

  (** StepsPerTs = 0 is clamped to one step per period *)
  Lemma angle_clamped :
    o_lt O 0 (L O_getStepsPerTrev) = false -> o_lt O (L O_getStepsPerTsync) 1 = true -> angle = L C_two_pi.
  Proof. intros H1 H2. open_gen. use_guards. field. exact (@FieldKit.nz2 K) || (intro X; apply (F_1_neq_0 (@Fth K)); exact X). Qed.

  (** StepsPerRevolution > 0 with a given synchrotron frequency: StepsPerRevolution steps per turn, f_rev/f_s turns per
      synchrotron period *)
  Lemma angle_from_StepsPerRevolution :
    o_lt O 0 (L O_getStepsPerTrev) = true -> o_is0 O (L O_getSyncFreq) = false ->
    L O_getStepsPerTrev <> 0 -> L O_getRevolutionFrequency <> 0 -> L O_getSyncFreq <> 0 ->
    angle * (L O_getStepsPerTrev * L O_getRevolutionFrequency / L O_getSyncFreq) = L C_two_pi.
  Proof. intros H1 H2 H3 H4 H5. open_gen. use_guards. field_hyps. Qed.

  (** the drift map's slip factors: the first is the same angle; the others are alpha1/alpha0, alpha2/alpha0 times it *)
  Lemma list3_eq (a b c a' b' c' : K) : a = a' -> b = b' -> c = c' -> [a; b; c] = [a'; b'; c'].
  Proof. intros; subst; reflexivity. Qed.

  (** fold the (unfolded) angle back into one atom so that [field] needs no fact about its denominator *)
  Ltac fold_angle A :=
    remember (gen_angle K O L B) as A eqn:EA; unfold gen_angle in EA; cbv zeta in EA;
    unfold gen_slip; cbv zeta; rewrite <- ?EA.

  Lemma slip_first : nth 0 (gen_slip K O L B) 0 = angle.
  Proof. fold_angle A. cbn [nth]. first [reflexivity | ring]. Qed.

  Lemma slip_length : length (gen_slip K O L B) = 3%nat.
  Proof. unfold gen_slip. cbv zeta. reflexivity. Qed.

  Lemma slip_alpha0_option :
    o_is0 O (L O_getSyncFreq) = true -> L O_getAlpha0 <> 0 ->
    gen_slip K O L B = [angle; L O_getAlpha1 / L O_getAlpha0 * angle; L O_getAlpha2 / L O_getAlpha0 * angle].
  Proof.
    intros H1 H2. fold_angle A. use_guards. apply list3_eq; field_hyps.
  Qed.

  (** alpha1 = alpha2 = 0: the slip vector is [angle; 0; 0] whatever alpha0 is derived from *)
  Lemma slip_linear :
    L O_getAlpha1 = 0 -> L O_getAlpha2 = 0 -> gen_slip K O L B = [angle; 0; 0].
  Proof.
    intros H1 H2. fold_angle A. rewrite ?H1, ?H2.
    apply list3_eq; first [reflexivity | rewrite ?(Fdiv_def (@Fth K)); ring].
  Qed.

  Lemma main_slip :
    nth 0 (gen_slip K O L B) 0 = angle /\ length (gen_slip K O L B) = 3%nat /\
    (L O_getAlpha1 = 0 -> L O_getAlpha2 = 0 -> gen_slip K O L B = [angle; 0; 0]) /\
    (o_is0 O (L O_getSyncFreq) = true -> L O_getAlpha0 <> 0 ->
     gen_slip K O L B = [angle; L O_getAlpha1 / L O_getAlpha0 * angle; L O_getAlpha2 / L O_getAlpha0 * angle]).
  Proof.
    split; [apply slip_first|]. split; [apply slip_length|]. split; [apply slip_linear | apply slip_alpha0_option].
  Qed.

  (** ... so the drift offsets of Model/RF.v built from main()'s slip vector are a*(y - yc) with a = angle *)
  Lemma main_drift_is_linear (scale1 e0 : K) (n : Z) (mn mx : K) (y : Z) :
    L O_getAlpha1 = 0 -> L O_getAlpha2 = 0 -> mn <> mx -> fz (K:=K) (n - 1) <> 0 -> e0 <> 0 ->
    drift_off (gen_slip K O L B) scale1 e0 (ruler_delta n mn mx) (ruler_at mn (ruler_delta n mn mx) y) =
    angle * (fz y - ruler_zerobin n mn mx).
  Proof.
    intros H1 H2 H3 H4 H5. rewrite (slip_linear H1 H2).
    exact (drift_offsets_linear K angle scale1 e0 n mn mx (ruler_delta n mn mx) y H3 H4 H5 eq_refl).
  Qed.
End S.
