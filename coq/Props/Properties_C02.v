(** C02 - whole-cell shifts are lossless; fractional shifts reproduce polynomials.
    Only statements closed by [exact]; see Proofs/ for the proofs and DESIGN.md 5/C02. *)
From Coq Require Import List ZArith QArith Qcanon Bool Rdefinitions Qreals.
From Flocq Require Core.
From Inovesa Require Import Base.FieldKit Base.Float32 Gen.Gen_Coeffs Model.Kick
  Proofs.WeightsP Proofs.KickP Proofs.KickGridP Model.Rotation Proofs.RotationP Proofs.Float32P
  Model.RotX Gen.Gen_Rotation Gen.Gen_Ruler Model.RotationGen Proofs.RotationGenP.
Import ListNotations.
Local Open Scope Z_scope.

(** weights of the generated coefficient function sum to one, in every field
    (hence for every real and so for each of the 2^30 floats in [0,1)) *)
Theorem C02_weights_unity :
  forall (K : Fld) (it : Z) (f : K), valid_it it -> fsum (coeffs it f) = f1.
Proof. exact coeffs_unity. Qed.
Print Assumptions C02_weights_unity.

(** ... and collapse to a single unit weight at the stencil centre at offset zero *)
Theorem C02_unit_weight_at_zero :
  forall (K : Fld) (it : Z), valid_it it -> coeffs it (f0 : K) = unit_at it.
Proof. exact coeffs_at_zero. Qed.
Print Assumptions C02_unit_weight_at_zero.

(** the n-point scheme reproduces every monomial (X + j - c)^k -> (X + f)^k, k < n *)
Theorem C02_poly_reproduction :
  forall (K : Fld) (it : Z) (k : nat) (f X : K),
    valid_it it -> Z.of_nat k < it -> wmoment it k f X = fpow (X + f)%F k.
Proof. exact poly_reproduction. Qed.
Print Assumptions C02_poly_reproduction.

(** whole-cell displacement: the executable model of updateSM + apply returns the input
    moved by [m] cells for all data, zeros flowing in (row form; both kick directions
    are this row operator by [apply_y_cell]/[apply_x_cell]) *)
Theorem C02_whole_shift_exact :
  forall n it m (r : Z -> Qc) y,
    valid_it it -> 0 < n <= 4096 -> 0 <= n / 2 + m < n -> 0 <= y < n ->
    row_out n it (sm_entry n it (Qcz m)) r y =
    if ((0 <=? y + m) && (y + m <? n))%bool then r (y + m) else 0%Qc.
Proof. exact whole_shift_exact. Qed.
Print Assumptions C02_whole_shift_exact.

(** RotationMap::genHInfo: the it*it tensor weights of a grid point sum to one, collapse to a
    single unit weight at zero fractional parts, and reproduce every monomial x^k y^l, k,l < it *)
Theorem C02_rot_weights_unity :
  forall (K : Fld) (it : Z) (xf yf : K), valid_it it -> fsum (rot_weights it xf yf) = f1.
Proof. exact rot_weights_unity. Qed.
Print Assumptions C02_rot_weights_unity.

Theorem C02_rot_weights_at_zero :
  forall (K : Fld) (it : Z), valid_it it ->
    rot_weights it (f0 : K) f0 = tensor (unit_at it) (unit_at it).
Proof. exact rot_weights_at_zero. Qed.
Print Assumptions C02_rot_weights_at_zero.

Theorem C02_rot_poly_reproduction :
  forall (K : Fld) (it : Z) (k l : nat) (xf yf X Y : K),
    valid_it it -> Z.of_nat k < it -> Z.of_nat l < it ->
    fdot (rot_weights it xf yf) (tensor (nodes K it X k) (nodes K it Y l)) =
    (fpow (X + xf) k * fpow (Y + yf) l)%F.
Proof. exact rot_poly_reproduction. Qed.
Print Assumptions C02_rot_poly_reproduction.

(** ** RotationMap over the GENERATED definitions (Gen/Gen_Rotation.v: genHInfo, apply and the constructors by symbolic
    execution of this run's source, translate/rotation2coq.py; vocabulary Model/RotX.v; assembly Model/RotationGen.v) *)

(** genHInfo with the model's arithmetic (binary32 rounding of every operation that reaches the std::modf split,
    exact weights) writes the hand-written row of Model/Rotation.v into the block it is given ... *)
Theorem C02_rot_generated_is_model :
  forall xs ys it P (ax ay : Z -> Qc) x0 y0,
    valid_it it -> 0 < xs /\ 0 < ys /\ xs * ys <= 2 ^ 32 -> rot_defined P (ax x0) (ay y0) = true ->
    forall old k, 0 <= k < it * it ->
      rg_G xs ys it (it * it) P ax ay x0 y0 old k = nth (Z.to_nat k) (rot_entries xs ys it P (ax x0) (ay y0)) (0, 0%Qc).
Proof. exact rg_generated_is_model. Qed.
Print Assumptions C02_rot_generated_is_model.

(** ... and touches nothing else (every field, every rounding, every integer/fraction split) *)
Theorem C02_rot_genHInfo_footprint_generated :
  forall (K : Fld) (rd rw : K -> K) (ipart : K -> Z) (fpart : K -> K) xs ys it cos_dt sin_dt at0 at1 d0 d1 z0 z1 x0 y0 old k,
    valid_it it -> ~ (0 <= k < it * it) ->
    gen_rot_genHInfo K rd rw ipart fpart xs ys it (it * it) cos_dt sin_dt at0 at1 d0 d1 z0 z1 x0 y0 old k = old k.
Proof. exact rg_genHInfo_outside. Qed.
Print Assumptions C02_rot_genHInfo_footprint_generated.

(** which weight lands where: the write logs of the generated loops resolved - slot i1*it+j1 of the block holds the source
    cell (x1+i1-c, y1+j1-c) with the weight icq[i1]*icp[j1] (x weight with x offset), or the fallback (0, 0) *)
Theorem C02_rot_slot_generated :
  forall (K : Fld) (rd rw : K -> K) (ipart : K -> Z) (fpart : K -> K) xs ys it cos_dt sin_dt at0 at1 d0 d1 z0 z1 x0 y0 old i1 j1,
    let c1 := gen_rot_c1 K rd cos_dt sin_dt at0 at1 d0 d1 z0 z1 x0 y0 in
    let c2 := gen_rot_c2 K rd cos_dt sin_dt at0 at1 d0 d1 z0 z1 x0 y0 in
    let x1 := rx_f2u (ipart c1) in let y1 := rx_f2u (ipart c2) in
    valid_it it -> (x1 <? xs) && (y1 <? ys) = true -> 0 <= i1 < it -> 0 <= j1 < it ->
    gen_rot_genHInfo K rd rw ipart fpart xs ys it (it * it) cos_dt sin_dt at0 at1 d0 d1 z0 z1 x0 y0 old (i1 * it + j1) =
    (let i0 := wrap32 (x1 + i1 - centre it) in let j0 := wrap32 (y1 + j1 - centre it) in
     if (i0 <? xs) && (j0 <? ys)
     then (wrap32 (i0 * ys + j0), rw (rx_nth (coeffs it (fpart c1)) i1 * rx_nth (coeffs it (fpart c2)) j1)%F)
     else (0, f0)).
Proof. exact rg_genHInfo_then. Qed.
Print Assumptions C02_rot_slot_generated.

(** the weights genHInfo writes for a grid point whose stencil lies inside the grid sum to one ... *)
Theorem C02_rot_weights_unity_generated :
  forall (K : Fld) (rd : K -> K) (ipart : K -> Z) (fpart : K -> K) xs ys it cos_dt sin_dt at0 at1 d0 d1 z0 z1 x0 y0 old,
    let x1 := rx_f2u (ipart (gen_rot_c1 K rd cos_dt sin_dt at0 at1 d0 d1 z0 z1 x0 y0)) in
    let y1 := rx_f2u (ipart (gen_rot_c2 K rd cos_dt sin_dt at0 at1 d0 d1 z0 z1 x0 y0)) in
    valid_it it -> (x1 <? xs) && (y1 <? ys) = true -> rg_interior xs ys it x1 y1 ->
    fsum (map (fun k => snd (gen_rot_genHInfo K rd (fun w => w) ipart fpart xs ys it (it * it) cos_dt sin_dt at0 at1 d0 d1 z0 z1 x0 y0 old k))
              (zrange (it * it))) = f1.
Proof. exact rg_generated_weights_unity. Qed.
Print Assumptions C02_rot_weights_unity_generated.

(** ... and reproduce every monomial x^k y^l, k, l < it, at the split coordinate *)
Theorem C02_rot_poly_reproduction_generated :
  forall (K : Fld) (rd : K -> K) (ipart : K -> Z) (fpart : K -> K) xs ys it cos_dt sin_dt at0 at1 d0 d1 z0 z1 x0 y0 old (k l : nat) (X Y : K),
    let c1 := gen_rot_c1 K rd cos_dt sin_dt at0 at1 d0 d1 z0 z1 x0 y0 in
    let c2 := gen_rot_c2 K rd cos_dt sin_dt at0 at1 d0 d1 z0 z1 x0 y0 in
    let x1 := rx_f2u (ipart c1) in let y1 := rx_f2u (ipart c2) in
    valid_it it -> (x1 <? xs) && (y1 <? ys) = true -> rg_interior xs ys it x1 y1 -> Z.of_nat k < it -> Z.of_nat l < it ->
    fdot (map (fun s => snd (gen_rot_genHInfo K rd (fun w => w) ipart fpart xs ys it (it * it) cos_dt sin_dt at0 at1 d0 d1 z0 z1 x0 y0 old s))
              (zrange (it * it)))
         (tensor (nodes K it X k) (nodes K it Y l)) = (fpow (X + fpart c1) k * fpow (Y + fpart c2) l)%F.
Proof. exact rg_generated_poly_reproduction. Qed.
Print Assumptions C02_rot_poly_reproduction_generated.

(** zero angle: the constructor's cos(-0) = 1, sin(-0) = 0 ... *)
Theorem C02_rot_zero_angle_trig_generated :
  forall (K : Fld) (cosf sinf : K -> K), cosf f0 = f1 -> sinf f0 = f0 ->
    gen_rot_ctor_cos_dt K cosf f0 = f1 /\ gen_rot_ctor_sin_dt K sinf f0 = f0.
Proof. exact rg_trig_zero. Qed.
Print Assumptions C02_rot_zero_angle_trig_generated.

(** ... on the axes of the generated Ruler at(i)/delta + zerobin = i ... *)
Theorem C02_rot_ruler_cell_generated :
  forall (K : Fld) (steps mn mx i : K), (mx - mn)%F <> f0 -> (steps - 1)%F <> f0 ->
    (gen_ruler_at K mn (gen_ruler_delta K steps mn mx) i / gen_ruler_delta K steps mn mx + gen_ruler_zerobin K steps mn mx)%F = i.
Proof. exact rg_ruler_cell. Qed.
Print Assumptions C02_rot_ruler_cell_generated.

(** ... so in exact arithmetic the row genHInfo writes for grid point (x0, y0), applied to any data, returns the data at
    (x0, y0): rotation by zero is the identity map (one unit weight at the stencil centre) *)
Theorem C02_rot_zero_angle_identity_generated :
  forall (K : Fld) (ipart : K -> Z) (fpart : K -> K),
    (forall z, ipart (fz z) = z) -> (forall z, fpart (fz z) = f0) ->
    forall xs ys it (at0 at1 : Z -> K) d0 d1 z0 z1 x0 y0 (old : Z -> Z * K) (D : Z -> K),
      valid_it it -> 0 <= x0 < xs -> 0 <= y0 < ys -> xs * ys <= 2 ^ 32 ->
      (at0 x0 / d0 + z0)%F = fz x0 -> (at1 y0 / d1 + z1)%F = fz y0 ->
      fsum (map (fun k => let e := gen_rot_genHInfo K (fun x => x) (fun x => x) ipart fpart xs ys it (it * it) f1 f0 at0 at1 d0 d1 z0 z1 x0 y0 old k in
                          (D (fst e) * snd e)%F) (zrange (it * it))) = D (x0 * ys + y0).
Proof. exact rg_zero_angle_identity. Qed.
Print Assumptions C02_rot_zero_angle_identity_generated.

(** every table index genHInfo writes addresses the xs*ys grid (the fallback entry is index 0), for every coordinate
    value, every rounding and every split (C17 flavour; the float -> unsigned conversion itself is defined on (-1, 2^32) only) *)
Theorem C02_rot_table_in_bounds_generated :
  forall (K : Fld) (rd : K -> K) (ipart : K -> Z) (fpart : K -> K) xs ys it cos_dt sin_dt at0 at1 d0 d1 z0 z1 x0 y0 old (rw : K -> K) k,
    valid_it it -> 0 < xs -> 0 < ys -> 0 <= k < it * it ->
    0 <= fst (gen_rot_genHInfo K rd rw ipart fpart xs ys it (it * it) cos_dt sin_dt at0 at1 d0 d1 z0 z1 x0 y0 old k) < xs * ys.
Proof. exact rg_generated_in_bounds. Qed.
Print Assumptions C02_rot_table_in_bounds_generated.

(** the local arrays of genHInfo (smc, the coefficient arrays, the 2-D view ph over ph1D) are used inside their allocations *)
Theorem C02_rot_local_arrays_in_bounds_generated :
  forall it, valid_it it ->
    Forall (fun e => 0 <= fst e < gen_rot_smc_size it (it * it)) (gen_rot_smc_slots it (it * it)) /\
    Forall (fun e => snd e <= fst e) (gen_rot_coeff_sizes it (it * it)) /\
    Forall (fun i => 0 <= gen_rot_ph_row it (it * it) i /\ gen_rot_ph_row it (it * it) i + it <= snd (gen_rot_ph_sizes it (it * it)))
           (gen_rot_ph_rows it (it * it)) /\
    Z.of_nat (length (gen_rot_ph_rows it (it * it))) <= fst (gen_rot_ph_sizes it (it * it)).
Proof. exact rg_locals_in_bounds. Qed.
Print Assumptions C02_rot_local_arrays_in_bounds_generated.

(** apply, precomputed table: the generated cell body (accumulation over _hinfo[i*_ip+j], then the clamp window
    x*_it+y, x, y in 1..2) is the hand-written interpolation + saturation over the row the table holds for cell i *)
Theorem C02_rot_table_cell_generated_is_model :
  forall xs ys it clamp (H : Z -> Z * Qc) (D : Z -> Qc) (E : list (Z * Qc)) i,
    valid_it it -> length E = Z.to_nat (it * it) -> 0 <= i -> (i + 1) * (it * it) <= 2 ^ 32 -> (clamp = true -> it = 4) ->
    (forall j, 0 <= j < it * it -> H (i * (it * it) + j) = nth (Z.to_nat j) E (0, 0%Qc)) ->
    gen_rot_table_cell rg_id xs ys it (it * it) clamp H D i = (i, rot_apply_cell_clamped it clamp E D).
Proof. exact rg_table_cell_is_model. Qed.
Print Assumptions C02_rot_table_cell_generated_is_model.

(** apply, on-the-fly map: cell (q, p) writes data_out[q*ys+p] from the row genHInfo(q, p, &_hinfo[0]) has just written *)
Theorem C02_rot_fly_cell_generated_is_model :
  forall xs ys it clamp (G : Z -> Z -> (Z -> Z * Qc) -> Z -> Z * Qc) hinfo D (E : list (Z * Qc)) q p,
    length E = Z.to_nat (it * it) -> 0 <= it * it -> 0 <= q * ys + p < 2 ^ 32 ->
    (forall old j, 0 <= j < it * it -> G q p old j = nth (Z.to_nat j) E (0, 0%Qc)) ->
    gen_rot_fly_cell rg_id xs ys it (it * it) clamp G hinfo D q p = (q * ys + p, rot_apply_cell E D).
Proof. exact rg_fly_cell_is_model. Qed.
Print Assumptions C02_rot_fly_cell_generated_is_model.

(** the saturation: the clamped value lies between the two limits the code computes ... *)
Theorem C02_rot_clamp_limits :
  forall it E D v, let smp := rot_centre_samples it E D in
    (fold_left rx_min smp rx_flt_max <= rot_clamp it E D v <= fold_left rx_max smp rx_flt_min)%Qc.
Proof. exact rot_clamp_limits. Qed.
Print Assumptions C02_rot_clamp_limits.

(** ... hence between the smallest and the largest of the four centre samples as soon as one sample reaches
    numeric_limits<float>::min() = 2^-126 and none exceeds numeric_limits<float>::max() ... *)
Theorem C02_rot_clamp_between :
  forall it E D v lo hi,
    (forall s, In s (rot_centre_samples it E D) -> (lo <= s <= hi)%Qc) ->
    (exists s, In s (rot_centre_samples it E D) /\ (rx_flt_min <= s)%Qc) ->
    (forall s, In s (rot_centre_samples it E D) -> (s <= rx_flt_max)%Qc) ->
    (lo <= rot_clamp it E D v <= hi)%Qc.
Proof. exact rot_clamp_between. Qed.
Print Assumptions C02_rot_clamp_between.

(** ... and NOT without the first side condition: the upper limit starts from numeric_limits<float>::min(), the smallest
    positive normal number (not the lowest value), so four centre samples of 0 and an interpolated value of 1 give 2^-126 *)
Theorem C02_rot_clamp_between_samples_refuted :
  exists (E : list (Z * Qc)) (D : Z -> Qc) (v : Qc),
    (forall s, In s (rot_centre_samples 4 E D) -> s = 0%Qc) /\ rot_clamp 4 E D v = rx_flt_min /\ (0 < rx_flt_min)%Qc.
Proof. exact rot_clamp_between_samples_refuted. Qed.
Print Assumptions C02_rot_clamp_between_samples_refuted.

(** a map that the generated constructor did not refuse clamps only with cubic interpolation and a precomputed table
    (so the clamp window x*_it+y, x, y in 1..2, lies inside the 16 entries of the cell) *)
Theorem C02_rot_clamp_only_cubic_table_generated :
  forall a, rg_throws a = false -> ra_clamp a = true -> ra_it a = 4 /\ 0 < ra_rotmapsize a.
Proof. exact rg_clamp_only_cubic_table. Qed.
Print Assumptions C02_rot_clamp_only_cubic_table_generated.

(** the constructor: after its genHInfo calls (program order, block of cell (q, p) at (q*ysize+p)*_ip) the table holds,
    on the range they cover and whatever it held before, the row of grid point (s/_ip / ys, s/_ip mod ys) at entry s *)
Theorem C02_rot_ctor_table_generated :
  forall a P (ax ay : Z -> Qc), valid_it (ra_it a) ->
    0 <= ra_xs a /\ 0 <= ra_ys a /\ ra_xs a * ra_ys a * (ra_it a * ra_it a) <= 2 ^ 32 -> ra_rotmapsize a <> 0 ->
    forall H0 s, 0 <= s < ra_xs a * ra_ys a * (ra_it a * ra_it a) -> rg_ctor_hinfo a P ax ay H0 s = rg_table a P ax ay s.
Proof. exact rg_ctor_table. Qed.
Print Assumptions C02_rot_ctor_table_generated.

(** the whole map, precomputed table: constructor + apply of the generated definitions write, cell by cell, the
    (clamped) interpolation of the hand-written model over the row of the cell's own grid point *)
Theorem C02_rot_table_map_generated_is_model :
  forall a P (ax ay : Z -> Qc) H0 D, valid_it (ra_it a) ->
    0 < ra_xs a /\ 0 < ra_ys a /\ ra_xs a * ra_ys a * (ra_it a * ra_it a) <= 2 ^ 32 ->
    (forall q p, 0 <= q < ra_xs a -> 0 <= p < ra_ys a -> rot_defined P (ax q) (ay p) = true) ->
    rg_throws a = false -> ra_rotmapsize a = ra_xs a * ra_ys a ->
    rg_apply_writes a P ax ay (rg_ctor_hinfo a P ax ay H0) D =
    map (fun i => (i, rot_apply_cell_clamped (ra_it a) (ra_clamp a)
                        (rot_entries (ra_xs a) (ra_ys a) (ra_it a) P (ax (i / ra_ys a)) (ay (i mod ra_ys a))) D))
        (zrange (ra_xs a * ra_ys a)).
Proof. exact rg_table_map_is_model. Qed.
Print Assumptions C02_rot_table_map_generated_is_model.

(** the whole map, on the fly (rotmapsize = 0) *)
Theorem C02_rot_fly_map_generated_is_model :
  forall a P (ax ay : Z -> Qc) D, valid_it (ra_it a) ->
    0 < ra_xs a /\ 0 < ra_ys a /\ ra_xs a * ra_ys a * (ra_it a * ra_it a) <= 2 ^ 32 ->
    (forall q p, 0 <= q < ra_xs a -> 0 <= p < ra_ys a -> rot_defined P (ax q) (ay p) = true) ->
    rg_throws a = false ->
    forall H, ra_rotmapsize a = 0 ->
    rg_apply_writes a P ax ay H D =
    map (fun qp => (fst qp * ra_ys a + snd qp,
                    rot_apply_cell (rot_entries (ra_xs a) (ra_ys a) (ra_it a) P (ax (fst qp)) (ay (snd qp))) D))
        (flat_map (fun q => map (fun p => (q, p)) (zrange (ra_ys a))) (zrange (ra_xs a))).
Proof. exact rg_fly_map_is_model. Qed.
Print Assumptions C02_rot_fly_map_generated_is_model.

(** non-vacuity: a 6 x 5 cubic map by a quarter turn on symmetric axes, one interior cell of the generated table, and a clamped cell *)
Example C02_rot_generated_example :
  let P := {| rp_cos := 0%Qc; rp_sin := Qcz (-1); rp_d0 := 1%Qc; rp_d1 := 1%Qc; rp_z0 := Qcz 3; rp_z1 := Qcz 2 |} in
  let a := {| ra_xs := 6; ra_ys := 5; ra_it := 4; ra_rotmapsize := 30; ra_clamp := true |} in
  rg_throws a = false /\
  map (fun j => rg_table a P (fun x => Qcz (x - 3)) (fun y => Qcz (y - 2)) (16 * (3 * 5 + 2) + j)) [4; 5; 6] =
    [(3 * 5 + 1, 0%Qc); (3 * 5 + 2, 1%Qc); (3 * 5 + 3, 0%Qc)].
Proof. vm_compute. split; reflexivity. Qed.

(** the rounding function the kick and rotation models use where the C++ rounds to float before a
    discontinuous decision is IEEE-754 binary32 round-to-nearest-even (Flocq's FLT format) *)
Theorem C02_rnd32_is_binary32_RNE :
  forall q : Qc, Q2R (this (rnd32 q)) =
    Generic_fmt.round Zaux.radix2 (FLT.FLT_exp (-149) 24)
      (Generic_fmt.Znearest (fun x => negb (Z.even x))) (Q2R (this q)).
Proof. exact Float32P.rnd32_correct. Qed.
Print Assumptions C02_rnd32_is_binary32_RNE.

(** non-vacuity: a concrete shifted row *)
Example C02_shift_example :
  map (row_out 8 4 (sm_entry 8 4 (Qcz 2)) (fun i => Qcz (i + 1))) (zrange 8)
  = map Qcz [3; 4; 5; 6; 7; 8; 0; 0].
Proof. vm_compute. reflexivity. Qed.

(** ** the whole-shift theorem about the GENERATED body of KickMap::updateSM (family usm; Gen/Gen_UpdateSM.v is regenerated
    from src/SM/KickMap.cpp on every run, see Properties_C01 and Proofs/UpdateSMGenP.v): the entries the source's own loop
    body writes for an integer offset - size halved by integer division, binary32 sum, std::modf, guard, conversion,
    source index [jd + j1 - (it-1)/2] in unsigned arithmetic, range test, fallback (n/2, 0) - move every row by exactly
    [m] cells.  A changed centre, halving ([n/2.0f]: odd sizes), guard, bound or fallback breaks this theorem. *)
From Inovesa Require Import Model.UsmOps Gen.Gen_UpdateSM Proofs.UpdateSMGenP.

Theorem C02_whole_shift_exact_generated :
  forall n it m (r : Z -> Qc) y,
    valid_it it -> 0 < n <= 4096 -> 0 <= n / 2 + m < n -> 0 <= y < n ->
    row_out n it (usm_entry n it (Qcz m)) r y =
    if ((0 <=? y + m) && (y + m <? n))%bool then r (y + m) else 0%Qc.
Proof. exact gen_whole_shift_exact. Qed.
Print Assumptions C02_whole_shift_exact_generated.

(** the generated entry function is the kick model for every offset, fractional ones included (so that the
    polynomial-reproduction statements, which are about the generated weights, meet the generated origin) *)
Theorem C02_updateSM_generated_is_model :
  forall n it o j1,
    valid_it it -> 0 < n < 2 ^ 24 -> 0 <= j1 < it -> usm_entry n it o j1 = sm_entry n it o j1.
Proof. exact usm_entry_model. Qed.
Print Assumptions C02_updateSM_generated_is_model.

(** non-vacuity: the generated code on an odd grid (n = 7: n/2 = 3 by integer division), shift by two cells *)
Example C02_shift_generated_example :
  map (row_out 7 4 (usm_entry 7 4 (Qcz 2)) (fun i => Qcz (i + 1))) (zrange 7)
  = map Qcz [3; 4; 5; 6; 7; 0; 0].
Proof. vm_compute. reflexivity. Qed.

(** ** "to rounding": the rounding envelope of the weights, proved (family [round]).

    Standard model of binary32 derived from Flocq (Proofs/RoundingP.v), typed expression trees of
    calcCoefficiants regenerated on every run (Gen/Gen_CoeffsFl.v, translate/coeffsfl2coq.py), a verified
    rounding-error calculator run on those trees (Model/FExpr.v, Proofs/FExprP.v), and the resulting bounds
    (Proofs/CoeffsRoundP.v).  Real numbers: the axioms are those of the standard library's reals. *)
From Coq Require Import Reals.
From Inovesa Require Import Base.RInst Gen.Gen_CoeffsFl Model.FExpr Proofs.RoundingP Proofs.FExprP
  Proofs.CoeffsRoundP.

(** the standard model of one binary32 rounding, for every real x (Flocq's [error_N_FLT], FLT_exp (-149) 24,
    round to nearest even): fl(x) = x (1 + d) + e, |d| <= 2^-24, |e| <= 2^-150, d e = 0 *)
Theorem C02_binary32_standard_model :
  forall x : R, exists d e : R,
    (Rabs d <= u32 /\ Rabs e <= eta32 /\ d * e = 0 /\ RN32 x = x * (1 + d) + e)%R.
Proof. exact RN32_model. Qed.
Print Assumptions C02_binary32_standard_model.

(** one statement satisfied by the unfused (two roundings) and by the fused (one rounding) evaluation of a*b+c *)
Theorem C02_fma_closure :
  forall a b c : R, fma_shape a b c (fl32_add (fl32_mul a b) c) /\ fma_shape a b c (fl32_fma a b c).
Proof. exact fma_model. Qed.
Print Assumptions C02_fma_closure.

(** gamma_k: k successive roundings *)
Theorem C02_gamma_k :
  forall u : R, (0 <= u)%R -> forall k : nat, (INR k * u < 1)%R -> ((1 + u) ^ k - 1 <= gam u k)%R.
Proof. exact pow1u_le_gam. Qed.
Print Assumptions C02_gamma_k.

(** the typed trees, with the types erased, are the generated exact coefficients *)
Theorem C02_typed_trees_denote_coeffs :
  forall (it : Z) (f : R), valid_it it -> map (fun e => evalR e f) (coeff_trees it) = coeffs (K:=RF) it f.
Proof. exact trees_exact. Qed.
Print Assumptions C02_typed_trees_denote_coeffs.

(** soundness of the calculator: enclosure of the exact value and bound on every admissible computed value
    (units of 2^-64), for any tree and any argument range *)
Theorem C02_error_calculator_sound :
  forall (e : fexpr) (lo hi : Z) (f : R), (fxR lo <= f <= fxR hi)%R ->
  forall (l h E : Z) (v : R), bnd e lo hi = Some (l, h, E) -> feval f e v ->
    (fxR l <= evalR e f <= fxR h)%R /\ (Rabs (v - evalR e f) <= fxR E)%R.
Proof. exact bnd_sound. Qed.
Print Assumptions C02_error_calculator_sound.

(** IEEE round-to-nearest at every node, and the same with any subset of the roundings skipped (FMA
    contraction), are admissible evaluations *)
Theorem C02_ieee_evaluation_admissible :
  forall (sel : list bool -> bool) (e : fexpr) (path : list bool) (f : R),
    feval f e (fl_eval e f) /\ feval f e (fl_eval_sel sel path e f).
Proof. intros sel e path f. exact (conj (fl_eval_feval e f) (fl_eval_sel_feval sel e path f)). Qed.
Print Assumptions C02_ieee_evaluation_admissible.

(** the per-cell table the harness checks the implementation against: for f in cell c of 2^k the exact
    weights are bounded by the first and the errors of every admissible evaluation by the second components *)
Theorem C02_cell_table_sound :
  forall (ts : list fexpr) (k c : Z) (f : R), (fxR (cell_lo k c) <= f <= fxR (cell_hi k c))%R ->
  forall (r : list (Z * Z)) (vs : list R), cell_row ts k c = Some r -> Forall2 (feval f) ts vs ->
    Forall2 Rle (mags f ts) (map (fun me => fxR (fst me)) r) /\
    Forall2 Rle (errs f ts vs) (map (fun me => fxR (snd me)) r).
Proof. exact cell_row_sound. Qed.
Print Assumptions C02_cell_table_sound.

(** the weights as computed in binary32 (any admissible evaluation of the generated trees), every real
    f in [0,1] - hence every binary32 f in [0,1): they sum to one within Bsum it * 2^-24 ... *)
Theorem C02_weights_unity_rounded :
  forall (it : Z) (f : R) (vs : list R),
    valid_it it -> (0 <= f <= 1)%R -> computed_weights it f vs ->
    (Rabs (Rsum vs - 1) <= Q2R (Bsum it) * u32)%R.
Proof. exact weights_unity_rounded. Qed.
Print Assumptions C02_weights_unity_rounded.

(** ... the absolute errors of the weights add up to at most Bsum it * 2^-24 ... *)
Theorem C02_weights_error_sum :
  forall (it : Z) (f : R) (vs : list R),
    valid_it it -> (0 <= f <= 1)%R -> computed_weights it f vs ->
    (Rsum (map (fun vw => Rabs (fst vw - snd vw)) (combine vs (coeffs (K:=RF) it f))) <= Q2R (Bsum it) * u32)%R.
Proof. exact weights_abs_error_sum. Qed.
Print Assumptions C02_weights_error_sum.

(** ... each weight is within Bone it * 2^-24 of the exact weight ... *)
Theorem C02_weights_each_rounded :
  forall (it : Z) (f : R) (vs : list R),
    valid_it it -> (0 <= f <= 1)%R -> computed_weights it f vs ->
    Forall (fun vw => (Rabs (fst vw - snd vw) <= Q2R (Bone it) * u32)%R) (combine vs (coeffs (K:=RF) it f)).
Proof. exact weights_each_error. Qed.
Print Assumptions C02_weights_each_rounded.

(** ... and the exact weights have absolute sum at most Lsum it (Lebesgue constant of the scheme) *)
Theorem C02_weights_abs_sum :
  forall (it : Z) (f : R), valid_it it -> (0 <= f <= 1)%R ->
    (Rsum (map Rabs (coeffs (K:=RF) it f)) <= Q2R (Lsum it))%R.
Proof. exact weights_abs_sum. Qed.
Print Assumptions C02_weights_abs_sum.

(** the concrete machine evaluations: round to nearest at every operation; any contraction pattern *)
Theorem C02_weights_unity_ieee :
  forall (it : Z) (f : R), valid_it it -> (0 <= f <= 1)%R ->
    (Rabs (Rsum (map (fun e => fl_eval e f) (coeff_trees it)) - 1) <= Q2R (Bsum it) * u32)%R.
Proof. exact weights_unity_ieee. Qed.
Print Assumptions C02_weights_unity_ieee.

Theorem C02_weights_unity_contracted :
  forall (sel : list bool -> bool) (it : Z) (f : R), valid_it it -> (0 <= f <= 1)%R ->
    (Rabs (Rsum (map (fun e => fl_eval_sel sel [] e f) (coeff_trees it)) - 1) <= Q2R (Bsum it) * u32)%R.
Proof. exact weights_unity_contracted. Qed.
Print Assumptions C02_weights_unity_contracted.

(** the executable evaluation the harness compares with the implementation bit for bit (Model/FExpr.v: [rndQ], [fl_evalQ], run
    extracted) is Flocq's rounding, the IEEE evaluation, and admissible with or without contraction *)
From Inovesa Require Import Proofs.FlEvalQP.
Theorem C02_rndQ_is_IEEE_RNE :
  forall (p : prec) (q : Q), Q2R (rndQ p q) = RNp p (Q2R q).
Proof. exact rndQ_correct. Qed.
Print Assumptions C02_rndQ_is_IEEE_RNE.

Theorem C02_executable_evaluation_is_ieee :
  forall (e : fexpr) (f : Q), Q2R (fl_evalQ false e f) = fl_eval e (Q2R f).
Proof. exact fl_evalQ_ieee. Qed.
Print Assumptions C02_executable_evaluation_is_ieee.

Theorem C02_executable_evaluation_admissible :
  forall (c : bool) (e : fexpr) (f : Q), feval (Q2R f) e (Q2R (fl_evalQ c e f)).
Proof. exact fl_evalQ_feval. Qed.
Print Assumptions C02_executable_evaluation_admissible.

(** the constants *)
Example C02_rounding_constants :
  map Bsum [1; 2; 3; 4]%Z = [0; 9 # 8; 17 # 4; 29 # 4]%Q /\ map Bone [1; 2; 3; 4]%Z = [0; 9 # 8; 25 # 8; 25 # 4]%Q /\
  map Lsum [1; 2; 3; 4]%Z = [1; 33 # 32; 21 # 16; 21 # 16]%Q.
Proof. repeat split. Qed.
