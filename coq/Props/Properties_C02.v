(** C02 - whole-cell shifts are lossless; fractional shifts reproduce polynomials.
    Only statements closed by [exact]; see Proofs/ for the proofs and DESIGN.md 5/C02. *)
From Coq Require Import List ZArith QArith Qcanon Bool Rdefinitions Qreals.
From Flocq Require Core.
From Inovesa Require Import Base.FieldKit Base.Float32 Gen.Gen_Coeffs Model.Kick
  Proofs.WeightsP Proofs.KickP Proofs.KickGridP Model.Rotation Proofs.RotationP Proofs.Float32P.
Import ListNotations.
Local Open Scope Z_scope.

(** weights of the generated coefficient function sum to one, in every field
    (hence for every real and so for each of the 2^30 floats in [0,1)) *)
Theorem C02_weights_unity :
  forall (K : Fld) (it : Z) (f : K), valid_it it -> fsum (coeffs it f) = f1.
Proof. exact coeffs_unity. Qed.
Print Assumptions C02_weights_unity.

(** ... and collapse to a single unit weight at the stencil centre at offset zero *)
Theorem C02_unit_weight_at_zero :
  forall (K : Fld) (it : Z), valid_it it -> coeffs it (f0 : K) = unit_at it.
Proof. exact coeffs_at_zero. Qed.
Print Assumptions C02_unit_weight_at_zero.

(** the n-point scheme reproduces every monomial (X + j - c)^k -> (X + f)^k, k < n *)
Theorem C02_poly_reproduction :
  forall (K : Fld) (it : Z) (k : nat) (f X : K),
    valid_it it -> Z.of_nat k < it -> wmoment it k f X = fpow (X + f)%F k.
Proof. exact poly_reproduction. Qed.
Print Assumptions C02_poly_reproduction.

(** whole-cell displacement: the executable model of updateSM + apply returns the input
    moved by [m] cells for all data, zeros flowing in (row form; both kick directions
    are this row operator by [apply_y_cell]/[apply_x_cell]) *)
Theorem C02_whole_shift_exact :
  forall n it m (r : Z -> Qc) y,
    valid_it it -> 0 < n <= 4096 -> 0 <= n / 2 + m < n -> 0 <= y < n ->
    row_out n it (sm_entry n it (Qcz m)) r y =
    if ((0 <=? y + m) && (y + m <? n))%bool then r (y + m) else 0%Qc.
Proof. exact whole_shift_exact. Qed.
Print Assumptions C02_whole_shift_exact.

(** RotationMap::genHInfo: the it*it tensor weights of a grid point sum to one, collapse to a
    single unit weight at zero fractional parts, and reproduce every monomial x^k y^l, k,l < it *)
Theorem C02_rot_weights_unity :
  forall (K : Fld) (it : Z) (xf yf : K), valid_it it -> fsum (rot_weights it xf yf) = f1.
Proof. exact rot_weights_unity. Qed.
Print Assumptions C02_rot_weights_unity.

Theorem C02_rot_weights_at_zero :
  forall (K : Fld) (it : Z), valid_it it ->
    rot_weights it (f0 : K) f0 = tensor (unit_at it) (unit_at it).
Proof. exact rot_weights_at_zero. Qed.
Print Assumptions C02_rot_weights_at_zero.

Theorem C02_rot_poly_reproduction :
  forall (K : Fld) (it : Z) (k l : nat) (xf yf X Y : K),
    valid_it it -> Z.of_nat k < it -> Z.of_nat l < it ->
    fdot (rot_weights it xf yf) (tensor (nodes K it X k) (nodes K it Y l)) =
    (fpow (X + xf) k * fpow (Y + yf) l)%F.
Proof. exact rot_poly_reproduction. Qed.
Print Assumptions C02_rot_poly_reproduction.

(** the rounding function the kick and rotation models use where the C++ rounds to float before a
    discontinuous decision is IEEE-754 binary32 round-to-nearest-even (Flocq's FLT format) *)
Theorem C02_rnd32_is_binary32_RNE :
  forall q : Qc, Q2R (this (rnd32 q)) =
    Generic_fmt.round Zaux.radix2 (FLT.FLT_exp (-149) 24)
      (Generic_fmt.Znearest (fun x => negb (Z.even x))) (Q2R (this q)).
Proof. exact Float32P.rnd32_correct. Qed.
Print Assumptions C02_rnd32_is_binary32_RNE.

(** non-vacuity: a concrete shifted row *)
Example C02_shift_example :
  map (row_out 8 4 (sm_entry 8 4 (Qcz 2)) (fun i => Qcz (i + 1))) (zrange 8)
  = map Qcz [3; 4; 5; 6; 7; 8; 0; 0].
Proof. vm_compute. reflexivity. Qed.
