(** C02 - whole-cell shifts are lossless; fractional shifts reproduce polynomials.
    Only statements closed by [exact]; see Proofs/ for the proofs and DESIGN.md 5/C02. *)
From Coq Require Import List ZArith QArith Qcanon Bool Rdefinitions Qreals.
From Flocq Require Core.
From Inovesa Require Import Base.FieldKit Base.Float32 Gen.Gen_Coeffs Model.Kick
  Proofs.WeightsP Proofs.KickP Proofs.KickGridP Model.Rotation Proofs.RotationP Proofs.Float32P.
Import ListNotations.
Local Open Scope Z_scope.

(** weights of the generated coefficient function sum to one, in every field
    (hence for every real and so for each of the 2^30 floats in [0,1)) *)
Theorem C02_weights_unity :
  forall (K : Fld) (it : Z) (f : K), valid_it it -> fsum (coeffs it f) = f1.
Proof. exact coeffs_unity. Qed.
Print Assumptions C02_weights_unity.

(** ... and collapse to a single unit weight at the stencil centre at offset zero *)
Theorem C02_unit_weight_at_zero :
  forall (K : Fld) (it : Z), valid_it it -> coeffs it (f0 : K) = unit_at it.
Proof. exact coeffs_at_zero. Qed.
Print Assumptions C02_unit_weight_at_zero.

(** the n-point scheme reproduces every monomial (X + j - c)^k -> (X + f)^k, k < n *)
Theorem C02_poly_reproduction :
  forall (K : Fld) (it : Z) (k : nat) (f X : K),
    valid_it it -> Z.of_nat k < it -> wmoment it k f X = fpow (X + f)%F k.
Proof. exact poly_reproduction. Qed.
Print Assumptions C02_poly_reproduction.

(** whole-cell displacement: the executable model of updateSM + apply returns the input
    moved by [m] cells for all data, zeros flowing in (row form; both kick directions
    are this row operator by [apply_y_cell]/[apply_x_cell]) *)
Theorem C02_whole_shift_exact :
  forall n it m (r : Z -> Qc) y,
    valid_it it -> 0 < n <= 4096 -> 0 <= n / 2 + m < n -> 0 <= y < n ->
    row_out n it (sm_entry n it (Qcz m)) r y =
    if ((0 <=? y + m) && (y + m <? n))%bool then r (y + m) else 0%Qc.
Proof. exact whole_shift_exact. Qed.
Print Assumptions C02_whole_shift_exact.

(** RotationMap::genHInfo: the it*it tensor weights of a grid point sum to one, collapse to a
    single unit weight at zero fractional parts, and reproduce every monomial x^k y^l, k,l < it *)
Theorem C02_rot_weights_unity :
  forall (K : Fld) (it : Z) (xf yf : K), valid_it it -> fsum (rot_weights it xf yf) = f1.
Proof. exact rot_weights_unity. Qed.
Print Assumptions C02_rot_weights_unity.

Theorem C02_rot_weights_at_zero :
  forall (K : Fld) (it : Z), valid_it it ->
    rot_weights it (f0 : K) f0 = tensor (unit_at it) (unit_at it).
Proof. exact rot_weights_at_zero. Qed.
Print Assumptions C02_rot_weights_at_zero.

Theorem C02_rot_poly_reproduction :
  forall (K : Fld) (it : Z) (k l : nat) (xf yf X Y : K),
    valid_it it -> Z.of_nat k < it -> Z.of_nat l < it ->
    fdot (rot_weights it xf yf) (tensor (nodes K it X k) (nodes K it Y l)) =
    (fpow (X + xf) k * fpow (Y + yf) l)%F.
Proof. exact rot_poly_reproduction. Qed.
Print Assumptions C02_rot_poly_reproduction.

(** the rounding function the kick and rotation models use where the C++ rounds to float before a
    discontinuous decision is IEEE-754 binary32 round-to-nearest-even (Flocq's FLT format) *)
Theorem C02_rnd32_is_binary32_RNE :
  forall q : Qc, Q2R (this (rnd32 q)) =
    Generic_fmt.round Zaux.radix2 (FLT.FLT_exp (-149) 24)
      (Generic_fmt.Znearest (fun x => negb (Z.even x))) (Q2R (this q)).
Proof. exact Float32P.rnd32_correct. Qed.
Print Assumptions C02_rnd32_is_binary32_RNE.

(** non-vacuity: a concrete shifted row *)
Example C02_shift_example :
  map (row_out 8 4 (sm_entry 8 4 (Qcz 2)) (fun i => Qcz (i + 1))) (zrange 8)
  = map Qcz [3; 4; 5; 6; 7; 8; 0; 0].
Proof. vm_compute. reflexivity. Qed.

(** ** the whole-shift theorem about the GENERATED body of KickMap::updateSM (family usm; Gen/Gen_UpdateSM.v is regenerated
    from src/SM/KickMap.cpp on every run, see Properties_C01 and Proofs/UpdateSMGenP.v): the entries the source's own loop
    body writes for an integer offset - size halved by integer division, binary32 sum, std::modf, guard, conversion,
    source index [jd + j1 - (it-1)/2] in unsigned arithmetic, range test, fallback (n/2, 0) - move every row by exactly
    [m] cells.  A changed centre, halving ([n/2.0f]: odd sizes), guard, bound or fallback breaks this theorem. *)
From Inovesa Require Import Model.UsmOps Gen.Gen_UpdateSM Proofs.UpdateSMGenP.

Theorem C02_whole_shift_exact_generated :
  forall n it m (r : Z -> Qc) y,
    valid_it it -> 0 < n <= 4096 -> 0 <= n / 2 + m < n -> 0 <= y < n ->
    row_out n it (usm_entry n it (Qcz m)) r y =
    if ((0 <=? y + m) && (y + m <? n))%bool then r (y + m) else 0%Qc.
Proof. exact gen_whole_shift_exact. Qed.
Print Assumptions C02_whole_shift_exact_generated.

(** the generated entry function is the kick model for every offset, fractional ones included (so that the
    polynomial-reproduction statements, which are about the generated weights, meet the generated origin) *)
Theorem C02_updateSM_generated_is_model :
  forall n it o j1,
    valid_it it -> 0 < n < 2 ^ 24 -> 0 <= j1 < it -> usm_entry n it o j1 = sm_entry n it o j1.
Proof. exact usm_entry_model. Qed.
Print Assumptions C02_updateSM_generated_is_model.

(** non-vacuity: the generated code on an odd grid (n = 7: n/2 = 3 by integer division), shift by two cells *)
Example C02_shift_generated_example :
  map (row_out 7 4 (usm_entry 7 4 (Qcz 2)) (fun i => Qcz (i + 1))) (zrange 7)
  = map Qcz [3; 4; 5; 6; 7; 0; 0].
Proof. vm_compute. reflexivity. Qed.

(** ** "to rounding": the rounding envelope of the weights, proved (family [round]).

    Standard model of binary32 derived from Flocq (Proofs/RoundingP.v), typed expression trees of
    calcCoefficiants regenerated on every run (Gen/Gen_CoeffsFl.v, translate/coeffsfl2coq.py), a verified
    rounding-error calculator run on those trees (Model/FExpr.v, Proofs/FExprP.v), and the resulting bounds
    (Proofs/CoeffsRoundP.v).  Real numbers: the axioms are those of the standard library's reals. *)
From Coq Require Import Reals.
From Inovesa Require Import Base.RInst Gen.Gen_CoeffsFl Model.FExpr Proofs.RoundingP Proofs.FExprP
  Proofs.CoeffsRoundP.

(** the standard model of one binary32 rounding, for every real x (Flocq's [error_N_FLT], FLT_exp (-149) 24,
    round to nearest even): fl(x) = x (1 + d) + e, |d| <= 2^-24, |e| <= 2^-150, d e = 0 *)
Theorem C02_binary32_standard_model :
  forall x : R, exists d e : R,
    (Rabs d <= u32 /\ Rabs e <= eta32 /\ d * e = 0 /\ RN32 x = x * (1 + d) + e)%R.
Proof. exact RN32_model. Qed.
Print Assumptions C02_binary32_standard_model.

(** one statement satisfied by the unfused (two roundings) and by the fused (one rounding) evaluation of a*b+c *)
Theorem C02_fma_closure :
  forall a b c : R, fma_shape a b c (fl32_add (fl32_mul a b) c) /\ fma_shape a b c (fl32_fma a b c).
Proof. exact fma_model. Qed.
Print Assumptions C02_fma_closure.

(** gamma_k: k successive roundings *)
Theorem C02_gamma_k :
  forall u : R, (0 <= u)%R -> forall k : nat, (INR k * u < 1)%R -> ((1 + u) ^ k - 1 <= gam u k)%R.
Proof. exact pow1u_le_gam. Qed.
Print Assumptions C02_gamma_k.

(** the typed trees, with the types erased, are the generated exact coefficients *)
Theorem C02_typed_trees_denote_coeffs :
  forall (it : Z) (f : R), valid_it it -> map (fun e => evalR e f) (coeff_trees it) = coeffs (K:=RF) it f.
Proof. exact trees_exact. Qed.
Print Assumptions C02_typed_trees_denote_coeffs.

(** soundness of the calculator: enclosure of the exact value and bound on every admissible computed value
    (units of 2^-64), for any tree and any argument range *)
Theorem C02_error_calculator_sound :
  forall (e : fexpr) (lo hi : Z) (f : R), (fxR lo <= f <= fxR hi)%R ->
  forall (l h E : Z) (v : R), bnd e lo hi = Some (l, h, E) -> feval f e v ->
    (fxR l <= evalR e f <= fxR h)%R /\ (Rabs (v - evalR e f) <= fxR E)%R.
Proof. exact bnd_sound. Qed.
Print Assumptions C02_error_calculator_sound.

(** IEEE round-to-nearest at every node, and the same with any subset of the roundings skipped (FMA
    contraction), are admissible evaluations *)
Theorem C02_ieee_evaluation_admissible :
  forall (sel : list bool -> bool) (e : fexpr) (path : list bool) (f : R),
    feval f e (fl_eval e f) /\ feval f e (fl_eval_sel sel path e f).
Proof. intros sel e path f. exact (conj (fl_eval_feval e f) (fl_eval_sel_feval sel e path f)). Qed.
Print Assumptions C02_ieee_evaluation_admissible.

(** the per-cell table the harness checks the implementation against: for f in cell c of 2^k the exact
    weights are bounded by the first and the errors of every admissible evaluation by the second components *)
Theorem C02_cell_table_sound :
  forall (ts : list fexpr) (k c : Z) (f : R), (fxR (cell_lo k c) <= f <= fxR (cell_hi k c))%R ->
  forall (r : list (Z * Z)) (vs : list R), cell_row ts k c = Some r -> Forall2 (feval f) ts vs ->
    Forall2 Rle (mags f ts) (map (fun me => fxR (fst me)) r) /\
    Forall2 Rle (errs f ts vs) (map (fun me => fxR (snd me)) r).
Proof. exact cell_row_sound. Qed.
Print Assumptions C02_cell_table_sound.

(** the weights as computed in binary32 (any admissible evaluation of the generated trees), every real
    f in [0,1] - hence every binary32 f in [0,1): they sum to one within Bsum it * 2^-24 ... *)
Theorem C02_weights_unity_rounded :
  forall (it : Z) (f : R) (vs : list R),
    valid_it it -> (0 <= f <= 1)%R -> computed_weights it f vs ->
    (Rabs (Rsum vs - 1) <= Q2R (Bsum it) * u32)%R.
Proof. exact weights_unity_rounded. Qed.
Print Assumptions C02_weights_unity_rounded.

(** ... the absolute errors of the weights add up to at most Bsum it * 2^-24 ... *)
Theorem C02_weights_error_sum :
  forall (it : Z) (f : R) (vs : list R),
    valid_it it -> (0 <= f <= 1)%R -> computed_weights it f vs ->
    (Rsum (map (fun vw => Rabs (fst vw - snd vw)) (combine vs (coeffs (K:=RF) it f))) <= Q2R (Bsum it) * u32)%R.
Proof. exact weights_abs_error_sum. Qed.
Print Assumptions C02_weights_error_sum.

(** ... each weight is within Bone it * 2^-24 of the exact weight ... *)
Theorem C02_weights_each_rounded :
  forall (it : Z) (f : R) (vs : list R),
    valid_it it -> (0 <= f <= 1)%R -> computed_weights it f vs ->
    Forall (fun vw => (Rabs (fst vw - snd vw) <= Q2R (Bone it) * u32)%R) (combine vs (coeffs (K:=RF) it f)).
Proof. exact weights_each_error. Qed.
Print Assumptions C02_weights_each_rounded.

(** ... and the exact weights have absolute sum at most Lsum it (Lebesgue constant of the scheme) *)
Theorem C02_weights_abs_sum :
  forall (it : Z) (f : R), valid_it it -> (0 <= f <= 1)%R ->
    (Rsum (map Rabs (coeffs (K:=RF) it f)) <= Q2R (Lsum it))%R.
Proof. exact weights_abs_sum. Qed.
Print Assumptions C02_weights_abs_sum.

(** the concrete machine evaluations: round to nearest at every operation; any contraction pattern *)
Theorem C02_weights_unity_ieee :
  forall (it : Z) (f : R), valid_it it -> (0 <= f <= 1)%R ->
    (Rabs (Rsum (map (fun e => fl_eval e f) (coeff_trees it)) - 1) <= Q2R (Bsum it) * u32)%R.
Proof. exact weights_unity_ieee. Qed.
Print Assumptions C02_weights_unity_ieee.

Theorem C02_weights_unity_contracted :
  forall (sel : list bool -> bool) (it : Z) (f : R), valid_it it -> (0 <= f <= 1)%R ->
    (Rabs (Rsum (map (fun e => fl_eval_sel sel [] e f) (coeff_trees it)) - 1) <= Q2R (Bsum it) * u32)%R.
Proof. exact weights_unity_contracted. Qed.
Print Assumptions C02_weights_unity_contracted.

(** the executable evaluation the harness compares with the implementation bit for bit (Model/FExpr.v: [rndQ], [fl_evalQ], run
    extracted) is Flocq's rounding, the IEEE evaluation, and admissible with or without contraction *)
From Inovesa Require Import Proofs.FlEvalQP.
Theorem C02_rndQ_is_IEEE_RNE :
  forall (p : prec) (q : Q), Q2R (rndQ p q) = RNp p (Q2R q).
Proof. exact rndQ_correct. Qed.
Print Assumptions C02_rndQ_is_IEEE_RNE.

Theorem C02_executable_evaluation_is_ieee :
  forall (e : fexpr) (f : Q), Q2R (fl_evalQ false e f) = fl_eval e (Q2R f).
Proof. exact fl_evalQ_ieee. Qed.
Print Assumptions C02_executable_evaluation_is_ieee.

Theorem C02_executable_evaluation_admissible :
  forall (c : bool) (e : fexpr) (f : Q), feval (Q2R f) e (Q2R (fl_evalQ c e f)).
Proof. exact fl_evalQ_feval. Qed.
Print Assumptions C02_executable_evaluation_admissible.

(** the constants *)
Example C02_rounding_constants :
  map Bsum [1; 2; 3; 4]%Z = [0; 9 # 8; 17 # 4; 29 # 4]%Q /\ map Bone [1; 2; 3; 4]%Z = [0; 9 # 8; 25 # 8; 25 # 4]%Q /\
  map Lsum [1; 2; 3; 4]%Z = [1; 33 # 32; 21 # 16; 21 # 16]%Q.
Proof. repeat split. Qed.
