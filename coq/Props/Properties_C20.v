(** C20 - command line beats config file beats default; legacy aliases honoured; errors stop.
    Model: Model/Options.v over the generated table/program (Gen/Gen_Options.v, regenerated from
    src/IO/ProgramOptions.cpp on every run).  Lemmas: Proofs/OptionsP.v, Proofs/OptionsThm.v. *)
From Coq Require Import List String ZArith Bool.
From Inovesa Require Import Model.OptionsTypes Model.Options Gen.Gen_Options Proofs.OptionsP Proofs.OptionsThm Proofs.OptionsAlias Proofs.OptionsAlias2.
Import ListNotations.
Local Open Scope string_scope.

(** Per-run reflection obligation: the table and parse program read from the source pass the checker
    (names unique and in std::map order; parse = store(cli); notify; [file:] store(cfg); fold aliases;
    notify; every alias is file-only, typed like and bound to the member of exactly one current
    option that has a default; no two current names share a member; ignored options are file-only
    and bound to members no current option uses). *)
Theorem generated_table_accepted : checker gen_table gen_prog = true.
Proof. vm_compute. reflexivity. Qed.
Print Assumptions generated_table_accepted.

(** C20.1: for every option table/program accepted by the checker, every token oracle, every command
    line and file system for which parse() neither fails nor stops, and every current typed option,
    the bound member holds: the command-line tokens if one of its spellings is on the command line,
    else the tokens of its current name in the loaded file, else those of its legacy name, else the
    default of the table (None = as constructed when there is none). *)
Theorem precedence :
  forall (T : list opt) (P : prog), checker T P = true ->
  forall wf cli fs dflt s, parse T wf P cli fs dflt = Run s ->
  exists items, resolve_all T cli = Some items /\
    forall o, In o T -> is_canon o = true -> typed o = true ->
      s_vars s (o_var o) = spec_value T (prog_aliases P) items (loaded T P items fs dflt) o.
Proof. intros T P CK wf cli fs dflt s H. exact (precedence_thm T wf P cli fs dflt s CK H). Qed.
Print Assumptions precedence.

(** hypotheses are satisfiable: `-V <t5> --config <t9>` with RFVoltage=<t7> in the file: the command line wins *)
Example precedence_example :
  match parse gen_table (fun _ _ => true) gen_prog
          [(Short "V", [5%Z]); (Long "config", [9%Z])]
          (fun _ => FFile [("RFVoltage", [7%Z]); ("steps", [8%Z])]) FNoFile with
  | Run s => (s_vars s "V_RF", s_vars s "steps_per_Ts")
  | _ => (None, None)
  end = (Some [5%Z], Some [8%Z]).
Proof. vm_compute. reflexivity. Qed.

(** C20.3 on the pinned tree (parse program before the fix: commit) the statement of [precedence] is
    false: `-V <t5> --config f` with RFVoltage=<t7> in f leaves the file's token in V_RF, although the
    specification (and the command line) say <t5>. *)
Theorem precedence_refuted_alias :
  exists cli fs,
    match parse gen_table (fun _ _ => true) pinned_prog cli fs FNoFile with
    | Run s =>
      s_vars s "V_RF" = Some [7%Z] /\
      exists items o, resolve_all gen_table cli = Some items /\ find_opt gen_table "AcceleratingVoltage" = Some o /\
        o_var o = "V_RF" /\ is_canon o = true /\
        spec_value gen_table pinned_aliases items (loaded gen_table pinned_prog items fs FNoFile) o = Some [5%Z]
    | _ => False
    end.
Proof.
  exists [(Short "V", [5%Z]); (Long "config", [9%Z])], (fun _ => FFile [("RFVoltage", [7%Z])]).
  vm_compute. split; [reflexivity|].
  eexists. eexists. split; [reflexivity|]. split; [reflexivity|]. vm_compute. repeat split; reflexivity.
Qed.
Print Assumptions precedence_refuted_alias.

(** C20.2 legacy names (partial: pointwise form).  If the legacy name [a] of a current option is in
    the loaded file and neither the command line nor the file names the option by its current name,
    the member holds exactly the tokens written under [a] - the tokens the same lines would give
    under the current name ([collect_file_raw]: file tokens are taken as they stand).  The designed
    form "file with legacy names == same file with current names" as an equation between two parses
    is not proved as such. *)
Theorem alias_equivalence_partial :
  forall (T : list opt) (P : prog), checker T P = true ->
  forall wf cli fs dflt s, parse T wf P cli fs dflt = Run s ->
  exists items, resolve_all T cli = Some items /\
    forall o a, In o T -> is_canon o = true -> typed o = true ->
      alias_of (prog_aliases P) (o_name o) = Some a ->
      occurs (o_name o) items = false -> occurs (o_name o) (loaded T P items fs dflt) = false ->
      occurs a (loaded T P items fs dflt) = true ->
      s_vars s (o_var o) = Some (collect T false a (loaded T P items fs dflt)).
Proof.
  intros T P CK wf cli fs dflt s H. destruct (precedence_thm T wf P cli fs dflt s CK H) as (items & RA & PV).
  exists items. split; [assumption|]. intros o a Io Co To AO O1 O2 O3.
  rewrite (PV o Io Co To). unfold spec_value. now rewrite O1, O2, AO, O3.
Qed.
Print Assumptions alias_equivalence_partial.

(** C20.2 ignored options are inert: removing every line of an ignored option from the loaded file
    does not change what the specification - hence, by [precedence], the program - assigns to any
    current option. *)
Theorem ignored_options_inert :
  forall (T : list opt) (P : prog), checker T P = true ->
  forall items ci o, In o T -> is_canon o = true ->
    spec_value T (prog_aliases P) items (drop_ignored T ci) o = spec_value T (prog_aliases P) items ci o.
Proof. intros T P CK items ci o Io Co. exact (ignored_inert_thm T P items ci o CK Io Co). Qed.
Print Assumptions ignored_options_inert.

(** C20.2 an unknown option or a malformed value stops the program (parse() throws; main turns the
    exception into EXIT_FAILURE before anything is simulated - program-level check):
    unknown or ambiguous command-line name; malformed token or repeated scalar on the command line;
    in the file that is read: unknown name, or malformed token / repeated scalar of an option that the
    command line does not override. *)
Theorem unknown_or_malformed_fails :
  forall (T : list opt) (P : prog), checker T P = true ->
  forall wf cli fs dflt,
  (forall c t, In (c, t) cli -> resolve T c = None -> parse T wf P cli fs dflt = Fail)
  /\ (forall items n toks o t, resolve_all T cli = Some items -> In (n, toks) items -> find_opt T n = Some o ->
        typed o = true -> In t toks -> wf (o_ty o) t = false -> parse T wf P cli fs dflt = Fail)
  /\ (forall (i1 i2 i3 : list item) (n : string) (t1 t2 : list tok) (o : opt), resolve_all T cli = Some (i1 ++ (n, t1) :: i2 ++ (n, t2) :: i3)%list ->
        find_opt T n = Some o -> o_ty o <> TVecFloat -> parse T wf P cli fs dflt = Fail)
  /\ (forall (items ci : list item) (b : bool), resolve_all T cli = Some items -> source T P items fs dflt = (FFile ci, b) ->
        (exists it, In it ci /\ known_file T it = false)
        \/ (exists n toks o t, In (n, toks) ci /\ occurs n items = false /\ find_opt T n = Some o /\ typed o = true
                              /\ In t toks /\ wf (o_ty o) t = false)
        \/ (exists (i1 i2 i3 : list item) (n : string) (t1 t2 : list tok) (o : opt), ci = (i1 ++ (n, t1) :: i2 ++ (n, t2) :: i3)%list /\ occurs n items = false
                                      /\ find_opt T n = Some o /\ o_ty o <> TVecFloat) ->
        forall s, parse T wf P cli fs dflt <> Run s).
Proof.
  intros T P CK wf cli fs dflt. repeat split.
  - intros c t HI R. exact (unknown_cli_fails T wf P cli fs dflt c t CK HI R).
  - intros items n toks o t RA HI Fo To Ht Hw. exact (malformed_cli_fails T wf P cli fs dflt items n toks o t CK RA HI Fo To Ht Hw).
  - intros i1 i2 i3 n t1 t2 o RA Fo Ty. exact (repeated_cli_fails T wf P cli fs dflt i1 i2 i3 n t1 t2 o CK RA Fo Ty).
  - intros items ci b RA SRC BAD. exact (bad_config_never_runs T wf P cli fs dflt items ci b CK RA SRC BAD).
Qed.
Print Assumptions unknown_or_malformed_fails.

Example malformed_example :
  parse gen_table (fun ty t => negb (Z.eqb t 66)) gen_prog [(Long "GridSize", [66%Z])] (fun _ => FNoFile) FNoFile = Fail
  /\ parse gen_table (fun _ _ => true) gen_prog [(Long "Gridsize", [3%Z])] (fun _ => FNoFile) FNoFile = Fail
  /\ parse gen_table (fun _ _ => true) gen_prog [(Long "RFVoltage", [3%Z])] (fun _ => FNoFile) FNoFile = Fail
  /\ parse gen_table (fun _ _ => true) gen_prog [(Short "s", [3%Z]); (Long "GridSize", [3%Z])] (fun _ => FNoFile) FNoFile = Fail
  /\ parse gen_table (fun _ _ => true) gen_prog [(Short "c", [9%Z])] (fun _ => FFile [("config", [3%Z])]) FNoFile = Fail.
Proof. vm_compute. repeat split; reflexivity. Qed.

(** C20.2 a config file that is named on the command line and does not exist stops the program
    (parse() returns false: message, main returns before anything is simulated); the built-in name
    default.cfg may be absent. *)
Theorem missing_config_stops :
  forall (T : list opt) (P : prog), checker T P = true ->
  forall wf cli fs dflt items t, resolve_all T cli = Some items -> cfg_given T P items = Some [t] -> fs t = FNoFile ->
    parse T wf P cli fs dflt = Stop \/ parse T wf P cli fs dflt = Fail.
Proof. intros T P CK wf cli fs dflt items t RA CG FS. exact (missing_config_thm T wf P cli fs dflt items t CK RA CG FS). Qed.
Print Assumptions missing_config_stops.

Example missing_config_example :
  parse gen_table (fun _ _ => true) gen_prog [(Long "config", [9%Z])] (fun _ => FNoFile) FNoFile = Stop
  /\ (exists s, parse gen_table (fun _ _ => true) gen_prog [] (fun _ => FNoFile) FNoFile = Run s).
Proof. split; [vm_compute; reflexivity | eexists; vm_compute; reflexivity]. Qed.

(* ============================================================================================ *)
(** * Second wave *)

(** C20.2 legacy names, the designed two-parse form.  [rename_items al ci] is the file [ci] with every
    legacy name replaced by its current name.  For every table/program accepted by the checker: if the
    invocation with the original files ([fs], [dflt] = ./default.cfg) and the same command line with the
    renamed files both run, every member bound to a current option holds the same tokens - provided the
    loaded file does not give an option under both its legacy and its current name (the statement is
    about a file that uses the legacy name instead of the current one: with both, the current name wins
    in the original and the renamed file repeats a scalar, [alias_equivalence_both_names]).
    Proved from the pointwise form ([precedence] on both sides). *)
Theorem C20_alias_equivalence :
  forall (T : list opt) (P : prog), checker T P = true ->
  forall wf cli fs fs' dflt dflt' s s',
  (forall t, fs' t = rename_fsent (prog_aliases P) (fs t)) -> dflt' = rename_fsent (prog_aliases P) dflt ->
  parse T wf P cli fs dflt = Run s -> parse T wf P cli fs' dflt' = Run s' ->
  (forall items a c, resolve_all T cli = Some items -> In (a, c) (prog_aliases P) ->
     occurs a (loaded T P items fs dflt) = true -> occurs c (loaded T P items fs dflt) = false) ->
  forall o, In o T -> is_canon o = true -> typed o = true ->
    s_vars s' (o_var o) = s_vars s (o_var o).
Proof.
  intros T P CK wf cli fs fs' dflt dflt' s s' Hfs Hd H H' NB.
  exact (alias_equiv_thm T wf P cli fs fs' dflt dflt' s s' CK Hfs Hd H H' NB).
Qed.
Print Assumptions C20_alias_equivalence.

(** hypotheses satisfiable: `-N <t4> --config f`, f = { RFVoltage=<t7>; steps=<t8>; SyncFreq=<t9> } against the
    renamed file: same members; the renamed file has the current names *)
Example alias_equivalence_example :
  let f := [("RFVoltage", [7%Z]); ("steps", [8%Z]); ("SyncFreq", [9%Z]); ("GridSize", [3%Z])] in
  let cli := [(Short "N", [4%Z]); (Long "config", [5%Z])] in
  rename_items (prog_aliases gen_prog) f
  = [("AcceleratingVoltage", [7%Z]); ("StepsPerTs", [8%Z]); ("SynchrotronFrequency", [9%Z]); ("GridSize", [3%Z])]
  /\ match parse gen_table (fun _ _ => true) gen_prog cli (fun _ => FFile f) FNoFile,
           parse gen_table (fun _ _ => true) gen_prog cli (fun _ => FFile (rename_items (prog_aliases gen_prog) f)) FNoFile with
     | Run s, Run s' => (s_vars s "V_RF", s_vars s "steps_per_Ts", s_vars s "f_s")
                        = (Some [7%Z], Some [4%Z], Some [9%Z])
                        /\ (s_vars s' "V_RF", s_vars s' "steps_per_Ts", s_vars s' "f_s") = (s_vars s "V_RF", s_vars s "steps_per_Ts", s_vars s "f_s")
     | _, _ => False
     end.
Proof. vm_compute. repeat split; reflexivity. Qed.

(** the side condition is needed: with both names in one file the original runs (current name wins) and
    the renamed file is refused (scalar given twice) *)
Example alias_equivalence_both_names :
  let f := [("RFVoltage", [7%Z]); ("AcceleratingVoltage", [6%Z])] in
  let cli := [(Long "config", [5%Z])] in
  match parse gen_table (fun _ _ => true) gen_prog cli (fun _ => FFile f) FNoFile with
  | Run s => s_vars s "V_RF" = Some [6%Z] | _ => False end
  /\ parse gen_table (fun _ _ => true) gen_prog cli (fun _ => FFile (rename_items (prog_aliases gen_prog) f)) FNoFile = Fail.
Proof. vm_compute. split; reflexivity. Qed.

(** C20.2 a bare word on the command line (no positional options are declared) stops the program: for
    every table/program accepted by the checker - which demands that the command line is parsed with an
    (empty) positional description, [p_nopos] - an invocation that contains one fails. *)
Theorem stray_positional_fails :
  forall (T : list opt) (P : prog), checker T P = true ->
  forall wf cli fs dflt t, In (Bare, t) cli -> parse T wf P cli fs dflt = Fail.
Proof. intros T P CK wf cli fs dflt t HI. exact (unknown_cli_fails T wf P cli fs dflt Bare t CK HI eq_refl). Qed.
Print Assumptions stray_positional_fails.

Example stray_positional_example :
  parse gen_table (fun _ _ => true) gen_prog [(Long "GridSize", [3%Z]); (Bare, [7%Z]); (Bare, [8%Z])] (fun _ => FNoFile) FNoFile = Fail.
Proof. vm_compute. reflexivity. Qed.

(** on the pinned tree (parse_command_line without a positional description) the bare words were dropped:
    `inovesa --GridSize <t3> T 10` ran with the default number of rotations - fixed in the repo *)
Theorem stray_positional_refuted :
  exists cli t, In (Bare, t) cli /\
    match parse gen_table (fun _ _ => true) pinned_prog cli (fun _ => FNoFile) FNoFile with
    | Run s => s_vars s "meshsize" = Some [3%Z] /\ s_vars s "rotations" = Some [default_of gen_table "rotations"]
    | _ => False
    end.
Proof.
  exists [(Long "GridSize", [3%Z]); (Bare, [7%Z]); (Bare, [8%Z])], [7%Z]. split; [cbn; auto|].
  vm_compute. split; reflexivity.
Qed.
Print Assumptions stray_positional_refuted.

(** a negative token for an unsigned option: after the fix the implementation refuses it like any other
    malformed value, so the token oracle of the harness says "not a value of the type" and
    [unknown_or_malformed_fails] applies - on the command line, and in the file unless the command line
    gives the option (a file entry that is overridden is not looked at; parse() mirrors that).  With an
    oracle that refuses token 5 for uint32_t: *)
Example negative_for_unsigned_example :
  let wfu := fun ty t => negb (match ty with TU32 => Z.eqb t 5 | _ => false end) in
  parse gen_table wfu gen_prog [(Short "s", [5%Z])] (fun _ => FNoFile) FNoFile = Fail
  /\ parse gen_table wfu gen_prog [(Long "config", [9%Z])] (fun _ => FFile [("outstep", [5%Z])]) FNoFile = Fail
  /\ parse gen_table wfu gen_prog [(Long "config", [9%Z])] (fun _ => FFile [("steps", [5%Z])]) FNoFile = Fail
  /\ (exists s, parse gen_table wfu gen_prog [(Short "s", [3%Z]); (Long "config", [9%Z])] (fun _ => FFile [("GridSize", [5%Z])]) FNoFile = Run s)
  /\ (exists s, parse gen_table wfu gen_prog [(Long "RenormalizeCharge", [5%Z])] (fun _ => FNoFile) FNoFile = Run s).
Proof. vm_compute. repeat split; try reflexivity; eexists; reflexivity. Qed.

(* ============================================================================================ *)
(** * Third wave (family opts2): the two-parse equation without assuming that the second parse runs *)

(** C20.2 legacy names, as an equation between two parses.  [fs'], [dflt'] are the files [fs], [dflt] (= ./default.cfg)
    with every legacy name replaced by its current name ([rename_fsent]).  For every table/program accepted by the
    checker, every token oracle and every command line, provided the loaded file gives no option under both its
    legacy and its current name ([no_double]):
    (1) if the original invocation runs, the renamed one runs, and the two final states have the same variables map
        and the same value in EVERY bound member (not only those of current options);
    (2) one stops (information switch, named file missing) iff the other does;
    (3) the renamed invocation fails only if the original fails;
    (4) the two outcomes are equal ([same_outcome]: same status, and when they run same variables map and members;
        only the record of which names the file gave differs - nothing reads it afterwards) when moreover the
        loaded file gives under its legacy name no option that the command line gives ([no_shadowed]).
    Without [no_shadowed] the converse of (1) is false ([alias_equivalence_status_refuted]): the legacy line is
    converted although the command line overrides it, the same line under the current name is skipped unread.
    Without [no_double]: [alias_equivalence_both_names] above, [both_names_current_wins] below. *)
Theorem alias_equivalence :
  forall (T : list opt) (P : prog), checker T P = true ->
  forall wf cli fs fs' dflt dflt',
  (forall t, fs' t = rename_fsent (prog_aliases P) (fs t)) -> dflt' = rename_fsent (prog_aliases P) dflt ->
  (forall items, resolve_all T cli = Some items -> no_double (prog_aliases P) (loaded T P items fs dflt)) ->
  (forall s, parse T wf P cli fs dflt = Run s ->
     exists s', parse T wf P cli fs' dflt' = Run s'
                /\ (forall n, s_vm s' n = s_vm s n) /\ (forall x, s_vars s' x = s_vars s x))
  /\ (parse T wf P cli fs dflt = Stop <-> parse T wf P cli fs' dflt' = Stop)
  /\ (parse T wf P cli fs' dflt' = Fail -> parse T wf P cli fs dflt = Fail)
  /\ ((forall items, resolve_all T cli = Some items ->
                     no_shadowed (prog_aliases P) items (loaded T P items fs dflt)) ->
      same_outcome (parse T wf P cli fs dflt) (parse T wf P cli fs' dflt')).
Proof. intros T P CK. exact (alias_equivalence_thm T P CK). Qed.
Print Assumptions alias_equivalence.

(** hypotheses satisfiable, conclusion not vacuous: `-N <t4> --config f` with legacy names, a malformed-free file:
    both side conditions hold, both runs agree on every member of the table; with an information switch both stop;
    with an unknown name in the file both fail *)
Example alias_equivalence_example2 :
  let f := [("RFVoltage", [7%Z]); ("steps", [8%Z]); ("SyncFreq", [9%Z]); ("GridSize", [3%Z])] in
  let cli := [(Short "N", [4%Z]); (Long "config", [5%Z])] in
  let al := prog_aliases gen_prog in
  no_double al f /\ no_shadowed al [("StepsPerTs", [4%Z]); ("config", [5%Z])] [("RFVoltage", [7%Z]); ("SyncFreq", [9%Z])]
  /\ match parse gen_table (fun _ _ => true) gen_prog cli (fun _ => FFile f) FNoFile,
           parse gen_table (fun _ _ => true) gen_prog cli (fun _ => FFile (rename_items al f)) FNoFile with
     | Run s, Run s' => forallb (fun o => match s_vars s (o_var o), s_vars s' (o_var o) with
                                          | Some a, Some b => if list_eq_dec Z.eq_dec a b then true else false
                                          | None, None => true | _, _ => false end) gen_table = true
                        /\ s_vars s' "V_RF" = Some [7%Z] /\ s_vars s' "steps_per_Ts" = Some [4%Z]
     | _, _ => False
     end
  /\ parse gen_table (fun _ _ => true) gen_prog ((Long "version", []) :: cli) (fun _ => FFile f) FNoFile = Stop
  /\ parse gen_table (fun _ _ => true) gen_prog cli (fun _ => FFile (("NoSuchName", [1%Z]) :: f)) FNoFile = Fail
  /\ parse gen_table (fun _ _ => true) gen_prog cli (fun _ => FFile (rename_items al (("NoSuchName", [1%Z]) :: f))) FNoFile = Fail.
Proof.
  cbv zeta. split; [|split].
  - intros a c I. vm_compute in I. destruct I as [E|[E|[E|[]]]]; injection E as <- <-; vm_compute; congruence.
  - intros a c I. vm_compute in I. destruct I as [E|[E|[E|[]]]]; injection E as <- <-; vm_compute; congruence.
  - vm_compute. repeat split; reflexivity.
Qed.

(** (4) needs [no_shadowed], and the converse of (1) is false without it: `-V <t5> --config f`, f = { RFVoltage=<t66> },
    <t66> not a number.  The file gives the option under one name only; the original invocation FAILS (the legacy line
    is converted: the legacy name is not final), the renamed one RUNS with <t5> (the line under the current name is
    skipped unread: the command line has made the option final).  The implementation agrees (boundary case `alias-
    shadowed-malformed` of the correspondence).  The stricter behaviour is the legacy name's; the value is unused
    either way. *)
Theorem alias_equivalence_status_refuted :
  exists wf cli f,
    no_double (prog_aliases gen_prog) f
    /\ parse gen_table wf gen_prog cli (fun _ => FFile f) FNoFile = Fail
    /\ match parse gen_table wf gen_prog cli (fun _ => FFile (rename_items (prog_aliases gen_prog) f)) FNoFile with
       | Run s' => s_vars s' "V_RF" = Some [5%Z]
       | _ => False
       end.
Proof.
  exists (fun _ t => negb (Z.eqb t 66)), [(Short "V", [5%Z]); (Long "config", [9%Z])], [("RFVoltage", [66%Z])].
  split; [|split].
  - intros a c I. vm_compute in I. destruct I as [E|[E|[E|[]]]]; injection E as <- <-; vm_compute; congruence.
  - vm_compute. reflexivity.
  - vm_compute. reflexivity.
Qed.
Print Assumptions alias_equivalence_status_refuted.

(** Both names of one option in the loaded file (which [no_double] excludes), the option not on the command line:
    for every accepted table/program the line(s) under the CURRENT name give the member its value; the legacy line
    is converted all the same - each of its tokens is well formed for the option's type, else parse() would have
    failed - and is then dropped without a message.  (The statement of C20 does not say which of the two should win;
    the renamed file repeats a scalar and is refused: [alias_equivalence_both_names].) *)
Theorem both_names_current_wins :
  forall (T : list opt) (P : prog), checker T P = true ->
  forall wf cli fs dflt s, parse T wf P cli fs dflt = Run s ->
  exists items, resolve_all T cli = Some items /\
    forall o a, In o T -> is_canon o = true -> typed o = true ->
      alias_of (prog_aliases P) (o_name o) = Some a ->
      occurs (o_name o) items = false ->
      occurs (o_name o) (loaded T P items fs dflt) = true -> occurs a (loaded T P items fs dflt) = true ->
      s_vars s (o_var o) = Some (collect T false (o_name o) (loaded T P items fs dflt))
      /\ forall toks t, In (a, toks) (loaded T P items fs dflt) -> In t toks -> wf (o_ty o) t = true.
Proof. intros T P CK. exact (both_names_thm T P CK). Qed.
Print Assumptions both_names_current_wins.

Example both_names_example :
  let wf := fun (_ : cty) t => negb (Z.eqb t 66) in
  match parse gen_table wf gen_prog [(Long "config", [5%Z])]
          (fun _ => FFile [("RFVoltage", [7%Z]); ("AcceleratingVoltage", [6%Z])]) FNoFile with
  | Run s => s_vars s "V_RF" = Some [6%Z] | _ => False end
  /\ parse gen_table wf gen_prog [(Long "config", [5%Z])]
        (fun _ => FFile [("RFVoltage", [66%Z]); ("AcceleratingVoltage", [6%Z])]) FNoFile = Fail.
Proof. vm_compute. split; reflexivity. Qed.

(** The theorem is about every accepted table: a legacy name of a VECTOR option (the tree has none) is covered.
    A three-option table with a vector option "Cur" and its legacy name "I" passes the checker; three lines
    under the legacy name collect like three lines under the current name. *)
Definition vec_table : list opt :=
  [mkOpt "Cur" None "I_b" TVecFloat true true (Some (-1)%Z) (Some (-1)%Z) false KCanon;
   mkOpt "I" None "I_b" TVecFloat false true None None false (KAlias "Cur");
   mkOpt "config" (Some "c") "_configfile" TString true false None None false KCanon].
Definition vec_prog : prog :=
  mkProg [StoreCli; Notify] [] "config" [StoreCfg; FoldAliases [("I", "Cur")]; Notify] true.
Example alias_equivalence_vector :
  checker vec_table vec_prog = true
  /\ let f := [("I", [1%Z]); ("I", [2%Z]); ("I", [3%Z])] in
     match parse vec_table (fun _ _ => true) vec_prog [(Long "config", [5%Z])] (fun _ => FFile f) FNoFile,
           parse vec_table (fun _ _ => true) vec_prog [(Long "config", [5%Z])]
             (fun _ => FFile (rename_items (prog_aliases vec_prog) f)) FNoFile with
     | Run s, Run s' => s_vars s "I_b" = Some [1%Z; 2%Z; 3%Z] /\ s_vars s' "I_b" = s_vars s "I_b"
     | _, _ => False
     end.
Proof. vm_compute. repeat split; reflexivity. Qed.
