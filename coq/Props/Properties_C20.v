(** C20 - command line beats config file beats default; legacy aliases honoured; errors stop.
    Model: Model/Options.v over the generated table/program (Gen/Gen_Options.v, regenerated from
    src/IO/ProgramOptions.cpp on every run).  Lemmas: Proofs/OptionsP.v, Proofs/OptionsThm.v. *)
From Coq Require Import List String ZArith Bool.
From Inovesa Require Import Model.OptionsTypes Model.Options Gen.Gen_Options Proofs.OptionsP Proofs.OptionsThm.
Import ListNotations.
Local Open Scope string_scope.

(** Per-run reflection obligation: the table and parse program read from the source pass the checker
    (names unique and in std::map order; parse = store(cli); notify; [file:] store(cfg); fold aliases;
    notify; every alias is file-only, typed like and bound to the member of exactly one current
    option that has a default; no two current names share a member; ignored options are file-only
    and bound to members no current option uses). *)
Theorem generated_table_accepted : checker gen_table gen_prog = true.
Proof. vm_compute. reflexivity. Qed.
Print Assumptions generated_table_accepted.

(** C20.1: for every option table/program accepted by the checker, every token oracle, every command
    line and file system for which parse() neither fails nor stops, and every current typed option,
    the bound member holds: the command-line tokens if one of its spellings is on the command line,
    else the tokens of its current name in the loaded file, else those of its legacy name, else the
    default of the table (None = as constructed when there is none). *)
Theorem precedence :
  forall (T : list opt) (P : prog), checker T P = true ->
  forall wf cli fs dflt s, parse T wf P cli fs dflt = Run s ->
  exists items, resolve_all T cli = Some items /\
    forall o, In o T -> is_canon o = true -> typed o = true ->
      s_vars s (o_var o) = spec_value T (prog_aliases P) items (loaded T P items fs dflt) o.
Proof. intros T P CK wf cli fs dflt s H. exact (precedence_thm T wf P cli fs dflt s CK H). Qed.
Print Assumptions precedence.

(** hypotheses are satisfiable: `-V <t5> --config <t9>` with RFVoltage=<t7> in the file: the command line wins *)
Example precedence_example :
  match parse gen_table (fun _ _ => true) gen_prog
          [(Short "V", [5%Z]); (Long "config", [9%Z])]
          (fun _ => FFile [("RFVoltage", [7%Z]); ("steps", [8%Z])]) FNoFile with
  | Run s => (s_vars s "V_RF", s_vars s "steps_per_Ts")
  | _ => (None, None)
  end = (Some [5%Z], Some [8%Z]).
Proof. vm_compute. reflexivity. Qed.

(** C20.3 on the pinned tree (parse program before the fix: commit) the statement of [precedence] is
    false: `-V <t5> --config f` with RFVoltage=<t7> in f leaves the file's token in V_RF, although the
    specification (and the command line) say <t5>. *)
Theorem precedence_refuted_alias :
  exists cli fs,
    match parse gen_table (fun _ _ => true) pinned_prog cli fs FNoFile with
    | Run s =>
      s_vars s "V_RF" = Some [7%Z] /\
      exists items o, resolve_all gen_table cli = Some items /\ find_opt gen_table "AcceleratingVoltage" = Some o /\
        o_var o = "V_RF" /\ is_canon o = true /\
        spec_value gen_table pinned_aliases items (loaded gen_table pinned_prog items fs FNoFile) o = Some [5%Z]
    | _ => False
    end.
Proof.
  exists [(Short "V", [5%Z]); (Long "config", [9%Z])], (fun _ => FFile [("RFVoltage", [7%Z])]).
  vm_compute. split; [reflexivity|].
  eexists. eexists. split; [reflexivity|]. split; [reflexivity|]. vm_compute. repeat split; reflexivity.
Qed.
Print Assumptions precedence_refuted_alias.

(** C20.2 legacy names (partial: pointwise form).  If the legacy name [a] of a current option is in
    the loaded file and neither the command line nor the file names the option by its current name,
    the member holds exactly the tokens written under [a] - the tokens the same lines would give
    under the current name ([collect_file_raw]: file tokens are taken as they stand).  The designed
    form "file with legacy names == same file with current names" as an equation between two parses
    is not proved as such. *)
Theorem alias_equivalence_partial :
  forall (T : list opt) (P : prog), checker T P = true ->
  forall wf cli fs dflt s, parse T wf P cli fs dflt = Run s ->
  exists items, resolve_all T cli = Some items /\
    forall o a, In o T -> is_canon o = true -> typed o = true ->
      alias_of (prog_aliases P) (o_name o) = Some a ->
      occurs (o_name o) items = false -> occurs (o_name o) (loaded T P items fs dflt) = false ->
      occurs a (loaded T P items fs dflt) = true ->
      s_vars s (o_var o) = Some (collect T false a (loaded T P items fs dflt)).
Proof.
  intros T P CK wf cli fs dflt s H. destruct (precedence_thm T wf P cli fs dflt s CK H) as (items & RA & PV).
  exists items. split; [assumption|]. intros o a Io Co To AO O1 O2 O3.
  rewrite (PV o Io Co To). unfold spec_value. now rewrite O1, O2, AO, O3.
Qed.
Print Assumptions alias_equivalence_partial.

(** C20.2 ignored options are inert: removing every line of an ignored option from the loaded file
    does not change what the specification - hence, by [precedence], the program - assigns to any
    current option. *)
Theorem ignored_options_inert :
  forall (T : list opt) (P : prog), checker T P = true ->
  forall items ci o, In o T -> is_canon o = true ->
    spec_value T (prog_aliases P) items (drop_ignored T ci) o = spec_value T (prog_aliases P) items ci o.
Proof. intros T P CK items ci o Io Co. exact (ignored_inert_thm T P items ci o CK Io Co). Qed.
Print Assumptions ignored_options_inert.

(** C20.2 an unknown option or a malformed value stops the program (parse() throws; main turns the
    exception into EXIT_FAILURE before anything is simulated - program-level check):
    unknown or ambiguous command-line name; malformed token or repeated scalar on the command line;
    in the file that is read: unknown name, or malformed token / repeated scalar of an option that the
    command line does not override. *)
Theorem unknown_or_malformed_fails :
  forall (T : list opt) (P : prog), checker T P = true ->
  forall wf cli fs dflt,
  (forall c t, In (c, t) cli -> resolve T c = None -> parse T wf P cli fs dflt = Fail)
  /\ (forall items n toks o t, resolve_all T cli = Some items -> In (n, toks) items -> find_opt T n = Some o ->
        typed o = true -> In t toks -> wf (o_ty o) t = false -> parse T wf P cli fs dflt = Fail)
  /\ (forall (i1 i2 i3 : list item) (n : string) (t1 t2 : list tok) (o : opt), resolve_all T cli = Some (i1 ++ (n, t1) :: i2 ++ (n, t2) :: i3)%list ->
        find_opt T n = Some o -> o_ty o <> TVecFloat -> parse T wf P cli fs dflt = Fail)
  /\ (forall (items ci : list item) (b : bool), resolve_all T cli = Some items -> source T P items fs dflt = (FFile ci, b) ->
        (exists it, In it ci /\ known_file T it = false)
        \/ (exists n toks o t, In (n, toks) ci /\ occurs n items = false /\ find_opt T n = Some o /\ typed o = true
                              /\ In t toks /\ wf (o_ty o) t = false)
        \/ (exists (i1 i2 i3 : list item) (n : string) (t1 t2 : list tok) (o : opt), ci = (i1 ++ (n, t1) :: i2 ++ (n, t2) :: i3)%list /\ occurs n items = false
                                      /\ find_opt T n = Some o /\ o_ty o <> TVecFloat) ->
        forall s, parse T wf P cli fs dflt <> Run s).
Proof.
  intros T P CK wf cli fs dflt. repeat split.
  - intros c t HI R. exact (unknown_cli_fails T wf P cli fs dflt c t HI R).
  - intros items n toks o t RA HI Fo To Ht Hw. exact (malformed_cli_fails T wf P cli fs dflt items n toks o t CK RA HI Fo To Ht Hw).
  - intros i1 i2 i3 n t1 t2 o RA Fo Ty. exact (repeated_cli_fails T wf P cli fs dflt i1 i2 i3 n t1 t2 o CK RA Fo Ty).
  - intros items ci b RA SRC BAD. exact (bad_config_never_runs T wf P cli fs dflt items ci b CK RA SRC BAD).
Qed.
Print Assumptions unknown_or_malformed_fails.

Example malformed_example :
  parse gen_table (fun ty t => negb (Z.eqb t 66)) gen_prog [(Long "GridSize", [66%Z])] (fun _ => FNoFile) FNoFile = Fail
  /\ parse gen_table (fun _ _ => true) gen_prog [(Long "Gridsize", [3%Z])] (fun _ => FNoFile) FNoFile = Fail
  /\ parse gen_table (fun _ _ => true) gen_prog [(Long "RFVoltage", [3%Z])] (fun _ => FNoFile) FNoFile = Fail
  /\ parse gen_table (fun _ _ => true) gen_prog [(Short "s", [3%Z]); (Long "GridSize", [3%Z])] (fun _ => FNoFile) FNoFile = Fail
  /\ parse gen_table (fun _ _ => true) gen_prog [(Short "c", [9%Z])] (fun _ => FFile [("config", [3%Z])]) FNoFile = Fail.
Proof. vm_compute. repeat split; reflexivity. Qed.

(** C20.2 a config file that is named on the command line and does not exist stops the program
    (parse() returns false: message, main returns before anything is simulated); the built-in name
    default.cfg may be absent. *)
Theorem missing_config_stops :
  forall (T : list opt) (P : prog), checker T P = true ->
  forall wf cli fs dflt items t, resolve_all T cli = Some items -> cfg_given T P items = Some [t] -> fs t = FNoFile ->
    parse T wf P cli fs dflt = Stop \/ parse T wf P cli fs dflt = Fail.
Proof. intros T P CK wf cli fs dflt items t RA CG FS. exact (missing_config_thm T wf P cli fs dflt items t CK RA CG FS). Qed.
Print Assumptions missing_config_stops.

Example missing_config_example :
  parse gen_table (fun _ _ => true) gen_prog [(Long "config", [9%Z])] (fun _ => FNoFile) FNoFile = Stop
  /\ (exists s, parse gen_table (fun _ _ => true) gen_prog [] (fun _ => FNoFile) FNoFile = Run s).
Proof. split; [vm_compute; reflexivity | eexists; vm_compute; reflexivity]. Qed.
