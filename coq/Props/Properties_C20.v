(** C20 - command line beats config file beats default; legacy aliases honoured; errors stop.
    Model: Model/Options.v over the generated table/program (Gen/Gen_Options.v, regenerated from
    src/IO/ProgramOptions.cpp on every run).  Lemmas: Proofs/OptionsP.v, Proofs/OptionsThm.v. *)
From Coq Require Import List String ZArith Bool.
From Inovesa Require Import Model.OptionsTypes Model.Options Gen.Gen_Options Proofs.OptionsP Proofs.OptionsThm.
Import ListNotations.
Local Open Scope string_scope.

(** Per-run reflection obligation: the table and parse program read from the source pass the checker
    (names unique and in std::map order; parse = store(cli); notify; [file:] store(cfg); fold aliases;
    notify; every alias is file-only, typed like and bound to the member of exactly one current
    option that has a default; no two current names share a member; ignored options are file-only
    and bound to members no current option uses). *)
Theorem generated_table_accepted : checker gen_table gen_prog = true.
Proof. vm_compute. reflexivity. Qed.
Print Assumptions generated_table_accepted.

(** C20.1: for every option table/program accepted by the checker, every token oracle, every command
    line and file system for which parse() neither fails nor stops, and every current typed option,
    the bound member holds: the command-line tokens if one of its spellings is on the command line,
    else the tokens of its current name in the loaded file, else those of its legacy name, else the
    default of the table (None = as constructed when there is none). *)
Theorem precedence :
  forall (T : list opt) (P : prog), checker T P = true ->
  forall wf cli fs dflt s, parse T wf P cli fs dflt = Run s ->
  exists items, resolve_all T cli = Some items /\
    forall o, In o T -> is_canon o = true -> typed o = true ->
      s_vars s (o_var o) = spec_value T (prog_aliases P) items (loaded T P items fs dflt) o.
Proof. intros T P CK wf cli fs dflt s H. exact (precedence_thm T wf P cli fs dflt s CK H). Qed.
Print Assumptions precedence.

(** hypotheses are satisfiable: `-V <t5> --config <t9>` with RFVoltage=<t7> in the file: the command line wins *)
Example precedence_example :
  match parse gen_table (fun _ _ => true) gen_prog
          [(Short "V", [5%Z]); (Long "config", [9%Z])]
          (fun _ => FFile [("RFVoltage", [7%Z]); ("steps", [8%Z])]) FNoFile with
  | Run s => (s_vars s "V_RF", s_vars s "steps_per_Ts")
  | _ => (None, None)
  end = (Some [5%Z], Some [8%Z]).
Proof. vm_compute. reflexivity. Qed.
