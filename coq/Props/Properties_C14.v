(** C14 - Ctrl+C at any moment leaves a complete, consistent results file.
    Only statements closed by [exact]; proofs in Proofs/DriverP.v (Part B), per-run checker
    obligations in Proofs/DriverMainP.v; DESIGN.md 5/C14.

    The environment may set the flag at every hook point ([Point], the VERIF_POINT sites between all
    statements of the translated part of main()): [sig i = true] means SIGINT is delivered at the i-th
    executed point.  [sig] is arbitrary - any set of points, any number of repetitions.  Signals
    during the set-up are the start state's [abort s0 = true].  [clr] clears the flag;
    [heads sig cf p s0 j] is the state at the j-th evaluation of the loop condition;
    [steps_done sig cf p s0] the number of loop iterations the run executes. *)
From Coq Require Import List ZArith Bool.
From Inovesa Require Import Model.Driver Gen.Gen_MainLoop Proofs.DriverP Proofs.DriverMainP.
Import ListNotations.
Local Open Scope Z_scope.

(** C14.1 in the generated program the flag is read by the loop condition (the program shape the
    translator insists on) and by one closing `if (abort) "Aborted." else "Finished."` followed only
    by hook points and return; no other guard reads it and no call's semantics does ([exec] never
    reads [abort] except to or a signal into it).  Also: the step counter is incremented exactly once
    per iteration, at top level, after the last append; never in the prologue or the final block. *)
Theorem C14_abort_read_only_at_loop_head :
  abort_checker main_prog = true /\ step_checker main_prog = true.
Proof. exact (conj main_abort_checked main_step_checked). Qed.
Print Assumptions C14_abort_read_only_at_loop_head.

(** C14.2 for every signal schedule and every start state: with m the number of executed steps,
    m <= laststep; the loop condition held at heads 0..m-1 and (if m < laststep) failed at head m;
    up to the closing message the state is, except for the flag itself, the state of an undisturbed
    execution of exactly m steps followed by the final block - in particular the file and the step
    counter; exit status is success; the last message is "Aborted." iff the flag is set when the
    closing conditional reads it. *)
Theorem C14_interrupted_run_shape :
  forall (K : kern) (sig : Z -> bool) (cf : cfg) (s0 : st K),
    let m := steps_done K sig cf main_prog s0 in
    exists a t e z,
      split_closing (p_post main_prog) = Some (a, t, e, z) /\
      (m <= Z.to_nat (laststep cf))%nat /\
      (forall j, (j < m)%nat -> cont cf (heads K sig cf main_prog s0 j) = true) /\
      ((m < Z.to_nat (laststep cf))%nat -> cont cf (heads K sig cf main_prog s0 m) = false) /\
      clr K (exec_blk sig cf a (heads K sig cf main_prog s0 m)) =
        clr K (exec_blk nosig cf a (heads K nosig cf main_prog (clr K s0) m)) /\
      file (run sig cf main_prog s0) = file (exec_blk nosig cf a (heads K nosig cf main_prog (clr K s0) m)) /\
      k (run sig cf main_prog s0) = k (exec_blk nosig cf a (heads K nosig cf main_prog (clr K s0) m)) /\
      status (run sig cf main_prog s0) = Some 0 /\
      log (run sig cf main_prog s0) =
        log (exec_blk sig cf a (heads K sig cf main_prog s0 m)) ++
        [if abort (exec_blk sig cf a (heads K sig cf main_prog s0 m)) then MAborted else MFinished].
Proof. exact (fun K => interrupted_run_shape K main_prog main_abort_checked). Qed.
Print Assumptions C14_interrupted_run_shape.

(** which step is the last: the flag at a loop head is set iff it was set at the start or one of the
    hook points executed so far was signalled (repeated signals change nothing) ... *)
Theorem C14_abort_at_head :
  forall (K : kern) (sig : Z -> bool) (cf : cfg) (s0 : st K) (j : nat),
    abort (heads K sig cf main_prog s0 j) = true <->
    abort s0 = true \/ sig_between sig (pc s0) (pc (heads K sig cf main_prog s0 j)).
Proof. exact (fun K => abort_at_head K main_prog). Qed.
Print Assumptions C14_abort_at_head.

(** ... the hook points executed up to a loop head are those of the undisturbed run ... *)
Theorem C14_points_independent_of_signals :
  forall (K : kern) (sig : Z -> bool) (cf : cfg) (s0 : st K) (j : nat),
    pc (heads K sig cf main_prog s0 j) = pc (heads K nosig cf main_prog (clr K s0) j).
Proof. exact (fun K sig cf s0 j => heads_pc_independent K main_prog sig cf s0 j main_abort_checked). Qed.
Print Assumptions C14_points_independent_of_signals.

(** ... and the loop goes on exactly while fewer than laststep steps are done and the flag is clear;
    it is left because its condition fails (termination) *)
Theorem C14_loop_condition :
  forall (K : kern) (sig : Z -> bool) (cf : cfg) (s0 : st K) (j : nat), k s0 = 0 ->
    cont cf (heads K sig cf main_prog s0 j) = (Z.of_nat j <? laststep cf) && negb (abort (heads K sig cf main_prog s0 j)).
Proof. exact (fun K sig cf s0 j => cont_at_head K main_prog sig cf s0 j main_step_checked). Qed.
Print Assumptions C14_loop_condition.

Theorem C14_terminates :
  forall (K : kern) (sig : Z -> bool) (cf : cfg) (s0 : st K), k s0 = 0 ->
    cont cf (loop sig cf (p_body main_prog) (Z.to_nat (laststep cf)) (exec_blk sig cf (p_pre main_prog) s0)) = false.
Proof. exact (fun K sig cf s0 => loop_exits K main_prog sig cf s0 main_step_checked). Qed.
Print Assumptions C14_terminates.

(** C14.3 the file after m undisturbed steps is a prefix of the file after m+d steps, everything
    after it carries a step number >= m; what the m steps appended after the prologue carries step
    numbers < m; the final block appends records carrying the step number m.  With C14.2: the
    interrupted file = (records of the uninterrupted run with step < m) ++ (one final record for m). *)
Theorem C14_prefix_records_identical :
  forall (K : kern) (cf : cfg) (s0 : st K) (m d : nat),
    (exists rest,
       file (heads K nosig cf main_prog s0 (m + d)) = file (heads K nosig cf main_prog s0 m) ++ rest /\
       Forall (fun r => k s0 + Z.of_nat m <= rstep r) rest) /\
    (exists recs,
       file (heads K nosig cf main_prog s0 m) = file (exec_blk nosig cf (p_pre main_prog) s0) ++ recs /\
       Forall (fun r => k s0 <= rstep r < k s0 + Z.of_nat m) recs) /\
    (forall a t e z, split_closing (p_post main_prog) = Some (a, t, e, z) ->
       file (exec_blk nosig cf a (heads K nosig cf main_prog s0 m)) =
         file (heads K nosig cf main_prog s0 m) ++ emit nosig cf a (heads K nosig cf main_prog s0 m) /\
       Forall (fun r => rstep r = k s0 + Z.of_nat m) (emit nosig cf a (heads K nosig cf main_prog s0 m))).
Proof.
  exact (fun K cf s0 m d =>
    conj (heads_file_prefix K nosig cf main_prog s0 m main_step_checked d)
   (conj (heads_file_lt K nosig cf main_prog s0 main_step_checked m)
         (final_records_step K main_prog main_abort_checked main_step_checked cf s0 m))).
Qed.
Print Assumptions C14_prefix_records_identical.

(** a signal that does not change the number of executed steps (in particular: one that arrives
    after the last evaluation of the loop condition) leaves the file of the uninterrupted run *)
Theorem C14_signal_after_last_step :
  forall (K : kern) (sig : Z -> bool) (cf : cfg) (s0 : st K),
    steps_done K sig cf main_prog s0 = steps_done K nosig cf main_prog (clr K s0) ->
    file (run sig cf main_prog s0) = file (run nosig cf main_prog (clr K s0)).
Proof. exact (fun K => signal_after_last_step K main_prog main_abort_checked). Qed.
Print Assumptions C14_signal_after_last_step.

(** non-vacuity, on the executable instance: 8 steps, output every 2nd, SIGINT at point 100 and at
    every later one: 3 steps are executed, the last message is "Aborted.", status 0 *)
From Inovesa Require Import Model.DriverInst.
Example C14_interrupt_example :
  let o := model_run (mkcfg 8 2 1 0 true true false) 100 true 28 in
  (o_k o, o_status o, last (o_log o) MStatus, o_abort o) = (3, Some 0, MAborted, true).
Proof. vm_compute. reflexivity. Qed.
Example C14_hypotheses_example :
  steps_done unitK (hooksig 200 false) (mkcfg 8 2 1 0 true true false) main_prog (st0 (mkcfg 8 2 1 0 true true false) 200 28)
  = steps_done unitK nosig (mkcfg 8 2 1 0 true true false) main_prog (clr unitK (st0 (mkcfg 8 2 1 0 true true false) 200 28)).
Proof. vm_compute. reflexivity. Qed.

(** * The extended program: set-up, `delete` statements

    [main_setup] (Gen_MainLoop, Model/Setup.v) is the control skeleton of main() from the statement
    after the installation of the SIGINT handler to "Starting the simulation.": every hook point,
    every `return`, every try/catch, `Display::abort = true` (HDF5 error path), the initial
    renormalisation; everything else is an opaque statement or condition of an environment [ev]
    (arbitrary effect [eff], may throw [thr], arbitrary condition value [cnd]) about which only
    [frame ev] is assumed: it leaves the flag, the point counter, the trace, the exit status, the
    file and the step counters alone - what the translator checks syntactically (no reference to
    Display::abort, no hook point, no return inside).  The translator refuses any other access to
    the flag.  The point counter starts when the handler is installed; [sig] as before.
    The `delete wake_field; delete wm; delete fpm;` statements are [Free] calls of [main_prog]. *)
From Inovesa Require Import Model.Setup Proofs.SetupP Proofs.DriverFreeP Proofs.SetupMainP.

(** the per-run obligations: no condition of the set-up reads the flag, the only driver calls in
    it are hook points and the initial renormalisation, `Display::abort = true` occurs in an
    exception handler only; every `return` of the set-up returns EXIT_SUCCESS or EXIT_FAILURE;
    nothing is freed before the final block and no call of the final block goes through an
    object after its `delete` *)
Theorem C14_setup_and_frees_shape :
  su_ok main_setup = true /\
  forallb (fun z => (z =? 0) || (z =? 1)) (returns main_setup) = true /\
  free_checker main_prog = true.
Proof. exact (conj main_setup_checked (conj main_setup_returns main_free_checked)). Qed.
Print Assumptions C14_setup_and_frees_shape.

(** whatever the opaque statements do, whichever path is taken and however the set-up is left
    (normally, by return, by an exception): a flag that is set stays set, and SIGINT at any hook
    point of the set-up sets it (seeded change C14-B: `Display::abort = (hdf_file == nullptr)`) *)
Theorem C14_setup_never_clears_flag :
  forall (K : kern) (sig : Z -> bool) (ev : senv K) (cf : cfg) (s : st K), frame ev ->
    let s' := rstate (sexec sig ev cf main_setup s) in
    pc s <= pc s' /\ (abort s = true \/ sig_between sig (pc s) (pc s') -> abort s' = true).
Proof. exact main_setup_never_clears_flag. Qed.
Print Assumptions C14_setup_never_clears_flag.

(** without an exception the flag is set after the set-up iff it was set before or a hook point
    of the set-up was signalled, and the set-up is not left by an exception *)
Theorem C14_setup_flag_only_by_signal :
  forall (K : kern) (sig : Z -> bool) (ev : senv K) (cf : cfg) (s : st K), frame ev ->
    (forall n, thr ev n = false) ->
    let s' := rstate (sexec sig ev cf main_setup s) in
    (pc s <= pc s' /\ (abort s' = true <-> abort s = true \/ sig_between sig (pc s) (pc s'))) /\
    (forall s'', sexec sig ev cf main_setup s <> Thr s'').
Proof. exact main_setup_flag_only_by_signal. Qed.
Print Assumptions C14_setup_flag_only_by_signal.

(** signals do not steer the set-up: same way of leaving it, same state up to the flag (so a hook
    index means the same point in the interrupted and in the undisturbed run); hypothesis: the
    opaque statements do not read the flag ([flagblind]: their effect commutes with setting it) *)
Theorem C14_setup_independent_of_signals :
  forall (K : kern) (sig1 sig2 : Z -> bool) (ev : senv K) (cf : cfg) (s1 s2 : st K),
    flagblind ev -> clr K s1 = clr K s2 ->
    same_kind (sexec sig1 ev cf main_setup s1) (sexec sig2 ev cf main_setup s2).
Proof. exact main_setup_independent_of_signals. Qed.
Print Assumptions C14_setup_independent_of_signals.

(** SIGINT during the set-up, set-up completed: no simulation step is executed, the prologue and
    the final block run once, the file is that of an undisturbed zero-step run from the same
    state, the exit status is success and the last message is "Aborted." *)
Theorem C14_interrupt_during_setup :
  forall (K : kern) (sig : Z -> bool) (ev : senv K) (cf : cfg) (s s1 : st K), frame ev ->
    sexec sig ev cf main_setup s = Norm s1 ->
    abort s = true \/ sig_between sig (pc s) (pc s1) ->
    steps_done K sig cf main_prog s1 = 0%nat /\
    exists a t e z,
      split_closing (p_post main_prog) = Some (a, t, e, z) /\
      full_run sig ev cf main_setup main_prog s = Finished (run sig cf main_prog s1) /\
      file (run sig cf main_prog s1) = file (exec_blk nosig cf a (exec_blk nosig cf (p_pre main_prog) (clr K s1))) /\
      k (run sig cf main_prog s1) = k (exec_blk nosig cf a (exec_blk nosig cf (p_pre main_prog) (clr K s1))) /\
      status (run sig cf main_prog s1) = Some 0 /\
      last (log (run sig cf main_prog s1)) MStatus = MAborted.
Proof. exact main_interrupt_during_setup. Qed.
Print Assumptions C14_interrupt_during_setup.

(** the other ways the set-up ends: a `return` gives exit status EXIT_SUCCESS or EXIT_FAILURE with
    nothing written; completing it leaves the status unset and the (empty) file untouched *)
Theorem C14_setup_exits :
  forall (K : kern) (sig : Z -> bool) (ev : senv K) (cf : cfg) (s s1 : st K), frame ev -> status s = None ->
    (sexec sig ev cf main_setup s = Ret s1 ->
       (status s1 = Some 0 \/ status s1 = Some 1) /\ file s1 = file s /\ k s1 = k s) /\
    (sexec sig ev cf main_setup s = Norm s1 -> status s1 = None /\ file s1 = file s /\ k s1 = k s).
Proof.
  exact (fun K sig ev cf s s1 F Hs =>
    conj (main_setup_return K sig ev cf s s1 F Hs) (main_setup_normal K sig ev cf s s1 F Hs)).
Qed.
Print Assumptions C14_setup_exits.

(** between the final block and `return`: for every configuration and signal schedule no
    statement goes through an object after its `delete` (in particular nothing is deleted twice),
    and only objects the final block deletes are ever freed *)
Theorem C14_no_use_after_free :
  forall (K : kern) (sig : Z -> bool) (cf : cfg) (s0 : st K), freed s0 = [] -> uaf s0 = false ->
    uaf (run sig cf main_prog s0) = false /\
    (forall o, In o (freed (run sig cf main_prog s0)) -> In o (frees (p_post main_prog))).
Proof. exact main_no_use_after_free. Qed.
Print Assumptions C14_no_use_after_free.

(** non-vacuity on the executable instance (set-up included; [norm_env main_setup]: the opaque
    conditions on the first path that leaves the set-up normally - default start distribution,
    Fokker-Planck term on, HDF5 output): SIGINT at the 6th hook point of the set-up: the program
    reaches the end of main (kind 0), 0 steps, "Aborted.", status 0; without a signal 8 steps and
    "Finished."; all three objects are freed *)
Example C14_setup_interrupt_example :
  let c := mkcfg 8 2 1 0 true true false in
  let '(kd, o) := model_run_full c 5 false (norm_env main_setup) [] in
  let '(kd', o') := model_run_full c (-1) false (norm_env main_setup) [] in
  (kd, o_k o, o_status o, last (o_log o) MStatus, kd', o_k o', last (o_log o') MStatus) =
  (0, 0, Some 0, MAborted, 0, 8, MFinished) /\
  (forallb (fun x => existsb (obj_eqb x) (frees (p_post main_prog))) [OWakeField; OWm; OFpm] &&
   (length (frees (p_post main_prog)) =? 3)%nat) = true.
Proof. vm_compute. split; reflexivity. Qed.
(** ... and the HDF5 error path (the first opaque statement of the `try` whose handler sets the
    flag throws): the flag is set by the handler *)
Example C14_setup_error_path_example :
  match abort_try_opq main_setup with
  | Some n =>
      let '(kd, o) := model_run_full (mkcfg 8 2 1 0 false true false) (-1) false (norm_env main_setup) [n] in
      (kd, o_k o, o_abort o, last (o_log o) MStatus) = (0, 0, true, MAborted)
  | None => False
  end.
Proof. vm_compute. reflexivity. Qed.

(** * "Signal delivered => flag set" as a statement about the sources (strengthening driven by seed C14-H)

    The transition of [Point] in Model/Driver.v (`abort := abort || sig pc`) assumes that a SIGINT delivered at any
    moment after main()'s first hook point runs `Display::SIGINT_handler`.  `translate/signals2coq.py` lists every place
    under src/ and inc/ that names a function changing signal dispositions or masks ([signal_sites]), the top-level
    statement of main() holding the first hook point and the handler's body; Model/Signals.v gives the list a semantics
    (a disposition table updated by the sites in whatever order and number they are executed).

    For the list of this run: the checker accepts it (every site installs `Display::SIGINT_handler` for SIGINT or concerns
    another signal; main() installs the handler in a top-level statement before the one with its first hook point; the
    handler's body is `Display::abort = true;`).  Hence, whatever sites the program executed before the installation
    ([pre]) and executes after it ([post]) - any sites of the list, in any order, any number of times: SIGINT's disposition is
    the handler, and delivering SIGINT turns the flag into `flag || true` and does nothing else - the model's transition. *)
From Coq Require Import String.
From Inovesa Require Import Model.Signals Gen.Gen_Signals Proofs.SignalsP Proofs.SignalsMainP.

Theorem C14_sigint_handler_stays_installed :
  sig_ok signal_sites main_first_point_stmt sigint_handler_body = true /\
  (exists inst i, In inst signal_sites /\ is_install inst = true /\ s_where inst = SMainTop i /\ i < main_first_point_stmt) /\
  (forall inst, In inst signal_sites -> is_install inst = true ->
   forall (pre post : list sigsite) (d0 : disposition) (flag : bool),
     (forall s, In s pre -> In s signal_sites) -> (forall s, In s post -> In s signal_sites) ->
     run_sites (pre ++ inst :: post) (Some d0) = Some (DHandler the_handler) /\
     deliver (run_sites (pre ++ inst :: post) (Some d0)) sigint_handler_body flag = Some (flag || true)).
Proof.
  exact (conj main_signals_checked
          (conj (installed_before_first_point _ _ _ main_signals_checked)
                (fun inst Hin Hi pre post d0 flag Hpre Hpost =>
                   conj (disposition_fixed _ _ _ main_signals_checked inst Hin Hi pre post d0 Hpre Hpost)
                        (delivery_sets_flag _ _ _ main_signals_checked inst Hin Hi pre post d0 flag Hpre Hpost)))).
Qed.
Print Assumptions C14_sigint_handler_stays_installed.

(** the checker is sound for every list, not only today's *)
Theorem C14_signal_checker_sound :
  forall (sites : list sigsite) (first_point : Z) (body : list hstmt), sig_ok sites first_point body = true ->
  forall inst, In inst sites -> is_install inst = true ->
  forall (pre post : list sigsite) (d0 : disposition) (flag : bool),
    (forall s, In s pre -> In s sites) -> (forall s, In s post -> In s sites) ->
    deliver (run_sites (pre ++ inst :: post) (Some d0)) body flag = Some (flag || true).
Proof. exact delivery_sets_flag. Qed.
Print Assumptions C14_signal_checker_sound.

(** non-vacuity: the hypotheses are satisfiable on the generated list (main()'s installation is in it); and lists of the kind
    the checker is there to refuse: a dataset write wrapped in `signal(SIGINT, SIG_IGN)` ... `signal(SIGINT, old)` (under which
    a delivered SIGINT is discarded: the flag stays false), a blocked signal, an installation after the first hook point *)
Example C14_signal_examples :
  (In main_install signal_sites /\ is_install main_install = true) /\
  (let shield := mksite "src/IO/HDF5File.cpp" 26 "signal" true ["SIGINT"; "SIG_IGN"]%string SElsewhere in
   sig_ok (shield :: mksite "src/IO/HDF5File.cpp" 28 "signal" true ["SIGINT"; "_handler"]%string SElsewhere :: signal_sites)
          main_first_point_stmt sigint_handler_body = false /\
   deliver (run_sites [main_install; shield] (Some DDefault)) sigint_handler_body false = Some false) /\
  sig_ok (mksite "src/IO/Display.cpp" 10 "sigprocmask" true ["SIG_BLOCK"; "&set"; "nullptr"]%string SElsewhere :: signal_sites)
         main_first_point_stmt sigint_handler_body = false /\
  sig_ok signal_sites 1 sigint_handler_body = false.
Proof. split; [exact main_install_in|]. vm_compute. repeat split; reflexivity. Qed.

(** * The append overloads of HDF5File: all or nothing (strengthening driven by seed F4-J)

    The driver model's [Append a] puts one record into its file; the real `hdf_file->append(..)` is a method with its own
    control flow.  `translate/h5append2coq.py` turns the body of every method of HDF5File that calls `_appendData` into a block
    ([gen_body_*], Model/H5Append.v): every call, every `if`, every `return`.  Conditions over the AppendType / bool parameter
    are evaluated; EVERY other condition - in particular one that reads a member of the object, i.e. something the object
    remembers from earlier calls - is opaque and gets its value from an arbitrary [h : Z -> bool].

    For the bodies of this run and EVERY [h] (every history of earlier append calls, every content of the arguments), every
    length [len] of the vector handed to appendRFKicks and every target [t] (the sixteen growing datasets and /RFKicks/data):
    one call adds exactly one record to each dataset of the overload's family - for append(ps,t,at) with at <> PhaseSpace the
    family contains the time axis /Info/AxisValues_t - and none to any other; appendRFKicks adds [len] rows to /RFKicks/data.
    The `_appendData` template itself is a straight line that extends the dataset once and writes once ([appenddata_ok]; that the
    new extent is the old one plus [size] is C10's statement about Gen_H5Index).  So no sequence of calls can leave the datasets
    of one family, or a family and the time axis, with different numbers of records.
    (Seed F4-J: `if (_timeAxisPS.dims[0] > 0 && t == _lastTimePS) return;` inside the phase-space part of append(ps,t,at):
    the body gets an opaque condition guarding a `return`, under which AppendType::All writes nothing at all - [appends_ok] is
    false.) *)
From Inovesa Require Import Base.FieldKit Model.Records Model.H5Append Gen.Gen_H5Append.
From Inovesa Require Import Proofs.H5AppendP Proofs.H5AppendMainP Proofs.DriverAppendP.

Theorem C14_append_records_all_or_nothing :
  appends_ok gen_body_ps gen_body_ef gen_body_wake gen_body_tracks gen_body_padded gen_body_rfkicks = true /\
  appenddata_ok gen_appenddata_shape = true /\
  (forall (h : Z -> bool) (len : Z) (t : atarget),
     (forall a : atype, added len t (fst (arun a nopar h gen_body_ps)) = expected (fam_ps a) 0 len t) /\
     (forall fs : bool, added len t (fst (arun AtAll (fun _ => fs) h gen_body_ef)) = expected (fam_ef fs) 0 len t) /\
     added len t (fst (arun AtAll nopar h gen_body_wake)) = expected fam_wake 0 len t /\
     added len t (fst (arun AtAll nopar h gen_body_tracks)) = expected fam_tracks 0 len t /\
     added len t (fst (arun AtAll nopar h gen_body_padded)) = expected fam_padded 0 len t /\
     added len t (fst (arun AtAll nopar h gen_body_rfkicks)) = expected [] 1 len t) /\
  (forall a : atype, a <> AtPhaseSpace -> In DT (fam_ps a)) /\
  (forall a : atype,
     fam_ps a = (match a with AtAll | AtPhaseSpace => [DPSAxis; DPSData] | AtDefaults => [] end) ++
                (match a with AtPhaseSpace => [] | _ => defaults_group end)).
Proof.
  exact (conj main_appends_checked (conj main_appenddata_checked
        (conj (appends_ok_sound _ _ _ _ _ _ main_appends_checked) (conj time_axis_in_family fam_ps_spelled)))).
Qed.
Print Assumptions C14_append_records_all_or_nothing.

(** the checker is sound for every body, not only today's: an accepted body has the specified record counts under every
    valuation of its opaque conditions, hence the same counts under any two (history independence) *)
Theorem C14_append_checker_sound :
  forall (a : atype) (p : Z -> bool) (fam : list dset) (rf : Z) (b : ablk), body_ok a p fam rf b = true ->
    (forall (h : Z -> bool) (len : Z) (t : atarget), added len t (fst (arun a p h b)) = expected fam rf len t) /\
    (forall (h1 h2 : Z -> bool) (len : Z) (t : atarget),
       added len t (fst (arun a p h1 b)) = added len t (fst (arun a p h2 b))).
Proof. exact (fun a p fam rf b H => conj (body_ok_sound a p fam rf b H) (body_ok_history_independent a p fam rf b H)). Qed.
Print Assumptions C14_append_checker_sound.

(** the tie to the driver model: for every [Append a] statement, the call main() makes ([call_of]: AppendType from the model's
    [at_all], fullspectrum = true) extends - under every [h] - exactly the datasets the records of the model's [recs] stand for
    ([kind_fam]: RPS = /PhaseSpace/axis0 + data, RDef = the time axis and the seven profile/moment datasets, RCsr, RWake,
    RTracks, RPadded; RRF = [length] rows of /RFKicks/data) *)
Theorem C14_driver_append_is_generated_append :
  forall (K : Driver.kern) (c : Driver.cfg) (s : Driver.st K) (a : Driver.akind) (h : Z -> bool) (len : Z) (t : atarget),
    let '(av, pv, body) := call_of K c s a in
    added len t (fst (arun av pv h body)) =
    expected (model_fam K c s a) (match a with Driver.ARFKicks => 1 | _ => 0 end) len t.
Proof. exact driver_append_is_generated_append. Qed.
Print Assumptions C14_driver_append_is_generated_append.

(** non-vacuity: the bodies of this run have no opaque condition at all; and a body of the kind the checker is there to refuse
    (seed F4-J: a guard on remembered state that returns from the whole function): refused, and under the valuation "the guard
    holds" an AppendType::All call adds nothing to the time axis while under "it does not hold" it adds one record *)
Example C14_append_examples :
  opaque_of gen_body_ps ++ opaque_of gen_body_ef ++ opaque_of gen_body_wake ++ opaque_of gen_body_tracks ++
  opaque_of gen_body_padded ++ opaque_of gen_body_rfkicks = [] /\
  (let guarded :=
     ACond (COr (CAtIn [AtAll]) (CAtIn [AtPhaseSpace]))
       (ACond (CAnd (COpq 0) (COpq 1)) ARet ADone (AApp (TDs DPSAxis) (SLit 1) (AApp (TDs DPSData) (SLit 1) ADone)))
       ADone
       (ACond (CNot (CAtIn [AtPhaseSpace])) (AApp (TDs DT) (SLit 1) ADone) ADone ADone) in
   body_ok AtAll nopar [DPSAxis; DPSData; DT] 0 guarded = false /\
   added 0 (TDs DT) (fst (arun AtAll nopar (fun _ => true) guarded)) = 0 /\
   added 0 (TDs DT) (fst (arun AtAll nopar (fun _ => false) guarded)) = 1 /\
   body_ok AtPhaseSpace nopar [DPSAxis; DPSData] 0 guarded = false).
Proof. vm_compute. repeat split; reflexivity. Qed.

(** * Who reads and writes the interrupt flag (strengthening driven by seed F8-I)

    C14.1 above is about main().  `translate/abortflag2coq.py` lists every place under src/ and inc/ that names `abort`
    ([abort_sites]; lexical scan, disabled preprocessor branches included).  For the list of this run: the checker accepts it and
    the references it finds in src/main.cpp are the ones clang sees in main() ([abort_refs]); the flag is READ only in
    src/main.cpp, by the condition of the simulation loop and by the condition of an `if` after the loop (C14.1: the closing
    "Aborted."/"Finished."); it is WRITTEN only as `= true`, inside `SIGINT_handler`, inside a catch block of main() (the HDF5
    error path) or in code of the graphical front end (not compiled here); its definition initialises it with `false`; the loop
    condition does read it.  Hence no map, field, tracking or file routine can behave differently once the flag is set - the
    model's kernels do not see it.  (Seed F8-I: `if (Display::abort) break;` in SourceMap::applyToAll is a read at
    [WElsewhere]: refused.) *)
From Inovesa Require Import Model.AbortFlag Gen.Gen_AbortFlag Proofs.AbortFlagP Proofs.AbortFlagMainP.

Theorem C14_abort_flag_accesses :
  abort_ok abort_sites abort_refs = true /\
  (forall s, In s abort_sites -> a_kind s = KRead ->
     a_file s = main_file /\ (a_where s = WLoopCond \/ a_where s = WIfCond true)) /\
  (forall s, In s abort_sites -> is_write (a_kind s) = true ->
     a_kind s = KWriteTrue /\ (a_where s = WSigHandler \/ a_where s = WCatch \/ gui_only s = true)) /\
  ((forall s b, In s abort_sites -> a_kind s = KDef b -> b = true) /\ (exists s, In s abort_sites /\ a_kind s = KDef true)) /\
  (exists s, In s abort_sites /\ a_kind s = KRead /\ a_where s = WLoopCond).
Proof.
  exact (conj main_abort_sites_checked
        (conj (reads_only_in_main _ _ main_abort_sites_checked)
        (conj (writes_only_set _ _ main_abort_sites_checked)
        (conj (starts_false _ _ main_abort_sites_checked) (loop_reads_flag _ _ main_abort_sites_checked))))).
Qed.
Print Assumptions C14_abort_flag_accesses.

(** the same for every list the checker accepts *)
Theorem C14_abort_flag_checker_sound :
  forall (sites : list asite) (refs : list (Z * bool * bool)), abort_ok sites refs = true ->
    (forall s, In s sites -> a_kind s = KRead -> a_file s = main_file /\ (a_where s = WLoopCond \/ a_where s = WIfCond true)) /\
    (forall s, In s sites -> is_write (a_kind s) = true ->
       a_kind s = KWriteTrue /\ (a_where s = WSigHandler \/ a_where s = WCatch \/ gui_only s = true)).
Proof. exact (fun sites refs H => conj (reads_only_in_main sites refs H) (writes_only_set sites refs H)). Qed.
Print Assumptions C14_abort_flag_checker_sound.

(** non-vacuity: lists of the kind the checker refuses - a read in SourceMap::applyToAll (seed F8-I), `Display::abort = false`
    in a library routine, the flag's address handed out, a read in main() before the loop *)
Example C14_abort_flag_examples :
  abort_ok (mkasite "src/SM/SourceMap.cpp" 118 KRead WElsewhere [] "if (Display::abort) {" :: abort_sites) abort_refs = false /\
  abort_ok (mkasite "src/IO/HDF5File.cpp" 400 KWriteOther WElsewhere [] "Display::abort = false;" :: abort_sites) abort_refs = false /\
  abort_ok (mkasite "src/IO/Display.cpp" 10 KAddr WElsewhere [] "return &Display::abort;" :: abort_sites) abort_refs = false /\
  abort_ok (mkasite "src/main.cpp" 930 KRead (WIfCond false) [] "if (Display::abort) return 1;" :: abort_sites) abort_refs = false.
Proof. vm_compute. repeat split; reflexivity. Qed.
