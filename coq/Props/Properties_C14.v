(** C14 - Ctrl+C at any moment leaves a complete, consistent results file.
    Only statements closed by [exact]; proofs in Proofs/DriverP.v (Part B), per-run checker
    obligations in Proofs/DriverMainP.v; DESIGN.md 5/C14.

    The environment may set the flag at every hook point ([Point], the VERIF_POINT sites between all
    statements of the translated part of main()): [sig i = true] means SIGINT is delivered at the i-th
    executed point.  [sig] is arbitrary - any set of points, any number of repetitions.  Signals
    during the set-up are the start state's [abort s0 = true].  [clr] clears the flag;
    [heads sig cf p s0 j] is the state at the j-th evaluation of the loop condition;
    [steps_done sig cf p s0] the number of loop iterations the run executes. *)
From Coq Require Import List ZArith Bool.
From Inovesa Require Import Model.Driver Gen.Gen_MainLoop Proofs.DriverP Proofs.DriverMainP.
Import ListNotations.
Local Open Scope Z_scope.

(** C14.1 in the generated program the flag is read by the loop condition (the program shape the
    translator insists on) and by one closing `if (abort) "Aborted." else "Finished."` followed only
    by hook points and return; no other guard reads it and no call's semantics does ([exec] never
    reads [abort] except to or a signal into it).  Also: the step counter is incremented exactly once
    per iteration, at top level, after the last append; never in the prologue or the final block. *)
Theorem C14_abort_read_only_at_loop_head :
  abort_checker main_prog = true /\ step_checker main_prog = true.
Proof. exact (conj main_abort_checked main_step_checked). Qed.
Print Assumptions C14_abort_read_only_at_loop_head.

(** C14.2 for every signal schedule and every start state: with m the number of executed steps,
    m <= laststep; the loop condition held at heads 0..m-1 and (if m < laststep) failed at head m;
    up to the closing message the state is, except for the flag itself, the state of an undisturbed
    execution of exactly m steps followed by the final block - in particular the file and the step
    counter; exit status is success; the last message is "Aborted." iff the flag is set when the
    closing conditional reads it. *)
Theorem C14_interrupted_run_shape :
  forall (K : kern) (sig : Z -> bool) (cf : cfg) (s0 : st K),
    let m := steps_done K sig cf main_prog s0 in
    exists a t e z,
      split_closing (p_post main_prog) = Some (a, t, e, z) /\
      (m <= Z.to_nat (laststep cf))%nat /\
      (forall j, (j < m)%nat -> cont cf (heads K sig cf main_prog s0 j) = true) /\
      ((m < Z.to_nat (laststep cf))%nat -> cont cf (heads K sig cf main_prog s0 m) = false) /\
      clr K (exec_blk sig cf a (heads K sig cf main_prog s0 m)) =
        clr K (exec_blk nosig cf a (heads K nosig cf main_prog (clr K s0) m)) /\
      file (run sig cf main_prog s0) = file (exec_blk nosig cf a (heads K nosig cf main_prog (clr K s0) m)) /\
      k (run sig cf main_prog s0) = k (exec_blk nosig cf a (heads K nosig cf main_prog (clr K s0) m)) /\
      status (run sig cf main_prog s0) = Some 0 /\
      log (run sig cf main_prog s0) =
        log (exec_blk sig cf a (heads K sig cf main_prog s0 m)) ++
        [if abort (exec_blk sig cf a (heads K sig cf main_prog s0 m)) then MAborted else MFinished].
Proof. exact (fun K => interrupted_run_shape K main_prog main_abort_checked). Qed.
Print Assumptions C14_interrupted_run_shape.

(** which step is the last: the flag at a loop head is set iff it was set at the start or one of the
    hook points executed so far was signalled (repeated signals change nothing) ... *)
Theorem C14_abort_at_head :
  forall (K : kern) (sig : Z -> bool) (cf : cfg) (s0 : st K) (j : nat),
    abort (heads K sig cf main_prog s0 j) = true <->
    abort s0 = true \/ sig_between sig (pc s0) (pc (heads K sig cf main_prog s0 j)).
Proof. exact (fun K => abort_at_head K main_prog). Qed.
Print Assumptions C14_abort_at_head.

(** ... the hook points executed up to a loop head are those of the undisturbed run ... *)
Theorem C14_points_independent_of_signals :
  forall (K : kern) (sig : Z -> bool) (cf : cfg) (s0 : st K) (j : nat),
    pc (heads K sig cf main_prog s0 j) = pc (heads K nosig cf main_prog (clr K s0) j).
Proof. exact (fun K sig cf s0 j => heads_pc_independent K main_prog sig cf s0 j main_abort_checked). Qed.
Print Assumptions C14_points_independent_of_signals.

(** ... and the loop goes on exactly while fewer than laststep steps are done and the flag is clear;
    it is left because its condition fails (termination) *)
Theorem C14_loop_condition :
  forall (K : kern) (sig : Z -> bool) (cf : cfg) (s0 : st K) (j : nat), k s0 = 0 ->
    cont cf (heads K sig cf main_prog s0 j) = (Z.of_nat j <? laststep cf) && negb (abort (heads K sig cf main_prog s0 j)).
Proof. exact (fun K sig cf s0 j => cont_at_head K main_prog sig cf s0 j main_step_checked). Qed.
Print Assumptions C14_loop_condition.

Theorem C14_terminates :
  forall (K : kern) (sig : Z -> bool) (cf : cfg) (s0 : st K), k s0 = 0 ->
    cont cf (loop sig cf (p_body main_prog) (Z.to_nat (laststep cf)) (exec_blk sig cf (p_pre main_prog) s0)) = false.
Proof. exact (fun K sig cf s0 => loop_exits K main_prog sig cf s0 main_step_checked). Qed.
Print Assumptions C14_terminates.

(** C14.3 the file after m undisturbed steps is a prefix of the file after m+d steps, everything
    after it carries a step number >= m; what the m steps appended after the prologue carries step
    numbers < m; the final block appends records carrying the step number m.  With C14.2: the
    interrupted file = (records of the uninterrupted run with step < m) ++ (one final record for m). *)
Theorem C14_prefix_records_identical :
  forall (K : kern) (cf : cfg) (s0 : st K) (m d : nat),
    (exists rest,
       file (heads K nosig cf main_prog s0 (m + d)) = file (heads K nosig cf main_prog s0 m) ++ rest /\
       Forall (fun r => k s0 + Z.of_nat m <= rstep r) rest) /\
    (exists recs,
       file (heads K nosig cf main_prog s0 m) = file (exec_blk nosig cf (p_pre main_prog) s0) ++ recs /\
       Forall (fun r => k s0 <= rstep r < k s0 + Z.of_nat m) recs) /\
    (forall a t e z, split_closing (p_post main_prog) = Some (a, t, e, z) ->
       file (exec_blk nosig cf a (heads K nosig cf main_prog s0 m)) =
         file (heads K nosig cf main_prog s0 m) ++ emit nosig cf a (heads K nosig cf main_prog s0 m) /\
       Forall (fun r => rstep r = k s0 + Z.of_nat m) (emit nosig cf a (heads K nosig cf main_prog s0 m))).
Proof.
  exact (fun K cf s0 m d =>
    conj (heads_file_prefix K nosig cf main_prog s0 m main_step_checked d)
   (conj (heads_file_lt K nosig cf main_prog s0 main_step_checked m)
         (final_records_step K main_prog main_abort_checked main_step_checked cf s0 m))).
Qed.
Print Assumptions C14_prefix_records_identical.

(** a signal that does not change the number of executed steps (in particular: one that arrives
    after the last evaluation of the loop condition) leaves the file of the uninterrupted run *)
Theorem C14_signal_after_last_step :
  forall (K : kern) (sig : Z -> bool) (cf : cfg) (s0 : st K),
    steps_done K sig cf main_prog s0 = steps_done K nosig cf main_prog (clr K s0) ->
    file (run sig cf main_prog s0) = file (run nosig cf main_prog (clr K s0)).
Proof. exact (fun K => signal_after_last_step K main_prog main_abort_checked). Qed.
Print Assumptions C14_signal_after_last_step.

(** non-vacuity, on the executable instance: 8 steps, output every 2nd, SIGINT at point 100 and at
    every later one: 3 steps are executed, the last message is "Aborted.", status 0 *)
From Inovesa Require Import Model.DriverInst.
Example C14_interrupt_example :
  let o := model_run (mkcfg 8 2 1 0 true true false) 100 true 28 in
  (o_k o, o_status o, last (o_log o) MStatus, o_abort o) = (3, Some 0, MAborted, true).
Proof. vm_compute. reflexivity. Qed.
Example C14_hypotheses_example :
  steps_done unitK (hooksig 200 false) (mkcfg 8 2 1 0 true true false) main_prog (st0 (mkcfg 8 2 1 0 true true false) 200 28)
  = steps_done unitK nosig (mkcfg 8 2 1 0 true true false) main_prog (clr unitK (st0 (mkcfg 8 2 1 0 true true false) 200 28)).
Proof. vm_compute. reflexivity. Qed.
