(** C17 - no configuration or input file makes the program touch memory it does not own.
    PARTIAL by nature: memory safety of C++ is not a theorem about a Gallina model.  The
    theorems below are about the size and index arithmetic of Model/Bounds.v (and the kick
    model of Model/Kick.v); everything else is searched with sanitizers (lib/props/C17.py).
    Only statements closed by [exact]; proofs in Proofs/BoundsP.v.  DESIGN.md 5/C17. *)
From Coq Require Import List ZArith QArith Qcanon Qround Bool.
From Inovesa Require Model.Pow2Ops Gen.Gen_Pow2 Proofs.Pow2GenP.
From Inovesa Require Import Base.FieldKit Base.Float32 Model.Kick Model.Bounds
  Proofs.KickP Proofs.BoundsP.
Import ListNotations.
Local Open Scope Z_scope.

(** 1. padding.  [s1] = the double GridSize*spacing_ps (bins per bucket spacing), [s2] = the
    double (GridSize*nbuckets)*spacing_ps; spacing_bins = round(s1), the padded buffers hold
    [nm] >= ceil(s2) cells (main.cpp:303-321; rounding up to a power of two only increases
    nm, see [upper_power_of_two_ge]).  The two products need only agree to within one cell.
    If the spacing leaves half a cell per bucket of room, or the buffer has the slack, every
    cell padBunchProfiles writes and wakePotential reads back is inside the buffer. *)
Theorem pad_in_bounds :
  forall (n nb : Z) (s1 s2 : Qc) (nm b x : Z),
    0 < n -> 1 <= nb -> (0 <= this s1)%Q ->
    (inject_Z nb * this s1 - 1 < this s2)%Q ->
    Qcceil s2 <= nm ->
    nb * Qcround s1 < 2 ^ 32 ->
    ((inject_Z n + inject_Z (nb - 1) * (1 # 2) <= this s1)%Q \/ (nb - 1) * Qcround s1 + n <= nm) ->
    0 <= b < nb -> 0 <= x < n ->
    0 <= pad_index (Qcround s1) b x < nm.
Proof. exact pad_in_bounds_l. Qed.
Print Assumptions pad_in_bounds.

Example pad_in_bounds_hyps : (* 5 buckets, n = 16, spacing_ps = 9/8: s1 = 18 >= 16 + 2, s2 = 90 *)
  let s1 := spacing_prod 16 (Q2Qc (9 # 8)) in let s2 := spaced_prod 16 5 (Q2Qc (9 # 8)) in
  (inject_Z 16 + inject_Z (5 - 1) * (1 # 2) <= this s1)%Q /\ (inject_Z 5 * this s1 - 1 < this s2)%Q
  /\ Qcceil s2 <= 90 /\ pad_ok 16 90 (Qcround s1) [4; 3; 2; 1; 0] = true.
Proof. cbv zeta. split; [vm_compute; discriminate|]. split; [vm_compute; reflexivity|]. split; [vm_compute; discriminate | vm_compute; reflexivity]. Qed.

(** every bucket that holds a bunch has a number below the pattern length *)
Theorem bucket_numbers_in_range :
  forall filled b, In b (bucket_numbers filled) -> 0 <= b < Z.of_nat (length filled).
Proof. exact bucket_numbers_range. Qed.
Print Assumptions bucket_numbers_in_range.

(** ... and the exact criterion: all n cells of bucket b are inside iff the last one is *)
Theorem pad_in_bounds_exact_last :
  forall n nm sp b, 0 < n ->
    (pad_last n sp b <? nm = true <-> forall x, 0 <= x < n -> 0 <= pad_index sp b x < nm).
Proof. exact pad_in_bounds_exact. Qed.
Print Assumptions pad_in_bounds_exact_last.

(** PINNED tree (sizing before `fix:` 899923d; fixed finding pad-overflow): refuted without the
    side condition, inside the documented domain (buckets do not
    overlap: spacing_bins = 17 >= n = 16; no rounding to a power of two): 5 filled buckets,
    spacing_ps = 265/256 -> s1 = 16.5625, spacing_bins = 17, nmax = ceil(82.8125) = 83, last
    write at 4*17+15 = 83 *)
Theorem pad_in_bounds_refuted :
  exists (n nb : Z) (sps : Qc) (filled : list bool) (sp nm : Z),
    let sz := main_sizes_pinned n nb sps (Q2Qc 1) false in
    Z.of_nat (length filled) = nb /\
    spacing_bins sz = Val sp /\ wake_nmax nb sz = Val nm /\ n <= sp /\
    exists b, In b (bucket_numbers filled) /\ nm <= pad_last n sp b.
Proof.
  exists 16, 5, (Q2Qc (265 # 256)), [true; true; true; true; true], 17, 83.
  cbv zeta. split; [reflexivity|]. split; [vm_compute; reflexivity|]. split; [vm_compute; reflexivity|].
  split; [discriminate|]. exists 4. split; [left; reflexivity | vm_compute; discriminate].
Qed.
Print Assumptions pad_in_bounds_refuted.

(** PINNED tree: rounding up to a power of two did not rescue long patterns: 31 filled buckets, n = 16,
    spacing_ps = 33/32 -> s1 = 16.5, spacing_bins = 17, nmax = 2^ceil(log2 512) = 512, last
    write at 30*17+15 = 525 *)
Theorem pad_in_bounds_pow2_refuted :
  exists (n nb : Z) (sps : Qc) (sp nm : Z),
    let sz := main_sizes_pinned n nb sps (Q2Qc 1) true in
    spacing_bins sz = Val sp /\ wake_nmax nb sz = Val nm /\ n <= sp /\ nm <= pad_last n sp (nb - 1).
Proof.
  exists 16, 31, (Q2Qc (33 # 32)), 17, 512.
  cbv zeta. split; [vm_compute; reflexivity|]. split; [vm_compute; reflexivity|]. split; [discriminate | vm_compute; discriminate].
Qed.
Print Assumptions pad_in_bounds_pow2_refuted.

(** tree after `fix:` 899923d (spaced_bins >= (nbuckets-1)*spacing_bins + ps_bins before the
    rounding): for EVERY spacing, padding and rounding mode, every cell padBunchProfiles writes
    and wakePotential reads back lies inside the wake buffers main allocates.  No condition on
    the spacing is left; the two magnitude bounds only keep upper_power_of_two on its domain. *)
Theorem pad_in_bounds_fixed :
  forall n nb sps padding roundp sp nm b x,
    0 < n < 2 ^ 32 -> 1 < nb < 2 ^ 32 ->
    spacing_bins (main_sizes n nb sps padding roundp) = Val sp ->
    wake_nmax nb (main_sizes n nb sps padding roundp) = Val nm ->
    Qcceil (spaced_prod n nb sps) <= 2 ^ 63 -> (nb - 1) * sp + n <= 2 ^ 63 ->
    0 <= b < nb -> 0 <= x < n ->
    0 <= pad_index sp b x < nm.
Proof. exact pad_in_bounds_fixed_l. Qed.
Print Assumptions pad_in_bounds_fixed.

Example pad_in_bounds_fixed_hyps : (* the two former witnesses are now in bounds *)
  sizes_list 16 5 (Q2Qc (265 # 256)) (Q2Qc 1) false = [17; 16; 84; 84] /\ pad_ok 16 84 17 [4; 3; 2; 1; 0] = true /\
  sizes_list 16 31 (Q2Qc (33 # 32)) (Q2Qc 1) true = [17; 16; 1024; 1024] /\ pad_last 16 17 30 = 525.
Proof. vm_compute. repeat split; reflexivity. Qed.

(** 2. kick maps (tree after `fix:` fbbfcf6).  Every table entry updateSM writes names a cell
    of the grid row, for every offset whatsoever (kicks far beyond the grid included) ... *)
Theorem kick_table_in_bounds :
  forall n it o j1, 0 < n -> 0 <= fst (sm_entry_g n it o j1) < n.
Proof. exact kick_table_in_bounds_l. Qed.
Print Assumptions kick_table_in_bounds.

Example kick_table_example : (* n = 32, offset -20: outside, falls back to (n/2, weight 0) *)
  sm_entry_g 32 4 (Qcz (-20)) 2 = (16, 0%Qc) /\ fst (sm_entry_g 32 4 (Qcz 3) 2) = 20.
Proof. vm_compute. split; reflexivity. Qed.

(** ... its flat position is inside the n*nb*it entries allocated ... *)
Theorem kick_table_position_in_bounds :
  forall n nb it b x j,
    0 < n -> 0 < nb -> 0 < it -> 0 <= b -> 0 <= x < n -> 0 <= j < it ->
    0 <= hidx_y n nb it b x j < n * nb * it /\ 0 <= hidx_x n nb it b x j < n * nb * it.
Proof. exact kick_hidx_in_bounds. Qed.
Print Assumptions kick_table_position_in_bounds.

(** ... the unsigned wrap-around test of apply is the two-sided test 0 <= xs < n, and every
    cell apply reads is a cell of the grid (both kick directions, every bunch) *)
Theorem kick_wraparound_test_spec :
  forall n t h, 0 < n <= 2 ^ 30 -> 0 <= t < n -> 0 <= h < n ->
    kick_src n t h = if (0 <=? t + h - n / 2) && (t + h - n / 2 <? n) then Some (t + h - n / 2) else None.
Proof. exact kick_src_spec. Qed.
Print Assumptions kick_wraparound_test_spec.

Theorem kick_reads_in_bounds :
  forall n nb b x y h i,
    0 < n <= 2 ^ 30 -> 0 <= b < nb -> 0 <= x < n -> 0 <= y < n -> 0 <= h < n ->
    (kick_read_y n b x y h = Some i \/ kick_read_x n b x y h = Some i) ->
    0 <= i < nb * n * n.
Proof. exact kick_reads_in_bounds_l. Qed.
Print Assumptions kick_reads_in_bounds.

Example kick_reads_example : kick_read_y 8 0 3 7 6 = None /\ kick_read_y 8 0 3 1 6 = Some 27.
Proof. vm_compute. split; reflexivity. Qed.

(** 2b. (family usm) the same about the GENERATED body of KickMap::updateSM (Gen/Gen_UpdateSM.v, regenerated from
    src/SM/KickMap.cpp on every run by symbolic execution with the C++ arithmetic as it is; Proofs/UpdateSMGenP.v).
    n < 2^24: the source converts the size to float for the guard, exact below 2^24; size*it <= 2^32: the table
    subscript fits [meshindex_t].  Every entry the generated loop body writes names a cell of the grid row ... *)
From Inovesa Require Import Proofs.WeightsP Model.UsmOps Gen.Gen_UpdateSM Proofs.UpdateSMGenP.

Theorem kick_table_in_bounds_generated :
  forall n it o j1, valid_it it -> 0 < n < 2 ^ 24 -> 0 <= j1 < it -> 0 <= fst (usm_entry n it o j1) < n.
Proof. exact gen_entry_in_bounds. Qed.
Print Assumptions kick_table_in_bounds_generated.

(** ... the generated loops over an offset vector of [size] entries write slots [0, size*it) of [_hinfo] only (the
    table KickMap allocates has n*nb*it >= size*it entries), and leave a cell of the grid row in each ... *)
Theorem kick_table_writes_in_bounds_generated :
  forall n it size offs (H : Z -> Z * Qc) k,
    valid_it it -> 0 < n < 2 ^ 24 -> 0 <= size -> size * it <= 2 ^ 32 ->
    (k < 0 \/ size * it <= k -> usm_update n (usm_ip_of it) (usm_it_of it) size offs H k = H k) /\
    (0 <= k < size * it -> 0 <= fst (usm_update n (usm_ip_of it) (usm_it_of it) size offs H k) < n).
Proof. exact usm_gen_table_in_bounds. Qed.
Print Assumptions kick_table_writes_in_bounds_generated.

(** ... the float -> unsigned conversion [jd = qp_int] is executed under the generated guard only, where it is defined
    (for EVERY offset: [usm_conv_ok] is "guard -> -1 < value < 2^32" as the translator found the conversion placed;
    a dropped [qp_int >= 0] or a conversion in front of the test makes it false for an offset below -n/2-1) ... *)
Theorem updateSM_conversion_defined_generated :
  forall n o, 0 < n < 2 ^ 24 ->
    usm_conv_ok n o = true /\ (usm_guard n (usm_qpint n o) = true -> sm_defined_pinned n o = true).
Proof. exact usm_conversion_defined. Qed.
Print Assumptions updateSM_conversion_defined_generated.

(** ... and the generated entry function is the table of Model/Kick.v *)
Theorem updateSM_generated_is_kick_model :
  forall n it o j1, valid_it it -> 0 < n < 2 ^ 24 -> 0 <= j1 < it -> usm_entry n it o j1 = sm_entry n it o j1.
Proof. exact usm_entry_model. Qed.
Print Assumptions updateSM_generated_is_kick_model.

Example kick_table_generated_example : (* n = 32: offset -20 is outside the guard, offset 14.5 loses two stencil points *)
  usm_conv_ok 32 (Qcz (-20)) = true /\ usm_guard 32 (usm_qpint 32 (Qcz (-20))) = false /\
  map (fun j => fst (usm_entry 32 4 (Qcz (-20)) j)) (zrange 4) = [16; 16; 16; 16] /\
  map (fun j => fst (usm_entry 32 4 (Q2Qc (29 # 2)) j)) (zrange 4) = [29; 30; 31; 16].
Proof. vm_compute. repeat split; reflexivity. Qed.

(** 3. element-wise impedance sum (tree after `fix:` 8635aab, loop bound min of both lengths):
    every cell read and written is inside both tables, whatever their lengths *)
Theorem impedance_sum_in_bounds :
  forall lhs_n rhs_n i, In i (imp_sum_reads lhs_n rhs_n) -> 0 <= i < rhs_n /\ 0 <= i < lhs_n.
Proof. exact impedance_sum_in_bounds_l. Qed.
Print Assumptions impedance_sum_in_bounds.

Example impedance_sum_example : imp_sum_reads 4 2 = [0; 1] /\ imp_sum_ok 256 10 = true.
Proof. vm_compute. split; reflexivity. Qed.

(** the loop of the pinned tree (i < _nfreqs) is in bounds only for a table at least as long ... *)
Theorem impedance_sum_pinned_in_bounds_partial :
  forall lhs_n rhs_n i, lhs_n <= rhs_n -> In i (imp_sum_reads_pinned lhs_n) -> 0 <= i < rhs_n.
Proof. exact impedance_sum_pinned_in_bounds. Qed.
Print Assumptions impedance_sum_pinned_in_bounds_partial.

(** ... refuted for a shorter one: a 10-line file against 256 frequencies (fixed finding) *)
Theorem impedance_sum_pinned_in_bounds_refuted :
  exists lhs_n rhs_n i, 0 < rhs_n /\ In i (imp_sum_reads_pinned lhs_n) /\ rhs_n <= i.
Proof. exists 256, 10, 255. split; [reflexivity|]. split; [apply in_zrange; split; [discriminate|reflexivity] | discriminate]. Qed.
Print Assumptions impedance_sum_pinned_in_bounds_refuted.

(** 4. float -> unsigned conversions are defined exactly on (-1, 2^bits) *)
Theorem float_to_unsigned_defined :
  forall bits q, 0 <= bits ->
    (f2u bits q <> UB <-> (- (1) < this q)%Q /\ (this q < inject_Z (2 ^ bits))%Q).
Proof. exact f2u_defined_iff. Qed.
Print Assumptions float_to_unsigned_defined.

(** KickMap::updateSM converts only inside its range test, where the conversion is defined,
    and there it is the table of Model/Kick.v (so C01/C02/C08 speak about the same code) *)
Theorem updateSM_conversion_defined :
  forall n o, 0 < n <= 2 ^ 32 -> sm_in_range n o = true -> sm_defined_pinned n o = true.
Proof. exact sm_in_range_defined. Qed.
Print Assumptions updateSM_conversion_defined.

Theorem updateSM_is_kick_model :
  forall n it o j1, sm_in_range n o = true -> sm_entry_g n it o j1 = sm_entry n it o j1.
Proof. exact sm_entry_g_eq. Qed.
Print Assumptions updateSM_is_kick_model.

(** pinned tree (conversion before the test): undefined for an offset below -n/2-1,
    e.g. n = 32, offset -20 (KickMap.cpp:356; fixed finding) *)
Theorem updateSM_conversion_pinned_refuted :
  exists n o, sm_defined_pinned n o = false /\ sm_entry_c n 4 o 0 = None.
Proof. exists 32, (Qcz (-20)). vm_compute. split; reflexivity. Qed.
Print Assumptions updateSM_conversion_pinned_refuted.

(** 5. tracked particles: the float coordinate used as axis index *)
Theorem tracks_index_in_bounds :
  forall n x, 0 < n <= 2 ^ 32 -> (- (1) < this x)%Q -> (this x < inject_Z n)%Q ->
    exists i, track_index x = Val i /\ 0 <= i < n.
Proof. exact tracks_index_in_bounds_l. Qed.
Print Assumptions tracks_index_in_bounds.

(** 6. Fokker-Planck constructor.  Cubic stencil: every table write, every axis read and
    every stored source index is in bounds when the zero-energy bin is at least one cell
    inside at the bottom (1 <= trunc zerobin) and two cells inside at the top. *)
Theorem fp_table_in_bounds :
  forall n zb damping,
    4 <= n <= 2 ^ 30 -> 1 <= Qctrunc zb -> (this zb <= inject_Z (n - 2))%Q ->
    exists evs, fp_events n 4 zb damping = Some evs /\ forallb (ev_ok n 4) evs = true.
Proof. exact fp_table_in_bounds_l. Qed.
Print Assumptions fp_table_in_bounds.

Example fp_table_in_bounds_hyps : (* n = 32, no shift: zerobin = 31/2 *)
  1 <= Qctrunc (Q2Qc (31 # 2)) /\ (this (Q2Qc (31 # 2)) <= inject_Z (32 - 2))%Q /\ fp_all_ok 32 4 (Q2Qc (31 # 2)) true = true.
Proof. split; [vm_compute; discriminate|]. split; [vm_compute; discriminate | vm_compute; reflexivity]. Qed.

(** tree after `fix:` de00324: main builds the cubic map only when its guard
    [1 <= zerobin <= GridSize-2] holds; then the constructor is in bounds - for every grid
    shift the program accepts (the others are refused with a message) *)
Theorem fp_guarded_table_in_bounds :
  forall n zb damping, 4 <= n <= 2 ^ 24 -> fp_guard n zb = true ->
    exists evs, fp_events n 4 zb damping = Some evs /\ forallb (ev_ok n 4) evs = true.
Proof. exact fp_guarded_in_bounds. Qed.
Print Assumptions fp_guarded_table_in_bounds.

Example fp_guard_example :
  fp_guard 32 (Q2Qc (31 # 2)) = true /\ fp_guard 32 (Qcz 36) = false /\ fp_guard 32 (Q2Qc (1 # 2)) = false /\ fp_guard 32 (Qcz (-5)) = false.
Proof. vm_compute. repeat split; reflexivity. Qed.

(** the three-point stencil does not depend on the zero bin: always in bounds *)
Theorem fp_table_two_sided_in_bounds :
  forall n zb damping, 3 <= n <= 2 ^ 30 ->
    exists evs, fp_events n 3 zb damping = Some evs /\ forallb (ev_ok n 3) evs = true.
Proof. exact BoundsP.fp_table_two_sided_in_bounds. Qed.
Print Assumptions fp_table_two_sided_in_bounds.

(** the constructor itself (unchanged; reachable from main only on the PINNED tree, fixed
    finding fp-zerobin-outside-grid) is refuted for an energy axis shifted so that zero energy is outside the grid (the first
    stencil loop is bounded by the zero bin, not by n): n = 32, PhaseSpaceShiftY = 20.5 ->
    zerobin = 36: the axis is read at cell 32 and the table written past its 128 entries;
    zerobin = -5 (shift -20.5): the loop start is a negative float converted to unsigned;
    zerobin = 1/2 (shift -15): row 0 stores source index 2^32-1, which apply() then reads *)
Theorem fp_table_in_bounds_refuted :
  (exists evs, fp_events 32 4 (Qcz 36) true = Some evs /\ In (ARead 32) evs /\ In (HWrite 128 30) evs
               /\ forallb (ev_access_ok 32 4) evs = false)
  /\ fp_events 32 4 (Qcz (-5)) true = None
  /\ (exists evs, fp_events 32 4 (Q2Qc (1 # 2)) true = Some evs /\ In (HWrite 0 (2 ^ 32 - 1)) evs
                  /\ fp_apply_read 32 0 0 (2 ^ 32 - 1) = 2 ^ 32 - 1).
Proof.
  split; [|split].
  - eexists. split; [vm_compute; reflexivity|]. split; [|split].
    + vm_compute. repeat (first [left; reflexivity | right]).
    + vm_compute. repeat (first [left; reflexivity | right]).
    + vm_compute. reflexivity.
  - vm_compute. reflexivity.
  - eexists. split; [vm_compute; reflexivity|]. split.
    + vm_compute. repeat (first [left; reflexivity | right]).
    + vm_compute. reflexivity.
Qed.
Print Assumptions fp_table_in_bounds_refuted.

(** 7. upper_power_of_two is 2^ceil(log2 v) on 1 <= v <= 2^63 (outside it wraps to 0), hence
    never smaller than its argument: the rounded padded lengths only grow *)
Theorem upper_power_of_two_spec :
  forall v, 1 <= v <= 2 ^ 63 -> upper_power_of_two v = 2 ^ Z.log2_up v.
Proof. exact upper_power_of_two_spec_l. Qed.
Print Assumptions upper_power_of_two_spec.

Theorem upper_power_of_two_bounds :
  forall v, 1 <= v <= 2 ^ 63 -> v <= upper_power_of_two v < 2 * v.
Proof. exact upper_power_of_two_ge. Qed.
Print Assumptions upper_power_of_two_bounds.

Theorem upper_power_of_two_outside_domain :
  upper_power_of_two 0 = 0 /\ upper_power_of_two (2 ^ 63 + 1) = 0.
Proof. exact upper_power_of_two_wraps. Qed.
Print Assumptions upper_power_of_two_outside_domain.

(** 7'. the same three facts about the operation list read from the SOURCE of vfps::upper_power_of_two on every run
    (Gen/Gen_Pow2.v): a dropped or changed stage of the cascade breaks [gen_ops_accepted] (and rounds some length down,
    see [Pow2GenP.short_cascade_rejected]: a padded buffer shorter than the train). *)
Theorem upper_power_of_two_generated :
  forall v, Pow2Ops.run_uops Gen_Pow2.gen_upow2_ops v = upper_power_of_two v.
Proof. exact Pow2GenP.gen_upow2_is_model. Qed.
Print Assumptions upper_power_of_two_generated.

Theorem upper_power_of_two_generated_bounds :
  forall v, 1 <= v <= 2 ^ 63 -> v <= Pow2Ops.run_uops Gen_Pow2.gen_upow2_ops v < 2 * v.
Proof. exact Pow2GenP.gen_upow2_ge. Qed.
Print Assumptions upper_power_of_two_generated_bounds.

(** ** Text start distribution (makePSFromTXT, src/PS/PhaseSpaceFactory.cpp): the deposit
    [ps[0][x][y] += ...] of every particle the reader accepts - for every pair of [lround]
    results, i.e. for every file content - stays inside the 1 x n x n array.  The declared type of
    the coordinate variables, the guard and the subscripts are generated from the source
    (Gen_TxtReader); with [meshindex_t] coordinates a particle left of / below the grid wraps
    around and fails the upper-bound guard. *)
From Inovesa Require Import Model.TxtReader Proofs.TxtReaderP Gen.Gen_TxtReader Proofs.TxtReaderGenP.

Theorem txt_deposit_in_bounds :
  forall n vx vy i,
    deposit txt_x_kind txt_y_kind txt_guard txt_index n vx vy = Some i -> in_array 1 n i.
Proof. exact gen_deposit_in_bounds. Qed.
Print Assumptions txt_deposit_in_bounds.

Theorem txt_deposit_flat_offset_in_bounds :
  forall n vx vy b x y, (0 < n)%Z ->
    deposit txt_x_kind txt_y_kind txt_guard txt_index n vx vy = Some (b, x, y) ->
    (0 <= (b * n + x) * n + y < 1 * n * n)%Z.
Proof. exact gen_deposit_flat_in_bounds. Qed.
Print Assumptions txt_deposit_flat_offset_in_bounds.

(** the same reader with signed coordinate variables is refuted (why the declared type matters) *)
Theorem txt_deposit_signed_variant_refuted :
  exists vx vy i, deposit CS64 CS64 (fun x y n => (x <? n)%Z && (y <? n)%Z)%bool (fun x y => (0%Z, x, y)) 32 vx vy = Some i
                  /\ ~ in_array 1 32 i.
Proof. exact signed_variant_out_of_bounds. Qed.
Print Assumptions txt_deposit_signed_variant_refuted.

(** non-vacuity: particles that are deposited, and one left of the grid that is skipped *)
Example txt_deposit_example :
  deposit txt_x_kind txt_y_kind txt_guard txt_index 32 5 31 = Some (0, 5, 31)%Z /\
  deposit txt_x_kind txt_y_kind txt_guard txt_index 32 (-1) 3 = None /\
  deposit txt_x_kind txt_y_kind txt_guard txt_index 32 32 3 = None.
Proof. vm_compute. repeat split; reflexivity. Qed.

(** 8. (family scaling) the same statement over the sizes GENERATED from main() on every run
    (Gen/Gen_ScalingZ.v, translate/scalingz2coq.py: symbolic execution of main()'s set-up code; a size is the
    expression that reaches the `spacing_bins` parameter of the wake field's constructor / the `nfreqs` parameter
    of the makeImpedance call that makes its impedance; every double operation rounded to binary64, unsigned
    wrap-around, float -> unsigned conversions with their undefined domain).  [LZ O_getGridSize] = GridSize,
    [LZ N_getBunchCurrents] = number of buckets of the filling pattern; every other input (padding, RoundPadding,
    the double spacing_ps, and whatever else the source starts to use) is arbitrary.  For every bucket and cell,
    the cell padBunchProfiles writes and wakePotential reads back is inside the buffer, whenever the computed
    length has not wrapped to 0 (more than 2^63 cells). [pad_in_bounds_fixed] above is the same statement about
    the hand-written copy [main_sizes] of the sizing after `fix:` 899923d and is kept for reference. *)
From Inovesa Require Import Model.ScalingOps Gen.Gen_ScalingZ Proofs.ScalingZP Proofs.ScalingZRP.

Theorem pad_in_bounds_generated :
  forall (LZ : zleaf -> Z) (LQ : qleaf -> Qc) (LB : zbleaf -> bool) sp nm b x,
    0 < LZ O_getGridSize < 2 ^ 32 -> 1 < LZ N_getBunchCurrents < 2 ^ 32 ->
    gen_spacing_bins LZ LQ LB = Val sp -> gen_wake_nfreqs LZ LQ LB = Val nm -> 0 < nm ->
    0 <= b < LZ N_getBunchCurrents -> 0 <= x < LZ O_getGridSize ->
    0 <= pad_index sp b x < nm.
Proof. exact gen_pad_in_bounds. Qed.
Print Assumptions pad_in_bounds_generated.

(** a single bucket: the wake field is as long as the radiation field, bucket 0 only *)
Theorem pad_in_bounds_generated_single_bucket :
  forall (LZ : zleaf -> Z) (LQ : qleaf -> Qc) (LB : zbleaf -> bool) sp nm x,
    0 < LZ O_getGridSize < 2 ^ 32 -> 0 <= LZ N_getBunchCurrents <= 1 ->
    gen_spacing_bins LZ LQ LB = Val sp -> gen_wake_nfreqs LZ LQ LB = Val nm -> 0 < nm ->
    0 <= x < LZ O_getGridSize ->
    0 <= pad_index sp 0 x < nm.
Proof. exact gen_pad_in_bounds_single. Qed.
Print Assumptions pad_in_bounds_generated_single_bucket.

(** the radiation field (updateCSR): spacing 0, ceil(GridSize*max(padding,1)) cells or the next power of two *)
Theorem rdtn_pad_in_bounds_generated :
  forall (LZ : zleaf -> Z) (LQ : qleaf -> Qc) (LB : zbleaf -> bool) sp nm b x,
    0 < LZ O_getGridSize < 2 ^ 32 ->
    gen_rdtn_spacing_bins LZ LQ LB = Val sp -> gen_rdtn_nfreqs LZ LQ LB = Val nm -> 0 < nm ->
    0 <= b < 2 ^ 32 -> 0 <= x < LZ O_getGridSize ->
    sp = 0 /\ 0 <= pad_index sp b x < nm.
Proof. exact gen_rdtn_in_bounds. Qed.
Print Assumptions rdtn_pad_in_bounds_generated.

(** [rnd53] of the size model is binary64 round-to-nearest-even as Flocq defines it (for every rational) *)
From Coq Require Qreals Rdefinitions.
From Flocq Require Core.
Theorem rnd53_is_binary64_RNE :
  forall q : Qc, Rdefinitions.Q2R (this (rnd53 q)) =
                 Flocq.Core.Generic_fmt.round Flocq.Core.Zaux.radix2 (Flocq.Core.FLT.FLT_exp (-1074) 53)
                   Flocq.Core.Round_NE.ZnearestE (Rdefinitions.Q2R (this q)).
Proof. exact Float64P.rnd53_correct. Qed.
Print Assumptions rnd53_is_binary64_RNE.

(** non-vacuity: for the two former witnesses and a single-bucket configuration the generated functions return
    defined values (no conversion outside its domain: every entry >= 0) and a non-zero wake length - the hypotheses
    of the three theorems above are satisfiable.  (Values in the order N_getBunchCurrents, O_getGridSize |
    O_getPadding, V_spacing_ps | O_getRoundPadding; result: spacing_bins, radiation-field length, wake-field length,
    radiation-field spacing.  The numbers themselves are C06's business: C06_main_lengths_example.) *)
Example pad_in_bounds_generated_hyps :
  let ok := fun r => forallb (fun z => 0 <=? z) r && (0 <? nth 2 r 0) && (0 <? nth 1 r 0) in
  ok (gen_sizes_list [5; 16] [Q2Qc 1; Q2Qc (265 # 256)] [false]) = true /\
  ok (gen_sizes_list [31; 16] [Q2Qc 1; Q2Qc (33 # 32)] [true]) = true /\
  ok (gen_sizes_list [1; 16] [Q2Qc (3 # 2); Q2Qc (33 # 32)] [false]) = true.
Proof. vm_compute. repeat split; reflexivity. Qed.

(** ** Where PhaseSpace::nb and the bucket list of the field objects come from (round "stmisc"; strengthening after
    seeded change C17-G: the reader takes the number of bunches from the start file, main() compares it with the number
    of BUCKETS).  padBunchProfiles and wakePotential index `_bucket[b]` for b < PhaseSpace::nb; `_bucket` is main()'s
    `bucketnumbers`, one entry per FILLED bucket of the configured filling pattern, while PhaseSpace::nb is fixed by the
    first call of PhaseSpace::setSize - main() itself without a start file, HDF5File::readPhaseSpace or makePSFromTXT
    with one.  Generated facts (Gen/Gen_NbSource.v by translate/nbsource2coq.py from main(), PhaseSpaceFactory.cpp,
    ElectricField.cpp; Gen/Gen_H5Index.v: readPhaseSpace, PhaseSpace::setSize, main()'s grid-size refusal), put together
    in Model/NbSource.v ([start_nb]: PhaseSpace::nb of a run that goes on, None when main() quits first).
    [bucket_index_in_bounds]: every field object of main() is given `bucketnumbers`; the bucket numbers are numbers of
    buckets of the pattern; and for EVERY start-up path (no file / HDF5 file of rank 3 or 4 with any extents and any
    InitialDistStep / text file), every GridSize and every filling pattern: if main() goes on, PhaseSpace::nb is at most
    the length of the bucket list, so every `_bucket[b]` of every generated site (loop bound PhaseSpace::nb or the list's
    own size) is inside the list.  The reason it holds on the file paths: the readers size the phase space with ONE
    bunch and main() quits when no bucket is filled (fix 12d296d); a results file that holds several bunches is refused
    by the reader ([multibunch_startfile_refused]: its data do not fit a one-bunch grid).  A reader that takes the number
    of bunches from the file breaks the first theorem unless main() compares it with the number of FILLED buckets. *)
From Inovesa Require Model.NbSourceTypes Gen.Gen_NbSource Model.NbSource Proofs.NbSourceP.
Theorem bucket_index_in_bounds :
  NbSource.fields_get_bucketnumbers = true /\
  (forall filling b, In b (NbSource.bucketnumbers filling) -> 0 <= b < Z.of_nat (List.length filling)) /\
  forall (s : NbSource.start) (gridsize : Z) (filling : list Z) (nb : Z),
    NbSource.start_nb s gridsize filling = Some nb ->
    nb <= Z.of_nat (List.length (NbSource.bucketnumbers filling)) /\
    forallb (NbSource.site_ok nb (Z.of_nat (List.length (NbSource.bucketnumbers filling)))) Gen_NbSource.gen_bucket_sites = true /\
    forall b, 0 <= b < nb -> (Z.to_nat b < List.length (NbSource.bucketnumbers filling))%nat.
Proof. exact NbSourceP.bucket_index_in_bounds_thm. Qed.
Print Assumptions bucket_index_in_bounds.

Theorem multibunch_startfile_refused :
  forall dims step gridsize filling, List.length dims = 4%nat -> 2 <= nth 1 dims 0 -> 0 < nth 2 dims 0 ->
    NbSource.start_nb (NbSource.H5File dims step) gridsize filling = None.
Proof. exact NbSourceP.multibunch_startfile_refused_thm. Qed.
Print Assumptions multibunch_startfile_refused.

(** the pinned main() (no guard on the number of filled buckets): `-I 0 -i start.h5` reaches the field objects with
    PhaseSpace::nb = 1 and an empty bucket list *)
Theorem bucket_index_pinned_refuted :
  exists filling dims step gridsize nb,
    NbSource.start_nb_with 0 (NbSource.H5File dims step) gridsize filling = Some nb /\
    NbSource.bucketnumbers filling = [] /\ 0 < nb.
Proof. exact NbSourceP.bucket_index_pinned_refuted_thm. Qed.
Print Assumptions bucket_index_pinned_refuted.

(** non-vacuity (an unfilled bucket is written -1: unfilled for a test `> 0` as for `>= 0`): a single-bunch results file
    continued with three buckets of which two are filled goes on with one
    bunch and the bucket list [2; 0]; without a file the same pattern gives two bunches; a pattern without a filled bucket
    and a two-bunch file do not go on *)
Example bucket_index_in_bounds_hyps :
  NbSource.start_nb (NbSource.H5File [3; 1; 32; 32] (-1)) 32 [1; -1; 1] = Some 1 /\
  NbSource.bucketnumbers [1; -1; 1] = [2; 0] /\
  NbSource.start_nb NbSource.NoFile 32 [1; -1; 1] = Some 2 /\
  NbSource.start_nb NbSource.TxtFile 32 [-1; 1] = Some 1 /\
  NbSource.start_nb NbSource.NoFile 32 [-1; -1] = None /\
  NbSource.start_nb (NbSource.H5File [3; 2; 32; 32] (-1)) 32 [1; 1] = None /\
  NbSource.start_nb (NbSource.H5File [3; 1; 16; 16] (-1)) 32 [1] = None.
Proof. vm_compute. repeat split; reflexivity. Qed.
