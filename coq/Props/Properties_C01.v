(** C01 - every transport step conserves charge (kick part; the Fokker-Planck part is in
    Properties_C01 section FP below once the stencil model is loaded). *)
From Coq Require Import List ZArith QArith Qcanon.
From Inovesa Require Import Base.FieldKit Base.Sums Base.Float32 Gen.Gen_Coeffs Model.Kick
  Proofs.WeightsP Proofs.KickP Proofs.KickGridP.
Local Open Scope Z_scope.

Theorem C01_weights_unity :
  forall (K : Fld) (it : Z) (f : K), valid_it it -> fsum (coeffs it f) = f1.
Proof. exact coeffs_unity. Qed.
Print Assumptions C01_weights_unity.

(** one row, table written by the model of updateSM for offset [o] *)
Theorem C01_row_kick_conserves :
  forall n it o (r : Z -> Qc),
    valid_it it -> 0 < n < 2 ^ 30 -> row_ok n it o r ->
    sumQ 0 (Z.to_nat n) (row_out n it (sm_entry n it o) r) = sumQ 0 (Z.to_nat n) r.
Proof. exact sm_row_conserves. Qed.
Print Assumptions C01_row_kick_conserves.

(** the whole bunch-major array, kick along y (wake kick, RF kick: any offset field) *)
Theorem C01_y_kick_conserves :
  forall n nb it (offs D : Z -> Qc),
    valid_it it -> 0 < n < 2 ^ 30 -> 0 < nb ->
    (forall b x, 0 <= b < nb -> 0 <= x < n ->
       row_ok n it (offs (Z.min b (nb - 1) * n + x)) (fun y => D (didx n b x y))) ->
    sumQ 0 (Z.to_nat (nb * n * n)) (apply_y n nb it (updateSM n it offs) D) =
    sumQ 0 (Z.to_nat (nb * n * n)) D.
Proof. exact kick_y_conserves. Qed.
Print Assumptions C01_y_kick_conserves.

(** ... and along x (drift) *)
Theorem C01_x_kick_conserves :
  forall n nb it (offs D : Z -> Qc),
    valid_it it -> 0 < n < 2 ^ 30 -> 0 < nb ->
    (forall b y, 0 <= b < nb -> 0 <= y < n ->
       row_ok n it (offs y) (fun x => D (didx n b x y))) ->
    sumQ 0 (Z.to_nat (nb * n * n)) (apply_x n nb it (updateSM n it offs) D) =
    sumQ 0 (Z.to_nat (nb * n * n)) D.
Proof. exact kick_x_conserves. Qed.
Print Assumptions C01_x_kick_conserves.

(** ** Fokker-Planck step (damping/diffusion), model of FokkerPlanckMap (Model/FokkerPlanck.v),
    stencil arithmetic regenerated from the constructor on every run (Gen/Gen_FPStencil.v).
    All statements hold in every field [K], for every damping decrement [e1], every grid
    spacing [delta <> 0], every uniform axis [p (j+1) = p j + delta] (any [pmin]) and every
    FPType [v] (0 none, 1 damping_only, 2 diffusion_only, 3 full). *)
From Inovesa Require Import Gen.Gen_FPStencil Model.FokkerPlanck Proofs.FokkerPlanckP.

(** column sums of the 3-point operator: the total weight with which input cell [k] of an energy
    column enters the output column is one, for every interior [k] *)
Theorem C01_fp3_column_sums :
  forall (K : Fld) (e1 delta : K) (p : Z -> K) (v n le m k : Z),
    n < 2 ^ 32 -> 2 <= k <= n - 3 -> uniform K delta p -> delta <> f0 ->
    colw K 3 (H3 K e1 delta p v n le m) (fun _ => f1) n k = f1.
Proof.
  intros K e1 delta p v n le m k Hn Hk Hax Hd.
  rewrite colw3_eval by assumption. exact (cw3_one K e1 delta p v k Hax Hd).
Qed.
Print Assumptions C01_fp3_column_sums.

(** one energy column with interior support *)
Theorem C01_fp3_conserves :
  forall (K : Fld) (e1 delta : K) (p : Z -> K) (v n le m : Z) (r : Z -> K),
    2 <= n < 2 ^ 32 -> supp r 2 (n - 2) -> uniform K delta p -> delta <> f0 ->
    sumZ 0 (Z.to_nat n) (fp_col_out 3 (H3 K e1 delta p v n le m) r) = sumZ 0 (Z.to_nat n) r.
Proof. exact fp3_moment0. Qed.
Print Assumptions C01_fp3_conserves.

(** the whole bunch-major array as FokkerPlanckMap::apply walks it: every column of every bunch *)
Theorem C01_fp3_conserves_grid :
  forall (K : Fld) (e1 delta : K) (p : Z -> K) (v n le m xs nb : Z) (D : Z -> K),
    2 <= n < 2 ^ 32 -> 0 < xs -> 0 <= nb -> uniform K delta p -> delta <> f0 ->
    (forall c, 0 <= c < nb * xs -> supp (fun s => D (c * n + s)) 2 (n - 2)) ->
    sumZ 0 (Z.to_nat (nb * xs * n)) (fp_apply n xs 3 (H3 K e1 delta p v n le m) D) =
    sumZ 0 (Z.to_nat (nb * xs * n)) D.
Proof. exact fp3_conserves_grid. Qed.
Print Assumptions C01_fp3_conserves_grid.
