(** C01 - every transport step conserves charge (kick part; the Fokker-Planck part is in
    Properties_C01 section FP below once the stencil model is loaded). *)
From Coq Require Import List ZArith QArith Qcanon Lia Bool.
From Inovesa Require Import Base.FieldKit Base.Sums Base.Float32 Gen.Gen_Coeffs Model.Kick
  Proofs.WeightsP Proofs.KickP Proofs.KickGridP.
Local Open Scope Z_scope.

Theorem C01_weights_unity :
  forall (K : Fld) (it : Z) (f : K), valid_it it -> fsum (coeffs it f) = f1.
Proof. exact coeffs_unity. Qed.
Print Assumptions C01_weights_unity.

(** one row, table written by the model of updateSM for offset [o] *)
Theorem C01_row_kick_conserves :
  forall n it o (r : Z -> Qc),
    valid_it it -> 0 < n < 2 ^ 30 -> row_ok n it o r ->
    sumQ 0 (Z.to_nat n) (row_out n it (sm_entry n it o) r) = sumQ 0 (Z.to_nat n) r.
Proof. exact sm_row_conserves. Qed.
Print Assumptions C01_row_kick_conserves.

(** the whole bunch-major array, kick along y (wake kick, RF kick: any offset field) *)
Theorem C01_y_kick_conserves :
  forall n nb it (offs D : Z -> Qc),
    valid_it it -> 0 < n < 2 ^ 30 -> 0 < nb ->
    (forall b x, 0 <= b < nb -> 0 <= x < n ->
       row_ok n it (offs (Z.min b (nb - 1) * n + x)) (rtrunc n (fun y => D (didx n b x y)))) ->
    sumQ 0 (Z.to_nat (nb * n * n)) (apply_y n nb it (updateSM n it offs) D) =
    sumQ 0 (Z.to_nat (nb * n * n)) D.
Proof. exact kick_y_conserves. Qed.
Print Assumptions C01_y_kick_conserves.

(** ... and along x (drift) *)
Theorem C01_x_kick_conserves :
  forall n nb it (offs D : Z -> Qc),
    valid_it it -> 0 < n < 2 ^ 30 -> 0 < nb ->
    (forall b y, 0 <= b < nb -> 0 <= y < n ->
       row_ok n it (offs y) (rtrunc n (fun x => D (didx n b x y)))) ->
    sumQ 0 (Z.to_nat (nb * n * n)) (apply_x n nb it (updateSM n it offs) D) =
    sumQ 0 (Z.to_nat (nb * n * n)) D.
Proof. exact kick_x_conserves. Qed.
Print Assumptions C01_x_kick_conserves.

(** non-vacuity of the grid theorems: a 2-bunch 8x8 grid with charge in the interior of EVERY row
    of both bunches meets the row hypothesis for a fractional offset *)
Example C01_y_kick_hypotheses_satisfiable :
  let D := fun i => if ((2 <=? i mod 8) && (i mod 8 <? 6))%bool then Qcz (1 + i mod 5) else 0%Qc in
  forall b x, 0 <= b < 2 -> 0 <= x < 8 ->
    row_ok 8 4 (Q2Qc (3 # 8)) (rtrunc 8 (fun y => D (didx 8 b x y))).
Proof.
  intros D b x Hb Hx. unfold row_ok.
  assert (E : sp_int (poffs_split 8 (Q2Qc (3 # 8))) = 4) by (vm_compute; reflexivity).
  rewrite E. unfold centre. cbn. repeat split; try lia.
  exists 2, 6. repeat split; try lia.
  intros i Hi. unfold rtrunc.
  destruct ((0 <=? i) && (i <? 8))%bool eqn:T; [|reflexivity].
  apply Bool.andb_true_iff in T. destruct T as [T1 T2]. apply Z.leb_le in T1. apply Z.ltb_lt in T2.
  unfold D, didx.
  replace ((b * 8 * 8 + x * 8 + i) mod 8) with i
    by (apply (Z.mod_unique_pos _ _ (b * 8 + x)); lia).
  destruct ((2 <=? i) && (i <? 6))%bool eqn:U; [|reflexivity].
  apply Bool.andb_true_iff in U. destruct U as [U1 U2]. apply Z.leb_le in U1. apply Z.ltb_lt in U2. lia.
Qed.
