(** C01 - every transport step conserves charge (kick part; the Fokker-Planck part is in
    Properties_C01 section FP below once the stencil model is loaded). *)
From Coq Require Import List ZArith QArith Qcanon Lia Bool.
From Inovesa Require Import Base.FieldKit Base.Sums Base.Float32 Gen.Gen_Coeffs Model.Kick
  Proofs.WeightsP Proofs.KickP Proofs.KickGridP.
Import ListNotations.
Local Open Scope Z_scope.

Theorem C01_weights_unity :
  forall (K : Fld) (it : Z) (f : K), valid_it it -> fsum (coeffs it f) = f1.
Proof. exact coeffs_unity. Qed.
Print Assumptions C01_weights_unity.

(** one row, table written by the model of updateSM for offset [o] *)
Theorem C01_row_kick_conserves :
  forall n it o (r : Z -> Qc),
    valid_it it -> 0 < n < 2 ^ 30 -> row_ok n it o r ->
    sumQ 0 (Z.to_nat n) (row_out n it (sm_entry n it o) r) = sumQ 0 (Z.to_nat n) r.
Proof. exact sm_row_conserves. Qed.
Print Assumptions C01_row_kick_conserves.

(** the whole bunch-major array, kick along y (wake kick, RF kick: any offset field) *)
Theorem C01_y_kick_conserves :
  forall n nb it (offs D : Z -> Qc),
    valid_it it -> 0 < n < 2 ^ 30 -> 0 < nb ->
    (forall b x, 0 <= b < nb -> 0 <= x < n ->
       row_ok n it (offs (Z.min b (nb - 1) * n + x)) (rtrunc n (fun y => D (didx n b x y)))) ->
    sumQ 0 (Z.to_nat (nb * n * n)) (apply_y n nb it (updateSM n it offs) D) =
    sumQ 0 (Z.to_nat (nb * n * n)) D.
Proof. exact kick_y_conserves. Qed.
Print Assumptions C01_y_kick_conserves.

(** ... and along x (drift) *)
Theorem C01_x_kick_conserves :
  forall n nb it (offs D : Z -> Qc),
    valid_it it -> 0 < n < 2 ^ 30 -> 0 < nb ->
    (forall b y, 0 <= b < nb -> 0 <= y < n ->
       row_ok n it (offs y) (rtrunc n (fun x => D (didx n b x y)))) ->
    sumQ 0 (Z.to_nat (nb * n * n)) (apply_x n nb it (updateSM n it offs) D) =
    sumQ 0 (Z.to_nat (nb * n * n)) D.
Proof. exact kick_x_conserves. Qed.
Print Assumptions C01_x_kick_conserves.

(** non-vacuity of the grid theorems: a 2-bunch 8x8 grid with charge in the interior of EVERY row
    of both bunches meets the row hypothesis for a fractional offset *)
Example C01_y_kick_hypotheses_satisfiable :
  let D := fun i => if ((2 <=? i mod 8) && (i mod 8 <? 6))%bool then Qcz (1 + i mod 5) else 0%Qc in
  forall b x, 0 <= b < 2 -> 0 <= x < 8 ->
    row_ok 8 4 (Q2Qc (3 # 8)) (rtrunc 8 (fun y => D (didx 8 b x y))).
Proof.
  intros D b x Hb Hx. unfold row_ok.
  assert (E : sp_int (poffs_split 8 (Q2Qc (3 # 8))) = 4) by (vm_compute; reflexivity).
  rewrite E. unfold centre. cbn. repeat split; try lia.
  exists 2, 6. repeat split; try lia.
  intros i Hi. unfold rtrunc.
  destruct ((0 <=? i) && (i <? 8))%bool eqn:T; [|reflexivity].
  apply Bool.andb_true_iff in T. destruct T as [T1 T2]. apply Z.leb_le in T1. apply Z.ltb_lt in T2.
  unfold D, didx.
  replace ((b * 8 * 8 + x * 8 + i) mod 8) with i
    by (apply (Z.mod_unique_pos _ _ (b * 8 + x)); lia).
  destruct ((2 <=? i) && (i <? 6))%bool eqn:U; [|reflexivity].
  apply Bool.andb_true_iff in U. destruct U as [U1 U2]. apply Z.leb_le in U1. apply Z.ltb_lt in U2. lia.
Qed.

(** ** the same about the GENERATED body of KickMap::updateSM (family usm).  Gen/Gen_UpdateSM.v is regenerated from
    src/SM/KickMap.cpp on every run (translate/updatesm2coq.py: symbolic execution of one iteration of the loop over
    [_offset] with the C++ arithmetic as it is - the size halved in unsigned arithmetic and converted to float, the
    binary32 sum, std::modf, the guard on the float integer part, the float -> unsigned conversion, the unsigned source
    index [jd + j1 - (it-1)/2] before wrap-around, the range test, the entry of each branch, the slot, the loops).
    [usm_entry n it o j1] is the entry that code writes for offset [o] and stencil point [j1]; [usm_gen_table n it size offs]
    the table [_hinfo] after the generated loops ran over an offset vector of [size] entries.  The bound n < 2^24 is where
    the int -> float conversions of the source are exact; nb*n*it <= 2^32 keeps the table subscript inside [meshindex_t].
    A changed centre, bound, fallback entry, guard, halving or slot breaks these theorems (Proofs/UpdateSMGenP.v). *)
From Inovesa Require Import Model.UsmOps Gen.Gen_UpdateSM Proofs.UpdateSMGenP.

Theorem C01_updateSM_generated_is_model :
  forall n it o j1,
    valid_it it -> 0 < n < 2 ^ 24 -> 0 <= j1 < it -> usm_entry n it o j1 = sm_entry n it o j1.
Proof. exact usm_entry_model. Qed.
Print Assumptions C01_updateSM_generated_is_model.

Theorem C01_updateSM_generated_table :
  forall n it size offs k,
    valid_it it -> 0 < n < 2 ^ 24 -> 0 <= size -> size * it <= 2 ^ 32 -> 0 <= k < size * it ->
    usm_gen_table n it size offs k = updateSM n it offs k.
Proof. exact usm_gen_table_spec. Qed.
Print Assumptions C01_updateSM_generated_table.

Theorem C01_row_kick_conserves_generated :
  forall n it o (r : Z -> Qc),
    valid_it it -> 0 < n < 2 ^ 24 -> row_ok n it o r ->
    sumQ 0 (Z.to_nat n) (row_out n it (usm_entry n it o) r) = sumQ 0 (Z.to_nat n) r.
Proof. exact gen_row_conserves. Qed.
Print Assumptions C01_row_kick_conserves_generated.

Theorem C01_y_kick_conserves_generated :
  forall n nb it (offs D : Z -> Qc),
    valid_it it -> 0 < n < 2 ^ 24 -> 0 < nb -> nb * n * it <= 2 ^ 32 ->
    (forall b x, 0 <= b < nb -> 0 <= x < n ->
       row_ok n it (offs (Z.min b (nb - 1) * n + x)) (rtrunc n (fun y => D (didx n b x y)))) ->
    sumQ 0 (Z.to_nat (nb * n * n)) (apply_y n nb it (usm_gen_table n it (nb * n) offs) D) =
    sumQ 0 (Z.to_nat (nb * n * n)) D.
Proof. exact gen_kick_y_conserves. Qed.
Print Assumptions C01_y_kick_conserves_generated.

Theorem C01_x_kick_conserves_generated :
  forall n nb it (offs D : Z -> Qc),
    valid_it it -> 0 < n < 2 ^ 24 -> 0 < nb -> nb * n * it <= 2 ^ 32 ->
    (forall b y, 0 <= b < nb -> 0 <= y < n ->
       row_ok n it (offs y) (rtrunc n (fun x => D (didx n b x y)))) ->
    sumQ 0 (Z.to_nat (nb * n * n)) (apply_x n nb it (usm_gen_table n it (nb * n) offs) D) =
    sumQ 0 (Z.to_nat (nb * n * n)) D.
Proof. exact gen_kick_x_conserves. Qed.
Print Assumptions C01_x_kick_conserves_generated.

(** non-vacuity: the generated code run on concrete offsets (n = 8, cubic): an interior fractional offset, the
    stencil leaving the table range at the top, an offset outside the guard; the generated table of a two-entry
    offset vector *)
Example C01_updateSM_generated_example :
  let show := fun e : Z * Qc => (fst e, this (snd e)) in
  (map (fun j => fst (usm_entry 8 4 (Q2Qc (3 # 8)) j)) (zrange 4) = [3; 4; 5; 6]) /\
  (this (qsum (map (fun j => snd (usm_entry 8 4 (Q2Qc (3 # 8)) j)) (zrange 4))) = 1%Q) /\
  (map (fun j => show (usm_entry 8 4 (Q2Qc (11 # 4)) j)) (zrange 4) =
    [(5, (-5 # 128)%Q); (6, (35 # 128)%Q); (7, (105 # 128)%Q); (4, 0%Q)]) /\
  (map (fun j => show (usm_entry 8 4 (Qcz (-6)) j)) (zrange 4) = [(4, 0%Q); (4, 0%Q); (4, 0%Q); (4, 0%Q)]) /\
  (map (fun k => fst (usm_gen_table 8 2 2 (fun i => if i =? 0 then Qcz 1 else Qcz (-9)) k)) (zrange 5) = [5; 6; 4; 4; 0]).
Proof. vm_compute. repeat split; reflexivity. Qed.

(** ** Fokker-Planck step (damping/diffusion), model of FokkerPlanckMap (Model/FokkerPlanck.v),
    stencil arithmetic regenerated from the constructor on every run (Gen/Gen_FPStencil.v).
    All statements hold in every field [K], for every damping decrement [e1], every grid
    spacing [delta <> 0], every uniform axis [p (j+1) = p j + delta] (any [pmin]) and every
    FPType [v] (0 none, 1 damping_only, 2 diffusion_only, 3 full). *)
From Coq Require Import Lia.
From Inovesa Require Import Gen.Gen_FPStencil Model.FokkerPlanck Proofs.FPGridP Proofs.FokkerPlanckP.

(** column sums of the 3-point operator: the total weight with which input cell [k] of an energy
    column enters the output column is one, for every interior [k] *)
Theorem C01_fp3_column_sums :
  forall (K : Fld) (e1 delta : K) (p : Z -> K) (v n le m k : Z),
    n < 2 ^ 32 -> 2 <= k <= n - 3 -> uniform K delta p -> delta <> f0 ->
    colw K 3 (H3 K e1 delta p v n le m) (fun _ => f1) n k = f1.
Proof. exact fp3_column_sums. Qed.
Print Assumptions C01_fp3_column_sums.

(** one energy column with interior support *)
Theorem C01_fp3_conserves :
  forall (K : Fld) (e1 delta : K) (p : Z -> K) (v n le m : Z) (r : Z -> K),
    2 <= n < 2 ^ 32 -> supp r 2 (n - 2) -> uniform K delta p -> delta <> f0 ->
    sumZ 0 (Z.to_nat n) (fp_col_out 3 (H3 K e1 delta p v n le m) r) = sumZ 0 (Z.to_nat n) r.
Proof. exact fp3_moment0. Qed.
Print Assumptions C01_fp3_conserves.

(** the whole bunch-major array as FokkerPlanckMap::apply walks it: every column of every bunch.
    Each column is restricted to its own [n] cells ([colclip K n]): the flat array goes on with the next
    column, so a support hypothesis on the unrestricted function [s => D (c*n+s)] - as an earlier
    version of this theorem had it - would force all other columns to vanish. *)
Theorem C01_fp3_conserves_grid :
  forall (K : Fld) (e1 delta : K) (p : Z -> K) (v n le m xs nb : Z) (D : Z -> K),
    2 <= n < 2 ^ 32 -> 0 < xs -> 0 <= nb -> uniform K delta p -> delta <> f0 ->
    (forall c, 0 <= c < nb * xs -> supp (colclip K n (fun s => D (c * n + s))) 2 (n - 2)) ->
    sumZ 0 (Z.to_nat (nb * xs * n)) (fp_apply n xs 3 (H3 K e1 delta p v n le m) D) =
    sumZ 0 (Z.to_nat (nb * xs * n)) D.
Proof. exact fp3_conserves_grid_cols. Qed.
Print Assumptions C01_fp3_conserves_grid.

(** *** 4-point one-sided stencil.  [m = (meshindex_t) zerobin] is the row where the stencil switches
    sides, [le] the end of the first loop ([dom4]: m <= le <= m+1, 2 <= m <= n-2, n < 2^32).
    Every interior column sum is [1 + e1 * c4 k] with damping, [1] without; [c4 k] vanishes outside
    the four rows m-2..m+1, where it is -p_m/6d, (3p_m-d)/6d, -(3p_m-2d)/6d, (p_m-d)/6d. *)
Theorem C01_fp4_column_sums :
  forall (K : Fld) (e1 delta : K) (p : Z -> K) (v n le m k : Z),
    dom4 n le m -> uniform K delta p -> delta <> f0 -> 5 <= m <= n - 5 -> 3 <= k <= n - 4 ->
    colw K 4 (H4 K e1 delta p v n le m) (fun _ => f1) n k =
    fadd f1 (fmul (opt (has_damp v) e1) (c4 K delta p m k)).
Proof. exact fp4_column_sum. Qed.
Print Assumptions C01_fp4_column_sums.

Theorem C01_fp4_defect_rows :
  forall (K : Fld) (delta : K) (p : Z -> K) (m k : Z), k < m - 2 \/ m + 1 < k -> c4 K delta p m k = f0.
Proof. exact c4_outside. Qed.
Print Assumptions C01_fp4_defect_rows.

(** the charge defect of one column, and of the whole array: proportional to the damping decrement,
    confined to the four switch rows; exactly zero for diffusion_only and none *)
Theorem C01_fp4_defect :
  forall (K : Fld) (e1 delta : K) (p : Z -> K) (v n le m : Z) (r : Z -> K),
    dom4 n le m -> uniform K delta p -> delta <> f0 -> 5 <= m <= n - 5 -> supp r 3 (n - 3) ->
    sumZ 0 (Z.to_nat n) (fp_col_out 4 (H4 K e1 delta p v n le m) r) =
    fadd (sumZ 0 (Z.to_nat n) r) (fmul (opt (has_damp v) e1) (sw4 K delta p m r)).
Proof. exact fp4_defect. Qed.
Print Assumptions C01_fp4_defect.

Theorem C01_fp4_defect_grid :
  forall (K : Fld) (e1 delta : K) (p : Z -> K) (v n le m xs nb : Z) (D : Z -> K),
    dom4 n le m -> uniform K delta p -> delta <> f0 -> 5 <= m <= n - 5 -> 0 < xs -> 0 <= nb ->
    (forall c, 0 <= c < nb * xs -> supp (colclip K n (fun s => D (c * n + s))) 3 (n - 3)) ->
    sumZ 0 (Z.to_nat (nb * xs * n)) (fp_apply n xs 4 (H4 K e1 delta p v n le m) D) =
    fadd (sumZ 0 (Z.to_nat (nb * xs * n)) D)
         (fmul (opt (has_damp v) e1)
               (sumZ 0 (Z.to_nat (nb * xs)) (fun c => sw4 K delta p m (fun s => D (c * n + s))))).
Proof. exact fp4_defect_grid_cols. Qed.
Print Assumptions C01_fp4_defect_grid.

Theorem C01_fp4_conserves_without_damping :
  forall (K : Fld) (e1 delta : K) (p : Z -> K) (v n le m : Z) (r : Z -> K),
    dom4 n le m -> uniform K delta p -> delta <> f0 -> 5 <= m <= n - 5 -> supp r 3 (n - 3) ->
    has_damp v = false ->
    sumZ 0 (Z.to_nat n) (fp_col_out 4 (H4 K e1 delta p v n le m) r) = sumZ 0 (Z.to_nat n) r.
Proof. exact fp4_conserves_nodamp. Qed.
Print Assumptions C01_fp4_conserves_without_damping.

(** the identity map (inc/SM/Identity.hpp copies the array) conserves trivially; stated for completeness *)
Theorem C01_identity_conserves :
  forall (K : Fld) (N : nat) (D : Z -> K), sumZ 0 N (fun i => D i) = sumZ 0 N D.
Proof. intros K N D. reflexivity. Qed.
Print Assumptions C01_identity_conserves.

(** non-vacuity: a uniform axis, a domain, and a concrete column over Qc (n = 12, zero bin 5.5:
    m = 5, le = 6); the 4-point damping step changes the sum of a unit impulse at the switch row *)
Example C01_fp_example_axis :
  uniform QcF (Q2Qc (1 # 2)) (fun j => (Qcz j * Q2Qc (1 # 2) - Q2Qc (11 # 4))%Qc)
  /\ dom4 12 6 5 /\ 5 <= 5 <= 12 - 5 /\ Q2Qc (1 # 2) <> 0%Qc.
Proof.
  split; [|split; [unfold dom4; lia|split; [lia|discriminate]]].
  intros j. qc_unf. rewrite <- Qcz_add. change (Qcz 1) with 1%Qc. ring.
Qed.

(** non-vacuity of the grid hypotheses: a 2-bunch, 2-column, n = 12 array with a non-zero entry in
    EVERY column (rows 4..7) meets [supp (clip ...) 3 (n-3)] (hence also 2 (n-2)) for every column *)
Example C01_fp_grid_hypotheses_satisfiable :
  let D := fun i : Z => if ((3 <=? i mod 12) && (i mod 12 <? 9) && (0 <=? i) && (i <? 48))%bool then Qcz (1 + i) else 0%Qc in
  (forall c, 0 <= c < 2 * 2 -> supp (K:=QcF) (colclip QcF 12 (fun s => D (c * 12 + s))) 3 (12 - 3)) /\
  (forall c, 0 <= c < 2 * 2 -> D (c * 12 + 5) <> 0%Qc).
Proof.
  cbv zeta. split.
  - intros c Hc i Hi. unfold colclip.
    destruct (Z.leb_spec 0 i); destruct (Z.ltb_spec i 12); cbn [andb]; try reflexivity.
    replace ((c * 12 + i) mod 12) with i by (rewrite Z.add_comm, Z.mod_add by lia; symmetry; apply Z.mod_small; lia).
    destruct (Z.leb_spec 3 i); destruct (Z.ltb_spec i 9); cbn [andb]; try reflexivity; lia.
  - intros c Hc. assert (c = 0 \/ c = 1 \/ c = 2 \/ c = 3) as [-> | [-> | [-> | ->]]] by lia; vm_compute; discriminate.
Qed.

(** ** Identity map on the multi-bunch grid (family run).  [ident_apply] (Model/Copy.v) is the copy loop of
    Identity::apply with the element count and the source/destination indices GENERATED from inc/SM/Identity.hpp
    (Gen/Gen_Identity.v): every cell of every bunch is handed on unchanged, nothing beyond the nb*nx*ny cells of the
    target is touched, hence the total charge of the grid is the same - for every bunch count and grid size.
    (A copy of one bunch only, or one element short, makes [id_count_model] and with it these theorems fail.) *)
From Inovesa Require Import Gen.Gen_Identity Model.Copy Proofs.CopyP.

Theorem C01_identity_data_unchanged :
  forall nb n (D old : Z -> Qc) i, 0 <= i < nb * n * n -> ident_apply nb n n D old i = D i.
Proof. exact ident_copies. Qed.
Print Assumptions C01_identity_data_unchanged.

Theorem C01_identity_touches_nothing_else :
  forall nb n (D old : Z -> Qc) i, i < 0 \/ nb * n * n <= i -> ident_apply nb n n D old i = old i.
Proof. exact ident_leaves_rest. Qed.
Print Assumptions C01_identity_touches_nothing_else.

Theorem C01_identity_conserves_grid :
  forall nb n (D old : Z -> Qc),
    sumZ (K:=QcF) 0 (Z.to_nat (nb * n * n)) (ident_apply nb n n D old) = sumZ (K:=QcF) 0 (Z.to_nat (nb * n * n)) D.
Proof. exact ident_conserves_grid. Qed.
Print Assumptions C01_identity_conserves_grid.

(** computed instance: three bunches of 2x2 cells over a target that held other data *)
Example C01_identity_example :
  map (ident_apply 3 2 2 (fun i => Qcz (i * i - 7)) (fun _ => Qcz 99)) (zrange 14)
  = map (fun i => Qcz (i * i - 7)) (zrange 12) ++ (Qcz 99 :: Qcz 99 :: nil).
Proof. vm_compute. reflexivity. Qed.

(** ** "up to single-precision rounding", proved (family [round]): Proofs/RoundingP.v (standard model of
    binary32 from Flocq), StencilRoundP.v (one output cell accumulated in float, any order, fused or not),
    KickRoundP.v (one kick of one row), FPRoundP.v (the Fokker-Planck stencil operator).  Real numbers:
    the axioms are those of the standard library's reals. *)
From Coq Require Import Reals List.
From Inovesa Require Import Base.RInst Gen.Gen_CoeffsFl Model.FExpr Proofs.RoundingP Proofs.FExprP
  Proofs.CoeffsRoundP Proofs.StencilRoundP Proofs.KickRoundP Proofs.FPRoundP.

(** a sum of k terms, each rounded at most once when formed, added pairwise in ANY order and tree shape
    with every addition rounded at most once (left-to-right loop, vectorised reduction, fused
    accumulation): error <= ((1+u)^k - 1) Sum|t_i| + (2k-1)(1+u)^k eta *)
Theorem C01_float_sum_any_order :
  forall (u eta : R), (0 <= u)%R -> (0 <= eta)%R ->
  forall (l : list R) (v : R), psum1 u eta l v ->
    (Rabs (v - Rsum l) <= ((1 + u) ^ length l - 1) * Rasum l + psum_abs u eta (length l))%R.
Proof. exact psum1_bound. Qed.
Print Assumptions C01_float_sum_any_order.

(** the C++ loops [value = 0; value += a_j * b_j] in binary32, unfused and fused, are such sums *)
Theorem C01_cpp_loop_is_float_sum :
  forall ts : list (R * R),
    psum_opt (map (fun ab => (fst ab * snd ab)%R) ts) (acc_rn ts 0) /\
    psum_opt (map (fun ab => (fst ab * snd ab)%R) ts) (acc_fma ts 0).
Proof. intros ts. exact (conj (loop_rn_psum ts) (loop_fma_psum ts)). Qed.
Print Assumptions C01_cpp_loop_is_float_sum.

(** one kick of one row, any table indices inside the table, exact weights w summing to one, stored
    float weights wh, support clear of the border under every stencil shift, signed data *)
Theorem C01_row_kick_rounding :
  forall (n it : Z) (idx : Z -> Z) (r : Z -> R),
    0 < n < 2 ^ 30 -> 0 <= it -> (forall j, 0 <= j < it -> 0 <= idx j < n) ->
  forall a b : Z, supp (K:=RF) r a b -> 0 <= a /\ a <= b /\ b <= n ->
    (forall j, 0 <= j < it -> 0 <= a - (idx j - n / 2) /\ b - (idx j - n / 2) <= n) ->
  forall (w wh out : Z -> R) (k : nat),
    sumZ (K:=RF) 0 (Z.to_nat it) w = 1%R -> (Z.to_nat it <= k)%nat -> (1 <= k)%nat ->
    row_computed n it idx wh r out ->
    (Rabs (sumZ (K:=RF) 0 (Z.to_nat n) out - sumZ (K:=RF) 0 (Z.to_nat n) r) <=
     sumZ (K:=RF) 0 (Z.to_nat it) (fun j => cw k (w j) (wh j)) * sumZ (K:=RF) 0 (Z.to_nat n) (fun i => Rabs (r i))
     + INR (Z.to_nat n) * A32 k)%R.
Proof. exact rowR_rounding. Qed.
Print Assumptions C01_row_kick_rounding.

(** ... with the table of updateSM: indices of the model, exact weights coeffs it f, stored weights any
    admissible binary32 evaluation of calcCoefficiants at f = frac (fl (n/2 + offset)) >= 0 *)
Theorem C01_sm_row_kick_rounding :
  forall (n it : Z) (o : Qc) (r out : Z -> R) (whs : list R),
    valid_it it -> 0 < n < 2 ^ 30 -> row_okR n it o r ->
    (0 <= rnd32 (Qcz (n / 2) + o))%Qc ->
    computed_weights it (qr (sp_frac (poffs_split n o))) whs ->
    row_computed n it (fun j => fst (sm_entry n it o j)) (nthR whs) r out ->
    (Rabs (sumZ (K:=RF) 0 (Z.to_nat n) out - sumZ (K:=RF) 0 (Z.to_nat n) r) <=
     Crow it * u32 * sumZ (K:=RF) 0 (Z.to_nat n) (fun i => Rabs (r i)) + INR (Z.to_nat n) * A32 (Z.to_nat it))%R.
Proof. exact sm_row_rounding. Qed.
Print Assumptions C01_sm_row_kick_rounding.

(** the hypotheses are met by the plain loop, fused or not *)
Theorem C01_row_loop_is_computed :
  forall (fused : bool) (n it : Z) (idx : Z -> Z) (wh r : Z -> R),
    row_computed n it idx wh r (row_loop fused n it idx wh r).
Proof. exact row_loop_computed. Qed.
Print Assumptions C01_row_loop_is_computed.

(** Fokker-Planck, any table H of exact weights and any stored weights wh at the same indices *)
Theorem C01_fp_column_rounding :
  forall (n ip : Z) (H : Z -> Z * R) (wh r out : Z -> R),
    1 <= ip -> 0 <= n ->
    (forall y j, 0 <= y < n -> 0 <= j < ip -> 0 <= fst (H (y * ip + j)) < n) ->
    col_computed n ip (fun k => fst (H k)) wh r out ->
    (Rabs (sumZ (K:=RF) 0 (Z.to_nat n) out - sumZ (K:=RF) 0 (Z.to_nat n) (fp_col_out (K:=RF) ip H r)) <=
     sumZ (K:=RF) 0 (Z.to_nat n) (fun k => Rabs (r k) * colw RF ip (cw_table ip H wh) (fun _ => 1%R) n k)
     + INR (Z.to_nat n) * A32 (Z.to_nat ip))%R.
Proof. exact col_rounding_transposed. Qed.
Print Assumptions C01_fp_column_rounding.

Theorem C01_fp_loop_is_computed :
  forall (fused : bool) (n ip : Z) (idx : Z -> Z) (wh r : Z -> R),
    col_computed n ip idx wh r (col_loop fused ip idx wh r).
Proof. exact col_loop_computed. Qed.
Print Assumptions C01_fp_loop_is_computed.

(** the 3-point operator of the model: an interior-supported column keeps its sum up to that term *)
Theorem C01_fp3_rounding :
  forall (e1 delta : R) (p : Z -> R) (v n le m : Z) (wh r out : Z -> R),
    2 <= n < 2 ^ 32 -> supp (K:=RF) r 2 (n - 2) -> uniform RF delta p -> delta <> 0%R ->
    col_computed n 3 (fun k => fst (H3 RF e1 delta p v n le m k)) wh r out ->
    (Rabs (sumZ (K:=RF) 0 (Z.to_nat n) out - sumZ (K:=RF) 0 (Z.to_nat n) r) <=
     sumZ (K:=RF) 0 (Z.to_nat n)
       (fun k => Rabs (r k) * colw RF 3 (cw_table 3 (H3 RF e1 delta p v n le m) wh) (fun _ => 1%R) n k)
     + INR (Z.to_nat n) * A32 3)%R.
Proof. exact fp3_rounding. Qed.
Print Assumptions C01_fp3_rounding.

Theorem C01_fp3_rounding_uniform :
  forall (e1 delta : R) (p : Z -> R) (v n le m : Z) (wh r out : Z -> R) (C : R),
    2 <= n < 2 ^ 32 -> supp (K:=RF) r 2 (n - 2) -> uniform RF delta p -> delta <> 0%R ->
    col_computed n 3 (fun k => fst (H3 RF e1 delta p v n le m k)) wh r out ->
    (forall k, 0 <= k < n -> (colw RF 3 (cw_table 3 (H3 RF e1 delta p v n le m) wh) (fun _ => 1%R) n k <= C)%R) ->
    (Rabs (sumZ (K:=RF) 0 (Z.to_nat n) out - sumZ (K:=RF) 0 (Z.to_nat n) r) <=
     C * sumZ (K:=RF) 0 (Z.to_nat n) (fun k => Rabs (r k)) + INR (Z.to_nat n) * A32 3)%R.
Proof. exact fp3_rounding_uniform. Qed.
Print Assumptions C01_fp3_rounding_uniform.

(** rows and columns add up: the per-row / per-column bounds above bound the change of the plain sum over all cells of all
    bunches ([g i], [h i]: output and input sum of row i) *)
Theorem C01_rows_add_up :
  forall (lo : Z) (len : nat) (g h b : Z -> R),
    (forall i, lo <= i < lo + Z.of_nat len -> (Rabs (g i - h i) <= b i)%R) ->
    (Rabs (sumZ (K:=RF) lo len g - sumZ (K:=RF) lo len h) <= sumZ (K:=RF) lo len b)%R.
Proof. exact rows_add_up. Qed.
Print Assumptions C01_rows_add_up.

(** the same for ANY energy axis (the float axis of the implementation is uniform only up to rounding): the
    column sum of the exact 3-point table is 1 + e1 (1 - (p(k+1) - p(k-1)) / (2 delta)) with damping, 1 without *)
Theorem C01_fp3_column_sum_any_axis :
  forall (e1 delta : R) (p : Z -> R) (v k : Z), delta <> 0%R ->
    cw3 RF e1 delta p v (fun _ => 1%R) k = (1 + axis_defect e1 delta p v k)%R.
Proof. exact cw3_general. Qed.
Print Assumptions C01_fp3_column_sum_any_axis.

Theorem C01_fp3_rounding_any_axis :
  forall (e1 delta : R) (p : Z -> R) (v n le m : Z) (wh r out : Z -> R),
    2 <= n < 2 ^ 32 -> supp (K:=RF) r 2 (n - 2) -> delta <> 0%R ->
    col_computed n 3 (fun k => fst (H3 RF e1 delta p v n le m k)) wh r out ->
    (Rabs (sumZ (K:=RF) 0 (Z.to_nat n) out - sumZ (K:=RF) 0 (Z.to_nat n) r) <=
     sumZ (K:=RF) 0 (Z.to_nat n) (fun k => Rabs (r k) *
        (Rabs (axis_defect e1 delta p v k) +
         colw RF 3 (cw_table 3 (H3 RF e1 delta p v n le m) wh) (fun _ => 1%R) n k))
     + INR (Z.to_nat n) * A32 3)%R.
Proof. exact fp3_rounding_axis. Qed.
Print Assumptions C01_fp3_rounding_any_axis.

(** the constants of [C01_sm_row_kick_rounding]; A32 k = (2k-1)(1+2^-24)^k 2^-150 *)
Example C01_rounding_constants :
  map CrowQ (1 :: 2 :: 3 :: 4 :: nil) = ((1001 # 1000) :: (32 # 10) :: (82 # 10) :: (126 # 10) :: nil)%Q.
Proof. reflexivity. Qed.

(** ** (family stfp) the Fokker-Planck part for the loop nest FokkerPlanckMap::apply has NOW
    ([Gen/Gen_FPLoop.v], regenerated on every run; the translator refuses conditionals, [continue], [break], calls -
    any data-dependent shortcut - inside the nest; [fp_apply_loops] of Model/FPLoop.v runs it on the output array):
    the nest leaves [fp_apply] in every cell of the grid (proved in Proofs/FPLoopP.v, stated in full in
    Properties_C04.v), so the 3-point stencil conserves the charge of the array the nest writes. *)
From Inovesa Require Import Gen.Gen_FPLoop Model.FPLoop Proofs.FPLoopP Proofs.FPLoopGridP.

Theorem C01_fp_loop_nest_is_fp_apply :
  forall (K : Fld) (nb xs n ip : Z) (H : Z -> Z * K) (D out0 : Z -> K) (i : Z),
    (0 < n)%Z -> (0 < xs)%Z -> (0 <= nb)%Z -> (0 <= i < nb * xs * n)%Z ->
    fp_apply_loops nb xs n ip H D out0 i = fp_apply n xs ip H D i.
Proof. exact fp_apply_loops_is_fp_apply. Qed.
Print Assumptions C01_fp_loop_nest_is_fp_apply.

Theorem C01_fp3_loop_nest_conserves_grid :
  forall (K : Fld) (e1 delta : K) (p : Z -> K) (v n le m xs nb : Z) (D out0 : Z -> K),
    (2 <= n < 2 ^ 32)%Z -> (0 < xs)%Z -> (0 <= nb)%Z -> uniform K delta p -> delta <> f0 ->
    (forall c, (0 <= c < nb * xs)%Z -> supp (colclip K n (fun s => D (c * n + s)%Z)) 2 (n - 2)) ->
    sumZ 0 (Z.to_nat (nb * xs * n)) (fp_apply_loops nb xs n 3 (H3 K e1 delta p v n le m) D out0) =
    sumZ 0 (Z.to_nat (nb * xs * n)) D.
Proof. exact fp3_loops_conserve_grid. Qed.
Print Assumptions C01_fp3_loop_nest_conserves_grid.

(** ** the loop nests of KickMap::apply (family st3kick).  [Gen/Gen_KickLoop.v] (translate/kickloop2coq.py, regenerated on
    every run) holds the ranges of the four loops and the index expressions of BOTH branches of KickMap::apply; the
    translator refuses any statement outside the idiom - any conditional but the source-cell guard, [continue], [break],
    calls, locals that are not index arithmetic: a skipped bunch (filling pattern), a skipped or zero-filled column (cached
    profile), a clamped value.  [kick_y_loops] / [kick_x_loops] (Model/KickLoop.v) run the nests on the output array.
    Every cell of every bunch of the output is written - whatever the target grid held before - with the cell function
    [apply_y_cell] / [apply_x_cell] the conservation theorems above are about; the extracted model the correspondence
    runs is the nest. *)
Module KickLoopFamily.
From Inovesa Require Import Gen.Gen_KickLoop Model.KickLoop Proofs.KickLoopP.

Theorem C01_kick_apply_every_cell :
  forall nb n it (H : Z -> Z * Qc) (D out0 : Z -> Qc) b x y,
    (0 < n)%Z -> (0 <= b < nb)%Z -> (0 <= x < n)%Z -> (0 <= y < n)%Z ->
    kick_y_loops nb n n it (nb - 1) H D out0 (didx n b x y) = apply_y_cell n nb it H D b x y /\
    kick_x_loops nb n n it (nb - 1) H D out0 (didx n b x y) = apply_x_cell n nb it H D b x y.
Proof. exact kick_apply_every_cell. Qed.
Print Assumptions C01_kick_apply_every_cell.

Theorem C01_kick_apply_writes_nothing_else :
  forall nb n it (H : Z -> Z * Qc) (D out0 : Z -> Qc) i,
    (0 < n)%Z -> (0 <= nb)%Z -> ~ (0 <= i < nb * n * n)%Z ->
    kick_y_loops nb n n it (nb - 1) H D out0 i = out0 i /\ kick_x_loops nb n n it (nb - 1) H D out0 i = out0 i.
Proof. exact kick_apply_elsewhere. Qed.
Print Assumptions C01_kick_apply_writes_nothing_else.

(** same data and table, different earlier content of the target grid: same output in every cell of every bunch *)
Theorem C01_kick_apply_target_independent :
  forall nb n it (H : Z -> Z * Qc) (D out0 out0' : Z -> Qc) i,
    (0 < n)%Z -> (0 <= nb)%Z -> (0 <= i < nb * n * n)%Z ->
    kick_y_loops nb n n it (nb - 1) H D out0 i = kick_y_loops nb n n it (nb - 1) H D out0' i /\
    kick_x_loops nb n n it (nb - 1) H D out0 i = kick_x_loops nb n n it (nb - 1) H D out0' i.
Proof. exact kick_apply_target_independent. Qed.
Print Assumptions C01_kick_apply_target_independent.

(** the extracted executable model of the correspondence is the generated loop nest run on any target array *)
Theorem C01_kick_model_is_loop_nest :
  forall n nb it (offs data : list Qc) (out0 : Z -> Qc),
    (0 < n)%Z -> (0 <= nb)%Z ->
    kick_y_list n nb it offs data =
      map (kick_y_loops nb n n it (nb - 1) (updateSM n it (getQ offs)) (getQ data) out0) (zrange (nb * n * n)) /\
    kick_x_list n nb it offs data =
      map (kick_x_loops nb n n it (nb - 1) (updateSM n it (getQ offs)) (getQ data) out0) (zrange (nb * n * n)).
Proof. exact kick_list_is_loops. Qed.
Print Assumptions C01_kick_model_is_loop_nest.
End KickLoopFamily.
