(** C01 - every transport step conserves charge (kick part; the Fokker-Planck part is in
    Properties_C01 section FP below once the stencil model is loaded). *)
From Coq Require Import List ZArith QArith Qcanon.
From Inovesa Require Import Base.FieldKit Base.Sums Base.Float32 Gen.Gen_Coeffs Model.Kick
  Proofs.WeightsP Proofs.KickP Proofs.KickGridP.
Local Open Scope Z_scope.

Theorem C01_weights_unity :
  forall (K : Fld) (it : Z) (f : K), valid_it it -> fsum (coeffs it f) = f1.
Proof. exact coeffs_unity. Qed.
Print Assumptions C01_weights_unity.

(** one row, table written by the model of updateSM for offset [o] *)
Theorem C01_row_kick_conserves :
  forall n it o (r : Z -> Qc),
    valid_it it -> 0 < n < 2 ^ 30 -> row_ok n it o r ->
    sumQ 0 (Z.to_nat n) (row_out n it (sm_entry n it o) r) = sumQ 0 (Z.to_nat n) r.
Proof. exact sm_row_conserves. Qed.
Print Assumptions C01_row_kick_conserves.

(** the whole bunch-major array, kick along y (wake kick, RF kick: any offset field) *)
Theorem C01_y_kick_conserves :
  forall n nb it (offs D : Z -> Qc),
    valid_it it -> 0 < n < 2 ^ 30 -> 0 < nb ->
    (forall b x, 0 <= b < nb -> 0 <= x < n ->
       row_ok n it (offs (Z.min b (nb - 1) * n + x)) (fun y => D (didx n b x y))) ->
    sumQ 0 (Z.to_nat (nb * n * n)) (apply_y n nb it (updateSM n it offs) D) =
    sumQ 0 (Z.to_nat (nb * n * n)) D.
Proof. exact kick_y_conserves. Qed.
Print Assumptions C01_y_kick_conserves.

(** ... and along x (drift) *)
Theorem C01_x_kick_conserves :
  forall n nb it (offs D : Z -> Qc),
    valid_it it -> 0 < n < 2 ^ 30 -> 0 < nb ->
    (forall b y, 0 <= b < nb -> 0 <= y < n ->
       row_ok n it (offs y) (fun x => D (didx n b x y))) ->
    sumQ 0 (Z.to_nat (nb * n * n)) (apply_x n nb it (updateSM n it offs) D) =
    sumQ 0 (Z.to_nat (nb * n * n)) D.
Proof. exact kick_x_conserves. Qed.
Print Assumptions C01_x_kick_conserves.
