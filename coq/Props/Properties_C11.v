(** C11 - continuing from a results file equals never having stopped.
    Only statements closed by [exact]; proofs in Proofs/RecordsP.v, Proofs/RestartP.v (assembled in
    Proofs/C11P.v); DESIGN.md 5/C11.  File layer: Model/Records.v (append log, hyperslab read);
    control flow around the abstract physics kernels: Model/Restart.v. *)
From Coq Require Import List ZArith QArith Qcanon Bool.
From Inovesa Require Import Base.FieldKit Model.Records Model.Restart Proofs.RecordsP Proofs.RestartP Proofs.C11P.
Import ListNotations.
Local Open Scope Z_scope.

(** 1. whatever was appended (any payload type, any number of complete single-bunch records),
    the hyperslab read of record (len + step) mod len returns that record: same values, same order *)
Theorem C11_read_back_exact :
  forall (A : Type) (d : A) (recs : list (list A)) n step,
    0 < n -> recs <> [] -> (forall x, In x recs -> Z.of_nat (length x) = n * n) ->
    let len := Z.of_nat (length recs) in
    read_ps d (@PSset A [len; 1; n; n] (concat recs)) step
    = Some (n, nth (Z.to_nat (use_step len step)) recs []).
Proof. exact read_back_exact_c11. Qed.
Print Assumptions C11_read_back_exact.

(** the default InitialDistStep = -1 is the last record; 0 <= step < len is record [step];
    negative steps count from the end *)
Theorem C11_chosen_record :
  forall len step, 0 < len < 2 ^ 63 ->
    (use_step len (-1) = len - 1) /\
    (0 <= step < len -> use_step len step = step) /\
    (- len <= step < 0 -> use_step len step = len + step).
Proof. exact chosen_record_c11. Qed.
Print Assumptions C11_chosen_record.

(** 1b. whatever caches the loaded object carried, the first loop iteration sees the projection
    and the integral of the loaded grid *)
Theorem C11_caches_refreshed_before_first_step :
  forall (G P F : Type) (projX : G -> P) (integ : P -> F) (normW : F -> G -> G) r (s : pst G P F),
    let s' := prepare G P F projX integ normW r s in
    xproj _ _ _ s' = projX (grid _ _ _ s') /\ fill _ _ _ s' = integ (projX (grid _ _ _ s')).
Proof. exact caches_refreshed_c11. Qed.
Print Assumptions C11_caches_refreshed_before_first_step.

(** 2. the grid the continued run starts from: the stored one for RenormalizeCharge < 0, else
    the stored one normalised with the integral [f0] cached by the constructor (stale) *)
Theorem C11_start_state :
  forall (G P F : Type) (projX : G -> P) (integ : P -> F) (normW : F -> G -> G) r g p0 f0,
    grid _ _ _ (prepare G P F projX integ normW r (loaded G P F g p0 f0))
    = if 0 <=? r then snorm G F normW f0 g else g.
Proof. exact start_state_c11. Qed.
Print Assumptions C11_start_state.

(** 4. continuation: record n2 of the run started from record n1 of a first run = record
    n1+n2 of the uninterrupted run, for all kernels, when RenormalizeCharge < 0; and for
    RenormalizeCharge = r > 0 dividing n1 when normalisation is idempotent, absorbs the stale
    normalisation, and the maps do not see the two normalisations through the wake source *)
Theorem C11_continuation_equiv :
  forall (G P F : Type) (projX : G -> P) (integ : P -> F) (normW : F -> G -> G) (maps : P -> G -> G)
         r n1 n2 (s0 : pst G P F) p0 f0,
    0 <= n1 -> 0 <= n2 ->
    r < 0 \/
    (0 < r /\ (r | n1) /\
     (forall g, norm G P F projX integ normW (norm G P F projX integ normW g) = norm G P F projX integ normW g) /\
     (forall g, norm G P F projX integ normW (snorm G F normW f0 g) = norm G P F projX integ normW g) /\
     (forall g x, maps (projX (snorm G F normW f0 g)) x = maps (projX g) x) /\
     (forall g x, maps (projX (norm G P F projX integ normW g)) x = maps (projX g) x)) ->
    continued G P F projX integ normW maps r n1 n2 s0 p0 f0
    = single G P F projX integ normW maps r (n1 + n2) s0.
Proof. exact continuation_equiv_c11. Qed.
Print Assumptions C11_continuation_equiv.

(** RenormalizeCharge = 0: the two runs differ by exactly one application of the stale
    normalisation at the joint (and coincide when that is the identity on the stored grid) *)
Theorem C11_continuation_renorm0 :
  forall (G P F : Type) (projX : G -> P) (integ : P -> F) (normW : F -> G -> G) (maps : P -> G -> G)
         n1 n2 (s0 : pst G P F) p0 f0, 0 <= n1 -> 0 <= n2 ->
    let gK := grid _ _ _ (run_from G P F projX integ normW maps 0 n1 s0) in
    let fresh g := mkPst G P F g (projX g) (integ (projX g)) in
    single G P F projX integ normW maps 0 (n1 + n2) s0
      = grid _ _ _ (iter G P F projX integ normW maps 0 (Z.to_nat n2) 0 (fresh gK)) /\
    continued G P F projX integ normW maps 0 n1 n2 s0 p0 f0
      = grid _ _ _ (iter G P F projX integ normW maps 0 (Z.to_nat n2) 0 (fresh (snorm G F normW f0 gK))) /\
    (snorm G F normW f0 gK = gK ->
     continued G P F projX integ normW maps 0 n1 n2 s0 p0 f0 = single G P F projX integ normW maps 0 (n1 + n2) s0).
Proof. exact continuation_renorm0_c11. Qed.
Print Assumptions C11_continuation_renorm0.

(** without the divisibility hypothesis the statement is false even in exact arithmetic
    (the step counter of the continued run restarts at 0, so the schedules differ) *)
Theorem C11_continuation_nondividing_refuted :
  exists r n1 n2 (s0 : pst Qc Qc Qc) p0 f0,
    0 < r /\ ~ (r | n1) /\
    continued Qc Qc Qc (fun g => g) (fun p => p) toy_normW toy_maps r n1 n2 s0 p0 f0
    <> single Qc Qc Qc (fun g => g) (fun p => p) toy_normW toy_maps r (n1 + n2) s0.
Proof. exact continuation_nondividing_refuted_c11. Qed.
Print Assumptions C11_continuation_nondividing_refuted.

(** 5. a start file that cannot be opened, is not HDF5, has no /PhaseSpace/data, holds several
    bunches, or whose slab does not fit makes the reader return nothing (main then prints
    "Error reading ..." and stops before the simulation starts) *)
Theorem C11_unusable_start_refused :
  forall (A : Type) (d : A) (f : startfile A) step, unusable f -> read_ps d f step = None.
Proof. exact unusable_start_refused_c11. Qed.
Print Assumptions C11_unusable_start_refused.

(** ... and everything that is accepted is a complete square single-bunch block *)
Theorem C11_accepted_start_is_single_bunch :
  forall (A : Type) (d : A) (f : startfile A) step n (g : list A), read_ps d f step = Some (n, g) ->
    exists dims data, f = @PSset A dims data /\ 0 < n /\ Z.of_nat (length g) = n * n /\
      (dims = [hd 0 dims; n; nth 2 dims 0] \/ dims = [hd 0 dims; 1; n; nth 3 dims 0]).
Proof. exact accepted_start_c11. Qed.
Print Assumptions C11_accepted_start_is_single_bunch.

(** non-vacuity: two records of a 2x2 grid, default step; the hypotheses of the r > 0 case
    hold for exact normalisation without a wake (toy kernels over Qc) *)
Example C11_read_example :
  read_ps 0 (@PSset Z [2; 1; 2; 2] [1; 2; 3; 4; 5; 6; 7; 8]) (-1) = Some (2, [5; 6; 7; 8]) /\
  read_ps 0 (@PSset Z [2; 1; 2; 2] [1; 2; 3; 4; 5; 6; 7; 8]) 0 = Some (2, [1; 2; 3; 4]) /\
  read_ps 0 (@PSset Z [2; 2; 2; 2] [1; 2; 3; 4; 5; 6; 7; 8; 1; 2; 3; 4; 5; 6; 7; 8]) (-1) = None.
Proof. vm_compute. repeat split. Qed.
Example C11_continuation_example :
  continued Qc Qc Qc (fun g => g) (fun p => p) toy_normW toy_maps 2 2 3
     (mkPst Qc Qc Qc (Q2Qc 1) (Q2Qc 1) (Q2Qc 1)) (Q2Qc 1) (Q2Qc 1)
  = single Qc Qc Qc (fun g => g) (fun p => p) toy_normW toy_maps 2 5 (mkPst Qc Qc Qc (Q2Qc 1) (Q2Qc 1) (Q2Qc 1)).
Proof. vm_compute. reflexivity. Qed.

(** ** Tie of the reader to the source by translation (second wave).  [Gen/Gen_H5Index.v] is regenerated
    from HDF5File::readPhaseSpace, PhaseSpace::setSize and main() on every run
    (translate/h5index2coq.py): the record selection in 64-bit unsigned arithmetic, per rank the
    hyperslab start / count vectors, the memory space, the arguments of setSize, the acceptance
    test and which branch reads, main()'s grid-size test.  [gen_read_ps] (Proofs/H5IndexP.v)
    assembles them with what the library does with a hyperslab (Model/H5Slab.v). *)
From Inovesa Require Import Model.H5Slab Gen.Gen_H5Index Proofs.H5SlabP Proofs.H5IndexP.

(** the reader assembled from the source is the model's [read_ps], for every file whose extents are
    hsize_t values (so C11_read_back_exact, C11_unusable_start_refused and
    C11_accepted_start_is_single_bunch are statements about it) *)
Theorem C11_source_read_is_model :
  forall (A : Type) (d : A) (f : startfile A) step,
    hsize_dims f -> gen_read_ps d f step = read_ps d f step.
Proof. exact (@gen_read_ps_is_model). Qed.
Print Assumptions C11_source_read_is_model.

(** the chosen record, on the generated selection expression *)
Theorem C11_source_chosen_record :
  forall dims step, let len := nth 0 dims 0 in 0 < len < 2 ^ 63 ->
    gen_use_step dims (-1) = len - 1 /\
    (0 <= step < len -> gen_use_step dims step = step) /\
    (- len <= step < 0 -> gen_use_step dims step = len + step).
Proof. exact gen_chosen_record. Qed.
Print Assumptions C11_source_chosen_record.

(** read-back through the generated reader *)
Theorem C11_source_read_back_exact :
  forall (A : Type) (d : A) (recs : list (list A)) n step,
    0 < n < 2 ^ 64 -> recs <> [] -> (forall x, In x recs -> Z.of_nat (length x) = n * n) ->
    let len := Z.of_nat (length recs) in len < 2 ^ 64 ->
    gen_read_ps d (@PSset A [len; 1; n; n] (concat recs)) step
    = Some (n, nth (Z.to_nat (use_step len step)) recs []).
Proof. exact (@gen_read_back_exact). Qed.
Print Assumptions C11_source_read_back_exact.

(** refusals through the generated reader: multi-bunch files, files whose slab does not fit, ... *)
Theorem C11_source_unusable_refused :
  forall (A : Type) (d : A) (f : startfile A) step, hsize_dims f -> unusable f -> gen_read_ps d f step = None.
Proof. exact (@gen_unusable_refused). Qed.
Print Assumptions C11_source_unusable_refused.

(** main(): the start distribution is used iff the reader accepted it and its grid size is GridSize *)
Theorem C11_source_gridsize_refused :
  forall (A : Type) gridsize (r : option (Z * list A)) g,
    start_from_h5 gen_main_refuses_gridsize gridsize r = Some g <-> r = Some (gridsize, g).
Proof. exact (@gen_gridsize_refusal). Qed.
Print Assumptions C11_source_gridsize_refused.

Example C11_source_example :
  gen_read_ps 0 (@PSset Z [2; 1; 2; 2] [1; 2; 3; 4; 5; 6; 7; 8]) (-1) = Some (2, [5; 6; 7; 8]) /\
  gen_read_ps 0 (@PSset Z [2; 2; 2] [1; 2; 3; 4; 5; 6; 7; 8]) 0 = Some (2, [1; 2; 3; 4]) /\
  gen_read_ps 0 (@PSset Z [2; 2; 2; 2] [1; 2; 3; 4; 5; 6; 7; 8; 1; 2; 3; 4; 5; 6; 7; 8]) (-1) = None /\
  start_from_h5 gen_main_refuses_gridsize 3 (Some (2, [5; 6; 7; 8])) = None /\
  gen_use_step [5; 1; 2; 2] (-2) = 3.
Proof. vm_compute. repeat split. Qed.

(** * The same control flow, taken from the program generated from src/main.cpp

    [Gen_MainLoop] (translate/mainloop2coq.py, regenerated on every run) gives the prologue
    [main_pre] ("1) the integral" ... before the loop), the loop body [main_body], the final block
    [main_post] and the set-up skeleton [main_setup], whose first `if (renormalize >= 0)` - the
    initial renormalisation `updateXProjection(); normalize();` - is [main_setup_norm].  The
    statements below say that what Model/Restart.v writes down by hand ([prepare], [head]/[stored],
    [body], [single], [continued]) is what those generated statements do to the PhaseSpace object
    [pst_of s] = (grid, cached x-projection, cached integral) of a driver state, for every kernel
    record [K] (Restart's kernels are K's: projX = k_projX, integ = k_integ, normW f g = k_norm g f).
    Names of the driver model are qualified where Model/Restart.v uses the same short name. *)
From Inovesa Require Model.Driver Gen.Gen_MainLoop Proofs.DriverMainP Proofs.RestartGenP Model.DriverInst.

(** 1b for the generated prologue (re-targets C11_caches_refreshed_before_first_step): whatever
    caches the state carried, after the generated statements between "Starting the simulation."
    and the loop the cached projection and integral are those of the grid; the grid is untouched *)
Theorem C11_generated_prologue_refreshes_caches :
  forall (K : Driver.kern) (cf : Driver.cfg) (s : Driver.st K),
    let s' := Driver.exec_blk Driver.nosig cf Gen_MainLoop.main_pre s in
    Driver.xp s' = Driver.k_projX K (Driver.g1 s') /\
    Driver.fl s' = Driver.k_integ K (Driver.k_projX K (Driver.g1 s')) /\
    Driver.g1 s' = Driver.g1 s.
Proof. exact RestartGenP.pre_refreshes_fields. Qed.
Print Assumptions C11_generated_prologue_refreshes_caches.

(** [prepare] (theorems 1b and 2 above) is the generated initial renormalisation followed by the
    generated prologue *)
Theorem C11_prepare_is_generated :
  RestartGenP.setup_norm_of Gen_MainLoop.main_setup = Some RestartGenP.main_setup_norm /\
  forall (K : Driver.kern) (cf : Driver.cfg) (s : Driver.st K),
    RestartGenP.pst_of K (Driver.exec_blk Driver.nosig cf Gen_MainLoop.main_pre
                            (Driver.exec_blk Driver.nosig cf RestartGenP.main_setup_norm s))
    = prepare (Driver.tG K) (Driver.tP K) (Driver.tFl K) (Driver.k_projX K) (Driver.k_integ K) (RestartGenP.normW K)
              (Driver.renorm cf) (RestartGenP.pst_of K s).
Proof. exact (conj RestartGenP.main_setup_norm_found RestartGenP.prepare_is_generated). Qed.
Print Assumptions C11_prepare_is_generated.

(** 3. final_block_matches_loop_head: with a results file the generated final block writes exactly
    one phase-space record, tagged with the step counter, holding [stored] = the grid after the
    loop head (`integrate` / `integrateAndNormalize` on the renormalisation schedule); every
    phase-space record the generated output block writes at a loop head holds the same grid *)
Theorem C11_final_block_matches_loop_head :
  forall (K : Driver.kern) (cf : Driver.cfg) (s : Driver.st K),
    (Driver.hdf cf = true ->
     RestartGenP.ps_recs (Driver.emit Driver.nosig cf Gen_MainLoop.main_post s) =
     [(Driver.k s, stored (Driver.tG K) (Driver.tP K) (Driver.tFl K) (Driver.k_integ K) (RestartGenP.normW K)
                          (Driver.renorm cf) (Driver.k s) (RestartGenP.pst_of K s))]) /\
    (let '(hd, ob, _, _) := DriverMainP.main_split in
     Forall (fun x => x = (Driver.k s, stored (Driver.tG K) (Driver.tP K) (Driver.tFl K) (Driver.k_integ K) (RestartGenP.normW K)
                                              (Driver.renorm cf) (Driver.k s) (RestartGenP.pst_of K s)))
            (RestartGenP.ps_recs (Driver.emit Driver.nosig cf (Driver.bapp hd ob) s))).
Proof. exact (fun K cf s => conj (RestartGenP.final_block_stores_head K cf s) (RestartGenP.out_block_stores_head K cf s)). Qed.
Print Assumptions C11_final_block_matches_loop_head.

(** one iteration of the generated loop body = [body] with the four maps of the step
    ([maps_of]: wake kick from the projection the wake map was updated from - or the identity -,
    RF kick with the table [rfo s], drift, Fokker-Planck), static RF map, wake objects that do not
    depend on their previous contents (C18); the RF table is left alone, one step is counted *)
Theorem C11_loop_body_is_generated :
  forall (K : Driver.kern) (cf : Driver.cfg) (wf0 : Driver.tWf K) (wk0 : Driver.tW K) (s : Driver.st K),
    Driver.dynrf cf = false -> RestartGenP.wake_history_free K ->
    RestartGenP.pst_of K (Driver.exec_blk Driver.nosig cf Gen_MainLoop.main_body s) =
    body (Driver.tG K) (Driver.tP K) (Driver.tFl K) (Driver.k_projX K) (Driver.k_integ K) (RestartGenP.normW K)
         (RestartGenP.maps_of K cf wf0 wk0 (Driver.rfo s)) (Driver.renorm cf) (Driver.k s) (RestartGenP.pst_of K s) /\
    Driver.rfo (Driver.exec_blk Driver.nosig cf Gen_MainLoop.main_body s) = Driver.rfo s /\
    Driver.k (Driver.exec_blk Driver.nosig cf Gen_MainLoop.main_body s) = Driver.k s + 1.
Proof. exact RestartGenP.body_is_generated. Qed.
Print Assumptions C11_loop_body_is_generated.

(** the phase-space record the generated program (initial renormalisation, prologue, n loop
    iterations, final block) writes after n undisturbed steps is [single] *)
Theorem C11_generated_final_record :
  forall (K : Driver.kern) (cf : Driver.cfg) (wf0 : Driver.tWf K) (wk0 : Driver.tW K) (n : nat) (s0 : Driver.st K),
    Driver.hdf cf = true -> Driver.dynrf cf = false -> RestartGenP.wake_history_free K -> Driver.k s0 = 0 ->
    RestartGenP.gen_final K cf n s0 =
    [(Z.of_nat n, single (Driver.tG K) (Driver.tP K) (Driver.tFl K) (Driver.k_projX K) (Driver.k_integ K) (RestartGenP.normW K)
                         (RestartGenP.maps_of K cf wf0 wk0 (Driver.rfo s0)) (Driver.renorm cf) (Z.of_nat n) (RestartGenP.pst_of K s0))].
Proof. exact RestartGenP.gen_final_is_single. Qed.
Print Assumptions C11_generated_final_record.

(** 4. continuation for the generated program: a state [sL] whose grid is record n1 of a first
    run (caches: whatever the freshly constructed object held; same RF table), continued for n2
    steps, ends in the record the uninterrupted run writes after n1+n2 steps - under exactly the
    hypotheses of C11_continuation_equiv (stale integral f0 = cached integral of [sL]) *)
Theorem C11_continuation_equiv_generated :
  forall (K : Driver.kern) (cf : Driver.cfg) (wf0 : Driver.tWf K) (wk0 : Driver.tW K) (n1 n2 : nat) (s0 sL : Driver.st K),
    Driver.hdf cf = true -> Driver.dynrf cf = false -> RestartGenP.wake_history_free K ->
    Driver.k s0 = 0 -> Driver.k sL = 0 -> Driver.rfo sL = Driver.rfo s0 ->
    RestartGenP.gen_final K cf n1 s0 = [(Z.of_nat n1, Driver.g1 sL)] ->
    let G := Driver.tG K in let P := Driver.tP K in let F := Driver.tFl K in
    let projX := Driver.k_projX K in let integ := Driver.k_integ K in let normW := RestartGenP.normW K in
    let maps := RestartGenP.maps_of K cf wf0 wk0 (Driver.rfo s0) in
    let r := Driver.renorm cf in
    (r < 0 \/
     (0 < r /\ (r | Z.of_nat n1) /\
      (forall g, norm G P F projX integ normW (norm G P F projX integ normW g) = norm G P F projX integ normW g) /\
      (forall g, norm G P F projX integ normW (snorm G F normW (Driver.fl sL) g) = norm G P F projX integ normW g) /\
      (forall g x, maps (projX (snorm G F normW (Driver.fl sL) g)) x = maps (projX g) x) /\
      (forall g x, maps (projX (norm G P F projX integ normW g)) x = maps (projX g) x))) ->
    exists g, RestartGenP.gen_final K cf n2 sL = [(Z.of_nat n2, g)] /\
              RestartGenP.gen_final K cf (n1 + n2) s0 = [(Z.of_nat (n1 + n2), g)].
Proof. exact RestartGenP.gen_continuation. Qed.
Print Assumptions C11_continuation_equiv_generated.

(** non-vacuity: the hypotheses on the wake objects hold in the executable instance, and there the
    generated program writes exactly one final phase-space record, at step 5 after 5 steps *)
Example C11_generated_example :
  RestartGenP.wake_history_free DriverInst.unitK /\
  RestartGenP.gen_final DriverInst.unitK (Driver.mkcfg 8 2 1 (-1) true true false) 5
    (DriverInst.st_init (Driver.mkcfg 8 2 1 (-1) true true false)) = [(5, tt)].
Proof. split; [split; reflexivity | vm_compute; reflexivity]. Qed.

(* ===================================================================================================================
   BEGIN family laststep: the number of steps main() derives from a run length (Proofs/LastStepP.v, Gen/Gen_LastStep.v)
   =================================================================================================================== *)
(** * The step counts of the legs add up

    The continuation theorems above speak of n1, n2 and n1+n2 executed steps.  A user gives run lengths T1, T2, T1+T2 in
    synchrotron periods; main() turns each into a step count with
      [uint32_t laststep = std::ceil(steps*rotations*(1.0-1e-12))]
    (doubles; model [Records.laststep]: every product one binary64 multiplication [rnd53], which is Flocq's binary64
    round-to-nearest-even for every rational: rnd53_is_binary64_RNE in Properties_C17).  That the three counts satisfy
    n1 + n2 = n3 is therefore a statement about floating-point rounding.  On the pinned tree (`rotations` narrowed to
    float, no guard factor) it was false: C11_laststep_pinned_not_additive, found on the binary by lib/c11_splits.py and
    repaired in the repo ("fix: the number of steps of a run no longer depends on rounding noise ...").
    Trusted: that the option parser (boost::lexical_cast / strtod) returns the double nearest to the decimal string. *)
From Inovesa Require Import Base.Float32 Model.Kick Model.Bounds Model.ScalingOps Proofs.LastStepP.
From Inovesa Require Gen.Gen_LastStep.

(** a run length typed as the decimal value of k/N - parsed to the nearest double - with N steps per period takes
    exactly k steps, for every N and k up to 2^30 *)
Theorem C11_laststep_on_step_grid :
  forall N k : Z, 1 <= N <= 2 ^ 30 -> 0 <= k <= 2 ^ 30 ->
    laststep (Qcz N) (rnd53 (Qcz k / Qcz N)%Qc) = k.
Proof. exact laststep_on_step_grid. Qed.
Print Assumptions C11_laststep_on_step_grid.

(** hence the legs' step counts add up for every split point on the step grid *)
Theorem C11_laststep_additive :
  forall N k1 k2 : Z, 1 <= N <= 2 ^ 30 -> 0 <= k1 -> 0 <= k2 -> k1 + k2 <= 2 ^ 30 ->
    laststep (Qcz N) (rnd53 (Qcz k1 / Qcz N)%Qc) + laststep (Qcz N) (rnd53 (Qcz k2 / Qcz N)%Qc)
    = laststep (Qcz N) (rnd53 (Qcz (k1 + k2) / Qcz N)%Qc).
Proof. exact laststep_additive. Qed.
Print Assumptions C11_laststep_additive.

(** ... and C11_continuation_equiv applies to the step counts main() computes: the run continued for T2 = k2/N after
    T1 = k1/N ends in the record of the uninterrupted run over (k1+k2)/N, under the hypotheses of C11_continuation_equiv *)
Theorem C11_continuation_on_step_grid :
  forall (G P F : Type) (projX : G -> P) (integ : P -> F) (normW : F -> G -> G) (maps : P -> G -> G)
         r (N k1 k2 : Z) (s0 : pst G P F) p0 f0,
    1 <= N <= 2 ^ 30 -> 0 <= k1 -> 0 <= k2 -> k1 + k2 <= 2 ^ 30 ->
    let n1 := laststep (Qcz N) (rnd53 (Qcz k1 / Qcz N)%Qc) in
    let n2 := laststep (Qcz N) (rnd53 (Qcz k2 / Qcz N)%Qc) in
    let n3 := laststep (Qcz N) (rnd53 (Qcz (k1 + k2) / Qcz N)%Qc) in
    r < 0 \/
    (0 < r /\ (r | n1) /\
     (forall g, norm G P F projX integ normW (norm G P F projX integ normW g) = norm G P F projX integ normW g) /\
     (forall g, norm G P F projX integ normW (snorm G F normW f0 g) = norm G P F projX integ normW g) /\
     (forall g x, maps (projX (snorm G F normW f0 g)) x = maps (projX g) x) /\
     (forall g x, maps (projX (norm G P F projX integ normW g)) x = maps (projX g) x)) ->
    continued G P F projX integ normW maps r n1 n2 s0 p0 f0 = single G P F projX integ normW maps r n3 s0.
Proof. exact continuation_on_step_grid. Qed.
Print Assumptions C11_continuation_on_step_grid.

(** the guard factor removes rounding noise only: a product steps*rotations that exceeds a whole number m >= 1 by at
    least 2e-12 (relative) and is at most m+1 gives m+1 steps (the true threshold is about 1.0002e-12; whatever the two
    factors are - doubles or not) *)
Theorem C11_laststep_fractional_rounds_up :
  forall (steps rot : Qc) (m : Z),
    1 <= m -> (Qcz m * (1 + Q2Qc (2 # 1000000000000)) <= steps * rot)%Qc -> (steps * rot <= Qcz (m + 1))%Qc ->
    laststep steps rot = m + 1.
Proof. exact laststep_fractional_rounds_up. Qed.
Print Assumptions C11_laststep_fractional_rounds_up.

(** ... and every run length of at most one step that is not a subnormal number of steps takes one step *)
Theorem C11_laststep_first_step :
  forall steps rot : Qc, (Q2Qc (1 # 2 ^ 1000) <= steps * rot)%Qc -> (steps * rot <= 1)%Qc -> laststep steps rot = 1.
Proof. exact laststep_first_step. Qed.
Print Assumptions C11_laststep_first_step.

(** the pinned line [ceil(steps * float(rotations))] refutes additivity: -N 100 -T 0.3 takes 31 steps, -T 0.6 takes 61 *)
Theorem C11_laststep_pinned_not_additive :
  laststep_pinned (Qcz 100) (rnd32 (Q2Qc (3 # 10))) = 31 /\ laststep_pinned (Qcz 100) (rnd32 (Q2Qc (6 # 10))) = 61 /\
  laststep_pinned (Qcz 100) (rnd32 (Q2Qc (3 # 10))) + laststep_pinned (Qcz 100) (rnd32 (Q2Qc (3 # 10)))
  <> laststep_pinned (Qcz 100) (rnd32 (Q2Qc (6 # 10))).
Proof. exact laststep_pinned_not_additive. Qed.
Print Assumptions C11_laststep_pinned_not_additive.

(** keeping `rotations` in double is not enough: without the guard factor 100 * 0.07 = 7.000000000000001 takes 8 steps
    and 100 * 0.14 takes 15 *)
Theorem C11_laststep_pinned_double_not_additive :
  Records.Qcceil (rnd53 (Qcz 100 * rnd53 (Qcz 7 / Qcz 100))%Qc) = 8 /\
  Records.Qcceil (rnd53 (Qcz 100 * rnd53 (Qcz 14 / Qcz 100))%Qc) = 15 /\
  Records.Qcceil (rnd53 (Qcz 100 * rnd53 (Qcz 7 / Qcz 100))%Qc) + Records.Qcceil (rnd53 (Qcz 100 * rnd53 (Qcz 7 / Qcz 100))%Qc)
  <> Records.Qcceil (rnd53 (Qcz 100 * rnd53 (Qcz 14 / Qcz 100))%Qc).
Proof. exact laststep_unguarded_not_additive. Qed.
Print Assumptions C11_laststep_pinned_double_not_additive.

(** ** Tie of that line to the source by translation.  [Gen/Gen_LastStep.v] is regenerated from main() on every run
    (translate/laststep2coq.py, symbolic execution with the code's own arithmetic): [gen_laststep] is the bound of the
    test `counter < bound` of main()'s simulation loop (counter 0 at entry) and, identically, the `steps` argument of
    both DynamicRFKickMap constructions; [gen_steps] is the denominator of the time values `counter/steps` written to the
    results file.  The generated bound is the unsigned conversion of [Records.laststep] of the generated steps per period
    and the option NRotations as a double.  A float narrowing of `rotations`, a dropped or different guard constant,
    std::round / std::floor instead of std::ceil, `laststep+1`, another order of the products change the generated text
    and break this proof. *)
Theorem C11_source_laststep_is_model :
  Gen_LastStep.gen_loop_start = 0 /\
  forall LZ LQ LB,
    Gen_LastStep.gen_laststep LZ LQ LB =
    f2u 32 (Qcz (laststep (Gen_LastStep.gen_steps LZ LQ LB) (LQ Gen_LastStep.O_getNRotations))).
Proof. exact (conj gen_loop_start_zero gen_laststep_is_model). Qed.
Print Assumptions C11_source_laststep_is_model.

(** without StepsPerRevolution the generated steps per period are the integer max(StepsPerTs, 1) *)
Theorem C11_source_steps_default :
  forall LZ LQ LB, (LQ Gen_LastStep.O_getStepsPerTrev <= 0)%Qc ->
    Gen_LastStep.gen_steps LZ LQ LB = Qcz (Z.max (LZ Gen_LastStep.O_getStepsPerTsync) 1).
Proof. exact gen_steps_default. Qed.
Print Assumptions C11_source_steps_default.

(** the statements about run lengths on the step grid and about intended fractions, for the generated bound: it is
    defined (no undefined float -> unsigned conversion) and has the stated value *)
Theorem C11_source_laststep_on_step_grid :
  forall LZ LQ LB (N k : Z),
    (LQ Gen_LastStep.O_getStepsPerTrev <= 0)%Qc -> N = Z.max (LZ Gen_LastStep.O_getStepsPerTsync) 1 -> N <= 2 ^ 30 ->
    0 <= k <= 2 ^ 30 -> LQ Gen_LastStep.O_getNRotations = rnd53 (Qcz k / Qcz N)%Qc ->
    Gen_LastStep.gen_laststep LZ LQ LB = Val k.
Proof. exact gen_laststep_on_step_grid. Qed.
Print Assumptions C11_source_laststep_on_step_grid.

Theorem C11_source_laststep_fractional_rounds_up :
  forall LZ LQ LB (m : Z), 1 <= m < 2 ^ 32 - 1 ->
    (Qcz m * (1 + Q2Qc (2 # 1000000000000)) <= Gen_LastStep.gen_steps LZ LQ LB * LQ Gen_LastStep.O_getNRotations)%Qc ->
    (Gen_LastStep.gen_steps LZ LQ LB * LQ Gen_LastStep.O_getNRotations <= Qcz (m + 1))%Qc ->
    Gen_LastStep.gen_laststep LZ LQ LB = Val (m + 1).
Proof. exact gen_laststep_fractional_rounds_up. Qed.
Print Assumptions C11_source_laststep_fractional_rounds_up.

(** non-vacuity: -N 100 with -T 0.3, 0.6, 0.07, 0.14 (the inputs of the finding) through the model and through the
    generated expression (leaf order of Gen_LastStep: [StepsPerTs] / [NRotations; RevolutionFrequency; StepsPerTrev;
    SyncFreq; fs]); a fraction that is kept: 100 * 0.0700001 takes 8 steps *)
Example C11_laststep_example :
  laststep (Qcz 100) (rnd53 (Qcz 30 / Qcz 100)%Qc) = 30 /\ laststep (Qcz 100) (rnd53 (Qcz 60 / Qcz 100)%Qc) = 60 /\
  laststep (Qcz 100) (rnd53 (Qcz 7 / Qcz 100)%Qc) = 7 /\ laststep (Qcz 100) (rnd53 (Qcz 14 / Qcz 100)%Qc) = 14 /\
  laststep (Qcz 100) (rnd53 (Q2Qc (700001 # 10000000))) = 8 /\
  (Qcz 7 * (1 + Q2Qc (2 # 1000000000000)) <= Qcz 100 * rnd53 (Q2Qc (700001 # 10000000)))%Qc.
Proof. vm_compute. repeat split; discriminate. Qed.
Example C11_source_laststep_example :
  Gen_LastStep.gen_laststep_list [100] [rnd53 (Qcz 30 / Qcz 100)%Qc; Qcz 0; Qcz 0; Qcz 0; Qcz 0] [] = 30 /\
  Gen_LastStep.gen_laststep_list [100] [rnd53 (Qcz 7 / Qcz 100)%Qc; Qcz 0; Qcz 0; Qcz 0; Qcz 0] [] = 7 /\
  Gen_LastStep.gen_laststep_list [0] [rnd53 (Qcz 14 / Qcz 1)%Qc; Qcz 0; Qcz 0; Qcz 0; Qcz 0] [] = 14.
Proof. vm_compute. repeat split. Qed.
(* ===================================================================================================================
   END family laststep
   =================================================================================================================== *)
(** ** (strengthening F2-J) the stale initial normalisation at a restart is harmless BECAUSE the constructor leaves the
    cached bunch charge equal to the bunch's share.  [HDF5File::readPhaseSpace] constructs a PhaseSpace without start
    data (the constructor's own Gaussian, whatever the grid cuts off it) and reads the record over its grid; main()'s
    initial `updateXProjection(); normalize();` then divides by the charges the constructor cached
    (C11_start_state: start grid = [normW f0 stored], f0 = that cache).  Over the closed forms generated from
    src/PS/PhaseSpace.cpp on this run (Gen/Gen_Moments.v: [gen_ctor_fresh] = the constructor's branch `data == nullptr`
    - createFromProjections() - followed by the constructor's refresh sequence): *)
From Inovesa Require Model.Moments Model.MomentsIR Gen.Gen_Moments Proofs.MomentsGenP Proofs.FreshCtorP.
Module FreshCtor.
Import Moments MomentsIR Gen_Moments MomentsGenP FreshCtorP.

(** the object the record is read into is constructed without start data, and nothing but getData() is called on it
    before it is handed to main() (generated from readPhaseSpace) *)
Theorem C11_source_start_object_is_fresh :
  Gen_H5Index.gen_read_ctor_passes_data = false /\ Gen_H5Index.gen_read_object_other_calls = 0.
Proof. exact (conj eq_refl eq_refl). Qed.
Print Assumptions C11_source_start_object_is_fresh.

(** whatever the two projections the start distribution is the product of (any grid extent, any shift, any zoom), as
    long as their product has a non-zero Simpson integral: the constructor leaves _filling[b] = _filling_set[b] for
    every filled bunch - integral = share *)
Theorem C11_fresh_constructor_charge_is_share :
  forall (K : Fld) (pos : K -> bool) (g : geom K) (m : mst K) b,
    0 <= b < gnb g -> pos (gfs g b) = true ->
    charge_of K g (fun b x y => fmul (m_proj m 0 b x) (m_proj m 1 b y)) b <> f0 ->
    m_fill (gen_ctor_fresh K (env_gen K pos g) m) b = gfs g b.
Proof. exact fresh_ctor_filling_is_share. Qed.
Print Assumptions C11_fresh_constructor_charge_is_share.

(** ... hence `normalize()` with those cached charges leaves every cell of a record [G] read over the grid as stored
    (exact arithmetic; in binary32: one rescale by share/measured-share, a factor within a few ulp of 1 - the bound
    the program-level oracle applies to the first record of a continued run) *)
Theorem C11_stale_normalisation_is_identity :
  forall (K : Fld) (pos : K -> bool) (g : geom K) (m : mst K) (G : Z -> Z -> Z -> K) b x y,
    0 <= b < gnb g -> 0 <= x < gn g -> 0 <= y < gn g ->
    pos (gfs g b) = true -> gfs g b <> f0 ->
    charge_of K g (fun b x y => fmul (m_proj m 0 b x) (m_proj m 1 b y)) b <> f0 ->
    m_data (gen_normalize K (env_gen K pos g) (set_data K G (gen_ctor_fresh K (env_gen K pos g) m))) b x y = G b x y.
Proof. exact stale_normalize_is_identity. Qed.
Print Assumptions C11_stale_normalisation_is_identity.

(** non-vacuity: a 3 x 3 single-bunch grid, both projections (1, 2, 1): the product integrates to 100/9 (not 1 - the
    grid cuts the distribution), the constructor leaves the cached charge 1 *)
Example C11_fresh_constructor_example :
  let g := geomQ 3 1 (Q2Qc (-1)) (Q2Qc 1) (Q2Qc (-1)) (Q2Qc 1) [Q2Qc 1] in
  let p := fun i : Z => if i =? 1 then Q2Qc 2 else Q2Qc 1 in
  let m := mkMst QcF (fun _ _ _ => Q2Qc 0) (fun _ _ i => p i) (fun _ => Q2Qc 0) (Q2Qc 0) (fun _ _ _ => Q2Qc 0) in
  posQc (gfs g 0) = true /\
  this (charge_of QcF g (fun b x y => Qcmult (m_proj m 0 b x) (m_proj m 1 b y)) 0) = (100 # 9)%Q /\
  this (m_fill (gen_ctor_fresh QcF (env_gen QcF posQc g) m) 0) = (1 # 1)%Q.
Proof. vm_compute. repeat split. Qed.
End FreshCtor.
