(** C11 - continuing from a results file equals never having stopped.
    Only statements closed by [exact]; proofs in Proofs/RecordsP.v, Proofs/RestartP.v (assembled in
    Proofs/C11P.v); DESIGN.md 5/C11.  File layer: Model/Records.v (append log, hyperslab read);
    control flow around the abstract physics kernels: Model/Restart.v. *)
From Coq Require Import List ZArith QArith Qcanon Bool.
From Inovesa Require Import Base.FieldKit Model.Records Model.Restart Proofs.RecordsP Proofs.RestartP Proofs.C11P.
Import ListNotations.
Local Open Scope Z_scope.

(** 1. whatever was appended (any payload type, any number of complete single-bunch records),
    the hyperslab read of record (len + step) mod len returns that record: same values, same order *)
Theorem C11_read_back_exact :
  forall (A : Type) (d : A) (recs : list (list A)) n step,
    0 < n -> recs <> [] -> (forall x, In x recs -> Z.of_nat (length x) = n * n) ->
    let len := Z.of_nat (length recs) in
    read_ps d (@PSset A [len; 1; n; n] (concat recs)) step
    = Some (n, nth (Z.to_nat (use_step len step)) recs []).
Proof. exact read_back_exact_c11. Qed.
Print Assumptions C11_read_back_exact.

(** the default InitialDistStep = -1 is the last record; 0 <= step < len is record [step];
    negative steps count from the end *)
Theorem C11_chosen_record :
  forall len step, 0 < len < 2 ^ 63 ->
    (use_step len (-1) = len - 1) /\
    (0 <= step < len -> use_step len step = step) /\
    (- len <= step < 0 -> use_step len step = len + step).
Proof. exact chosen_record_c11. Qed.
Print Assumptions C11_chosen_record.

(** 1b. whatever caches the loaded object carried, the first loop iteration sees the projection
    and the integral of the loaded grid *)
Theorem C11_caches_refreshed_before_first_step :
  forall (G P F : Type) (projX : G -> P) (integ : P -> F) (normW : F -> G -> G) r (s : pst G P F),
    let s' := prepare G P F projX integ normW r s in
    xproj _ _ _ s' = projX (grid _ _ _ s') /\ fill _ _ _ s' = integ (projX (grid _ _ _ s')).
Proof. exact caches_refreshed_c11. Qed.
Print Assumptions C11_caches_refreshed_before_first_step.

(** 2. the grid the continued run starts from: the stored one for RenormalizeCharge < 0, else
    the stored one normalised with the integral [f0] cached by the constructor (stale) *)
Theorem C11_start_state :
  forall (G P F : Type) (projX : G -> P) (integ : P -> F) (normW : F -> G -> G) r g p0 f0,
    grid _ _ _ (prepare G P F projX integ normW r (loaded G P F g p0 f0))
    = if 0 <=? r then snorm G F normW f0 g else g.
Proof. exact start_state_c11. Qed.
Print Assumptions C11_start_state.

(** 4. continuation: record n2 of the run started from record n1 of a first run = record
    n1+n2 of the uninterrupted run, for all kernels, when RenormalizeCharge < 0; and for
    RenormalizeCharge = r > 0 dividing n1 when normalisation is idempotent, absorbs the stale
    normalisation, and the maps do not see the two normalisations through the wake source *)
Theorem C11_continuation_equiv :
  forall (G P F : Type) (projX : G -> P) (integ : P -> F) (normW : F -> G -> G) (maps : P -> G -> G)
         r n1 n2 (s0 : pst G P F) p0 f0,
    0 <= n1 -> 0 <= n2 ->
    r < 0 \/
    (0 < r /\ (r | n1) /\
     (forall g, norm G P F projX integ normW (norm G P F projX integ normW g) = norm G P F projX integ normW g) /\
     (forall g, norm G P F projX integ normW (snorm G F normW f0 g) = norm G P F projX integ normW g) /\
     (forall g x, maps (projX (snorm G F normW f0 g)) x = maps (projX g) x) /\
     (forall g x, maps (projX (norm G P F projX integ normW g)) x = maps (projX g) x)) ->
    continued G P F projX integ normW maps r n1 n2 s0 p0 f0
    = single G P F projX integ normW maps r (n1 + n2) s0.
Proof. exact continuation_equiv_c11. Qed.
Print Assumptions C11_continuation_equiv.

(** RenormalizeCharge = 0: the two runs differ by exactly one application of the stale
    normalisation at the joint (and coincide when that is the identity on the stored grid) *)
Theorem C11_continuation_renorm0 :
  forall (G P F : Type) (projX : G -> P) (integ : P -> F) (normW : F -> G -> G) (maps : P -> G -> G)
         n1 n2 (s0 : pst G P F) p0 f0, 0 <= n1 -> 0 <= n2 ->
    let gK := grid _ _ _ (run_from G P F projX integ normW maps 0 n1 s0) in
    let fresh g := mkPst G P F g (projX g) (integ (projX g)) in
    single G P F projX integ normW maps 0 (n1 + n2) s0
      = grid _ _ _ (iter G P F projX integ normW maps 0 (Z.to_nat n2) 0 (fresh gK)) /\
    continued G P F projX integ normW maps 0 n1 n2 s0 p0 f0
      = grid _ _ _ (iter G P F projX integ normW maps 0 (Z.to_nat n2) 0 (fresh (snorm G F normW f0 gK))) /\
    (snorm G F normW f0 gK = gK ->
     continued G P F projX integ normW maps 0 n1 n2 s0 p0 f0 = single G P F projX integ normW maps 0 (n1 + n2) s0).
Proof. exact continuation_renorm0_c11. Qed.
Print Assumptions C11_continuation_renorm0.

(** without the divisibility hypothesis the statement is false even in exact arithmetic
    (the step counter of the continued run restarts at 0, so the schedules differ) *)
Theorem C11_continuation_nondividing_refuted :
  exists r n1 n2 (s0 : pst Qc Qc Qc) p0 f0,
    0 < r /\ ~ (r | n1) /\
    continued Qc Qc Qc (fun g => g) (fun p => p) toy_normW toy_maps r n1 n2 s0 p0 f0
    <> single Qc Qc Qc (fun g => g) (fun p => p) toy_normW toy_maps r (n1 + n2) s0.
Proof. exact continuation_nondividing_refuted_c11. Qed.
Print Assumptions C11_continuation_nondividing_refuted.

(** 5. a start file that cannot be opened, is not HDF5, has no /PhaseSpace/data, holds several
    bunches, or whose slab does not fit makes the reader return nothing (main then prints
    "Error reading ..." and stops before the simulation starts) *)
Theorem C11_unusable_start_refused :
  forall (A : Type) (d : A) (f : startfile A) step, unusable f -> read_ps d f step = None.
Proof. exact unusable_start_refused_c11. Qed.
Print Assumptions C11_unusable_start_refused.

(** ... and everything that is accepted is a complete square single-bunch block *)
Theorem C11_accepted_start_is_single_bunch :
  forall (A : Type) (d : A) (f : startfile A) step n (g : list A), read_ps d f step = Some (n, g) ->
    exists dims data, f = @PSset A dims data /\ 0 < n /\ Z.of_nat (length g) = n * n /\
      (dims = [hd 0 dims; n; nth 2 dims 0] \/ dims = [hd 0 dims; 1; n; nth 3 dims 0]).
Proof. exact accepted_start_c11. Qed.
Print Assumptions C11_accepted_start_is_single_bunch.

(** non-vacuity: two records of a 2x2 grid, default step; the hypotheses of the r > 0 case
    hold for exact normalisation without a wake (toy kernels over Qc) *)
Example C11_read_example :
  read_ps 0 (@PSset Z [2; 1; 2; 2] [1; 2; 3; 4; 5; 6; 7; 8]) (-1) = Some (2, [5; 6; 7; 8]) /\
  read_ps 0 (@PSset Z [2; 1; 2; 2] [1; 2; 3; 4; 5; 6; 7; 8]) 0 = Some (2, [1; 2; 3; 4]) /\
  read_ps 0 (@PSset Z [2; 2; 2; 2] [1; 2; 3; 4; 5; 6; 7; 8; 1; 2; 3; 4; 5; 6; 7; 8]) (-1) = None.
Proof. vm_compute. repeat split. Qed.
Example C11_continuation_example :
  continued Qc Qc Qc (fun g => g) (fun p => p) toy_normW toy_maps 2 2 3
     (mkPst Qc Qc Qc (Q2Qc 1) (Q2Qc 1) (Q2Qc 1)) (Q2Qc 1) (Q2Qc 1)
  = single Qc Qc Qc (fun g => g) (fun p => p) toy_normW toy_maps 2 5 (mkPst Qc Qc Qc (Q2Qc 1) (Q2Qc 1) (Q2Qc 1)).
Proof. vm_compute. reflexivity. Qed.

(** ** Tie of the reader to the source by translation (second wave).  [Gen/Gen_H5Index.v] is regenerated
    from HDF5File::readPhaseSpace, PhaseSpace::setSize and main() on every run
    (translate/h5index2coq.py): the record selection in 64-bit unsigned arithmetic, per rank the
    hyperslab start / count vectors, the memory space, the arguments of setSize, the acceptance
    test and which branch reads, main()'s grid-size test.  [gen_read_ps] (Proofs/H5IndexP.v)
    assembles them with what the library does with a hyperslab (Model/H5Slab.v). *)
From Inovesa Require Import Model.H5Slab Gen.Gen_H5Index Proofs.H5SlabP Proofs.H5IndexP.

(** the reader assembled from the source is the model's [read_ps], for every file whose extents are
    hsize_t values (so C11_read_back_exact, C11_unusable_start_refused and
    C11_accepted_start_is_single_bunch are statements about it) *)
Theorem C11_source_read_is_model :
  forall (A : Type) (d : A) (f : startfile A) step,
    hsize_dims f -> gen_read_ps d f step = read_ps d f step.
Proof. exact (@gen_read_ps_is_model). Qed.
Print Assumptions C11_source_read_is_model.

(** the chosen record, on the generated selection expression *)
Theorem C11_source_chosen_record :
  forall dims step, let len := nth 0 dims 0 in 0 < len < 2 ^ 63 ->
    gen_use_step dims (-1) = len - 1 /\
    (0 <= step < len -> gen_use_step dims step = step) /\
    (- len <= step < 0 -> gen_use_step dims step = len + step).
Proof. exact gen_chosen_record. Qed.
Print Assumptions C11_source_chosen_record.

(** read-back through the generated reader *)
Theorem C11_source_read_back_exact :
  forall (A : Type) (d : A) (recs : list (list A)) n step,
    0 < n < 2 ^ 64 -> recs <> [] -> (forall x, In x recs -> Z.of_nat (length x) = n * n) ->
    let len := Z.of_nat (length recs) in len < 2 ^ 64 ->
    gen_read_ps d (@PSset A [len; 1; n; n] (concat recs)) step
    = Some (n, nth (Z.to_nat (use_step len step)) recs []).
Proof. exact (@gen_read_back_exact). Qed.
Print Assumptions C11_source_read_back_exact.

(** refusals through the generated reader: multi-bunch files, files whose slab does not fit, ... *)
Theorem C11_source_unusable_refused :
  forall (A : Type) (d : A) (f : startfile A) step, hsize_dims f -> unusable f -> gen_read_ps d f step = None.
Proof. exact (@gen_unusable_refused). Qed.
Print Assumptions C11_source_unusable_refused.

(** main(): the start distribution is used iff the reader accepted it and its grid size is GridSize *)
Theorem C11_source_gridsize_refused :
  forall (A : Type) gridsize (r : option (Z * list A)) g,
    start_from_h5 gen_main_refuses_gridsize gridsize r = Some g <-> r = Some (gridsize, g).
Proof. exact (@gen_gridsize_refusal). Qed.
Print Assumptions C11_source_gridsize_refused.

Example C11_source_example :
  gen_read_ps 0 (@PSset Z [2; 1; 2; 2] [1; 2; 3; 4; 5; 6; 7; 8]) (-1) = Some (2, [5; 6; 7; 8]) /\
  gen_read_ps 0 (@PSset Z [2; 2; 2] [1; 2; 3; 4; 5; 6; 7; 8]) 0 = Some (2, [1; 2; 3; 4]) /\
  gen_read_ps 0 (@PSset Z [2; 2; 2; 2] [1; 2; 3; 4; 5; 6; 7; 8; 1; 2; 3; 4; 5; 6; 7; 8]) (-1) = None /\
  start_from_h5 gen_main_refuses_gridsize 3 (Some (2, [5; 6; 7; 8])) = None /\
  gen_use_step [5; 1; 2; 2] (-2) = 3.
Proof. vm_compute. repeat split. Qed.
