(** C13 - the saved configuration reproduces the run. *)
From Coq Require Import List String ZArith Bool.
From Inovesa Require Import Model.OptionsTypes Model.Options Gen.Gen_Options Proofs.OptionsP Proofs.OptionsThm.
Import ListNotations.
Local Open Scope string_scope.

Theorem generated_table_accepted_C13 : checker gen_table gen_prog = true.
Proof. vm_compute. reflexivity. Qed.
Print Assumptions generated_table_accepted_C13.
