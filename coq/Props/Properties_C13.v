(** C13 - the saved configuration reproduces the run.
    Model: Model/Options.v ([save], [reload]) over the generated table, parse program and writer
    rules (Gen/Gen_Options.v).  The refutations are stated for the parse program / writer rules of
    the pinned tree ([pinned_prog], [pinned_wrules]): each is the reason for one fix: commit. *)
From Coq Require Import List String ZArith Bool.
From Inovesa Require Import Model.OptionsTypes Model.Options Gen.Gen_Options Proofs.OptionsP Proofs.OptionsThm Proofs.OptionsRT.
Import ListNotations.
Local Open Scope string_scope.

Definition wf_all : cty -> tok -> bool := fun _ _ => true.
(** tokens that denote zero in the witnesses: the reserved "0" and the default of SynchrotronFrequency *)
Definition zero_w (t : tok) : bool := Z.eqb t 0 || Z.eqb t (default_of gen_table "SynchrotronFrequency").
(** a 6-digit stream: token 100 (say 1.23456789e9) comes back as token 101 (1.23457e+09) *)
Definition round6_w (ty : cty) (t : tok) : tok := if Z.eqb t 100 then 101%Z else t.

Definition member_after (P : prog) (W : wrules) (cli : list cliitem) (fs : tok -> fsent) (x : string)
  : option (list tok) * option (list tok) :=
  match parse gen_table wf_all P cli fs FNoFile with
  | Run s => (s_vars s x,
              match reload gen_table wf_all W zero_w round6_w P s 999%Z with Run r => s_vars r x | _ => Some [] end)
  | _ => (None, None)
  end.

(** H3 (pinned): with every option at its default, alpha0 comes back as the literal 0 *)
Theorem save_reload_roundtrip_refuted_H3 :
  exists cli fs, fst (member_after pinned_prog pinned_wrules cli fs "alpha0")
                 <> snd (member_after pinned_prog pinned_wrules cli fs "alpha0")
                 /\ snd (member_after pinned_prog pinned_wrules cli fs "alpha0") = Some [tok_zero].
Proof. exists [], (fun _ => FNoFile). vm_compute. split; [discriminate | reflexivity]. Qed.
Print Assumptions save_reload_roundtrip_refuted_H3.

(** H2 (pinned): bunch currents given on the command line are not saved: the member is as constructed after reload *)
Theorem save_reload_roundtrip_refuted_H2 :
  exists cli fs, member_after pinned_prog pinned_wrules cli fs "I_b" = (Some [21%Z; 22%Z], None).
Proof. exists [(Short "I", [21%Z; 22%Z])], (fun _ => FNoFile). vm_compute. reflexivity. Qed.
Print Assumptions save_reload_roundtrip_refuted_H2.

(** H1 (pinned): a value that 6 significant digits do not represent comes back changed *)
Theorem save_reload_roundtrip_refuted_H1 :
  exists cli fs, member_after pinned_prog pinned_wrules cli fs "E_0" = (Some [100%Z], Some [101%Z]).
Proof. exists [(Long "BeamEnergy", [100%Z])], (fun _ => FNoFile). vm_compute. reflexivity. Qed.
Print Assumptions save_reload_roundtrip_refuted_H1.

(** H4 (pinned): a legacy name in a parent config file is replaced by the default of the current name *)
Theorem save_reload_roundtrip_refuted_H4 :
  exists cli fs, member_after pinned_prog pinned_wrules cli fs "V_RF"
                 = (Some [31%Z], Some [default_of gen_table "AcceleratingVoltage"]).
Proof.
  exists [(Long "config", [9%Z])], (fun _ => FFile [("RFVoltage", [31%Z])]). vm_compute. reflexivity.
Qed.
Print Assumptions save_reload_roundtrip_refuted_H4.


(** options that are deliberately not reproduced: the name of the config file itself (written as a
    comment), run_anyway (in save()'s skip list; without effect once an output file is given,
    main.cpp:109), ForceOpenGLVersion (uint_fast8_t has no writer branch; OpenGL is not compiled here,
    the member has no getter) *)
Definition exempt : list string := ["config"; "run_anyway"; "ForceOpenGLVersion"].

(** Per-run reflection obligations: table/program and writer rules read from the source pass the checkers
    (C13 checker: the config option is a command-line option; every alias is in the skip list; floating
    values are written with max_digits10; every current typed option outside [exempt] is not skipped and
    has a writer branch - in particular the vector type of BunchCurrent). *)
Theorem generated_rules_accepted :
  checker gen_table gen_prog = true /\ checker13 gen_table gen_wrules gen_prog exempt = true.
Proof. vm_compute. split; reflexivity. Qed.
Print Assumptions generated_rules_accepted.

(** the pinned writer rules do not pass (no vector branch, 6 digits) *)
Example pinned_rules_rejected : checker13 gen_table pinned_wrules gen_prog exempt = false.
Proof. vm_compute. reflexivity. Qed.

(** C13.1 (partial).  For every table/program/rules accepted by the checkers, every token oracle, every
    error-free invocation and every current typed option outside [exempt]: if re-reading the saved file
    does not fail, the member holds after `--config saved` what it held originally, provided
    (H3') the alpha0 rule does not fire for it - on the current tree: the option is not alpha0, or no
    synchrotron frequency is in force (with one, alpha0 is not used: main.cpp:231-236) - and
    (H0) the option's entry holds at least one token (true by construction of store; monitored by the
    correspondence).  H1 (short values), H2 (no vector option) and H4 (no legacy alias) of the design are
    no longer needed after the fix: commits; their refutations on the pinned rules are above.
    Partial because "the reload does not fail" is a hypothesis here; it is checked on every run by the
    correspondence (model and implementation reload status) and by the oracle on the implementation. *)
Theorem save_reload_roundtrip_partial :
  forall (T : list opt) (P : prog) (W : wrules) (ex : list string),
  checker T P = true -> checker13 T W P ex = true ->
  forall wf zerotok round6 cli fs dflt s ftok s',
  parse T wf P cli fs dflt = Run s ->
  reload T wf W zerotok round6 P s ftok = Run s' ->
  forall o, In o T -> is_canon o = true -> typed o = true -> mem (o_name o) ex = false ->
    (String.eqb (o_name o) (w_alpha_name W)
     && Bool.eqb (var_is_zero zerotok (s_vars s) (w_alpha_var W)) (w_alpha_when_zero W)) = false ->
    (forall v d, s_vm s (o_name o) = Some (v, d) -> v <> []) ->
    s_vars s' (o_var o) = s_vars s (o_var o).
Proof.
  intros T P W ex CK C13 wf z r cli fs dflt s ftok s' H1 H2.
  exact (roundtrip_thm T wf W z r P ex cli fs dflt s ftok s' CK C13 H1 H2).
Qed.
Print Assumptions save_reload_roundtrip_partial.

(** H3' is needed: with a synchrotron frequency in force the saved file says alpha0=0 (by design of save) *)
Theorem save_reload_roundtrip_refuted_alpha0_with_fs :
  exists cli fs, member_after gen_prog gen_wrules cli fs "alpha0" = (Some [41%Z], Some [tok_zero]).
Proof. exists [(Long "alpha0", [41%Z]); (Short "f", [42%Z])], (fun _ => FNoFile). vm_compute. reflexivity. Qed.
Print Assumptions save_reload_roundtrip_refuted_alpha0_with_fs.

(** the same four inputs on the tree as it is now (generated program and rules): all come back *)
Example roundtrip_now :
  (let m := member_after gen_prog gen_wrules [] (fun _ => FNoFile) "alpha0" in fst m = snd m)
  /\ member_after gen_prog gen_wrules [(Short "I", [21%Z; 22%Z])] (fun _ => FNoFile) "I_b" = (Some [21%Z; 22%Z], Some [21%Z; 22%Z])
  /\ member_after gen_prog gen_wrules [(Long "BeamEnergy", [100%Z])] (fun _ => FNoFile) "E_0" = (Some [100%Z], Some [100%Z])
  /\ member_after gen_prog gen_wrules [(Long "config", [9%Z])] (fun _ => FFile [("RFVoltage", [31%Z])]) "V_RF" = (Some [31%Z], Some [31%Z]).
Proof. vm_compute. repeat split; reflexivity. Qed.
