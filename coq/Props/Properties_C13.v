(** C13 - the saved configuration reproduces the run.
    Model: Model/Options.v ([save], [reload]) over the generated table, parse program and writer
    rules (Gen/Gen_Options.v).  The refutations are stated for the parse program / writer rules of
    the pinned tree ([pinned_prog], [pinned_wrules]): each is the reason for one fix: commit. *)
From Coq Require Import List String ZArith Bool.
From Inovesa Require Import Model.OptionsTypes Model.Options Gen.Gen_Options Proofs.OptionsP Proofs.OptionsThm Proofs.OptionsRT Proofs.OptionsRT2 Proofs.OptionsRT3.
From Inovesa Require Model.CfgText Proofs.CfgTextGenP.
Import ListNotations.
Local Open Scope string_scope.

Definition wf_all : cty -> tok -> bool := fun _ _ => true.
(** tokens that denote zero in the witnesses: the reserved "0" and the default of SynchrotronFrequency *)
Definition zero_w (t : tok) : bool := Z.eqb t 0 || Z.eqb t (default_of gen_table "SynchrotronFrequency").
(** a 6-digit stream: token 100 (say 1.23456789e9) comes back as token 101 (1.23457e+09) *)
Definition round6_w (ty : cty) (t : tok) : tok := if Z.eqb t 100 then 101%Z else t.

Definition member_after (P : prog) (W : wrules) (cli : list cliitem) (fs : tok -> fsent) (x : string)
  : option (list tok) * option (list tok) :=
  match parse gen_table wf_all P cli fs FNoFile with
  | Run s => (s_vars s x,
              match reload gen_table wf_all W zero_w round6_w P s 999%Z with Run r => s_vars r x | _ => Some [] end)
  | _ => (None, None)
  end.

(** H3 (pinned): with every option at its default, alpha0 comes back as the literal 0 *)
Theorem save_reload_roundtrip_refuted_H3 :
  exists cli fs, fst (member_after pinned_prog pinned_wrules cli fs "alpha0")
                 <> snd (member_after pinned_prog pinned_wrules cli fs "alpha0")
                 /\ snd (member_after pinned_prog pinned_wrules cli fs "alpha0") = Some [tok_zero].
Proof. exists [], (fun _ => FNoFile). vm_compute. split; [discriminate | reflexivity]. Qed.
Print Assumptions save_reload_roundtrip_refuted_H3.

(** H2 (pinned): bunch currents given on the command line are not saved: the member is as constructed after reload *)
Theorem save_reload_roundtrip_refuted_H2 :
  exists cli fs, member_after pinned_prog pinned_wrules cli fs "I_b" = (Some [21%Z; 22%Z], None).
Proof. exists [(Short "I", [21%Z; 22%Z])], (fun _ => FNoFile). vm_compute. reflexivity. Qed.
Print Assumptions save_reload_roundtrip_refuted_H2.

(** H1 (pinned): a value that 6 significant digits do not represent comes back changed *)
Theorem save_reload_roundtrip_refuted_H1 :
  exists cli fs, member_after pinned_prog pinned_wrules cli fs "E_0" = (Some [100%Z], Some [101%Z]).
Proof. exists [(Long "BeamEnergy", [100%Z])], (fun _ => FNoFile). vm_compute. reflexivity. Qed.
Print Assumptions save_reload_roundtrip_refuted_H1.

(** H4 (pinned): a legacy name in a parent config file is replaced by the default of the current name *)
Theorem save_reload_roundtrip_refuted_H4 :
  exists cli fs, member_after pinned_prog pinned_wrules cli fs "V_RF"
                 = (Some [31%Z], Some [default_of gen_table "AcceleratingVoltage"]).
Proof.
  exists [(Long "config", [9%Z])], (fun _ => FFile [("RFVoltage", [31%Z])]). vm_compute. reflexivity.
Qed.
Print Assumptions save_reload_roundtrip_refuted_H4.


(** options that are deliberately not reproduced: the name of the config file itself (written as a
    comment), run_anyway (in save()'s skip list; without effect once an output file is given,
    main.cpp:109), ForceOpenGLVersion (uint_fast8_t has no writer branch; OpenGL is not compiled here,
    the member has no getter) *)
Definition exempt : list string := ["config"; "run_anyway"; "ForceOpenGLVersion"].

(** Per-run reflection obligations: table/program and writer rules read from the source pass the checkers.
    C13 checker, since the third wave [checker13s] (Proofs/OptionsRT3.v): the config option is a command-line option that
    takes a string, is no information switch and is in [exempt]; floating values are written with max_digits10; every
    current typed option outside [exempt] is not skipped and has a writer branch - in particular the vector type of
    BunchCurrent; EVERY NAME SAVE() MAY WRITE IS A TYPED OPTION OF THE CONFIG-FILE DESCRIPTION (the file parser knows it).
    Until the third wave this theorem stated [checker13], which also demanded the legacy names in save()'s skip list.
    That is no longer an obligation: a legacy name never has an entry in a state that parse() returns
    ([legacy_names_never_saved]), those entries of the skip list are dead code and removing them is harmless.  What the
    old checkers accepted the new one accepts ([checker13_13b_13s]); the old obligation is kept as
    [generated_rules_accepted_13]. *)
Theorem generated_rules_accepted :
  checker gen_table gen_prog = true /\ checker13s gen_table gen_wrules gen_prog exempt = true.
Proof. vm_compute. split; reflexivity. Qed.
Print Assumptions generated_rules_accepted.

Definition rules_with (skip : list string) (comment : list string) : wrules :=
  mkW skip (w_alpha_name gen_wrules) (w_alpha_var gen_wrules) (w_alpha_when_zero gen_wrules) (w_types gen_wrules)
      (w_precise gen_wrules) comment.

(** the obligation of the first two waves: [checker13] accepts the generated rules (with the legacy names in the skip
    list, where they are on the current tree; put there if a later tree drops them), so that the theorems stated with
    [checker13] - [save_reload_roundtrip_partial], [C13_reload_runs], [C13_save_reload_roundtrip], [..._no_fs] - apply *)
Theorem generated_rules_accepted_13 :
  checker13 gen_table (rules_with (map fst (prog_aliases gen_prog) ++ w_skip gen_wrules) (w_comment gen_wrules)) gen_prog exempt = true.
Proof. vm_compute. reflexivity. Qed.
Print Assumptions generated_rules_accepted_13.

(** the pinned writer rules do not pass (no vector branch, 6 digits) *)
Example pinned_rules_rejected : checker13 gen_table pinned_wrules gen_prog exempt = false.
Proof. vm_compute. reflexivity. Qed.

(** C13.1 (partial).  For every table/program/rules accepted by the checkers, every token oracle, every
    error-free invocation and every current typed option outside [exempt]: if re-reading the saved file
    does not fail, the member holds after `--config saved` what it held originally, provided
    (H3') the alpha0 rule does not fire for it - on the current tree: the option is not alpha0, or no
    synchrotron frequency is in force (with one, alpha0 is not used: main.cpp:231-236) - and
    (H0) the option's entry holds at least one token (true by construction of store; monitored by the
    correspondence).  H1 (short values), H2 (no vector option) and H4 (no legacy alias) of the design are
    no longer needed after the fix: commits; their refutations on the pinned rules are above.
    Partial because "the reload does not fail" is a hypothesis here; it is checked on every run by the
    correspondence (model and implementation reload status) and by the oracle on the implementation. *)
Theorem save_reload_roundtrip_partial :
  forall (T : list opt) (P : prog) (W : wrules) (ex : list string),
  checker T P = true -> checker13 T W P ex = true ->
  forall wf zerotok round6 cli fs dflt s ftok s',
  parse T wf P cli fs dflt = Run s ->
  reload T wf W zerotok round6 P s ftok = Run s' ->
  forall o, In o T -> is_canon o = true -> typed o = true -> mem (o_name o) ex = false ->
    (String.eqb (o_name o) (w_alpha_name W)
     && Bool.eqb (var_is_zero zerotok (s_vars s) (w_alpha_var W)) (w_alpha_when_zero W)) = false ->
    (forall v d, s_vm s (o_name o) = Some (v, d) -> v <> []) ->
    s_vars s' (o_var o) = s_vars s (o_var o).
Proof.
  intros T P W ex CK C13 wf z r cli fs dflt s ftok s' H1 H2.
  exact (roundtrip_thm T wf W z r P ex cli fs dflt s ftok s' CK C13 H1 H2).
Qed.
Print Assumptions save_reload_roundtrip_partial.

(** H3' is needed: with a synchrotron frequency in force the saved file says alpha0=0 (by design of save) *)
Theorem save_reload_roundtrip_refuted_alpha0_with_fs :
  exists cli fs, member_after gen_prog gen_wrules cli fs "alpha0" = (Some [41%Z], Some [tok_zero]).
Proof. exists [(Long "alpha0", [41%Z]); (Short "f", [42%Z])], (fun _ => FNoFile). vm_compute. reflexivity. Qed.
Print Assumptions save_reload_roundtrip_refuted_alpha0_with_fs.

(** the same four inputs on the tree as it is now (generated program and rules): all come back *)
Example roundtrip_now :
  (let m := member_after gen_prog gen_wrules [] (fun _ => FNoFile) "alpha0" in fst m = snd m)
  /\ member_after gen_prog gen_wrules [(Short "I", [21%Z; 22%Z])] (fun _ => FNoFile) "I_b" = (Some [21%Z; 22%Z], Some [21%Z; 22%Z])
  /\ member_after gen_prog gen_wrules [(Long "BeamEnergy", [100%Z])] (fun _ => FNoFile) "E_0" = (Some [100%Z], Some [100%Z])
  /\ member_after gen_prog gen_wrules [(Long "config", [9%Z])] (fun _ => FFile [("RFVoltage", [31%Z])]) "V_RF" = (Some [31%Z], Some [31%Z]).
Proof. vm_compute. repeat split; reflexivity. Qed.

(* ============================================================================================ *)
(** * Second wave: the two run-time hypotheses of [save_reload_roundtrip_partial] are theorems *)

(** Per-run reflection obligation of the second checker of the writer rules: the config option takes a
    string and is no information switch; everything save() may write (not skipped, and alpha0 or a type
    with a writer branch) is in the config-file description and typed. *)
Theorem generated_rules_accepted_reload : checker13b gen_table gen_wrules gen_prog = true.
Proof. vm_compute. reflexivity. Qed.
Print Assumptions generated_rules_accepted_reload.

(** The law about formatting and re-reading (ostream << / lexical_cast are glue), in two parts.
    (a) For a token that was read, save() writes that token: with max_digits10 digits the written text
        denotes the value it was made from. *)
Theorem C13_fmt_reparse :
  forall (W : wrules) round6 ty t, w_precise W = true -> fmtv W round6 ty t = t.
Proof. exact fmt_reparse. Qed.
Print Assumptions C13_fmt_reparse.

(**  (b) [reparse_lawb T wf W]: what save() writes without a well-formed input token behind it - a default
        of the table, the implicit `true` of a switch, the literal 0 of the alpha0 rule - is accepted as a
        value of the option's type.  It is a hypothesis on the token oracle; the model driver evaluates it
        for the oracle of every generated case.  Satisfiable, and not vacuous: with an oracle that refuses
        the text "0", `inovesa -f <t42>` saves alpha0=0 and the saved file is not accepted. *)
Example reparse_law_satisfiable : reparse_lawb gen_table wf_all gen_wrules = true.
Proof. vm_compute. reflexivity. Qed.

Example reload_needs_law :
  let wf0 := fun (_ : cty) t => negb (Z.eqb t 0) in
  reparse_lawb gen_table wf0 gen_wrules = false /\
  match parse gen_table wf0 gen_prog [(Short "f", [42%Z])] (fun _ => FNoFile) FNoFile with
  | Run s => reload gen_table wf0 gen_wrules zero_w round6_w gen_prog s 999%Z
  | _ => Stop
  end = Fail.
Proof. vm_compute. split; reflexivity. Qed.

(** Every entry of the variables map of a state that parse() returns is well formed for its option: a
    scalar holds exactly one well-formed token, a vector at least one, all well formed (H0 of the partial
    theorem: typed entries are never empty). *)
Theorem C13_entries_wellformed :
  forall (T : list opt) (P : prog) (W : wrules) wf, checker T P = true -> reparse_lawb T wf W = true ->
  forall cli fs dflt s, parse T wf P cli fs dflt = Run s ->
  forall n e, s_vm s n = Some e -> exists o, find_opt T n = Some o /\ vals_ok wf o (fst e) = true.
Proof. intros T P W wf CK LAW cli fs dflt s H. exact (parse_vm_ok T wf W LAW P cli fs dflt s CK H). Qed.
Print Assumptions C13_entries_wellformed.

(** The saved file is accepted: it holds only names of the config-file description, one line per scalar
    option, tokens that are well formed for their option. *)
Theorem C13_reload_runs :
  forall (T : list opt) (P : prog) (W : wrules) (ex : list string),
  checker T P = true -> checker13 T W P ex = true -> checker13b T W P = true ->
  forall wf zerotok round6, reparse_lawb T wf W = true ->
  forall cli fs dflt s ftok, parse T wf P cli fs dflt = Run s -> wf TString ftok = true ->
  exists s', reload T wf W zerotok round6 P s ftok = Run s'.
Proof.
  intros T P W ex CK C13 C13b wf z r LAW cli fs dflt s ftok H Wf.
  exact (reload_runs T wf W z r LAW P ex cli fs dflt s ftok CK C13 C13b H Wf).
Qed.
Print Assumptions C13_reload_runs.

(** C13.1.  For every table/program/rules accepted by the checkers, every token oracle that satisfies the
    re-reading law, every invocation for which parse() runs, and every name [ftok] of the saved file that
    is a string: `--config <saved>` runs, and every current typed option outside [exempt] has the member
    value it had originally - for the option the alpha0 rule is about under the hypothesis, stated on the
    original invocation, that the rule does not fire: the value in force (command line > file > legacy
    name > default) of the option bound to the rule's variable denotes zero / non-zero as the rule's
    polarity says ([zero_in_force]).  The rule itself is by design of save(): with a synchrotron frequency
    alpha0 is not used (main.cpp) and is written as 0. *)
Theorem C13_save_reload_roundtrip :
  forall (T : list opt) (P : prog) (W : wrules) (ex : list string),
  checker T P = true -> checker13 T W P ex = true -> checker13b T W P = true ->
  forall wf zerotok round6, reparse_lawb T wf W = true ->
  forall cli fs dflt s ftok items,
  parse T wf P cli fs dflt = Run s -> resolve_all T cli = Some items -> wf TString ftok = true ->
  exists s', reload T wf W zerotok round6 P s ftok = Run s' /\
    forall o, In o T -> is_canon o = true -> typed o = true -> mem (o_name o) ex = false ->
      (o_name o <> w_alpha_name W
       \/ exists ofs, In ofs T /\ is_canon ofs = true /\ typed ofs = true /\ o_var ofs = w_alpha_var W
                      /\ Bool.eqb (zero_in_force T zerotok P items (loaded T P items fs dflt) ofs) (w_alpha_when_zero W) = false) ->
      s_vars s' (o_var o) = s_vars s (o_var o).
Proof.
  intros T P W ex CK C13 C13b wf z r LAW cli fs dflt s ftok items H RA Wf.
  exact (roundtrip_full T wf W z r LAW P ex cli fs dflt s ftok items CK C13 C13b H RA Wf).
Qed.
Print Assumptions C13_save_reload_roundtrip.

(** The same for the polarity of the current tree (alpha0=0 is written when the synchrotron frequency is
    non-zero): the option is not alpha0, or no synchrotron frequency was given - the option bound to the
    rule's variable is neither on the command line nor in the loaded file under its current or legacy
    name - and its default denotes zero. *)
Theorem C13_save_reload_roundtrip_no_fs :
  forall (T : list opt) (P : prog) (W : wrules) (ex : list string),
  checker T P = true -> checker13 T W P ex = true -> checker13b T W P = true -> w_alpha_when_zero W = false ->
  forall wf zerotok round6, reparse_lawb T wf W = true ->
  forall cli fs dflt s ftok items,
  parse T wf P cli fs dflt = Run s -> resolve_all T cli = Some items -> wf TString ftok = true ->
  exists s', reload T wf W zerotok round6 P s ftok = Run s' /\
    forall o, In o T -> is_canon o = true -> typed o = true -> mem (o_name o) ex = false ->
      (o_name o <> w_alpha_name W
       \/ exists ofs d, In ofs T /\ is_canon ofs = true /\ typed ofs = true /\ o_var ofs = w_alpha_var W
                        /\ occurs (o_name ofs) items = false
                        /\ occurs (o_name ofs) (loaded T P items fs dflt) = false
                        /\ (forall a, alias_of (prog_aliases P) (o_name ofs) = Some a -> occurs a (loaded T P items fs dflt) = false)
                        /\ o_defcli ofs = Some d /\ zerotok d = true) ->
      s_vars s' (o_var o) = s_vars s (o_var o).
Proof.
  intros T P W ex CK C13 C13b WZ wf z r LAW cli fs dflt s ftok items H RA Wf.
  exact (roundtrip_no_fs T wf W z r LAW P ex cli fs dflt s ftok items CK C13 C13b WZ H RA Wf).
Qed.
Print Assumptions C13_save_reload_roundtrip_no_fs.

(** the hypotheses are satisfiable on the generated table: `inovesa --alpha0 <t41> -I <t21> <t22>` (no
    synchrotron frequency: its default denotes zero) - the reload runs and alpha0, the bunch currents
    and the grid size come back *)
Example roundtrip_no_fs_example :
  w_alpha_when_zero gen_wrules = false /\
  (exists ofs d, find_opt gen_table "SynchrotronFrequency" = Some ofs /\ o_var ofs = w_alpha_var gen_wrules
                 /\ o_defcli ofs = Some d /\ zero_w d = true) /\
  match parse gen_table wf_all gen_prog [(Long "alpha0", [41%Z]); (Short "I", [21%Z; 22%Z])] (fun _ => FNoFile) FNoFile with
  | Run s => match reload gen_table wf_all gen_wrules zero_w round6_w gen_prog s 999%Z with
             | Run r => (s_vars r "alpha0", s_vars r "I_b", s_vars r "meshsize") = (s_vars s "alpha0", s_vars s "I_b", s_vars s "meshsize")
                        /\ s_vars r "alpha0" = Some [41%Z]
             | _ => False
             end
  | _ => False
  end.
Proof. vm_compute. repeat split; try reflexivity. eexists. eexists. repeat split; reflexivity. Qed.

(* ============================================================================================ *)
(** * Third wave (family opts2): [save_reload_roundtrip] *)

(** broken rule sets are rejected: the pinned rules (6 digits, no vector branch); a writer that skips one more option;
    a writer that writes the `config` line as an option (not a name of the config-file description: the reload would
    fail with "unknown option").  A harmless one is accepted: the three legacy names removed from the skip list. *)
Example broken_rules_rejected :
  checker13s gen_table pinned_wrules gen_prog exempt = false
  /\ checker13s gen_table (rules_with ("GridSize" :: w_skip gen_wrules) (w_comment gen_wrules)) gen_prog exempt = false
  /\ checker13s gen_table (rules_with (w_skip gen_wrules) []) gen_prog exempt = false
  /\ checker13s gen_table
       (rules_with (filter (fun n => negb (mem n (map fst (prog_aliases gen_prog)))) (w_skip gen_wrules)) (w_comment gen_wrules))
       gen_prog exempt = true
  /\ rules_with (w_skip gen_wrules) (w_comment gen_wrules) = gen_wrules.
Proof. vm_compute. repeat split; reflexivity. Qed.

(** C13.1.  For every table / parse program / writer rules accepted by the checkers, every token oracle [wf] that satisfies
    the re-reading law, every invocation for which parse() runs, and every token [ftok] naming the saved file:
    `inovesa --config <saved>` RUNS, and every current typed option outside [exempt] has the member value it had
    after the original invocation, provided the alpha0 rule does not fire for it (H3': the option is not alpha0, or the
    member the rule looks at - the synchrotron frequency - is zero / non-zero as the rule's polarity says; with a
    synchrotron frequency alpha0 is unused and written as 0 by design, [save_reload_roundtrip_refuted_alpha0_with_fs]).

    The hypotheses that are not checkers are about the token oracle only (ostream << and lexical_cast are glue):
    - [reparse_lawb T wf W]: the tokens save() writes WITHOUT a token that was read standing behind them - a default of the
      table, the implicit `true` of a switch, the literal 0 of the alpha0 rule - are well formed for the option's type;
      for a token that was read save() writes that token ([C13_fmt_reparse]: max_digits10 digits denote the value they
      were made from), which was well formed when it was read ([C13_entries_wellformed]);
    - [wf TString ftok]: the name of the saved file is accepted as a string (every word is).
    Both are evaluated by the model driver for the oracle of every generated case (`law true` is required); both are
    needed ([reload_needs_law]; a file name the oracle refuses makes the reload fail by definition of parse).
    The two hypotheses of [save_reload_roundtrip_partial] - "the reload does not fail" and H0 - are gone. *)
Theorem save_reload_roundtrip :
  forall (T : list opt) (P : prog) (W : wrules) (ex : list string),
  checker T P = true -> checker13s T W P ex = true ->
  forall wf zerotok round6, reparse_lawb T wf W = true ->
  forall cli fs dflt s ftok, parse T wf P cli fs dflt = Run s -> wf TString ftok = true ->
  exists s', reload T wf W zerotok round6 P s ftok = Run s' /\
    forall o, In o T -> is_canon o = true -> typed o = true -> mem (o_name o) ex = false ->
      (String.eqb (o_name o) (w_alpha_name W)
       && Bool.eqb (var_is_zero zerotok (s_vars s) (w_alpha_var W)) (w_alpha_when_zero W)) = false ->
      s_vars s' (o_var o) = s_vars s (o_var o).
Proof.
  intros T P W ex CK C13 wf z r LAW cli fs dflt s ftok H Wf.
  exact (save_reload_roundtrip_thm T wf W z r P ex CK C13 LAW cli fs dflt s ftok H Wf).
Qed.
Print Assumptions save_reload_roundtrip.

(** the saved file never contains a legacy name (which is why the skip list need not name them) *)
Theorem legacy_names_never_saved :
  forall (T : list opt) (P : prog), checker T P = true ->
  forall wf cli fs dflt s a c, parse T wf P cli fs dflt = Run s -> In (a, c) (prog_aliases P) -> s_vm s a = None.
Proof. intros T P CK wf cli fs dflt s a c H I. exact (alias_not_in_vm T wf P cli fs dflt s a c CK H I). Qed.
Print Assumptions legacy_names_never_saved.

(** hypotheses satisfiable and conclusion not vacuous on the generated table: `inovesa -V <t5> -I <t21> <t22> --config f`,
    f = { RFVoltage=<t7>; steps=<t8>; BeamEnergy=<t100> }: the reload runs; V_RF (command line over a legacy line),
    steps_per_Ts (legacy line), E_0 (file), I_b (vector) and alpha0 (default; no synchrotron frequency) come back *)
Example save_reload_roundtrip_example :
  match parse gen_table wf_all gen_prog [(Short "V", [5%Z]); (Short "I", [21%Z; 22%Z]); (Long "config", [9%Z])]
          (fun _ => FFile [("RFVoltage", [7%Z]); ("steps", [8%Z]); ("BeamEnergy", [100%Z])]) FNoFile with
  | Run s =>
    var_is_zero zero_w (s_vars s) (w_alpha_var gen_wrules) = true /\
    match reload gen_table wf_all gen_wrules zero_w round6_w gen_prog s 999%Z with
    | Run r => (s_vars r "V_RF", s_vars r "steps_per_Ts", s_vars r "E_0", s_vars r "I_b", s_vars r "alpha0")
               = (Some [5%Z], Some [8%Z], Some [100%Z], Some [21%Z; 22%Z], s_vars s "alpha0")
    | _ => False
    end
  | _ => False
  end.
Proof. vm_compute. split; reflexivity. Qed.

(** C13.1 composed with the precedence of C20: the saved file re-read together with extra command-line options,
    `inovesa <extra options> --config <saved>` ([reload_with]).  If the extra options alone are an acceptable invocation
    (they run in a directory without any config file: no unknown name, no malformed value, no information switch, no
    `--config`), the re-reading invocation RUNS; a current typed option outside [exempt] that is among the extra options
    has the member value the extra options alone give it, every other one has the member value of the original
    invocation (for alpha0 under H3', as in [save_reload_roundtrip]). *)
Theorem save_reload_with_overrides :
  forall (T : list opt) (P : prog) (W : wrules) (ex : list string),
  checker T P = true -> checker13s T W P ex = true ->
  forall wf zerotok round6, reparse_lawb T wf W = true ->
  forall cli fs dflt s ftok cli2 s2,
  parse T wf P cli fs dflt = Run s -> wf TString ftok = true ->
  parse T wf P cli2 (fun _ => FNoFile) FNoFile = Run s2 ->
  exists s' items2, reload_with T wf W zerotok round6 P s ftok cli2 = Run s' /\ resolve_all T cli2 = Some items2 /\
    forall o, In o T -> is_canon o = true -> typed o = true -> mem (o_name o) ex = false ->
      (occurs (o_name o) items2 = true -> s_vars s' (o_var o) = s_vars s2 (o_var o))
      /\ (occurs (o_name o) items2 = false ->
          (String.eqb (o_name o) (w_alpha_name W)
           && Bool.eqb (var_is_zero zerotok (s_vars s) (w_alpha_var W)) (w_alpha_when_zero W)) = false ->
          s_vars s' (o_var o) = s_vars s (o_var o)).
Proof.
  intros T P W ex CK C13 wf z r LAW cli fs dflt s ftok cli2 s2 H Wf H2.
  exact (roundtrip_override T wf W z r LAW P ex CK C13 cli fs dflt s ftok cli2 s2 H Wf H2).
Qed.
Print Assumptions save_reload_with_overrides.

(** `inovesa -V <t5> -I <t21> <t22> -N <t4>`, saved, then `inovesa -V <t6> -N <t4> --config saved`: V_RF is <t6>, the bunch
    currents and the steps come back *)
Example save_reload_with_overrides_example :
  match parse gen_table wf_all gen_prog [(Short "V", [5%Z]); (Short "I", [21%Z; 22%Z]); (Short "N", [4%Z])] (fun _ => FNoFile) FNoFile with
  | Run s =>
    match reload_with gen_table wf_all gen_wrules zero_w round6_w gen_prog s 999%Z [(Short "V", [6%Z]); (Short "N", [4%Z])] with
    | Run r => (s_vars r "V_RF", s_vars r "I_b", s_vars r "steps_per_Ts") = (Some [6%Z], Some [21%Z; 22%Z], Some [4%Z])
    | _ => False
    end
  | _ => False
  end.
Proof. vm_compute. reflexivity. Qed.

(** ** The text of the saved file (strengthening after seeded change C13-H: string values with blanks written in quotes)

    Everything above is about opaque value tokens: a saved file is a list of (name, token) items and the re-reading
    invocation is handed those items ([saved_items]) - for a STRING option this silently assumes that the text save()
    writes for the value, read by boost's config-file reader, is the value again.  Model/CfgText.v models both sides as
    text: [read_text] is `common_config_file_iterator::get()` over the `std::getline` loop ('#' starts a comment, the line
    and both sides of the first '=' are trimmed of blank/tab/CR/LF, quotes and backslashes mean nothing), and
    [gen_string_line] is the `ofs << ...` chain of save()'s string branch as translate/options2coq.py reads it on every
    run.  [saved_string_line_reread]: for the generated chain, every string option of the generated table (their names are
    plain words) and every value a line can hold ([cfg_representable]: no '#', no line feed, no white space at either end;
    inner blanks and tabs, quotes, backslashes, '=' and the empty string included) the written text is read back as exactly
    that (name, value).  This discharges the assumption for representable values.  For the others the token-level round
    trip does NOT describe the program: [saved_string_roundtrip_refuted] (a finding on the real code, see docs/built/C13.md). *)
Theorem saved_string_line_reread :
  (forall o, In o gen_table -> o_ty o = TString -> CfgText.name_ok (CfgText.text_of_string (o_name o)) = true) /\
  (forall n v, CfgText.name_ok n = true -> CfgText.cfg_representable v = true ->
     CfgText.read_text (CfgText.write_pieces gen_string_line n v) = [CfgText.LOption n v] /\
     CfgText.reread gen_string_line n v = Some [(n, v)]).
Proof. exact CfgTextGenP.saved_string_line_reread_thm. Qed.
Print Assumptions saved_string_line_reread.

(** "every string value comes back from the saved file" is refuted for the current writer and reader: `-o run#3.h5` comes
    back as `run`, ` a.h5` as `a.h5`, `t<TAB>` as `t`; a value with a line feed adds a second line, read as another option
    (`GridSize=7`) or refused (no '=') *)
Theorem saved_string_roundtrip_refuted :
  let T := CfgText.text_of_string in
  CfgText.reread gen_string_line (T "output") (T "run#3.h5") = Some [(T "output", T "run")] /\
  CfgText.reread gen_string_line (T "output") (T " a.h5") = Some [(T "output", T "a.h5")] /\
  CfgText.reread gen_string_line (T "tracking") (T CfgTextGenP.w_tab) = Some [(T "tracking", T "t")] /\
  CfgText.reread gen_string_line (T "output") (T CfgTextGenP.w_lf_option)
    = Some [(T "output", T "a.h5"); (T "GridSize", T "7")] /\
  CfgText.reread gen_string_line (T "output") (T CfgTextGenP.w_lf_junk) = None.
Proof. exact CfgTextGenP.saved_string_roundtrip_refuted_thm. Qed.
Print Assumptions saved_string_roundtrip_refuted.

(** the hypothesis of [saved_string_line_reread] is satisfiable where it matters: paths with inner blanks, '=', quotes *)
Example saved_string_line_reread_example :
  CfgText.reread gen_string_line (CfgText.text_of_string "output") (CfgText.text_of_string "scan 01/run = ""a"".h5")
  = Some [(CfgText.text_of_string "output", CfgText.text_of_string "scan 01/run = ""a"".h5")].
Proof. vm_compute. reflexivity. Qed.
