(** C06 - the wake potential is the discrete (circular) convolution of the zero-padded train of
    bunch profiles with the kernel made of the lower half of the impedance.
    Only statements closed by [exact]; proofs in Proofs/DFTP.v, DFTThm.v, DFTInst.v; DESIGN.md 5/C06.

    Vocabulary: [N] transform length (_nmax), [cs]/[sn] the twiddle table, [wake_padded] the model of
    _wakepotential_padded after wakePotential() (r2c, multiply cells i < N/2 by Z_i, c2r),
    [kernel Zi m] = Re Z_0 + 2 sum_{0<k<N/2} Re (Z_k w^{mk}) with N/2 the integer division the code's
    loop uses, [fresh_top]: cell N/2 of _wakelosses, which that loop never writes, is zero (fresh
    object), [wake_model] the per-bunch read-back times the scaling. *)
From Coq Require Import List ZArith QArith Qcanon Reals Lia.
From Inovesa Require Model.Pow2Ops Gen.Gen_Pow2 Proofs.Pow2GenP.
From Inovesa Require Import Base.FieldKit Base.Sums Base.RInst Base.Float32 Model.DFT
  Proofs.DFTP Proofs.DFTInst Proofs.DFTThm Proofs.PadLenP.
Import ListNotations.
Local Open Scope Z_scope.

(** 1. Fubini + angle addition: the padded wake is the circular convolution with [kernel] *)
Theorem C06_wake_is_convolution :
  forall (K : Fld) (N : Z) (cs sn : Z -> K), 2 <= N -> twiddle_laws K cs sn ->
  forall (Zi stale : Z -> cplx K) (p : Z -> K) (j : Z),
    twiddle_period K N cs sn -> fresh_top K N stale ->
    wake_padded N cs sn Zi stale p j
    = sumZ 0 (nN N) (fun u => (p u * kernel K N cs sn Zi ((j - u) mod N))%F).
Proof. exact t_wake_is_convolution. Qed.
Print Assumptions C06_wake_is_convolution.

(** the same without reducing the kernel argument (needs no periodicity of the table) *)
Theorem C06_wake_is_convolution_unreduced :
  forall (K : Fld) (N : Z) (cs sn : Z -> K), 2 <= N -> twiddle_laws K cs sn ->
  forall (Zi stale : Z -> cplx K) (p : Z -> K) (j : Z),
    fresh_top K N stale ->
    wake_padded N cs sn Zi stale p j = sumZ 0 (nN N) (fun u => (p u * kernel K N cs sn Zi (j - u))%F).
Proof. exact t_wake_padded_convolution. Qed.
Print Assumptions C06_wake_is_convolution_unreduced.

(** 2a. linear in the profiles *)
Theorem C06_wake_linear :
  forall (K : Fld) (N : Z) (cs sn : Z -> K), 2 <= N -> twiddle_laws K cs sn ->
  forall (Zi stale : Z -> cplx K) (p q : Z -> K) (a : K) (j : Z),
    fresh_top K N stale ->
    wake_padded N cs sn Zi stale (fun u => (a * p u + q u)%F) j
    = (a * wake_padded N cs sn Zi stale p j + wake_padded N cs sn Zi stale q j)%F.
Proof. exact t_wake_linear. Qed.
Print Assumptions C06_wake_linear.

(** 2b. moving the padded train cyclically by [d] cells moves the padded wake by [d] cells *)
Theorem C06_wake_shift_equivariant :
  forall (K : Fld) (N : Z) (cs sn : Z -> K), 2 <= N -> twiddle_laws K cs sn ->
  forall (Zi stale : Z -> cplx K) (p : Z -> K) (d j : Z),
    twiddle_period K N cs sn -> fresh_top K N stale ->
    wake_padded N cs sn Zi stale (fun u => p ((u - d) mod N)) j = wake_padded N cs sn Zi stale p (j - d).
Proof. exact t_wake_shift. Qed.
Print Assumptions C06_wake_shift_equivariant.

Theorem C06_wake_periodic :
  forall (K : Fld) (N : Z) (cs sn : Z -> K), 2 <= N -> twiddle_laws K cs sn ->
  forall (Zi stale : Z -> cplx K) (p : Z -> K) (j t : Z),
    twiddle_period K N cs sn -> fresh_top K N stale ->
    wake_padded N cs sn Zi stale p (j + N * t) = wake_padded N cs sn Zi stale p j.
Proof. exact t_wake_periodic. Qed.
Print Assumptions C06_wake_periodic.

(** 2c. padBunchProfiles on a zeroed buffer with pairwise disjoint windows: bunch b sits at
    bucket_b*spacing, cells outside every window (empty buckets, gaps) stay zero *)
Theorem C06_pad_places_bunch :
  forall (K : Fld) (n s : Z) (bs : list (Z * (Z -> K))) (b : Z * (Z -> K)) (x : Z),
    disjoint_wins n s bs -> In b bs -> 0 <= x < n ->
    pad n s bs (fun _ => f0) (fst b * s + x) = snd b x.
Proof. exact pad_inside. Qed.
Print Assumptions C06_pad_places_bunch.

Theorem C06_pad_empty_buckets :
  forall (K : Fld) (n s : Z) (bs : list (Z * (Z -> K))) (u : Z),
    disjoint_wins n s bs -> (forall b, In b bs -> inwin (fst b * s) n u = false) ->
    pad n s bs (fun _ => f0) u = f0.
Proof. exact pad_outside. Qed.
Print Assumptions C06_pad_empty_buckets.

(** ... and the wake of bunch [bk] at cell [x] is the scaling times the sum over the bunches of the
    train of their profiles convolved with the kernel at distance (bk - bk')*spacing + x - x' *)
Theorem C06_wake_bucket_placement :
  forall (K : Fld) (N : Z) (cs sn : Z -> K), 2 <= N -> twiddle_laws K cs sn ->
  forall (Zi stale : Z -> cplx K) (n s : Z) (bs : list (Z * (Z -> K))) (scale : K) (bk x : Z),
    fresh_top K N stale -> 0 <= n -> disjoint_wins n s bs -> in_buffer K N n s bs ->
    wake_model N cs sn n s Zi stale (fun _ => f0) bs scale bk x
    = (scale * fsum (map (fun b => sumZ 0 (Z.to_nat n)
                 (fun x' => snd b x' * kernel K N cs sn Zi ((bk - fst b) * s + x - x'))) bs))%F.
Proof. exact t_wake_model_train. Qed.
Print Assumptions C06_wake_bucket_placement.

(** 2d. only Re Z_0 and Z_k for 0 < k < N/2 are seen: the upper half of the table, Im Z_0 and
    cell N/2 do not matter *)
Theorem C06_wake_uses_half_spectrum :
  forall (K : Fld) (N : Z) (cs sn : Z -> K), 2 <= N -> twiddle_laws K cs sn ->
  forall (Zi Zi' stale : Z -> cplx K) (p : Z -> K) (j : Z),
    fresh_top K N stale -> fst (Zi 0) = fst (Zi' 0) ->
    (forall k, 0 < k < N / 2 -> Zi k = Zi' k) ->
    wake_padded N cs sn Zi stale p j = wake_padded N cs sn Zi' stale p j.
Proof. exact t_wake_half_spectrum. Qed.
Print Assumptions C06_wake_uses_half_spectrum.

(** 3. the constructor's scaling is Ib*dt*c/(sigma_z*dE_cell)/N with dE_cell = delta_E*sigma_delta*E0 *)
Theorem C06_wake_scaling_formula :
  forall (K : Fld) (N : Z) (Ib dt c sz dE sd E0 : K),
    sz <> f0 -> dE <> f0 -> sd <> f0 -> E0 <> f0 -> @fz K N <> f0 ->
    wake_scaling N Ib dt c sz dE sd E0 = (Ib * dt * c / (sz * (dE * sd * E0)) / fz N)%F.
Proof. exact t_wake_scaling_formula. Qed.
Print Assumptions C06_wake_scaling_formula.

(** 3b. upper_power_of_two (bit smearing on uint64) is the least power of two >= v *)
Theorem C06_upper_power_of_two :
  forall v, 1 <= v <= 2 ^ 63 -> upper_power_of_two v = 2 ^ Z.log2_up v.
Proof. exact upper_power_of_two_spec. Qed.
Print Assumptions C06_upper_power_of_two.

(** 3b'. ... and that is what the SOURCE computes: the operation list read from vfps::upper_power_of_two on every run
    (Gen/Gen_Pow2.v, translate/pow2coq.py: v--, the six or-shift stages, v++, executed on a 64-bit register with the
    wrap-around written out) is, for EVERY argument, the function the padded-length theorems are about. *)
Theorem C06_upper_power_of_two_generated :
  forall v, Pow2Ops.run_uops Gen_Pow2.gen_upow2_ops v = upper_power_of_two v.
Proof. exact Pow2GenP.gen_upow2_is_model_dft. Qed.
Print Assumptions C06_upper_power_of_two_generated.

Theorem C06_upper_power_of_two_generated_spec :
  forall v, 1 <= v <= 2 ^ 63 -> Pow2Ops.run_uops Gen_Pow2.gen_upow2_ops v = 2 ^ Z.log2_up v.
Proof. exact Pow2GenP.gen_upow2_spec. Qed.
Print Assumptions C06_upper_power_of_two_generated_spec.

(** the hypotheses are satisfiable: the real table for every N, an exact rational table for N = 4 *)
Theorem C06_real_table :
  forall N, 0 < N -> twiddle_laws RF (csR N) (snR N) /\ twiddle_period RF N (csR N) (snR N).
Proof. exact laws_R. Qed.
Print Assumptions C06_real_table.

Theorem C06_exact_table_N4 : twiddle_laws QcF cs4 sn4 /\ twiddle_period QcF 4 cs4 sn4.
Proof. exact laws_Qc4. Qed.
Print Assumptions C06_exact_table_N4.

(** a computed wake on the exact table: profile (1,2,0,0), Z_0 = 3+5i, Z_1 = 2-i *)
Example C06_wake_example :
  map (wake_padded (K:=QcF) 4 cs4 sn4 ex_Z (fun _ => czero) ex_p) (zrange 4) = map Qcz [9; 19; 9; -1]
  /\ map (fun j => sumZ (K:=QcF) 0 4 (fun u => (ex_p u * kernel QcF 4 cs4 sn4 ex_Z ((j - u) mod 4))%Qc)) (zrange 4)
     = map Qcz [9; 19; 9; -1].
Proof. exact dft_Qc_N4. Qed.

(** two bunches in buckets 2 and 0 with spacing 3, width 2: disjoint windows inside N = 8 *)
Example C06_layout_example :
  let bs := [(2, fun x => Qcz (x + 1)); (0, fun x => Qcz (10 + x))] : list (Z * (Z -> QcF)) in
  disjoint_wins 2 3 bs /\ in_buffer QcF 8 2 3 bs /\
  map (pad 2 3 bs (fun _ => 0%Qc)) (zrange 8) = map Qcz [10; 11; 0; 0; 0; 0; 1; 2].
Proof.
  cbn [disjoint_wins]. repeat split; try (repeat constructor; unfold apart; cbn; lia).
Qed.

(** the list front-end that is extracted (trie lookups, shared half spectrum) computes the
    function-level model the theorems speak of - computed here on the exact N = 4 table with two
    bunches of width 2, spacing 2, buckets 1 and 0 (the general statement is exercised by the
    correspondence run, not proved) *)
Example C06_list_frontend_agrees :
  let tc := map Qcz [1; 0; -1; 0] in
  let ts := map Qcz [0; 1; 0; -1] in
  let zi : list (cplx QcF) := [(Qcz 3, Qcz 5); (Qcz 2, Qcz (-1)); (Qcz 7, Qcz 7); (Qcz 1, Qcz 1)] in
  let profs : list (list QcF) := [map Qcz [1; 2]; map Qcz [3; 5]] in
  let bs := [(1, getz 0%Qc (map Qcz [1; 2])); (0, getz 0%Qc (map Qcz [3; 5]))] : list (Z * (Z -> QcF)) in
  wake_list (K:=QcF) 4 2 2 tc ts zi [] [1; 0] profs [] (Qcz 2)
  = map (fun bk => map (wake_model (K:=QcF) 4 cs4 sn4 2 2 (getz (@czero QcF) zi) (fun _ => @czero QcF) (fun _ => 0%Qc) bs (Qcz 2) bk)
                       (zrange 2)) [1; 0]
  /\ padded_list (K:=QcF) 4 2 2 [1; 0] profs [] = map Qcz [3; 5; 1; 2].
Proof. split; vm_compute; reflexivity. Qed.

(** ------------------------------------------------------------------------------------------------
    Tie to the CURRENT source through the translator (second wave).  [Gen/Gen_EField.v] is regenerated
    from ElectricField::padBunchProfiles / wakePotential / updateCSR on every run
    (translate/efield2coq.py): loop skeletons, bounds, index expressions, right-hand sides.  [run_gen P h]
    runs a history [h] of calls through these generated programs on a fresh object [P] whose transforms
    are the DFT of this file.  The theorems above then hold for what the generated [wakePotential]
    returns - after any history, for every number of bunches, bucket list and spacing. *)
From Inovesa Require Import Model.EField Model.EFieldProg Gen.Gen_EField Proofs.EFieldGenP Proofs.EFieldDFTP Proofs.EFieldTieP.

Theorem C06_generated_wake_is_convolution :
  forall (K : Fld) (P : fobj K),
    2 <= oN P -> hypB (E_of K P) -> (forall c : K, osgn P c = Gt -> c <> f0) ->
    twiddle_laws K (ocs P) (osn P) ->
  forall (h : list (op K)) (p : Z -> K) (b : nat) (x : Z),
    (b < length (obks P))%nat -> 0 <= x < on P -> 0 <= nth b (obks P) 0 * ospc P + x < oN P ->
    disjoint_wins (on P) (ospc P) (train K P p) -> in_buffer K (oN P) (on P) (ospc P) (train K P p) ->
    wake (run_gen K P (h ++ [Wake p])) (Z.of_nat b * on P + x)
    = (oscale P * fsum (map (fun b' => sumZ 0 (Z.to_nat (on P))
          (fun x' => snd b' x' * kernel K (oN P) (ocs P) (osn P) (oZ P) ((nth b (obks P) 0%Z - fst b') * ospc P + x - x')))
          (train K P p)))%F.
Proof. exact gen_wake_is_convolution. Qed.
Print Assumptions C06_generated_wake_is_convolution.

(** the padded buffer the generated wakePotential leaves is the zero-padded train of the CURRENT
    profiles (bunch b at bucket_b * spacing, later bunches on top where windows overlap) *)
Theorem C06_generated_padded_train :
  forall (K : Fld) (P : fobj K),
    2 <= oN P -> (forall c : K, osgn P c = Gt -> c <> f0) ->
  forall (h : list (op K)) (p : Z -> K) (u : Z), 0 <= u < oN P ->
    bp (run_gen K P (h ++ [Wake p])) u = padded (oN P) (on P) (ospc P) (train K P p) (fun _ => f0) u.
Proof. exact gen_wake_padded_train. Qed.
Print Assumptions C06_generated_padded_train.

(** the generated right-hand sides: scaling is a product, the loss spectrum a complex product *)
Theorem C06_generated_kernels :
  forall (K : Fld) (scale w : K) (z f : cplx K),
    gen_k_scale K scale w = (scale * w)%F /\ loss_k K z f = cmul z f.
Proof. exact (fun K scale w z f => conj (gen_scale_spec K scale w) (loss_k_cmul K z f)). Qed.
Print Assumptions C06_generated_kernels.

(** non-vacuity: an object on the exact N = 4 table with two bunches (buckets 1 and 0, spacing 2, width 2);
    the wake after a CSR call and a padding call equals the convolution value computed directly *)
Example C06_generated_example :
  let P := Fobj QcF 4 cs4 sn4 2 2 [1; 0] ex_Z (Qcz 2) 1%Qc 1%Qc 1%Qc (fun i => Qcz i) (fun x => x)
                (fun c => (c ?= 0)%Qc) (fun l => l) in
  let p := getz 0%Qc (map Qcz [1; 2; 3; 5]) in
  hypB (E_of QcF P) /\
  map (wake (run_gen QcF P ([CSR 0%Qc p; Pad p] ++ [Wake p]))) (zrange 4)
  = map (fun bx => (Qcz 2 * fsum (map (fun b' => sumZ (K:=QcF) 0 2
          (fun x' => snd b' x' * kernel QcF 4 cs4 sn4 ex_Z ((nth (Z.to_nat (fst bx)) [1; 0] 0 - fst b') * 2 + snd bx - x')%Z))
          (train QcF P p)))%Qc) [(0, 0); (0, 1); (1, 0); (1, 1)].
Proof. split; [intros l Hl; exact Hl|vm_compute; reflexivity]. Qed.
(** non-vacuity of "for every history" with a c2r that really destroys its input (strengthening driven by seed C06-G):
    the clobber swaps cells 0 and 1 of the loss spectrum (hypothesis (B) holds: the top cell is left alone), the
    impedance is band-limited (Z_1 = 0, only Z_0 = 3+5i below N/2), one bunch in bucket 1 of a pattern like {1,0}.
    The second and third wakePotential() call return the convolution of THEIR OWN profile (kernel = Re Z_0 = 3):
    scaling 2 * 3 * (5+7) = 72, then 2 * 3 * (1+2) = 18, as a fresh object would - every cell below N/2 is
    rewritten on every call, also where the impedance is zero. *)
Example C06_generated_repeated_calls_example :
  let swap01 := fun l : list (cplx QcF) => match l with (a :: b :: c :: nil) => (b :: a :: c :: nil) | _ => l end in
  let zB := fun k : Z => match k with 0 => (Qcz 3, Qcz 5) | 2 => (Qcz 7, Qcz 7) | _ => (0%Qc, 0%Qc) end in
  let P := Fobj QcF 4 cs4 sn4 2 2 [1] zB (Qcz 2) 1%Qc 1%Qc 1%Qc (fun i => Qcz i) (fun x => x)
                (fun c => (c ?= 0)%Qc) swap01 in
  let p := getz 0%Qc (map Qcz [1; 2]) in
  let q := getz 0%Qc (map Qcz [5; 7]) in
  hypB (E_of QcF P) /\
  map (wake (run_gen QcF P ([Wake p] ++ [Wake q]))) (zrange 2) = map Qcz [72; 72] /\
  map (wake (run_gen QcF P ([Wake p; Wake q] ++ [Wake p]))) (zrange 2) = map Qcz [18; 18] /\
  map (wake (run_gen QcF P ([] ++ [Wake p]))) (zrange 2) = map Qcz [18; 18] /\
  map (bp (run_gen QcF P ([Wake p] ++ [Wake q]))) (zrange 4) = map Qcz [0; 0; 5; 7].
Proof.
  split.
  - intros l. destruct l as [|a [|b [|c [|d r]]]]; intros H; exact H.
  - repeat split; vm_compute; reflexivity.
Qed.

(** *** (round st3weak, seed C06-J) a MUTABLE impedance.  The field holds its impedance through a shared pointer; the
    object behind it may change between calls (Impedance::operator+=, assignment through the other owner).  A history
    is a list of segments (impedance table in force, Wake/Pad/CSR operations run while it is in force), all run through
    the GENERATED programs on one object: whatever the earlier segments, the wake potential the generated
    wakePotential() leaves is the convolution of the CURRENT profiles with the kernel of the table in force AT THAT
    CALL (nothing of an earlier table, no stored potential).  A wakePotential() that returns a stored result, or works
    on a copy of the table taken earlier, is not the generated program of this statement: the translator refuses it. *)
From Inovesa Require Import Proofs.EFieldZHistP.

Theorem C06_generated_wake_mutable_impedance :
  forall (K : Fld) (P : fobj K),
    2 <= oN P -> hypB (E_of K P) -> (forall c : K, osgn P c = Gt -> c <> f0) ->
    twiddle_laws K (ocs P) (osn P) ->
  forall (segs : list (seg K)) (Zi : Z -> cplx K) (h : list (op K)) (p : Z -> K) (b : nat) (x : Z),
    (b < length (obks P))%nat -> 0 <= x < on P -> 0 <= nth b (obks P) 0 * ospc P + x < oN P ->
    disjoint_wins (on P) (ospc P) (train K P p) -> in_buffer K (oN P) (on P) (ospc P) (train K P p) ->
    wake (run_segs_gen K P (segs ++ [(Zi, h ++ [Wake p])]) (fresh (E_of K P))) (Z.of_nat b * on P + x)
    = (oscale P * fsum (map (fun b' => sumZ 0 (Z.to_nat (on P))
          (fun x' => snd b' x' * kernel K (oN P) (ocs P) (osn P) Zi ((nth b (obks P) 0%Z - fst b') * ospc P + x - x')))
          (train K P p)))%F.
Proof. exact gen_wake_mutable_impedance_is_convolution. Qed.
Print Assumptions C06_generated_wake_mutable_impedance.

(** non-vacuity: the two-bunch object of [C06_generated_example]; a first segment under [ex_Z] (wake, CSR), then the
    table is changed to 2*ex_Z + (1,0) and wakePotential() is asked with the SAME profiles: the generated run gives
    the convolution with the NEW table (and differs from the first call's result) *)
Example C06_generated_mutable_impedance_example :
  let P := Fobj QcF 4 cs4 sn4 2 2 [1; 0] ex_Z (Qcz 2) 1%Qc 1%Qc 1%Qc (fun i => Qcz i) (fun x => x)
                (fun c => (c ?= 0)%Qc) (fun l => l) in
  let p := getz 0%Qc (map Qcz [1; 2; 3; 5]) in
  let Z2 := fun k : Z => ((Qcz 2 * fst (ex_Z k) + 1)%Qc, (Qcz 2 * snd (ex_Z k))%Qc) in
  map (wake (run_segs_gen QcF P ([(ex_Z, [Wake p; CSR 0%Qc p])] ++ [(Z2, [] ++ [Wake p])]) (fresh (E_of QcF P)))) (zrange 4)
  = map (fun bx => (Qcz 2 * fsum (map (fun b' => sumZ (K:=QcF) 0 2
          (fun x' => snd b' x' * kernel QcF 4 cs4 sn4 Z2 ((nth (Z.to_nat (fst bx)) [1; 0] 0 - fst b') * 2 + snd bx - x')%Z))
          (train QcF P p)))%Qc) [(0, 0); (0, 1); (1, 0); (1, 1)]
  /\ map (wake (run_segs_gen QcF P ([(ex_Z, [Wake p; CSR 0%Qc p])] ++ [(Z2, [] ++ [Wake p])]) (fresh (E_of QcF P)))) (zrange 4)
     <> map (wake (run_gen QcF P ([] ++ [Wake p]))) (zrange 4).
Proof. split; [vm_compute; reflexivity|vm_compute; discriminate]. Qed.

(** *** (family scaling) the padded lengths main() hands to the fields, over the definitions GENERATED from
    main() on every run (Gen/Gen_ScalingZ.v; replaces the former text check of the main.cpp lines).
    spacing_bins = round(fl(GridSize*spacing_ps)); the radiation field's length is ceil(fl(GridSize*max(padding,1)));
    the wake field's length for more than one bucket is max(ceil(fl((GridSize*buckets)*spacing_ps)),
    (buckets-1)*spacing_bins + GridSize); both rounded up by upper_power_of_two when RoundPadding is set.
    Products are matched up to ring identities. *)
From Coq Require Bool.
From Inovesa Require Model.Kick Model.Bounds Model.ScalingOps Gen.Gen_ScalingZ Proofs.ScalingZP Proofs.ScalingZFormP.
Module ScalingFamily.   (* imports and scopes stay local to this block *)
Import Bool Kick Bounds ScalingOps Gen_ScalingZ ScalingZP ScalingZFormP.
Local Open Scope Z_scope.

Theorem C06_main_spacing_bins_formula :
  forall (LZ : zleaf -> Z) (LQ : qleaf -> Qc) (LB : zbleaf -> bool) sp,
    gen_spacing_bins LZ LQ LB = Val sp ->
    sp = Qcround (rnd53 (Qcz (LZ O_getGridSize) * LQ V_spacing_ps)%Qc) /\ 0 <= sp < 2 ^ 32.
Proof. exact gen_spacing_bins_formula. Qed.
Print Assumptions C06_main_spacing_bins_formula.

Theorem C06_main_radiation_length_formula :
  forall (LZ : zleaf -> Z) (LQ : qleaf -> Qc) (LB : zbleaf -> bool) nm,
    gen_rdtn_nfreqs LZ LQ LB = Val nm ->
    let c := Qcceil (rnd53 (Qcz (LZ O_getGridSize) * Qcmax (LQ O_getPadding) (Qcz 1))%Qc) in
    nm = (if LB O_getRoundPadding then upper_power_of_two c else c) /\ 0 <= c < 2 ^ 64.
Proof. exact gen_rdtn_nfreqs_formula. Qed.
Print Assumptions C06_main_radiation_length_formula.

Theorem C06_main_wake_length_formula :
  forall (LZ : zleaf -> Z) (LQ : qleaf -> Qc) (LB : zbleaf -> bool) sp nm,
    0 < LZ O_getGridSize < 2 ^ 32 -> 1 < LZ N_getBunchCurrents < 2 ^ 32 ->
    LZ O_getGridSize * LZ N_getBunchCurrents < 2 ^ 32 ->
    gen_spacing_bins LZ LQ LB = Val sp -> gen_wake_nfreqs LZ LQ LB = Val nm ->
    let n := LZ O_getGridSize in let nb := LZ N_getBunchCurrents in
    let c := Z.max (Qcceil (rnd53 (Qcz (n * nb) * LQ V_spacing_ps)%Qc)) ((nb - 1) * sp + n) in
    nm = (if LB O_getRoundPadding then upper_power_of_two c else c).
Proof. exact gen_wake_nfreqs_formula. Qed.
Print Assumptions C06_main_wake_length_formula.

(** the hypothesis "bucket*spacing + n <= N" of the convolution theorems holds for what main() computes:
    the padded train fits the transform length (every bucket b < number of buckets, every cell x < GridSize) *)
Theorem C06_main_train_fits :
  forall (LZ : zleaf -> Z) (LQ : qleaf -> Qc) (LB : zbleaf -> bool) sp nm b x,
    0 < LZ O_getGridSize < 2 ^ 32 -> 1 < LZ N_getBunchCurrents < 2 ^ 32 ->
    gen_spacing_bins LZ LQ LB = Val sp -> gen_wake_nfreqs LZ LQ LB = Val nm -> 0 < nm ->
    0 <= b < LZ N_getBunchCurrents -> 0 <= x < LZ O_getGridSize ->
    0 <= pad_index sp b x < nm.
Proof. exact gen_pad_in_bounds. Qed.
Print Assumptions C06_main_train_fits.

Example C06_main_lengths_example : (* 5 buckets, GridSize 16, spacing_ps 265/256, padding 1.5, RoundPadding *)
  gen_sizes_list [5; 16] [Q2Qc (3 # 2); Q2Qc (265 # 256)] [true] = [17; 32; 128; 0].
Proof. vm_compute. reflexivity. Qed.
End ScalingFamily.
