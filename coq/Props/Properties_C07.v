(** C07 - the CSR power computed from the spectrum equals the energy the wake takes from the beam
    (Parseval), apart from the zero-frequency term and the top cell N/2; for a passive impedance the
    spectrum, the power and the wake loss are non-negative; a cutoff makes the power smaller.
    Only statements closed by [exact]; proofs in Proofs/DFTP.v, CSRP.v, DFTThm.v; DESIGN.md 5/C07.

    [wake_loss] = sum_j rho_j * W~_j over the padded buffer, W~ the unscaled padded wake of C06;
    [csr_power df dq2 cut Zi p] = sum_{i<N} df * (dq2 [* g_i]) * Re Z_i * |F_i|^2 as updateCSR computes it
    (the form factor buffer is zero above N/2).  N/2 is the integer division: for even N the exempt
    top cell is the Nyquist frequency, for odd N it is the highest frequency (N-1)/2, which the
    wake's loop bound [i < _nmax/2] leaves out as well. *)
From Coq Require Import List ZArith QArith Qcanon Reals.
From Inovesa Require Import Base.FieldKit Base.Sums Base.RInst Base.Float32 Model.DFT
  Proofs.DFTP Proofs.CSRP Proofs.DFTInst Proofs.DFTThm.
Import ListNotations.
Local Open Scope Z_scope.

(** 1. Parseval for the wake: 1/2 sum rho W~ = sum_{0<k<N/2} Re Z_k |F_k|^2 + 1/2 Re Z_0 |F_0|^2 *)
Theorem C07_parseval_wake :
  forall (K : Fld) (N : Z) (cs sn : Z -> K), 2 <= N -> twiddle_laws K cs sn ->
  forall (Zi stale : Z -> cplx K) (p : Z -> K),
    fresh_top K N stale ->
    (wake_loss K N cs sn Zi stale p / two
     = sumZ 1%Z (Z.to_nat (N / 2 - 1)%Z) (fun k => fst (Zi k) * cnorm (formfactor N cs sn p k))
       + fst (Zi 0%Z) * cnorm (formfactor N cs sn p 0%Z) / two)%F.
Proof. exact t_parseval_wake. Qed.
Print Assumptions C07_parseval_wake.

(** 2a. what updateCSR's power is: cells 0..N/2 only *)
Theorem C07_csr_power_formula :
  forall (K : Fld) (N : Z) (cs sn : Z -> K), 2 <= N -> twiddle_laws K cs sn ->
  forall (df dq2 : K) (cut : option (Z -> K)) (Zi : Z -> cplx K) (p : Z -> K),
    csr_power N cs sn df dq2 cut Zi p
    = (df * (csr_renorm dq2 cut 0%Z * fst (Zi 0%Z) * cnorm (r2c N cs sn p 0%Z)
             + sumZ 1%Z (Z.to_nat (N / 2 - 1)%Z) (fun i => csr_renorm dq2 cut i * fst (Zi i) * cnorm (r2c N cs sn p i))
             + csr_renorm dq2 cut (N / 2)%Z * fst (Zi (N / 2)%Z) * cnorm (r2c N cs sn p (N / 2)%Z)))%F.
Proof. exact t_csr_power_formula. Qed.
Print Assumptions C07_csr_power_formula.

(** 2b. cutoff off: P/(df dq^2) - 1/2 sum rho W~ = 1/2 Re Z_0 |F_0|^2 + Re Z_h |F_h|^2, h = N/2 *)
Theorem C07_csr_equals_wake_loss :
  forall (K : Fld) (N : Z) (cs sn : Z -> K), 2 <= N -> twiddle_laws K cs sn ->
  forall (df dq2 : K) (Zi stale : Z -> cplx K) (p : Z -> K),
    fresh_top K N stale -> df <> f0 -> dq2 <> f0 ->
    (csr_power N cs sn df dq2 None Zi p / (df * dq2) - wake_loss K N cs sn Zi stale p / two
     = fst (Zi 0%Z) * cnorm (formfactor N cs sn p 0%Z) / two
       + fst (Zi (N / 2)%Z) * cnorm (formfactor N cs sn p (N / 2)%Z))%F.
Proof. exact t_csr_equals_wake_loss. Qed.
Print Assumptions C07_csr_equals_wake_loss.

(** 3. passive impedance => non-negative spectrum, power and wake loss (rationals: the executable
    instance; reals: the analytic one) *)
Theorem C07_csr_spectrum_nonneg :
  forall N cs sn dq2 cut (Zi : Z -> cplx QcF) p i,
    nnQc dq2 -> cut_nn QcF nnQc cut -> nnQc (fst (Zi i)) -> nnQc (csr_spectrum (K:=QcF) N cs sn dq2 cut Zi p i).
Proof. exact csr_spectrum_nonneg_Qc. Qed.
Print Assumptions C07_csr_spectrum_nonneg.

Theorem C07_csr_spectrum_nonneg_R :
  forall N cs sn dq2 cut (Zi : Z -> cplx RF) p i,
    nnR dq2 -> cut_nn RF nnR cut -> nnR (fst (Zi i)) -> nnR (csr_spectrum (K:=RF) N cs sn dq2 cut Zi p i).
Proof. exact csr_spectrum_nonneg_R. Qed.
Print Assumptions C07_csr_spectrum_nonneg_R.

Theorem C07_csr_power_nonneg :
  forall N cs sn df dq2 cut (Zi : Z -> cplx QcF) p,
    nnQc df -> nnQc dq2 -> cut_nn QcF nnQc cut -> passive QcF nnQc N Zi ->
    nnQc (csr_power (K:=QcF) N cs sn df dq2 cut Zi p).
Proof. exact csr_power_nonneg_Qc. Qed.
Print Assumptions C07_csr_power_nonneg.

Theorem C07_csr_power_nonneg_R :
  forall N cs sn df dq2 cut (Zi : Z -> cplx RF) p,
    nnR df -> nnR dq2 -> cut_nn RF nnR cut -> passive RF nnR N Zi ->
    nnR (csr_power (K:=RF) N cs sn df dq2 cut Zi p).
Proof. exact csr_power_nonneg_R. Qed.
Print Assumptions C07_csr_power_nonneg_R.

Theorem C07_wake_loss_nonneg :
  forall N cs sn (Zi stale : Z -> cplx QcF) p,
    2 <= N -> twiddle_laws QcF cs sn -> fresh_top QcF N stale ->
    (forall i, 0 <= i < N / 2 -> nnQc (fst (Zi i))) -> nnQc (wake_loss QcF N cs sn Zi stale p).
Proof. exact wake_loss_nonneg_Qc. Qed.
Print Assumptions C07_wake_loss_nonneg.

Theorem C07_wake_loss_nonneg_R :
  forall N cs sn (Zi stale : Z -> cplx RF) p,
    2 <= N -> twiddle_laws RF cs sn -> fresh_top RF N stale ->
    (forall i, 0 <= i < N / 2 -> nnR (fst (Zi i))) -> nnR (wake_loss RF N cs sn Zi stale p).
Proof. exact wake_loss_nonneg_R. Qed.
Print Assumptions C07_wake_loss_nonneg_R.

(** 4. with a cutoff factor 0 <= g_i <= 1 the power is smaller and still non-negative *)
Theorem C07_csr_cutoff_smaller :
  forall N cs sn df dq2 g (Zi : Z -> cplx QcF) p,
    nnQc df -> nnQc dq2 -> (forall i, (0 <= g i <= 1)%Qc) -> passive QcF nnQc N Zi ->
    (0 <= csr_power (K:=QcF) N cs sn df dq2 (Some g) Zi p <= csr_power (K:=QcF) N cs sn df dq2 None Zi p)%Qc.
Proof. exact csr_cutoff_smaller_Qc. Qed.
Print Assumptions C07_csr_cutoff_smaller.

Theorem C07_csr_cutoff_smaller_R :
  forall N cs sn df dq2 g (Zi : Z -> cplx RF) p,
    nnR df -> nnR dq2 -> (forall i, (0 <= g i <= 1)%R) -> passive RF nnR N Zi ->
    (0 <= csr_power (K:=RF) N cs sn df dq2 (Some g) Zi p <= csr_power (K:=RF) N cs sn df dq2 None Zi p)%R.
Proof. exact csr_cutoff_smaller_R. Qed.
Print Assumptions C07_csr_cutoff_smaller_R.

(** the cutoff factor the code uses, 1 - exp(-(f/fc)^2), lies in [0,1) *)
Theorem C07_cutoff_factor_range : forall x : R, (0 <= 1 - exp (- (x * x)) < 1)%R.
Proof. exact cutoff_factor_range. Qed.
Print Assumptions C07_cutoff_factor_range.

(** non-vacuity: Parseval computed on the exact N = 4 table (profile (1,2,0,0), Z_0 = 3+5i,
    Z_1 = 2-i, Z_2 = 7+7i): sum rho W~ = 1*9 + 2*19 = 47 = 3*9 + 2*(2*5);
    power with df = dq2 = 1: 3*9 + 2*5 + 7*1 = 44, and 44 - 47/2 = 27/2 + 7 *)
Example C07_parseval_example :
  wake_loss QcF 4 cs4 sn4 ex_Z (fun _ => czero) ex_p = Qcz 47
  /\ csr_power (K:=QcF) 4 cs4 sn4 1%Qc 1%Qc None ex_Z ex_p = Qcz 44
  /\ map (csr_spectrum (K:=QcF) 4 cs4 sn4 1%Qc None ex_Z ex_p) (zrange 4) = map Qcz [27; 10; 7; 0].
Proof. repeat split; vm_compute; reflexivity. Qed.

(** ------------------------------------------------------------------------------------------------
    Several bunches on ONE field object, tied to the current source through the translator (second wave).
    [run_gen P h] runs a history [h] of wakePotential / padBunchProfiles / updateCSR calls through the
    programs GENERATED from the current ElectricField.cpp (Gen/Gen_EField.v) on a fresh object [P] with any
    number of bunches [length (obks P)], any bucket list and any spacing (zero included).  [alone p b] is
    what the forward transform of updateCSR sees for bunch b: that bunch by itself at padded offset 0 (the
    buffer is cleared before each bunch is copied - commit e7a4be0), whatever the other bunches and the
    history are.  [cutopt cut] = the cutoff factors when cutoff_frequency > 0, none otherwise. *)
From Inovesa Require Import Model.EField Model.EFieldProg Gen.Gen_EField Proofs.EFieldGenP Proofs.EFieldDFTP Proofs.EFieldTieP.

(** row b of getCSRSpectrum() and entry b of getCSRPower() are those of bunch b alone *)
Theorem C07_multibunch_spectrum_row :
  forall (K : Fld) (P : fobj K),
    2 <= oN P -> hypB (E_of K P) -> (forall c : K, osgn P c = Gt -> c <> f0) ->
  forall (h : list (op K)) (cut : K) (p : Z -> K) (b : nat) (i : Z),
    (b < length (obks P))%nat -> 0 <= i < oN P ->
    csr (run_gen K P (h ++ [CSR cut p])) (Z.of_nat b * oN P + i)
    = csr_spectrum (oN P) (ocs P) (osn P) (odq2 P) (cutopt K P cut) (oZ P) (alone K P p (Z.of_nat b)) i.
Proof. exact gen_csr_row. Qed.
Print Assumptions C07_multibunch_spectrum_row.

Theorem C07_multibunch_power :
  forall (K : Fld) (P : fobj K),
    2 <= oN P -> hypB (E_of K P) -> (forall c : K, osgn P c = Gt -> c <> f0) ->
  forall (h : list (op K)) (cut : K) (p : Z -> K) (b : nat),
    (b < length (obks P))%nat ->
    csri (run_gen K P (h ++ [CSR cut p])) (Z.of_nat b)
    = csr_power (oN P) (ocs P) (osn P) (odf P) (odq2 P) (cutopt K P cut) (oZ P) (alone K P p (Z.of_nat b)).
Proof. exact gen_csr_power. Qed.
Print Assumptions C07_multibunch_power.

(** the power of bunch b is delta_f times the sum of ITS OWN spectrum row: nothing is carried over from
    the bunches before it *)
Theorem C07_multibunch_power_is_own_row_sum :
  forall (K : Fld) (P : fobj K),
    2 <= oN P -> hypB (E_of K P) -> (forall c : K, osgn P c = Gt -> c <> f0) ->
  forall (h : list (op K)) (cut : K) (p : Z -> K) (b : nat),
    (b < length (obks P))%nat ->
    csri (run_gen K P (h ++ [CSR cut p])) (Z.of_nat b)
    = sumZ 0 (Z.to_nat (oN P)) (fun i => (odf P * csr (run_gen K P (h ++ [CSR cut p])) (Z.of_nat b * oN P + i)%Z)%F).
Proof. exact gen_csr_power_is_row_sum. Qed.
Print Assumptions C07_multibunch_power_is_own_row_sum.

(** Parseval per bunch (cutoff not active): the power of bunch b and the wake loss of bunch b alone differ
    by exactly the zero-frequency term and the top cell *)
Theorem C07_multibunch_parseval :
  forall (K : Fld) (P : fobj K),
    2 <= oN P -> hypB (E_of K P) -> (forall c : K, osgn P c = Gt -> c <> f0) ->
    twiddle_laws K (ocs P) (osn P) ->
  forall (h : list (op K)) (cut : K) (p : Z -> K) (b : nat) (stale : Z -> cplx K),
    (b < length (obks P))%nat -> cut_active (osgn P cut) = false ->
    fresh_top K (oN P) stale -> odf P <> f0 -> odq2 P <> f0 ->
    (csri (run_gen K P (h ++ [CSR cut p])) (Z.of_nat b) / (odf P * odq2 P)
     - wake_loss K (oN P) (ocs P) (osn P) (oZ P) stale (alone K P p (Z.of_nat b)) / two
     = fst (oZ P 0%Z) * cnorm (formfactor (oN P) (ocs P) (osn P) (alone K P p (Z.of_nat b)) 0%Z) / two
       + fst (oZ P (oN P / 2)%Z) * cnorm (formfactor (oN P) (ocs P) (osn P) (alone K P p (Z.of_nat b)) (oN P / 2)%Z))%F.
Proof. exact gen_csr_parseval_per_bunch. Qed.
Print Assumptions C07_multibunch_parseval.

(** passive impedance: every row and every power entry is non-negative (rationals: cutoff factors as data) *)
Theorem C07_multibunch_nonneg :
  forall (P : fobj QcF),
    2 <= oN P -> hypB (E_of QcF P) -> (forall c : QcF, osgn P c = Gt -> c <> 0%Qc) ->
    nnQc (odf P) -> nnQc (odq2 P) -> passive QcF nnQc (oN P) (oZ P) ->
  forall (h : list (op QcF)) (cut : QcF) (p : Z -> QcF) (b : nat), (b < length (obks P))%nat ->
    cut_nn QcF nnQc (cutopt QcF P cut) ->
    (forall i, 0 <= i < oN P -> nnQc (csr (run_gen QcF P (h ++ [CSR cut p])) (Z.of_nat b * oN P + i)))
    /\ nnQc (csri (run_gen QcF P (h ++ [CSR cut p])) (Z.of_nat b)).
Proof. exact gen_csr_nonneg_Qc. Qed.
Print Assumptions C07_multibunch_nonneg.

(** ... over the reals with std::exp = exp the generated cutoff factor needs no side condition *)
Theorem C07_multibunch_nonneg_R :
  forall (P : fobj RF), oexp P = exp -> osgn P = sgnR ->
    2 <= oN P -> hypB (E_of RF P) ->
    nnR (odf P) -> nnR (odq2 P) -> passive RF nnR (oN P) (oZ P) ->
  forall (h : list (op RF)) (cut : RF) (p : Z -> RF) (b : nat), (b < length (obks P))%nat ->
    (forall i, 0 <= i < oN P -> nnR (csr (run_gen RF P (h ++ [CSR cut p])) (Z.of_nat b * oN P + i)))
    /\ nnR (csri (run_gen RF P (h ++ [CSR cut p])) (Z.of_nat b)).
Proof. exact gen_csr_nonneg_R. Qed.
Print Assumptions C07_multibunch_nonneg_R.

(** ... and an active cutoff (cutoff_frequency > 0) makes each bunch's power smaller than with the cutoff
    disabled (cutoff_frequency <= 0), whatever the two histories *)
Theorem C07_multibunch_cutoff_smaller_R :
  forall (P : fobj RF), oexp P = exp -> osgn P = sgnR ->
    2 <= oN P -> hypB (E_of RF P) ->
    nnR (odf P) -> nnR (odq2 P) -> passive RF nnR (oN P) (oZ P) ->
  forall (h h' : list (op RF)) (cut cut0 : RF) (p : Z -> RF) (b : nat), (b < length (obks P))%nat ->
    (0 < cut)%R -> (cut0 <= 0)%R ->
    (0 <= csri (run_gen RF P (h ++ [CSR cut p])) (Z.of_nat b)
       <= csri (run_gen RF P (h' ++ [CSR cut0 p])) (Z.of_nat b))%R.
Proof. exact gen_csr_cutoff_smaller_R. Qed.
Print Assumptions C07_multibunch_cutoff_smaller_R.

(** the generated guard of the cutoff factor is the model's: applied iff cutoff_frequency > 0;
    the generated right-hand sides are the model's products *)
Theorem C07_generated_cutoff_rule : forall c, gen_csr_cut_on c = cut_active c.
Proof. exact gen_csr_cut_on_is_model. Qed.
Print Assumptions C07_generated_cutoff_rule.

Theorem C07_generated_kernels :
  forall (K : Fld) (dq2 df hertz : K) (fax : Z -> K) (expf : K -> K) (cut : K) (i : Z) (rez nf a x : K),
    gen_k_csr_off K dq2 rez nf = (dq2 * rez * nf)%F /\
    (cut <> f0 -> gen_k_csr_on K expf dq2 hertz (fax i) cut rez nf = (dq2 * cut_g K hertz fax expf cut i * rez * nf)%F) /\
    gen_k_acc K a df x = (a + df * x)%F.
Proof.
  exact (fun K dq2 df hertz fax expf cut i rez nf a x =>
           conj (gen_csr_off_spec K dq2 rez nf)
                (conj (gen_csr_on_spec K dq2 hertz fax expf cut i rez nf) (gen_acc_spec K df a x))).
Qed.
Print Assumptions C07_generated_kernels.

(** non-vacuity: three bunches on the exact N = 4 table, spacing 0 (the program's radiation field), after a
    wake call and a padding call; powers (44, 108, 0): each from its own row, third bunch empty *)
Example C07_multibunch_example :
  let P := Fobj QcF 4 cs4 sn4 2 0 [2; 1; 0] ex_Z (Qcz 2) 1%Qc 1%Qc 1%Qc (fun i => Qcz i) (fun x => x)
                (fun c => (c ?= 0)%Qc) (fun l => l) in
  let p := getz 0%Qc (map Qcz [1; 2; 3; 0; 0; 0]) in
  hypB (E_of QcF P) /\ (forall c : QcF, osgn P c = Gt -> c <> 0%Qc) /\
  map (csri (run_gen QcF P ([Wake p; Pad p] ++ [CSR 0%Qc p]))) (zrange 3) = map Qcz [44; 108; 0] /\
  map (csr (run_gen QcF P ([Wake p; Pad p] ++ [CSR 0%Qc p]))) (zrange 12)
  = map Qcz [27; 10; 7; 0;  27; 18; 63; 0;  0; 0; 0; 0].
Proof.
  split; [intros l Hl; exact Hl|]. split.
  - intros c Hc E. rewrite E in Hc. discriminate Hc.
  - split; vm_compute; reflexivity.
Qed.

(** ------------------------------------------------------------------------------------------------
    Parseval on what wakePotential() RETURNS (strengthening driven by seed C07-H).  [wake_loss] above is the
    sum over the PADDED buffers; it is blind to where the bunch is put and where its wake is read back.  The
    property is worded over the bunch: one half of the sum over the bunch of profile times unscaled wake
    potential.  For ONE bunch held in ANY bucket [bk] (window inside the padded range), for the programs
    generated from the current source: the sum over the bunch of profile times
    wakePotential()[x] / _wakescaling  (placed at bk*spacing by the generated padBunchProfiles, read back at
    the generated read-back index) is the wake loss of the bunch alone, whatever the bucket and the history;
    hence it differs from the CSR power of the same object by exactly the exempt terms. *)
From Inovesa Require Import Proofs.EFieldParsevalP.

Theorem C07_generated_returned_loss_is_wake_loss :
  forall (K : Fld) (P : fobj K) (bk : Z),
    2 <= oN P -> hypB (E_of K P) -> (forall c : K, osgn P c = Gt -> c <> f0) ->
    twiddle_laws K (ocs P) (osn P) ->
    obks P = [bk] -> 0 <= on P -> 0 <= bk * ospc P -> bk * ospc P + on P <= oN P ->
  forall (h : list (op K)) (p : Z -> K), oscale P <> f0 ->
    sumZ 0 (Z.to_nat (on P)) (fun x => (p x * (wake (run_gen K P (h ++ [Wake p])) x / oscale P))%F)
    = wake_loss K (oN P) (ocs P) (osn P) (oZ P) (fun _ => czero) (alone K P p 0).
Proof. exact gen_returned_loss_is_wake_loss. Qed.
Print Assumptions C07_generated_returned_loss_is_wake_loss.

Theorem C07_generated_parseval_returned_wake :
  forall (K : Fld) (P : fobj K) (bk : Z),
    2 <= oN P -> hypB (E_of K P) -> (forall c : K, osgn P c = Gt -> c <> f0) ->
    twiddle_laws K (ocs P) (osn P) ->
    obks P = [bk] -> 0 <= on P -> 0 <= bk * ospc P -> bk * ospc P + on P <= oN P ->
  forall (h h' : list (op K)) (cut : K) (p : Z -> K),
    cut_active (osgn P cut) = false -> odf P <> f0 -> odq2 P <> f0 -> oscale P <> f0 ->
    (csri (run_gen K P (h ++ [CSR cut p])) 0 / (odf P * odq2 P)
     - sumZ 0 (Z.to_nat (on P)) (fun x => p x * (wake (run_gen K P (h' ++ [Wake p])) x / oscale P)) / two
     = fst (oZ P 0%Z) * cnorm (formfactor (oN P) (ocs P) (osn P) (alone K P p 0) 0%Z) / two
       + fst (oZ P (oN P / 2)%Z) * cnorm (formfactor (oN P) (ocs P) (osn P) (alone K P p 0) (oN P / 2)%Z))%F.
Proof. exact gen_csr_parseval_returned_wake. Qed.
Print Assumptions C07_generated_parseval_returned_wake.

(** passive impedance: the wake loss over the returned wake potential is non-negative *)
Theorem C07_generated_returned_loss_nonneg :
  forall (P : fobj QcF) (bk : Z),
    2 <= oN P -> hypB (E_of QcF P) -> (forall c : QcF, osgn P c = Gt -> c <> f0) ->
    twiddle_laws QcF (ocs P) (osn P) ->
    obks P = [bk] -> 0 <= on P -> 0 <= bk * ospc P -> bk * ospc P + on P <= oN P ->
    (forall i, 0 <= i < oN P / 2 -> nnQc (fst (oZ P i))) ->
  forall (h : list (op QcF)) (p : Z -> QcF), oscale P <> f0 ->
    nnQc (sumZ (K:=QcF) 0 (Z.to_nat (on P)) (fun x => (p x * (wake (run_gen QcF P (h ++ [Wake p])) x / oscale P))%F)).
Proof. exact gen_returned_loss_nonneg_Qc. Qed.
Print Assumptions C07_generated_returned_loss_nonneg.

Theorem C07_generated_returned_loss_nonneg_R :
  forall (P : fobj RF) (bk : Z),
    2 <= oN P -> hypB (E_of RF P) -> (forall c : RF, osgn P c = Gt -> c <> f0) ->
    twiddle_laws RF (ocs P) (osn P) ->
    obks P = [bk] -> 0 <= on P -> 0 <= bk * ospc P -> bk * ospc P + on P <= oN P ->
    (forall i, 0 <= i < oN P / 2 -> nnR (fst (oZ P i))) ->
  forall (h : list (op RF)) (p : Z -> RF), oscale P <> f0 ->
    nnR (sumZ (K:=RF) 0 (Z.to_nat (on P)) (fun x => (p x * (wake (run_gen RF P (h ++ [Wake p])) x / oscale P))%F)).
Proof. exact gen_returned_loss_nonneg_R. Qed.
Print Assumptions C07_generated_returned_loss_nonneg_R.

(** non-vacuity: one bunch (1,2) in bucket 1 of a pattern like {1,0} (spacing 2, N = 4, exact table), wake scaling 2;
    after a CSR call the returned wake is 2*(9,19) read at cells 2,3; sum profile*wake/scaling = 47, power 44:
    44 - 47/2 = 27/2 + 7 as in the first example *)
Example C07_returned_wake_example :
  let P := Fobj QcF 4 cs4 sn4 2 2 [1] ex_Z (Qcz 2) 1%Qc 1%Qc 1%Qc (fun i => Qcz i) (fun x => x)
                (fun c => (c ?= 0)%Qc) (fun l => l) in
  let p := getz 0%Qc (map Qcz [1; 2]) in
  map (wake (run_gen QcF P ([CSR 0%Qc p] ++ [Wake p]))) (zrange 2) = map Qcz [18; 38] /\
  sumZ (K:=QcF) 0 2 (fun x => (p x * (wake (run_gen QcF P ([CSR 0%Qc p] ++ [Wake p])) x / oscale P))%Qc) = Qcz 47 /\
  csri (run_gen QcF P ([Wake p] ++ [CSR 0%Qc p])) 0 = Qcz 44 /\
  map (bp (run_gen QcF P ([CSR 0%Qc p] ++ [Wake p]))) (zrange 4) = map Qcz [0; 0; 1; 2].
Proof. repeat split; vm_compute; reflexivity. Qed.
