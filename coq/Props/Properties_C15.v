(** C15 - tracked particles follow the flow of the distribution and never leave the grid.
    Only statements closed by [exact]; proofs in Proofs/TrackingP.v, model in Model/Tracking.v
    (mirror of KickMap::applyTo, Identity::applyTo, FokkerPlanckMap::applyTo,
    SourceMap::applyToAll, HDF5File::appendTracks); DESIGN.md 5/C15. *)
From Coq Require Import List ZArith QArith Qcanon Bool.
From Inovesa Require Import Base.FieldKit Base.Float32 Gen.Gen_Coeffs Model.Kick Model.Tracking
  Proofs.WeightsP Proofs.KickP Proofs.TrackingP Proofs.TrackBlobP.
Import ListNotations.
Local Open Scope Z_scope.

(** ** never leave the grid *)

(** for every sequence of maps (kicks in either direction with any offset vector, identity, the
    four Fokker-Planck tracking models with any table, grid data, decrement, zero bin and drawn
    numbers) and every particle starting inside [0,n-1]^2: inside after every map *)
Theorem C15_tracked_stay_inside :
  forall n ops k p, 2 <= n -> inside n p -> Forall (inside n) (trajectory n ops k p).
Proof. exact tracked_stay_inside. Qed.
Print Assumptions C15_tracked_stay_inside.

(** the exact bounds the code's clamps give: the coordinate a map moves lands in [1, n-1], the
    other coordinate is untouched (from any starting point whatsoever) *)
Theorem C15_moved_coordinate_bounds :
  forall n o k p, 2 <= n -> moved_bounds n o p (applyTo n o k p).
Proof. exact applyTo_moved_bounds. Qed.
Print Assumptions C15_moved_coordinate_bounds.

(** SourceMap::applyToAll over the whole particle vector, any number of steps *)
Theorem C15_tracked_all_stay_inside :
  forall n ops ps, 2 <= n -> Forall (inside n) ps -> Forall (Forall (inside n)) (run_all n ops ps).
Proof. exact tracked_all_stay_inside. Qed.
Print Assumptions C15_tracked_all_stay_inside.

(** hence the float -> index conversion and the axis lookup of HDF5File::appendTracks are defined *)
Theorem C15_appendTracks_index_defined :
  forall n p, inside n p -> lookup_defined n p = true.
Proof. exact appendTracks_index_defined. Qed.
Print Assumptions C15_appendTracks_index_defined.

Theorem C15_appendTracks_always_defined :
  forall n ops ps, 2 <= n -> Forall (inside n) ps ->
    Forall (Forall (fun p => lookup_defined n p = true)) (run_all n ops ps).
Proof. exact appendTracks_always_defined. Qed.
Print Assumptions C15_appendTracks_always_defined.

(** the pinned tree's stochastic statement ([pos.y -= pos.y*_dampdecr+noise], no clamp) refutes
    both; replayed on the implementation this is finding C15/stochastic-tracking (fixed) *)
Theorem C15_pinned_stochastic_leaves_grid_refuted :
  exists n e1 noise p, 2 <= n /\ inside n p /\
    ~ inside n (fp_stoch_pinned e1 noise p) /\ lookup_defined n (fp_stoch_pinned e1 noise p) = false.
Proof. exact pinned_stochastic_leaves_grid_refuted. Qed.
Print Assumptions C15_pinned_stochastic_leaves_grid_refuted.

(** non-vacuity: a particle on the grid border, a kick beyond the grid, then the stochastic model *)
Example C15_inside_example :
  let p := mkpos (Qcz 0) (Qcz 7) in
  inside 8 p /\
  map (fun q => (this (px q), this (py q)))
      (trajectory 8 [OpKick true (fun _ => Qcz 20); OpKick false (fun _ => Qcz (-20));
                     OpFPStoch (Q2Qc (1 # 4)) (Q2Qc (7 # 2)) (fun _ => Qcz 9)] 0 p)
  = [((1 # 1)%Q, (7 # 1)%Q); ((1 # 1)%Q, (7 # 1)%Q); ((1 # 1)%Q, (1 # 1)%Q)].
Proof. split; [unfold inside; cbn [px py]; repeat split; vm_compute; discriminate | vm_compute; reflexivity]. Qed.

(** ** follow the flow: kicks and drift *)

(** what KickMap::applyTo computes for a particle inside the grid: the inverted linear
    interpolation, at the particle's perpendicular coordinate, of the offsets of the two
    neighbouring rows, then the clamp to [1, n-1]; on the last row (no upper neighbour) only the clamp *)
Theorem C15_applyTo_kick_model :
  forall dirx n offs p, 2 <= n < 2 ^ 31 -> inside n p ->
    kick_applyTo dirx n offs p =
    if dirx
    then mkpos (clamp_grid n (if Qcfloor (py p) + 1 <? n then kick_new offs (px p) (py p) else px p)) (py p)
    else mkpos (px p) (clamp_grid n (if Qcfloor (px p) + 1 <? n then kick_new offs (py p) (px p) else py p)).
Proof. exact applyTo_kick_model. Qed.
Print Assumptions C15_applyTo_kick_model.

(** first moment of one output row of updateSM + apply: moved by the displacement the table
    encodes (C03.3 row form; needs it >= 2: linear functions are reproduced) *)
Theorem C15_row_first_moment :
  forall n it o r, valid_it it -> 2 <= it -> 0 < n < 2 ^ 30 -> row_ok n it o r ->
    sumQ 0 (Z.to_nat n) (fun x => (Qcz x * row_out n it (sm_entry n it o) r x)%Qc) =
    (sumQ 0 (Z.to_nat n) (fun u => (Qcz u * r u)%Qc) - eff_offset n o * sumQ 0 (Z.to_nat n) r)%Qc.
Proof. exact sm_row_first_moment. Qed.
Print Assumptions C15_row_first_moment.

(** the centre of charge of apply(unit hat-blob centred on the particle) is
    x - ((1-y_f) o_floor(y) + y_f o_floor(y)+1) with the offsets as the table encodes them
    (float-rounded), for both kick directions *)
Theorem C15_blob_centroid_transport_x :
  forall n it offs p, valid_it it -> 2 <= it -> 0 < n < 2 ^ 30 ->
    let xi := Qctrunc (px p) in
    let yi := Qctrunc (py p) in
    0 <= yi -> yi + 2 <= n ->
    blob_row_ok n it (offs yi) xi -> blob_row_ok n it (offs (yi + 1)) xi ->
    centroid n (apply_x n 1 it (updateSM n it offs) (blob n p)) =
    mkpos (px p - ((1 - Qcfrac (py p)) * eff_offset n (offs yi) + Qcfrac (py p) * eff_offset n (offs (yi + 1)%Z)))%Qc (py p).
Proof. exact blob_centroid_transport_x. Qed.
Print Assumptions C15_blob_centroid_transport_x.

Theorem C15_blob_centroid_transport_y :
  forall n it offs p, valid_it it -> 2 <= it -> 0 < n < 2 ^ 30 ->
    let xi := Qctrunc (px p) in
    let yi := Qctrunc (py p) in
    0 <= xi -> xi + 2 <= n ->
    blob_row_ok n it (offs xi) yi -> blob_row_ok n it (offs (xi + 1)) yi ->
    centroid n (apply_y n 1 it (updateSM n it offs) (blob n p)) =
    mkpos (px p) (py p - ((1 - Qcfrac (px p)) * eff_offset n (offs xi) + Qcfrac (px p) * eff_offset n (offs (xi + 1)%Z)))%Qc.
Proof. exact blob_centroid_transport_y. Qed.
Print Assumptions C15_blob_centroid_transport_y.

(** ... and it is the particle's new position: KickMap::applyTo(particle) = centroid(KickMap::apply(blob))
    for it >= 2, offsets in the table range whose float sum n/2+o is exact, interior support, and a new
    position on the grid proper *)
Theorem C15_particle_equals_blob_centroid_x :
  forall n it offs p, valid_it it -> 2 <= it -> 2 <= n < 2 ^ 30 -> inside n p ->
    let xi := Qctrunc (px p) in
    let yi := Qctrunc (py p) in
    yi + 2 <= n ->
    blob_row_ok n it (offs yi) xi -> blob_row_ok n it (offs (yi + 1)) xi ->
    eff_offset n (offs yi) = offs yi -> eff_offset n (offs (yi + 1)) = offs (yi + 1) ->
    in_clamp n (kick_new offs (px p) (py p)) ->
    kick_applyTo true n offs p = centroid n (apply_x n 1 it (updateSM n it offs) (blob n p)).
Proof. exact particle_equals_blob_centroid_x. Qed.
Print Assumptions C15_particle_equals_blob_centroid_x.

Theorem C15_particle_equals_blob_centroid_y :
  forall n it offs p, valid_it it -> 2 <= it -> 2 <= n < 2 ^ 30 -> inside n p ->
    let xi := Qctrunc (px p) in
    let yi := Qctrunc (py p) in
    xi + 2 <= n ->
    blob_row_ok n it (offs xi) yi -> blob_row_ok n it (offs (xi + 1)) yi ->
    eff_offset n (offs xi) = offs xi -> eff_offset n (offs (xi + 1)) = offs (xi + 1) ->
    in_clamp n (kick_new offs (py p) (px p)) ->
    kick_applyTo false n offs p = centroid n (apply_y n 1 it (updateSM n it offs) (blob n p)).
Proof. exact particle_equals_blob_centroid_y. Qed.
Print Assumptions C15_particle_equals_blob_centroid_y.

(** non-vacuity: n = 16, cubic interpolation, a shear o_y = (y - 8)/4, particle at (25/4, 15/2):
    every hypothesis holds and both sides are (51/8, 15/2) *)
Example C15_blob_example :
  let offs := fun y : Z => Q2Qc ((y - 8) # 4) in
  let p := mkpos (Q2Qc (25 # 4)) (Q2Qc (15 # 2)) in
  (valid_it 4 /\ inside 16 p /\
   blob_row_ok 16 4 (offs 7) 6 /\ blob_row_ok 16 4 (offs 8) 6 /\
   eff_offset 16 (offs 7) = offs 7 /\ eff_offset 16 (offs 8) = offs 8 /\
   in_clamp 16 (kick_new offs (px p) (py p))) /\
  (let q := kick_applyTo true 16 offs p in (this (px q), this (py q))) = ((51 # 8)%Q, (15 # 2)%Q) /\
  (let c := centroid 16 (apply_x 16 1 4 (updateSM 16 4 offs) (blob 16 p)) in (this (px c), this (py c)))
    = ((51 # 8)%Q, (15 # 2)%Q).
Proof.
  cbv zeta. split; [|split; vm_compute; reflexivity].
  split; [right; right; right; reflexivity|].
  split; [unfold inside; cbn [px py]; repeat split; vm_compute; discriminate|].
  split; [unfold blob_row_ok; vm_compute; repeat split; discriminate|].
  split; [unfold blob_row_ok; vm_compute; repeat split; discriminate|].
  split; [apply Qc_is_canon; vm_compute; reflexivity|].
  split; [apply Qc_is_canon; vm_compute; reflexivity|].
  unfold in_clamp; split; vm_compute; discriminate.
Qed.

(** ** Fokker-Planck tracking models *)

(** the deterministic displacement of tracking model 1 equals the first moment of the constructor's
    stencil row: -e1 * p(row) / delta cells when the stencil contains damping, 0 otherwise
    (two-sided and both cubic stencils; the diffusion part has no first moment) *)
Theorem C15_approx_drift_formulae :
  forall n dt fptype e1 d yc pj y,
    (dt = 3 \/ dt = 4) -> n < 2 ^ 31 -> d <> 0%Qc ->
    (0 <= y)%Qc -> (y <= Qcz (n - 1))%Qc ->
    let yi := Qcfloor y in
    dt - 2 <= yi < n - (dt - 2) ->
    fp_offset1 n dt (fp_table n dt fptype e1 d yc pj) y = drift1 fptype e1 d (pj yi).
Proof. exact approx_drift_formulae. Qed.
Print Assumptions C15_approx_drift_formulae.

(** in cells: -e1 * (row - zero-energy bin) *)
Theorem C15_approx_drift_cells :
  forall n dt fptype e1 d yc y,
    (dt = 3 \/ dt = 4) -> n < 2 ^ 31 -> d <> 0%Qc ->
    (0 <= y)%Qc -> (y <= Qcz (n - 1))%Qc ->
    let yi := Qcfloor y in
    dt - 2 <= yi < n - (dt - 2) -> has_damp fptype = true ->
    fp_offset1 n dt (fp_table n dt fptype e1 d yc (fun j => ((Qcz j - yc) * d)%Qc)) y
    = (- (e1 * (Qcz yi - yc)))%Qc.
Proof. exact approx_drift_cells. Qed.
Print Assumptions C15_approx_drift_cells.

(** on the zeroed border rows the particle is not moved *)
Theorem C15_approx_drift_border :
  forall n dt fptype e1 d yc pj y,
    (dt = 3 \/ (dt = 4 /\ 2 <= Qctrunc yc)) -> n < 2 ^ 31 ->
    (0 <= y)%Qc -> (y <= Qcz (n - 1))%Qc ->
    let yi := Qcfloor y in
    ~ (dt - 2 <= yi < n - (dt - 2)) ->
    fp_offset1 n dt (fp_table n dt fptype e1 d yc pj) y = 0%Qc.
Proof. exact approx_drift_border. Qed.
Print Assumptions C15_approx_drift_border.

Example C15_drift_example :
  this (fp_offset1 16 4 (fp_table 16 4 3 (Q2Qc (1 # 8)) (Q2Qc (1 # 2)) (Q2Qc (15 # 2))
                           (fun j => ((Qcz j - Q2Qc (15 # 2)) * Q2Qc (1 # 2))%Qc)) (Q2Qc (43 # 4)))
  = (- 5 # 16)%Q.
Proof. vm_compute. reflexivity. Qed.

(** the stochastic model demanded by the property, under any normalised linear expectation E:
    for y' = y - ((y - yc) e1 + xi), E xi = 0, E xi^2 = s2, xi uncorrelated with y *)
Theorem C15_stochastic_mean :
  forall (K : Fld) (Om : Type) (E : (Om -> K) -> K),
    (forall X Y, (forall w, X w = Y w) -> E X = E Y) ->
    (forall X Y, E (fun w => X w + Y w)%F = (E X + E Y)%F) ->
    (forall c X, E (fun w => c * X w)%F = (c * E X)%F) ->
    E (fun _ => f1) = f1 ->
    forall (y xi : Om -> K) (e1 yc : K), E xi = f0 ->
      E (fun w => y' K Om y xi e1 yc w - yc)%F = ((f1 - e1) * E (fun w => y w - yc))%F.
Proof. exact stochastic_mean. Qed.
Print Assumptions C15_stochastic_mean.

Theorem C15_stochastic_variance :
  forall (K : Fld) (Om : Type) (E : (Om -> K) -> K),
    (forall X Y, (forall w, X w = Y w) -> E X = E Y) ->
    (forall X Y, E (fun w => X w + Y w)%F = (E X + E Y)%F) ->
    (forall c X, E (fun w => c * X w)%F = (c * E X)%F) ->
    E (fun _ => f1) = f1 ->
    forall (y xi : Om -> K) (e1 yc s2 : K), E xi = f0 -> E (fun w => xi w * xi w)%F = s2 ->
      E (fun w => y w * xi w)%F = (E y * E xi)%F ->
      Var K Om E (y' K Om y xi e1 yc) = ((f1 - e1) * (f1 - e1) * Var K Om E y + s2)%F.
Proof. exact stochastic_variance. Qed.
Print Assumptions C15_stochastic_variance.

(** with the code's noise scale 2 e1 / delta^2 the variance recurrence has exactly one fixed point,
    2 / (delta^2 (2 - e1)) = 1 / (delta^2 (1 - e1/2)) *)
Theorem C15_stochastic_fixed_point :
  forall (K : Fld) (e1 s2 delta V : K),
    delta <> f0 -> e1 <> f0 -> ((f1 + f1) - e1)%F <> f0 ->
    s2 = ((f1 + f1) * e1 / (delta * delta))%F ->
    (V = ((f1 - e1) * (f1 - e1) * V + s2)%F <-> V = ((f1 + f1) / (delta * delta * ((f1 + f1) - e1)))%F).
Proof. exact stochastic_fixed_point. Qed.
Print Assumptions C15_stochastic_fixed_point.

(** the code's stochastic step (tree after the fix) is that linear map, then the clamp, which is the
    identity whenever the new row lies in [1, n-1] *)
Theorem C15_fp_stoch_is_linear_inside :
  forall n e1 yc noise p,
    in_clamp n (stoch_lin (K:=QcF) e1 yc noise (py p)) ->
    fp_stoch n e1 yc noise p = mkpos (px p) (stoch_lin (K:=QcF) e1 yc noise (py p)).
Proof. exact fp_stoch_is_linear_inside. Qed.
Print Assumptions C15_fp_stoch_is_linear_inside.

(** the pinned tree's statement y' = y - (y e1 + xi) relaxes the mean towards grid row 0: the demanded
    law fails by e1 * yc (the finding; fixed by commit f5243ba) *)
Theorem C15_pinned_stochastic_mean_refuted :
  forall (K : Fld) (Om : Type) (E : (Om -> K) -> K),
    (forall X Y, (forall w, X w = Y w) -> E X = E Y) ->
    (forall X Y, E (fun w => X w + Y w)%F = (E X + E Y)%F) ->
    (forall c X, E (fun w => c * X w)%F = (c * E X)%F) ->
    E (fun _ => f1) = f1 ->
    forall (y xi : Om -> K) (e1 yc : K), E xi = f0 ->
      E (fun w => y'_pinned K Om y xi e1 w - yc)%F = ((f1 - e1) * E (fun w => y w - yc) - e1 * yc)%F.
Proof. exact pinned_stochastic_mean. Qed.
Print Assumptions C15_pinned_stochastic_mean_refuted.

(** non-vacuity of the expectation hypotheses: a two-point sample space (xi = +-1, e1 = 1/2, delta = 1) *)
Example C15_stochastic_hypotheses_satisfiable :
  let y := fun _ : bool => Qcz 5 in
  let xi := fun w : bool => if w then 1%Qc else (- (1))%Qc in
  (forall X Y, (forall w, X w = Y w) -> E2 X = E2 Y) /\
  (forall X Y, E2 (fun w => X w + Y w)%Qc = (E2 X + E2 Y)%Qc) /\
  (forall c X, E2 (fun w => c * X w)%Qc = (c * E2 X)%Qc) /\
  E2 (fun _ => 1%Qc) = 1%Qc /\
  E2 xi = 0%Qc /\ E2 (fun w => xi w * xi w)%Qc = ((1 + 1) * Q2Qc (1 # 2) / (1 * 1))%Qc /\
  E2 (fun w => y w * xi w)%Qc = (E2 y * E2 xi)%Qc.
Proof. exact stochastic_hypotheses_satisfiable. Qed.
