(** C15 - tracked particles follow the flow of the distribution and never leave the grid.
    Only statements closed by [exact]; proofs in Proofs/TrackingP.v, model in Model/Tracking.v
    (mirror of KickMap::applyTo, Identity::applyTo, FokkerPlanckMap::applyTo,
    SourceMap::applyToAll, HDF5File::appendTracks); DESIGN.md 5/C15. *)
From Coq Require Import List ZArith QArith Qcanon Bool.
From Inovesa Require Import Base.FieldKit Base.Float32 Gen.Gen_Coeffs Model.Kick Model.Tracking
  Proofs.WeightsP Proofs.KickP Proofs.TrackingP.
Import ListNotations.
Local Open Scope Z_scope.

(** ** never leave the grid *)

(** for every sequence of maps (kicks in either direction with any offset vector, identity, the
    four Fokker-Planck tracking models with any table, grid data, decrement, zero bin and drawn
    numbers) and every particle starting inside [0,n-1]^2: inside after every map *)
Theorem C15_tracked_stay_inside :
  forall n ops k p, 2 <= n -> inside n p -> Forall (inside n) (trajectory n ops k p).
Proof. exact tracked_stay_inside. Qed.
Print Assumptions C15_tracked_stay_inside.

(** the exact bounds the code's clamps give: the coordinate a map moves lands in [1, n-1], the
    other coordinate is untouched (from any starting point whatsoever) *)
Theorem C15_moved_coordinate_bounds :
  forall n o k p, 2 <= n -> moved_bounds n o p (applyTo n o k p).
Proof. exact applyTo_moved_bounds. Qed.
Print Assumptions C15_moved_coordinate_bounds.

(** SourceMap::applyToAll over the whole particle vector, any number of steps *)
Theorem C15_tracked_all_stay_inside :
  forall n ops ps, 2 <= n -> Forall (inside n) ps -> Forall (Forall (inside n)) (run_all n ops ps).
Proof. exact tracked_all_stay_inside. Qed.
Print Assumptions C15_tracked_all_stay_inside.

(** hence the float -> index conversion and the axis lookup of HDF5File::appendTracks are defined *)
Theorem C15_appendTracks_index_defined :
  forall n p, inside n p -> lookup_defined n p = true.
Proof. exact appendTracks_index_defined. Qed.
Print Assumptions C15_appendTracks_index_defined.

Theorem C15_appendTracks_always_defined :
  forall n ops ps, 2 <= n -> Forall (inside n) ps ->
    Forall (Forall (fun p => lookup_defined n p = true)) (run_all n ops ps).
Proof. exact appendTracks_always_defined. Qed.
Print Assumptions C15_appendTracks_always_defined.

(** the pinned tree's stochastic statement ([pos.y -= pos.y*_dampdecr+noise], no clamp) refutes
    both; replayed on the implementation this is finding C15/stochastic-tracking (fixed) *)
Theorem C15_pinned_stochastic_leaves_grid_refuted :
  exists n e1 noise p, 2 <= n /\ inside n p /\
    ~ inside n (fp_stoch_pinned e1 noise p) /\ lookup_defined n (fp_stoch_pinned e1 noise p) = false.
Proof. exact pinned_stochastic_leaves_grid_refuted. Qed.
Print Assumptions C15_pinned_stochastic_leaves_grid_refuted.

(** non-vacuity: a particle on the grid border, a kick beyond the grid, then the stochastic model *)
Example C15_inside_example :
  let p := mkpos (Qcz 0) (Qcz 7) in
  inside 8 p /\
  map (fun q => (this (px q), this (py q)))
      (trajectory 8 [OpKick true (fun _ => Qcz 20); OpKick false (fun _ => Qcz (-20));
                     OpFPStoch (Q2Qc (1 # 4)) (Q2Qc (7 # 2)) (fun _ => Qcz 9)] 0 p)
  = [((1 # 1)%Q, (7 # 1)%Q); ((1 # 1)%Q, (7 # 1)%Q); ((1 # 1)%Q, (1 # 1)%Q)].
Proof. split; [unfold inside; cbn [px py]; repeat split; vm_compute; discriminate | vm_compute; reflexivity]. Qed.
