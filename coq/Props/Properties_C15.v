(** C15 - tracked particles follow the flow of the distribution and never leave the grid.
    Only statements closed by [exact]; proofs in Proofs/TrackingP.v, model in Model/Tracking.v
    (mirror of KickMap::applyTo, Identity::applyTo, FokkerPlanckMap::applyTo,
    SourceMap::applyToAll, HDF5File::appendTracks); DESIGN.md 5/C15. *)
From Coq Require Import List ZArith QArith Qcanon Bool.
From Inovesa Require Import Base.FieldKit Base.Float32 Gen.Gen_Coeffs Model.Kick Model.Tracking
  Proofs.WeightsP Proofs.KickP Proofs.TrackingP Proofs.TrackBlobP
  Model.StepKinds Model.TrackX Gen.Gen_Track Model.TrackGen Proofs.TrackGenP Proofs.TrackDynP.
Import ListNotations.
Local Open Scope Z_scope.

(** ** never leave the grid *)

(** for every sequence of maps (kicks in either direction with any offset vector, identity, the
    four Fokker-Planck tracking models with any table, grid data, decrement, zero bin and drawn
    numbers) and every particle starting inside [0,n-1]^2: inside after every map *)
Theorem C15_tracked_stay_inside :
  forall n ops k p, 2 <= n -> inside n p -> Forall (inside n) (trajectory n ops k p).
Proof. exact tracked_stay_inside. Qed.
Print Assumptions C15_tracked_stay_inside.

(** the exact bounds the code's clamps give: the coordinate a map moves lands in [1, n-1], the
    other coordinate is untouched (from any starting point whatsoever) *)
Theorem C15_moved_coordinate_bounds :
  forall n o k p, 2 <= n -> moved_bounds n o p (applyTo n o k p).
Proof. exact applyTo_moved_bounds. Qed.
Print Assumptions C15_moved_coordinate_bounds.

(** SourceMap::applyToAll over the whole particle vector, any number of steps *)
Theorem C15_tracked_all_stay_inside :
  forall n ops ps, 2 <= n -> Forall (inside n) ps -> Forall (Forall (inside n)) (run_all n ops ps).
Proof. exact tracked_all_stay_inside. Qed.
Print Assumptions C15_tracked_all_stay_inside.

(** hence the float -> index conversion and the axis lookup of HDF5File::appendTracks are defined *)
Theorem C15_appendTracks_index_defined :
  forall n p, inside n p -> lookup_defined n p = true.
Proof. exact appendTracks_index_defined. Qed.
Print Assumptions C15_appendTracks_index_defined.

Theorem C15_appendTracks_always_defined :
  forall n ops ps, 2 <= n -> Forall (inside n) ps ->
    Forall (Forall (fun p => lookup_defined n p = true)) (run_all n ops ps).
Proof. exact appendTracks_always_defined. Qed.
Print Assumptions C15_appendTracks_always_defined.

(** the pinned tree's stochastic statement ([pos.y -= pos.y*_dampdecr+noise], no clamp) refutes
    both; replayed on the implementation this is finding C15/stochastic-tracking (fixed) *)
Theorem C15_pinned_stochastic_leaves_grid_refuted :
  exists n e1 noise p, 2 <= n /\ inside n p /\
    ~ inside n (fp_stoch_pinned e1 noise p) /\ lookup_defined n (fp_stoch_pinned e1 noise p) = false.
Proof. exact pinned_stochastic_leaves_grid_refuted. Qed.
Print Assumptions C15_pinned_stochastic_leaves_grid_refuted.

(** non-vacuity: a particle on the grid border, a kick beyond the grid, then the stochastic model *)
Example C15_inside_example :
  let p := mkpos (Qcz 0) (Qcz 7) in
  inside 8 p /\
  map (fun q => (this (px q), this (py q)))
      (trajectory 8 [OpKick true (fun _ => Qcz 20); OpKick false (fun _ => Qcz (-20));
                     OpFPStoch (Q2Qc (1 # 4)) (Q2Qc (7 # 2)) (fun _ => Qcz 9)] 0 p)
  = [((1 # 1)%Q, (7 # 1)%Q); ((1 # 1)%Q, (7 # 1)%Q); ((1 # 1)%Q, (1 # 1)%Q)].
Proof. split; [unfold inside; cbn [px py]; repeat split; vm_compute; discriminate | vm_compute; reflexivity]. Qed.

(** ** follow the flow: kicks and drift *)

(** what KickMap::applyTo computes for a particle inside the grid: the inverted linear
    interpolation, at the particle's perpendicular coordinate, of the offsets of the two
    neighbouring rows, then the clamp to [1, n-1]; on the last row (no upper neighbour) only the clamp *)
Theorem C15_applyTo_kick_model :
  forall dirx n offs p, 2 <= n < 2 ^ 31 -> inside n p ->
    kick_applyTo dirx n offs p =
    if dirx
    then mkpos (clamp_grid n (if Qcfloor (py p) + 1 <? n then kick_new offs (px p) (py p) else px p)) (py p)
    else mkpos (px p) (clamp_grid n (if Qcfloor (px p) + 1 <? n then kick_new offs (py p) (px p) else py p)).
Proof. exact applyTo_kick_model. Qed.
Print Assumptions C15_applyTo_kick_model.

(** first moment of one output row of updateSM + apply: moved by the displacement the table
    encodes (C03.3 row form; needs it >= 2: linear functions are reproduced) *)
Theorem C15_row_first_moment :
  forall n it o r, valid_it it -> 2 <= it -> 0 < n < 2 ^ 30 -> row_ok n it o r ->
    sumQ 0 (Z.to_nat n) (fun x => (Qcz x * row_out n it (sm_entry n it o) r x)%Qc) =
    (sumQ 0 (Z.to_nat n) (fun u => (Qcz u * r u)%Qc) - eff_offset n o * sumQ 0 (Z.to_nat n) r)%Qc.
Proof. exact sm_row_first_moment. Qed.
Print Assumptions C15_row_first_moment.

(** the centre of charge of apply(unit hat-blob centred on the particle) is
    x - ((1-y_f) o_floor(y) + y_f o_floor(y)+1) with the offsets as the table encodes them
    (float-rounded), for both kick directions *)
Theorem C15_blob_centroid_transport_x :
  forall n it offs p, valid_it it -> 2 <= it -> 0 < n < 2 ^ 30 ->
    let xi := Qctrunc (px p) in
    let yi := Qctrunc (py p) in
    0 <= yi -> yi + 2 <= n ->
    blob_row_ok n it (offs yi) xi -> blob_row_ok n it (offs (yi + 1)) xi ->
    centroid n (apply_x n 1 it (updateSM n it offs) (blob n p)) =
    mkpos (px p - ((1 - Qcfrac (py p)) * eff_offset n (offs yi) + Qcfrac (py p) * eff_offset n (offs (yi + 1)%Z)))%Qc (py p).
Proof. exact blob_centroid_transport_x. Qed.
Print Assumptions C15_blob_centroid_transport_x.

Theorem C15_blob_centroid_transport_y :
  forall n it offs p, valid_it it -> 2 <= it -> 0 < n < 2 ^ 30 ->
    let xi := Qctrunc (px p) in
    let yi := Qctrunc (py p) in
    0 <= xi -> xi + 2 <= n ->
    blob_row_ok n it (offs xi) yi -> blob_row_ok n it (offs (xi + 1)) yi ->
    centroid n (apply_y n 1 it (updateSM n it offs) (blob n p)) =
    mkpos (px p) (py p - ((1 - Qcfrac (px p)) * eff_offset n (offs xi) + Qcfrac (px p) * eff_offset n (offs (xi + 1)%Z)))%Qc.
Proof. exact blob_centroid_transport_y. Qed.
Print Assumptions C15_blob_centroid_transport_y.

(** ... and it is the particle's new position: KickMap::applyTo(particle) = centroid(KickMap::apply(blob))
    for it >= 2, offsets in the table range whose float sum n/2+o is exact, interior support, and a new
    position on the grid proper *)
Theorem C15_particle_equals_blob_centroid_x :
  forall n it offs p, valid_it it -> 2 <= it -> 2 <= n < 2 ^ 30 -> inside n p ->
    let xi := Qctrunc (px p) in
    let yi := Qctrunc (py p) in
    yi + 2 <= n ->
    blob_row_ok n it (offs yi) xi -> blob_row_ok n it (offs (yi + 1)) xi ->
    eff_offset n (offs yi) = offs yi -> eff_offset n (offs (yi + 1)) = offs (yi + 1) ->
    in_clamp n (kick_new offs (px p) (py p)) ->
    kick_applyTo true n offs p = centroid n (apply_x n 1 it (updateSM n it offs) (blob n p)).
Proof. exact particle_equals_blob_centroid_x. Qed.
Print Assumptions C15_particle_equals_blob_centroid_x.

Theorem C15_particle_equals_blob_centroid_y :
  forall n it offs p, valid_it it -> 2 <= it -> 2 <= n < 2 ^ 30 -> inside n p ->
    let xi := Qctrunc (px p) in
    let yi := Qctrunc (py p) in
    xi + 2 <= n ->
    blob_row_ok n it (offs xi) yi -> blob_row_ok n it (offs (xi + 1)) yi ->
    eff_offset n (offs xi) = offs xi -> eff_offset n (offs (xi + 1)) = offs (xi + 1) ->
    in_clamp n (kick_new offs (py p) (px p)) ->
    kick_applyTo false n offs p = centroid n (apply_y n 1 it (updateSM n it offs) (blob n p)).
Proof. exact particle_equals_blob_centroid_y. Qed.
Print Assumptions C15_particle_equals_blob_centroid_y.

(** non-vacuity: n = 16, cubic interpolation, a shear o_y = (y - 8)/4, particle at (25/4, 15/2):
    every hypothesis holds and both sides are (51/8, 15/2) *)
Example C15_blob_example :
  let offs := fun y : Z => Q2Qc ((y - 8) # 4) in
  let p := mkpos (Q2Qc (25 # 4)) (Q2Qc (15 # 2)) in
  (valid_it 4 /\ inside 16 p /\
   blob_row_ok 16 4 (offs 7) 6 /\ blob_row_ok 16 4 (offs 8) 6 /\
   eff_offset 16 (offs 7) = offs 7 /\ eff_offset 16 (offs 8) = offs 8 /\
   in_clamp 16 (kick_new offs (px p) (py p))) /\
  (let q := kick_applyTo true 16 offs p in (this (px q), this (py q))) = ((51 # 8)%Q, (15 # 2)%Q) /\
  (let c := centroid 16 (apply_x 16 1 4 (updateSM 16 4 offs) (blob 16 p)) in (this (px c), this (py c)))
    = ((51 # 8)%Q, (15 # 2)%Q).
Proof.
  cbv zeta. split; [|split; vm_compute; reflexivity].
  split; [right; right; right; reflexivity|].
  split; [unfold inside; cbn [px py]; repeat split; vm_compute; discriminate|].
  split; [unfold blob_row_ok; vm_compute; repeat split; discriminate|].
  split; [unfold blob_row_ok; vm_compute; repeat split; discriminate|].
  split; [apply Qc_is_canon; vm_compute; reflexivity|].
  split; [apply Qc_is_canon; vm_compute; reflexivity|].
  unfold in_clamp; split; vm_compute; discriminate.
Qed.

(** ** Fokker-Planck tracking models *)

(** the deterministic displacement of tracking model 1 equals the first moment of the constructor's
    stencil row: -e1 * p(row) / delta cells when the stencil contains damping, 0 otherwise
    (two-sided and both cubic stencils; the diffusion part has no first moment) *)
Theorem C15_approx_drift_formulae :
  forall n dt fptype e1 d yc pj y,
    (dt = 3 \/ dt = 4) -> n < 2 ^ 31 -> d <> 0%Qc ->
    (0 <= y)%Qc -> (y <= Qcz (n - 1))%Qc ->
    let yi := Qcfloor y in
    dt - 2 <= yi < n - (dt - 2) ->
    fp_offset1 n dt (fp_table n dt fptype e1 d yc pj) y = drift1 fptype e1 d (pj yi).
Proof. exact approx_drift_formulae. Qed.
Print Assumptions C15_approx_drift_formulae.

(** in cells: -e1 * (row - zero-energy bin) *)
Theorem C15_approx_drift_cells :
  forall n dt fptype e1 d yc y,
    (dt = 3 \/ dt = 4) -> n < 2 ^ 31 -> d <> 0%Qc ->
    (0 <= y)%Qc -> (y <= Qcz (n - 1))%Qc ->
    let yi := Qcfloor y in
    dt - 2 <= yi < n - (dt - 2) -> has_damp fptype = true ->
    fp_offset1 n dt (fp_table n dt fptype e1 d yc (fun j => ((Qcz j - yc) * d)%Qc)) y
    = (- (e1 * (Qcz yi - yc)))%Qc.
Proof. exact approx_drift_cells. Qed.
Print Assumptions C15_approx_drift_cells.

(** on the zeroed border rows the particle is not moved *)
Theorem C15_approx_drift_border :
  forall n dt fptype e1 d yc pj y,
    (dt = 3 \/ (dt = 4 /\ 2 <= Qctrunc yc)) -> n < 2 ^ 31 ->
    (0 <= y)%Qc -> (y <= Qcz (n - 1))%Qc ->
    let yi := Qcfloor y in
    ~ (dt - 2 <= yi < n - (dt - 2)) ->
    fp_offset1 n dt (fp_table n dt fptype e1 d yc pj) y = 0%Qc.
Proof. exact approx_drift_border. Qed.
Print Assumptions C15_approx_drift_border.

Example C15_drift_example :
  this (fp_offset1 16 4 (fp_table 16 4 3 (Q2Qc (1 # 8)) (Q2Qc (1 # 2)) (Q2Qc (15 # 2))
                           (fun j => ((Qcz j - Q2Qc (15 # 2)) * Q2Qc (1 # 2))%Qc)) (Q2Qc (43 # 4)))
  = (- 5 # 16)%Q.
Proof. vm_compute. reflexivity. Qed.

(** the stochastic model demanded by the property, under any normalised linear expectation E:
    for y' = y - ((y - yc) e1 + xi), E xi = 0, E xi^2 = s2, xi uncorrelated with y *)
Theorem C15_stochastic_mean :
  forall (K : Fld) (Om : Type) (E : (Om -> K) -> K),
    (forall X Y, (forall w, X w = Y w) -> E X = E Y) ->
    (forall X Y, E (fun w => X w + Y w)%F = (E X + E Y)%F) ->
    (forall c X, E (fun w => c * X w)%F = (c * E X)%F) ->
    E (fun _ => f1) = f1 ->
    forall (y xi : Om -> K) (e1 yc : K), E xi = f0 ->
      E (fun w => y' K Om y xi e1 yc w - yc)%F = ((f1 - e1) * E (fun w => y w - yc))%F.
Proof. exact stochastic_mean. Qed.
Print Assumptions C15_stochastic_mean.

Theorem C15_stochastic_variance :
  forall (K : Fld) (Om : Type) (E : (Om -> K) -> K),
    (forall X Y, (forall w, X w = Y w) -> E X = E Y) ->
    (forall X Y, E (fun w => X w + Y w)%F = (E X + E Y)%F) ->
    (forall c X, E (fun w => c * X w)%F = (c * E X)%F) ->
    E (fun _ => f1) = f1 ->
    forall (y xi : Om -> K) (e1 yc s2 : K), E xi = f0 -> E (fun w => xi w * xi w)%F = s2 ->
      E (fun w => y w * xi w)%F = (E y * E xi)%F ->
      Var K Om E (y' K Om y xi e1 yc) = ((f1 - e1) * (f1 - e1) * Var K Om E y + s2)%F.
Proof. exact stochastic_variance. Qed.
Print Assumptions C15_stochastic_variance.

(** with the code's noise scale 2 e1 / delta^2 the variance recurrence has exactly one fixed point,
    2 / (delta^2 (2 - e1)) = 1 / (delta^2 (1 - e1/2)) *)
Theorem C15_stochastic_fixed_point :
  forall (K : Fld) (e1 s2 delta V : K),
    delta <> f0 -> e1 <> f0 -> ((f1 + f1) - e1)%F <> f0 ->
    s2 = ((f1 + f1) * e1 / (delta * delta))%F ->
    (V = ((f1 - e1) * (f1 - e1) * V + s2)%F <-> V = ((f1 + f1) / (delta * delta * ((f1 + f1) - e1)))%F).
Proof. exact stochastic_fixed_point. Qed.
Print Assumptions C15_stochastic_fixed_point.

(** the code's stochastic step (tree after the fix) is that linear map, then the clamp, which is the
    identity whenever the new row lies in [1, n-1] *)
Theorem C15_fp_stoch_is_linear_inside :
  forall n e1 yc noise p,
    in_clamp n (stoch_lin (K:=QcF) e1 yc noise (py p)) ->
    fp_stoch n e1 yc noise p = mkpos (px p) (stoch_lin (K:=QcF) e1 yc noise (py p)).
Proof. exact fp_stoch_is_linear_inside. Qed.
Print Assumptions C15_fp_stoch_is_linear_inside.

(** the pinned tree's statement y' = y - (y e1 + xi) relaxes the mean towards grid row 0: the demanded
    law fails by e1 * yc (the finding; fixed by commit f5243ba) *)
Theorem C15_pinned_stochastic_mean_refuted :
  forall (K : Fld) (Om : Type) (E : (Om -> K) -> K),
    (forall X Y, (forall w, X w = Y w) -> E X = E Y) ->
    (forall X Y, E (fun w => X w + Y w)%F = (E X + E Y)%F) ->
    (forall c X, E (fun w => c * X w)%F = (c * E X)%F) ->
    E (fun _ => f1) = f1 ->
    forall (y xi : Om -> K) (e1 yc : K), E xi = f0 ->
      E (fun w => y'_pinned K Om y xi e1 w - yc)%F = ((f1 - e1) * E (fun w => y w - yc) - e1 * yc)%F.
Proof. exact pinned_stochastic_mean. Qed.
Print Assumptions C15_pinned_stochastic_mean_refuted.

(** non-vacuity of the expectation hypotheses: a two-point sample space (xi = +-1, e1 = 1/2, delta = 1) *)
Example C15_stochastic_hypotheses_satisfiable :
  let y := fun _ : bool => Qcz 5 in
  let xi := fun w : bool => if w then 1%Qc else (- (1))%Qc in
  (forall X Y, (forall w, X w = Y w) -> E2 X = E2 Y) /\
  (forall X Y, E2 (fun w => X w + Y w)%Qc = (E2 X + E2 Y)%Qc) /\
  (forall c X, E2 (fun w => c * X w)%Qc = (c * E2 X)%Qc) /\
  E2 (fun _ => 1%Qc) = 1%Qc /\
  E2 xi = 0%Qc /\ E2 (fun w => xi w * xi w)%Qc = ((1 + 1) * Q2Qc (1 # 2) / (1 * 1))%Qc /\
  E2 (fun w => y w * xi w)%Qc = (E2 y * E2 xi)%Qc.
Proof. exact stochastic_hypotheses_satisfiable. Qed.

(** ** the same statements about the code of THIS run: definitions generated from the C++ source
    (Gen/Gen_Track.v by translate/track2coq.py; vocabulary Model/TrackX.v, assembly Model/TrackGen.v) *)

(** SourceMap::applyTo with every map's body as generated - kicks in both directions, identity, the
    switch of FokkerPlanckMap::applyTo for ANY value of _fptrack - over any sequence: every map of the
    sequence is executed (no coordinate ever becomes NaN or infinite) and the particle is inside after
    each.  No hypothesis on offsets, tables, grid data (all-zero stencil rows, zero charge), decrement,
    zero bins or drawn numbers. *)
Theorem C15_generated_tracked_stay_inside :
  forall n ops k p, 2 <= n < 2 ^ 32 -> inside n p ->
    Forall (xinside n) (gen_trajectory n ops k p) /\ length (gen_trajectory n ops k p) = length ops.
Proof. exact gen_tracked_stay_inside. Qed.
Print Assumptions C15_generated_tracked_stay_inside.

(** the clamp of tracking model 2 exactly as nested in the source, `std::max(1, std::min(v, n-1))`,
    maps EVERY float into [1, n-1]: NaN (0/0: zero charge, zero moment) and +-infinity (x/0) included.
    The statement is about the generated nest: it fails when min and max are nested the other way
    round or the arguments of the outer std::max are exchanged. *)
Theorem C15_fp2_clamp_maps_every_float_into_grid :
  forall n v, 2 <= n < 2 ^ 32 -> xin_clamp n (gen_fp_approximation2_clamp n n v).
Proof. exact gen_fp2_clamp_any. Qed.
Print Assumptions C15_fp2_clamp_maps_every_float_into_grid.

(** tracking model 2 as a whole, whatever the charge under the particle *)
Theorem C15_fp2_zero_charge_stays_inside :
  forall n ip H D e1 zb0 zb1 noise x y, 2 <= n < 2 ^ 32 ->
    gen_moves_y n x (gen_fp_approximation2 n n ip H D e1 zb0 zb1 noise x y).
Proof. exact gen_fp2_moves. Qed.
Print Assumptions C15_fp2_zero_charge_stays_inside.

(** the float division `offset /= charge`: a quotient, NaN for 0/0, an infinity of the dividend's sign for x/0 *)
Theorem C15_fp2_division_cases :
  forall a b,
    (b <> 0%Qc -> xdivq a b = XF (a / b)%Qc) /\
    (b = 0%Qc -> a = 0%Qc -> xdivq a b = XNaN) /\
    (b = 0%Qc -> (0 < a)%Qc -> xdivq a b = XPInf) /\
    (b = 0%Qc -> (a < 0)%Qc -> xdivq a b = XMInf).
Proof. exact xdivq_cases. Qed.
Print Assumptions C15_fp2_division_cases.

(** why the order matters: `std::min(std::max(v, 1), n-1)` is the same function on finite values
    and hands NaN through *)
Theorem C15_other_clamp_order_same_on_finite :
  forall n v, 2 <= n -> clamp_minmax n (XF v) = XF (clamp_grid n v).
Proof. exact clamp_minmax_finite. Qed.
Print Assumptions C15_other_clamp_order_same_on_finite.

Theorem C15_other_clamp_order_propagates_nan : forall n, clamp_minmax n XNaN = XNaN.
Proof. exact clamp_minmax_nan. Qed.
Print Assumptions C15_other_clamp_order_propagates_nan.

(** non-vacuity: a particle on the zeroed top row of the two-sided stencil (n = 8, all weights 0, any
    grid): charge 0, moment 0, 0/0 = NaN, and the generated code puts the particle on row 1 *)
Example C15_zero_charge_example :
  let H := fun _ : Z => (0, 0%Qc) in
  let D := fun _ : Z => Qcz 5 in
  (match gen_fp_approximation2 8 8 3 H D 0%Qc 0%Qc 0%Qc 0%Qc (Qcz 3) (Qcz 7) with
   | (XF x, XF y) => Some (this x, this y) | _ => None end) = Some ((3 # 1)%Q, (1 # 1)%Q)
  /\ xdivq 0 0 = XNaN.
Proof. split; vm_compute; reflexivity. Qed.

(** the hand-written model (every theorem above this section) IS the generated code: for a particle
    inside the grid, each operation of Model/Tracking.v and its generated counterpart are the same
    function ([op_sizes_ok]: the `unsigned int` index arithmetic of the two approximations does not wrap) *)
Theorem C15_generated_code_is_the_model :
  forall n zb0 o k p, 2 <= n < 2 ^ 31 -> inside n p -> op_sizes_ok n o ->
    gen_applyTo n (gop_of_op zb0 o) k p = xpos_of (applyTo n o k p).
Proof. exact gen_applyTo_is_model. Qed.
Print Assumptions C15_generated_code_is_the_model.

(** loading the tracking file (main(): `{grid->x(q), grid->y(p)}`; PhaseSpace::x / y as generated):
    whatever numbers the file holds and whatever the axes are, the particle starts inside *)
Theorem C15_loaded_particles_start_inside :
  forall n a0 d0 a1 d1 c1 c2, 1 <= n -> xinside n (gen_load n a0 d0 a1 d1 c1 c2).
Proof. exact gen_load_inside. Qed.
Print Assumptions C15_loaded_particles_start_inside.

(** ... first column through x() on the position axis, second through y() on the energy axis, each the
    coordinate in cells cut to [0, n-1] *)
Theorem C15_loading_columns_and_axes :
  (gen_load_first = (LdX, Col1) /\ gen_load_second = (LdY, Col2)) /\
  (forall n a0 d0 a1 d1 c, 1 <= n -> d0 <> 0%Qc ->
     gen_ps_x n n a0 d0 a1 d1 c = XF (std_min (std_max 0 ((c - a0) / d0)) (Qcz (n - 1)))%Qc) /\
  (forall n a0 d0 a1 d1 c, 1 <= n -> d1 <> 0%Qc ->
     gen_ps_y n n a0 d0 a1 d1 c = XF (std_min (std_max 0 ((c - a1) / d1)) (Qcz (n - 1)))%Qc).
Proof. exact (conj gen_load_columns (conj gen_ps_x_value gen_ps_y_value)). Qed.
Print Assumptions C15_loading_columns_and_axes.

(** HDF5File::appendTracks as generated: the record is (position axis at trunc x, energy axis at trunc y),
    i.e. the model's [appendTracks] *)
Theorem C15_generated_appendTracks_is_the_model :
  forall axq axp ps n, n < 2 ^ 31 -> Forall (inside n) ps ->
    map (gen_append (fun a => if a =? 0 then axq else axp)) ps = appendTracks axq axp ps.
Proof. exact gen_append_matches_appendTracks. Qed.
Print Assumptions C15_generated_appendTracks_is_the_model.

(** ** time-dependent maps: the particle gets the SAME step's kick as the grid *)

(** main(): every `<map>->applyToAll(trackme)` directly follows `<map>->apply()` of the same map *)
Theorem C15_main_tracks_right_after_apply :
  track_events_ok gen_track_events = true /\
  (forall l, track_events_ok l = true -> exists ms, l = flat_map (fun m => [TApply m; TTrack m]) ms).
Proof. exact (conj gen_track_events_ok track_events_ok_sound). Qed.
Print Assumptions C15_main_tracks_right_after_apply.

(** DynamicRFKickMap::apply as generated is the transition the queue model of C19 is about *)
Theorem C15_generated_dynrf_apply_is_the_queue_model :
  forall sin G kickmap m s,
    dyn_apply sin G kickmap m gen_dyn_calckick_args gen_dyn_apply s = DynRF.exec (K:=QcF) sin kickmap m DynRF.Apply s.
Proof. exact gen_dyn_apply_is_exec. Qed.
Print Assumptions C15_generated_dynrf_apply_is_the_queue_model.

(** `rfm->apply(); rfm->applyToAll(trackme)` over [steps] steps from the map as constructed (queue q0):
    in step k the particles are moved by KickMap::applyTo reading `_calcKick`(entry k) - and these are,
    step by step, the offsets KickMap::apply kicked the grid with (log [kicks]); the entries read are
    the first [steps] entries of the queue, in order *)
Theorem C15_particles_get_the_same_steps_kick :
  forall sin G kickmap m n len q0 (g : G) ps steps,
    (steps <= length q0)%nat ->
    let run := dyn_track_run sin G kickmap m n gen_dyn_calckick_args gen_dyn_apply steps (DynRF.init (K:=QcF) sin m len q0 g, ps) in
    let ref := firstn steps (spec_run sin m n (DynRF.static_offsets (K:=QcF) sin m len) q0 ps) in
    map (obs G) run = ref /\
    DynRF.kicks (fst (last run (DynRF.init (K:=QcF) sin m len q0 g, ps))) = map fst ref /\
    DynRF.used (fst (last run (DynRF.init (K:=QcF) sin m len q0 g, ps))) = firstn steps q0 /\
    DynRF.ub (fst (last run (DynRF.init (K:=QcF) sin m len q0 g, ps))) = false.
Proof. exact dyn_particles_get_the_grids_kick. Qed.
Print Assumptions C15_particles_get_the_same_steps_kick.

(** non-vacuity, and what the theorem excludes: linear RF (slope 1/4), queue [(phase 0, ampl 1); (phase 4, ampl 1)],
    a particle at (3, 4) on an 8-cell grid.  With apply() as in the source the particle of step 0 gets the kick of
    entry 0 (the grid's): y = 31/8.  A body that applies first and prepares the next kick afterwards
    ([late_calc_body]) leaves the grid's first kick alone but hands the particle the offsets of entry 1: y = 39/8. *)
Example C15_same_step_kick_example :
  let m := DynRF.mkRF (K:=QcF) true (Q2Qc (1 # 4)) 0%Qc 0%Qc 0%Qc 0%Qc 1%Qc 8 (Q2Qc (7 # 2)) 1%Qc 1%Qc 1%Qc (fun x => Qcz x) in
  let q0 := [(0%Qc, 1%Qc); (Qcz 4, 1%Qc)] in
  let p := mkpos (Qcz 3) (Qcz 4) in
  let run body := dyn_track_run (fun x => x) unit (fun _ g => g) m 8 gen_dyn_calckick_args body 1
                    (DynRF.init (K:=QcF) (fun x => x) m 8 q0 tt, [p]) in
  let ys body := map (fun sp : qst unit * list pos => map (fun q => this (py q)) (snd sp)) (run body) in
  let grid_kick body := map (fun sp : qst unit * list pos => map (fun o : list Qc => map this o) (DynRF.kicks (fst sp))) (run body) in
  ys gen_dyn_apply = [[(31 # 8)%Q]] /\ ys late_calc_body = [[(39 # 8)%Q]] /\
  grid_kick gen_dyn_apply = grid_kick late_calc_body.
Proof. vm_compute. repeat split; reflexivity. Qed.

(** ** which applyTo body moves the particles: the virtual dispatch of `<map>->applyToAll(trackme)` *)
From Coq Require Import String.
From Inovesa Require Import Proofs.TrackDispatchP.

(** every class main() stores in a variable it calls `->applyToAll(trackme)` on (Gen_Track.gen_tracked_classes) runs - by the
    class declarations of inc/SM/*.hpp (Gen_Track.gen_applyTo_dispatch: the nearest class up to SourceMap declaring applyTo) -
    the applyTo body of its kind: KickMap::applyTo for wake kick, RF kick and drift, FokkerPlanckMap::applyTo for the
    Fokker-Planck map (or it is Identity, the disabled map, whose body is empty); and that body is one Gen_Track holds,
    i.e. one the theorems above are about *)
Theorem C15_tracked_maps_run_the_generated_applyTo :
  forall m c, In (m, c) gen_tracked_classes ->
    (dispatch_of c = Some (body_of_kind m) \/ (c = "Identity"%string /\ dispatch_of c = Some "Identity"%string)) /\
    (forall b, dispatch_of c = Some b -> In b gen_applyTo_read).
Proof. exact tracked_maps_run_the_generated_applyTo. Qed.
Print Assumptions C15_tracked_maps_run_the_generated_applyTo.

(** no kick-type map has a particle transport of its own: WakePotentialMap, RFKickMap, DynamicRFKickMap, DriftMap are all
    tracked by KickMap::applyTo (gen_kick_x / gen_kick_y), which reads nothing but the map's `_offset` *)
Theorem C15_kick_maps_run_KickMap_applyTo :
  forall m c, In (m, c) gen_tracked_classes -> kick_kind m = true -> c <> "Identity"%string ->
    dispatch_of c = Some "KickMap"%string.
Proof. exact kick_maps_run_KickMap_applyTo. Qed.
Print Assumptions C15_kick_maps_run_KickMap_applyTo.

(** the time-dependent RF map is among them, and the `_offset` its particles read in a step is that of the state right after
    the same step's DynamicRFKickMap::apply - the table the grid has just been kicked with
    (C15_particles_get_the_same_steps_kick) *)
Theorem C15_dynrf_particles_read_the_applied_table :
  forall sin G kickmap m,
    In (MRF, "DynamicRFKickMap"%string) gen_tracked_classes /\
    dispatch_of "DynamicRFKickMap" = Some "KickMap"%string /\
    dispatch_of "RFKickMap" = Some "KickMap"%string /\
    forall n (sp : @DynRF.st QcF G * list pos),
      let sp' := dyn_track_step sin G kickmap m n gen_dyn_calckick_args gen_dyn_apply sp in
      fst sp' = dyn_apply sin G kickmap m gen_dyn_calckick_args gen_dyn_apply (fst sp) /\
      snd sp' = applyToAll n (OpKick false (getQ (DynRF.offs (fst sp')))) (snd sp).
Proof. exact dynrf_particles_read_the_applied_table. Qed.
Print Assumptions C15_dynrf_particles_read_the_applied_table.

(** non-vacuity: the table has the entries the statements are about *)
Example C15_dispatch_example :
  dispatch_of "DriftMap" = Some "KickMap"%string /\ dispatch_of "WakePotentialMap" = Some "KickMap"%string /\
  dispatch_of "FokkerPlanckMap" = Some "FokkerPlanckMap"%string /\
  In (MRF, "RFKickMap"%string) gen_tracked_classes /\ In (MDrift, "DriftMap"%string) gen_tracked_classes /\
  In (MWake, "WakePotentialMap"%string) gen_tracked_classes.
Proof. vm_compute. tauto. Qed.
