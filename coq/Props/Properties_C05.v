(** C05 - the stationary bunch satisfies the Haissinski equation with its own wake.  PARTIAL:
    what is proved is everything that makes the equation come out with the right sign and
    strength - (1) the force law of one step on the generated step order, (2) the scaling factor
    of the wake over the generated expression, (3) the calculus identity for the continuum
    limit of (1).  NOT proved (explored on the real binary by lib/props/C05.py): that a long run
    becomes stationary and that the stationary state of the discrete scheme is the continuum
    one up to the stated discretisation terms.  Only statements closed by [exact]; see
    Proofs/ForceP.v, Proofs/HaissR.v and DESIGN.md 5/C05. *)
From Coq Require Import List ZArith QArith Qcanon Bool Reals.
From Coquelicot Require Import Coquelicot.
From Inovesa Require Import Base.FieldKit Base.Sums Base.Float32 Base.RInst Gen.Gen_Coeffs
  Gen.Gen_StepOrder Gen.Gen_WakeScale Model.Kick Model.StepKinds Model.RunKinds Gen.Gen_WakeUpdate
  Gen.Gen_Identity Gen.Gen_KickIndex Model.Copy Model.WakeUpdate Model.Haiss
  Proofs.WeightsP Proofs.KickP Proofs.ForceP Proofs.StepP Proofs.HaissR.
Import ListNotations.
Local Open Scope Z_scope.

(** ** (1) force law *)

(** the maps of one step as main() applies them (generated from the loop body on every run):
    wake kick, RF kick, drift, Fokker-Planck; the wake is updated from the current projection
    before them and the projection is refreshed after them *)
Theorem C05_step_order : step_order = [MWake; MRF; MDrift; MFP].
Proof. exact step_order_checked. Qed.
Print Assumptions C05_step_order.

Theorem C05_step_events :
  step_events = [EUpdate; EApply MWake; EApply MRF; EApply MDrift; EApply MFP; EXProj].
Proof. exact step_events_checked. Qed.
Print Assumptions C05_step_events.

(** first-moment transport of one kick row written by updateSM for the stored offset [o]
    (it >= 2): the charge is kept and the first moment moves by minus the effective offset *)
Theorem C05_kick_first_moment :
  forall n it o (r : Z -> Qc) a b,
    valid_it it -> 2 <= it -> 0 < n < 2 ^ 30 -> suppQ r a b -> row_fits n it o a b ->
    M1 n (krow n it o r) = (M1 n r - eff_off n o * M0 n r)%Qc.
Proof. exact krow_M1. Qed.
Print Assumptions C05_kick_first_moment.

(** the rows of the grid-level kick of the executable model (what the correspondence runs) are
    these rows, with the offset stored for (bunch, row) *)
Theorem C05_grid_rows :
  forall n nb it (offs D : Z -> Qc) b x y,
    valid_it it -> 0 < n -> 0 < nb -> 0 <= b < nb -> 0 <= x < n -> 0 <= y < n ->
    apply_y n nb it (updateSM n it offs) D (didx n b x y) =
    krow n it (offs (b * n + x)) (rowD n D b x) y.
Proof. exact apply_y_is_krow. Qed.
Print Assumptions C05_grid_rows.

(** the rows of the two energy kicks AS THE SOURCE HAS THEM NOW, for every bunch b: the wake kick
    applied after WakePotentialMap::update() (generated program: copy of the nb*n wake potentials,
    then KickMap::updateSM) through KickMap::apply's y branch (generated index expressions; the table
    block is selected by min(b,_lastbunch) with the generated initialiser of _lastbunch) moves row
    (b,x) with bunch b's OWN wake potential entry wp(b*n+x); the RF kick (offsets written for the
    block of every bunch) with rnd32(t*rnd32(xc-x)) *)
Theorem C05_wake_grid_rows :
  forall n nb it (wp D : Z -> Qc) b x y,
    valid_it it -> 0 < n -> 0 <= b < nb -> 0 <= x < n ->
    rowD n (gkick_wake n nb it wp D) b x y = krow n it (wp (b * n + x)) (rowD n D b x) y.
Proof. exact gkick_wake_rows. Qed.
Print Assumptions C05_wake_grid_rows.

Theorem C05_rf_grid_rows :
  forall n nb it (t xc : Qc) (D : Z -> Qc) b x y,
    valid_it it -> 0 < n -> 0 <= b < nb -> 0 <= x < n ->
    rowD n (gkick_rf n nb it t xc D) b x y =
    krow n it (rf_offsets nb n t xc (b * n + x)) (rowD n D b x) y /\
    rf_offsets nb n t xc (b * n + x) = rnd32 (t * rnd32 (xc - Qcz x))%Qc.
Proof. exact gkick_rf_rows_offsets. Qed.
Print Assumptions C05_rf_grid_rows.

(** force law with the offsets as the code stores them, for EVERY bunch b: the energy kicks at the
    head of the generated step order, applied to the grid as the code applies them
    ([energy_kicks]: wake kick, RF kick), keep the charge of row (b,x) and move its first moment by
    minus the sum of the two effective offsets; the wake offset is W_b(x) = wp(b*n+x) =
    _wakepotential[b][x], bunch b's own wake potential (the entry the generated copy left where the
    generated block selection reads for bunch b) *)
Theorem C05_wake_kick_force_law_eff :
  forall n nb it (wp : Z -> Qc) (t xc : Qc) (D : Z -> Qc) b x a bb,
    valid_it it -> 2 <= it -> 0 < n < 2 ^ 30 -> 0 <= b < nb -> 0 <= x < n ->
    let i := b * n + x in
    let W := wp i in
    let orf := rf_offsets nb n t xc i in
    let r := rowD n D b x in
    suppQ r a bb ->
    row_fits n it W a bb ->
    row_fits n it orf (a - shift_hi n it W) (bb - shift_lo n it W) ->
    let r' := rowD n (energy_kicks n nb it wp t xc (ykick_prefix step_order) D) b x in
    wp_flat nb n b x = i /\
    wake_offsets n nb it wp (Z.min b (km_lastbunch nb) * wk_pd n nb + x) = W /\
    M0 n r' = M0 n r /\
    M1 n r' = (M1 n r - (eff_off n W + eff_off n orf) * M0 n r)%Qc.
Proof. exact wake_kick_force_law_eff. Qed.
Print Assumptions C05_wake_kick_force_law_eff.

(** literal form, for EVERY bunch b (float operations exact on the stored values): the row-wise
    mean energy index of row x of bunch b changes by t*(x - xc) - W_b(x) cells *)
Theorem C05_wake_kick_force_law :
  forall n nb it (wp : Z -> Qc) (t xc : Qc) (D : Z -> Qc) b x a bb,
    valid_it it -> 2 <= it -> 0 < n < 2 ^ 30 -> 0 <= b < nb -> 0 <= x < n ->
    let W := wp (b * n + x) in
    let orf := rf_offsets nb n t xc (b * n + x) in
    let r := rowD n D b x in
    suppQ r a bb ->
    row_fits n it W a bb ->
    row_fits n it orf (a - shift_hi n it W) (bb - shift_lo n it W) ->
    rnd32 (xc - Qcz x)%Qc = (xc - Qcz x)%Qc ->
    rnd32 (t * (xc - Qcz x))%Qc = (t * (xc - Qcz x))%Qc ->
    rnd32 (Qcz (n / 2) + W)%Qc = (Qcz (n / 2) + W)%Qc ->
    rnd32 (Qcz (n / 2) + t * (xc - Qcz x))%Qc = (Qcz (n / 2) + t * (xc - Qcz x))%Qc ->
    let r' := rowD n (energy_kicks n nb it wp t xc (ykick_prefix step_order) D) b x in
    M0 n r' = M0 n r /\
    M1 n r' = (M1 n r + (t * (Qcz x - xc) - W) * M0 n r)%Qc.
Proof. exact wake_kick_force_law. Qed.
Print Assumptions C05_wake_kick_force_law.

(** the same two energy kicks on one row with the offsets given as such (row level, no grid) *)
Theorem C05_force_law_row :
  forall n it (ow orf : Qc) (r : Z -> Qc) a b,
    valid_it it -> 2 <= it -> 0 < n < 2 ^ 30 -> suppQ r a b ->
    row_fits n it ow a b ->
    row_fits n it orf (a - shift_hi n it ow) (b - shift_lo n it ow) ->
    let r' := row_kicks n it (kick_off ow orf) (ykick_prefix step_order) r in
    M0 n r' = M0 n r /\
    M1 n r' = (M1 n r - (eff_off n ow + eff_off n orf) * M0 n r)%Qc.
Proof. exact force_law_row. Qed.
Print Assumptions C05_force_law_row.

(** non-vacuity: n = 12, four-point interpolation, W = 1/4 cell, t = 1/8, xc = 11/2, row x = 4,
    data 3,5 in cells 5,6: every hypothesis holds and the mean moves by 1/8*(4-11/2) - 1/4 *)
Example C05_force_law_hypotheses :
  let W := ex_wp (0 * 12 + 4) in
  let orf := rf_offsets 1 12 ex_t ex_xc (0 * 12 + 4) in
  suppQ (rowD 12 ex_D 0 4) 5 7 /\
  row_fits 12 4 W 5 7 /\
  row_fits 12 4 orf (5 - shift_hi 12 4 W) (7 - shift_lo 12 4 W) /\
  rnd32 (ex_xc - Qcz 4)%Qc = (ex_xc - Qcz 4)%Qc /\
  rnd32 (ex_t * (ex_xc - Qcz 4))%Qc = (ex_t * (ex_xc - Qcz 4))%Qc /\
  rnd32 (Qcz (12 / 2) + W)%Qc = (Qcz (12 / 2) + W)%Qc /\
  rnd32 (Qcz (12 / 2) + ex_t * (ex_xc - Qcz 4))%Qc = (Qcz (12 / 2) + ex_t * (ex_xc - Qcz 4))%Qc.
Proof. exact force_law_example_hypotheses. Qed.

Example C05_force_law_instance :
  let r := rowD 12 ex_D 0 4 in
  let r' := rowD 12 (energy_kicks 12 1 4 ex_wp ex_t ex_xc (ykick_prefix step_order) ex_D) 0 4 in
  M0 12 r' = Qcz 8 /\ (M1 12 r' - M1 12 r)%Qc = (Q2Qc (-7 # 16) * Qcz 8)%Qc.
Proof. cbv zeta. split; apply Qc_is_canon; vm_compute; reflexivity. Qed.

(** non-vacuity for a bunch other than the first, with UNEQUAL wakes: two bunches, W_0 = 1/4 cell,
    W_1 = 1/2 cell; row 4 of bunch 1 (data 3,5 in cells 5,6) satisfies every hypothesis and its mean
    moves by 1/8*(4-11/2) - 1/2 = -11/16 - bunch 1's own wake, not bunch 0's (which would give -7/16);
    row 4 of bunch 0 (data 2,1) moves by -7/16 *)
Example C05_force_law_two_bunches_hypotheses :
  let W := ex2_wp (1 * 12 + 4) in
  let orf := rf_offsets 2 12 ex_t ex_xc (1 * 12 + 4) in
  suppQ (rowD 12 ex2_D 1 4) 5 7 /\
  row_fits 12 4 W 5 7 /\
  row_fits 12 4 orf (5 - shift_hi 12 4 W) (7 - shift_lo 12 4 W) /\
  rnd32 (ex_xc - Qcz 4)%Qc = (ex_xc - Qcz 4)%Qc /\
  rnd32 (ex_t * (ex_xc - Qcz 4))%Qc = (ex_t * (ex_xc - Qcz 4))%Qc /\
  rnd32 (Qcz (12 / 2) + W)%Qc = (Qcz (12 / 2) + W)%Qc /\
  rnd32 (Qcz (12 / 2) + ex_t * (ex_xc - Qcz 4))%Qc = (Qcz (12 / 2) + ex_t * (ex_xc - Qcz 4))%Qc /\
  ex2_wp (1 * 12 + 4) <> ex2_wp (0 * 12 + 4).
Proof. exact force_law_example2_hypotheses. Qed.

Example C05_force_law_two_bunches_instance :
  let D' := energy_kicks 12 2 4 ex2_wp ex_t ex_xc (ykick_prefix step_order) ex2_D in
  (M0 12 (rowD 12 D' 1 4) = Qcz 8 /\
   (M1 12 (rowD 12 D' 1 4) - M1 12 (rowD 12 ex2_D 1 4))%Qc = (Q2Qc (-11 # 16) * Qcz 8)%Qc) /\
  (M0 12 (rowD 12 D' 0 4) = Qcz 3 /\
   (M1 12 (rowD 12 D' 0 4) - M1 12 (rowD 12 ex2_D 0 4))%Qc = (Q2Qc (-7 # 16) * Qcz 3)%Qc).
Proof. cbv zeta. repeat split; apply Qc_is_canon; vm_compute; reflexivity. Qed.

(** whole grid, the executable model run in the generated order AS THE CODE RUNS IT (wake kick's
    table from WakePotentialMap::update on the wake potentials [wp], RF kick's table from the RF
    offsets of every bunch's block, generated y branch), whatever the Fokker-Planck map computes,
    for EVERY bunch b: the grid handed to the Fokker-Planck map ([g3], after wake kick, RF kick
    and drift) has bunch b's charge of the input and its energy moment differs by
    minus Sum_x (eff W_b(x) + eff o_rf(x)) * (charge of row x of bunch b), W_b(x) = wp(b*n+x): the
    drift moves content along q only.  [E1 n D b] = Sum_x Sum_y y*D(b,x,y). *)
Theorem C05_full_step_energy :
  forall n nb it (wp : list Qc) (t xc : Qc) (dro : list Qc) (fp : list Qc -> list Qc)
         (data g1 g2 g3 g4 : list Qc) b,
    valid_it it -> 2 <= it -> 0 < n < 2 ^ 30 -> 0 <= b < nb ->
    run_maps_code n nb it wp t xc dro fp step_order data = [g1; g2; g3; g4] ->
    (forall x, 0 <= x < n -> exists a bb,
        suppQ (rowD n (getQ data) b x) a bb /\
        row_fits n it (getQ wp (b * n + x)) a bb /\
        row_fits n it (rf_offsets nb n t xc (b * n + x)) (a - shift_hi n it (getQ wp (b * n + x)))
                                                         (bb - shift_lo n it (getQ wp (b * n + x)))) ->
    (forall y, 0 <= y < n -> exists c d,
        suppQ (colD n (getQ g2) b y) c d /\ row_fits n it (getQ dro y) c d) ->
    E1 n (getQ g3) b =
      (E1 n (getQ data) b - sumQ 0 (Z.to_nat n)
         (fun x => ((eff_off n (getQ wp (b * n + x)) + eff_off n (rf_offsets nb n t xc (b * n + x)))
                    * M0 n (rowD n (getQ data) b x))%Qc))%Qc
    /\ Q0 n (getQ g3) b = Q0 n (getQ data) b
    /\ g4 = fp g3.
Proof. exact step_model_energy. Qed.
Print Assumptions C05_full_step_energy.

(** two bunches with unequal wakes (1/4 and 1/2 cell), the hypotheses hold for bunch 1 *)
Example C05_full_step_two_bunches_hypotheses :
  exists g1 g2 g3 g4,
    run_maps_code 8 2 2 ex2s_wp ex2s_t ex2s_xc exs_dro (fun d => d) step_order ex2s_data = [g1; g2; g3; g4] /\
    (forall x, 0 <= x < 8 -> exists a bb,
        suppQ (rowD 8 (getQ ex2s_data) 1 x) a bb /\
        row_fits 8 2 (getQ ex2s_wp (1 * 8 + x)) a bb /\
        row_fits 8 2 (rf_offsets 2 8 ex2s_t ex2s_xc (1 * 8 + x)) (a - shift_hi 8 2 (getQ ex2s_wp (1 * 8 + x)))
                                                                 (bb - shift_lo 8 2 (getQ ex2s_wp (1 * 8 + x)))) /\
    (forall y, 0 <= y < 8 -> exists c d,
        suppQ (colD 8 (getQ g2) 1 y) c d /\ row_fits 8 2 (getQ exs_dro y) c d) /\
    getQ ex2s_wp (1 * 8 + 3) <> getQ ex2s_wp (0 * 8 + 3).
Proof. exact step_example_two_bunches. Qed.

(** the same statement with the offset vectors of the two energy kicks given as such (any vectors;
    closed-form tables of Model/Kick.v), every bunch b *)
Theorem C05_full_step_energy_offsets :
  forall n nb it (wo rfo dro : list Qc) (fp : list Qc -> list Qc) (data g1 g2 g3 g4 : list Qc) b,
    valid_it it -> 2 <= it -> 0 < n < 2 ^ 30 -> 0 < nb -> 0 <= b < nb ->
    run_maps n nb it wo rfo dro fp step_order data = [g1; g2; g3; g4] ->
    (forall x, 0 <= x < n -> exists a bb,
        suppQ (rowD n (getQ data) b x) a bb /\
        row_fits n it (getQ wo (b * n + x)) a bb /\
        row_fits n it (getQ rfo (b * n + x)) (a - shift_hi n it (getQ wo (b * n + x)))
                                              (bb - shift_lo n it (getQ wo (b * n + x)))) ->
    (forall y, 0 <= y < n -> exists c d,
        suppQ (colD n (getQ g2) b y) c d /\ row_fits n it (getQ dro y) c d) ->
    E1 n (getQ g3) b =
      (E1 n (getQ data) b - sumQ 0 (Z.to_nat n)
         (fun x => ((eff_off n (getQ wo (b * n + x)) + eff_off n (getQ rfo (b * n + x)))
                    * M0 n (rowD n (getQ data) b x))%Qc))%Qc
    /\ Q0 n (getQ g3) b = Q0 n (getQ data) b
    /\ g4 = fp g3.
Proof. exact step_model_energy_offsets. Qed.
Print Assumptions C05_full_step_energy_offsets.

Example C05_full_step_hypotheses :
  exists g1 g2 g3 g4,
    run_maps 8 1 2 exs_wo exs_rfo exs_dro (fun d => d) step_order exs_data = [g1; g2; g3; g4] /\
    (forall x, 0 <= x < 8 -> exists a bb,
        suppQ (rowD 8 (getQ exs_data) 0 x) a bb /\
        row_fits 8 2 (getQ exs_wo (0 * 8 + x)) a bb /\
        row_fits 8 2 (getQ exs_rfo (0 * 8 + x)) (a - shift_hi 8 2 (getQ exs_wo (0 * 8 + x)))
                                                 (bb - shift_lo 8 2 (getQ exs_wo (0 * 8 + x)))) /\
    (forall y, 0 <= y < 8 -> exists c d,
        suppQ (colD 8 (getQ g2) 0 y) c d /\ row_fits 8 2 (getQ exs_dro y) c d).
Proof. exact step_example. Qed.

(** ** (2) scaling of the wake *)

(** over the generated expression (delegating constructor inc/PS/ElectricField.hpp and the
    mem-initialiser of _wakescaling): Ib*dt*c/(sigma_z * dE_cell)/N, dE_cell = delta_E*sigma_delta*E0 *)
Theorem C05_wake_scaling_formula :
  forall (K : Fld) (Ib dt c sz dE sd E0 N : K),
    sz <> f0 -> dE <> f0 -> sd <> f0 -> E0 <> f0 -> N <> f0 ->
    wake_scaling Ib dt c sz dE sd E0 N = (Ib * dt * c / (sz * (dE * sd * E0)) / N)%F.
Proof. exact wake_scaling_formula. Qed.
Print Assumptions C05_wake_scaling_formula.

Theorem C05_wake_scaling_factors :
  forall (K : Fld) (Ib dt c sz dE sd E0 N fr : K),
    sz <> f0 -> dE <> f0 -> sd <> f0 -> E0 <> f0 -> N <> f0 -> fr <> f0 ->
    wake_scaling Ib dt c sz dE sd E0 N =
    ((Ib / fr) * (dt * fr) * (c / sz) * (f1 / (dE * sd * E0)) * (f1 / N))%F.
Proof. exact wake_scaling_factors. Qed.
Print Assumptions C05_wake_scaling_factors.

(** times the energy cell width: natural energy units (sigma_E) per step *)
Theorem C05_wake_scaling_natural_units :
  forall (K : Fld) (Ib dt c sz dE sd E0 N : K),
    sz <> f0 -> dE <> f0 -> sd <> f0 -> E0 <> f0 -> N <> f0 ->
    (dE * wake_scaling Ib dt c sz dE sd E0 N = Ib * dt * c / (sz * (sd * E0)) / N)%F.
Proof. exact wake_scaling_natural_units. Qed.
Print Assumptions C05_wake_scaling_natural_units.

Example C05_wake_scaling_instance :
  this (wake_scaling (K:=QcF) (Q2Qc 3) (Q2Qc (1#2)) (Q2Qc 4) (Q2Qc 2) (Q2Qc (1#4)) (Q2Qc 3) (Q2Qc 2) (Q2Qc 8))
  = (1 # 4)%Q.
Proof. vm_compute. reflexivity. Qed.

(** ** (3) the calculus identity (real numbers) *)

(** for a wake potential W (natural units per step) with antiderivative Iw the density
    C*exp(-q^2/2 + (1/dtheta) Int W) * exp(-p^2/2) is annihilated by the stationary
    Vlasov-Fokker-Planck operator whose force q - W/dtheta is the continuum limit of (1) with
    the sign of (1) and the scale of (2), for every damping rate beta *)
Theorem C05_haissinski_stationary :
  forall (W Iw : R -> R) (dth beta C : R),
    (forall q, is_derive Iw q (W q)) -> dth <> 0%R ->
    forall q p, VFP 1 (fun q => W q / dth)%R beta (psi Iw dth 1 C) q p = 0%R.
Proof. exact haissinski_stationary. Qed.
Print Assumptions C05_haissinski_stationary.

(** the same with the discrete RF focusing strength kappa = tan(dtheta)/dtheta kept *)
Theorem C05_haissinski_stationary_kappa :
  forall (W Iw : R -> R) (dth kappa beta C : R),
    (forall q, is_derive Iw q (W q)) -> dth <> 0%R ->
    forall q p, VFP kappa (fun q => W q / dth)%R beta (psi Iw dth kappa C) q p = 0%R.
Proof. exact haissinski_stationary_kappa. Qed.
Print Assumptions C05_haissinski_stationary_kappa.

(** the form the property text uses: ln rho + q^2/2 - (1/dtheta) Int W is constant *)
Theorem C05_haissinski_log_form :
  forall (Iw : R -> R) (dth C : R),
    dth <> 0%R -> (0 < C)%R ->
    forall q, (ln (rho Iw dth 1 C q) + 1 * q ^ 2 / 2 - Iw q / dth = ln C)%R.
Proof. exact haissinski_log_form_unit. Qed.
Print Assumptions C05_haissinski_log_form.

(** the direction the property is worded in: a stationary density rh(q)*exp(-p^2/2) (energy
    distribution the unit Gaussian) with differentiable positive profile satisfies the Haissinski
    equation: ln rh + kappa q^2/2 - (1/dtheta) Int W is the same at every q *)
Theorem C05_haissinski_necessary :
  forall (W Iw rh drh : R -> R) (dth kappa beta : R),
    (forall q, is_derive Iw q (W q)) -> dth <> 0%R ->
    (forall q, is_derive rh q (drh q)) -> (forall q, (0 < rh q)%R) ->
    (forall q p, VFP kappa (fun q => W q / dth)%R beta (psi_of rh) q p = 0%R) ->
    forall q, (ln (rh q) + kappa * q ^ 2 / 2 - Iw q / dth = ln (rh 0) + kappa * 0 ^ 2 / 2 - Iw 0 / dth)%R.
Proof. exact haissinski_necessary. Qed.
Print Assumptions C05_haissinski_necessary.

Example C05_haissinski_necessary_hypotheses :
  let W := fun q : R => q in let Iw := fun q : R => (q * q / 2)%R in
  let rh := rho Iw 1 1 1 in
  (forall q, is_derive Iw q (W q)) /\ (forall q, (0 < rh q)%R) /\
  (forall q, is_derive rh q ((- 1 * q + W q / 1) * rh q)%R) /\
  (forall q p, VFP 1 (fun q => W q / 1)%R 0 (psi_of rh) q p = 0%R).
Proof. exact necessary_hypotheses_satisfiable. Qed.

Example C05_haissinski_hypotheses : forall q : R, is_derive (fun q => (q * q / 2)%R) q q.
Proof. exact example_antiderivative. Qed.

(** ** (family stfp) the axes main() builds, and where the square-cell convention enters the force law

    The force law above is stated in CELLS: [RFKickMap::_calcKick] moves position row [x] by [t * (xcenter - x)]
    ENERGY cells, [t = tan(angle)], [xcenter] the zero bin of the POSITION axis.  In natural units this is the focusing
    force [- t * q(x)] of the Haissinski equation only if the two mesh widths are equal
    ([C05_rf_kick_natural_units]: for any pair of axes it is [- t * (delta_E/delta_q) * q(x)]).  The map itself never
    looks at the energy axis; that the cells are square is a property of the axis extents main() hands to the
    PhaseSpace constructor (and to makePSFromHDF5 / makePSFromTXT), read from the source on every run into
    [Gen/Gen_Scaling.v] ([gen_qmin], [gen_qmax], [gen_pmin], [gen_pmax], [gen_axis_steps]) and pushed through the axis
    arithmetic of [Ruler] ([Gen/Gen_Ruler.v]).  Stated over every field, for every pair of grid shifts
    (PhaseSpaceShiftX, PhaseSpaceShiftY), grid size and PhaseSpaceSize, and every interpretation of the abstract
    operations.  (Seed C05-G: [pmax = qmin + pqsize] makes [gen_pmax] mention ShiftX; the first theorem then fails.) *)
From Inovesa Require Import Model.ScalingOps Gen.Gen_Scaling Gen.Gen_Ruler Proofs.ScalingAxesP.

(** both axes span PhaseSpaceSize whatever the shifts: equal widths *)
Theorem C05_main_axes_equal_width :
  forall (K : Fld) (O : Ops K) (L : leaf -> K) (B : bleaf -> bool),
    fsub (gen_axis_steps K O L B) f1 <> f0 ->
    fsub (gen_pmax K O L B) (gen_pmin K O L B) = fsub (gen_qmax K O L B) (gen_qmin K O L B).
Proof. exact axes_equal_width. Qed.
Print Assumptions C05_main_axes_equal_width.

Theorem C05_main_axes_span_PhaseSpaceSize :
  forall (K : Fld) (O : Ops K) (L : leaf -> K) (B : bleaf -> bool),
    fsub (gen_axis_steps K O L B) f1 <> f0 ->
    fsub (gen_qmax K O L B) (gen_qmin K O L B) = L O_getPhaseSpaceSize /\
    fsub (gen_pmax K O L B) (gen_pmin K O L B) = L O_getPhaseSpaceSize.
Proof. exact axes_span. Qed.
Print Assumptions C05_main_axes_span_PhaseSpaceSize.

(** the mesh widths Ruler computes from them are equal (square cells), namely PhaseSpaceSize/(GridSize-1) *)
Theorem C05_main_cells_square :
  forall (K : Fld) (O : Ops K) (L : leaf -> K) (B : bleaf -> bool),
    let n := gen_axis_steps K O L B in
    fsub n f1 <> f0 ->
    gen_ruler_delta K n (gen_pmin K O L B) (gen_pmax K O L B) = gen_ruler_delta K n (gen_qmin K O L B) (gen_qmax K O L B) /\
    gen_ruler_delta K n (gen_qmin K O L B) (gen_qmax K O L B) = fdiv (L O_getPhaseSpaceSize) (fsub n f1) /\
    n = L O_getGridSize.
Proof.
  exact (fun K O L B Hn => conj (cells_square K O L B Hn) (conj (cell_width K O L B Hn) (axis_steps_is_gridsize K O L B))).
Qed.
Print Assumptions C05_main_cells_square.

(** the zero bin of each axis is the centre of the grid plus the axis' OWN shift *)
Theorem C05_main_zero_bins :
  forall (K : Fld) (O : Ops K) (L : leaf -> K) (B : bleaf -> bool),
    let n := gen_axis_steps K O L B in
    fsub n f1 <> f0 -> L O_getPhaseSpaceSize <> f0 ->
    gen_ruler_zerobin K n (gen_qmin K O L B) (gen_qmax K O L B) = fadd (fdiv (fsub n f1) two) (L O_getPSShiftX) /\
    gen_ruler_zerobin K n (gen_pmin K O L B) (gen_pmax K O L B) = fadd (fdiv (fsub n f1) two) (L O_getPSShiftY).
Proof.
  exact (fun K O L B Hn HP => conj (zerobin_position K O L B Hn HP) (zerobin_energy K O L B Hn HP)).
Qed.
Print Assumptions C05_main_zero_bins.

(** the RF kick of row [x], [t * (xcenter - x)] energy cells, in natural units for ANY two axes of [s] points:
    [- t * (delta_E/delta_q) * q(x)] - here the square-cell assumption is explicit *)
Theorem C05_rf_kick_natural_units :
  forall (K : Fld) (s qmn qmx pmn pmx t x : K),
    fsub s f1 <> f0 -> fsub qmn qmx <> f0 ->
    let dq := gen_ruler_delta K s qmn qmx in
    let dE := gen_ruler_delta K s pmn pmx in
    let xc := gen_ruler_zerobin K s qmn qmx in
    fmul dE (fmul t (fsub xc x)) = fopp (fmul (fmul t (fdiv dE dq)) (gen_ruler_at K qmn dq x)).
Proof. exact rf_kick_natural_units. Qed.
Print Assumptions C05_rf_kick_natural_units.

(** ... and for the axes main() builds it IS the focusing force [- t * q(x)] of the force law, for every shift pair *)
Theorem C05_rf_kick_natural_units_main :
  forall (K : Fld) (O : Ops K) (L : leaf -> K) (B : bleaf -> bool) (t x : K),
    let n := gen_axis_steps K O L B in
    let dq := gen_ruler_delta K n (gen_qmin K O L B) (gen_qmax K O L B) in
    let dE := gen_ruler_delta K n (gen_pmin K O L B) (gen_pmax K O L B) in
    let xc := gen_ruler_zerobin K n (gen_qmin K O L B) (gen_qmax K O L B) in
    fsub n f1 <> f0 -> L O_getPhaseSpaceSize <> f0 ->
    fmul dE (fmul t (fsub xc x)) = fopp (fmul t (gen_ruler_at K (gen_qmin K O L B) dq x)).
Proof. exact rf_kick_natural_units_main. Qed.
Print Assumptions C05_rf_kick_natural_units_main.

(** the hypotheses are satisfiable and the statements not vacuous: 65 points, PhaseSpaceSize 12, shifts -10 / +6 over Qc *)
Example C05_main_axes_instance :
  let L := fun l : leaf => match l with O_getGridSize => Qcz 65 | O_getPhaseSpaceSize => Qcz 12
                                      | O_getPSShiftX => Qcz (-10) | O_getPSShiftY => Qcz 6 | _ => Qcz 1 end in
  let B := fun _ : bleaf => false in
  (gen_axis_steps QcF QcOps L B - 1 <> 0)%Qc /\
  gen_ruler_zerobin QcF (Qcz 65) (gen_qmin QcF QcOps L B) (gen_qmax QcF QcOps L B) = Qcz 22 /\
  gen_ruler_zerobin QcF (Qcz 65) (gen_pmin QcF QcOps L B) (gen_pmax QcF QcOps L B) = Qcz 38 /\
  gen_ruler_delta QcF (Qcz 65) (gen_pmin QcF QcOps L B) (gen_pmax QcF QcOps L B) = Q2Qc (3 # 16).
Proof. exact main_axes_instance. Qed.
