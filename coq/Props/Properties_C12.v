(** C12 - observing the simulation does not change it; equal inputs give equal outputs.
    Only statements closed by [exact]; proofs in Proofs/DriverP.v, per-run checker obligations in
    Proofs/DriverMainP.v; DESIGN.md 5/C12.  [K : kern] is the record of carrier types and physics
    kernels: every statement holds whatever they compute.  [nosig]: no interrupt (C14 treats those). *)
From Coq Require Import List ZArith Bool.
From Inovesa Require Import Model.Driver Gen.Gen_MainLoop Proofs.DriverP Proofs.DriverMainP Model.DriverInst.
Import ListNotations.
Local Open Scope Z_scope.

(** C12.1 the output block of the generated program (then-branch of `if (outstep > 0 && step%outstep == 0)`)
    passes the observer checker, and every block that does leaves the dynamic part of the state
    (step counter, three grids, cached x-projection, cached filling, wake-field buffers, kick-map
    offsets, RF table, modulation queue, abort flag) and the cache invariant unchanged. *)
Theorem C12_output_block_is_observer :
  out_block_of (p_body main_prog) = Some main_out_block /\
  forall (K : kern) (cf : cfg) (s : st K),
    Inv s -> dyn (exec_blk nosig cf main_out_block s) = dyn s /\ Inv (exec_blk nosig cf main_out_block s).
Proof. exact (conj main_out_block_found (fun K cf s => out_block_observer K main_out_block cf s main_out_block_obs)). Qed.
Print Assumptions C12_output_block_is_observer.

(** C12.2 the renormalisation guard reads the step counter and the option only, and
    IntegrateAndNormalize occurs nowhere in the program but directly under that guard *)
Theorem C12_renorm_schedule_step_only :
  renorm_checker main_prog = true /\
  forall (K : kern) (c1 c2 : cfg) (s1 s2 : st K),
    renorm c1 = renorm c2 -> k s1 = k s2 -> gval c1 s1 GRenorm = gval c2 s2 GRenorm.
Proof. exact (conj main_renorm_checked renorm_guard_step_only). Qed.
Print Assumptions C12_renorm_schedule_step_only.

(** C12.3 for every two configurations that differ in outstep and save cadence only (file name and
    verbosity are not read by the translated part at all), every two start states with the same
    dynamic part (they may differ in tracked particles, moments, CSR buffers, file, ...), and every
    number n of loop iterations: the dynamic parts agree.  With [t = true]: also the tracked
    particles and their PRNG, when both runs start with the same ones. *)
Theorem C12_cadence_independence :
  forall (K : kern) (c1 c2 : cfg) (t : bool), shared c1 c2 ->
  forall (s1 s2 : st K), dynx K t s1 = dynx K t s2 -> forall n : nat,
    dynx K t (loop nosig c1 (p_body main_prog) n (exec_blk nosig c1 (p_pre main_prog) s1)) =
    dynx K t (loop nosig c2 (p_body main_prog) n (exec_blk nosig c2 (p_pre main_prog) s2)).
Proof. exact (fun K c1 c2 t => cadence_independence_loop K main_prog c1 c2 t main_cadence_checked). Qed.
Print Assumptions C12_cadence_independence.

(** ... and so do the states in which the two complete runs end *)
Theorem C12_cadence_independence_run :
  forall (K : kern) (c1 c2 : cfg) (t : bool), shared c1 c2 ->
  forall (s1 s2 : st K), dynx K t s1 = dynx K t s2 ->
    dynx K t (run nosig c1 main_prog s1) = dynx K t (run nosig c2 main_prog s2).
Proof. exact (fun K c1 c2 t => cadence_independence_run K main_prog c1 c2 t main_cadence_checked). Qed.
Print Assumptions C12_cadence_independence_run.

(** C12.3, second half (common_records_equal): with [main_split = (hd, ob, el, tl)] the split of the loop
    body around `if (outstep > 0 && ...)`, for every step n the records the output block appends when
    entered in run 1 and in run 2 agree on all kept datasets ([cmn]: the eight default datasets, CSR,
    wake potential, and - with [t = true], same particles tracked - the particle rows; not the
    phase-space rows, whose cadence differs by design, nor the per-step RF-kick rows, C19).
    Hypothesis: the CSR update does not depend on the previous contents of the radiation field's
    buffers (C18's statement about the field object). *)
Theorem C12_common_records_equal :
  forall (K : kern), (forall (c c' : tCs K) (p : tP K), k_csrOf K c p = k_csrOf K c' p) ->
  forall (c1 c2 : cfg) (t : bool), shared c1 c2 ->
  forall (s1 s2 : st K), dynx K t s1 = dynx K t s2 -> forall n : nat,
    let '(hd, ob, _, _) := main_split in
    cmn K t (emit nosig c1 ob (exec_blk nosig c1 hd (iter nosig c1 (p_body main_prog) n (exec_blk nosig c1 (p_pre main_prog) s1)))) =
    cmn K t (emit nosig c2 ob (exec_blk nosig c2 hd (iter nosig c2 (p_body main_prog) n (exec_blk nosig c2 (p_pre main_prog) s2)))).
Proof.
  exact (fun K Hcsr c1 c2 t Hs s1 s2 Hd n =>
    common_records_equal K Hcsr main_prog c1 c2 t main_cadence_checked main_records_checked Hs
      (fst (fst (fst main_split))) (snd (fst (fst main_split))) (snd (fst main_split)) (snd main_split)
      main_split_found s1 s2 Hd n).
Qed.
Print Assumptions C12_common_records_equal.

(** C12.4 applyToAll(trackme) never touches the dynamic part *)
Theorem C12_tracking_is_passive :
  forall (K : kern) (cf : cfg) (m : map) (sig : Z -> bool) (s : st K), dyn (exec sig cf (Track m) s) = dyn s.
Proof. exact track_passive. Qed.
Print Assumptions C12_tracking_is_passive.

(** non-vacuity: two configurations with different cadences satisfy [shared]; the checker accepts
    the generated program; the output block is the non-trivial one *)
Example C12_shared_example :
  shared (mkcfg 8 2 1 0 true true false) (mkcfg 8 0 0 0 true true false).
Proof. unfold shared; cbn; tauto. Qed.
(** the CSR hypothesis is satisfiable (unit instance), and the output block found by the split is the one of C12.1 *)
Example C12_records_example :
  (forall (c c' : tCs Inovesa.Model.DriverInst.unitK) (p : tP Inovesa.Model.DriverInst.unitK),
     k_csrOf Inovesa.Model.DriverInst.unitK c p = k_csrOf Inovesa.Model.DriverInst.unitK c' p) /\
  snd (fst (fst main_split)) = main_out_block.
Proof. split; [reflexivity | vm_compute; reflexivity]. Qed.
Example C12_checker_example : cadence_checker main_prog = true /\ exists r, main_out_block = Seq Integrate r.
Proof. split; [exact main_cadence_checked | eexists; vm_compute; reflexivity]. Qed.

(** * The whole program (set-up skeleton [main_setup] + [main_prog], Model/Setup.v)

    The set-up reads of the configuration only `renormalize >= 0` (the one guard of the generated
    skeleton the driver model knows); opaque statements and conditions are an arbitrary environment
    [ev].  Two whole-program runs that differ in the output schedule only, under the same
    environment and from the same state, leave the set-up the same way; when they reach the end of
    main() their dynamic parts agree (and the tracked particles, with [t = true]). *)
From Inovesa Require Import Model.Setup Proofs.SetupP Proofs.SetupMainP.

Theorem C12_setup_ignores_output_schedule :
  su_guards main_setup = [GRenorm0] /\
  forall (K : kern) (sig : Z -> bool) (ev : senv K) (c1 c2 : cfg) (s : st K), renorm c1 = renorm c2 ->
    sexec sig ev c1 main_setup s = sexec sig ev c2 main_setup s.
Proof. exact (conj (main_setup_guards) (fun K => main_setup_ignores_cadence K)). Qed.
Print Assumptions C12_setup_ignores_output_schedule.

Theorem C12_cadence_independence_whole_program :
  forall (K : kern) (ev : senv K) (c1 c2 : cfg) (t : bool) (s : st K), shared c1 c2 ->
    match full_run nosig ev c1 main_setup main_prog s, full_run nosig ev c2 main_setup main_prog s with
    | Finished a, Finished b => dynx K t a = dynx K t b
    | Early a, Early b | Crashed a, Crashed b => a = b
    | _, _ => False
    end.
Proof. exact (fun K => main_whole_program_cadence K). Qed.
Print Assumptions C12_cadence_independence_whole_program.

(** * Projection freshness (strengthening driven by seed C12-H; Proofs/DriverFreshP.v)

    `integrateAndNormalize()` divides by the integral of the CACHED bunch profile.  For the generated
    main(): every such call is reached with the cache refreshed after the last write of the grid
    ([fresh_checker], abstract interpretation with one bit), hence - for every kernel record, configuration
    (whatever the output schedule, with or without a wake map), signal schedule and start state -
    (1) the run equals the run of the program with `updateXProjection()` inserted before every
    `integrateAndNormalize()` (the renormalisation always uses the charge of the CURRENT grid), and
    (2) at every loop head the cached profile is the projection of the grid.
    A refresh that depends on the output schedule is refused ([C12_stale_projection_refused]). *)
From Inovesa Require Import Proofs.DriverFreshP Proofs.DriverFreshMainP.

Theorem C12_renormalisation_reads_fresh_projection :
  fresh_checker main_prog = true /\
  (forall (K : kern) (sig : Z -> bool) (cf : cfg) (s : st K),
     run sig cf (refresh_prog main_prog) s = run sig cf main_prog s) /\
  (forall (K : kern) (sig : Z -> bool) (cf : cfg) (s : st K) (n : nat),
     let h := iter sig cf (p_body main_prog) n (exec_blk sig cf (p_pre main_prog) s) in
     xp h = k_projX K (g1 h)).
Proof.
  exact (conj main_fresh_checked
          (conj (fun K => refresh_run K main_prog main_fresh_checked)
                (fun K => fresh_at_heads K main_prog main_fresh_checked))).
Qed.
Print Assumptions C12_renormalisation_reads_fresh_projection.

(** non-vacuity: main() renormalises in the loop body and in the final block, so [refresh_prog] does insert
    two calls; and the checker refuses a loop whose refresh sits under the output-schedule guard *)
Example C12_refresh_is_not_identity :
  count_calls (p_body (refresh_prog main_prog)) = S (count_calls (p_body main_prog)) /\
  count_calls (p_post (refresh_prog main_prog)) = S (count_calls (p_post main_prog)).
Proof. split; vm_compute; reflexivity. Qed.
Example C12_stale_projection_refused : fresh_checker stale_example = false.
Proof. exact stale_example_refused. Qed.

(** * Observer options: verbosity (strengthening driven by seeds F3-I and F6-J; Model/Observers.v,
      Proofs/SetupObsP.v, Proofs/ObserversP.v, per-run obligations in Proofs/SetupObsMainP.v)

    translate/mainloop2coq.py follows `opts.getVerbosity()` through main(): every `if` whose condition reads
    it is an observer-guarded statement; its statements are classified (const member function of an outside
    object / call of the model / `getPastModulation()` / non-const member function / assignment to an outside
    variable that is not report-only / anything else); a read of the verbosity anywhere else fails the
    translation.  Set-up: the guarded statements stay in the skeleton, [setup_observer_conds] are the
    conditions, [setup_pure_opaque] the statements and conditions found free of effects.
    (1) The generated skeleton passes [obs_chk] (under a verbosity test: pure statements and pure conditions only -
    no call of the driver model, no hook point, no return, no `Display::abort = true`), hence: for every kernel
    record, signal schedule, configuration, state and every two environments of opaque statements that differ in
    the VALUES OF THE VERBOSITY TESTS only - pure statements leave the model's state alone and do not throw -
    the set-up ends the same way in the same state, and so does the whole program: the start state of the
    simulation does not depend on the verbosity. *)
From Inovesa Require Import Model.Observers Proofs.SetupObsP Proofs.ObserversP Proofs.SetupObsMainP.

Theorem C12_setup_observers_pure :
  obs_chk setup_observer_conds setup_pure_opaque main_setup = true /\
  forall (K : kern) (sig : Z -> bool) (cf : cfg) (ev1 ev2 : senv K),
    pure_env setup_pure_opaque ev1 -> pure_env setup_pure_opaque ev2 ->
    same_but_observers setup_observer_conds ev1 ev2 ->
    forall s : st K,
      sexec sig ev1 cf main_setup s = sexec sig ev2 cf main_setup s /\
      full_run sig ev1 cf main_setup main_prog s = full_run sig ev2 cf main_setup main_prog s.
Proof. exact (conj main_setup_observers_checked (fun K => main_setup_observers_pure K)). Qed.
Print Assumptions C12_setup_observers_pure.

(** (2) The observer-guarded statements of the simulation part (they are not part of [main_prog]: the driver
    model has no verbosity) pass [observers_pure]: each of them, executed in any state of the model, whatever
    the unclassified effects [unk] would do, leaves the state as it is.  `getPastModulation()` counts here as a function
    that clears the pending records ([clearing_getpast]: none of the statements may call it; C19 states the same with the
    effect translate/dynqueue2coq.py reads off its body). *)
Theorem C12_loop_observers_pure :
  observers_pure clearing_getpast loop_observers = true /\
  forall (K : kern) (sig : Z -> bool) (cf : cfg) (junk : list (tMd K)) (unk : String.string -> st K -> st K) (o : ostmt) (s : st K),
    In o loop_observers -> oexec_stmt sig cf junk clearing_getpast unk o s = s.
Proof. exact (conj main_loop_observers_checked_c (fun K => main_loop_observers_pure_c K)). Qed.
Print Assumptions C12_loop_observers_pure.

(** non-vacuity: main() does test the verbosity in its set-up; the hypotheses are satisfiable by two
    environments that answer those tests differently; a verbosity test whose branch refreshes the cached
    profile and integrates (seed F3-I in miniature) is refused *)
Example C12_setup_has_observers : (1 <=? Z.of_nat (obs_count setup_observer_conds main_setup)) = true.
Proof. exact main_setup_has_observers. Qed.
Example C12_observer_hypotheses_satisfiable :
  pure_env setup_pure_opaque (idle_env unitK true) /\ pure_env setup_pure_opaque (idle_env unitK false) /\
  same_but_observers setup_observer_conds (idle_env unitK true) (idle_env unitK false) /\
  cnd (idle_env unitK true) (hd 0 setup_observer_conds) <> cnd (idle_env unitK false) (hd 0 setup_observer_conds).
Proof. split; [apply idle_env_pure | split; [apply idle_env_pure | split; [apply idle_envs_differ_in_observers | vm_compute; discriminate]]]. Qed.
Example C12_impure_observer_refused : obs_chk [1] [1; 3] impure_observer_example = false.
Proof. exact impure_observer_example_refused. Qed.

(** * FFT wisdom (strengthening driven by seed F1-I; Model/Wisdom.v, Proofs/WisdomP.v, per-run obligations in
      Proofs/WisdomMainP.v; generated: Gen/Gen_Wisdom.v from src/FFTWWrapper.cpp and src/IO/FSPath.cpp)

    "Two runs with identical parameters and the same FFT wisdom produce bit-identical physics datasets": every planner
    call of fft::prepareFFT measures run times ([wisdom_planner_timed]), so which plan a run gets WITHOUT stored wisdom
    is outside any model - the program's answer is the wisdom files.  The logic around them is a state machine
    `run : directory -> directory` over the generated table of prepareFFT bodies.  Per-run obligation [wis_ok]: the path
    is built by FSPath::append (which creates the directory: read off FSPath.cpp), the wisdom is imported before the
    wisdom-only plan, and the create branch plans first and exports afterwards.  Then, for every state of the wisdom
    directory the first run finds (missing, empty, unreadable files, files without the wisdom of their own transform)
    and every sequence of transforms the program prepares: the second run plans nothing, writes nothing, and every
    prepared transform has a readable wisdom file.  Outside the model: FFTW's planner itself (that a plan re-created
    from wisdom is the stored plan) - the repeated runs of the check. *)
From Coq Require Import String.
From Inovesa Require Model.Wisdom Gen.Gen_Wisdom Proofs.WisdomP Proofs.WisdomMainP.

Theorem C12_wisdom_after_one_run_nothing_is_planned :
  WisdomP.wis_ok WisdomMainP.main_mkdir Gen_Wisdom.wisdom_table = true /\
  forall (fs0 : Wisdom.fsys) (reqs : list Wisdom.key),
    (forall k, In k reqs -> WisdomP.handled Gen_Wisdom.wisdom_table k = true) ->
    let fs1 := Wisdom.p_fs (Wisdom.run WisdomMainP.main_mkdir Gen_Wisdom.wisdom_table reqs fs0) in
    Wisdom.p_planned (Wisdom.run WisdomMainP.main_mkdir Gen_Wisdom.wisdom_table reqs fs1) = [] /\
    Wisdom.p_written (Wisdom.run WisdomMainP.main_mkdir Gen_Wisdom.wisdom_table reqs fs1) = [] /\
    Wisdom.p_fs (Wisdom.run WisdomMainP.main_mkdir Gen_Wisdom.wisdom_table reqs fs1) = fs1 /\
    (forall k, In k reqs -> exists w, Wisdom.lookup k (Wisdom.fs_files fs1) = Some (Some w)).
Proof. exact (conj WisdomMainP.main_wisdom_checked WisdomMainP.main_wisdom_after_one_run). Qed.
Print Assumptions C12_wisdom_after_one_run_nothing_is_planned.

(** non-vacuity: the table handles the transforms of the field objects; from a missing directory the first run does plan
    and write; and three slips - a plain string as path (seed F1-I), export before the plan, an append that creates
    nothing - are refused by the checker AND have a second run that plans again *)
Example C12_wisdom_first_run_plans :
  let r := Wisdom.run WisdomMainP.main_mkdir Gen_Wisdom.wisdom_table [("r2c32"%string, 128); ("c2r32"%string, 128)] (Wisdom.mkfs false []) in
  Wisdom.p_planned r = [("r2c32"%string, 128); ("c2r32"%string, 128)] /\ Wisdom.p_written r = Wisdom.p_planned r /\
  Wisdom.p_logged r = Wisdom.p_planned r /\ Wisdom.fs_dir (Wisdom.p_fs r) = true.
Proof. exact WisdomMainP.main_first_run_plans. Qed.
Example C12_wisdom_handles_the_fields : forall n,
  WisdomP.handled Gen_Wisdom.wisdom_table ("r2c32"%string, n) = true /\ WisdomP.handled Gen_Wisdom.wisdom_table ("c2r32"%string, n) = true.
Proof. exact WisdomMainP.main_handles_the_fields. Qed.
Example C12_wisdom_slips_refused :
  WisdomP.second_run_planned true (WisdomP.tb_of Wisdom.PPlainString [Wisdom.WImportThen [Wisdom.WPlan true]; Wisdom.WIfNoPlan [Wisdom.WPlan false; Wisdom.WExport; Wisdom.WLog]]) = [WisdomP.k0] /\
  WisdomP.second_run_planned true (WisdomP.tb_of Wisdom.PFSPathAppend [Wisdom.WImportThen [Wisdom.WPlan true]; Wisdom.WIfNoPlan [Wisdom.WExport; Wisdom.WPlan false; Wisdom.WLog]]) = [WisdomP.k0] /\
  WisdomP.second_run_planned false (WisdomP.tb_of Wisdom.PFSPathAppend WisdomP.canon) = [WisdomP.k0] /\
  WisdomP.wis_ok false (WisdomP.tb_of Wisdom.PFSPathAppend WisdomP.canon) = false.
Proof.
  exact (conj (proj2 WisdomP.plain_string_path_replans) (conj (proj2 WisdomP.export_before_plan_replans)
        (conj (proj2 WisdomP.append_without_mkdir_replans) (proj1 WisdomP.append_without_mkdir_replans)))).
Qed.

(** * The initial phase-space record (open finding `initial-ps-record`; Proofs/DriverPS0P.v)

    [C12_common_records_equal] leaves the phase-space rows out; this is why the statement cannot include them for the
    program as it is: a model witness (integer instance; grid charge 6, cached integral 1 as after loading a file,
    `renormalize = 1`) in which the t = 0 phase-space record of the `SavePhaseSpace = 0` run (written in the prologue) is
    6 and that of the `SavePhaseSpace = 1` run (written in the first iteration, after the renormalisation) is 1, while
    the two runs end in the same grid.  The same input fails on the binary (findings/C12-initial-ps-record.replay.json). *)
From Inovesa Require Proofs.DriverPS0P.
Theorem C12_initial_phase_space_record_refuted :
  exists (K : kern) (c1 c2 : cfg) (s : st K) (rows : Z -> list (rec K) -> list (tG K)),
    shared c1 c2 /\ rows 0 (file (run nosig c1 main_prog s)) <> rows 0 (file (run nosig c2 main_prog s)) /\
    rows 0 (file (run nosig c1 main_prog s)) <> [] /\ rows 0 (file (run nosig c2 main_prog s)) <> [].
Proof. exact DriverPS0P.initial_ps_record_refuted. Qed.
Print Assumptions C12_initial_phase_space_record_refuted.
(** ... the witness itself: same configuration but for SavePhaseSpace (0 / 1), same start state; the t = 0 phase-space
    rows of the two files are [6] and [1]; the final grids agree *)
Theorem C12_initial_phase_space_record_witness :
  shared (DriverPS0P.ps0_cfg 0) (DriverPS0P.ps0_cfg 1) /\
  DriverPS0P.ps_rows_at 0 (file (run nosig (DriverPS0P.ps0_cfg 0) main_prog DriverPS0P.ps0_start)) = [6] /\
  DriverPS0P.ps_rows_at 0 (file (run nosig (DriverPS0P.ps0_cfg 1) main_prog DriverPS0P.ps0_start)) = [1] /\
  g1 (run nosig (DriverPS0P.ps0_cfg 0) main_prog DriverPS0P.ps0_start) = g1 (run nosig (DriverPS0P.ps0_cfg 1) main_prog DriverPS0P.ps0_start).
Proof. exact DriverPS0P.initial_ps_record_differs. Qed.
Print Assumptions C12_initial_phase_space_record_witness.

(** ** (family st3drv, seeds C12-I / C12-J) two facts about the code OUTSIDE main() that the statements above rely on when
    they treat the grid state [g] as the whole state of the simulation and an observer block as a function of it.

    (1) The projections are functions of the grid alone (Proofs/ProjectionPurityP.v over Gen/Gen_Moments.v, regenerated
    from src/PS/PhaseSpace.cpp on every run): the driver model's "updateXProjection after every step" reads nothing that
    an observer block (updateYProjection, the moments, the records) left behind.  A member carrying a row range / a dirty
    flag from one call to a later one is refused by translate/moments2coq.py and would break these statements. *)
From Inovesa Require Model.MomentsIR Gen.Gen_Moments Proofs.ProjectionPurityP.
Module ProjectionPurity.
Import FieldKit MomentsIR Gen_Moments ProjectionPurityP.

Theorem C12_xprojection_function_of_grid_source :
  forall (K : Fld) (E : env K) (d : Z -> Z -> Z -> K) p p' f f' (i i' : K) m m' b x,
    (0 <= b < e_nb E)%Z -> (0 <= x < e_nx E)%Z ->
    m_proj (gen_updateXProjection K E (mkMst K d p f i m)) 0 b x =
    m_proj (gen_updateXProjection K E (mkMst K d p' f' i' m')) 0 b x.
Proof. exact xprojection_function_of_grid. Qed.
Print Assumptions C12_xprojection_function_of_grid_source.

Theorem C12_yprojection_function_of_grid_source :
  forall (K : Fld) (E : env K) (d : Z -> Z -> Z -> K) p p' f f' (i i' : K) m m' b y,
    (0 <= b < e_nb E)%Z -> (0 <= y < e_ny E)%Z ->
    m_proj (gen_updateYProjection K E (mkMst K d p f i m)) 1 b y =
    m_proj (gen_updateYProjection K E (mkMst K d p' f' i' m')) 1 b y.
Proof. exact yprojection_function_of_grid. Qed.
Print Assumptions C12_yprojection_function_of_grid_source.

(** the bunch profile after a step is the same whether or not the energy profile was computed in between *)
Theorem C12_xprojection_ignores_energy_profile_calls_source :
  forall (K : Fld) (E : env K) (s : mst K) b x,
    (0 <= b < e_nb E)%Z -> (0 <= x < e_nx E)%Z ->
    m_proj (gen_updateXProjection K E (gen_updateYProjection K E s)) 0 b x = m_proj (gen_updateXProjection K E s) 0 b x.
Proof. exact xprojection_ignores_yprojection_calls. Qed.
Print Assumptions C12_xprojection_ignores_energy_profile_calls_source.
End ProjectionPurity.

(** (2) Nothing in src/, inc/ or the CMake files changes the floating-point environment (Gen/Gen_FPEnv.v,
    translate/fpenv2coq.py: lexical scan on every run for <cfenv> writers, SSE control-register intrinsics / macros, x87
    and MSVC control-word functions, FP pragmas, optimize attributes, control-word loads in inline assembly, fast-math
    style compiler options).  With that, the arithmetic of step k is one function of its operands whatever ran before -
    in particular whatever observer blocks ran ([C12_run_value_independent_of_observer_cadence], an abstract run: [eval]
    one step under an environment, observer blocks that leave the environment alone); the example shows the dependence a
    block that switches to flush-to-zero creates between the cadence "never" and every other. *)
From Inovesa Require Model.FPEnv Gen.Gen_FPEnv Proofs.FPEnvP.
Module FPEnvironment.
Import FPEnv Gen_FPEnv FPEnvP.

Theorem C12_no_site_changes_fp_environment :
  fpenv_sites = [] /\ fpenv_fixed fpenv_sites = true /\ (0 < fpenv_files_scanned)%Z.
Proof. exact (conj fpenv_sites_empty fpenv_is_fixed). Qed.
Print Assumptions C12_no_site_changes_fp_environment.

Theorem C12_run_value_independent_of_observer_cadence :
  forall (Env Val : Type) (eval : Env -> Val -> Val) (o1 o2 : nat -> bool) (n k : nat) (e : Env) (x : Val),
    run Env Val eval (fun e => e) o1 n k e x = run Env Val eval (fun e => e) o2 n k e x.
Proof. exact run_cadence_independent. Qed.
Print Assumptions C12_run_value_independent_of_observer_cadence.

Example C12_run_depends_on_cadence_when_environment_changes :
  let eval := fun (ftz : bool) (x : Z) => if ftz then (if (Z.abs (x / 2) <? 2)%Z then 0%Z else (x / 2)%Z) else (x / 2)%Z in
  run bool Z eval (fun _ => true) (fun _ => false) 2 0 false 4%Z = 1%Z /\
  run bool Z eval (fun _ => true) (fun k => Nat.eqb k 0) 2 0 false 4%Z = 0%Z.
Proof. exact run_depends_on_cadence_example. Qed.
End FPEnvironment.
