(** C04 - without impedance every start relaxes to the unit-width natural Gaussian.
    Energy-moment theorems for the 3-point Fokker-Planck step of Model/FokkerPlanck.v (stencil
    arithmetic regenerated from the constructor on every run), for every field, damping decrement,
    grid spacing, axis origin and every distribution with interior support; order statements over the
    reals; algebra of the second-moment recurrence of a full step (Model/Moments2.v).
    Only statements closed by [exact]; proofs in Proofs/FokkerPlanckP.v, SpreadP.v, SpreadR.v.

    NOT carried by a theorem (explored by the check on the implementation only): that the recurrence
    of Model/Moments2.v is what RF kick and drift do to the grid moments (needs the kick family's
    quadratic moment transport), the contraction of the coupled 3x3 system, the 4-point stencil's
    moments, and the truncation at the grid border over histories longer than the distance of the
    support from the border (the closed form below holds as long as the support stays interior). *)
From Coq Require Import List ZArith QArith Qcanon Reals Lia.
From Inovesa Require Import Base.FieldKit Base.Float32 Base.RInst Base.Sums Gen.Gen_FPStencil
  Model.FokkerPlanck Model.Moments2 Proofs.FPGridP Proofs.FokkerPlanckP Proofs.FPMomentsP Proofs.SpreadP Proofs.SpreadR
  Gen.Gen_Coeffs Model.Kick Proofs.KickP Proofs.KickGridP.
Local Open Scope Z_scope.

(** C04.1: one step on one energy column: M0' = M0, M1' = (1-d) M1, M2' = (1-2d) M2 + (2f - d delta^2) M0
    with d = e1 if the variant damps (else 0), f = e1 if it diffuses (else 0); i.e.
    full: (1-2e1) M2 + e1 (2 - delta^2) M0; damping only: (1-2e1) M2 - e1 delta^2 M0;
    diffusion only: M2 + 2 e1 M0; none: M2. *)
Theorem C04_fp3_moments :
  forall (K : Fld) (e1 delta : K) (p : Z -> K) (v n le m : Z) (r : Z -> K),
    hyp K delta p n -> interior K n r ->
    S0 K n (fp3_next K e1 delta p v n le m r) = S0 K n r /\
    S1 K p n (fp3_next K e1 delta p v n le m r) = fmul (fsub f1 (opt (has_damp v) e1)) (S1 K p n r) /\
    S2 K p n (fp3_next K e1 delta p v n le m r) =
      fadd (fmul (fsub f1 (fmul two (opt (has_damp v) e1))) (S2 K p n r))
           (fmul (fsub (fmul two (opt (has_diff v) e1)) (fmul (opt (has_damp v) e1) (fmul delta delta))) (S0 K n r)).
Proof. exact next_moments. Qed.
Print Assumptions C04_fp3_moments.

(** the four variants by name (computed from the generated enum values) *)
Example C04_variants : (has_damp fpt_full, has_diff fpt_full) = (true, true) /\
                       (has_damp fpt_damping_only, has_diff fpt_damping_only) = (true, false) /\
                       (has_damp fpt_diffusion_only, has_diff fpt_diffusion_only) = (false, true) /\
                       (has_damp fpt_none, has_diff fpt_none) = (false, false).
Proof. repeat split. Qed.

(** k steps: charge constant, first moment (1-d)^k *)
Theorem C04_fp3_iter_moments01 :
  forall (K : Fld) (e1 delta : K) (p : Z -> K) (v n le m : Z) (k : nat),
    hyp K delta p n -> forall r : Z -> K,
    (forall j, (j < k)%nat -> interior K n (fp3_iter K e1 delta p v n le m j r)) ->
    S0 K n (fp3_iter K e1 delta p v n le m k r) = S0 K n r /\
    S1 K p n (fp3_iter K e1 delta p v n le m k r) = fmul (kpow K (fsub f1 (opt (has_damp v) e1)) k) (S1 K p n r).
Proof. exact iter_moments01. Qed.
Print Assumptions C04_fp3_iter_moments01.

(** C04.2: closed form by induction over steps: with damping the distance of M2 to sigma_inf*M0
    (sigma_inf = 1 - delta^2/2 for the full step, -delta^2/2 for damping only) is multiplied by
    (1-2e1) per step, from any start, independent of the shape of the distribution *)
Theorem C04_fp3_spread_closed_form :
  forall (K : Fld) (e1 delta : K) (p : Z -> K) (v n le m : Z) (k : nat),
    hyp K delta p n -> has_damp v = true -> forall r : Z -> K,
    (forall j, (j < k)%nat -> interior K n (fp3_iter K e1 delta p v n le m j r)) ->
    fsub (S2 K p n (fp3_iter K e1 delta p v n le m k r)) (fmul (sigma_inf K delta v) (S0 K n r)) =
    fmul (kpow K (fsub f1 (fmul two e1)) k) (fsub (S2 K p n r) (fmul (sigma_inf K delta v) (S0 K n r))).
Proof. exact spread_closed_form. Qed.
Print Assumptions C04_fp3_spread_closed_form.

(** without damping: M2 grows by 2 e1 M0 per step (diffusion only) or stays put (none: f = 0) *)
Theorem C04_fp3_spread_without_damping :
  forall (K : Fld) (e1 delta : K) (p : Z -> K) (v n le m : Z) (k : nat),
    hyp K delta p n -> has_damp v = false -> forall r : Z -> K,
    (forall j, (j < k)%nat -> interior K n (fp3_iter K e1 delta p v n le m j r)) ->
    S2 K p n (fp3_iter K e1 delta p v n le m k r) =
    fadd (S2 K p n r) (fmul (fmul (knat K k) (fmul two (opt (has_diff v) e1))) (S0 K n r)).
Proof. exact spread_no_damping. Qed.
Print Assumptions C04_fp3_spread_without_damping.

(** the support hypothesis of k steps is implied by an initial support k cells clear of rows 2 and n-3 *)
Theorem C04_fp3_support_spreads_one_cell_per_step :
  forall (K : Fld) (e1 delta : K) (p : Z -> K) (v n le m : Z) (k : nat),
    hyp K delta p n -> forall (r : Z -> K) a b,
    2 + Z.of_nat k <= a -> b <= n - 2 - Z.of_nat k -> supp r a b ->
    forall j, (j <= k)%nat -> interior K n (fp3_iter K e1 delta p v n le m j r).
Proof. exact iter_interior. Qed.
Print Assumptions C04_fp3_support_spreads_one_cell_per_step.

(** order statements over the reals, 0 < e1 < 1/2 (the explicit scheme's stable range) *)
Theorem C04_fp3_full_monotone_from_either_side :
  forall (e1 delta : R) (p : Z -> R) (v n le m : Z) (r : Z -> R),
    hyp RF delta p n -> interior RF n r -> has_damp v = true -> (0 < e1 < 1 / 2)%R ->
    ((0 < dist delta p v n r)%R ->
       (0 < dist delta p v n (fp3_next RF e1 delta p v n le m r) < dist delta p v n r)%R) /\
    ((dist delta p v n r < 0)%R ->
       (dist delta p v n r < dist delta p v n (fp3_next RF e1 delta p v n le m r) < 0)%R) /\
    (dist delta p v n r = 0%R -> dist delta p v n (fp3_next RF e1 delta p v n le m r) = 0%R).
Proof. exact full_monotone. Qed.
Print Assumptions C04_fp3_full_monotone_from_either_side.

Theorem C04_fp3_full_converges_from_any_start :
  forall (e1 delta : R) (p : Z -> R) (v n le m : Z),
    hyp RF delta p n -> has_damp v = true -> (0 < e1 < 1 / 2)%R ->
    forall eps : R, (0 < eps)%R -> exists N : nat, forall (k : nat) (r : Z -> R), (k >= N)%nat ->
      (forall j, (j < k)%nat -> interior RF n (fp3_iter RF e1 delta p v n le m j r)) ->
      (Rabs (dist delta p v n (fp3_iter RF e1 delta p v n le m k r)) <= eps * Rabs (dist delta p v n r))%R.
Proof. exact full_converges. Qed.
Print Assumptions C04_fp3_full_converges_from_any_start.

Theorem C04_fp3_damping_only_strictly_decreases :
  forall (e1 delta : R) (p : Z -> R) (v n le m : Z) (r : Z -> R),
    hyp RF delta p n -> interior RF n r -> has_damp v = true -> has_diff v = false ->
    (0 < e1)%R -> (0 < S0 RF n r)%R -> (0 <= S2 RF p n r)%R ->
    (S2 RF p n (fp3_next RF e1 delta p v n le m r) < S2 RF p n r)%R.
Proof. exact damping_only_decreases. Qed.
Print Assumptions C04_fp3_damping_only_strictly_decreases.

Theorem C04_fp3_diffusion_only_strictly_increases :
  forall (e1 delta : R) (p : Z -> R) (v n le m : Z) (r : Z -> R),
    hyp RF delta p n -> interior RF n r -> has_damp v = false -> has_diff v = true ->
    (0 < e1)%R -> (0 < S0 RF n r)%R ->
    (S2 RF p n r < S2 RF p n (fp3_next RF e1 delta p v n le m r))%R.
Proof. exact diffusion_only_increases. Qed.
Print Assumptions C04_fp3_diffusion_only_strictly_increases.

(** C04.3 (algebra of the recurrence only): kick and drift leave J = t*Muu + a*t*Muv + a*Mvv invariant;
    one full step changes J by the damping and diffusion terms.  Hence: neither -> J' = J exactly;
    diffusion only -> J' = J + 2 a e1 M0 / delta^2; damping only -> J' = J - e1 (a t Muv' + 2 a Mvv') - a e1 M0
    (primes: after the drift). *)
Theorem C04_J_invariant_under_kick_and_drift :
  forall (K : Fld) (a t : K) (mm : mom2 K), sm_J a t (sm_drift a (sm_rf t mm)) = sm_J a t mm.
Proof. exact J_kick_drift. Qed.
Print Assumptions C04_J_invariant_under_kick_and_drift.

Theorem C04_J_step :
  forall (K : Fld) (v : Z) (a t e1 delta : K) (mm : mom2 K), delta <> f0 ->
    let m' := sm_drift a (sm_rf t mm) in
    sm_J a t (sm_step v a t e1 delta mm) =
    fadd (fsub (sm_J a t mm)
               (fmul (opt (has_damp v) e1) (fadd (fmul (fmul a t) (muv m')) (fmul (fmul two a) (mvv m')))))
         (fmul (fmul a (fsub (fdiv (fmul two (opt (has_diff v) e1)) (fmul delta delta)) (opt (has_damp v) e1))) (m0 mm)).
Proof. exact J_step. Qed.
Print Assumptions C04_J_step.

(** non-vacuity: a uniform axis over Qc, n = 12, an impulse four cells from the border: three steps stay interior *)
Example C04_example :
  hyp QcF (Q2Qc (1 # 2)) (fun j => (Qcz j * Q2Qc (1 # 2) - Q2Qc (11 # 4))%Qc) 12 /\
  supp (K:=QcF) (fun i => if i =? 6 then 1%Qc else 0%Qc) 6 7 /\ 2 + Z.of_nat 3 <= 6 /\ 7 <= 12 - 2 - Z.of_nat 3.
Proof.
  split; [split; [lia|split; [|discriminate]]|split; [|lia]].
  - intros j. qc_unf. rewrite <- Qcz_add. change (Qcz 1) with 1%Qc. ring.
  - intros i Hi. replace (i =? 6) with false by (symmetry; apply Z.eqb_neq; lia). reflexivity.
Qed.

(** *** (family scaling) the Fokker-Planck decrement main() hands to FokkerPlanckMap, over the definition GENERATED
    from main() on every run (Gen/Gen_Scaling.v: [gen_e1] is the expression that reaches the `e1` parameter of the
    FokkerPlanckMap constructor, inlined down to the options [L O_<getter>]).  For every field, interpretation [O] of
    the comparisons / sqrt and option values [L]; hypotheses such as [o_lt O 0 (L O_getDampingTime) = true] say which
    branch of main() is taken (DampingTime > 0). *)
From Inovesa Require Model.ScalingOps Gen.Gen_Scaling Proofs.ScalingE1P.
Module ScalingFamily.   (* imports and scopes stay local to this block *)
Import ScalingOps Gen_Scaling ScalingE1P.
Local Open Scope F_scope.

(** the property's anchor in the options themselves (synchrotron frequency given, StepsPerTs >= 1, StepsPerRevolution not
    given): e1 = 2/(SynchrotronFrequency * DampingTime * StepsPerTs) *)
Theorem C04_main_e1_in_options :
  forall (K : Fld) (O : Ops K) (L : leaf -> K) (B : bleaf -> bool),
    o_lt O (L O_getDampingTime) 0 = false -> o_lt O 0 (L O_getDampingTime) = true ->
    o_is0 O (L O_getSyncFreq) = false ->
    o_lt O 0 (L O_getStepsPerTrev) = false -> o_lt O (L O_getStepsPerTsync) 1 = false ->
    L O_getSyncFreq <> 0 -> L O_getStepsPerTsync <> 0 -> L O_getDampingTime <> 0 ->
    gen_e1 K O L B = two / (L O_getSyncFreq * L O_getDampingTime * L O_getStepsPerTsync).
Proof. exact e1_in_options. Qed.
Print Assumptions C04_main_e1_in_options.

(** with StepsPerRevolution steps per turn the number of steps per synchrotron period is StepsPerRevolution*f_rev/f_s *)
Theorem C04_main_e1_with_StepsPerRevolution :
  forall (K : Fld) (O : Ops K) (L : leaf -> K) (B : bleaf -> bool),
    o_lt O (L O_getDampingTime) 0 = false -> o_lt O 0 (L O_getDampingTime) = true ->
    o_is0 O (L O_getSyncFreq) = false -> o_lt O 0 (L O_getStepsPerTrev) = true ->
    L O_getSyncFreq <> 0 -> L O_getStepsPerTrev <> 0 -> L O_getRevolutionFrequency <> 0 -> L O_getDampingTime <> 0 ->
    gen_e1 K O L B = two / (L O_getSyncFreq * L O_getDampingTime * (L O_getStepsPerTrev * L O_getRevolutionFrequency / L O_getSyncFreq)) /\
    gen_e1 K O L B = two / (L O_getDampingTime * L O_getStepsPerTrev * L O_getRevolutionFrequency).
Proof. exact e1_with_StepsPerRevolution. Qed.
Print Assumptions C04_main_e1_with_StepsPerRevolution.

(** synchrotron frequency derived from alpha0: f_s = f_rev sqrt(alpha0 h V_eff/(2 pi E0)), V_eff being what main() also
    hands to the sinusoidal RF maps as their voltage *)
Theorem C04_main_e1_with_alpha0 :
  forall (K : Fld) (O : Ops K) (L : leaf -> K) (B : bleaf -> bool),
    o_lt O (L O_getDampingTime) 0 = false -> o_lt O 0 (L O_getDampingTime) = true ->
    o_is0 O (L O_getSyncFreq) = true ->
    o_lt O 0 (L O_getStepsPerTrev) = false -> o_lt O (L O_getStepsPerTsync) 1 = false ->
    let fs := L O_getRevolutionFrequency *
              o_sqrt O (L O_getAlpha0 * L O_getHarmonicNumber * gen_sinrf_V_RF K O L B / (L C_two_pi * L O_getBeamEnergy)) in
    fs <> 0 -> L O_getStepsPerTsync <> 0 -> L O_getDampingTime <> 0 ->
    gen_e1 K O L B = two / (fs * L O_getDampingTime * L O_getStepsPerTsync).
Proof. exact e1_with_alpha0. Qed.
Print Assumptions C04_main_e1_with_alpha0.

(** DampingTime = 0 switches the Fokker-Planck term off (main() then builds the Identity map) *)
Theorem C04_main_e1_off :
  forall (K : Fld) (O : Ops K) (L : leaf -> K) (B : bleaf -> bool),
    o_lt O (L O_getDampingTime) 0 = false -> o_lt O 0 (L O_getDampingTime) = false -> gen_e1 K O L B = 0.
Proof. exact e1_off. Qed.
Print Assumptions C04_main_e1_off.

(** non-vacuity over Qc: f_s = 8000, t_damp = 1/100, StepsPerTs = 50 -> e1 = 2/4000; the branch hypotheses hold *)
Example C04_main_e1_example :
  let L := fun l => match l with O_getSyncFreq => Q2Qc 8000 | O_getDampingTime => Q2Qc (1 # 100) | O_getStepsPerTsync => Q2Qc 50
                              | O_getStepsPerTrev => 0%Qc | _ => 1%Qc end in
  this (gen_e1 QcF QcOps L (fun _ => false)) = (1 # 2000)%Q /\
  o_lt QcOps (L O_getDampingTime) 0%Qc = false /\ o_lt QcOps 0%Qc (L O_getDampingTime) = true /\
  o_is0 QcOps (L O_getSyncFreq) = false.
Proof. vm_compute. repeat split; reflexivity. Qed.
End ScalingFamily.
