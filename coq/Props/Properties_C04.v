(** C04 - without impedance every start relaxes to the unit-width natural Gaussian.
    Energy-moment theorems for the 3-point Fokker-Planck step of Model/FokkerPlanck.v (stencil
    arithmetic regenerated from the constructor on every run), for every field, damping decrement,
    grid spacing, axis origin and every distribution with interior support; order statements over the
    reals; algebra of the second-moment recurrence of a full step (Model/Moments2.v).
    Only statements closed by [exact]; proofs in Proofs/FokkerPlanckP.v, SpreadP.v, SpreadR.v.

    Second wave (end of this file): the recurrence of Model/Moments2.v as a theorem about the grid model
    (RF kick, drift, 3-point FP), its fixed point, contraction and J per step.

    NOT carried by a theorem (explored by the check on the implementation only): contraction for overdamped
    settings (e1 > a), the 4-point stencil's moments, and the truncation at the grid border over histories
    longer than the distance of the support from the border (the closed forms hold as long as the support
    stays interior). *)
From Coq Require Import List ZArith QArith Qcanon Reals Lia.
From Inovesa Require Import Base.FieldKit Base.Float32 Base.RInst Base.Sums Gen.Gen_FPStencil
  Model.FokkerPlanck Model.Moments2 Proofs.FPGridP Proofs.FokkerPlanckP Proofs.FPMomentsP Proofs.SpreadP Proofs.SpreadR
  Gen.Gen_Coeffs Model.Kick Proofs.KickP Proofs.KickGridP.
Local Open Scope Z_scope.

(** C04.1: one step on one energy column: M0' = M0, M1' = (1-d) M1, M2' = (1-2d) M2 + (2f - d delta^2) M0
    with d = e1 if the variant damps (else 0), f = e1 if it diffuses (else 0); i.e.
    full: (1-2e1) M2 + e1 (2 - delta^2) M0; damping only: (1-2e1) M2 - e1 delta^2 M0;
    diffusion only: M2 + 2 e1 M0; none: M2. *)
Theorem C04_fp3_moments :
  forall (K : Fld) (e1 delta : K) (p : Z -> K) (v n le m : Z) (r : Z -> K),
    hyp K delta p n -> interior K n r ->
    S0 K n (fp3_next K e1 delta p v n le m r) = S0 K n r /\
    S1 K p n (fp3_next K e1 delta p v n le m r) = fmul (fsub f1 (opt (has_damp v) e1)) (S1 K p n r) /\
    S2 K p n (fp3_next K e1 delta p v n le m r) =
      fadd (fmul (fsub f1 (fmul two (opt (has_damp v) e1))) (S2 K p n r))
           (fmul (fsub (fmul two (opt (has_diff v) e1)) (fmul (opt (has_damp v) e1) (fmul delta delta))) (S0 K n r)).
Proof. exact next_moments. Qed.
Print Assumptions C04_fp3_moments.

(** the four variants by name (computed from the generated enum values) *)
Example C04_variants : (has_damp fpt_full, has_diff fpt_full) = (true, true) /\
                       (has_damp fpt_damping_only, has_diff fpt_damping_only) = (true, false) /\
                       (has_damp fpt_diffusion_only, has_diff fpt_diffusion_only) = (false, true) /\
                       (has_damp fpt_none, has_diff fpt_none) = (false, false).
Proof. repeat split. Qed.

(** k steps: charge constant, first moment (1-d)^k *)
Theorem C04_fp3_iter_moments01 :
  forall (K : Fld) (e1 delta : K) (p : Z -> K) (v n le m : Z) (k : nat),
    hyp K delta p n -> forall r : Z -> K,
    (forall j, (j < k)%nat -> interior K n (fp3_iter K e1 delta p v n le m j r)) ->
    S0 K n (fp3_iter K e1 delta p v n le m k r) = S0 K n r /\
    S1 K p n (fp3_iter K e1 delta p v n le m k r) = fmul (kpow K (fsub f1 (opt (has_damp v) e1)) k) (S1 K p n r).
Proof. exact iter_moments01. Qed.
Print Assumptions C04_fp3_iter_moments01.

(** C04.2: closed form by induction over steps: with damping the distance of M2 to sigma_inf*M0
    (sigma_inf = 1 - delta^2/2 for the full step, -delta^2/2 for damping only) is multiplied by
    (1-2e1) per step, from any start, independent of the shape of the distribution *)
Theorem C04_fp3_spread_closed_form :
  forall (K : Fld) (e1 delta : K) (p : Z -> K) (v n le m : Z) (k : nat),
    hyp K delta p n -> has_damp v = true -> forall r : Z -> K,
    (forall j, (j < k)%nat -> interior K n (fp3_iter K e1 delta p v n le m j r)) ->
    fsub (S2 K p n (fp3_iter K e1 delta p v n le m k r)) (fmul (sigma_inf K delta v) (S0 K n r)) =
    fmul (kpow K (fsub f1 (fmul two e1)) k) (fsub (S2 K p n r) (fmul (sigma_inf K delta v) (S0 K n r))).
Proof. exact spread_closed_form. Qed.
Print Assumptions C04_fp3_spread_closed_form.

(** without damping: M2 grows by 2 e1 M0 per step (diffusion only) or stays put (none: f = 0) *)
Theorem C04_fp3_spread_without_damping :
  forall (K : Fld) (e1 delta : K) (p : Z -> K) (v n le m : Z) (k : nat),
    hyp K delta p n -> has_damp v = false -> forall r : Z -> K,
    (forall j, (j < k)%nat -> interior K n (fp3_iter K e1 delta p v n le m j r)) ->
    S2 K p n (fp3_iter K e1 delta p v n le m k r) =
    fadd (S2 K p n r) (fmul (fmul (knat K k) (fmul two (opt (has_diff v) e1))) (S0 K n r)).
Proof. exact spread_no_damping. Qed.
Print Assumptions C04_fp3_spread_without_damping.

(** the support hypothesis of k steps is implied by an initial support k cells clear of rows 2 and n-3 *)
Theorem C04_fp3_support_spreads_one_cell_per_step :
  forall (K : Fld) (e1 delta : K) (p : Z -> K) (v n le m : Z) (k : nat),
    hyp K delta p n -> forall (r : Z -> K) a b,
    2 + Z.of_nat k <= a -> b <= n - 2 - Z.of_nat k -> supp r a b ->
    forall j, (j <= k)%nat -> interior K n (fp3_iter K e1 delta p v n le m j r).
Proof. exact iter_interior. Qed.
Print Assumptions C04_fp3_support_spreads_one_cell_per_step.

(** order statements over the reals, 0 < e1 < 1/2 (the explicit scheme's stable range) *)
Theorem C04_fp3_full_monotone_from_either_side :
  forall (e1 delta : R) (p : Z -> R) (v n le m : Z) (r : Z -> R),
    hyp RF delta p n -> interior RF n r -> has_damp v = true -> (0 < e1 < 1 / 2)%R ->
    ((0 < dist delta p v n r)%R ->
       (0 < dist delta p v n (fp3_next RF e1 delta p v n le m r) < dist delta p v n r)%R) /\
    ((dist delta p v n r < 0)%R ->
       (dist delta p v n r < dist delta p v n (fp3_next RF e1 delta p v n le m r) < 0)%R) /\
    (dist delta p v n r = 0%R -> dist delta p v n (fp3_next RF e1 delta p v n le m r) = 0%R).
Proof. exact full_monotone. Qed.
Print Assumptions C04_fp3_full_monotone_from_either_side.

Theorem C04_fp3_full_converges_from_any_start :
  forall (e1 delta : R) (p : Z -> R) (v n le m : Z),
    hyp RF delta p n -> has_damp v = true -> (0 < e1 < 1 / 2)%R ->
    forall eps : R, (0 < eps)%R -> exists N : nat, forall (k : nat) (r : Z -> R), (k >= N)%nat ->
      (forall j, (j < k)%nat -> interior RF n (fp3_iter RF e1 delta p v n le m j r)) ->
      (Rabs (dist delta p v n (fp3_iter RF e1 delta p v n le m k r)) <= eps * Rabs (dist delta p v n r))%R.
Proof. exact full_converges. Qed.
Print Assumptions C04_fp3_full_converges_from_any_start.

Theorem C04_fp3_damping_only_strictly_decreases :
  forall (e1 delta : R) (p : Z -> R) (v n le m : Z) (r : Z -> R),
    hyp RF delta p n -> interior RF n r -> has_damp v = true -> has_diff v = false ->
    (0 < e1)%R -> (0 < S0 RF n r)%R -> (0 <= S2 RF p n r)%R ->
    (S2 RF p n (fp3_next RF e1 delta p v n le m r) < S2 RF p n r)%R.
Proof. exact damping_only_decreases. Qed.
Print Assumptions C04_fp3_damping_only_strictly_decreases.

Theorem C04_fp3_diffusion_only_strictly_increases :
  forall (e1 delta : R) (p : Z -> R) (v n le m : Z) (r : Z -> R),
    hyp RF delta p n -> interior RF n r -> has_damp v = false -> has_diff v = true ->
    (0 < e1)%R -> (0 < S0 RF n r)%R ->
    (S2 RF p n r < S2 RF p n (fp3_next RF e1 delta p v n le m r))%R.
Proof. exact diffusion_only_increases. Qed.
Print Assumptions C04_fp3_diffusion_only_strictly_increases.

(** C04.3 (algebra of the recurrence only): kick and drift leave J = t*Muu + a*t*Muv + a*Mvv invariant;
    one full step changes J by the damping and diffusion terms.  Hence: neither -> J' = J exactly;
    diffusion only -> J' = J + 2 a e1 M0 / delta^2; damping only -> J' = J - e1 (a t Muv' + 2 a Mvv') - a e1 M0
    (primes: after the drift). *)
Theorem C04_J_invariant_under_kick_and_drift :
  forall (K : Fld) (a t : K) (mm : mom2 K), sm_J a t (sm_drift a (sm_rf t mm)) = sm_J a t mm.
Proof. exact J_kick_drift. Qed.
Print Assumptions C04_J_invariant_under_kick_and_drift.

Theorem C04_J_step :
  forall (K : Fld) (v : Z) (a t e1 delta : K) (mm : mom2 K), delta <> f0 ->
    let m' := sm_drift a (sm_rf t mm) in
    sm_J a t (sm_step v a t e1 delta mm) =
    fadd (fsub (sm_J a t mm)
               (fmul (opt (has_damp v) e1) (fadd (fmul (fmul a t) (muv m')) (fmul (fmul two a) (mvv m')))))
         (fmul (fmul a (fsub (fdiv (fmul two (opt (has_diff v) e1)) (fmul delta delta)) (opt (has_damp v) e1))) (m0 mm)).
Proof. exact J_step. Qed.
Print Assumptions C04_J_step.

(** non-vacuity: a uniform axis over Qc, n = 12, an impulse four cells from the border: three steps stay interior *)
Example C04_example :
  hyp QcF (Q2Qc (1 # 2)) (fun j => (Qcz j * Q2Qc (1 # 2) - Q2Qc (11 # 4))%Qc) 12 /\
  supp (K:=QcF) (fun i => if i =? 6 then 1%Qc else 0%Qc) 6 7 /\ 2 + Z.of_nat 3 <= 6 /\ 7 <= 12 - 2 - Z.of_nat 3.
Proof.
  split; [split; [lia|split; [|discriminate]]|split; [|lia]].
  - intros j. qc_unf. rewrite <- Qcz_add. change (Qcz 1) with 1%Qc. ring.
  - intros i Hi. replace (i =? 6) with false by (symmetry; apply Z.eqb_neq; lia). reflexivity.
Qed.

(** *** (family scaling) the Fokker-Planck decrement main() hands to FokkerPlanckMap, over the definition GENERATED
    from main() on every run (Gen/Gen_Scaling.v: [gen_e1] is the expression that reaches the `e1` parameter of the
    FokkerPlanckMap constructor, inlined down to the options [L O_<getter>]).  For every field, interpretation [O] of
    the comparisons / sqrt and option values [L]; hypotheses such as [o_lt O 0 (L O_getDampingTime) = true] say which
    branch of main() is taken (DampingTime > 0). *)
From Inovesa Require Model.ScalingOps Gen.Gen_Scaling Proofs.ScalingE1P.
Module ScalingFamily.   (* imports and scopes stay local to this block *)
Import ScalingOps Gen_Scaling ScalingE1P.
Local Open Scope F_scope.

(** the property's anchor in the options themselves (synchrotron frequency given, StepsPerTs >= 1, StepsPerRevolution not
    given): e1 = 2/(SynchrotronFrequency * DampingTime * StepsPerTs) *)
Theorem C04_main_e1_in_options :
  forall (K : Fld) (O : Ops K) (L : leaf -> K) (B : bleaf -> bool),
    o_lt O (L O_getDampingTime) 0 = false -> o_lt O 0 (L O_getDampingTime) = true ->
    o_is0 O (L O_getSyncFreq) = false ->
    o_lt O 0 (L O_getStepsPerTrev) = false -> o_lt O (L O_getStepsPerTsync) 1 = false ->
    L O_getSyncFreq <> 0 -> L O_getStepsPerTsync <> 0 -> L O_getDampingTime <> 0 ->
    gen_e1 K O L B = two / (L O_getSyncFreq * L O_getDampingTime * L O_getStepsPerTsync).
Proof. exact e1_in_options. Qed.
Print Assumptions C04_main_e1_in_options.

(** with StepsPerRevolution steps per turn the number of steps per synchrotron period is StepsPerRevolution*f_rev/f_s *)
Theorem C04_main_e1_with_StepsPerRevolution :
  forall (K : Fld) (O : Ops K) (L : leaf -> K) (B : bleaf -> bool),
    o_lt O (L O_getDampingTime) 0 = false -> o_lt O 0 (L O_getDampingTime) = true ->
    o_is0 O (L O_getSyncFreq) = false -> o_lt O 0 (L O_getStepsPerTrev) = true ->
    L O_getSyncFreq <> 0 -> L O_getStepsPerTrev <> 0 -> L O_getRevolutionFrequency <> 0 -> L O_getDampingTime <> 0 ->
    gen_e1 K O L B = two / (L O_getSyncFreq * L O_getDampingTime * (L O_getStepsPerTrev * L O_getRevolutionFrequency / L O_getSyncFreq)) /\
    gen_e1 K O L B = two / (L O_getDampingTime * L O_getStepsPerTrev * L O_getRevolutionFrequency).
Proof. exact e1_with_StepsPerRevolution. Qed.
Print Assumptions C04_main_e1_with_StepsPerRevolution.

(** synchrotron frequency derived from alpha0: f_s = f_rev sqrt(alpha0 h V_eff/(2 pi E0)), V_eff being what main() also
    hands to the sinusoidal RF maps as their voltage *)
Theorem C04_main_e1_with_alpha0 :
  forall (K : Fld) (O : Ops K) (L : leaf -> K) (B : bleaf -> bool),
    o_lt O (L O_getDampingTime) 0 = false -> o_lt O 0 (L O_getDampingTime) = true ->
    o_is0 O (L O_getSyncFreq) = true ->
    o_lt O 0 (L O_getStepsPerTrev) = false -> o_lt O (L O_getStepsPerTsync) 1 = false ->
    let fs := L O_getRevolutionFrequency *
              o_sqrt O (L O_getAlpha0 * L O_getHarmonicNumber * gen_sinrf_V_RF K O L B / (L C_two_pi * L O_getBeamEnergy)) in
    fs <> 0 -> L O_getStepsPerTsync <> 0 -> L O_getDampingTime <> 0 ->
    gen_e1 K O L B = two / (fs * L O_getDampingTime * L O_getStepsPerTsync).
Proof. exact e1_with_alpha0. Qed.
Print Assumptions C04_main_e1_with_alpha0.

(** DampingTime = 0 switches the Fokker-Planck term off (main() then builds the Identity map) *)
Theorem C04_main_e1_off :
  forall (K : Fld) (O : Ops K) (L : leaf -> K) (B : bleaf -> bool),
    o_lt O (L O_getDampingTime) 0 = false -> o_lt O 0 (L O_getDampingTime) = false -> gen_e1 K O L B = 0.
Proof. exact e1_off. Qed.
Print Assumptions C04_main_e1_off.

(** non-vacuity over Qc: f_s = 8000, t_damp = 1/100, StepsPerTs = 50 -> e1 = 2/4000; the branch hypotheses hold *)
Example C04_main_e1_example :
  let L := fun l => match l with O_getSyncFreq => Q2Qc 8000 | O_getDampingTime => Q2Qc (1 # 100) | O_getStepsPerTsync => Q2Qc 50
                              | O_getStepsPerTrev => 0%Qc | _ => 1%Qc end in
  this (gen_e1 QcF QcOps L (fun _ => false)) = (1 # 2000)%Q /\
  o_lt QcOps (L O_getDampingTime) 0%Qc = false /\ o_lt QcOps 0%Qc (L O_getDampingTime) = true /\
  o_is0 QcOps (L O_getSyncFreq) = false.
Proof. vm_compute. repeat split; reflexivity. Qed.
End ScalingFamily.
(** ------------------------------------------------------------------------------------------------
    Second wave: the coupled dynamics of a FULL step (RF kick v += t u, drift u -= a v, 3-point
    Fokker-Planck) - the recurrence as a theorem about the grid model, its fixed point, contraction,
    and J per step.  Proofs in Proofs/Moment2RowP.v, StepMoments2P.v, StepExampleP.v (grid, exact
    rationals), CoupledP.v (every field), CoupledR.v (reals).

    The moments are the raw second moments about the zero bins, in cells:
      Muu = sum (x-xc)^2 f, Muv = sum (x-xc)(y-yc) f, Mvv = sum (y-yc)^2 f, M0 = sum f;
    these (not the moments about the moving centroid) obey a closed recurrence.
    ------------------------------------------------------------------------------------------------ *)
From Inovesa Require Import Model.RF Model.Moments2Fix Proofs.WeightsP Proofs.RFP Proofs.RFGridP Proofs.Moment2RowP
  Proofs.StepMoments2P Proofs.RFExampleP Proofs.StepExampleP Proofs.CoupledP Proofs.CoupledR Proofs.CoupledGridR Proofs.FPStabilityP.
Import ListNotations.

(** C04.3a, one kick row: the centred second moment moves exactly by the displacement the table row encodes,
    plus [kappa it f] per unit of charge, [f] = fractional part of the float sum n/2 + offset:
    kappa = f(1-f) for linear interpolation (it = 2), 0 for it >= 3. *)
Theorem C04_row_second_moment_transport :
  forall n it o (r : Z -> Qc) (c : Qc),
    valid_it it -> 2 <= it -> 0 < n < 2 ^ 30 -> row_ok n it o r ->
    sumQ 0 (Z.to_nat n) (fun y => ((qz y - c) * (qz y - c) * row_out n it (sm_entry n it o) r y)%Qc) =
    sumQ 0 (Z.to_nat n) (fun u => (((qz u - eff_off n o - c) * (qz u - eff_off n o - c)
                                    + kapQ it (sp_frac (poffs_split n o))) * r u)%Qc).
Proof. exact sm_row_second_moment_c. Qed.
Print Assumptions C04_row_second_moment_transport.

Theorem C04_interpolation_variance_inflation :
  (forall it (f : Qc), 3 <= it -> kapQ it f = 0%Qc) /\
  (forall (f : Qc), kapQ 2 f = (f * (1 - f))%Qc) /\
  (forall it (f : Qc), (0 <= f)%Qc -> (f <= 1)%Qc -> (0 <= kapQ it f)%Qc /\ (kapQ it f <= Q2Qc (1 # 4))%Qc).
Proof. split; [exact kappa_ge3 | split; [reflexivity | exact kappa_bounds]]. Qed.
Print Assumptions C04_interpolation_variance_inflation.

(** C04.3b, lifted to the grid, any bunch b of an nb-bunch grid, it >= 2: the RF kick ... *)
Theorem C04_rf_kick_second_moments :
  forall n nb it, valid_it it -> 2 <= it -> 0 < n < 2 ^ 30 -> 0 < nb ->
  forall (xc yc : Qc) (offs D : Z -> Qc) (t : Qc) b,
    0 <= b < nb -> rows_ok_y n nb it offs D b ->
    (forall x, 0 <= x < n -> eff_off n (offs (Z.min b (nb - 1) * n + x)) = (t * (xc - qz x))%Qc) ->
    let D' := apply_y n nb it (updateSM n it offs) D in
    MUU n xc D' b = MUU n xc D b /\
    MUV n xc yc D' b = (MUV n xc yc D b + t * MUU n xc D b)%Qc /\
    MVV n yc D' b = (MVV n yc D b + (1 + 1) * t * MUV n xc yc D b + t * t * MUU n xc D b
                     + infl_y n nb it offs D b)%Qc.
Proof. exact rf_kick_moments2. Qed.
Print Assumptions C04_rf_kick_second_moments.

(** ... the drift ... *)
Theorem C04_drift_second_moments :
  forall n nb it, valid_it it -> 2 <= it -> 0 < n < 2 ^ 30 -> 0 < nb ->
  forall (xc yc : Qc) (offs D : Z -> Qc) (a : Qc) b,
    0 <= b < nb -> cols_ok_x n it offs D b ->
    (forall y, 0 <= y < n -> eff_off n (offs y) = (a * (qz y - yc))%Qc) ->
    let D' := apply_x n nb it (updateSM n it offs) D in
    MUU n xc D' b = (MUU n xc D b - (1 + 1) * a * MUV n xc yc D b + a * a * MVV n yc D b
                     + infl_x n it offs D b)%Qc /\
    MUV n xc yc D' b = (MUV n xc yc D b - a * MVV n yc D b)%Qc /\
    MVV n yc D' b = MVV n yc D b.
Proof. exact drift_kick_moments2. Qed.
Print Assumptions C04_drift_second_moments.

(** ... and the 3-point Fokker-Planck step on every energy column of the bunch (energy axis delta*(y - yc));
    its M0 part is charge conservation of FokkerPlanckMap::apply on a whole bunch with realistic support *)
Theorem C04_fp_grid_second_moments :
  forall n (e1 delta : Qc) (p : Z -> Qc) (v le m : Z), 2 <= n < 2 ^ 30 ->
  forall (xc yc : Qc), (forall j, p j = (delta * (qz j - yc))%Qc) -> delta <> 0%Qc ->
  forall (D : Z -> Qc) b, fp_ok n D b ->
    let dd := opt (K:=QcF) (has_damp v) e1 in
    let ff := opt (K:=QcF) (has_diff v) e1 in
    M0 n (fp_grid n e1 delta p v le m D) b = M0 n D b /\
    MUU n xc (fp_grid n e1 delta p v le m D) b = MUU n xc D b /\
    MUV n xc yc (fp_grid n e1 delta p v le m D) b = ((1 - dd) * MUV n xc yc D b)%Qc /\
    MVV n yc (fp_grid n e1 delta p v le m D) b =
      ((1 - (1 + 1) * dd) * MVV n yc D b + ((1 + 1) * ff / (delta * delta) - dd) * M0 n D b)%Qc.
Proof. exact fp_grid_moments2. Qed.
Print Assumptions C04_fp_grid_second_moments.

(** C04.3c, ONE FULL STEP (RFKickMap::apply, DriftMap::apply, FokkerPlanckMap::apply, 3-point stencil):
    with at least three interpolation points the vector (Muu, Muv, Mvv, M0) moves exactly by [sm_step] -
    the function the correspondence iterates ([smq_step] is its list front-end in the extracted driver) -
    for every bunch, data (signed included), grid size and zero bins, while the distribution stays inside. *)
Theorem C04_full_step_second_moments :
  forall n nb it, valid_it it -> 2 <= it -> 2 <= n < 2 ^ 30 -> 0 < nb ->
  forall (xc yc t a : Qc) (orf odr : Z -> Qc) (e1 delta : Qc) (p : Z -> Qc) (v le m : Z),
    (forall b x, 0 <= b < nb -> 0 <= x < n ->
        eff_off n (orf (Z.min b (nb - 1) * n + x)) = (t * (xc - qz x))%Qc) ->
    (forall y, 0 <= y < n -> eff_off n (odr y) = (a * (qz y - yc))%Qc) ->
    (forall j, p j = (delta * (qz j - yc))%Qc) -> delta <> 0%Qc ->
  forall D b, 3 <= it -> 0 <= b < nb -> full_ok n nb it orf odr D b ->
    gm2 n xc yc (full_step n nb it orf odr e1 delta p v le m D) b =
    sm_step (K:=QcF) v a t e1 delta (gm2 n xc yc D b).
Proof. exact full_step_moments. Qed.
Print Assumptions C04_full_step_second_moments.

Theorem C04_full_step_is_smq_step :
  forall n nb it, valid_it it -> 2 <= it -> 2 <= n < 2 ^ 30 -> 0 < nb ->
  forall (xc yc t a : Qc) (orf odr : Z -> Qc) (e1 delta : Qc) (p : Z -> Qc) (v le m : Z),
    (forall b x, 0 <= b < nb -> 0 <= x < n ->
        eff_off n (orf (Z.min b (nb - 1) * n + x)) = (t * (xc - qz x))%Qc) ->
    (forall y, 0 <= y < n -> eff_off n (odr y) = (a * (qz y - yc))%Qc) ->
    (forall j, p j = (delta * (qz j - yc))%Qc) -> delta <> 0%Qc ->
  forall D b, 3 <= it -> 0 <= b < nb -> full_ok n nb it orf odr D b ->
    gm2_list n xc yc (full_step n nb it orf odr e1 delta p v le m D) b =
    smq_step v a t e1 delta (gm2_list n xc yc D b).
Proof. exact full_step_moments_list. Qed.
Print Assumptions C04_full_step_is_smq_step.

(** k steps: the recurrence iterated *)
Theorem C04_iterated_steps_second_moments :
  forall n nb it, valid_it it -> 2 <= it -> 2 <= n < 2 ^ 30 -> 0 < nb ->
  forall (xc yc t a : Qc) (orf odr : Z -> Qc) (e1 delta : Qc) (p : Z -> Qc) (v le m : Z),
    (forall b x, 0 <= b < nb -> 0 <= x < n ->
        eff_off n (orf (Z.min b (nb - 1) * n + x)) = (t * (xc - qz x))%Qc) ->
    (forall y, 0 <= y < n -> eff_off n (odr y) = (a * (qz y - yc))%Qc) ->
    (forall j, p j = (delta * (qz j - yc))%Qc) -> delta <> 0%Qc ->
  forall D b (k : nat), 3 <= it -> 0 <= b < nb ->
    (forall j, (j < k)%nat -> full_ok n nb it orf odr (iter_full n nb it orf odr e1 delta p v le m j D) b) ->
    gm2 n xc yc (iter_full n nb it orf odr e1 delta p v le m k D) b =
    sm_iter (K:=QcF) k v a t e1 delta (gm2 n xc yc D b).
Proof. exact iter_full_moments. Qed.
Print Assumptions C04_iterated_steps_second_moments.

(** every interpolation type with at least two points: the exact law, with the variance the two kicks add
    (Nrf, Ndr: sums over rows / columns of kappa * charge; zero from it = 3 on) ... *)
Theorem C04_full_step_second_moments_any_interpolation :
  forall n nb it, valid_it it -> 2 <= it -> 2 <= n < 2 ^ 30 -> 0 < nb ->
  forall (xc yc t a : Qc) (orf odr : Z -> Qc) (e1 delta : Qc) (p : Z -> Qc) (v le m : Z),
    (forall b x, 0 <= b < nb -> 0 <= x < n ->
        eff_off n (orf (Z.min b (nb - 1) * n + x)) = (t * (xc - qz x))%Qc) ->
    (forall y, 0 <= y < n -> eff_off n (odr y) = (a * (qz y - yc))%Qc) ->
    (forall j, p j = (delta * (qz j - yc))%Qc) -> delta <> 0%Qc ->
  forall D b, 0 <= b < nb -> full_ok n nb it orf odr D b ->
    gm2 n xc yc (full_step n nb it orf odr e1 delta p v le m D) b =
    sm_fp (K:=QcF) v e1 delta
      (bump_uu (infl_x n it odr (rf_apply n nb it orf D) b)
         (sm_drift (K:=QcF) a (bump_vv (infl_y n nb it orf D b) (sm_rf (K:=QcF) t (gm2 n xc yc D b))))).
Proof. exact full_step_moments_general. Qed.
Print Assumptions C04_full_step_second_moments_any_interpolation.

(** ... for linear interpolation as a correction of [sm_step], and the size of the correction for
    non-negative data: between 0 and a quarter of the charge (a discretisation error the property allows) *)
Theorem C04_linear_interpolation_numerical_diffusion :
  forall n nb it, valid_it it -> 2 <= it -> 2 <= n < 2 ^ 30 -> 0 < nb ->
  forall (xc yc t a : Qc) (orf odr : Z -> Qc) (e1 delta : Qc) (p : Z -> Qc) (v le m : Z),
    (forall b x, 0 <= b < nb -> 0 <= x < n ->
        eff_off n (orf (Z.min b (nb - 1) * n + x)) = (t * (xc - qz x))%Qc) ->
    (forall y, 0 <= y < n -> eff_off n (odr y) = (a * (qz y - yc))%Qc) ->
    (forall j, p j = (delta * (qz j - yc))%Qc) -> delta <> 0%Qc ->
  forall D b, it = 2 -> 0 <= b < nb -> full_ok n nb it orf odr D b ->
    let Nrf := infl_y n nb it orf D b in
    let Ndr := infl_x n it odr (rf_apply n nb it orf D) b in
    let s := sm_step (K:=QcF) v a t e1 delta (gm2 n xc yc D b) in
    let dd := opt (K:=QcF) (has_damp v) e1 in
    gm2 n xc yc (full_step n nb it orf odr e1 delta p v le m D) b =
    mkMom2 (K:=QcF) (muu s + (Ndr + a * a * Nrf))%Qc (muv s - (1 - dd) * a * Nrf)%Qc
                    (mvv s + (1 - (1 + 1) * dd) * Nrf)%Qc (m0 s).
Proof. exact full_step_moments_linear. Qed.
Print Assumptions C04_linear_interpolation_numerical_diffusion.

Theorem C04_numerical_diffusion_bounds :
  forall n nb it (offs G : Z -> Qc) b,
    (forall x, 0 <= x < n -> (0 <= sp_frac (poffs_split n (offs (Z.min b (nb - 1) * n + x)%Z)) <= 1)%Qc) ->
    (forall x, 0 <= x < n -> (0 <= A0 n G b x)%Qc) ->
    (0 <= infl_y n nb it offs G b)%Qc /\ (infl_y n nb it offs G b <= Q2Qc (1 # 4) * M0 n G b)%Qc.
Proof. exact infl_y_bounds. Qed.
Print Assumptions C04_numerical_diffusion_bounds.

(** non-vacuity: an 8 x 8 grid, quadratic interpolation, meeting every hypothesis of the full-step theorem;
    the two sides evaluated by the kernel on the grid model and on the recurrence *)
Example C04_full_step_example :
  full_ok 8 1 3 ex_orf ex_odr ex_D2 0 /\
  gm2_list 8 ex_c ex_c (full_step 8 1 3 ex_orf ex_odr ex_e1 ex_delta ex_p fpt_full 0 0 ex_D2) 0 =
  smq_step fpt_full ex_a ex_t ex_e1 ex_delta (gm2_list 8 ex_c ex_c ex_D2 0) /\
  map this (gm2_list 8 ex_c ex_c ex_D2 0) = [3 # 4; -1 # 4; 3 # 4; 3 # 1]%Q.
Proof. split; [exact ex_full_ok | split; [exact ex_full_step | vm_compute; reflexivity]]. Qed.

(** C04.4 the fixed point of the recurrence, every field: with damping, c = 2 f/delta^2 - e1 and
    R = 2 c / (e1 (4 - a t)):  Muu = a R (2 - e1)/(2 t), Muv = -(1 - e1) a R / 2, Mvv = R (1 - e1 a t/2)
    per unit charge.  (i) it is a fixed point for every charge z: once there the moments stay constant ... *)
Theorem C04_fixed_point :
  forall (K : Fld) (v : Z) (a t e1 delta : K),
    has_damp v = true -> t <> f0 -> e1 <> f0 -> fsub four (fmul a t) <> f0 -> delta <> f0 ->
    forall z : K, sm_step v a t e1 delta (sm_fix v a t e1 delta z) = sm_fix v a t e1 delta z.
Proof. exact sm_fix_fixed. Qed.
Print Assumptions C04_fixed_point.

(** ... (ii) and it is the only one: equilibrium does not depend on the start *)
Theorem C04_fixed_point_unique :
  forall (K : Fld) (v : Z) (a t e1 delta : K),
    has_damp v = true -> t <> f0 -> e1 <> f0 -> fsub four (fmul a t) <> f0 -> delta <> f0 -> a <> f0 ->
    forall m : mom2 K, sm_step v a t e1 delta m = m -> m = sm_fix v a t e1 delta (m0 m).
Proof. exact sm_fix_unique. Qed.
Print Assumptions C04_fixed_point_unique.

(** in natural units (times delta^2), damping and diffusion:
    energy spread^2 = (2 - delta^2)(2 - e1 a t)/(4 - a t) = (1 - delta^2/2)(1 - e1 a t/2)/(1 - a t/4),
    bunch length^2  = a (2 - delta^2)(2 - e1)/(t (4 - a t)) = (a/t)(1 - e1/2)(1 - delta^2/2)/(1 - a t/4) *)
Theorem C04_fixed_point_natural_units :
  forall (K : Fld) (v : Z) (a t e1 delta : K),
    t <> f0 -> e1 <> f0 -> fsub four (fmul a t) <> f0 -> delta <> f0 -> has_diff v = true ->
    fmul (fmul delta delta) (fix_vv v a t e1 delta) =
      fdiv (fmul (fsub two (fmul delta delta)) (fsub two (fmul (fmul e1 a) t))) (fsub four (fmul a t)) /\
    fmul (fmul delta delta) (fix_uu v a t e1 delta) =
      fdiv (fmul (fmul a (fsub two (fmul delta delta))) (fsub two e1)) (fmul t (fsub four (fmul a t))).
Proof. exact fix_natural_units. Qed.
Print Assumptions C04_fixed_point_natural_units.

(** a = 1/10, t = 1003/10000, e1 = 3/100, delta = 7/32: the fixed point per unit charge (in cells^2), and in
    natural units 0.96097 (bunch length^2) and 0.97838 (energy spread^2) *)
Example C04_fixed_point_example :
  let fx := smq_fix fpt_full (Q2Qc (1 # 10)) (Q2Qc (1003 # 10000)) (Q2Qc (3 # 100)) (Q2Qc (7 # 32)) in
  map this fx = [393803000000 # 19609505559; -19390300 # 19550853; 5710569287 # 279297900]%Q /\
  map (fun q => this (Q2Qc (49 # 1024) * q)%Qc) fx =
    [6153171875 # 6403103856; -4847575 # 102143232; 39973985009 # 40857292800]%Q.
Proof. vm_compute. split; reflexivity. Qed.

Local Open Scope R_scope.
(** (iii) "to within the discretisation error": on the documented domain (0 < a <= 1/10, a <= t <= a + a^3
    - t = tan a lies there -, 0 < e1 <= 1/10, 0 < delta <= 1/2) both equilibrium spreads are 1 up to
    delta^2/2 (grid) + e1/2 (where in the step the moments are read) + a^2 (splitting);
    [spread_p2], [spread_q2] are delta^2 times [fix_vv], [fix_uu], the fixed point of C04_fixed_point (has_damp v) *)
Theorem C04_fixed_point_unit_width :
  forall (v : Z) (a t e delta : R), has_diff v = true -> dom_doc a t e delta ->
    1 - delta * delta / 2 <= spread_p2 v a t e delta <= 1 + a * a /\
    1 - delta * delta / 2 - e / 2 - a * a <= spread_q2 v a t e delta <= 1 + a * a.
Proof. exact fixed_point_unit_width. Qed.
Print Assumptions C04_fixed_point_unit_width.

Theorem C04_fixed_point_within_discretisation_error :
  forall (v : Z) (a t e delta : R), has_diff v = true -> dom_doc a t e delta -> e <= a ->
    Rabs (spread_p2 v a t e delta - 1) <= delta * delta + a /\
    Rabs (spread_q2 v a t e delta - 1) <= delta * delta + a.
Proof. exact fixed_point_within_discretisation. Qed.
Print Assumptions C04_fixed_point_within_discretisation_error.

Example C04_dom_doc_example : dom_doc (1 / 10) (1003 / 10000) (3 / 100) (7 / 32) /\ dom_ud (1 / 10) (1003 / 10000) (3 / 100).
Proof. exact dom_example. Qed.

(** (iv) contraction.  N(x,y,z) = (g1 x + 2 g12 y + g2 z)^2 - 2 DG (x z - y^2) with g1 = (1-e) t, g12 = (a t - e)/2,
    g2 = a, DG = g1 g2 - g12^2 is a positive definite quadratic form whenever DG > 0 (underdamped), and one step
    of the linear part of the recurrence (kick, drift, FP on a zero-charge vector) shrinks it by rho^2,
    rho = (1-e) + e^2 g1 g2/((1-e) DG) ... *)
Theorem C04_coupled_contraction_one_step :
  forall a t e x y z : R, 0 < e < 1 -> 0 < a -> 0 < t -> 0 < DG (K:=RF) a t e ->
    NN (K:=RF) a t e (Pk (K:=RF) a t x y z) ((1 - e) * Qk (K:=RF) a t x y z) ((1 - (1 + 1) * e) * Rk (K:=RF) t x y z)
    <= rho (K:=RF) a t e * rho (K:=RF) a t e * NN (K:=RF) a t e x y z.
Proof. exact contraction_step. Qed.
Print Assumptions C04_coupled_contraction_one_step.

Theorem C04_norm_is_definite :
  forall a t e x y z : R, 0 < DG (K:=RF) a t e -> 0 < g1 (K:=RF) t e ->
    0 <= NN (K:=RF) a t e x y z /\ (NN (K:=RF) a t e x y z = 0 -> x = 0 /\ y = 0 /\ z = 0).
Proof. intros a t e x y z HD Hg. split; [exact (N_nonneg a t e x y z HD Hg) | exact (N_zero a t e x y z HD Hg)]. Qed.
Print Assumptions C04_norm_is_definite.

(** ... on the underdamped domain (0 < e <= 1/10, e <= a <= t, a t <= 1): DG >= 13/20 a t and rho <= 1 - 4e/5 *)
Theorem C04_contraction_factor_on_domain :
  forall a t e : R, dom_ud a t e ->
    (13 / 20 * (a * t) <= DG (K:=RF) a t e /\ 0 < DG (K:=RF) a t e) /\ 0 < rho (K:=RF) a t e <= 1 - 4 / 5 * e.
Proof. intros a t e H. split; [exact (dom_DG a t e H) | exact (dom_rho a t e H)]. Qed.
Print Assumptions C04_contraction_factor_on_domain.

(** from ANY start (any charge, any second moments): the deviation from the fixed point of the same charge
    shrinks geometrically in N, hence every second moment converges to its fixed-point value.
    _partial: the damping decrement is assumed not to exceed the phase advance per step (e <= a, i.e. the damping
    time is at least 1/pi synchrotron periods: every storage-ring setting).  The overdamped regime e > a (real
    eigenvalues, DG may be <= 0) is not covered by this norm. *)
Theorem C04_coupled_deviation_contracts_partial :
  forall (v : Z) (a t e delta : R), has_damp v = true -> dom_ud a t e -> delta <> 0 ->
  forall (k : nat) (m : mom2 RF),
    Nm (K:=RF) a t e (dev (K:=RF) v a t e delta (sm_iter (K:=RF) k v a t e delta m))
      <= (rho (K:=RF) a t e * rho (K:=RF) a t e) ^ k * Nm (K:=RF) a t e (dev (K:=RF) v a t e delta m) /\
    0 < rho (K:=RF) a t e <= 1 - 4 / 5 * e.
Proof. exact deviation_contracts. Qed.
Print Assumptions C04_coupled_deviation_contracts_partial.

Theorem C04_coupled_converges_to_fixed_point_partial :
  forall (v : Z) (a t e delta : R), has_damp v = true -> dom_ud a t e -> delta <> 0 ->
  forall (m : mom2 RF) (eps : R), 0 < eps -> exists K0 : nat, forall k, (k >= K0)%nat ->
    Nm (K:=RF) a t e (dev (K:=RF) v a t e delta (sm_iter (K:=RF) k v a t e delta m)) <= eps /\
    Rabs (mvv (sm_iter (K:=RF) k v a t e delta m) - m0 m * fix_vv (K:=RF) v a t e delta) * DG (K:=RF) a t e
      <= g1 (K:=RF) t e * sqrt eps /\
    Rabs (muu (sm_iter (K:=RF) k v a t e delta m) - m0 m * fix_uu (K:=RF) v a t e delta) * DG (K:=RF) a t e
      <= g2 (K:=RF) a * sqrt eps.
Proof. exact converges_to_fixed_point. Qed.
Print Assumptions C04_coupled_converges_to_fixed_point_partial.

(** C04.5 J = t Muu + a t Muv + a Mvv per full step, reals.  The individual spreads ripple at twice the
    synchrotron frequency and are NOT monotone step by step; J is the quantity that is. *)
Theorem C04_J_neither_stays_put :
  forall (v : Z) (a t e delta : R), delta <> 0 -> forall m : mom2 RF,
    has_damp v = false -> has_diff v = false ->
    sm_J (K:=RF) a t (sm_step (K:=RF) v a t e delta m) = sm_J (K:=RF) a t m.
Proof. exact J_neither. Qed.
Print Assumptions C04_J_neither_stays_put.

Theorem C04_J_diffusion_only_strictly_increases :
  forall (v : Z) (a t e delta : R), delta <> 0 -> forall m : mom2 RF,
    has_damp v = false -> has_diff v = true -> 0 < a -> 0 < e -> 0 < m0 m ->
    sm_J (K:=RF) a t m < sm_J (K:=RF) a t (sm_step (K:=RF) v a t e delta m).
Proof. exact J_diffusion_only_increases. Qed.
Print Assumptions C04_J_diffusion_only_strictly_increases.

(** damping only: strictly down whenever the moments after the drift are those of a non-negative distribution
    (Cauchy-Schwarz) whose energy moment is not absurdly small against its position moment *)
Theorem C04_J_damping_only_strictly_decreases :
  forall (v : Z) (a t e delta : R), delta <> 0 -> forall m : mom2 RF,
    has_damp v = true -> has_diff v = false -> 0 < a -> 0 < t -> 0 < e -> 0 < m0 m ->
    let m' := sm_drift (K:=RF) a (sm_rf (K:=RF) t m) in
    0 <= muu m' -> 0 <= mvv m' -> muv m' * muv m' <= muu m' * mvv m' -> t * t * muu m' <= 4 * mvv m' ->
    sm_J (K:=RF) a t (sm_step (K:=RF) v a t e delta m) < sm_J (K:=RF) a t m.
Proof. exact J_damping_only_decreases. Qed.
Print Assumptions C04_J_damping_only_strictly_decreases.

(** J follows the two spreads: (J - S)^2 <= (a t / 4) S^2 with S = t Muu + a Mvv *)
Theorem C04_J_sandwich :
  forall (a t : R) (m : mom2 RF), 0 < a -> 0 < t ->
    0 <= muu m -> 0 <= mvv m -> muv m * muv m <= muu m * mvv m ->
    let S := t * muu m + a * mvv m in
    4 * ((sm_J (K:=RF) a t m - S) * (sm_J (K:=RF) a t m - S)) <= a * t * (S * S).
Proof. exact J_sandwich. Qed.
Print Assumptions C04_J_sandwich.

(** C04.6 end to end, the grid model itself: reading its exact rational moments as reals ([phi], the embedding
    Qc -> R, commutes with the recurrence), k full steps of RFKickMap, DriftMap and FokkerPlanckMap (3-point, with
    damping) bring the second moments of bunch b closer to the fixed point by rho^2 per step in N - for every data,
    grid and zero bins, as long as the distribution stays inside (finite horizon: in exact arithmetic the support
    grows by a few cells per step).  _partial for the same reason as above (e1 <= a). *)
Theorem C04_grid_deviation_contracts_partial :
  forall (n nb it : Z), valid_it it -> (3 <= it)%Z -> (2 <= n < 2 ^ 30)%Z -> (0 < nb)%Z ->
  forall (xc yc t a : Qc) (orf odr : Z -> Qc) (e1 delta : Qc) (p : Z -> Qc) (v le m : Z),
    (forall b x, (0 <= b < nb)%Z -> (0 <= x < n)%Z ->
        eff_off n (orf (Z.min b (nb - 1) * n + x)%Z) = (t * (xc - qz x))%Qc) ->
    (forall y, (0 <= y < n)%Z -> eff_off n (odr y) = (a * (qz y - yc))%Qc) ->
    (forall j, p j = (delta * (qz j - yc))%Qc) -> delta <> 0%Qc ->
    has_damp v = true -> dom_ud (phi a) (phi t) (phi e1) ->
  forall D b (k : nat), (0 <= b < nb)%Z ->
    (forall j, (j < k)%nat -> full_ok n nb it orf odr (iter_full n nb it orf odr e1 delta p v le m j D) b) ->
    Nm (K:=RF) (phi a) (phi t) (phi e1)
       (dev (K:=RF) v (phi a) (phi t) (phi e1) (phi delta)
            (mapm (gm2 n xc yc (iter_full n nb it orf odr e1 delta p v le m k D) b)))
    <= (rho (K:=RF) (phi a) (phi t) (phi e1) * rho (K:=RF) (phi a) (phi t) (phi e1)) ^ k
       * Nm (K:=RF) (phi a) (phi t) (phi e1)
            (dev (K:=RF) v (phi a) (phi t) (phi e1) (phi delta) (mapm (gm2 n xc yc D b))).
Proof. exact grid_deviation_contracts. Qed.
Print Assumptions C04_grid_deviation_contracts_partial.

(** C04.7 "per-step decrement within the explicit scheme's stable range" (the property's quantifier), made precise:
    the grid's highest mode (-1)^j c is an eigenvector of every interior row of the 3-point step, eigenvalue
    1 + d - 4 f/delta^2; with damping and diffusion it is not amplified iff 4 e1 <= (2 + e1) delta^2 (e1 <= delta^2/2
    to first order).  Beyond it the float implementation amplifies rounding noise by |1 + e1 - 4 e1/delta^2| per step
    (confirmed on the program: -s 256 -P 5 -N 100 -d 0.002 -f 8000 --derivation 3 gives NaN after a few steps), while
    the moment laws above, which hold in exact arithmetic, are unaffected: the check's runs stay inside the range. *)
Theorem C04_fp3_highest_mode_eigenvalue :
  forall (K : Fld) (e1 delta : K) (p : Z -> K) (v n le m : Z) (r : Z -> K) (c : K) (y : Z),
    (n < 2 ^ 32)%Z -> (1 <= y < n - 1)%Z -> delta <> f0 ->
    r (y - 1)%Z = fopp c -> r y = c -> r (y + 1)%Z = fopp c ->
    fp_col_out 3 (H3 K e1 delta p v n le m) r y = fmul (nyq_lambda e1 delta v) c.
Proof. exact fp3_nyquist_mode. Qed.
Print Assumptions C04_fp3_highest_mode_eigenvalue.

Theorem C04_fp3_stable_range :
  forall (e1 delta : R) (v : Z),
    has_damp v = true -> has_diff v = true -> 0 < e1 -> delta <> 0 -> delta * delta <= 4 ->
    (4 * e1 <= (2 + e1) * (delta * delta) -> Rabs (nyq_lambda (K:=RF) e1 delta v) <= 1) /\
    ((2 + e1) * (delta * delta) < 4 * e1 -> 1 < Rabs (nyq_lambda (K:=RF) e1 delta v)).
Proof. exact nyquist_stable_range. Qed.
Print Assumptions C04_fp3_stable_range.

(** ** Third wave (family stfp): the loop nest of FokkerPlanckMap::apply as the source has it NOW

    [Gen/Gen_FPLoop.v] (translate/fploop2coq.py, regenerated on every run) holds the ranges of the four loops of
    FokkerPlanckMap::apply and its index expressions; the translator refuses every statement outside the idiom
    (conditional, [continue], [break], [return], call, a local that is not index arithmetic): a data-dependent
    shortcut - e.g. skipping the columns whose cached bunch profile is zero (seed C04-G: that cache is the profile of
    the START distribution, so the skipped columns are an absorbing wall) - cannot be translated.  [fp_apply_loops]
    (Model/FPLoop.v) runs the nest on the output array.  Every Fokker-Planck statement of this file and of C01 is
    about [fp_apply]; these theorems say that [fp_apply] is what the nest computes, in every cell. *)
From Inovesa Require Import Gen.Gen_FPLoop Model.FPLoop Proofs.FPLoopP Proofs.FPLoopGridP.
Local Close Scope R_scope.
Local Open Scope Z_scope.

(** every column of every bunch is processed: output column (b, x) is the stencil sum over input column (b, x),
    for every table, data, previous content of the output array, grid size and number of bunches *)
Theorem C04_fp_apply_every_column :
  forall (K : Fld) (nb xs n ip : Z) (H : Z -> Z * K) (D out0 : Z -> K) (b x y : Z),
    0 < n -> 0 < xs -> 0 <= b < nb -> 0 <= x < xs -> 0 <= y < n ->
    fp_apply_loops nb xs n ip H D out0 (b * xs * n + x * n + y) =
    fp_col_out ip H (fun s => D (b * xs * n + x * n + s)) y.
Proof. exact fp_apply_loops_every_column. Qed.
Print Assumptions C04_fp_apply_every_column.

(** the step has no input but the column itself (and the table): no cached projection, no other column *)
Theorem C04_fp_apply_column_local :
  forall (K : Fld) (nb xs n ip : Z) (H : Z -> Z * K) (D D' out0 out0' : Z -> K) (b x y : Z),
    0 < n -> 0 < xs -> 0 <= b < nb -> 0 <= x < xs -> 0 <= y < n ->
    (forall s, D (b * xs * n + x * n + s) = D' (b * xs * n + x * n + s)) ->
    fp_apply_loops nb xs n ip H D out0 (b * xs * n + x * n + y) =
    fp_apply_loops nb xs n ip H D' out0' (b * xs * n + x * n + y).
Proof. exact fp_apply_loops_column_local. Qed.
Print Assumptions C04_fp_apply_column_local.

(** the nest computes [fp_apply] in every cell of the grid and writes nowhere else *)
Theorem C04_fp_apply_loops_are_fp_apply :
  forall (K : Fld) (nb xs n ip : Z) (H : Z -> Z * K) (D out0 : Z -> K) (i : Z),
    0 < n -> 0 < xs -> 0 <= nb ->
    (0 <= i < nb * xs * n -> fp_apply_loops nb xs n ip H D out0 i = fp_apply n xs ip H D i) /\
    (~ 0 <= i < nb * xs * n -> fp_apply_loops nb xs n ip H D out0 i = out0 i).
Proof.
  exact (fun K nb xs n ip H D out0 i Hn Hxs Hnb =>
           conj (fp_apply_loops_is_fp_apply K nb xs n ip H D out0 i Hn Hxs Hnb)
                (fp_apply_loops_elsewhere K nb xs n ip H D out0 i Hn Hxs Hnb)).
Qed.
Print Assumptions C04_fp_apply_loops_are_fp_apply.

(** ... hence the executable model the correspondence runs on the implementation's inputs (extracted [fp_apply_list]) is the
    nest, and so is the grid step [fp_grid] of [C04_fp_grid_second_moments] / [C04_full_step_second_moments] *)
Theorem C04_fp_model_is_the_loop_nest :
  forall (dt v n xs nb : Z) (yc e1 delta : Qc) (axis data : list Qc) (out0 : Z -> Qc),
    0 < n -> 0 < xs -> 0 <= nb ->
    fp_apply_list dt v n xs nb yc e1 delta axis data =
    map (fp_apply_loops (K:=QcF) nb xs n dt (hget (fp_table_list dt v n yc e1 delta axis)) (lget data) out0)
        (zrange (nb * xs * n)).
Proof. exact fp_apply_list_is_loops. Qed.
Print Assumptions C04_fp_model_is_the_loop_nest.

Theorem C04_fp_grid_is_the_loop_nest :
  forall (n nb : Z) (e1 delta : Qc) (p : Z -> Qc) (v le m : Z) (D out0 : Z -> Qc) (i : Z),
    0 < n -> 0 <= nb -> 0 <= i < nb * n * n ->
    fp_grid n e1 delta p v le m D i = fp_apply_loops (K:=QcF) nb n n 3 (H3 QcF e1 delta p v n le m) D out0 i.
Proof. exact fp_grid_is_loop_nest. Qed.
Print Assumptions C04_fp_grid_is_the_loop_nest.

(** a computed instance (2 bunches x 2 columns x 3 rows, table "row itself, weight 2"): all twelve cells doubled, cell 12 untouched *)
Example C04_fp_apply_loops_instance :
  map (fp_apply_loops (K:=QcF) 2 2 3 1 (fun k => (k, Qcz 2)) (fun i => Qcz (i + 1)) (fun _ => Qcz 7)) (zrange 13) =
  map Qcz [2; 4; 6; 8; 10; 12; 14; 16; 18; 20; 22; 24; 7].
Proof. exact fp_apply_loops_instance. Qed.
