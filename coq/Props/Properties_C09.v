(** C09 - normalisation restores each bunch's charge share; moments are the true moments;
    copies report the same.  Only statements closed by [exact]; proofs in Proofs/MomentsP.v,
    model in Model/Moments.v, design in DESIGN.md 5/C09. *)
From Coq Require Import List ZArith QArith Qcanon Bool.
From Inovesa Require Import Base.FieldKit Base.Sums Model.Moments Proofs.MomentsP.
Import ListNotations.
Local Open Scope Z_scope.

(** After normalize() (which reads the cached measured filling), updateXProjection() and
    integrate(), a bunch with a positive share integrates to exactly that share - in every field,
    for every grid size, data, weights.  Hypotheses: the cached filling is the measured one and
    is not zero. *)
Theorem C09_normalize_restores_share :
  forall (K : Fld) (pos : K -> bool) (g : geom K) (s : state K) b,
    0 <= b < gnb g -> pos (gfs g b) = true ->
    sfill s b = charge_of K g (sdata s) b -> sfill s b <> f0 ->
    sfill (integrate K g (updateX K g (normalize K pos g s))) b = gfs g b.
Proof. exact normalize_restores_share. Qed.
Print Assumptions C09_normalize_restores_share.

(** an empty bucket is zeroed and integrates to zero *)
Theorem C09_normalize_empty_bucket :
  forall (K : Fld) (pos : K -> bool) (g : geom K) (s : state K) b,
    0 <= b < gnb g -> pos (gfs g b) = false ->
    sfill (integrate K g (updateX K g (normalize K pos g s))) b = f0 /\
    (forall x y, 0 <= x < gn g -> 0 <= y < gn g -> sdata (normalize K pos g s) b x y = f0).
Proof. exact normalize_empty_bucket. Qed.
Print Assumptions C09_normalize_empty_bucket.

(** the total is the sum of the positive shares, hence one for a normalised filling pattern *)
Theorem C09_normalize_total_one :
  forall (K : Fld) (pos : K -> bool) (g : geom K) (s : state K),
    (forall b, 0 <= b < gnb g -> pos (gfs g b) = true ->
               sfill s b = charge_of K g (sdata s) b /\ sfill s b <> f0) ->
    (forall b, 0 <= b < gnb g -> pos (gfs g b) = false -> gfs g b = f0) ->
    sumn K (gnb g) (gfs g) = f1 ->
    sint (integrate K g (updateX K g (normalize K pos g s))) = f1.
Proof. exact normalize_total_one. Qed.
Print Assumptions C09_normalize_total_one.

(** non-vacuity: 3x3 grid, two bunches with shares 3/4 and 1/4, spacing 3 *)
Definition exQ (z : Z) : Qc := Q2Qc (inject_Z z).
Definition ex_geom : geom QcF :=
  geomQ 3 2 (exQ (-3)) (exQ 3) (exQ (-3)) (exQ 3) [Q2Qc (3 # 4); Q2Qc (1 # 4)].
Definition ex_state : state QcF :=
  construct QcF ex_geom (dataQ 3 (map exQ [1;2;0; 0;3;1; 2;0;0;   0;1;0; 4;0;1; 0;2;2])).
Example C09_share_example :
  posQc (gfs ex_geom 0) = true /\ sfill ex_state 0 = charge_of QcF ex_geom (sdata ex_state) 0 /\
  sfill ex_state 0 <> 0%Qc /\
  map (fun b => this (sfill (integrate QcF ex_geom (updateX QcF ex_geom (normalize QcF posQc ex_geom ex_state))) b))
      [0; 1] = [(3 # 4)%Q; (1 # 4)%Q].
Proof.
  split; [vm_compute; reflexivity|]. split; [vm_compute; reflexivity|].
  split; [intro H; vm_compute in H; discriminate H|]. vm_compute. reflexivity.
Qed.
