(** C09 - normalisation restores each bunch's charge share; moments are the true moments;
    copies report the same.  Only statements closed by [exact]; proofs in Proofs/MomentsP.v,
    model in Model/Moments.v, design in DESIGN.md 5/C09. *)
From Coq Require Import List ZArith QArith Qcanon Bool Lia.
From Inovesa Require Import Base.FieldKit Base.Sums Model.Moments Proofs.MomentsP Proofs.MomentsWitP Proofs.SimpsonP.
Import ListNotations.
Local Open Scope Z_scope.

(** After normalize() (which reads the cached measured filling), updateXProjection() and
    integrate(), a bunch with a positive share integrates to exactly that share - in every field,
    for every grid size, data, weights.  Hypotheses: the cached filling is the measured one and
    is not zero. *)
Theorem C09_normalize_restores_share :
  forall (K : Fld) (pos : K -> bool) (g : geom K) (s : state K) b,
    0 <= b < gnb g -> pos (gfs g b) = true ->
    sfill s b = charge_of K g (sdata s) b -> sfill s b <> f0 ->
    sfill (integrate K g (updateX K g (normalize K pos g s))) b = gfs g b.
Proof. exact normalize_restores_share. Qed.
Print Assumptions C09_normalize_restores_share.

(** an empty bucket is zeroed and integrates to zero *)
Theorem C09_normalize_empty_bucket :
  forall (K : Fld) (pos : K -> bool) (g : geom K) (s : state K) b,
    0 <= b < gnb g -> pos (gfs g b) = false ->
    sfill (integrate K g (updateX K g (normalize K pos g s))) b = f0 /\
    (forall x y, 0 <= x < gn g -> 0 <= y < gn g -> sdata (normalize K pos g s) b x y = f0).
Proof. exact normalize_empty_bucket. Qed.
Print Assumptions C09_normalize_empty_bucket.

(** the total is the sum of the positive shares, hence one for a normalised filling pattern *)
Theorem C09_normalize_total_one :
  forall (K : Fld) (pos : K -> bool) (g : geom K) (s : state K),
    (forall b, 0 <= b < gnb g -> pos (gfs g b) = true ->
               sfill s b = charge_of K g (sdata s) b /\ sfill s b <> f0) ->
    (forall b, 0 <= b < gnb g -> pos (gfs g b) = false -> gfs g b = f0) ->
    sumn K (gnb g) (gfs g) = f1 ->
    sint (integrate K g (updateX K g (normalize K pos g s))) = f1.
Proof. exact normalize_total_one. Qed.
Print Assumptions C09_normalize_total_one.

(** non-vacuity: 3x3 grid, two bunches with shares 3/4 and 1/4, spacing 3 *)
Definition exQ (z : Z) : Qc := Q2Qc (inject_Z z).
Definition ex_geom : geom QcF :=
  geomQ 3 2 (exQ (-3)) (exQ 3) (exQ (-3)) (exQ 3) [Q2Qc (3 # 4); Q2Qc (1 # 4)].
Definition ex_state : state QcF :=
  construct QcF ex_geom (dataQ 3 (map exQ [1;2;0; 0;3;1; 2;0;0;   0;1;0; 4;0;1; 0;2;2])).
Example C09_share_example :
  posQc (gfs ex_geom 0) = true /\ sfill ex_state 0 = charge_of QcF ex_geom (sdata ex_state) 0 /\
  sfill ex_state 0 <> 0%Qc /\
  map (fun b => this (sfill (integrate QcF ex_geom (updateX QcF ex_geom (normalize QcF posQc ex_geom ex_state))) b))
      [0; 1] = [(3 # 4)%Q; (1 # 4)%Q].
Proof.
  split; [vm_compute; reflexivity|]. split; [vm_compute; reflexivity|].
  split; [intro H; vm_compute in H; discriminate H|]. vm_compute. reflexivity.
Qed.

(** ** other bunches' data do not enter bunch b's results - for every operation history
    (updateX/updateY/integrate/normalize/average/variance in any order and number) *)
Theorem C09_bunch_independent :
  forall (K : Fld) (pos : K -> bool) (g : geom K) b (D D' : Z -> Z -> Z -> K) (ops : list Z),
    0 <= b < gnb g ->
    (forall x y, 0 <= x < gn g -> 0 <= y < gn g -> D b x y = D' b x y) ->
    bunch_eq K g b (run_ops K pos g (construct K g D) ops) (run_ops K pos g (construct K g D') ops).
Proof. exact bunch_independent. Qed.
Print Assumptions C09_bunch_independent.

Example C09_independent_example :
  bunch_eq QcF ex_geom 0 ex_state ex_state /\ 0 <= 0 < gnb ex_geom.
Proof. split; [repeat split|vm_compute; split; [intro H; discriminate H|reflexivity]]. Qed.

(** ** the reported numbers are the code's first and second central moments of the bunch's own
    projection on the requested axis, divided by the bunch's own measured charge *)
Theorem C09_average_is_first_moment :
  forall (K : Fld) (pos : K -> bool) (g : geom K) (s : state K) axis b,
    0 <= b < gnb g -> pos (gfs g b) = true -> sfill s b <> f0 ->
    smom (average K pos g axis s) axis 0 b =
    first_moment K (gn g) (gdelta K g axis) (gqp K g axis) (sproj K s axis b) (sfill s b).
Proof. exact average_is_first_moment. Qed.
Print Assumptions C09_average_is_first_moment.

Theorem C09_variance_is_second_central_moment :
  forall (K : Fld) (pos : K -> bool) (g : geom K) (s : state K) axis b,
    0 <= b < gnb g -> pos (gfs g b) = true -> sfill s b <> f0 ->
    let s' := variance K pos g axis s in
    smom s' axis 0 b =
      first_moment K (gn g) (gdelta K g axis) (gqp K g axis) (sproj K s axis b) (sfill s b) /\
    smom s' axis 1 b =
      second_central_moment K (gn g) (gdelta K g axis) (gqp K g axis) (sproj K s axis b) (sfill s b)
                            (smom s' axis 0 b).
Proof. exact variance_is_second_central_moment. Qed.
Print Assumptions C09_variance_is_second_central_moment.

Theorem C09_moments_empty_bucket :
  forall (K : Fld) (pos : K -> bool) (g : geom K) (s : state K) axis b,
    0 <= b < gnb g -> pos (gfs g b) = false ->
    smom (variance K pos g axis s) axis 0 b = f0 /\ smom (variance K pos g axis s) axis 1 b = f0.
Proof. exact moments_empty_bucket. Qed.
Print Assumptions C09_moments_empty_bucket.

Example C09_moment_example :
  posQc (gfs ex_geom 1) = true /\ sfill ex_state 1 <> 0%Qc /\
  this (smom (variance QcF posQc ex_geom 0 ex_state) 0 0 1) = (27 # 17)%Q.
Proof.
  split; [vm_compute; reflexivity|]. split; [intro H; vm_compute in H; discriminate H|].
  vm_compute. reflexivity.
Qed.

(** ** translation.  General law for a profile moved by m cells inside the grid (c, c' are
    whatever charges were measured for the two profiles; the axis is q_i = qmin + i*delta) *)
Theorem C09_moments_translation_law :
  forall (K : Fld) (n : Z) (delta qmin : K) (r : Z -> K) (a b m : Z),
    supp r a b -> 0 <= a -> b <= n -> a <= b -> 0 <= a + m -> b + m <= n ->
    forall c c' : K, c <> f0 -> c' <> f0 ->
    let q := fun i => (qmin + fz i * delta)%F in
    (first_moment K n delta q (fun i => r (i - m)%Z) c' * c' =
     first_moment K n delta q r c * c + fz m * delta * (delta * sumn K n r))%F.
Proof. exact translation_law. Qed.
Print Assumptions C09_moments_translation_law.

(** the designed statement (mean moves by m*delta, variance unchanged) holds when the measured
    charge is the same for both profiles and equals the rectangle charge delta * sum r.
    PARTIAL: the code divides a rectangle sum by a *Simpson* charge, and the Simpson charge is
    not translation invariant, so without this hypothesis the statement is false for the model
    and for the code (C09_moments_translation_refuted); for smooth profiles well inside the grid
    the hypothesis holds up to the discretisation error explored by the Gaussian stream. *)
Theorem C09_moments_translation_partial :
  forall (K : Fld) (n : Z) (delta qmin : K) (r : Z -> K) (a b m : Z) (c mean : K),
    supp r a b -> 0 <= a -> b <= n -> a <= b -> 0 <= a + m -> b + m <= n ->
    c <> f0 -> c = (delta * sumn K n r)%F ->
    let q := fun i => (qmin + fz i * delta)%F in
    first_moment K n delta q (fun i => r (i - m)%Z) c = (first_moment K n delta q r c + fz m * delta)%F /\
    second_central_moment K n delta q (fun i => r (i - m)%Z) c (mean + fz m * delta)%F =
    second_central_moment K n delta q r c mean.
Proof. exact moments_translation_partial_pk. Qed.
Print Assumptions C09_moments_translation_partial.

(** refuted at full strength: one cell of charge at x = 1 (q = -3) reports mean -9/4, the same
    cell moved to x = 2 (q = 0) reports 0: the mean moved by 9/4, not by delta = 3 *)
Theorem C09_moments_translation_refuted :
  exists (g : geom QcF) (D D' : Z -> Z -> Z -> Qc),
    (forall b x y, D' b x y = D b (x - 1) y) /\
    let m E := smom (variance QcF posQc g 0 (construct QcF g E)) 0 0 0 in
    this (m D') <> this (m D + gd0 g)%Qc.
Proof. exact moments_translation_refuted_pk. Qed.
Print Assumptions C09_moments_translation_refuted.

Example C09_translation_example :
  let r := fun i : Z => if i =? 1 then zq 2 else if i =? 2 then zq 2 else zq 0 in
  supp (K:=QcF) r 1 3 /\ zq 12 <> zq 0 /\ zq 12 = Qcmult (zq 3) (sumn QcF 5 r).
Proof.
  split; [|split; [intro H; discriminate H|vm_compute; reflexivity]].
  intros i Hi. cbv beta. destruct (i =? 1) eqn:E1; [lia|]. destruct (i =? 2) eqn:E2; [lia|reflexivity].
Qed.

(** ** amplitude: scaling a profile and its charge by k leaves mean and variance unchanged *)
Theorem C09_moments_scale_invariant :
  forall (K : Fld) (n : Z) (delta : K) (q r : Z -> K) (c mean k : K),
    c <> f0 -> k <> f0 ->
    first_moment K n delta q (fun i => k * r i)%F (k * c)%F = first_moment K n delta q r c /\
    second_central_moment K n delta q (fun i => k * r i)%F (k * c)%F mean =
    second_central_moment K n delta q r c mean.
Proof. exact moments_scale_invariant_pk. Qed.
Print Assumptions C09_moments_scale_invariant.

(** ... and the measured charge is linear in the bunch's data, so scaled data give scaled charge *)
Theorem C09_charge_linear :
  forall (K : Fld) (g : geom K) (D : Z -> Z -> Z -> K) (c : K) b,
    charge_of K g (fun b x y => D b x y * c)%F b = (charge_of K g D b * c)%F.
Proof. exact charge_of_scale. Qed.
Print Assumptions C09_charge_linear.

(** ** copies.  [fresh]: the caches of the object are those of its data (true after the
    constructor and after updateX;updateY;integrate). *)
Theorem C09_copy_is_refreshed :
  forall (K : Fld) (g : geom K) (s : state K), obs_eq K g (copy K g s) (refresh K g s).
Proof. exact copy_is_refreshed. Qed.
Print Assumptions C09_copy_is_refreshed.

Theorem C09_copy_same_observables :
  forall (K : Fld) (pos : K -> bool) (g : geom K) (s : state K),
    fresh K g s ->
    obs_eq K g (copy K g s) s /\
    (forall b axis o, 0 <= b < gnb g -> (o = 0 \/ o = 1) ->
       smom (variance K pos g axis (copy K g s)) axis o b = smom (variance K pos g axis s) axis o b).
Proof. exact copy_same_observables. Qed.
Print Assumptions C09_copy_same_observables.

(** operator= on the fixed tree, target and source of one geometry (axes, set filling) *)
Theorem C09_assign_same_observables :
  forall (K : Fld) (pos : K -> bool) (g : geom K) (this other : state K),
    fresh K g other ->
    obs_eq K g (assign K g g this other) other /\
    (forall b axis o, 0 <= b < gnb g -> (o = 0 \/ o = 1) ->
       smom (variance K pos g axis (assign K g g this other)) axis o b =
       smom (variance K pos g axis other) axis o b).
Proof. exact assign_same_observables. Qed.
Print Assumptions C09_assign_same_observables.

(** whatever the source's geometry: the target reports the source's data on its own geometry *)
Theorem C09_assign_is_refreshed :
  forall (K : Fld) (g g' : geom K) (this other : state K),
    gn g' = gn g -> gnb g' = gnb g -> obs_eq K g (assign K g g' this other) (refresh K g other).
Proof. exact assign_is_refreshed. Qed.
Print Assumptions C09_assign_is_refreshed.

Theorem C09_constructed_is_fresh :
  forall (K : Fld) (g : geom K) D, fresh K g (construct K g D).
Proof. exact construct_fresh. Qed.
Print Assumptions C09_constructed_is_fresh.

(** the pinned tree's operator= (data swapped, nothing re-derived) is refuted: fixed by the
    repo commit recorded in known_findings.jsonl (C09 assign-stale-caches) *)
Theorem C09_assign_pinned_refuted :
  exists (g : geom QcF) (this other : state QcF),
    fresh QcF g other /\ sprojx (assign_pinned QcF g g this other) 0 0 <> sprojx other 0 0.
Proof. exact assign_pinned_refuted_pk. Qed.
Print Assumptions C09_assign_pinned_refuted.

(** assignment across geometries does not give a copy (open finding C09 assign-other-geometry) *)
Theorem C09_assign_other_geometry_refuted :
  exists (g g' : geom QcF) (this other : state QcF),
    gn g' = gn g /\ gnb g' = gnb g /\ fresh QcF g' other /\
    sprojx (assign QcF g g' this other) 0 0 <> sprojx other 0 0.
Proof. exact assign_other_geometry_refuted_pk. Qed.
Print Assumptions C09_assign_other_geometry_refuted.

(** "right axis" refuted for unequal spacing: the reported mean energy depends on the spacing of
    the position axis (same cells, same energy axis) - open finding C09 energy-moments-axis0-spacing *)
Theorem C09_energy_mean_axis0_spacing_refuted :
  exists (g g' : geom QcF) (D : Z -> Z -> Z -> Qc),
    gmin1 g = gmin1 g' /\ gd1 g = gd1 g' /\ gn g = gn g' /\
    smom (variance QcF posQc g 1 (construct QcF g D)) 1 0 0 <>
    smom (variance QcF posQc g' 1 (construct QcF g' D)) 1 0 0.
Proof. exact energy_mean_axis0_spacing_refuted_pk. Qed.
Print Assumptions C09_energy_mean_axis0_spacing_refuted.

Example C09_copy_example : fresh QcF ex_geom ex_state.
Proof. apply construct_fresh. Qed.

(** ** the weight vector of simpsonWeights.  Odd n >= 3: the composite Simpson rule, weights sum
    to the length of the axis and integrate cubics exactly.  Even n >= 2: the code's rule is not
    Simpson's (the last interior weight is 2h/3, the last interval gets h/3 on each end): the
    weights sum to the length minus a third of a cell. *)
Theorem C09_simpson_weights_sum_odd :
  forall (K : Fld) (g : geom K) (p : nat),
    gn g = 2 * Z.of_nat p + 3 -> sumn K (gn g) (ws K g) = (gd0 g * fz (gn g - 1))%F.
Proof. exact simpson_weights_sum_odd. Qed.
Print Assumptions C09_simpson_weights_sum_odd.

Theorem C09_simpson_weights_sum_even :
  forall (K : Fld) (g : geom K) (p : nat),
    gn g = 2 * Z.of_nat p + 2 ->
    sumn K (gn g) (ws K g) = (gd0 g * fz (gn g - 1) - gd0 g / three)%F.
Proof. exact simpson_weights_sum_even. Qed.
Print Assumptions C09_simpson_weights_sum_even.

Theorem C09_simpson_exact_deg3 :
  forall (K : Fld) (g : geom K) (p : nat) (c0 c1 c2 c3 : K),
    gn g = 2 * Z.of_nat p + 3 ->
    sumn K (gn g) (fun i => ws K g i * cubic K c0 c1 c2 c3 (gqp K g 0 i))%F
    = (cubic_int K c0 c1 c2 c3 (gqp K g 0 (gn g - 1)) - cubic_int K c0 c1 c2 c3 (gqp K g 0 0))%F.
Proof. exact simpson_exact_deg3. Qed.
Print Assumptions C09_simpson_exact_deg3.

Example C09_simpson_example :
  gn wg5 = 2 * Z.of_nat 1 + 3 /\
  map (fun i => this (ws QcF wg5 i)) [0; 1; 2; 3; 4] = [1 # 1; 4 # 1; 2 # 1; 4 # 1; 1 # 1]%Q /\
  gn ex_geom = 2 * Z.of_nat 0 + 3.
Proof. vm_compute. repeat split. Qed.

(** ** Tie to the source by translation (second wave).  [Gen/Gen_Moments.v] is regenerated from
    src/PS/PhaseSpace.cpp on every run (translate/moments2coq.py): closed forms of the loops of
    simpsonWeights, updateXProjection, updateYProjection, integrate, normalize, average, variance,
    integrateAndNormalize, and the refresh sequences of the constructor and of operator=.  The model
    the theorems above are about is proved to be that code: every generated operation, started on a
    state that agrees with a model state on the cells of the object ([steq]), ends on one that agrees
    with the model's result - for every field, geometry, grid size, data and operation history.
    A changed loop bound, index, weight, axis argument, quotient or divisor in the source changes the
    generated definitions and these statements no longer check. *)
From Inovesa Require Import Model.MomentsIR Gen.Gen_Moments Proofs.MomentsGenP.

(** the weight vector the constructor stores ([_ws(simpsonWeights())]) is the model's, entry by entry *)
Theorem C09_source_simpson_weights_are_model :
  forall (K : Fld) (pos : K -> bool) (g : geom K) i,
    0 <= i < gn g -> gen_ctor_ws K (env_of K pos g) i = ws K g i.
Proof. exact gen_ctor_ws_is_model. Qed.
Print Assumptions C09_source_simpson_weights_are_model.

(** every operation history of the generated operations, run on the object as it is constructed
    ([env_gen]: sizes, rulers and set filling of the geometry, weights computed by the generated
    simpsonWeights), is simulated by the model's [run_ops] (op codes as in Model/Moments.v: 0 updateX,
    1 updateY, 2 integrate, 3 normalize, 4/5 average, 6/7 variance, 8 integrateAndNormalize) *)
Theorem C09_source_operations_are_model :
  forall (K : Fld) (pos : K -> bool) (g : geom K) (ops : list Z) (m : mst K) (s : state K),
    steq K g m s -> steq K g (gen_run_ops K (env_gen K pos g) m ops) (run_ops K pos g s ops).
Proof. exact gen_run_ops_sim_constructed. Qed.
Print Assumptions C09_source_operations_are_model.

(** what the constructor and operator= call after the data are in place is the model's [refresh] *)
Theorem C09_source_refresh_is_model :
  forall (K : Fld) (pos : K -> bool) (g : geom K) (m : mst K) (s : state K),
    steq K g m s ->
    steq K g (gen_ctor_refresh K (env_gen K pos g) m) (refresh K g s) /\
    steq K g (gen_assign_refresh K (env_gen K pos g) m) (refresh K g s).
Proof. exact gen_refresh_sim_constructed. Qed.
Print Assumptions C09_source_refresh_is_model.

(** the share, empty-bucket and moment theorems stated on the generated operations themselves *)
Theorem C09_source_normalize_restores_share :
  forall (K : Fld) (pos : K -> bool) (g : geom K) (m : mst K) b,
    0 <= b < gnb g -> pos (gfs g b) = true ->
    m_fill m b = charge_of K g (m_data m) b -> m_fill m b <> f0 ->
    let E := env_gen K pos g in
    m_fill (gen_integrate K E (gen_updateXProjection K E (gen_normalize K E m))) b = gfs g b.
Proof. exact gen_normalize_restores_share_c. Qed.
Print Assumptions C09_source_normalize_restores_share.

Theorem C09_source_normalize_empty_bucket :
  forall (K : Fld) (pos : K -> bool) (g : geom K) (m : mst K) b,
    0 <= b < gnb g -> pos (gfs g b) = false ->
    let E := env_gen K pos g in
    m_fill (gen_integrate K E (gen_updateXProjection K E (gen_normalize K E m))) b = f0 /\
    (forall x y, 0 <= x < gn g -> 0 <= y < gn g -> m_data (gen_normalize K E m) b x y = f0).
Proof. exact gen_normalize_empty_bucket_c. Qed.
Print Assumptions C09_source_normalize_empty_bucket.

Theorem C09_source_average_is_first_moment :
  forall (K : Fld) (pos : K -> bool) (g : geom K) (m : mst K) axis b,
    axis = 0 \/ axis = 1 -> 0 <= b < gnb g -> pos (gfs g b) = true -> m_fill m b <> f0 ->
    m_mom (gen_average K (env_gen K pos g) axis m) axis 0 b =
    first_moment K (gn g) (gdelta K g axis) (gqp K g axis) (m_proj m axis b) (m_fill m b).
Proof. exact gen_average_is_first_moment_c. Qed.
Print Assumptions C09_source_average_is_first_moment.

Theorem C09_source_variance_is_second_central_moment :
  forall (K : Fld) (pos : K -> bool) (g : geom K) (m : mst K) axis b,
    axis = 0 \/ axis = 1 -> 0 <= b < gnb g -> pos (gfs g b) = true -> m_fill m b <> f0 ->
    let m' := gen_variance K (env_gen K pos g) axis m in
    m_mom m' axis 0 b =
      first_moment K (gn g) (gdelta K g axis) (gqp K g axis) (m_proj m axis b) (m_fill m b) /\
    m_mom m' axis 1 b =
      second_central_moment K (gn g) (gdelta K g axis) (gqp K g axis) (m_proj m axis b) (m_fill m b)
                            (m_mom m' axis 0 b).
Proof. exact gen_variance_is_second_central_moment_c. Qed.
Print Assumptions C09_source_variance_is_second_central_moment.

Theorem C09_source_moments_empty_bucket :
  forall (K : Fld) (pos : K -> bool) (g : geom K) (m : mst K) axis b,
    axis = 0 \/ axis = 1 -> 0 <= b < gnb g -> pos (gfs g b) = false ->
    m_mom (gen_variance K (env_gen K pos g) axis m) axis 0 b = f0 /\
    m_mom (gen_variance K (env_gen K pos g) axis m) axis 1 b = f0.
Proof. exact gen_moments_empty_bucket_c. Qed.
Print Assumptions C09_source_moments_empty_bucket.

(** non-vacuity: the generated operations run on the example object (3x3, two bunches) as constructed: the
    state that corresponds to a model state agrees with it; the generated normalize/updateX/integrate give
    the shares 3/4 and 1/4; the generated weights on 5 points are 1 4 2 4 1 *)
Example C09_source_example :
  steq QcF ex_geom (to_mst QcF ex_state) ex_state /\
  (let E := env_gen QcF posQc ex_geom in
   map (fun b => this (m_fill (gen_integrate QcF E (gen_updateXProjection QcF E (gen_normalize QcF E (to_mst QcF ex_state)))) b))
       [0; 1] = [(3 # 4)%Q; (1 # 4)%Q]) /\
  map (fun i => this (gen_ctor_ws QcF (env_of QcF posQc wg5) i)) [0; 1; 2; 3; 4] = [1 # 1; 4 # 1; 2 # 1; 4 # 1; 1 # 1]%Q.
Proof. split; [apply steq_to_mst|]. split; vm_compute; reflexivity. Qed.
