(** C08 - in a multi-bunch run every bunch evolves as it would on its own (kick maps). *)
From Coq Require Import List ZArith QArith Qcanon.
From Inovesa Require Import Base.FieldKit Base.Float32 Gen.Gen_Coeffs Model.Kick
  Proofs.WeightsP Proofs.KickP Proofs.KickGridP.
Local Open Scope Z_scope.

Theorem C08_apply_y_slice :
  forall n nb it (offs D : Z -> Qc) b x y,
    valid_it it -> 0 < n -> 0 < nb -> 0 <= b < nb -> 0 <= x < n -> 0 <= y < n ->
    apply_y n nb it (updateSM n it offs) D (didx n b x y) =
    apply_y n 1 it (updateSM n it (fun i => offs (b * n + i))) (fun i => D (b * n * n + i))
            (didx n 0 x y).
Proof. exact apply_y_slice. Qed.
Print Assumptions C08_apply_y_slice.

Theorem C08_apply_x_slice :
  forall n nb it (offs D : Z -> Qc) b x y,
    valid_it it -> 0 < n -> 0 < nb -> 0 <= b < nb -> 0 <= x < n -> 0 <= y < n ->
    apply_x n nb it (updateSM n it offs) D (didx n b x y) =
    apply_x n 1 it (updateSM n it offs) (fun i => D (b * n * n + i)) (didx n 0 x y).
Proof. exact apply_x_slice. Qed.
Print Assumptions C08_apply_x_slice.

(** ** Fokker-Planck step: FokkerPlanckMap::apply loops over bunches with one shared stencil table;
    the flat loop is a map of the single-bunch operator over the bunch slices (any table [H], any
    field, any number of bunches - the bunch count only bounds the index range). *)
From Inovesa Require Import Base.Sums Gen.Gen_FPStencil Model.FokkerPlanck Proofs.FPGridP.

Theorem C08_fp_apply_slice :
  forall (K : Fld) (n xs ip : Z) (H : Z -> Z * K) (D : Z -> K) (b i : Z),
    0 < n -> 0 < xs -> 0 <= i < xs * n ->
    fp_apply n xs ip H D (b * xs * n + i) = fp_apply n xs ip H (fun i' => D (b * xs * n + i')) i.
Proof. exact fp_apply_slice_gen. Qed.
Print Assumptions C08_fp_apply_slice.

(** non-vacuity and a concrete instance: bunch 1 of a two-bunch 4x4 array under the model's own table *)
Example C08_fp_slice_example :
  let ax := map (fun j => (Qcz j - Q2Qc (3 # 2))%Qc) (zrange 4) in
  let d := map Qcz (zrange 32) in
  skipn 16 (fp_apply_list 3 3 4 4 2 (Q2Qc (3 # 2)) (Q2Qc (1 # 8)) 1%Qc ax d)
  = fp_apply_list 3 3 4 4 1 (Q2Qc (3 # 2)) (Q2Qc (1 # 8)) 1%Qc ax (skipn 16 d).
Proof. vm_compute. reflexivity. Qed.

(** ** RF kick and drift (built by family rf, Model/RF.v mirrors RFKickMap::_calcKick after the
    repo's fix 072b56b and the DriftMap constructor): the entry of the offset vector that KickMap::apply
    reads for bunch b carries the same field as the one the single-bunch map reads, so slice b of the
    nb-bunch RF kick / drift is the single-bunch kick of that slice. *)
From Inovesa Require Import Model.RF Proofs.RFP Proofs.RFGridP.

Theorem C08_rf_offsets_same_for_every_bunch :
  forall (K : Fld) (n nb : Z) (f : Z -> K) (b x : Z),
    0 <= b < nb -> 0 <= x < n ->
    rf_offsets n f (Z.min b (nb - 1) * n + x) = f x /\
    rf_offsets n f (Z.min b (nb - 1) * n + x) = rf_offsets n f (Z.min 0 (1 - 1) * n + x).
Proof. exact C08_rf_offsets_all_bunches. Qed.
Print Assumptions C08_rf_offsets_same_for_every_bunch.

Theorem C08_drift_offsets_same_for_every_bunch :
  forall (K : Fld) (n : Z) (f : Z -> K) (y : Z),
    0 <= y < n ->
    drift_offsets n f y = f y /\ (forall i, n <= i -> drift_offsets n f i = f0).
Proof. exact C08_drift_offsets_all_bunches. Qed.
Print Assumptions C08_drift_offsets_same_for_every_bunch.

Theorem C08_rf_kick_slice :
  forall n nb it (f : Z -> Qc) (D : Z -> Qc) b x y,
    valid_it it -> 0 < n -> 0 < nb -> 0 <= b < nb -> 0 <= x < n -> 0 <= y < n ->
    apply_y n nb it (updateSM n it (rf_offsets (K:=QcF) n f)) D (didx n b x y) =
    apply_y n 1 it (updateSM n it (rf_offsets (K:=QcF) n f)) (fun i => D (b * n * n + i)) (didx n 0 x y).
Proof. exact rf_kick_slice. Qed.
Print Assumptions C08_rf_kick_slice.

Theorem C08_drift_kick_slice :
  forall n nb it (f : Z -> Qc) (D : Z -> Qc) b x y,
    valid_it it -> 0 < n -> 0 < nb -> 0 <= b < nb -> 0 <= x < n -> 0 <= y < n ->
    apply_x n nb it (updateSM n it (drift_offsets (K:=QcF) n f)) D (didx n b x y) =
    apply_x n 1 it (updateSM n it (drift_offsets (K:=QcF) n f)) (fun i => D (b * n * n + i)) (didx n 0 x y).
Proof. exact drift_kick_slice. Qed.
Print Assumptions C08_drift_kick_slice.

(** ** Run level (family run).  The wake kick's own potential, and the induction over the steps of a run.

    [Gen/Gen_WakeUpdate.v] (regenerated from WakePotentialMap::update, the KickMap / WakeKickMap constructors,
    KickMap::updateSM and ElectricField's wakePotential()) and [Gen/Gen_KickIndex.v] (KickMap::apply) meet here:
    after update(), the entry of the offset vector and the table row that apply()'s y branch reads for bunch b,
    row x - through its generated index with the generated sharing rule min(b, _lastbunch), _lastbunch = nb-1 -
    hold the wake potential [_wakepotential[b][x]] (position [wp_flat] in the array wakePotential() returns) and the
    interpolation row built from it, and nothing else. *)
From Inovesa Require Import Model.StepKinds Gen.Gen_StepOrder Model.RunKinds Gen.Gen_WakeUpdate Gen.Gen_Identity
  Gen.Gen_KickIndex Model.Copy Model.WakeUpdate Model.Run Proofs.CopyP Proofs.WakeUpdateP Proofs.RunP Proofs.RunFPP.
Import ListNotations.

Theorem C08_wake_kick_own_potential :
  forall n nb it (wp : Z -> Qc) b x y j,
    valid_it it -> 0 < n -> 0 <= b < nb -> 0 <= x < n -> 0 <= j < it ->
    let r := Z.min b (km_lastbunch nb) * wk_pd n nb + x in
    wake_offsets n nb it wp r = wp (wp_flat nb n b x) /\
    wake_table n nb it wp (ky_hinfo (wk_kd n nb) (wk_pd n nb) it (km_lastbunch nb) b x y j) =
    sm_entry n it (wp (wp_flat nb n b x)) j.
Proof. exact wake_kick_reads_own_potential. Qed.
Print Assumptions C08_wake_kick_own_potential.

(** update() in closed form: the offset vector is the wake potential on its nb*n entries (zero beyond, as the
    constructor left it), the table is updateSM of it on the nb*n*it entries apply() can read *)
Theorem C08_wake_update_closed_form :
  forall n nb it (wp : Z -> Qc),
    (forall i, wake_offsets n nb it wp i = if in_rng (nb * n) i then wp i else 0%Qc) /\
    (0 < it -> 0 <= n -> 0 <= nb -> forall k, 0 <= k < nb * n * it -> wake_table n nb it wp k = updateSM n it wp k).
Proof. exact (fun n nb it wp => conj (wake_offsets_spec n nb it wp) (fun Hit Hn Hnb k => wake_table_spec n nb it wp k Hit Hn Hnb)). Qed.
Print Assumptions C08_wake_update_closed_form.

(** (a) slice b of the nb-bunch run = the single-bunch run of slice b driven by bunch b's wake potentials: every
    number of steps [k], grid size, interpolation order, RF and drift field, Fokker-Planck table reading inside its
    energy column ([fp_inside]; Identity otherwise), every sequence of per-step wake slots [wks] (None: Identity, no
    impedance; Some wp: the array wakePotential() returned at that step, whatever the field computed).  The step
    applies the maps in the order GENERATED from main()'s loop body ([step_order]). *)
Theorem C08_run_slice :
  forall (P : run_par), valid_it (rp_it P) -> 0 < rp_n P -> fp_inside P ->
  forall nb (wks : nat -> option (Z -> Qc)) (k : nat) (D : Z -> Qc) b i,
    0 <= b < nb -> 0 <= i < rp_n P * rp_n P ->
    run P nb wks k D (b * rp_n P * rp_n P + i) =
    run P 1 (fun j => wk_slice (rp_n P) b (wks j)) k (slice (rp_n P) b D) i.
Proof. exact run_slice. Qed.
Print Assumptions C08_run_slice.

(** (b) without impedance two bunches holding equal data hold equal data after every number of steps, and each is
    the single-bunch run of that data *)
Theorem C08_identical_bunches_stay_identical :
  forall (P : run_par), valid_it (rp_it P) -> 0 < rp_n P -> fp_inside P ->
  forall nb (k : nat) (D : Z -> Qc) b1 b2,
    0 <= b1 < nb -> 0 <= b2 < nb ->
    (forall i, 0 <= i < rp_n P * rp_n P -> D (b1 * rp_n P * rp_n P + i) = D (b2 * rp_n P * rp_n P + i)) ->
    forall i, 0 <= i < rp_n P * rp_n P ->
      run P nb no_wake k D (b1 * rp_n P * rp_n P + i) = run P nb no_wake k D (b2 * rp_n P * rp_n P + i) /\
      run P nb no_wake k D (b1 * rp_n P * rp_n P + i) = run P 1 no_wake k (slice (rp_n P) b1 D) i.
Proof. exact identical_bunches_stay_identical. Qed.
Print Assumptions C08_identical_bunches_stay_identical.

(** ... and with impedance as long as the field hands the two bunches equal potentials at every step *)
Theorem C08_equal_bunches_equal_wakes_stay_equal :
  forall (P : run_par), valid_it (rp_it P) -> 0 < rp_n P -> fp_inside P ->
  forall nb (wks : nat -> option (Z -> Qc)) (k : nat) (D : Z -> Qc) b1 b2,
    0 <= b1 < nb -> 0 <= b2 < nb ->
    (forall j, (j < k)%nat -> wk_agree (rp_n P) b1 b2 (wks j) (wks j)) ->
    (forall i, 0 <= i < rp_n P * rp_n P -> D (b1 * rp_n P * rp_n P + i) = D (b2 * rp_n P * rp_n P + i)) ->
    forall i, 0 <= i < rp_n P * rp_n P ->
      run P nb wks k D (b1 * rp_n P * rp_n P + i) = run P nb wks k D (b2 * rp_n P * rp_n P + i).
Proof. exact equal_bunches_equal_wakes_stay_equal. Qed.
Print Assumptions C08_equal_bunches_equal_wakes_stay_equal.

(** (c) an empty bucket (all-zero slice) stays empty for all time, whatever the wake slots hold; and what a bucket
    holds does not reach the other bunches: two runs handed the same wake slots whose data differ in bucket b only
    agree on every other bunch after every number of steps *)
Theorem C08_empty_bucket_stays_empty :
  forall (P : run_par), valid_it (rp_it P) -> 0 < rp_n P -> fp_inside P ->
  forall nb (wks : nat -> option (Z -> Qc)) (k : nat) (D : Z -> Qc) b i,
    0 <= b < nb -> (forall i, 0 <= i < rp_n P * rp_n P -> D (b * rp_n P * rp_n P + i) = 0%Qc) ->
    0 <= i < rp_n P * rp_n P -> run P nb wks k D (b * rp_n P * rp_n P + i) = 0%Qc.
Proof. exact empty_bucket_stays_empty. Qed.
Print Assumptions C08_empty_bucket_stays_empty.

Theorem C08_other_bunches_ignore_bucket :
  forall (P : run_par), valid_it (rp_it P) -> 0 < rp_n P -> fp_inside P ->
  forall nb (wks : nat -> option (Z -> Qc)) (k : nat) (D D' : Z -> Qc) b b' i,
    0 <= b' < nb -> b' <> b ->
    (forall c j, 0 <= c < nb -> c <> b -> 0 <= j < rp_n P * rp_n P ->
                 D (c * rp_n P * rp_n P + j) = D' (c * rp_n P * rp_n P + j)) ->
    0 <= i < rp_n P * rp_n P ->
    run P nb wks k D (b' * rp_n P * rp_n P + i) = run P nb wks k D' (b' * rp_n P * rp_n P + i).
Proof. exact other_bunches_ignore_bucket. Qed.
Print Assumptions C08_other_bunches_ignore_bucket.

(** the hypothesis [fp_inside] is met by the model's own Fokker-Planck table on its documented domain (and by the
    Identity slot): a table that read outside its energy column would couple neighbouring bunches *)
Theorem C08_fp_table_reads_inside :
  forall n it rf dr (e1 delta : Qc) (p : Z -> Qc) dt v lo_end hi_start,
    fp_domain dt n lo_end hi_start ->
    fp_inside (mkRunPar n it rf dr (Some (dt, fp_hinfo (K:=QcF) e1 delta p dt v n lo_end hi_start))).
Proof. exact fp_inside_model. Qed.
Print Assumptions C08_fp_table_reads_inside.

(** the list program the extracted driver runs computes [run] (tie of the correspondence to the theorems) *)
Theorem C08_run_list_computes_run :
  forall (P : run_par), valid_it (rp_it P) -> 0 < rp_n P -> fp_inside P ->
  forall nb (wl : list (option (list Qc))) (data : list Qc) (D : Z -> Qc),
    all_agree (rp_n P) nb (getQ data) D ->
    all_agree (rp_n P) nb (getQ (run_list P nb wl data))
              (run P nb (fun j => slot (nth j wl None)) (length wl) D).
Proof. exact run_list_correct. Qed.
Print Assumptions C08_run_list_computes_run.

(** Identity map (inc/SM/Identity.hpp; count and indices generated): bunch b of the copy is bunch b of the input *)
Theorem C08_identity_slice :
  forall nb n (D old old' : Z -> Qc) b i,
    0 < n -> 0 <= b < nb -> 0 <= i < n * n ->
    ident_apply nb n n D old (b * n * n + i) = ident_apply 1 n n (slice n b D) old' i.
Proof. exact ident_slice. Qed.
Print Assumptions C08_identity_slice.

(** non-vacuity / computed instance: two bunches, 4x4 cells, linear interpolation, two steps in the generated order,
    a different wake potential array in each step, the model's own 3-point Fokker-Planck table: bunch 1 of the
    two-bunch run is the single-bunch run of bunch 1's data driven by bunch 1's potentials *)
Example C08_run_example :
  let ax := map (fun j => (Qcz j - Q2Qc (3 # 2))%Qc) (zrange 4) in
  let tbl := fp_table_list 3 3 4 (Q2Qc (3 # 2)) (Q2Qc (1 # 8)) 1%Qc ax in
  let rf := map (fun x => (Q2Qc (1 # 4) * (Q2Qc (3 # 2) - Qcz x))%Qc) (zrange 4) in
  let dr := map (fun y => (Q2Qc (1 # 4) * (Qcz y - Q2Qc (3 # 2)))%Qc) (zrange 4) in
  let w0 := map (fun i => Q2Qc (Qmake (i - 3) 8)) (zrange 8) in
  let w1 := map (fun i => Q2Qc (Qmake (5 - i) 16)) (zrange 8) in
  let d := map (fun i => Qcz ((i * i) mod 7)) (zrange 32) in
  skipn 16 (run_driver 4 2 2 rf dr (Some (3, tbl)) [Some w0; Some w1] d)
  = run_driver 4 1 2 rf dr (Some (3, tbl)) [Some (skipn 4 w0); Some (skipn 4 w1)] (skipn 16 d)
  /\ run_driver 4 2 2 rf dr (Some (3, tbl)) [Some w0; Some w1] d <> d.
Proof. vm_compute. split; [reflexivity | discriminate]. Qed.

(** ** (family rfgen) the offset vectors of the RF kick and of the drift as GENERATED from the C++ on every run
    (Gen/Gen_RFDrift.v: loop bounds, the written index n*_xsize+x, the value expressions and the updateSM() call of
    RFKickMap::_calcKick - both RF models - and of the DriftMap constructor; Model/RFDriftGen.v runs them, [rs_offset] is
    `_offset`, [rs_built] the offsets updateSM() built the table from): the entry KickMap::apply reads for bunch b of an
    nb-bunch map is the entry the single-bunch map reads (the same field value), the table is built from it, and the
    drift entries do not depend on the number of bunches (entries beyond the first block stay 0 and are never read). *)
From Inovesa Require Model.RFDriftKit Gen.Gen_RFDrift Model.RFDriftGen Proofs.RFDriftGenP.
Module RFGenFamily.
Import String RFDriftKit Gen_RFDrift RFDriftGen RFDriftGenP.

Theorem C08_rf_offsets_same_for_every_bunch_generated :
  forall (K : Fld) (ftan fsin fasin : K -> K) (nb nx ny : Z) (A0 A1 : axfacts K) (M : rfk_members K) (phase ampl : K)
         (st st1 : rfd_state K) (b x : Z),
    0 <= b < nb -> 0 <= x < nx ->
    let multi := gen_calcKick ftan fsin fasin nb nx ny A0 A1 M phase ampl st in
    let single := gen_calcKick ftan fsin fasin 1 nx ny A0 A1 M phase ampl st1 in
    rs_offset multi (Z.min b (nb - 1) * nx + x) = model_kick K ftan fsin A0 A1 M phase ampl x /\
    rs_offset multi (Z.min b (nb - 1) * nx + x) = rs_offset single (Z.min 0 (1 - 1) * nx + x) /\
    rs_built multi (Z.min b (nb - 1) * nx + x) = rs_offset multi (Z.min b (nb - 1) * nx + x).
Proof. exact rf_offsets_all_bunches_generated. Qed.
Print Assumptions C08_rf_offsets_same_for_every_bunch_generated.

Theorem C08_drift_offsets_same_for_every_bunch_generated :
  forall (K : Fld) (ftan fsin fasin : K -> K) (nb nx ny : Z) (A0 A1 : axfacts K) (slip : list K) (E0 : K) (y : Z),
    0 <= y < ny ->
    let multi := gen_drift_ctor ftan fsin fasin nb nx ny A0 A1 slip E0 in
    let single := gen_drift_ctor ftan fsin fasin 1 nx ny A0 A1 slip E0 in
    rs_offset multi y = drift_off slip (ax_scale A1 U_ElectronVolt) E0 (ax_delta A0) (ax_at A1 y) /\
    rs_offset multi y = rs_offset single y /\ rs_built multi y = rs_offset multi y /\
    (forall i, ny <= i -> rs_offset multi i = f0).
Proof. exact drift_offsets_all_bunches_generated. Qed.
Print Assumptions C08_drift_offsets_same_for_every_bunch_generated.

(** with these generated offsets the slice theorems above apply: slice b of the nb-bunch RF kick whose table was built
    by the generated _calcKick is the single-bunch kick of that slice *)
Theorem C08_rf_kick_slice_generated :
  forall (ftan fsin fasin : Qc -> Qc) n nb it (A0 A1 : axfacts QcF) (M : rfk_members QcF) (phase ampl : Qc)
         (st : rfd_state QcF) (D : Z -> Qc) b x y,
    valid_it it -> 0 < n -> 0 < nb -> 0 <= b < nb -> 0 <= x < n -> 0 <= y < n ->
    let offs := rs_built (gen_calcKick (K:=QcF) ftan fsin fasin nb n n A0 A1 M phase ampl st) in
    apply_y n nb it (updateSM n it offs) D (didx n b x y) =
    apply_y n 1 it (updateSM n it (rf_offsets (K:=QcF) n (model_kick QcF ftan fsin A0 A1 M phase ampl)))
            (fun i => D (b * n * n + i)) (didx n 0 x y).
Proof. exact rf_kick_slice_generated. Qed.
Print Assumptions C08_rf_kick_slice_generated.
End RFGenFamily.

(** ** the loop nests of KickMap::apply (family st3kick): [Gen/Gen_KickLoop.v] (regenerated on every run) holds both nests
    and the list of members the function mentions.  Every bunch's every row is transformed from that row's data and the
    table alone (no other bunch's data enters: a clamp into bunch 0's values, a bunch skipped by the filling pattern are
    refused by the translator), and the function does not read a clamp flag: `--InterpolateClamped` is ignored by the CPU
    kick, so a run with the flag equals the run without it (the correspondence runs both). *)
Module KickLoopFamily.
From Coq Require Import String.
From Inovesa Require Import Gen.Gen_KickLoop Model.KickLoop Proofs.KickLoopP.

Theorem C08_kick_apply_every_bunch_row_local :
  forall nb n it (H : Z -> Z * Qc) (D D' out0 out0' : Z -> Qc) b x y,
    (0 < n)%Z -> (0 <= b < nb)%Z -> (0 <= x < n)%Z -> (0 <= y < n)%Z ->
    ((forall s, D (didx n b x s) = D' (didx n b x s)) ->
     kick_y_loops nb n n it (nb - 1) H D out0 (didx n b x y) = kick_y_loops nb n n it (nb - 1) H D' out0' (didx n b x y)) /\
    ((forall s, D (didx n b s y) = D' (didx n b s y)) ->
     kick_x_loops nb n n it (nb - 1) H D out0 (didx n b x y) = kick_x_loops nb n n it (nb - 1) H D' out0' (didx n b x y)).
Proof. exact kick_apply_row_local. Qed.
Print Assumptions C08_kick_apply_every_bunch_row_local.

Theorem C08_kick_apply_every_cell :
  forall nb n it (H : Z -> Z * Qc) (D out0 : Z -> Qc) b x y,
    (0 < n)%Z -> (0 <= b < nb)%Z -> (0 <= x < n)%Z -> (0 <= y < n)%Z ->
    kick_y_loops nb n n it (nb - 1) H D out0 (didx n b x y) = apply_y_cell n nb it H D b x y /\
    kick_x_loops nb n n it (nb - 1) H D out0 (didx n b x y) = apply_x_cell n nb it H D b x y.
Proof. exact kick_apply_every_cell. Qed.
Print Assumptions C08_kick_apply_every_cell.

Theorem C08_kick_apply_reads_no_clamp : ~ In "_clamp"%string kl_members.
Proof. exact kick_apply_reads_no_clamp. Qed.
Print Assumptions C08_kick_apply_reads_no_clamp.

Theorem C08_kick_apply_members :
  forall m, In m kl_members ->
            In m ["PhaseSpace::nb"; "_hinfo"; "_in"; "_ip"; "_kickdirection"; "_lastbunch"; "_meshsize_kd"; "_meshsize_pd"; "_out"]%string.
Proof. exact kick_apply_members. Qed.
Print Assumptions C08_kick_apply_members.
End KickLoopFamily.
