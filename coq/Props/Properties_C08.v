(** C08 - in a multi-bunch run every bunch evolves as it would on its own (kick maps). *)
From Coq Require Import List ZArith QArith Qcanon.
From Inovesa Require Import Base.FieldKit Base.Float32 Gen.Gen_Coeffs Model.Kick
  Proofs.WeightsP Proofs.KickP Proofs.KickGridP.
Local Open Scope Z_scope.

Theorem C08_apply_y_slice :
  forall n nb it (offs D : Z -> Qc) b x y,
    valid_it it -> 0 < n -> 0 < nb -> 0 <= b < nb -> 0 <= x < n -> 0 <= y < n ->
    apply_y n nb it (updateSM n it offs) D (didx n b x y) =
    apply_y n 1 it (updateSM n it (fun i => offs (b * n + i))) (fun i => D (b * n * n + i))
            (didx n 0 x y).
Proof. exact apply_y_slice. Qed.
Print Assumptions C08_apply_y_slice.

Theorem C08_apply_x_slice :
  forall n nb it (offs D : Z -> Qc) b x y,
    valid_it it -> 0 < n -> 0 < nb -> 0 <= b < nb -> 0 <= x < n -> 0 <= y < n ->
    apply_x n nb it (updateSM n it offs) D (didx n b x y) =
    apply_x n 1 it (updateSM n it offs) (fun i => D (b * n * n + i)) (didx n 0 x y).
Proof. exact apply_x_slice. Qed.
Print Assumptions C08_apply_x_slice.

(** ** Fokker-Planck step: FokkerPlanckMap::apply loops over bunches with one shared stencil table;
    the flat loop is a map of the single-bunch operator over the bunch slices (any table [H], any
    field, any number of bunches - the bunch count only bounds the index range). *)
From Inovesa Require Import Base.Sums Gen.Gen_FPStencil Model.FokkerPlanck Proofs.FPGridP.

Theorem C08_fp_apply_slice :
  forall (K : Fld) (n xs ip : Z) (H : Z -> Z * K) (D : Z -> K) (b i : Z),
    0 < n -> 0 < xs -> 0 <= i < xs * n ->
    fp_apply n xs ip H D (b * xs * n + i) = fp_apply n xs ip H (fun i' => D (b * xs * n + i')) i.
Proof. exact fp_apply_slice_gen. Qed.
Print Assumptions C08_fp_apply_slice.

(** non-vacuity and a concrete instance: bunch 1 of a two-bunch 4x4 array under the model's own table *)
Example C08_fp_slice_example :
  let ax := map (fun j => (Qcz j - Q2Qc (3 # 2))%Qc) (zrange 4) in
  let d := map Qcz (zrange 32) in
  skipn 16 (fp_apply_list 3 3 4 4 2 (Q2Qc (3 # 2)) (Q2Qc (1 # 8)) 1%Qc ax d)
  = fp_apply_list 3 3 4 4 1 (Q2Qc (3 # 2)) (Q2Qc (1 # 8)) 1%Qc ax (skipn 16 d).
Proof. vm_compute. reflexivity. Qed.

(** ** RF kick and drift (built by family rf, Model/RF.v mirrors RFKickMap::_calcKick after the
    repo's fix 072b56b and the DriftMap constructor): the entry of the offset vector that KickMap::apply
    reads for bunch b carries the same field as the one the single-bunch map reads, so slice b of the
    nb-bunch RF kick / drift is the single-bunch kick of that slice. *)
From Inovesa Require Import Model.RF Proofs.RFP Proofs.RFGridP.

Theorem C08_rf_offsets_same_for_every_bunch :
  forall (K : Fld) (n nb : Z) (f : Z -> K) (b x : Z),
    0 <= b < nb -> 0 <= x < n ->
    rf_offsets n f (Z.min b (nb - 1) * n + x) = f x /\
    rf_offsets n f (Z.min b (nb - 1) * n + x) = rf_offsets n f (Z.min 0 (1 - 1) * n + x).
Proof. exact C08_rf_offsets_all_bunches. Qed.
Print Assumptions C08_rf_offsets_same_for_every_bunch.

Theorem C08_drift_offsets_same_for_every_bunch :
  forall (K : Fld) (n : Z) (f : Z -> K) (y : Z),
    0 <= y < n ->
    drift_offsets n f y = f y /\ (forall i, n <= i -> drift_offsets n f i = f0).
Proof. exact C08_drift_offsets_all_bunches. Qed.
Print Assumptions C08_drift_offsets_same_for_every_bunch.

Theorem C08_rf_kick_slice :
  forall n nb it (f : Z -> Qc) (D : Z -> Qc) b x y,
    valid_it it -> 0 < n -> 0 < nb -> 0 <= b < nb -> 0 <= x < n -> 0 <= y < n ->
    apply_y n nb it (updateSM n it (rf_offsets (K:=QcF) n f)) D (didx n b x y) =
    apply_y n 1 it (updateSM n it (rf_offsets (K:=QcF) n f)) (fun i => D (b * n * n + i)) (didx n 0 x y).
Proof. exact rf_kick_slice. Qed.
Print Assumptions C08_rf_kick_slice.

Theorem C08_drift_kick_slice :
  forall n nb it (f : Z -> Qc) (D : Z -> Qc) b x y,
    valid_it it -> 0 < n -> 0 < nb -> 0 <= b < nb -> 0 <= x < n -> 0 <= y < n ->
    apply_x n nb it (updateSM n it (drift_offsets (K:=QcF) n f)) D (didx n b x y) =
    apply_x n 1 it (updateSM n it (drift_offsets (K:=QcF) n f)) (fun i => D (b * n * n + i)) (didx n 0 x y).
Proof. exact drift_kick_slice. Qed.
Print Assumptions C08_drift_kick_slice.
