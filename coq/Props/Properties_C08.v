(** C08 - in a multi-bunch run every bunch evolves as it would on its own (kick maps). *)
From Coq Require Import List ZArith QArith Qcanon.
From Inovesa Require Import Base.FieldKit Base.Float32 Gen.Gen_Coeffs Model.Kick
  Proofs.WeightsP Proofs.KickP Proofs.KickGridP.
Local Open Scope Z_scope.

Theorem C08_apply_y_slice :
  forall n nb it (offs D : Z -> Qc) b x y,
    valid_it it -> 0 < n -> 0 < nb -> 0 <= b < nb -> 0 <= x < n -> 0 <= y < n ->
    apply_y n nb it (updateSM n it offs) D (didx n b x y) =
    apply_y n 1 it (updateSM n it (fun i => offs (b * n + i))) (fun i => D (b * n * n + i))
            (didx n 0 x y).
Proof. exact apply_y_slice. Qed.
Print Assumptions C08_apply_y_slice.

Theorem C08_apply_x_slice :
  forall n nb it (offs D : Z -> Qc) b x y,
    valid_it it -> 0 < n -> 0 < nb -> 0 <= b < nb -> 0 <= x < n -> 0 <= y < n ->
    apply_x n nb it (updateSM n it offs) D (didx n b x y) =
    apply_x n 1 it (updateSM n it offs) (fun i => D (b * n * n + i)) (didx n 0 x y).
Proof. exact apply_x_slice. Qed.
Print Assumptions C08_apply_x_slice.
