(** C18 - wake and CSR spectrum depend on the current profile only, not on past calls.
    Only statements closed by [exact]; model in Model/EField.v, proofs in Proofs/EFieldP.v,
    DESIGN.md 5/C18.  [rz E = true] is the tree after the commit "fix: ElectricField clears
    the padded profile buffer before writing it", [rz E = false] the pinned tree. *)
From Coq Require Import List ZArith Bool.
From Inovesa Require Import Model.EField Proofs.EFieldP.
Import ListNotations.
Local Open Scope Z_scope.

(** For every history of wakePotential / padBunchProfiles / updateCSR calls with arbitrary
    profiles on one object, every grid size, transform length (even, odd, prime), spacing and
    bucket pattern, and WHATEVER the two transforms compute: what the last call returns equals
    what a freshly constructed object returns for the same call.  Hypothesis (B): the inverse
    transform does not turn a zero cell floor(N/2) of its input into a non-zero one (that cell
    is never rewritten by the loop [i < nmax/2]); monitored on the implementation. *)
Theorem C18_history_independence :
  forall (T C : Type) (E : env T C), rz E = true -> hypB E -> 0 <= nmax E ->
  forall (h : list (op T)) (o : op T),
    observe E o (run E (h ++ [o]) (fresh E)) = observe E o (run E [o] (fresh E)).
Proof. exact @history_independence. Qed.
Print Assumptions C18_history_independence.

(** Both source versions: independence holds for every history none of whose operations writes
    a cell of the padded buffer that the final operation does not rewrite (hypothesis (A): "bp
    is zero outside the cells the next operation rewrites"). *)
Theorem C18_history_independence_general :
  forall (T C : Type) (E : env T C), hypB E -> 0 <= nmax E ->
  forall (h : list (op T)) (o : op T), hypA E h o ->
    observe E o (run E (h ++ [o]) (fresh E)) = observe E o (run E [o] (fresh E)).
Proof. exact @history_independence_general. Qed.
Print Assumptions C18_history_independence_general.

(** The pinned tree violates (A) and the statement: a computed history on a small instance
    (nx=2, N=8, one bunch whose bucket starts at cell 3; transforms that mix all cells):
    updateCSR(p) then wakePotential(p) differs from wakePotential(p) on a fresh object. *)
Theorem C18_history_independence_pinned_refuted :
  exists (E : env Z (Z * Z)) (h : list (op Z)) (o : op Z),
    rz E = false /\ hypB_strong E /\ 0 <= nmax E /\
    observe E o (run E (h ++ [o]) (fresh E)) <> observe E o (run E [o] (fresh E)).
Proof. exact pinned_history_dependence. Qed.
Print Assumptions C18_history_independence_pinned_refuted.

(** ... and with two bunches padBunchProfiles(p) then updateCSR(p) differs from updateCSR(p). *)
Theorem C18_history_independence_pinned_csr_refuted :
  exists (E : env Z (Z * Z)) (h : list (op Z)) (o : op Z),
    rz E = false /\ hypB_strong E /\ 0 <= nmax E /\
    observe E o (run E (h ++ [o]) (fresh E)) <> observe E o (run E [o] (fresh E)).
Proof. exact pinned_history_dependence_csr. Qed.
Print Assumptions C18_history_independence_pinned_csr_refuted.

(** What does hold in the pinned tree as well (partial: excludes exactly the finding):
    histories of one kind - wake/padding only or CSR only, the way src/main.cpp uses its two
    field objects - ... *)
Theorem C18_history_independence_one_kind_partial :
  forall (T C : Type) (E : env T C), hypB E -> 0 <= nmax E ->
  forall (h : list (op T)) (o : op T), (forall o', In o' h -> is_csr o' = is_csr o) ->
    observe E o (run E (h ++ [o]) (fresh E)) = observe E o (run E [o] (fresh E)).
Proof. exact @history_independence_one_kind. Qed.
Print Assumptions C18_history_independence_one_kind_partial.

(** ... and all histories for a single bunch whose bucket starts at cell 0. *)
Theorem C18_history_independence_single_bunch_origin_partial :
  forall (T C : Type) (E : env T C), hypB E -> 0 <= nmax E ->
  forall (bk : Z) (h : list (op T)) (o : op T), buckets E = [bk] -> bk * spc E = 0 ->
    observe E o (run E (h ++ [o]) (fresh E)) = observe E o (run E [o] (fresh E)).
Proof. exact @history_independence_single_bunch_origin. Qed.
Print Assumptions C18_history_independence_single_bunch_origin_partial.

(** Hypothesis (B) cannot be dropped: with an inverse transform that changes cell floor(N/2)
    of its input, the second of two identical wakePotential calls differs (fixed tree). *)
Theorem C18_hypothesis_B_needed :
  exists (E : env Z (Z * Z)) (h : list (op Z)) (o : op Z),
    rz E = true /\ 0 <= nmax E /\ ~ hypB E /\
    observe E o (run E (h ++ [o]) (fresh E)) <> observe E o (run E [o] (fresh E)).
Proof. exact hypothesis_B_needed. Qed.
Print Assumptions C18_hypothesis_B_needed.

(** The form of (B) that is monitored (cell floor(N/2) unchanged whatever it holds) implies
    the form the proof uses. *)
Theorem C18_hypB_strong_suffices :
  forall (T C : Type) (E : env T C), hypB_strong E -> hypB E.
Proof. exact @hypB_strong_hypB. Qed.
Print Assumptions C18_hypB_strong_suffices.

(** Every operation changes only the cells the model's footprint functions name (these
    functions are what the correspondence compares with the cells the implementation changes). *)
Theorem C18_footprint_sound :
  forall (T C : Type) (E : env T C) (o : op T) (s : state T C) (i : Z),
    (writes_bp E o i = false -> bp (step E o s) i = bp s i) /\
    (writes_ff E o i = false -> ff (step E o s) i = ff s i) /\
    (writes_wl E o i = false -> wl (step E o s) i = wl s i) /\
    (writes_wp E o i = false -> wp (step E o s) i = wp s i) /\
    (writes_wake E o i = false -> wake (step E o s) i = wake s i) /\
    (writes_csr E o i = false -> csr (step E o s) i = csr s i) /\
    (writes_csri E o i = false -> csri (step E o s) i = csri s i).
Proof. exact @footprint_sound. Qed.
Print Assumptions C18_footprint_sound.

(** non-vacuity: the hypotheses of the main theorem hold for a concrete instance, and the
    refuting history of the pinned tree gives equal results there *)
Example C18_hypotheses_satisfiable :
  rz E_fixed = true /\ hypB E_fixed /\ 0 <= nmax E_fixed.
Proof. exact fixed_hyps. Qed.

Example C18_fixed_instance :
  observe E_fixed (Wake p_ghost) (run E_fixed ([CSR 0 p_ghost] ++ [Wake p_ghost]) (fresh E_fixed))
  = observe E_fixed (Wake p_ghost) (run E_fixed [Wake p_ghost] (fresh E_fixed)).
Proof. exact fixed_ghost_gone. Qed.

Example C18_hypA_satisfiable_pinned :
  hypA E_ghost [Wake p_ghost; Pad p_ghost] (Wake p_ghost).
Proof. exact pinned_hypA_example. Qed.
